(* C02 — discharging `linear_on_box` (the hypothesis of resolve_linear) for the layouts the compiler
   produces: every strided layout (any strides, any static offset, any affine schedule), and
   tiled-strided layouts whose tiling is aligned with the schedule's tiling of the index. *)
From Snax Require Import Base.Prelude Base.ListAux Model.C02Stream Proofs.C02StreamProofs.

(* ---- vectors -------------------------------------------------------------------------------- *)
Definition vadd (a b : list Z) : list Z := map (fun p => fst p + snd p) (combine a b).
Definition vscale (c : Z) (a : list Z) : list Z := map (Z.mul c) a.

Lemma vadd_length a b : List.length a = List.length b -> List.length (vadd a b) = List.length a.
Proof. intros H. unfold vadd. rewrite map_length, combine_length. lia. Qed.
Lemma vscale_length c a : List.length (vscale c a) = List.length a.
Proof. apply map_length. Qed.

Lemma dot_nil_l x : dot [] x = 0.
Proof. reflexivity. Qed.

Lemma dot_vadd a : forall b x, List.length a = List.length b -> dot (vadd a b) x = dot a x + dot b x.
Proof.
  induction a as [|a0 a IH]; intros [|b0 b] x H; simpl in H; try discriminate; [reflexivity|].
  destruct x as [|x0 x]; [rewrite !dot_nil_r; reflexivity|].
  change (vadd (a0 :: a) (b0 :: b)) with ((a0 + b0) :: vadd a b). rewrite !dot_cons, IH by lia. lia.
Qed.

Lemma dot_vscale c a : forall x, dot (vscale c a) x = c * dot a x.
Proof.
  induction a as [|a0 a IH]; intros x; [cbn; lia|].
  destruct x as [|x0 x]; [rewrite !dot_nil_r; lia|].
  change (vscale c (a0 :: a)) with ((c * a0) :: vscale c a). rewrite !dot_cons, IH. lia.
Qed.

Lemma dot_zero_l n x : dot (zero_vec n) x = 0.
Proof.
  revert x. induction n as [|n IH]; intros x; [reflexivity|]. destruct x as [|x0 x]; [reflexivity|].
  change (zero_vec (S n)) with (0 :: zero_vec n). rewrite dot_cons, IH. lia.
Qed.

Lemma zero_vec_length n : List.length (zero_vec n) = n.
Proof. apply repeat_length. Qed.

(* ---- strided layouts --------------------------------------------------------------------------
   f x = (sum_d strides_d * (A_d . x + b_d) + offset) * elsize is affine in x: coefficients
   elsize * sum_d strides_d * A_d *)
Fixpoint comb (n : nat) (strides : list Z) (AB : list (list Z * Z)) : list Z :=
  match strides, AB with
  | s :: ss, (row, _) :: rest => vadd (vscale s row) (comb n ss rest)
  | _, _ => zero_vec n
  end.

Definition rows_ok (n : nat) (AB : list (list Z * Z)) : Prop := Forall (fun rb => List.length (fst rb) = n) AB.

Lemma comb_length n : forall strides AB, rows_ok n AB -> List.length (comb n strides AB) = n.
Proof.
  induction strides as [|s ss IH]; intros AB HA; [apply zero_vec_length|].
  destruct AB as [|[row b0] rest]; [apply zero_vec_length|].
  unfold rows_ok in HA. inversion HA as [|? ? Hrow Hrest]. cbn [fst] in Hrow. cbn [comb].
  rewrite vadd_length; rewrite vscale_length; [exact Hrow|]. rewrite IH by exact Hrest. exact Hrow.
Qed.

Lemma dot_sched n : forall strides AB x, rows_ok n AB ->
  dot strides (map (fun rb => dot (fst rb) x + snd rb) AB) = dot (comb n strides AB) x + dot strides (map snd AB).
Proof.
  induction strides as [|s ss IH]; intros AB x HA.
  - cbn [comb]. rewrite dot_zero_l. reflexivity.
  - destruct AB as [|[row b0] rest]; [cbn [comb map]; rewrite dot_zero_l, !dot_nil_r; reflexivity|].
    unfold rows_ok in HA. inversion HA as [|? ? Hrow Hrest]. cbn [fst] in Hrow. cbn [map fst snd comb]. rewrite !dot_cons.
    rewrite (IH rest x Hrest).
    rewrite dot_vadd by (rewrite vscale_length, comb_length by assumption; exact Hrow).
    rewrite dot_vscale. lia.
Qed.

(* Every strided layout (any strides, any static offset, any element size) composed with any affine schedule
   (any matrix with rows of the iteration rank, any offsets) is linear on every box. *)
Theorem strided_linear_on_box strides offset elsize A b bounds :
  rows_ok (List.length bounds) (combine A b) ->
  linear_on_box (access_mem (LStrided strides offset) elsize A b) bounds.
Proof.
  intros HA. set (n := List.length bounds) in *.
  exists (vscale elsize (comb n strides (combine A b))). split.
  - rewrite vscale_length. apply comb_length. exact HA.
  - intros x Hx. unfold access_mem, layout_bytes, strided_bytes, sched_eval.
    rewrite !(dot_sched n) by exact HA. rewrite dot_vscale.
    rewrite dot_zero_vec. lia.
Qed.

(* hence layout resolution is exact for every strided operand: the premise of resolve_linear always holds *)
Corollary resolve_strided strides offset elsize A b bounds x :
  rows_ok (List.length bounds) (combine A b) -> in_box x bounds ->
  let f := access_mem (LStrided strides offset) elsize A b in
  dot (resolve f (List.length bounds)) x = f x - f (zero_vec (List.length bounds)).
Proof. intros HA Hx f. apply resolve_linear; [apply strided_linear_on_box; exact HA|exact Hx]. Qed.

(* ---- tiled-strided layouts aligned with the schedule's tiling ------------------------------------
   One index dimension with tiles (step_t, bound_t), outermost first.  When the schedule writes the index
   in the mixed radix of the tile bounds, i = sum_t x_t * prod_{u>t} bound_u with 0 <= x_t < bound_t
   (the outermost digit only needs 0 <= x), the layout's div/mod chain returns exactly the digits:
   tsl_dim i = sum_t step_t * x_t.  This is the alignment that makes layout∘schedule linear on the box. *)
Fixpoint weights (tiles : list (Z * Z)) : list Z :=
  match tiles with
  | [] => []
  | _ :: rest => zprod (map snd rest) :: weights rest
  end.

Fixpoint digits_ok (first : bool) (tiles : list (Z * Z)) (xs : list Z) : Prop :=
  match tiles, xs with
  | [], [] => True
  | (_, b) :: rest, x :: xs' => 0 <= x /\ (first = false -> x < b) /\ digits_ok false rest xs'
  | _, _ => False
  end.

Definition bounds_pos (tiles : list (Z * Z)) : Prop := Forall (fun t => 0 < snd t) tiles.

Lemma zprod_cons a l : zprod (a :: l) = a * zprod l.
Proof. reflexivity. Qed.

Lemma zprod_snd_pos tiles : bounds_pos tiles -> 0 < zprod (map snd tiles).
Proof.
  induction 1 as [|[s b] l Hb _ IH]; [reflexivity|]. cbn [map snd] in *. rewrite zprod_cons. nia.
Qed.

Lemma radix_bound tiles : forall xs, bounds_pos tiles -> digits_ok false tiles xs ->
  0 <= dot (weights tiles) xs < zprod (map snd tiles).
Proof.
  induction tiles as [|[s b] rest IH]; intros xs Hp Hd.
  - destruct xs; [|contradiction]. cbn. lia.
  - destruct xs as [|x xs']; [contradiction|]. cbn [digits_ok] in Hd. destruct Hd as [H0 [Hb Hd]].
    specialize (Hb eq_refl). inversion Hp as [|? ? Hbp Hp']; subst. cbn [snd] in Hbp.
    cbn [weights map snd]. rewrite dot_cons, zprod_cons.
    specialize (IH xs' Hp' Hd). pose proof (zprod_snd_pos rest Hp') as HF. nia.
Qed.

Lemma tsl_dim_shift tiles : forall i k, bounds_pos tiles ->
  tsl_dim false tiles (i + k * zprod (map snd tiles)) = tsl_dim false tiles i.
Proof.
  induction tiles as [|[s b] rest IH]; intros i k Hp; [reflexivity|].
  inversion Hp as [|? ? Hbp Hp']; subst. cbn [snd] in Hbp.
  cbn [tsl_dim map snd]. rewrite zprod_cons. pose proof (zprod_snd_pos rest Hp') as HF.
  replace (i + k * (b * zprod (map snd rest))) with (i + (k * b) * zprod (map snd rest)) by ring.
  rewrite (IH i (k * b) Hp'). f_equal. f_equal. f_equal.
  replace (i + k * b * zprod (map snd rest)) with (i + k * (b * zprod (map snd rest))) by ring.
  apply Z.mod_add. nia.
Qed.

Lemma tsl_dim_digits tiles : forall first xs, bounds_pos tiles -> digits_ok first tiles xs ->
  tsl_dim first tiles (dot (weights tiles) xs) = dot (map fst tiles) xs.
Proof.
  induction tiles as [|[s b] rest IH]; intros first xs Hp Hd.
  - destruct xs; [reflexivity|contradiction].
  - destruct xs as [|x xs']; [contradiction|]. cbn [digits_ok] in Hd. destruct Hd as [H0 [Hb Hd]].
    inversion Hp as [|? ? Hbp Hp']; subst. cbn [snd] in Hbp.
    pose proof (zprod_snd_pos rest Hp') as HF.
    pose proof (radix_bound rest xs' Hp' Hd) as Hr.
    cbn [weights map fst snd tsl_dim]. rewrite !dot_cons.
    set (F := zprod (map snd rest)) in *. set (r := dot (weights rest) xs') in *.
    assert (Hshift : tsl_dim false rest (F * x + r) = tsl_dim false rest r).
    { replace (F * x + r) with (r + x * F) by ring. apply tsl_dim_shift. exact Hp'. }
    rewrite Hshift. unfold r. rewrite (IH false xs' Hp' Hd). fold r.
    assert (Hq : (F * x + r) / F = x).
    { replace (F * x + r) with (x * F + r) by ring. rewrite Z.div_add_l by lia. rewrite Z.div_small by lia. lia. }
    destruct first.
    + rewrite Hq. lia.
    + specialize (Hb eq_refl). rewrite Z.mod_small by nia. rewrite Hq. lia.
Qed.

(* one-dimensional operand, tiles aligned with the schedule: the schedule row is the mixed-radix weight vector
   of the tile bounds and every iteration bound is the tile bound (the outermost may be anything) *)
Fixpoint box_digits (first : bool) (tiles : list (Z * Z)) (bounds : list Z) : Prop :=
  match tiles, bounds with
  | [], [] => True
  | (_, b) :: rest, bd :: bds => (first = false -> bd <= b) /\ box_digits false rest bds
  | _, _ => False
  end.

Lemma in_box_digits tiles : forall first bounds x, box_digits first tiles bounds -> in_box x bounds ->
  digits_ok first tiles x.
Proof.
  induction tiles as [|[s b] rest IH]; intros first bounds x Hb Hx.
  - destruct bounds; [|contradiction]. destruct x; [exact I|contradiction].
  - destruct bounds as [|bd bds]; [contradiction|]. destruct x as [|x0 x]; [contradiction|].
    cbn [box_digits] in Hb. cbn [in_box] in Hx. destruct Hb as [Hb Hbs]. destruct Hx as [Hx0 Hx].
    cbn [digits_ok]. split; [lia|]. split; [intros E; specialize (Hb E); lia|]. exact (IH false bds x Hbs Hx).
Qed.

Theorem tsl_aligned_linear_on_box tiles elsize bounds :
  bounds_pos tiles -> box_digits true tiles bounds ->
  linear_on_box (access_mem (LTsl [tiles]) elsize [weights tiles] [0]) bounds.
Proof.
  intros Hp Hb. exists (vscale elsize (map fst tiles)). split.
  - rewrite vscale_length, map_length. clear -Hb. revert bounds Hb. generalize true.
    induction tiles as [|[s b] rest IH]; intros first [|bd bds] Hb; cbn [box_digits] in Hb; try contradiction; [reflexivity|].
    cbn [List.length]. f_equal. exact (IH false bds (proj2 Hb)).
  - intros x Hx.
    assert (Hval : forall y, digits_ok true tiles y ->
              access_mem (LTsl [tiles]) elsize [weights tiles] [0] y = elsize * dot (map fst tiles) y).
    { intros y Hy. unfold access_mem, layout_bytes, tsl_bytes, sched_eval. cbn [combine map fst snd].
      rewrite Z.add_0_r. rewrite (tsl_dim_digits tiles true y Hp Hy). unfold zsum. cbn [fold_right]. lia. }
    rewrite (Hval x (in_box_digits tiles true bounds x Hb Hx)).
    assert (Hz : access_mem (LTsl [tiles]) elsize [weights tiles] [0] (zero_vec (List.length bounds)) = 0).
    { unfold access_mem, layout_bytes, tsl_bytes, sched_eval. cbn [combine map fst snd].
      rewrite dot_zero_vec. cbn [Z.add]. clear. unfold zsum. cbn [fold_right].
      assert (H0 : forall first, tsl_dim first tiles 0 = 0).
      { induction tiles as [|[s b] rest IH]; intros first; [reflexivity|]. cbn [tsl_dim]. rewrite IH.
        destruct first; rewrite ?Zmod_0_l, Zdiv_0_l; lia. }
      rewrite H0. lia. }
    rewrite Hz, dot_vscale. lia.
Qed.

(* ---- the whole resolution (repaired F5 + F5b): base pointer + strides reproduce the access map ------ *)
Theorem resolve_exact f bounds x :
  linear_on_box f bounds -> in_box x bounds ->
  resolve_base f (List.length bounds) + dot (resolve f (List.length bounds)) x = f x.
Proof. intros Hl Hx. unfold resolve_base. rewrite (resolve_linear f bounds Hl x Hx). lia. Qed.

(* before the repair of F5b the constant term was dropped: any static layout offset refutes exactness *)
Example resolve_without_base_refuted :
  let f := access_mem (LStrided [1] 5) 8 [[4; 1]] [0] in
  linear_on_box f [4; 4] /\ resolve_base f 2 = 40 /\ dot (resolve f 2) [1; 1] <> f [1; 1].
Proof.
  cbv zeta. split; [|split; [reflexivity|vm_compute; discriminate]].
  apply (strided_linear_on_box [1] 5 8 [[4; 1]] [0] [4; 4]). repeat constructor.
Qed.

(* ---- the Safe class linear_on_box is decidable: a certificate check over the box ------------------- *)
From Snax Require Model.Tsl Proofs.TslProofs.
From Snax Require Import Model.C02Check.

Lemma in_box_Forall2 x : forall bounds, in_box x bounds <-> Forall2 (fun i n => 0 <= i < n) x bounds.
Proof.
  induction x as [|a x IH]; intros [|b bs]; cbn [in_box].
  - split; [constructor|trivial].
  - split; [contradiction|intros H; inversion H].
  - split; [contradiction|intros H; inversion H].
  - split.
    + intros [Ha Hx]. constructor; [exact Ha|apply IH; exact Hx].
    + intros H. inversion H as [|? ? ? ? Ha Hx]; subst. split; [exact Ha|apply IH; exact Hx].
Qed.

Theorem linear_on_boxb_sound f bounds : linear_on_boxb f bounds = true -> linear_on_box f bounds.
Proof.
  unfold linear_on_boxb. intros H. rewrite forallb_forall in H.
  exists (resolve f (List.length bounds)). split; [apply resolve_length|].
  intros x Hx. apply Z.eqb_eq. apply H. apply TslProofs.in_row_major. apply in_box_Forall2. exact Hx.
Qed.

Theorem linear_on_boxb_complete f bounds : linear_on_box f bounds -> linear_on_boxb f bounds = true.
Proof.
  intros Hl. unfold linear_on_boxb. apply forallb_forall. intros x Hx. apply Z.eqb_eq.
  apply TslProofs.in_row_major in Hx. apply in_box_Forall2 in Hx.
  rewrite (resolve_linear f bounds Hl x Hx). lia.
Qed.
