(* C05 — copy_dynamic_partial: layouts whose OUTERMOST tile bounds are dynamic (static steps, static
   offsets), resolved on a run-time shape that the inner tiles divide.  The code produced by the
   run-time lowering (Model/C05Dyn.lower_dyn) moves every element of the resolved layouts.
   Partial: the common contiguous block and the value-membership decisions must not depend on the
   dynamic bounds (two decidable side conditions), besides Safe_lccb on the resolved layouts. *)
From Coq Require Import Permutation.
From Snax Require Import Base.Prelude Base.ListAux Model.Tsl Model.TslOps Model.C05Copy Model.C05Dyn
  Proofs.TslProofs Proofs.C05MemProofs Proofs.C05DigitProofs Proofs.C05LccbProofs Proofs.C05CopyProofs
  Proofs.C05MainProofs Proofs.C05DynProofs.

Definition res_stride (b : Z) (s : stride) : stride :=
  match s with (st, None) => (st, Some b) | _ => s end.
Definition res_tstride (t : tstride) (n : Z) : tstride :=
  match t with [] => [] | s0 :: r => res_stride (n / bounds_prod t) s0 :: r end.
Fixpoint res_ts (ts : list tstride) (shape : list Z) : list tstride :=
  match ts, shape with
  | t :: ts', n :: sh' => res_tstride t n :: res_ts ts' sh'
  | _, _ => ts
  end.
Definition resolve (l : layout) (shape : list Z) : layout := mkLayout (res_ts (tstrides l) shape) (offset l).

Lemma res_ts_length ts : forall sh, length (res_ts ts sh) = length ts.
Proof. induction ts as [|t ts IH]; intros [|n sh]; cbn; try reflexivity. rewrite IH. reflexivity. Qed.

(* anything that does not look at a resolved bound is unchanged *)
Lemma map_res_ts {A} (g : stride -> A) : (forall b s, g (res_stride b s) = g s) ->
  forall ts sh, map g (concat (res_ts ts sh)) = map g (concat ts).
Proof.
  intros Hg. induction ts as [|t ts IH]; intros [|n sh]; cbn [res_ts concat]; try reflexivity.
  rewrite !map_app, IH. f_equal. destruct t as [|s0 r]; [reflexivity|]. cbn [res_tstride map]. rewrite Hg. reflexivity.
Qed.

Lemma sstep_res b s : sstep (res_stride b s) = sstep s.
Proof. destruct s as [st [b'|]]; reflexivity. Qed.
Lemma sstp_res b s : sstp (res_stride b s) = sstp s.
Proof. destruct s as [[a|] [b'|]]; reflexivity. Qed.

Lemma dim_bound_vals_resolve t n : tstride_ok (res_tstride t n) ->
  dim_bound_vals t n = Some (map sbnd (res_tstride t n)).
Proof.
  destruct t as [|s0 rest]; [reflexivity|]. cbn [res_tstride]. intros H. inversion H as [|? ? H0 Hr]; subst.
  unfold dim_bound_vals.
  assert (E : forallb (fun s => match sbound s with Some _ => true | None => false end) rest = true).
  { apply forallb_forall. intros s Hs. destruct (proj1 (Forall_forall _ _) Hr s Hs) as [a' [b' [-> _]]]. reflexivity. }
  rewrite E. cbn [map]. f_equal. f_equal.
  - destruct s0 as [[a|] [b|]]; reflexivity.
  - apply map_ext_in. intros s Hs. destruct (proj1 (Forall_forall _ _) Hr s Hs) as [a' [b' [-> _]]]. reflexivity.
Qed.

Lemma bound_vals_resolve ts : forall sh, length sh = length ts -> Forall tstride_ok (res_ts ts sh) ->
  bound_vals ts sh = Some (map (map sbnd) (res_ts ts sh)).
Proof.
  induction ts as [|t ts IH]; intros [|n sh] Hl Hok; try discriminate; [reflexivity|].
  cbn [res_ts] in *. inversion Hok as [|? ? Ht Hts]; subst. cbn [bound_vals map].
  rewrite (dim_bound_vals_resolve t n Ht), (IH sh) by (try exact Hts; simpl in Hl; lia). reflexivity.
Qed.

Lemma remaining_dyn_flags lcb : forall ss ss' vals,
  map (fun s => value_in s lcb) ss = map (fun s => value_in s lcb) ss' ->
  map snd (remaining_dyn lcb ss vals) = map snd (remaining_dyn lcb ss' vals).
Proof.
  induction ss as [|s ss IH]; intros [|s' ss'] vals H; try discriminate; [reflexivity|].
  cbn [map] in H. inversion H as [[H1 H2]]. destruct vals as [|[b [x y]] vals]; [reflexivity|].
  cbn [remaining_dyn]. rewrite H1. destruct (value_in s' lcb); [apply IH; exact H2|].
  cbn [map snd]. f_equal. apply IH. exact H2.
Qed.

Lemma insert_desc_d_perm x l : Permutation (x :: l) (insert_desc_d x l).
Proof.
  induction l as [|y l IH]; cbn [insert_desc_d]; [apply Permutation_refl|].
  destruct (dkey x <? dkey y); [|apply Permutation_refl].
  apply Permutation_trans with (y :: x :: l); [apply perm_swap|]. constructor. exact IH.
Qed.
Lemma sort_desc_d_perm l : Permutation l (sort_desc_d l).
Proof.
  induction l as [|x l IH]; [constructor|]. cbn [sort_desc_d fold_right].
  apply Permutation_trans with (x :: sort_desc_d l); [constructor; exact IH|apply insert_desc_d_perm].
Qed.

(* the emitted code as a function of the sorted (bound, source step, destination step) values *)
Definition code_of_vals (el so do_ size1 : Z) (lcb : list stride) (vals : list (Z * Z * Z)) : option code :=
  match vals with
  | [] => Some (CDma1 (el * so, []) (el * do_, []) size1)
  | (hb, hs, hd) :: loops =>
      match sval (last lcb (None, None)) with
      | None => None
      | Some (ls, lb) =>
          Some (nest (map (fun v => fst (fst v)) loops)
                  (CDma2 (el * so, map (fun v => snd (fst v)) loops) (el * do_, map (fun v => snd v) loops)
                         (lb * ls * el) hs hd hb))
      end
  end.

Lemma lower_dyn_unfold src dst el rshape smd dmd so do_ bv :
  off_val src smd = Some so -> off_val dst dmd = Some do_ -> bound_vals (tstrides src) rshape = Some bv ->
  length (all_strides src) = length (all_strides dst) ->
  lower_dyn_body src dst el rshape smd dmd =
  code_of_vals el so do_ (zprod rshape * el) (lccb src dst 1)
    (map snd (sort_desc_d (remaining_dyn (lccb src dst 1) (all_strides src)
       (combine (concat bv) (combine (step_vals_md src (concat bv) el smd) (step_vals_md dst (concat bv) el dmd)))))).
Proof.
  intros H1 H2 H3 H4. unfold lower_dyn_body. rewrite H1, H2, H3, H4, Nat.eqb_refl. cbn [negb].
  destruct (sort_desc_d _) as [|[s [[hb hs] hd]] loops]; [reflexivity|].
  cbn [map snd code_of_vals]. destruct (sval (last (lccb src dst 1) (None, None))) as [[ls lb]|]; [|reflexivity].
  rewrite !map_map. reflexivity.
Qed.

Definition hv (el : Z) (t : tri) : Z * Z * Z := (tb t, tsrc t * el, tdst t * el).

Section DynCopy.
  Variables (src dst : layout) (el so do_ : Z) (rshape : list Z) (smd dmd : rtmd).
  Let rs := resolve src rshape.
  Let rd := resolve dst rshape.
  Hypothesis Hrs : layout_ok rs.
  Hypothesis Hrd : layout_ok rd.
  Hypothesis Hetb : equal_tile_bounds rs rd = true.
  Hypothesis Hsafe : safe_lccb rs rd = true.
  Hypothesis Hel : 0 < el.
  Hypothesis Hso : offset src = Some so.
  Hypothesis Hdo : offset dst = Some do_.
  Hypothesis Hrank : rshape <> [].                               (* rank 0: the pass asserts *)
  Hypothesis Hshape : rshape = shape_of rs.                      (* the inner tiles divide the run-time sizes *)
  Hypothesis Hlcb : lccb src dst 1 = lccb rs rd 1.               (* the block does not depend on dynamic bounds *)
  Hypothesis Hval : map (fun s => value_in s (lccb rs rd 1)) (all_strides src) =
                    map (fun s => value_in s (lccb rs rd 1)) (all_strides rs).

  Let R := RR rs rd.
  Let C := CC rs rd.
  Let U := UU rs rd.
  Let E := EE rs rd.

  Lemma strides_len : length (all_strides src) = length (all_strides dst).
  Proof.
    pose proof (equal_tile_bounds_keys rs rd Hetb) as Hk.
    assert (H : length (all_strides rs) = length (all_strides rd)).
    { rewrite <- !map_snd_entries, !map_length. rewrite <- (map_length fst (entries rs)), Hk, map_length. reflexivity. }
    unfold rs, rd, resolve, all_strides in H. cbn [tstrides] in H.
    rewrite <- (map_length sstep), (map_res_ts sstep sstep_res), map_length in H.
    rewrite <- (map_length sstep (concat (res_ts (tstrides dst) rshape))), (map_res_ts sstep sstep_res), map_length in H.
    exact H.
  Qed.

  Lemma src_steps (l : layout) : layout_ok (resolve l rshape) -> Forall step_static (all_strides l).
  Proof.
    intros Hok. pose proof (layout_ok_steps _ Hok) as H. unfold step_static in *.
    assert (Hm : map sstep (all_strides (resolve l rshape)) = map sstep (all_strides l))
      by (apply (map_res_ts sstep sstep_res)).
    apply Forall_forall. intros s Hs. apply (in_map sstep) in Hs. rewrite <- Hm in Hs.
    apply in_map_iff in Hs as [s' [E' Hs']]. rewrite <- E'. apply (proj1 (Forall_forall _ _) H s' Hs').
  Qed.

  (* the values of the sorted remaining strides are those of a permutation R' of R *)
  Lemma dyn_vals : exists R', Permutation R R' /\
    lower_dyn src dst el rshape smd dmd =
    code_of_vals el so do_ (zprod rshape * el) (lccb rs rd 1) (map (hv el) R').
  Proof.
    assert (Hlen : length rshape = length (tstrides src)).
    { pose proof (f_equal (@length Z) Hshape) as H. unfold shape_of in H. rewrite map_length in H.
      change (tstrides rs) with (res_ts (tstrides src) rshape) in H. rewrite res_ts_length in H. exact H. }
    pose proof (bound_vals_resolve (tstrides src) rshape Hlen Hrs) as Hbv.
    assert (Ho1 : off_val src smd = Some so) by (unfold off_val; rewrite Hso; reflexivity).
    assert (Ho2 : off_val dst dmd = Some do_) by (unfold off_val; rewrite Hdo; reflexivity).
    assert (Ew : lower_dyn src dst el rshape smd dmd = lower_dyn_body src dst el rshape smd dmd).
    { unfold lower_dyn. destruct rshape; [elim Hrank; reflexivity|reflexivity]. }
    rewrite Ew.
    rewrite (lower_dyn_unfold src dst el rshape smd dmd so do_ _ Ho1 Ho2 Hbv strides_len).
    assert (Hfb : concat (map (map sbnd) (res_ts (tstrides src) rshape)) = map sbnd (all_strides rs))
      by (unfold all_strides, rs, resolve; cbn [tstrides]; rewrite concat_map; reflexivity).
    rewrite Hfb.
    assert (Hl1 : length (map sbnd (all_strides rs)) = length (all_strides src)).
    { rewrite map_length. unfold rs, resolve, all_strides. cbn [tstrides].
      rewrite <- (map_length sstep), (map_res_ts sstep sstep_res), map_length. reflexivity. }
    rewrite (step_vals_md_steps src _ el smd (src_steps src Hrs) Hl1).
    rewrite (step_vals_md_steps dst _ el dmd (src_steps dst Hrd)) by (rewrite Hl1; apply strides_len).
    assert (Es : map (fun s => sstp s * el) (all_strides src) = map (fun s => sstp s * el) (all_strides rs)).
    { symmetry. apply (map_res_ts (fun s => sstp s * el)). intros b s. rewrite sstp_res. reflexivity. }
    assert (Ed : map (fun s => sstp s * el) (all_strides dst) = map (fun s => sstp s * el) (all_strides rd)).
    { symmetry. apply (map_res_ts (fun s => sstp s * el)). intros b s. rewrite sstp_res. reflexivity. }
    rewrite Es, Ed, Hlcb.
    set (lcb := lccb rs rd 1). set (P := combine (all_strides rs) (all_strides rd)).
    pose proof (equal_tile_bounds_keys rs rd Hetb) as Hk.
    assert (Hlr : length (all_strides rs) = length (all_strides rd)).
    { rewrite <- !map_snd_entries, !map_length. rewrite <- (map_length fst (entries rs)), Hk, map_length. reflexivity. }
    assert (HP1 : map fst P = all_strides rs) by (apply map_fst_combine; exact Hlr).
    assert (HP2 : map snd P = all_strides rd) by (apply map_snd_combine; exact Hlr).
    set (vals := combine (map sbnd (all_strides rs))
                   (combine (map (fun s => sstp s * el) (all_strides rs)) (map (fun s => sstp s * el) (all_strides rd)))).
    assert (Hm : map snd (remaining_dyn lcb (all_strides src) vals) = map (hv el) (map tri_of (rem_list rs rd))).
    { rewrite (remaining_dyn_flags lcb _ _ vals Hval). unfold vals. rewrite <- HP1, <- HP2.
      rewrite (remaining_dyn_map' lcb el P). fold lcb. rewrite (rem_list_filter rs rd). fold lcb P.
      rewrite !map_map. apply map_ext_in. intros p Hp. apply filter_In in Hp as [Hp _].
      apply pair_ok_vals. unfold P in Hp.
      split.
      - apply (proj1 (Forall_forall _ _) (proj1 (layout_okb_ok rs) (proj2 (layout_okb_ok rs) Hrs))) || idtac.
        assert (Hin : In (fst p) (all_strides rs)) by (destruct p; apply (in_combine_l _ _ _ _ Hp)).
        unfold all_strides in Hin. apply in_concat in Hin as [t [Ht Hs]].
        apply (proj1 (Forall_forall _ _) (proj1 (Forall_forall _ _) Hrs t Ht) _ Hs).
      - assert (Hin : In (snd p) (all_strides rd)) by (destruct p; apply (in_combine_r _ _ _ _ Hp)).
        unfold all_strides in Hin. apply in_concat in Hin as [t [Ht Hs]].
        apply (proj1 (Forall_forall _ _) (proj1 (Forall_forall _ _) Hrd t Ht) _ Hs). }
    pose proof (Permutation_map snd (sort_desc_d_perm (remaining_dyn lcb (all_strides src) vals))) as HPm.
    rewrite Hm in HPm. apply Permutation_sym in HPm.
    destruct (Permutation_map_inv _ _ HPm) as [R' [ER' HR']].
    exists R'. split.
    - unfold R, RR. apply Permutation_trans with (map tri_of (rem_list rs rd)); [|exact HR'].
      apply Permutation_map, Permutation_sym, sort_desc_perm.
    - rewrite ER'. reflexivity.
  Qed.

  (* bursts of the code, enumerated by the digit vectors of R' *)
  Lemma dyn_bursts : exists code R', lower_dyn src dst el rshape smd dmd = Some code /\ Permutation R R' /\
    forall ps pd b, In b (bursts ps pd code []) <->
      exists ds, valid ds R' /\
        b = (ps + el * (so + dotS R' ds), pd + el * (do_ + dotT R' ds), bprod C * el).
  Proof.
    destruct dyn_vals as [R' [HP Hc]]. rewrite Hc.
    pose proof (shape_prod rs rd Hrs Hrd Hetb Hsafe) as Hsp. rewrite <- Hshape in Hsp. fold R C in Hsp.
    destruct R' as [|th T]; cbn [map code_of_vals].
    - eexists. exists []. split; [reflexivity|]. split; [exact HP|]. intros ps pd b.
      apply Permutation_sym, Permutation_nil in HP. rewrite HP in Hsp. change (bprod []) with 1 in Hsp.
      cbn [bursts In]. unfold aeval. cbn [fst snd dot]. rewrite Hsp. split.
      + intros [<-|[]]. exists []. split; [constructor|]. cbn [dotS dotT].
        apply f_equal2; [apply f_equal2; ring|ring].
      + intros [ds [Hv ->]]. assert (Eds : ds = []) by (inversion Hv; reflexivity). rewrite Eds. left. cbn [dotS dotT].
        apply f_equal2; [apply f_equal2; ring|ring].
    - unfold hv at 1. destruct (block_size rs rd Hrs) as [ls [lb [El Eb]]]. rewrite El.
      eexists. exists (th :: T). split; [reflexivity|]. split; [exact HP|]. intros ps pd b.
      rewrite !map_map. unfold hv. cbn [fst snd]. fold C in Eb. rewrite Eb. apply bursts_nest2.
  Qed.

  Theorem copy_dynamic_partial_sec : exists code, lower_dyn src dst el rshape smd dmd = Some code /\
    forall ps pd, inj_on rd (shape_of rs) -> disjoint_footprints rs rd el ps pd (shape_of rs) ->
    forall m idx k, In idx (row_major (shape_of rs)) -> 0 <= k < el ->
      run ps pd code m (pd + elem_addr rd el idx + k) = m (ps + elem_addr rs el idx + k).
  Proof.
    destruct dyn_bursts as [code [R' [Hc [HP Hbs]]]]. exists code. split; [exact Hc|].
    intros ps pd Hinj Hdisj m idx k Hidx Hk. unfold run. rewrite exec_run_bursts.
    destruct (idx_digits rs rd Hrs Hrd Hetb idx Hidx) as [Hv [ES ET]].
    assert (HsoR : offset rs = Some so) by exact Hso.
    assert (HdoR : offset rd = Some do_) by exact Hdo.
    assert (HPE : Permutation E (R' ++ C ++ U)).
    { apply Permutation_trans with (R ++ C ++ U); [apply (partition_perm rs rd Hrs Hetb)|].
      apply Permutation_app_tail. exact HP. }
    pose proof (abstract_copy_correct E R' C U el so do_ ps pd (bursts ps pd code [])
                  HPE (CC_chain rs rd Hrs) (UU_unit rs rd Hrs Hrd Hsafe) Hel
                  (abs_inj rs rd Hrs Hrd Hetb Hinj)
                  (abs_disj rs rd el so do_ Hrs Hrd Hetb HsoR HdoR ps pd Hdisj)
                  (Hbs ps pd) m (digits (tstrides rs) idx) k Hv Hk) as H.
    unfold SA, DA in H. fold E in ES, ET. rewrite ES, ET in H.
    rewrite (elem_addr_src rs el so HsoR), (elem_addr_dst rd el do_ HdoR). exact H.
  Qed.
End DynCopy.
