(* C02 — inside the Safe class the converter only produces non-negative temporal bounds, so the
   canonicalize step needs no extra hypothesis. *)
From Snax Require Import Base.Prelude Base.ListAux Model.C02Stream Proofs.C02StreamProofs Proofs.C02CanonProofs.

Definition nn (d : dim) : Prop := 0 <= snd d.

Lemma fill_spatial_nonneg bcast : forall spats cur rest ss ss' cur' rest',
  fill_okb spats cur rest = true ->
  Forall nn (optcons cur rest) ->
  fill_spatial bcast spats cur rest ss = Ok (ss', cur', rest') ->
  Forall nn (optcons cur' rest').
Proof.
  induction spats as [|sp spats IH]; intros cur rest ss ss' cur' rest' Hok Hnn H.
  - simpl in H. inversion H; subst. exact Hnn.
  - cbn [fill_okb fill_spatial] in Hok, H. destruct cur as [[s b]|]; [|discriminate].
    cbn [optcons] in Hnn. inversion Hnn as [|? ? Hb0 Hrest]; subst.
    destruct (b =? sp) eqn:Eb.
    + pose proof (pop_opt_optcons rest) as Hp. destruct (pop_opt rest) as [c r]. cbn [fst snd] in Hp.
      apply andb_true_iff in Hok as [_ Hok].
      refine (IH _ _ _ _ _ _ Hok _ H). rewrite Hp. exact Hrest.
    + destruct (b <? sp) eqn:Elt; [|discriminate].
      destruct rest as [|[ns nb] r]; [discriminate|].
      repeat (apply andb_true_iff in Hok as [Hok ?]).
      rename H0 into Hrec, H1 into Hdiv2, H2 into Hnb, H3 into Hns, H4 into Hdiv1.
      assert (Hb : 0 < b) by lia. apply Z.eqb_eq in Hdiv1, Hns, Hdiv2. apply Z.leb_le in Hnb. subst ns.
      replace (b =? 0) with false in H by (symmetry; apply Z.eqb_neq; lia).
      rewrite Hdiv1 in H. cbn [negb Z.eqb] in H. rewrite Z.eqb_refl in H. cbn [negb] in H.
      refine (IH _ _ _ _ _ _ Hrec _ H). cbn [optcons].
      inversion Hrest as [|? ? _ Hr]; subst. constructor; [|exact Hr].
      unfold nn. cbn [snd]. apply Z.div_pos; [exact Hnb|]. apply Z.div_str_pos. apply Z.ltb_lt in Elt. lia.
Qed.

Theorem to_pattern_nonneg elsize bcast spats dims p :
  convert_okb elsize spats dims = true -> to_pattern bcast spats dims = Ok p ->
  Forall (fun b => 0 <= b) (sp_ub p).
Proof.
  intros Hok H. unfold convert_okb in Hok.
  apply andb_true_iff in Hok as [Hok Hfill]. apply andb_true_iff in Hok as [Hfirst Hnn].
  unfold to_pattern in H. destruct (first_dim dims) as [[d rest]|] eqn:Ef; [|discriminate].
  destruct (fill_spatial bcast spats (Some d) rest []) as [[[ss cur'] rest']|] eqn:Efs; [|discriminate].
  inversion H; subst p; clear H. cbn [sp_ub].
  assert (Hall : Forall nn dims).
  { apply Forall_forall. intros x Hx. rewrite forallb_forall in Hnn. apply Z.leb_le. apply Hnn. exact Hx. }
  assert (Hd : Forall nn (optcons (Some d) rest)).
  { cbn [optcons]. unfold first_okb in Hfirst. destruct dims as [|[s b] rest0]; [discriminate|].
    repeat (apply andb_true_iff in Hfirst as [Hfirst ?]).
    apply Z.eqb_eq in Hfirst. apply Z.ltb_lt in H1, H0. subst s.
    inversion Hall as [|? ? _ Hr0]; subst. cbn [first_dim] in Ef.
    destruct (elsize * b =? TCDM).
    - destruct rest0 as [|d0 r0]; [discriminate|]. inversion Ef; subst. exact Hr0.
    - destruct (elsize * b <? TCDM).
      + destruct rest0 as [|d0 r0]; [discriminate|]. inversion Ef; subst. exact Hr0.
      + inversion Ef; subst. constructor; [|exact Hr0]. unfold nn, TCDM. cbn [snd]. apply Z.div_pos; nia. }
  pose proof (fill_spatial_nonneg _ _ _ _ _ _ _ _ Hfill Hd Efs) as Hout.
  destruct cur' as [c|]; cbn [optcons] in Hout.
  - clear -Hout. induction Hout as [|x l Hx _ IH]; cbn [map]; constructor; assumption.
  - constructor.
Qed.
