(* C20 — proofs, part 5: history_correct.  After any sequence of appends every merged kernel is still
   embedded, hence decodable, and the decoded switches make the merged PE compute the kernel. *)
From Snax Require Import Base.Prelude Model.C20Phs Proofs.C20PhsProofs Proofs.C20DecodeProofs
  Proofs.C20SearchProofs Proofs.C20AppendProofs.

(* an embedded kernel's operations are among the alternatives: decode's choice (phs.same_operation) is the
   kernel's operation — no attribute-freeness needed since fix 61ae0b2 *)
Lemma emb_ops_agree g G : is_concrete g = true -> embeds g G -> ops_agree g G = true.
Proof.
  intros Hc [Hn _]. rewrite Forall_forall in Hn.
  unfold ops_agree. apply forallb_forall. intros c Hin.
  destruct (Hn c Hin) as (a & Ha & _ & Hops). rewrite Ha. unfold alt_agree.
  unfold is_concrete in Hc. apply andb_true_iff in Hc as [Hc _]. rewrite forallb_forall in Hc.
  specialize (Hc c Hin). apply andb_true_iff in Hc as [Hc _]. apply Nat.eqb_eq in Hc.
  destruct (nops c) as [|k [|? ?]] eqn:Ek; try discriminate.
  destruct (Hops k (or_introl eq_refl)) as [k' Hk']. rewrite Hk'. reflexivity.
Qed.

(* ---------------------------------------------------------------- the fold over the history *)
Definition ma_step (acc : option pe) (g' : pe) : option pe :=
  match acc with Some G => append g' G | None => None end.

Lemma ma_fold_none gs : fold_left ma_step gs None = None.
Proof. induction gs as [|g gs IH]; cbn [fold_left ma_step]; [reflexivity|exact IH]. Qed.

Lemma history_invariant : forall rest (S : pe -> Prop) G0 G,
  fold_left ma_step rest (Some G0) = Some G ->
  (forall g, S g -> embeds g G0) ->
  (forall g, S g \/ In g rest -> embeds g G) /\ pdata G = pdata G0.
Proof.
  induction rest as [|g' rest IH]; intros S G0 G H HS.
  - cbn [fold_left] in H. inversion H; subst. split; [|auto]. intros g [Hg|[]]. apply HS. exact Hg.
  - cbn [fold_left ma_step] in H. destruct (append g' G0) as [G1|] eqn:E1; [|rewrite ma_fold_none in H; discriminate].
    destruct (append_embeds g' G0 G1 E1) as (Hm & Hs & Hd).
    destruct (IH (fun g => S g \/ g = g') G1 G H) as (He & Hdd).
    + intros g [Hg| ->]; [apply Hm; apply HS; exact Hg|exact Hs].
    + split; [|congruence].
      intros g [Hg|[<-|Hg]]; apply He; auto.
Qed.

Section History.
  Variable opsem : opk -> list Z -> Z.

  (* history_correct (pe_wf of the merged graph as a checked hypothesis, see C20WfProofs for its proof) *)
  Theorem history_correct_wf gs G :
    merge_all gs = Some G ->
    (forall g, In g gs -> kernel_ok g = true /\ pdata g = pdata G) ->
    pe_wf G = true ->
    forall g, In g gs ->
      exists sw, decode G g = Some sw /\ true_switches G = Some (length sw) /\
                 forall ins v swg, eval_pe opsem g swg ins = Some v -> eval_pe opsem G sw ins = Some v.
  Proof.
    intros Hm Hok Hwf g Hg. destruct gs as [|g0 rest]; [contradiction|]. unfold merge_all in Hm. fold ma_step in Hm.
    assert (forall g, In g (g0 :: rest) -> is_concrete g = true /\ nodup_ids (map nid (pnodes g)) = true) as Hk.
    { intros x Hx. destruct (Hok x Hx) as [H _]. unfold kernel_ok in H. rewrite !andb_true_iff in H. tauto. }
    destruct (Hk g0 (or_introl eq_refl)) as (Hc0 & Hn0).
    destruct (history_invariant rest (fun g => g = g0) g0 G Hm) as (He & Hd).
    - intros x ->. apply embeds_refl; assumption.
    - assert (embeds g G) as Hemb by (apply He; destruct Hg as [<-|Hg]; auto).
      destruct (Hk g Hg) as (Hc & Hn). destruct (Hok g Hg) as [_ Hpd].
      destruct (embedded_decodable g G Hwf Hc Hn Hpd Hemb) as [sw Hsw].
      exists sw. split; [exact Hsw|]. split; [eapply switch_count; eauto|].
      apply decode_sound_pe; auto. apply emb_ops_agree; assumption.
  Qed.
End History.
