(* C20 — proofs, part 5: history_correct.  After any sequence of appends every merged kernel is still
   embedded, hence decodable, and the decoded switches make the merged PE compute the kernel. *)
From Snax Require Import Base.Prelude Model.C20Phs Proofs.C20PhsProofs Proofs.C20DecodeProofs
  Proofs.C20SearchProofs Proofs.C20AppendProofs.

(* ---------------------------------------------------------------- plain graphs *)
Lemma plain_pe_spec G : plain_pe G = true <-> forall n k, In n (pnodes G) -> In k (nops n) -> oattr k = 0.
Proof.
  unfold plain_pe, plain_node. rewrite forallb_forall. split.
  - intros H n k Hn Hk. specialize (H n Hn). rewrite forallb_forall in H. apply Z.eqb_eq. apply H. exact Hk.
  - intros H n Hn. apply forallb_forall. intros k Hk. apply Z.eqb_eq. eapply H; eauto.
Qed.

Lemma append_node_plain G c G1 :
  plain_pe G = true -> plain_node c = true -> append_node G c = Some G1 -> plain_pe G1 = true.
Proof.
  intros HG Hc H. rewrite plain_pe_spec in *. unfold plain_node in Hc. rewrite forallb_forall in Hc.
  unfold append_node in H. destruct (find_node (pnodes G) (nid c)) as [a|] eqn:Ea.
  - destruct (uncollide_args G (pnsw G) (nargs c) (nargs a)) as [[args' n']|]; [|discriminate].
    destruct (insert_ops (nops a) (nops c)) as [ops'|] eqn:Ei; [|discriminate]. inversion H; subst G1. clear H.
    cbn [pnodes]. intros n k Hn Hk. destruct (in_replace_node _ _ _ _ Hn) as [->|Hn'].
    + cbn [nops] in Hk. destruct (insert_ops_attr _ _ _ Ei k Hk) as [Hold|H0]; [|exact H0].
      destruct (find_node_some _ _ _ Ea) as [HaG _]. eapply HG; eauto.
    + eapply HG; eauto.
  - destruct (map_opt (equiv_owner G) (nargs c)) as [es|]; [|discriminate].
    destruct (nops c) as [|k0 ks] eqn:Ek; [discriminate|]. inversion H; subst G1. clear H.
    cbn [pnodes]. intros n k Hn Hk. apply in_app_or in Hn as [Hn|[<-|[]]]; [eapply HG; eauto|].
    cbn [nops] in Hk. apply Z.eqb_eq. apply Hc. exact Hk.
Qed.

Lemma append_nodes_plain : forall cs G G1,
  plain_pe G = true -> forallb plain_node cs = true -> append_nodes cs G = Some G1 -> plain_pe G1 = true.
Proof.
  induction cs as [|c cs IH]; intros G G1 HG Hcs H.
  - unfold append_nodes in H. cbn [fold_left] in H. inversion H; subst. exact HG.
  - rewrite append_nodes_cons in H. destruct (append_node G c) as [G0|] eqn:E0; [|discriminate].
    cbn [forallb] in Hcs. apply andb_true_iff in Hcs as [Hc Hcs].
    eapply IH; [|exact Hcs|exact H]. eapply append_node_plain; eauto.
Qed.

Lemma append_plain g' G G' : plain_pe G = true -> plain_pe g' = true -> append g' G = Some G' -> plain_pe G' = true.
Proof.
  intros HG Hg H. unfold append in H.
  destruct (append_nodes (pnodes g') G) as [G1|] eqn:E1; [|discriminate].
  destruct (uncollide_args G1 (pnsw G1) (pout g') (pout G1)) as [[o' n']|]; [|discriminate].
  inversion H; subst G'. unfold plain_pe. cbn [pnodes].
  apply (append_nodes_plain (pnodes g') G G1 HG Hg E1).
Qed.

(* plain graphs: decode's choice by operation type is the kernel's operation *)
Lemma plain_ops_agree g G :
  is_concrete g = true -> plain_pe g = true -> plain_pe G = true -> embeds g G -> ops_agree g G = true.
Proof.
  intros Hc Hpg HpG [Hn _]. rewrite plain_pe_spec in *. rewrite Forall_forall in Hn.
  unfold ops_agree. apply forallb_forall. intros c Hin.
  destruct (Hn c Hin) as (a & Ha & _ & Hops). rewrite Ha. unfold alt_agree.
  unfold is_concrete in Hc. apply andb_true_iff in Hc as [Hc _]. rewrite forallb_forall in Hc.
  specialize (Hc c Hin). apply andb_true_iff in Hc as [Hc _]. apply Nat.eqb_eq in Hc.
  destruct (nops c) as [|k [|? ?]] eqn:Ek; try discriminate.
  destruct (Hops k (or_introl eq_refl)) as [k' Hk']. rewrite Hk'.
  destruct (find_op_some _ _ _ Hk') as [Hk'in Hname]. destruct (find_node_some _ _ _ Ha) as [HaG _].
  apply opk_eqb_eq. destruct k as [n1 a1], k' as [n2 a2]. cbn [oname] in Hname. subst n2.
  assert (a2 = 0) by (apply (HpG a (mkOp n1 a2) HaG Hk'in)).
  assert (a1 = 0) by (apply (Hpg c (mkOp n1 a1) Hin); rewrite Ek; left; reflexivity). congruence.
Qed.

(* ---------------------------------------------------------------- the fold over the history *)
Definition ma_step (acc : option pe) (g' : pe) : option pe :=
  match acc with Some G => append g' G | None => None end.

Lemma ma_fold_none gs : fold_left ma_step gs None = None.
Proof. induction gs as [|g gs IH]; cbn [fold_left ma_step]; [reflexivity|exact IH]. Qed.

Lemma history_invariant : forall rest (S : pe -> Prop) G0 G,
  fold_left ma_step rest (Some G0) = Some G ->
  (forall g, In g rest -> plain_pe g = true) ->
  plain_pe G0 = true ->
  (forall g, S g -> embeds g G0) ->
  (forall g, S g \/ In g rest -> embeds g G) /\ plain_pe G = true /\ pdata G = pdata G0.
Proof.
  induction rest as [|g' rest IH]; intros S G0 G H Hpl HG0 HS.
  - cbn [fold_left] in H. inversion H; subst. split; [|auto]. intros g [Hg|[]]. apply HS. exact Hg.
  - cbn [fold_left ma_step] in H. destruct (append g' G0) as [G1|] eqn:E1; [|rewrite ma_fold_none in H; discriminate].
    destruct (append_embeds g' G0 G1 E1) as (Hm & Hs & Hd).
    destruct (IH (fun g => S g \/ g = g') G1 G H) as (He & Hp & Hdd).
    + intros g Hg. apply Hpl. right. exact Hg.
    + apply (append_plain g' G0 G1 HG0 (Hpl g' (or_introl eq_refl)) E1).
    + intros g [Hg| ->]; [apply Hm; apply HS; exact Hg|exact Hs].
    + split; [|split; [exact Hp|congruence]].
      intros g [Hg|[<-|Hg]]; apply He; auto.
Qed.

Section History.
  Variable opsem : opk -> list Z -> Z.

  (* history_correct (pe_wf of the merged graph as a checked hypothesis, see C20WfProofs for its proof) *)
  Theorem history_correct_wf gs G :
    merge_all gs = Some G ->
    (forall g, In g gs -> kernel_ok g = true /\ pdata g = pdata G) ->
    pe_wf G = true ->
    forall g, In g gs ->
      exists sw, decode G g = Some sw /\ true_switches G = Some (length sw) /\
                 forall ins v swg, eval_pe opsem g swg ins = Some v -> eval_pe opsem G sw ins = Some v.
  Proof.
    intros Hm Hok Hwf g Hg. destruct gs as [|g0 rest]; [contradiction|]. unfold merge_all in Hm. fold ma_step in Hm.
    assert (forall g, In g (g0 :: rest) -> is_concrete g = true /\ nodup_ids (map nid (pnodes g)) = true /\ plain_pe g = true) as Hk.
    { intros x Hx. destruct (Hok x Hx) as [H _]. unfold kernel_ok in H. rewrite !andb_true_iff in H. tauto. }
    destruct (Hk g0 (or_introl eq_refl)) as (Hc0 & Hn0 & Hp0).
    destruct (history_invariant rest (fun g => g = g0) g0 G Hm) as (He & Hp & Hd).
    - intros x Hx. apply Hk. right. exact Hx.
    - exact Hp0.
    - intros x ->. apply embeds_refl; assumption.
    - assert (embeds g G) as Hemb by (apply He; destruct Hg as [<-|Hg]; auto).
      destruct (Hk g Hg) as (Hc & Hn & Hpg). destruct (Hok g Hg) as [_ Hpd].
      destruct (embedded_decodable g G Hwf Hc Hn Hpd Hemb) as [sw Hsw].
      exists sw. split; [exact Hsw|]. split; [eapply switch_count; eauto|].
      apply decode_sound_pe; auto. apply plain_ops_agree; assumption.
  Qed.
End History.
