(* C17 — proofs about Model/C17Loop.v: every rewrite preserves the trace of side-effecting ops
   (with evaluated operands) for all bounds, steps, bodies and environments. *)
From Snax Require Import Base.Prelude Base.ListAux Model.C17Loop.

(* ------------------------------------------------------------------ induction principle for [op] *)
Section OpInd.
  Variable P : op -> Prop.
  Hypothesis HDef : forall d p, P (Def d p).
  Hypothesis HEff : forall i a, P (Eff i a).
  Hypothesis HFor : forall iv lb ub st body, Forall P body -> P (For iv lb ub st body).
  Fixpoint op_ind' (o : op) : P o :=
    match o with
    | Def d p => HDef d p
    | Eff i a => HEff i a
    | For iv lb ub st body =>
      HFor iv lb ub st body
           ((fix go (b : list op) : Forall P b :=
               match b with
               | [] => Forall_nil _
               | o :: b' => Forall_cons _ (op_ind' o) (go b')
               end) body)
    end.
End OpInd.

(* ------------------------------------------------------------------ unfolding the semantics *)
Lemma run_eq b : forall e h,
  (fix run (b : list op) (e : env) (h : heap) {struct b} : list event :=
     match b with
     | [] => []
     | o :: b' => let r := exec_op o e h in snd r ++ run b' (fst r) (hpush (snd r) h)
     end) b e h = trace b e h.
Proof.
  induction b as [|o b IH]; intros e h; [reflexivity|].
  unfold trace in *. cbn [exec_block snd fst]. rewrite IH. reflexivity.
Qed.

Lemma iter_hist_ext_in f g ks : (forall k, In k ks -> forall h, f k h = g k h) -> forall h, iter_hist f ks h = iter_hist g ks h.
Proof.
  induction ks as [|k ks IH]; intros H h; [reflexivity|]. cbn [iter_hist].
  rewrite (H k) by (left; reflexivity). f_equal. apply IH. intros k' Hk'. apply H. right; exact Hk'.
Qed.
Lemma iter_hist_ext f g ks : (forall k h, f k h = g k h) -> forall h, iter_hist f ks h = iter_hist g ks h.
Proof. intros H. apply iter_hist_ext_in. intros k _ h. apply H. Qed.

Lemma hpush_app t1 t2 h : hpush (t1 ++ t2) h = hpush t2 (hpush t1 h).
Proof. unfold hpush. apply fold_left_app. Qed.
Lemma hpush_nil h : hpush [] h = h.
Proof. reflexivity. Qed.

Lemma iter_hist_app f l1 l2 : forall h,
  iter_hist f (l1 ++ l2) h = iter_hist f l1 h ++ iter_hist f l2 (hpush (iter_hist f l1 h) h).
Proof.
  induction l1 as [|k l1 IH]; intros h; [reflexivity|].
  cbn [app iter_hist]. rewrite IH, hpush_app, app_assoc. reflexivity.
Qed.
Lemma iter_hist_map f (g : Z -> Z) l : forall h, iter_hist f (map g l) h = iter_hist (fun x => f (g x)) l h.
Proof. induction l as [|x l IH]; intros h; [reflexivity|]. cbn [map iter_hist]. rewrite IH. reflexivity. Qed.
Lemma iter_hist_flat_map f (g : Z -> list Z) l : forall h,
  iter_hist f (flat_map g l) h = iter_hist (fun i h => iter_hist f (g i) h) l h.
Proof.
  induction l as [|x l IH]; intros h; [reflexivity|]. cbn [flat_map iter_hist]. rewrite iter_hist_app, IH. reflexivity.
Qed.
Lemma iter_hist_silent f ks : (forall k h, f k h = []) -> forall h, iter_hist f ks h = [].
Proof. intros H. induction ks as [|k ks IH]; intros h; [reflexivity|]. cbn [iter_hist]. rewrite H. cbn. apply IH. Qed.

Lemma exec_For iv lb ub st body e h :
  exec_op (For iv lb ub st body) e h =
  (e, iter_hist (fun k h => trace body (upd e iv (VInt (as_int (e lb) + k * as_int (e st)))) h)
                (zrange (trip (as_int (e lb)) (as_int (e ub)) (as_int (e st)))) h).
Proof. cbn [exec_op]. f_equal. apply iter_hist_ext. intros k h'. apply run_eq. Qed.

Lemma trace_nil e h : trace [] e h = [].
Proof. reflexivity. Qed.
Lemma trace_cons o b e h :
  trace (o :: b) e h = snd (exec_op o e h) ++ trace b (fst (exec_op o e h)) (hpush (snd (exec_op o e h)) h).
Proof. reflexivity. Qed.
Lemma env_cons o b e h :
  fst (exec_block (o :: b) e h) = fst (exec_block b (fst (exec_op o e h)) (hpush (snd (exec_op o e h)) h)).
Proof. reflexivity. Qed.
Lemma trace_app b1 b2 : forall e h,
  trace (b1 ++ b2) e h = trace b1 e h ++ trace b2 (fst (exec_block b1 e h)) (hpush (trace b1 e h) h).
Proof.
  induction b1 as [|o b1 IH]; intros e h; [reflexivity|].
  rewrite <- app_comm_cons, !trace_cons, env_cons, IH, hpush_app, app_assoc. reflexivity.
Qed.
Lemma env_app b1 b2 : forall e h,
  fst (exec_block (b1 ++ b2) e h) = fst (exec_block b2 (fst (exec_block b1 e h)) (hpush (trace b1 e h) h)).
Proof.
  induction b1 as [|o b1 IH]; intros e h; [reflexivity|].
  rewrite <- app_comm_cons, !env_cons, IH, trace_cons, hpush_app. reflexivity.
Qed.
Lemma exec_Def d p e h : exec_op (Def d p) e h = (upd e d (eval_def d e h p), []).
Proof. reflexivity. Qed.
Lemma env_For iv lb ub st body e h : fst (exec_op (For iv lb ub st body) e h) = e.
Proof. rewrite exec_For. reflexivity. Qed.
Lemma env_Def d p e h : fst (exec_op (Def d p) e h) = upd e d (eval_def d e h p).
Proof. reflexivity. Qed.
Lemma trace_Def d p b e h : trace (Def d p :: b) e h = trace b (upd e d (eval_def d e h p)) h.
Proof. reflexivity. Qed.

Lemma upd_same e x v : upd e x v x = v.
Proof. unfold upd. rewrite Nat.eqb_refl. reflexivity. Qed.
Lemma upd_other e x v y : y <> x -> upd e x v y = e y.
Proof. intros H. unfold upd. destruct (Nat.eqb y x) eqn:E; [apply Nat.eqb_eq in E; contradiction|reflexivity]. Qed.

Lemma NoDup_app_l {A} (l1 l2 : list A) : NoDup (l1 ++ l2) -> NoDup l1.
Proof.
  induction l1 as [|x l1 IH]; intros H; [constructor|]. inversion H as [|? ? Hn Hd]; subst.
  constructor; [intros Hin; apply Hn; apply in_or_app; left; exact Hin|apply IH; exact Hd].
Qed.

Lemma split_at_spec {A} j : forall (l pre post : list A) x,
  split_at j l = Some (pre, x, post) -> l = pre ++ x :: post /\ length pre = j.
Proof.
  induction j as [|j IH]; intros [|y l] pre post x H; cbn in H; try discriminate.
  - inversion H; subst. split; reflexivity.
  - destruct (split_at j l) as [[[p0 y0] q0]|] eqn:E; [|discriminate].
    inversion H; subst. destruct (IH _ _ _ _ E) as [-> <-]. split; reflexivity.
Qed.

(* ------------------------------------------------------------------ coincidence *)
(* two environments agree outside F *)
Definition agree (F : var -> Prop) (e1 e2 : env) := forall v, ~ F v -> e1 v = e2 v.

Lemma agree_upd F e1 e2 x v : agree F e1 e2 -> agree F (upd e1 x v) (upd e2 x v).
Proof. intros H y Hy. unfold upd. destruct (Nat.eqb y x); [reflexivity|apply H; exact Hy]. Qed.
Lemma agree_upd_l F e1 e2 x v : agree F e1 e2 -> F x -> agree F (upd e1 x v) e2.
Proof.
  intros H Hx y Hy. rewrite upd_other; [apply H; exact Hy|]. intros ->. contradiction.
Qed.
Lemma agree_refl F e : agree F e e.
Proof. intros v _. reflexivity. Qed.
Lemma agree_sym F e1 e2 : agree F e1 e2 -> agree F e2 e1.
Proof. intros H v Hv. symmetry. apply H. exact Hv. Qed.
Lemma agree_trans F e1 e2 e3 : agree F e1 e2 -> agree F e2 e3 -> agree F e1 e3.
Proof. intros H1 H2 v Hv. rewrite H1, H2 by exact Hv. reflexivity. Qed.

Lemma eval_dim_agree F e1 e2 d :
  agree F e1 e2 -> (forall v, In v (dimarg_uses d) -> ~ F v) -> eval_dim e1 d = eval_dim e2 d.
Proof. intros H Hu. destruct d as [z|v]; cbn; [reflexivity|]. rewrite H; [reflexivity|]. apply Hu. left; reflexivity. Qed.

Lemma eval_dims_agree F e1 e2 sz :
  agree F e1 e2 -> (forall v, In v (flat_map dimarg_uses sz) -> ~ F v) ->
  map (eval_dim e1) sz = map (eval_dim e2) sz.
Proof.
  intros H Hu. apply map_ext_in. intros d Hd. apply (eval_dim_agree F); [exact H|].
  intros v Hv. apply Hu. apply in_flat_map. exists d. split; assumption.
Qed.

Lemma eval_pexpr_agree F e1 e2 h p :
  agree F e1 e2 -> (forall v, In v (uses_p p) -> ~ F v) -> eval_pexpr e1 h p = eval_pexpr e2 h p.
Proof.
  intros H Hu. destruct p as [z|k a b|rs|s i|sz|s sz|m ix]; cbn [eval_pexpr].
  - reflexivity.
  - rewrite (H a), (H b); [reflexivity| |]; apply Hu; cbn; auto.
  - f_equal. f_equal. apply map_ext_in. intros l Hl. unfold eval_lin. f_equal. f_equal.
    apply map_ext_in. intros cv Hcv. rewrite H; [reflexivity|]. apply Hu. cbn.
    apply in_flat_map. exists l. split; [exact Hl|]. apply in_map. exact Hcv.
  - rewrite (H s), (H i); [reflexivity| |]; apply Hu; cbn; auto.
  - f_equal. apply (eval_dims_agree F); assumption.
  - rewrite (H s) by (apply Hu; cbn; auto). f_equal. apply (eval_dims_agree F); [assumption|].
    intros v Hv. apply Hu. cbn. right; exact Hv.
  - rewrite (H m) by (apply Hu; cbn; auto). f_equal. apply map_ext_in. intros x Hx.
    rewrite H; [reflexivity|]. apply Hu. cbn. right; exact Hx.
Qed.

Lemma eval_def_agree F d e1 e2 h p :
  agree F e1 e2 -> (forall v, In v (uses_p p) -> ~ F v) -> eval_def d e1 h p = eval_def d e2 h p.
Proof.
  intros H Hu. destruct p; try (apply (eval_pexpr_agree F); assumption).
  cbn [eval_def]. f_equal. apply (eval_dims_agree F); assumption.
Qed.

(* expressions that do not read memory do not depend on the heap *)
Lemma eval_pexpr_heap e h1 h2 p : (forall m ix, p <> PLoad m ix) -> eval_pexpr e h1 p = eval_pexpr e h2 p.
Proof. intros H. destruct p; try reflexivity. exfalso. eapply H. reflexivity. Qed.

Definition op_agree (o : op) := forall F e1 e2 h,
  agree F e1 e2 -> (forall v, In v (vars_op o) -> ~ F v) ->
  snd (exec_op o e1 h) = snd (exec_op o e2 h) /\ agree F (fst (exec_op o e1 h)) (fst (exec_op o e2 h)).

Lemma block_agree_of_ops b : Forall op_agree b -> forall F e1 e2 h,
  agree F e1 e2 -> (forall v, In v (vars_of b) -> ~ F v) ->
  trace b e1 h = trace b e2 h /\ agree F (fst (exec_block b e1 h)) (fst (exec_block b e2 h)).
Proof.
  induction 1 as [|o b Ho _ IH]; intros F e1 e2 h Ha Hv.
  - split; [reflexivity|exact Ha].
  - destruct (Ho F e1 e2 h Ha) as [Ht Ha'].
    { intros v Hin. apply Hv. unfold vars_of. cbn. apply in_or_app. left; exact Hin. }
    rewrite !trace_cons, !env_cons, Ht.
    destruct (IH F _ _ (hpush (snd (exec_op o e2 h)) h) Ha') as [Ht2 Ha2].
    { intros v Hin. apply Hv. unfold vars_of. cbn. apply in_or_app. right; exact Hin. }
    rewrite Ht2. split; [reflexivity|exact Ha2].
Qed.

Lemma exec_op_agree o : op_agree o.
Proof.
  induction o as [d p|i a|iv lb ub st body IH] using op_ind'; intros F e1 e2 h Ha Hv.
  - cbn [exec_op fst snd]. split; [reflexivity|].
    rewrite (eval_def_agree F d e1 e2 h p Ha) by (intros v Hin; apply Hv; cbn; right; exact Hin).
    apply agree_upd. exact Ha.
  - cbn [exec_op fst snd]. split; [|exact Ha]. f_equal. f_equal. apply map_ext_in. intros v Hin.
    apply Ha. apply Hv. exact Hin.
  - rewrite !exec_For. cbn [fst snd]. split; [|exact Ha].
    assert (Hlb : e1 lb = e2 lb) by (apply Ha, Hv; cbn; auto).
    assert (Hub : e1 ub = e2 ub) by (apply Ha, Hv; cbn; auto).
    assert (Hst : e1 st = e2 st) by (apply Ha, Hv; cbn; auto).
    rewrite Hlb, Hub, Hst. apply iter_hist_ext. intros k h'.
    apply (block_agree_of_ops body IH F); [apply agree_upd; exact Ha|].
    intros v Hin. apply Hv. cbn. do 4 right. exact Hin.
Qed.

Lemma exec_block_agree b F e1 e2 h :
  agree F e1 e2 -> (forall v, In v (vars_of b) -> ~ F v) ->
  trace b e1 h = trace b e2 h /\ agree F (fst (exec_block b e1 h)) (fst (exec_block b e2 h)).
Proof. apply block_agree_of_ops. apply Forall_forall. intros o _. apply exec_op_agree. Qed.

(* ------------------------------------------------------------------ frame *)
Lemma exec_op_frame o e h v : ~ In v (map fst (defs_top [o])) -> fst (exec_op o e h) v = e v.
Proof.
  destruct o as [d p|i a|iv lb ub st body]; intros H.
  - cbn in *. apply upd_other. intros ->. apply H. left; reflexivity.
  - reflexivity.
  - rewrite exec_For. reflexivity.
Qed.

Lemma defs_top_cons o b : defs_top (o :: b) = defs_top [o] ++ defs_top b.
Proof. destruct o; reflexivity. Qed.
Lemma defs_top_app b1 b2 : defs_top (b1 ++ b2) = defs_top b1 ++ defs_top b2.
Proof.
  induction b1 as [|o b1 IH]; [reflexivity|]. rewrite <- app_comm_cons, defs_top_cons, IH, (defs_top_cons o b1), app_assoc.
  reflexivity.
Qed.

Lemma exec_block_frame b : forall e h v, ~ In v (map fst (defs_top b)) -> fst (exec_block b e h) v = e v.
Proof.
  induction b as [|o b IH]; intros e h v H; [reflexivity|].
  rewrite env_cons. rewrite defs_top_cons, map_app in H.
  rewrite IH by (intros Hin; apply H; apply in_or_app; right; exact Hin).
  apply exec_op_frame. intros Hin; apply H; apply in_or_app; left; exact Hin.
Qed.

Lemma defs_top_vars b v : In v (map fst (defs_top b)) -> In v (vars_of b).
Proof.
  induction b as [|o b IH]; [intros []|]. rewrite defs_top_cons, map_app. intros H.
  unfold vars_of. cbn. apply in_or_app. apply in_app_or in H as [H|H].
  - left. destruct o; cbn in *; try contradiction. destruct H as [<-|[]]. left; reflexivity.
  - right. apply IH. exact H.
Qed.

(* ------------------------------------------------------------------ side-effect-free ops are silent *)
Lemma effect_free_silent o : effect_free o = true -> forall e h, snd (exec_op o e h) = [].
Proof.
  induction o as [d p|i a|iv lb ub st body IH] using op_ind'; intros H e h.
  - reflexivity.
  - discriminate.
  - rewrite exec_For. cbn [snd]. apply iter_hist_silent. intros k h'.
    cbn [effect_free] in H. generalize (upd e iv (VInt (as_int (e lb) + k * as_int (e st)))). revert h'.
    induction IH as [|o b Ho _ IHb]; intros h' e'; [reflexivity|].
    cbn [forallb] in H. apply andb_true_iff in H as [H1 H2].
    rewrite trace_cons, (Ho H1), IHb by exact H2. reflexivity.
Qed.

Lemma effect_free_block_silent b : forallb effect_free b = true -> forall e h, trace b e h = [].
Proof.
  induction b as [|o b IH]; intros H e h; [reflexivity|].
  cbn [forallb] in H. apply andb_true_iff in H as [H1 H2].
  rewrite trace_cons, (effect_free_silent o H1), IH by exact H2. reflexivity.
Qed.

(* ... and compute the same environment whatever the heap (they contain no load) *)
Lemma effect_free_env_heap b : forallb effect_free b = true -> forall e h1 h2,
  fst (exec_block b e h1) = fst (exec_block b e h2).
Proof.
  induction b as [|o b IH]; intros H e h1 h2; [reflexivity|].
  cbn [forallb] in H. apply andb_true_iff in H as [H1 H2].
  rewrite !env_cons. rewrite !(effect_free_silent o H1).
  assert (Ho : fst (exec_op o e h1) = fst (exec_op o e h2)).
  { destruct o as [d p|i a|iv lb ub st body].
    - cbn [exec_op fst]. f_equal. cbn [effect_free] in H1.
      destruct p; cbn [eval_def]; try reflexivity; try discriminate.
    - reflexivity.
    - rewrite !env_For. reflexivity. }
  rewrite Ho. apply IH. exact H2.
Qed.

(* ------------------------------------------------------------------ scopes *)
(* the constants a rule reads from its scope have those values in the environment *)
Definition scope_ok (Sc : scope) (e : env) := forall v z, cst_of Sc v = Some z -> e v = VInt z.
(* every heap-independent definition of the scope holds its defining equation in e *)
Definition defs_ok (Sc : scope) (e : env) :=
  forall v p, lookup Sc v = Some p -> pure_p p = true -> e v = eval_pexpr e [] p.

Lemma lookup_app S1 S2 v :
  lookup (S1 ++ S2) v = match lookup S1 v with Some p => Some p | None => lookup S2 v end.
Proof.
  induction S1 as [|[x p] S1 IH]; [reflexivity|]. cbn. destruct (Nat.eqb x v); [reflexivity|exact IH].
Qed.

Lemma lookup_in Sc v p : lookup Sc v = Some p -> In v (map fst Sc).
Proof.
  induction Sc as [|[x q] Sc IH]; cbn; [discriminate|]. destruct (Nat.eqb x v) eqn:E.
  - intros _. left. apply Nat.eqb_eq in E. exact E.
  - intros H. right. apply IH. exact H.
Qed.
Lemma lookup_none Sc v : ~ In v (map fst Sc) -> lookup Sc v = None.
Proof.
  induction Sc as [|[x q] Sc IH]; cbn; [reflexivity|]. intros H. destruct (Nat.eqb x v) eqn:E.
  - apply Nat.eqb_eq in E. exfalso. apply H. left; exact E.
  - apply IH. intros Hin. apply H. right; exact Hin.
Qed.

Lemma defs_ok_scope_ok Sc e : defs_ok Sc e -> scope_ok Sc e.
Proof.
  intros H v z Hc. unfold cst_of in Hc. destruct (lookup Sc v) as [p|] eqn:E; [|discriminate].
  destruct p; try discriminate. inversion Hc; subst. rewrite (H _ _ E eq_refl). reflexivity.
Qed.

(* constants defined at the top level of a block hold after the block *)
Lemma block_consts_hold b : NoDup (map fst (defs_top b)) -> forall e h v z,
  lookup (defs_top b) v = Some (PConst z) -> fst (exec_block b e h) v = VInt z.
Proof.
  induction b as [|o b IH]; intros Hnd e h v z Hl; [discriminate|].
  rewrite env_cons. destruct o as [d p|i a|iv lb ub st body].
  - cbn [defs_top map fst] in Hnd. inversion Hnd as [|? ? Hnotin Hnd']; subst.
    cbn [defs_top lookup] in Hl. destruct (Nat.eqb d v) eqn:E.
    + apply Nat.eqb_eq in E; subst d. inversion Hl; subst p.
      rewrite exec_block_frame by exact Hnotin. cbn. apply upd_same.
    + apply IH; assumption.
  - cbn [defs_top] in *. apply IH; assumption.
  - cbn [defs_top] in *. apply IH; assumption.
Qed.

Lemma scope_ok_after_block b Sc e h :
  NoDup (map fst (defs_top b)) -> scope_ok Sc e -> scope_ok (defs_top b ++ Sc) (fst (exec_block b e h)).
Proof.
  intros Hnd Hs v z Hc. unfold cst_of in Hc. rewrite lookup_app in Hc.
  destruct (lookup (defs_top b) v) as [p|] eqn:E.
  - destruct p; try discriminate. inversion Hc; subst. apply block_consts_hold; assumption.
  - rewrite exec_block_frame.
    + apply Hs. unfold cst_of. exact Hc.
    + intros Hin. apply in_map_iff in Hin as [[x q] [Hx Hin]]. cbn in Hx; subst x.
      clear -E Hin. induction (defs_top b) as [|[y r] l IH]; [contradiction|].
      cbn in E. destruct (Nat.eqb y v) eqn:Ey; [discriminate|]. destruct Hin as [Hin|Hin].
      * inversion Hin; subst. rewrite Nat.eqb_refl in Ey. discriminate.
      * apply IH; assumption.
Qed.

(* ------------------------------------------------------------------ trip counts *)
Lemma trip_unit n : trip 0 n 1 = n.
Proof. unfold trip. cbn. rewrite Z.div_1_r. lia. Qed.
Lemma trip_ceil u s : 0 < s -> trip 0 u s = ceil_ub u s.
Proof. intros H. unfold trip, ceil_ub. destruct (s <=? 0) eqn:E; [lia|]. f_equal. lia. Qed.

Definition fresh_from (fresh : var) : var -> Prop := fun v => (fresh <= v)%nat.

(* ------------------------------------------------------------------ ChangeForStep *)
Theorem change_step_trace Sc fresh o ops e h :
  change_step Sc fresh o = Some ops ->
  scope_ok Sc e ->
  (forall v, In v (vars_op o) -> (v < fresh)%nat) ->
  trace ops e h = snd (exec_op o e h) /\
  agree (fresh_from fresh) (fst (exec_block ops e h)) (fst (exec_op o e h)).
Proof.
  intros Hr Hs Hf. unfold change_step, change_step_with in Hr.
  destruct o as [| |iv lb ub st body]; try discriminate.
  destruct (cst_of Sc lb) as [l|] eqn:El; [|discriminate].
  destruct (cst_of Sc ub) as [u|] eqn:Eu; [|discriminate].
  destruct (cst_of Sc st) as [s|] eqn:Es; [|discriminate].
  destruct (negb (l =? 0)) eqn:G1; [discriminate|].
  destruct (s =? 1) eqn:G2; [discriminate|].
  destruct (s <=? 0) eqn:G3; [discriminate|].
  inversion Hr; subst ops; clear Hr.
  assert (l = 0) by lia. subst l.
  pose proof (Hs _ _ El) as Hlb. pose proof (Hs _ _ Eu) as Hub. pose proof (Hs _ _ Es) as Hst.
  assert (Llb : (lb < fresh)%nat) by (apply Hf; cbn; auto).
  assert (Lub : (ub < fresh)%nat) by (apply Hf; cbn; auto).
  assert (Lst : (st < fresh)%nat) by (apply Hf; cbn; auto).
  assert (Liv : (iv < fresh)%nat) by (apply Hf; cbn; auto).
  set (e1 := upd e fresh (VInt 1)).
  set (e2 := upd e1 (S fresh) (VInt (ceil_ub u s))).
  rewrite exec_For. rewrite Hlb, Hub, Hst. cbn [as_int snd fst].
  rewrite !trace_Def. cbn [eval_def eval_pexpr]. fold e1. fold e2.
  rewrite trace_cons, exec_For. cbn [snd fst]. rewrite trace_nil, app_nil_r.
  assert (H2lb : e2 lb = VInt 0) by (unfold e2, e1; rewrite !upd_other by lia; exact Hlb).
  assert (H2st : e2 st = VInt s) by (unfold e2, e1; rewrite !upd_other by lia; exact Hst).
  assert (H2ub : e2 (S fresh) = VInt (ceil_ub u s)) by (unfold e2; apply upd_same).
  assert (H2f : e2 fresh = VInt 1) by (unfold e2, e1; rewrite upd_other by lia; apply upd_same).
  rewrite H2lb, H2ub, H2f. cbn [as_int].
  rewrite trip_unit, trip_ceil by lia.
  split.
  - apply iter_hist_ext. intros k h'. rewrite trace_Def. cbn [eval_def eval_pexpr].
    rewrite upd_same. rewrite (upd_other _ (S (S fresh)) _ st) by lia. rewrite H2st. cbn [as_int eval_bin].
    replace (0 + k * 1) with k by lia. replace (0 + k * s) with (s * k) by lia.
    apply (exec_block_agree body (fresh_from fresh)).
    + apply agree_upd. apply agree_upd_l; [|unfold fresh_from; lia].
      unfold e2, e1. apply agree_upd_l; [|unfold fresh_from; lia].
      apply agree_upd_l; [|unfold fresh_from; lia]. apply agree_refl.
    + intros v Hin. unfold fresh_from. assert ((v < fresh)%nat); [|lia].
      apply Hf. cbn. do 4 right. exact Hin.
  - rewrite !env_cons, env_For, !env_Def. cbn [fst exec_block eval_def eval_pexpr].
    apply agree_upd_l; [|unfold fresh_from; lia].
    apply agree_upd_l; [|unfold fresh_from; lia]. apply agree_refl.
Qed.

(* The formula used before the repair (`ub // step`) drops the last partial iteration:
   `for i = 0 to 10 step 4 { eff(i) }` executes eff(0), eff(4), eff(8); the rewritten loop only eff(0), eff(4). *)
Definition c17_step_witness : list op :=
  ([Def 0 (PConst 0%Z); Def 1 (PConst 10%Z); Def 2 (PConst 4%Z); For 3 0 1 2 [Eff 0 [3]]])%nat.

Theorem change_step_refuted_floor :
  exists b b',
    apply_at (fun Sc o => change_step_floor Sc (S (maxvar b)) o) [3%nat] [] b = Some b' /\
    trace b env0 [] <> trace b' env0 [].
Proof.
  exists c17_step_witness. eexists. split; [vm_compute; reflexivity|]. vm_compute. discriminate.
Qed.

(* ------------------------------------------------------------------ MergeForLoops *)
Lemma divu_mixed i u y : 0 <= y < u -> divu (i * u + y) u = i.
Proof.
  intros H. unfold divu. destruct (u <=? 0) eqn:E; [lia|].
  rewrite Z.div_add_l by lia. rewrite Z.div_small by lia. lia.
Qed.
Lemma remu_mixed i u y : 0 <= y < u -> remu (i * u + y) u = y.
Proof.
  intros H. unfold remu. destruct (u <=? 0) eqn:E; [lia|].
  rewrite Z.add_comm, Z.mod_add by lia. apply Z.mod_small. lia.
Qed.

Theorem merge_trace Sc fresh j o ops e h :
  merge_loops Sc fresh j o = Some ops ->
  scope_ok Sc e ->
  (forall v, In v (vars_op o) -> (v < fresh)%nat) ->
  (* SSA side conditions on the parent body (implied by [wf_prog]) *)
  (forall iv lb ub st body, o = For iv lb ub st body ->
     NoDup (map fst (defs_top body)) /\ ~ In iv (map fst (defs_top body)) /\ ~ In iv (map fst Sc)) ->
  trace ops e h = snd (exec_op o e h) /\
  agree (fresh_from fresh) (fst (exec_block ops e h)) (fst (exec_op o e h)).
Proof.
  intros Hr Hs Hf Hssa. unfold merge_loops, merge_loops_with in Hr.
  destruct o as [| |ivp lbp ubp stp pbody]; try discriminate.
  destruct (split_at j pbody) as [[[pre x] post]|] eqn:Esp; [|discriminate].
  destruct x as [| |iv lb ub st ibody]; try discriminate.
  apply split_at_spec in Esp as [Epb _].
  destruct (Hssa _ _ _ _ _ eq_refl) as [Hnd [Hivp1 Hivp2]]. clear Hssa.
  set (S' := defs_top pre ++ Sc) in *.
  destruct (cst_of S' lb) as [l|] eqn:El; [|discriminate].
  destruct (cst_of S' ub) as [u|] eqn:Eu; [|discriminate].
  destruct (cst_of S' st) as [s|] eqn:Es; [|discriminate].
  destruct (cst_of Sc lbp) as [lp|] eqn:Elp; [|discriminate].
  destruct (cst_of Sc ubp) as [up|] eqn:Eup; [|discriminate].
  destruct (cst_of Sc stp) as [sp|] eqn:Esp'; [|discriminate].
  destruct (negb ((l =? 0) && (lp =? 0) && (s =? 1) && (sp =? 1))) eqn:G1; [discriminate|].
  cbn [andb] in Hr.
  destruct ((u <? 0) || (up <? 0)) eqn:G2; [discriminate|].
  destruct (negb (forallb effect_free (pre ++ post))) eqn:G3; [discriminate|].
  inversion Hr; subst ops; clear Hr.
  assert (l = 0 /\ lp = 0 /\ s = 1 /\ sp = 1 /\ 0 <= u /\ 0 <= up) as (-> & -> & -> & -> & Hu & Hup) by lia.
  apply negb_false_iff in G3. rewrite forallb_app in G3. apply andb_true_iff in G3 as [Gpre Gpost].
  pose proof (Hs _ _ Elp) as Hlbp. pose proof (Hs _ _ Eup) as Hubp. pose proof (Hs _ _ Esp') as Hstp.
  assert (Lvars : forall v, In v (vars_of pbody) -> (v < fresh)%nat).
  { intros v Hin. apply Hf. cbn. do 4 right. exact Hin. }
  assert (Llbp : (lbp < fresh)%nat) by (apply Hf; cbn; auto).
  assert (Lubp : (ubp < fresh)%nat) by (apply Hf; cbn; auto).
  assert (Lstp : (stp < fresh)%nat) by (apply Hf; cbn; auto).
  assert (Livp : (ivp < fresh)%nat) by (apply Hf; cbn; auto).
  subst pbody. unfold vars_of in Lvars. rewrite flat_map_app in Lvars. cbn [flat_map vars_op] in Lvars.
  assert (Lpre : forall v, In v (vars_of pre) -> (v < fresh)%nat).
  { intros v Hin. apply Lvars. apply in_or_app. left; exact Hin. }
  assert (Linner : forall v, In v (iv :: lb :: ub :: st :: vars_of ibody) -> (v < fresh)%nat).
  { intros v Hin. apply Lvars. apply in_or_app. right. apply in_or_app. left. exact Hin. }
  rewrite defs_top_app, map_app in Hnd, Hivp1.
  assert (Hndpre : NoDup (map fst (defs_top pre))) by (apply NoDup_app_l in Hnd; exact Hnd).
  (* the original loop *)
  rewrite exec_For, Hlbp, Hubp, Hstp. cbn [as_int snd fst]. rewrite trip_unit.
  (* the rewritten program *)
  rewrite trace_Def. cbn [eval_def eval_pexpr]. set (e1 := upd e fresh (VInt (u * up))).
  rewrite trace_cons, exec_For. cbn [snd fst]. rewrite trace_nil, app_nil_r.
  assert (H1lbp : e1 lbp = VInt 0) by (unfold e1; rewrite upd_other by lia; exact Hlbp).
  assert (H1stp : e1 stp = VInt 1) by (unfold e1; rewrite upd_other by lia; exact Hstp).
  assert (H1f : e1 fresh = VInt (u * up)) by (unfold e1; apply upd_same).
  rewrite H1lbp, H1stp, H1f. cbn [as_int]. rewrite trip_unit.
  split.
  2:{ rewrite !env_cons, env_For, env_Def. cbn [fst exec_block eval_def eval_pexpr].
      apply agree_upd_l; [apply agree_refl|unfold fresh_from; lia]. }
  rewrite (Z.mul_comm u up), (zrange_mul up u) by lia.
  rewrite iter_hist_flat_map. apply iter_hist_ext_in. intros i Hi h1. apply in_zrange in Hi.
  rewrite iter_hist_map.
  (* original iteration i *)
  replace (0 + i * 1) with i by lia.
  set (ei := upd e ivp (VInt i)).
  rewrite trace_app, trace_cons, exec_For. cbn [snd fst].
  rewrite (effect_free_block_silent pre Gpre), (effect_free_block_silent post Gpost), app_nil_l, app_nil_r, hpush_nil.
  set (epre := fst (exec_block pre ei h1)).
  assert (Hsi : scope_ok Sc ei).
  { intros v z Hc. unfold ei. rewrite upd_other; [apply Hs; exact Hc|].
    intros ->. apply Hivp2. unfold cst_of in Hc. destruct (lookup Sc ivp) eqn:E; [|discriminate].
    eapply lookup_in; eassumption. }
  pose proof (scope_ok_after_block pre Sc ei h1 Hndpre Hsi) as Hspre. fold S' in Hspre. fold epre in Hspre.
  rewrite (Hspre _ _ El), (Hspre _ _ Eu), (Hspre _ _ Es). cbn [as_int]. rewrite trip_unit.
  apply iter_hist_ext_in. intros y Hy h2. apply in_zrange in Hy.
  replace (0 + y * 1) with y by lia. replace (0 + (i * u + y) * 1) with (i * u + y) by lia.
  (* rewritten iteration i*u+y *)
  set (c := S (S fresh)). set (k := S fresh).
  set (eK := upd e1 k (VInt (i * u + y))).
  rewrite !trace_Def. cbn [eval_def eval_pexpr].
  set (ec := upd eK c (VInt u)).
  assert (Hck : ec k = VInt (i * u + y)).
  { unfold ec. rewrite upd_other by (unfold k, c; lia). unfold eK. apply upd_same. }
  assert (Hcc : ec c = VInt u) by (unfold ec; apply upd_same).
  rewrite Hck, Hcc. cbn [as_int eval_bin]. rewrite divu_mixed by lia.
  set (ea := upd ec ivp (VInt i)).
  rewrite trace_app, (effect_free_block_silent pre Gpre), app_nil_l, hpush_nil.
  rewrite trace_Def. cbn [eval_def eval_pexpr].
  set (epre' := fst (exec_block pre ea h2)).
  assert (Hagr0 : agree (fresh_from fresh) ea ei).
  { unfold ea, ei. apply agree_upd. unfold ec, eK, e1.
    apply agree_upd_l; [|unfold fresh_from, c; lia].
    apply agree_upd_l; [|unfold fresh_from, k; lia].
    apply agree_upd_l; [|unfold fresh_from; lia]. apply agree_refl. }
  destruct (exec_block_agree pre (fresh_from fresh) ea ei h2 Hagr0) as [_ Hagr1].
  { intros v Hin. unfold fresh_from. specialize (Lpre v Hin). lia. }
  fold epre' in Hagr1. rewrite (effect_free_env_heap pre Gpre ei h2 h1) in Hagr1. fold epre in Hagr1.
  assert (Hk' : epre' k = VInt (i * u + y)).
  { unfold epre'. rewrite exec_block_frame.
    - unfold ea. rewrite upd_other by (unfold k; lia). exact Hck.
    - intros Hin. apply defs_top_vars in Hin. specialize (Lpre _ Hin). unfold k in Lpre. lia. }
  assert (Hc' : epre' c = VInt u).
  { unfold epre'. rewrite exec_block_frame.
    - unfold ea. rewrite upd_other by (unfold c; lia). exact Hcc.
    - intros Hin. apply defs_top_vars in Hin. specialize (Lpre _ Hin). unfold c in Lpre. lia. }
  rewrite Hk', Hc'. cbn [as_int eval_bin]. rewrite remu_mixed by lia.
  rewrite trace_app, (effect_free_block_silent post Gpost), app_nil_r.
  apply (exec_block_agree ibody (fresh_from fresh)).
  - apply agree_upd. exact Hagr1.
  - intros v Hin. unfold fresh_from. assert ((v < fresh)%nat); [|lia].
    apply Linner. do 4 right. exact Hin.
Qed.

(* Without the perfect-nest guard (before the repair of F15) the other ops of the parent body run
   inner_ub times more often: pre/in/in/in/post per outer iteration becomes pre/in/post per merged iteration. *)
Definition c17_merge_witness : list op :=
  ([Def 0 (PConst 0%Z); Def 1 (PConst 2%Z); Def 2 (PConst 3%Z); Def 3 (PConst 1%Z);
    For 4 0 1 3 [Eff 0 [4]; For 5 0 2 3 [Eff 1 [4; 5]]; Eff 2 [4]]])%nat.

Theorem merge_refuted_without_nest_check :
  exists b b',
    apply_at (fun Sc o => merge_loops_no_nest_check Sc (S (maxvar b)) 1 o) [4%nat] [] b = Some b' /\
    trace b env0 [] <> trace b' env0 [] /\
    apply_at (fun Sc o => merge_loops Sc (S (maxvar b)) 1 o) [4%nat] [] b = None.
Proof.
  exists c17_merge_witness. eexists. split; [vm_compute; reflexivity|]. split; [vm_compute; discriminate|reflexivity].
Qed.

(* Without the sign guard (F15b) two negative bounds give a positive product. *)
Definition c17_merge_neg_witness : list op :=
  ([Def 0 (PConst 0%Z); Def 1 (PConst (-2)%Z); Def 2 (PConst (-3)%Z); Def 3 (PConst 1%Z);
    For 4 0 1 3 [For 5 0 2 3 [Eff 1 [4; 5]]]])%nat.

Theorem merge_refuted_without_sign_check :
  exists b b',
    apply_at (fun Sc o => merge_loops_no_neg_check Sc (S (maxvar b)) 0 o) [4%nat] [] b = Some b' /\
    trace b env0 [] <> trace b' env0 [] /\
    apply_at (fun Sc o => merge_loops Sc (S (maxvar b)) 0 o) [4%nat] [] b = None.
Proof.
  exists c17_merge_neg_witness. eexists. split; [vm_compute; reflexivity|]. split; [vm_compute; discriminate|reflexivity].
Qed.

(* ------------------------------------------------------------------ LoopHoistPureOperations *)
(* SSA side conditions of a hoist (implied by [wf_prog] and the guard "operands defined outside the loop"). *)
Definition hoist_side (j : nat) (o : op) : Prop :=
  match o with
  | For iv lb ub st body =>
    match split_at j body with
    | Some (pre, Def d p, post) =>
      ~ In d (iv :: lb :: ub :: st :: vars_of pre) /\
      (forall u, In u (uses_p p) -> u <> iv /\ u <> d /\ ~ In u (map fst (defs_top pre)))
    | _ => True
    end
  | _ => True
  end.

Definition hoisted_name (j : nat) (o : op) : var -> Prop :=
  match o with
  | For _ _ _ _ body => match split_at j body with Some (_, Def d _, _) => eq d | _ => fun _ => False end
  | _ => fun _ => False
  end.

(* a hoistable op (Pure arith / alloc) does not read the heap: a memref.load is not hoistable *)
Lemma hoistable_heap d e h1 h2 p : hoistable_p p = true -> eval_def d e h1 p = eval_def d e h2 p.
Proof. destruct p; cbn; try discriminate; reflexivity. Qed.

Theorem hoist_trace Sc j o ops e h :
  hoist Sc j o = Some ops ->
  hoist_side j o ->
  trace ops e h = snd (exec_op o e h) /\
  agree (hoisted_name j o) (fst (exec_block ops e h)) (fst (exec_op o e h)).
Proof.
  intros Hr Hside. unfold hoist in Hr. unfold hoist_side in Hside. unfold hoisted_name.
  destruct o as [| |iv lb ub st body]; try discriminate.
  destruct (split_at j body) as [[[pre x] post]|] eqn:Esp; [|discriminate].
  destruct x as [d p| |]; try discriminate.
  destruct (hoistable_p p && forallb (in_scope Sc) (uses_p p)) eqn:G; [|discriminate].
  apply andb_true_iff in G as [Ghoist _].
  inversion Hr; subst ops; clear Hr.
  apply split_at_spec in Esp as [-> _].
  destruct Hside as [Hd Hu].
  assert (Hdiv : d <> iv) by (intros ->; apply Hd; left; reflexivity).
  assert (Hdlb : d <> lb) by (intros ->; apply Hd; cbn; auto).
  assert (Hdub : d <> ub) by (intros ->; apply Hd; cbn; auto).
  assert (Hdst : d <> st) by (intros ->; apply Hd; cbn; auto).
  assert (Hdpre : ~ In d (vars_of pre)) by (intros Hin; apply Hd; cbn; auto).
  rewrite trace_Def. set (val := eval_def d e h p). set (e1 := upd e d val).
  rewrite trace_cons, !exec_For. cbn [snd fst]. rewrite trace_nil, app_nil_r.
  unfold e1 at 1 2 3 4 5 6. rewrite !(upd_other e d val) by congruence.
  split.
  2:{ rewrite !env_cons, env_For, env_Def. cbn [fst exec_block].
      apply agree_upd_l; [apply agree_refl|reflexivity]. }
  apply iter_hist_ext. intros k h1.
  set (x := VInt (as_int (e lb) + k * as_int (e st))).
  rewrite !trace_app, trace_Def. fold e1.
  (* pre does not mention d *)
  assert (Hag0 : agree (eq d) (upd e1 iv x) (upd e iv x)).
  { apply agree_upd. unfold e1. apply agree_upd_l; [apply agree_refl|reflexivity]. }
  destruct (exec_block_agree pre (eq d) _ _ h1 Hag0) as [Htpre Hag1].
  { intros v Hin Heq. subst v. contradiction. }
  rewrite Htpre. f_equal.
  set (ep1 := fst (exec_block pre (upd e1 iv x) h1)) in *.
  set (ep2 := fst (exec_block pre (upd e iv x) h1)) in *.
  set (h2 := hpush (trace pre (upd e iv x) h1) h1).
  (* the hoisted op evaluates to the same value inside the loop *)
  assert (Hval : eval_def d ep2 h2 p = val).
  { unfold val. rewrite (hoistable_heap d ep2 h2 h p Ghoist). apply (eval_def_agree (fun v => ~ In v (uses_p p))).
    - intros v Hv. assert (Hin : In v (uses_p p)).
      { destruct (in_dec Nat.eq_dec v (uses_p p)) as [H|H]; [exact H|contradiction]. }
      destruct (Hu v Hin) as (H1 & H2 & H3).
      unfold ep2. rewrite exec_block_frame by exact H3. apply upd_other. exact H1.
    - intros v Hin Hn. contradiction. }
  rewrite Hval.
  assert (Hd1 : ep1 d = val).
  { unfold ep1. rewrite exec_block_frame.
    - rewrite upd_other by exact Hdiv. unfold e1. apply upd_same.
    - intros Hin. apply Hdpre. apply defs_top_vars. exact Hin. }
  apply (exec_block_agree post (fun _ => False)); [|intros v _ H; exact H].
  intros v _. destruct (Nat.eq_dec v d) as [->|Hne].
  - rewrite upd_same. exact Hd1.
  - rewrite upd_other by exact Hne. apply Hag1. congruence.
Qed.

(* ------------------------------------------------------------------ MoveMemrefDims: the replacement size *)
(* the exact value of the replaced dim, also for the affine.min case *)
Definition eval_repl_exact (e : env) (r : repl) : Z :=
  match r with RMin v _ => as_int (e v) | _ => eval_repl e r end.

Lemma nth_map_default {A} (f : A -> Z) l n d a :
  nth_error l n = Some a -> nth n (map f l) d = f a.
Proof.
  revert n; induction l as [|x l IH]; intros [|n] H; cbn in *; try discriminate.
  - inversion H; reflexivity.
  - apply IH. exact H.
Qed.

Lemma move_dim_exact fuel : forall Sin Sout src idx r e,
  resolve_dim fuel Sin Sout src idx = Some r ->
  defs_ok (Sin ++ Sout) e ->
  eval_repl_exact e r = nth (Z.to_nat idx) (shape_of (e src)) 0.
Proof.
  induction fuel as [|fuel IH]; intros Sin Sout src idx r e Hr Hok; [discriminate|].
  cbn [resolve_dim] in Hr.
  destruct (lookup (Sin ++ Sout) src) as [p1|] eqn:Hl; [|inversion Hr; subst; reflexivity].
  destruct p1 as [z|k a b|rs|s i|sz|s sizes|lm lix]; try discriminate.
  rewrite (Hok _ _ Hl eq_refl). cbn [eval_pexpr shape_of].
  destruct (nth_error sizes (Z.to_nat idx)) as [[z|v]|] eqn:En; [| |discriminate].
  - inversion Hr; subst. cbn [eval_repl_exact eval_repl]. rewrite (nth_map_default _ _ _ _ _ En). reflexivity.
  - rewrite (nth_map_default _ _ _ _ _ En). cbn [eval_dim].
    destruct (lookup Sin v) as [pv|] eqn:Ev.
    + destruct pv as [z|k a b|rs|s' i|sz|s' sz|lm lix]; try discriminate.
      * inversion Hr; subst. reflexivity.
      * destruct (first_const rs); [|discriminate]. inversion Hr; subst. reflexivity.
      * destruct (cst_of (Sin ++ Sout) i) as [iz|] eqn:Ei; [|discriminate].
        rewrite (IH _ _ _ _ _ e Hr Hok).
        assert (Hv : lookup (Sin ++ Sout) v = Some (PDim s' i)) by (rewrite lookup_app, Ev; reflexivity).
        rewrite (Hok _ _ Hv eq_refl). cbn [eval_pexpr as_int].
        rewrite (defs_ok_scope_ok _ _ Hok _ _ Ei). reflexivity.
    + destruct (lookup Sout v) as [pv|] eqn:Ev2; [|discriminate].
      destruct pv as [z|k a b|rs|s' i|sz|s' sz|lm lix]; try discriminate.
      * inversion Hr; subst. reflexivity.
      * destruct (first_const rs); [|discriminate]. inversion Hr; subst. reflexivity.
      * inversion Hr; subst. reflexivity.
Qed.

(* Outside the affine.min case the replacement has the value of the dim it replaces. *)
Theorem move_dim_value fuel Sin Sout src idx r e :
  resolve_dim fuel Sin Sout src idx = Some r ->
  defs_ok (Sin ++ Sout) e ->
  repl_safe r = true ->
  eval_repl e r = nth (Z.to_nat idx) (shape_of (e src)) 0.
Proof.
  intros Hr Hok Hs. rewrite <- (move_dim_exact fuel Sin Sout src idx r e Hr Hok).
  destruct r; try reflexivity. discriminate.
Qed.

(* In the affine.min case the replacement (the first map result) is right exactly on the iterations
   where the minimum is attained by that first result. *)
Theorem move_dim_min_iff fuel Sin Sout src idx v c e :
  resolve_dim fuel Sin Sout src idx = Some (RMin v c) ->
  defs_ok (Sin ++ Sout) e ->
  (eval_repl e (RMin v c) = nth (Z.to_nat idx) (shape_of (e src)) 0 <-> as_int (e v) = c).
Proof.
  intros Hr Hok. rewrite <- (move_dim_exact fuel Sin Sout src idx _ e Hr Hok). cbn. split; congruence.
Qed.

(* ... and it is wrong on the last partial tile: size = min(8, 10 - i) at i = 8 is 2, replaced by 8. *)
Theorem move_dim_min_refuted :
  exists Sin Sout src idx v c e,
    resolve_dim 3 Sin Sout src idx = Some (RMin v c) /\ defs_ok (Sin ++ Sout) e /\
    eval_repl e (RMin v c) <> nth (Z.to_nat idx) (shape_of (e src)) 0.
Proof.
  exists [(3%nat, PSubview 0%nat [DDyn 2%nat]); (2%nat, PMin [(8, []); (10, [(-1, 1%nat)])])], [], 3%nat, 0, 2%nat, 8.
  exists (env_of [(3%nat, VMem 7 [2]); (2%nat, VInt 2); (1%nat, VInt 8); (0%nat, VMem 7 [10])]).
  split; [reflexivity|]. split.
  - intros v p H _. cbn in H.
    destruct v as [|[|[|[|v]]]]; cbn in H; try discriminate; inversion H; subst; reflexivity.
  - vm_compute. discriminate.
Qed.

(* ================================================================== MoveMemrefDims: the IR surgery *)
(* e2 is e1 with the erased name d bound to the value of its replacement w *)
Definition srel (d w : var) (e1 e2 : env) : Prop := (forall x, x <> d -> e1 x = e2 x) /\ e2 d = e1 w.

Lemma sbv_rel d w e1 e2 u : srel d w e1 e2 -> e1 (sbv d w u) = e2 u.
Proof.
  intros [H1 H2]. unfold sbv. destruct (Nat.eqb u d) eqn:E.
  - apply Nat.eqb_eq in E. subst. symmetry. exact H2.
  - apply Nat.eqb_neq in E. apply H1. exact E.
Qed.

Lemma srel_upd d w e1 e2 x v : srel d w e1 e2 -> x <> d -> x <> w -> srel d w (upd e1 x v) (upd e2 x v).
Proof.
  intros [H1 H2] Hd Hw. split.
  - intros y Hy. unfold upd. destruct (Nat.eqb y x); [reflexivity|apply H1; exact Hy].
  - rewrite !upd_other by congruence. exact H2.
Qed.

Lemma eval_dim_sb d w e1 e2 x : srel d w e1 e2 -> eval_dim e1 (sb_dim d w x) = eval_dim e2 x.
Proof. intros H. destruct x as [z|v]; cbn; [reflexivity|]. rewrite (sbv_rel _ _ _ _ _ H). reflexivity. Qed.

Lemma eval_pexpr_sb d w e1 e2 h p : srel d w e1 e2 -> eval_pexpr e1 h (sb_p d w p) = eval_pexpr e2 h p.
Proof.
  intros H. destruct p as [z|k a b|rs|s i|sz|s sz|lm lix]; cbn [eval_pexpr sb_p].
  - reflexivity.
  - rewrite !(sbv_rel _ _ _ _ _ H). reflexivity.
  - f_equal. f_equal. rewrite map_map. apply map_ext. intros l. unfold eval_lin. cbn [fst snd]. f_equal. f_equal.
    rewrite map_map. apply map_ext. intros cv. cbn [fst snd]. rewrite (sbv_rel _ _ _ _ _ H). reflexivity.
  - rewrite !(sbv_rel _ _ _ _ _ H). reflexivity.
  - f_equal. rewrite map_map. apply map_ext. intros x. apply eval_dim_sb. exact H.
  - rewrite (sbv_rel _ _ _ _ _ H). f_equal. rewrite map_map. apply map_ext. intros x. apply eval_dim_sb. exact H.
  - rewrite (sbv_rel _ _ _ _ _ H). f_equal. rewrite map_map. apply map_ext. intros x. rewrite (sbv_rel _ _ _ _ _ H). reflexivity.
Qed.

Lemma eval_def_sb x d w e1 e2 h p : srel d w e1 e2 -> eval_def x e1 h (sb_p d w p) = eval_def x e2 h p.
Proof.
  intros H. destruct p; try (apply eval_pexpr_sb; exact H).
  cbn [sb_p eval_def]. f_equal. rewrite map_map. apply map_ext. intros y. apply eval_dim_sb. exact H.
Qed.

Definition op_subst_ok (d w : var) (o : op) := forall e1 e2 h,
  srel d w e1 e2 -> ~ In d (alldefs_op o) -> ~ In w (alldefs_op o) ->
  snd (exec_op (subst_op d w o) e1 h) = snd (exec_op o e2 h) /\
  srel d w (fst (exec_op (subst_op d w o) e1 h)) (fst (exec_op o e2 h)).

Lemma block_subst_of_ops d w b : Forall (op_subst_ok d w) b -> forall e1 e2 h,
  srel d w e1 e2 -> ~ In d (alldefs b) -> ~ In w (alldefs b) ->
  trace (map (subst_op d w) b) e1 h = trace b e2 h /\
  srel d w (fst (exec_block (map (subst_op d w) b) e1 h)) (fst (exec_block b e2 h)).
Proof.
  induction 1 as [|o b Ho _ IH]; intros e1 e2 h Hr Hd Hw; [split; [reflexivity|exact Hr]|].
  unfold alldefs in Hd, Hw. cbn [flat_map] in Hd, Hw. rewrite in_app_iff in Hd, Hw.
  destruct (Ho e1 e2 h Hr) as [Ht Hr']; [tauto|tauto|].
  cbn [map]. rewrite !trace_cons, !env_cons, Ht.
  destruct (IH _ _ (hpush (snd (exec_op o e2 h)) h) Hr') as [Ht2 Hr2]; [unfold alldefs; tauto|unfold alldefs; tauto|].
  rewrite Ht2. split; [reflexivity|exact Hr2].
Qed.

Lemma subst_op_ok d w o : op_subst_ok d w o.
Proof.
  induction o as [x p|i a|iv lb ub st body IH] using op_ind'; intros e1 e2 h Hr Hd Hw.
  - cbn [subst_op exec_op fst snd]. split; [reflexivity|].
    rewrite (eval_def_sb x _ _ _ _ h p Hr). apply srel_upd; [exact Hr| |]; intros ->; [apply Hd|apply Hw]; left; reflexivity.
  - cbn [subst_op exec_op fst snd]. split; [|exact Hr]. f_equal. f_equal. rewrite map_map. apply map_ext.
    intros u. apply sbv_rel. exact Hr.
  - cbn [subst_op]. rewrite !exec_For. cbn [fst snd]. split; [|exact Hr].
    rewrite !(sbv_rel _ _ _ _ _ Hr). apply iter_hist_ext. intros k h'.
    cbn [alldefs_op] in Hd, Hw.
    apply (block_subst_of_ops d w body IH).
    + apply srel_upd; [exact Hr| |]; intros ->; [apply Hd|apply Hw]; left; reflexivity.
    + intros Hin. apply Hd. right. exact Hin.
    + intros Hin. apply Hw. right. exact Hin.
Qed.

Lemma subst_block_ok d w b e1 e2 h :
  srel d w e1 e2 -> ~ In d (alldefs b) -> ~ In w (alldefs b) ->
  trace (map (subst_op d w) b) e1 h = trace b e2 h /\
  srel d w (fst (exec_block (map (subst_op d w) b) e1 h)) (fst (exec_block b e2 h)).
Proof. apply block_subst_of_ops. apply Forall_forall. intros o _. apply subst_op_ok. Qed.

(* the index constant used by a rebuilt memref.dim has the index value of the resolution *)
Lemma newdim_idx_cst fuel : forall Sin Sout src idx iz s i ix,
  resolve_dim fuel Sin Sout src iz = Some (RNewDim s i) ->
  cst_of (Sin ++ Sout) idx = Some iz ->
  newdim_idx fuel Sin Sout src idx = Some ix ->
  cst_of (Sin ++ Sout) ix = Some i.
Proof.
  induction fuel as [|fuel IH]; intros Sin Sout src idx iz s i ix Hr Hc Hn; [discriminate|].
  cbn [resolve_dim newdim_idx] in Hr, Hn.
  destruct (lookup (Sin ++ Sout) src) as [p1|] eqn:Hl.
  2:{ inversion Hr; subst. inversion Hn; subst. exact Hc. }
  destruct p1 as [z|k a b|rs|s' i'|sz|s' sizes|lm lix]; try discriminate.
  rewrite Hc in Hn.
  destruct (nth_error sizes (Z.to_nat iz)) as [[z|v]|]; try discriminate.
  destruct (lookup Sin v) as [pv|] eqn:Ev.
  - destruct pv as [z|k a b|rs|s2 i2|sz|s2 sz|lm lix]; try discriminate.
    destruct (cst_of (Sin ++ Sout) i2) as [iz2|] eqn:Ei; [|discriminate].
    apply (IH _ _ _ _ _ _ _ _ Hr Ei Hn).
  - discriminate.
Qed.

(* the source of a rebuilt memref.dim is the source of the matched dim or of a dim of the loop level *)
Lemma resolve_newdim_src fuel : forall Sin Sout src iz s i (P : var -> Prop),
  resolve_dim fuel Sin Sout src iz = Some (RNewDim s i) ->
  P src -> (forall v s' i', lookup Sin v = Some (PDim s' i') -> P s') ->
  P s /\ lookup (Sin ++ Sout) s = None.
Proof.
  induction fuel as [|fuel IH]; intros Sin Sout src iz s i P Hr Hsrc HP; [discriminate|].
  cbn [resolve_dim] in Hr.
  destruct (lookup (Sin ++ Sout) src) as [p1|] eqn:Hl.
  2:{ inversion Hr; subst. split; assumption. }
  destruct p1 as [z|k a b|rs|s' i'|sz|s' sizes|lm lix]; try discriminate.
  destruct (nth_error sizes (Z.to_nat iz)) as [[z|v]|]; try discriminate.
  destruct (lookup Sin v) as [pv|] eqn:Ev.
  - destruct pv as [z|k a b|rs|s2 i2|sz|s2 sz|lm lix]; try discriminate.
    + destruct (first_const rs); discriminate.
    + destruct (cst_of (Sin ++ Sout) i2) as [iz2|]; [|discriminate].
      apply (IH _ _ _ _ _ _ P Hr); [eapply HP; exact Ev|exact HP].
  - destruct (lookup Sout v) as [[z|k a b|rs|s2 i2|sz|s2 sz|lm lix]|]; try discriminate.
    destruct (first_const rs); discriminate.
Qed.

(* an existing value chosen as replacement is a constant or a dim: an index value *)
Lemma resolve_rvar_kind fuel : forall Sin Sout src iz v,
  resolve_dim fuel Sin Sout src iz = Some (RVar v) ->
  exists p, lookup (Sin ++ Sout) v = Some p /\
            ((exists c, p = PConst c) \/ (exists s i, p = PDim s i)).
Proof.
  induction fuel as [|fuel IH]; intros Sin Sout src iz v Hr; [discriminate|].
  cbn [resolve_dim] in Hr.
  destruct (lookup (Sin ++ Sout) src) as [p1|] eqn:Hl; [|discriminate].
  destruct p1 as [z|k a b|rs|s' i'|sz|s' sizes|lm lix]; try discriminate.
  destruct (nth_error sizes (Z.to_nat iz)) as [[z|u]|]; try discriminate.
  destruct (lookup Sin u) as [pv|] eqn:Ev.
  - destruct pv as [z|k a b|rs|s2 i2|sz|s2 sz|lm lix]; try discriminate.
    + inversion Hr; subst. exists (PConst z). rewrite lookup_app, Ev. split; [reflexivity|left; eauto].
    + destruct (first_const rs); discriminate.
    + destruct (cst_of (Sin ++ Sout) i2) as [iz2|]; [|discriminate]. apply (IH _ _ _ _ _ Hr).
  - destruct (lookup Sout u) as [pv|] eqn:Ev2; [|discriminate].
    destruct pv as [z|k a b|rs|s2 i2|sz|s2 sz|lm lix]; try discriminate.
    + inversion Hr; subst. exists (PConst z). rewrite lookup_app, Ev. split; [exact Ev2|left; eauto].
    + destruct (first_const rs); discriminate.
    + inversion Hr; subst. exists (PDim s2 i2). rewrite lookup_app, Ev. split; [exact Ev2|right; eauto].
Qed.

Lemma lookup_In Sc v p : lookup Sc v = Some p -> In (v, p) Sc.
Proof.
  induction Sc as [|[x q] Sc IH]; cbn; [discriminate|]. destruct (Nat.eqb x v) eqn:E.
  - intros H. inversion H; subst. apply Nat.eqb_eq in E. subst. left. reflexivity.
  - intros H. right. apply IH. exact H.
Qed.

(* membership based (order insensitive) forms of the scope invariants *)
Definition defs_okI (Sc : scope) (e : env) := forall v p, In (v, p) Sc -> pure_p p = true -> e v = eval_pexpr e [] p.
Definition closedI (D : list var) (Sc : scope) :=
  forall v p, In (v, p) Sc -> In v D /\ forall u, In u (uses_p p) -> In u D.

Lemma defs_okI_defs_ok Sc e : defs_okI Sc e -> defs_ok Sc e.
Proof. intros H v p Hl Hp. apply H; [apply lookup_In; exact Hl|exact Hp]. Qed.
Lemma defs_okI_scope_ok Sc e : defs_okI Sc e -> scope_ok Sc e.
Proof. intros H. apply defs_ok_scope_ok, defs_okI_defs_ok. exact H. Qed.
Lemma closedI_dom D Sc v : closedI D Sc -> In v (map fst Sc) -> In v D.
Proof. intros H Hin. apply in_map_iff in Hin as [[x p] [Hx Hin]]. cbn in Hx. subst. destruct (H _ _ Hin) as [H1 _]. exact H1. Qed.
