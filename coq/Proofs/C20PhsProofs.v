(* C20 — proofs about Model/C20Phs.v, part 1: a valid mapping / a successful decode configure the abstract
   PE so that it simulates the concrete kernel graph (valid_mapping_sem, decode_sound, switch_count). *)
From Snax Require Import Base.Prelude Model.C20Phs.

(* ---------------------------------------------------------------- equality tests *)
Lemma list_Zeqb_eq (a b : list Z) : list_eqb Z.eqb a b = true <-> a = b.
Proof. apply list_eqb_eq. intros x y. apply Z.eqb_eq. Qed.

Lemma sig_eqb_eq (a b : sig) : sig_eqb a b = true <-> a = b.
Proof.
  destruct a as [a1 a2], b as [b1 b2]. unfold sig_eqb. cbn [fst snd].
  rewrite andb_true_iff, !list_Zeqb_eq. split; [intros [-> ->]; reflexivity|intros H; inversion H; auto].
Qed.

Lemma ident_eqb_eq (a b : ident) : ident_eqb a b = true <-> a = b.
Proof.
  destruct a as [a1 a2], b as [b1 b2]. unfold ident_eqb. cbn [fst snd].
  rewrite andb_true_iff, sig_eqb_eq, Nat.eqb_eq. split; [intros [-> ->]; reflexivity|intros H; inversion H; auto].
Qed.

Lemma ident_eqb_refl a : ident_eqb a a = true.
Proof. apply ident_eqb_eq. reflexivity. Qed.

Lemma ident_eqb_neq (a b : ident) : ident_eqb a b = false <-> a <> b.
Proof.
  split.
  - intros H E. apply ident_eqb_eq in E. congruence.
  - intros H. destruct (ident_eqb a b) eqn:E; [apply ident_eqb_eq in E; contradiction|reflexivity].
Qed.

Lemma leaf_eqb_eq (a b : leaf) : leaf_eqb a b = true <-> a = b.
Proof.
  destruct a, b; cbn [leaf_eqb]; try (split; [discriminate|intros H; inversion H]).
  - rewrite Nat.eqb_eq. split; [intros ->; reflexivity|intros H; inversion H; reflexivity].
  - rewrite ident_eqb_eq. split; [intros ->; reflexivity|intros H; inversion H; reflexivity].
Qed.

Lemma opk_eqb_eq (a b : opk) : opk_eqb a b = true <-> a = b.
Proof.
  destruct a as [n1 a1], b as [n2 a2]. unfold opk_eqb. cbn [oname oattr]. rewrite andb_true_iff, !Z.eqb_eq.
  split; [intros [-> ->]; reflexivity|intros H; inversion H; auto].
Qed.

(* ---------------------------------------------------------------- map_opt *)
Lemma map_opt_app {A B} (f : A -> option B) l1 l2 r :
  map_opt f (l1 ++ l2) = Some r ->
  exists r1 r2, map_opt f l1 = Some r1 /\ map_opt f l2 = Some r2 /\ r = r1 ++ r2.
Proof.
  revert r. induction l1 as [|x xs IH]; intros r H; cbn [app map_opt] in *.
  - exists [], r. auto.
  - destruct (f x) as [y|]; [|discriminate].
    destruct (map_opt f (xs ++ l2)) as [ys|] eqn:E; [|discriminate].
    inversion H; subst. destruct (IH ys eq_refl) as (r1 & r2 & H1 & H2 & ->).
    exists (y :: r1), r2. rewrite H1. auto.
Qed.

Lemma map_opt_length {A B} (f : A -> option B) l r : map_opt f l = Some r -> length r = length l.
Proof.
  revert r. induction l as [|x xs IH]; intros r H; cbn [map_opt] in H.
  - inversion H. reflexivity.
  - destruct (f x); [|discriminate]. destruct (map_opt f xs) eqn:E; [|discriminate].
    inversion H; subst. cbn [length]. f_equal. apply IH. reflexivity.
Qed.

Lemma map_opt_in {A B} (f : A -> option B) l r x :
  map_opt f l = Some r -> In x l -> exists y, f x = Some y.
Proof.
  revert r. induction l as [|a l IH]; intros r H Hin; [contradiction|].
  cbn [map_opt] in H. destruct (f a) eqn:Ea; [|discriminate].
  destruct (map_opt f l) eqn:E; [|discriminate].
  destruct Hin as [->|Hin]; [eauto|]. eapply IH; eauto.
Qed.

(* ---------------------------------------------------------------- find_node *)
Lemma find_node_some ns id n : find_node ns id = Some n -> In n ns /\ nid n = id.
Proof.
  induction ns as [|x r IH]; cbn [find_node]; [discriminate|].
  destruct (ident_eqb (nid x) id) eqn:E.
  - intros H. inversion H; subst. split; [left; reflexivity|apply ident_eqb_eq; exact E].
  - intros H. destruct (IH H). split; [right|]; assumption.
Qed.

Lemma find_node_none ns id : find_node ns id = None -> forall n, In n ns -> nid n <> id.
Proof.
  induction ns as [|x r IH]; cbn [find_node]; intros H n Hin; [contradiction|].
  destruct (ident_eqb (nid x) id) eqn:E; [discriminate|].
  destruct Hin as [->|Hin]; [apply ident_eqb_neq; exact E|apply IH; assumption].
Qed.

Lemma nodup_ids_NoDup l : nodup_ids l = true -> NoDup l.
Proof.
  induction l as [|x r IH]; cbn [nodup_ids]; intros H; [constructor|].
  apply andb_true_iff in H as [H1 H2]. constructor; [|apply IH; exact H2].
  intros Hin. apply negb_true_iff in H1.
  assert (existsb (ident_eqb x) r = true) as C; [|congruence].
  apply existsb_exists. exists x. split; [exact Hin|apply ident_eqb_refl].
Qed.

Lemma find_node_nodup ns n :
  NoDup (map nid ns) -> In n ns -> find_node ns (nid n) = Some n.
Proof.
  induction ns as [|x r IH]; intros Hnd Hin; [contradiction|].
  cbn [find_node map] in *. inversion Hnd as [|? ? Hx Hr]; subst.
  destruct Hin as [->|Hin].
  - rewrite ident_eqb_refl. reflexivity.
  - destruct (ident_eqb (nid x) (nid n)) eqn:E.
    + apply ident_eqb_eq in E. exfalso. apply Hx. rewrite E. apply in_map. exact Hin.
    + apply IH; assumption.
Qed.

(* ---------------------------------------------------------------- following muxes *)
Definition eval_leaf (ev : ident -> option Z) (ins : list Z) (l : leaf) : option Z :=
  match l with LArg i => nth_error ins i | LId id => ev id end.

Lemma eval_src_follow ev sg mu ins s :
  (forall m, In m (src_muxes s) -> sg m = mu m) ->
  eval_src ev sg ins s = eval_leaf ev ins (follow mu s).
Proof.
  induction s as [i|id|sw l IHl r IHr]; intros H; cbn [eval_src follow eval_leaf]; try reflexivity.
  cbn [src_muxes] in H. rewrite (H sw) by (left; reflexivity).
  destruct (mu sw =? 1).
  - apply IHr. intros m Hm. apply H. right. apply in_or_app. right. exact Hm.
  - apply IHl. intros m Hm. apply H. right. apply in_or_app. left. exact Hm.
Qed.

Lemma eval_src_leaf ev sg ins s l : src_leaf s = Some l -> eval_src ev sg ins s = eval_leaf ev ins l.
Proof. destruct s; cbn [src_leaf]; intros H; inversion H; reflexivity. Qed.

(* ---------------------------------------------------------------- valid_mapping *)
Lemma valid_nodes_in mu Gn cs c :
  valid_nodes mu Gn cs = Some true -> In c cs ->
  exists a, find_node Gn (nid c) = Some a /\ valid_args mu (nargs c) (nargs a) = Some true.
Proof.
  induction cs as [|x r IH]; intros H Hin; [contradiction|].
  cbn [valid_nodes] in H. destruct (find_node Gn (nid x)) as [a|] eqn:Ef; [|discriminate].
  destruct (valid_args mu (nargs x) (nargs a)) as [[|]|] eqn:Ev; try discriminate.
  destruct Hin as [->|Hin]; [exists a; auto|apply IH; assumption].
Qed.

Section Sim.
  Variable opsem : opk -> list Z -> Z.
  Variables g G : pe.
  Variables sgg sg mu : nat -> Z.
  Variable ins : list Z.

  Hypothesis Hconc : is_concrete g = true.
  Hypothesis Hvalid : valid_mapping g G mu = Some true.
  Hypothesis Hmux : forall m, In m (all_muxes G) -> sg m = mu m.
  Hypothesis Hchoice : forall c a k, In c (pnodes g) -> find_node (pnodes G) (nid c) = Some a ->
                                     nops c = [k] -> node_choice sg a = Some k.

  Lemma sim_args (evg evG : ident -> option Z) os as_ vs :
    (forall id v, evg id = Some v -> evG id = Some v) ->
    (forall m a, In a as_ -> In m (src_muxes a) -> sg m = mu m) ->
    valid_args mu os as_ = Some true ->
    map_opt (eval_src evg sgg ins) os = Some vs ->
    map_opt (eval_src evG sg ins) as_ = Some vs.
  Proof.
    intros Hev. revert as_ vs. induction os as [|o os IH]; intros [|a as_] vs Hm Hv He; cbn [valid_args] in Hv;
      try discriminate.
    - cbn [map_opt] in *. exact He.
    - destruct (src_leaf o) as [l|] eqn:El; [|discriminate].
      destruct (leaf_eqb l (follow mu a)) eqn:Eq; [|discriminate].
      apply leaf_eqb_eq in Eq.
      cbn [map_opt] in *.
      rewrite (eval_src_leaf _ _ _ _ _ El) in He.
      rewrite (eval_src_follow evG sg mu ins a) by (intros m Hin; apply (Hm m a); [left; reflexivity|exact Hin]).
      rewrite <- Eq.
      destruct (eval_leaf evg ins l) as [v|] eqn:E1; [|discriminate].
      assert (eval_leaf evG ins l = Some v) as ->.
      { destruct l; cbn [eval_leaf] in *; [exact E1|apply Hev; exact E1]. }
      destruct (map_opt (eval_src evg sgg ins) os) as [vs'|] eqn:E2; [|discriminate].
      rewrite (IH as_ vs'); [exact He| |exact Hv|reflexivity].
      intros m a' Ha' Hm'. apply (Hm m a'); [right; exact Ha'|exact Hm'].
  Qed.

  Lemma concrete_node c : In c (pnodes g) -> exists k, nops c = [k].
  Proof.
    intros Hin. unfold is_concrete in Hconc. apply andb_true_iff in Hconc as [H _].
    rewrite forallb_forall in H. specialize (H c Hin). apply andb_true_iff in H as [H _].
    apply Nat.eqb_eq in H. destruct (nops c) as [|k [|? ?]]; try discriminate. eauto.
  Qed.

  Lemma mux_of_node a s m : In a (pnodes G) -> In s (nargs a) -> In m (src_muxes s) -> In m (all_muxes G).
  Proof.
    intros Ha Hs Hm. unfold all_muxes, all_srcs. apply in_flat_map. exists s. split; [|exact Hm].
    apply in_or_app. left. apply in_flat_map. exists a. auto.
  Qed.

  Lemma mux_of_out s m : In s (pout G) -> In m (src_muxes s) -> In m (all_muxes G).
  Proof.
    intros Hs Hm. unfold all_muxes, all_srcs. apply in_flat_map. exists s. split; [|exact Hm].
    apply in_or_app. right. exact Hs.
  Qed.

  Lemma sim_id f : forall id v, eval_id opsem f g sgg ins id = Some v -> eval_id opsem f G sg ins id = Some v.
  Proof.
    induction f as [|f IH]; intros id v H; cbn [eval_id] in *; [discriminate|].
    destruct (find_node (pnodes g) id) as [c|] eqn:Ec; [|discriminate].
    destruct (find_node_some _ _ _ Ec) as [Hin Hid].
    pose proof Hvalid as Hv. unfold valid_mapping in Hv.
    destruct (valid_nodes mu (pnodes G) (pnodes g)) as [[|]|] eqn:Evn; try discriminate.
    destruct (valid_nodes_in _ _ _ c Evn Hin) as (a & Ha & Hva).
    rewrite Hid in Ha. rewrite Ha.
    destruct (find_node_some _ _ _ Ha) as [HaG _].
    destruct (map_opt (eval_src (eval_id opsem f g sgg ins) sgg ins) (nargs c)) as [vs|] eqn:Em; [|discriminate].
    assert (map_opt (eval_src (eval_id opsem f G sg ins) sg ins) (nargs a) = Some vs) as ->.
    { apply (sim_args (eval_id opsem f g sgg ins) (eval_id opsem f G sg ins) (nargs c) (nargs a) vs IH);
        [|exact Hva|exact Em].
      intros m s Hs Hm. apply Hmux. eapply mux_of_node; eauto. }
    destruct (concrete_node c Hin) as [k Hk].
    assert (node_choice sgg c = Some k) as Hc.
    { unfold node_choice. rewrite Hk. reflexivity. }
    rewrite Hc in H. rewrite <- Hid in Ha. rewrite (Hchoice c a k Hin Ha Hk). exact H.
  Qed.

  (* valid_mapping_sem: under a valid mapping (and the choose switches selecting the kernel's operations)
     the abstract PE yields what the concrete graph yields, for every amount of fuel the latter needs *)
  Lemma sim_pe f v : eval_pe_fuel opsem f g sgg ins = Some v -> eval_pe_fuel opsem f G sg ins = Some v.
  Proof.
    unfold eval_pe_fuel. intros H.
    pose proof Hvalid as Hv. unfold valid_mapping in Hv.
    destruct (valid_nodes mu (pnodes G) (pnodes g)) as [[|]|] eqn:Evn; try discriminate.
    apply (sim_args (eval_id opsem f g sgg ins) (eval_id opsem f G sg ins) (pout g) (pout G) v).
    - apply sim_id.
    - intros m s Hs Hm. apply Hmux. eapply mux_of_out; eauto.
    - exact Hv.
    - exact H.
  Qed.
End Sim.

(* ---------------------------------------------------------------- fuel *)
Section Fuel.
  Variable opsem : opk -> list Z -> Z.

  Lemma map_opt_mono {A B} (f f' : A -> option B) l r :
    (forall x y, f x = Some y -> f' x = Some y) -> map_opt f l = Some r -> map_opt f' l = Some r.
  Proof.
    intros Hf. revert r. induction l as [|x xs IH]; intros r H; cbn [map_opt] in *; [exact H|].
    destruct (f x) as [y|] eqn:E; [|discriminate]. rewrite (Hf _ _ E).
    destruct (map_opt f xs) as [ys|]; [|discriminate]. rewrite (IH ys eq_refl). exact H.
  Qed.

  Lemma eval_src_mono (ev ev' : ident -> option Z) sg ins s v :
    (forall id w, ev id = Some w -> ev' id = Some w) ->
    eval_src ev sg ins s = Some v -> eval_src ev' sg ins s = Some v.
  Proof.
    intros Hev. induction s as [i|id|sw l IHl r IHr]; cbn [eval_src]; auto.
    destruct (sg sw =? 1); auto.
  Qed.

  Lemma eval_id_mono G sg ins f : forall id v,
    eval_id opsem f G sg ins id = Some v -> eval_id opsem (S f) G sg ins id = Some v.
  Proof.
    induction f as [|f IH]; intros id v H; [discriminate|].
    cbn [eval_id] in H. change (eval_id opsem (S (S f)) G sg ins id) with
      (match find_node (pnodes G) id with
       | None => None
       | Some n => match map_opt (eval_src (eval_id opsem (S f) G sg ins) sg ins) (nargs n) with
                   | None => None
                   | Some vs => match node_choice sg n with Some k => Some (opsem k vs) | None => None end
                   end
       end).
    destruct (find_node (pnodes G) id) as [n|]; [|discriminate].
    destruct (map_opt (eval_src (eval_id opsem f G sg ins) sg ins) (nargs n)) as [vs|] eqn:E; [|discriminate].
    rewrite (map_opt_mono (eval_src (eval_id opsem f G sg ins) sg ins)
                          (eval_src (eval_id opsem (S f) G sg ins) sg ins) (nargs n) vs); [exact H| |exact E].
    intros x y. apply eval_src_mono. exact IH.
  Qed.

  Lemma eval_id_mono_le G sg ins f f' id v :
    (f <= f')%nat -> eval_id opsem f G sg ins id = Some v -> eval_id opsem f' G sg ins id = Some v.
  Proof. induction 1 as [|m Hle IH]; intros H; [exact H|]. apply eval_id_mono. apply IH. exact H. Qed.

  Lemma eval_pe_fuel_mono G sg ins f f' v :
    (f <= f')%nat -> eval_pe_fuel opsem f G sg ins = Some v -> eval_pe_fuel opsem f' G sg ins = Some v.
  Proof.
    intros Hle. unfold eval_pe_fuel. apply map_opt_mono. intros x y. apply eval_src_mono.
    intros id w. apply eval_id_mono_le. exact Hle.
  Qed.
End Fuel.
