(* C20 — proofs, part 9: append_to_abstract_graph cannot raise on kernel graphs as encode produces them
   (merge_succeeds), hence history_correct without the "merge goes through" hypothesis. *)
From Snax Require Import Base.Prelude Base.ListAux Model.C20Phs Model.C20Order Proofs.C20PhsProofs
  Proofs.C20DecodeProofs Proofs.C20SearchProofs Proofs.C20AppendProofs Proofs.C20HistoryProofs
  Proofs.C20WfProofs Proofs.C20HistoryFullProofs.

Definition has (G : pe) (id : ident) : Prop := exists a, find_node (pnodes G) id = Some a.
Definition arity (id : ident) : nat := length (fst (fst id)).
Definition AR (G : pe) : Prop := forall n, In n (pnodes G) -> length (nargs n) = arity (nid n).
Definition owner_ok (G : pe) (o : src) : Prop := exists e, equiv_owner G o = Some e.

Lemma arity_ok_AR G : arity_ok G = true -> AR G.
Proof. unfold arity_ok, AR. rewrite forallb_forall. intros H n Hn. apply Nat.eqb_eq. apply H. exact Hn. Qed.

Lemma owner_ok_of G s :
  src_is_leaf s = true -> src_in_range (pdata G) s = true -> (forall id, s = SChoose id -> has G id) -> owner_ok G s.
Proof.
  intros Hl Hr Hh. destruct s as [i|id|sw l r]; cbn [src_is_leaf src_in_range] in *; [| |discriminate].
  - exists (SArg i). cbn [equiv_owner]. rewrite Hr. reflexivity.
  - destruct (Hh id eq_refl) as [a Ha]. exists (SChoose id). cbn [equiv_owner]. rewrite Ha. reflexivity.
Qed.

Lemma uncollide_succeeds G : forall os as_ n,
  length os = length as_ -> (forall o, In o os -> owner_ok G o) ->
  exists r n', uncollide_args G n os as_ = Some (r, n').
Proof.
  induction os as [|o os IH]; intros [|a as_] n Hl Ho; cbn [length] in Hl; try discriminate.
  - exists [], n. reflexivity.
  - cbn [uncollide_args]. destruct (are_equivalent o a).
    + destruct (IH as_ n) as (r & n' & ->); [lia|intros x Hx; apply Ho; right; exact Hx|]. eauto.
    + destruct (Ho o (or_introl eq_refl)) as [e ->].
      destruct (IH as_ (S n)) as (r & n' & ->); [lia|intros x Hx; apply Ho; right; exact Hx|]. eauto.
Qed.

Lemma Forall2_length' {A B} (R : A -> B -> Prop) l1 l2 : Forall2 R l1 l2 -> length l1 = length l2.
Proof. induction 1; cbn [length]; congruence. Qed.

Lemma append_node_succeeds G c :
  AR G -> (forall o, In o (nargs c) -> owner_ok G o) -> length (nargs c) = arity (nid c) -> nops c <> [] ->
  exists G1, append_node G c = Some G1.
Proof.
  intros HAR Ho Hlen Hops. unfold append_node.
  destruct (find_node (pnodes G) (nid c)) as [a|] eqn:Ea.
  - destruct (find_node_some _ _ _ Ea) as [HaG Hida].
    destruct (uncollide_succeeds G (nargs c) (nargs a) (pnsw G)) as (r & n' & ->); [|exact Ho|eauto].
    rewrite Hlen, (HAR a HaG), Hida. reflexivity.
  - destruct (map_opt_some (equiv_owner G) (nargs c) Ho) as [es ->].
    destruct (nops c); [congruence|eauto].
Qed.

Lemma append_node_props G c G1 :
  append_node G c = Some G1 -> AR G -> length (nargs c) = arity (nid c) ->
  AR G1 /\ pdata G1 = pdata G /\ pout G1 = pout G /\ (forall id, has G id -> has G1 id) /\ has G1 (nid c).
Proof.
  intros H HAR Hlen.
  destruct (append_node_out _ _ _ H) as [Ho Hd].
  assert (has G1 (nid c)) as Hself.
  { destruct (append_node_self _ _ _ H) as (a & Ha & _). exists a. exact Ha. }
  split; [|split; [exact Hd|split; [exact Ho|split; [|exact Hself]]]];
    unfold append_node in H; destruct (find_node (pnodes G) (nid c)) as [a|] eqn:Ea.
  - destruct (uncollide_args G (pnsw G) (nargs c) (nargs a)) as [[args' n']|] eqn:Eu; [|discriminate].
    inversion H; subst G1. clear H. destruct (find_node_some _ _ _ Ea) as [HaG Hida].
    intros n Hn. cbn [pnodes] in Hn. destruct (in_replace_node _ _ _ _ Hn) as [->|Hn']; [|apply HAR; exact Hn'].
    cbn [nargs nid]. rewrite <- (Forall2_length' _ _ _ (uncollide_mono _ _ _ _ _ _ Eu)). apply HAR. exact HaG.
  - destruct (map_opt (equiv_owner G) (nargs c)) as [es|] eqn:Ee; [|discriminate].
    destruct (nops c) as [|k0 ks]; [discriminate|]. inversion H; subst G1. clear H.
    intros n Hn. cbn [pnodes] in Hn. apply in_app_or in Hn as [Hn|[<-|[]]]; [apply HAR; exact Hn|].
    cbn [nargs nid]. rewrite (map_opt_length _ _ _ Ee). exact Hlen.
  - destruct (uncollide_args G (pnsw G) (nargs c) (nargs a)) as [[args' n']|] eqn:Eu; [|discriminate].
    inversion H; subst G1. clear H. destruct (find_node_some _ _ _ Ea) as [HaG Hida].
    intros id [a0 Ha0]. unfold has. cbn [pnodes].
    destruct (ident_eqb id (nid c)) eqn:E.
    + apply ident_eqb_eq in E. subst id. eexists. eapply find_replace_same; [exact Ea|exact Hida].
    + apply ident_eqb_neq in E. exists a0. rewrite find_replace_other; [exact Ha0|exact Hida|exact E].
  - destruct (map_opt (equiv_owner G) (nargs c)) as [es|]; [|discriminate].
    destruct (nops c) as [|k0 ks]; [discriminate|]. inversion H; subst G1. clear H.
    intros id [a0 Ha0]. exists a0. cbn [pnodes]. apply find_node_app_l. exact Ha0.
Qed.

(* the choose ops of a kernel, in block order: operands are leaves, in range, defined earlier *)
Definition node_good (d : nat) (n : node) : bool :=
  Nat.eqb (length (nops n)) 1 && forallb src_is_leaf (nargs n) && forallb (src_in_range d) (nargs n)
  && Nat.eqb (length (nargs n)) (arity (nid n)).

Lemma leaf_defined_in seen s id :
  forallb (leaf_defined seen) (leaves s) = true -> s = SChoose id -> In id seen.
Proof.
  intros H ->. cbn [leaves forallb leaf_defined] in H. rewrite andb_true_r in H.
  apply existsb_exists in H as (x & Hx & E). apply ident_eqb_eq in E. subst. exact Hx.
Qed.

Lemma forallb_flat_map_in {A B} (p : B -> bool) (f : A -> list B) l x :
  forallb p (flat_map f l) = true -> In x l -> forallb p (f x) = true.
Proof.
  intros H Hx. apply forallb_forall. intros y Hy. rewrite forallb_forall in H. apply H.
  apply in_flat_map. exists x. auto.
Qed.

Lemma args_owner_ok G d seen args :
  pdata G = d -> (forall id, In id seen -> has G id) ->
  forallb src_is_leaf args = true -> forallb (src_in_range d) args = true ->
  forallb (leaf_defined seen) (flat_map leaves args) = true ->
  forall o, In o args -> owner_ok G o.
Proof.
  intros Hd Hseen Hl Hr Hdef o Ho. rewrite forallb_forall in Hl, Hr.
  apply owner_ok_of; [apply Hl; exact Ho|rewrite Hd; apply Hr; exact Ho|].
  intros id E. apply Hseen. eapply leaf_defined_in; [|exact E]. eapply forallb_flat_map_in; eauto.
Qed.

Lemma append_nodes_succeeds d : forall cs G seen,
  AR G -> pdata G = d -> (forall id, In id seen -> has G id) ->
  forallb (node_good d) cs = true -> ordered_nodes seen cs = true ->
  exists G1, append_nodes cs G = Some G1 /\ AR G1 /\ pdata G1 = d /\ pout G1 = pout G /\
             forall id, In id (seen ++ map nid cs) -> has G1 id.
Proof.
  induction cs as [|c cs IH]; intros G seen HAR Hd Hseen Hg Hord.
  - exists G. unfold append_nodes. cbn [fold_left map]. rewrite app_nil_r. auto.
  - cbn [forallb] in Hg. apply andb_true_iff in Hg as [Hc Hg].
    cbn [ordered_nodes] in Hord. apply andb_true_iff in Hord as [Hdef Hord].
    unfold node_good in Hc. rewrite !andb_true_iff in Hc. destruct Hc as [[[Hops Hl] Hr] Hlen].
    apply Nat.eqb_eq in Hlen. apply Nat.eqb_eq in Hops.
    destruct (append_node_succeeds G c HAR) as [G0 E0]; [eapply args_owner_ok; eauto|exact Hlen| |].
    { destruct (nops c); [discriminate|discriminate]. }
    destruct (append_node_props _ _ _ E0 HAR Hlen) as (HAR0 & Hd0 & Ho0 & Hm0 & Hs0).
    destruct (IH G0 (seen ++ [nid c]) HAR0) as (G1 & E1 & HAR1 & Hd1 & Ho1 & Hh1); [congruence| |exact Hg|exact Hord|].
    + intros id Hin. apply in_app_or in Hin as [Hin|[<-|[]]]; [apply Hm0; apply Hseen; exact Hin|exact Hs0].
    + exists G1. rewrite append_nodes_cons, E0. split; [exact E1|]. split; [exact HAR1|]. split; [exact Hd1|].
      split; [congruence|]. intros id Hin. apply Hh1. cbn [map]. rewrite <- app_assoc. exact Hin.
Qed.

Lemma forallb_app' {A} (p : A -> bool) l1 l2 : forallb p (l1 ++ l2) = forallb p l1 && forallb p l2.
Proof. induction l1 as [|x xs IH]; cbn [app forallb]; [reflexivity|]. rewrite IH, andb_assoc. reflexivity. Qed.

Lemma kernel_nodes_good g :
  is_concrete g = true -> args_in_range g = true -> arity_ok g = true ->
  forallb (node_good (pdata g)) (pnodes g) = true.
Proof.
  unfold is_concrete, args_in_range, arity_ok, all_srcs. intros Hc Hr Ha.
  apply andb_true_iff in Hc as [Hc _]. rewrite forallb_app' in Hr. apply andb_true_iff in Hr as [Hr _].
  rewrite forallb_forall in *. intros n Hn. unfold node_good.
  specialize (Hc n Hn). apply andb_true_iff in Hc as [H1 H2]. rewrite H1, H2. cbn [andb].
  unfold arity. rewrite (Ha n Hn), andb_true_r.
  apply forallb_forall. intros s Hs. apply Hr. apply in_flat_map. exists n. auto.
Qed.

Lemma kernel_parts g : kernel_total_ok g = true ->
  is_concrete g = true /\ nodup_ids (map nid (pnodes g)) = true /\ pe_wf g = true /\ block_ordered g = true /\
  args_in_range g = true /\ arity_ok g = true /\ length (pout g) = 1%nat.
Proof.
  unfold kernel_total_ok. rewrite !andb_true_iff, Nat.eqb_eq. tauto.
Qed.

Theorem append_succeeds g' G :
  kernel_total_ok g' = true -> AR G -> pdata G = pdata g' -> length (pout G) = 1%nat ->
  exists G', append g' G = Some G' /\ AR G' /\ pdata G' = pdata G /\ length (pout G') = 1%nat.
Proof.
  intros Hk HAR Hd Hp. destruct (kernel_parts g' Hk) as (Hc & _ & _ & Hbo & Hr & Ha & Hpo).
  unfold block_ordered in Hbo. apply andb_true_iff in Hbo as [Hord Hout].
  destruct (append_nodes_succeeds (pdata g') (pnodes g') G [] HAR Hd) as (G1 & E1 & HAR1 & Hd1 & Ho1 & Hh1);
    [intros id []|apply kernel_nodes_good; assumption|exact Hord|].
  cbn [app] in Hh1.
  destruct (uncollide_succeeds G1 (pout g') (pout G1) (pnsw G1)) as (o' & n' & Eu).
  - rewrite Ho1. congruence.
  - unfold is_concrete in Hc. apply andb_true_iff in Hc as [_ Hcl].
    unfold args_in_range, all_srcs in Hr. rewrite forallb_app' in Hr. apply andb_true_iff in Hr as [_ Hro].
    apply (args_owner_ok G1 (pdata g') (map nid (pnodes g')) (pout g') Hd1 Hh1 Hcl Hro Hout).
  - exists (mkPe (pdata G1) n' (pnodes G1) o'). unfold append. rewrite E1, Eu.
    split; [reflexivity|]. split; [exact HAR1|]. cbn [pdata pout]. split; [congruence|].
    rewrite <- (Forall2_length' _ _ _ (uncollide_mono _ _ _ _ _ _ Eu)). congruence.
Qed.

(* merge_succeeds: a non-empty history of kernel graphs with one data arity always merges *)
Theorem merge_succeeds g0 rest d :
  (forall g, In g (g0 :: rest) -> kernel_total_ok g = true /\ pdata g = d) ->
  exists G, merge_all (g0 :: rest) = Some G /\ pdata G = d.
Proof.
  intros Hk. unfold merge_all. fold ma_step.
  assert (forall rest G0, AR G0 -> pdata G0 = d -> length (pout G0) = 1%nat ->
            (forall g, In g rest -> kernel_total_ok g = true /\ pdata g = d) ->
            exists G, fold_left ma_step rest (Some G0) = Some G /\ pdata G = d) as Hfold.
  { clear. induction rest as [|g' rest IH]; intros G0 HAR Hd Hp Hk; cbn [fold_left ma_step]; [eauto|].
    destruct (Hk g' (or_introl eq_refl)) as [Hk' Hd'].
    destruct (append_succeeds g' G0 Hk' HAR) as (G1 & -> & HAR1 & Hd1 & Hp1); [congruence|exact Hp|].
    apply IH; [exact HAR1|congruence|exact Hp1|]. intros g Hg. apply Hk. right. exact Hg. }
  destruct (Hk g0 (or_introl eq_refl)) as [Hk0 Hd0].
  destruct (kernel_parts g0 Hk0) as (_ & _ & _ & _ & _ & Ha & Hpo).
  apply Hfold; [apply arity_ok_AR; exact Ha|exact Hd0|exact Hpo|].
  intros g Hg. apply Hk. right. exact Hg.
Qed.

Section Total.
  Variable opsem : opk -> list Z -> Z.

  (* history_correct_total: no hypothesis on the merge *)
  Theorem history_correct_total g0 rest d :
    (forall g, In g (g0 :: rest) -> kernel_total_ok g = true /\ pdata g = d) ->
    exists G, merge_all (g0 :: rest) = Some G /\
      forall g, In g (g0 :: rest) ->
        exists sw, decode G g = Some sw /\ true_switches G = Some (length sw) /\
                   forall ins v swg, eval_pe opsem g swg ins = Some v -> eval_pe opsem G sw ins = Some v.
  Proof.
    intros Hk. destruct (merge_succeeds g0 rest d Hk) as (G & Hm & HdG). exists G. split; [exact Hm|].
    apply (history_correct opsem (g0 :: rest) G Hm).
    intros g Hg. destruct (Hk g Hg) as [Hkg Hd]. destruct (kernel_parts g Hkg) as (H1 & H2 & H3 & _).
    split; [unfold kernel_ok; rewrite H1, H2; reflexivity|]. split; [exact H3|congruence].
  Qed.
End Total.
