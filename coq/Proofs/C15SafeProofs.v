(* C15 — the decidable class safe_pipe implies the footprint hypotheses of pipeline_equiv_partial
   for ALL trip counts, and the loop run with the parity-selected copies computes, on every
   buffer that is not one of the duplicated pair, what the original loop computes.  Together:
   under safe_pipe, for all S >= 1, n >= S-1 and every interleaving the barriers permit, the
   unrolled double-buffered code leaves the buffers of the sequential loop. *)
From Coq Require Import Permutation.
From Snax Require Import Base.Prelude Base.ListAux Model.MultiCore Model.C15Pipeline
  Proofs.MultiCoreCommute Proofs.C15PipelineProofs Proofs.C15EquivProofs.

(* ---- small facts ------------------------------------------------------------------------------- *)
Lemma operand_eqb_eq a b : operand_eqb a b = true <-> a = b.
Proof.
  destruct a as [x|x s], b as [y|y t]; simpl; split; intros H; try discriminate; try congruence.
  - apply Z.eqb_eq in H. congruence.
  - inversion H. apply Z.eqb_refl.
  - apply andb_true_iff in H as [H1 H2]. apply Z.eqb_eq in H1, H2. congruence.
  - inversion H. rewrite !Z.eqb_refl. reflexivity.
Qed.

Lemma occ_pos o l : (0 <? occ o l)%nat = true <-> In o l.
Proof.
  unfold occ. split.
  - intros H. apply Nat.ltb_lt in H. destruct (filter (operand_eqb o) l) as [|x r] eqn:E; [simpl in H; lia|].
    assert (Hx : In x (filter (operand_eqb o) l)) by (rewrite E; left; reflexivity).
    apply filter_In in Hx as [Hx He]. apply operand_eqb_eq in He. subst. exact Hx.
  - intros H. apply Nat.ltb_lt.
    assert (Hx : In o (filter (operand_eqb o) l)) by (apply filter_In; split; [exact H | apply operand_eqb_eq; reflexivity]).
    destruct (filter (operand_eqb o) l); [destruct Hx | simpl; lia].
Qed.

Lemma existsb_operand w l : existsb (operand_eqb w) l = true <-> In w l.
Proof.
  rewrite existsb_exists. split.
  - intros [x [Hx He]]. apply operand_eqb_eq in He. subst. exact Hx.
  - intros H. exists w. split; [exact H | apply operand_eqb_eq; reflexivity].
Qed.

Lemma in_dedup x l : In x (dedup l) <-> In x l.
Proof.
  induction l as [|y r IH]; simpl; [tauto|].
  destruct (memb y r) eqn:E.
  - rewrite IH. split; [tauto|]. intros [<-|H]; [apply memb_true; exact E | exact H].
  - simpl. rewrite IH. tauto.
Qed.

Lemma in_fixed_of b l : In b (fixed_of l) <-> In (Fixed b) l.
Proof.
  induction l as [|[c|c s] r IH]; simpl; [tauto| |].
  - rewrite IH. split; intros [H|H]; try (right; exact H); left; congruence.
  - rewrite IH. split; [tauto|]. intros [H|H]; [discriminate | exact H].
Qed.

Lemma in_tiles_of b s l : In (b, s) (tiles_of l) <-> In (Tile b s) l.
Proof.
  induction l as [|[c|c u] r IH]; simpl; [tauto| |].
  - rewrite IH. split; [tauto|]. intros [H|H]; [discriminate | exact H].
  - rewrite IH. split; intros [H|H]; try (right; exact H); left; congruence.
Qed.

Lemma in_indexed_gen {A} (d : A) : forall (l : list A) s k, (k < length l)%nat ->
  In ((s + k)%nat, nth k l d) (combine (seq s (length l)) l).
Proof.
  induction l as [|x r IH]; intros s k Hk; simpl in *; [lia|].
  destruct k as [|k].
  - left. f_equal. lia.
  - right. replace (s + S k)%nat with (S s + k)%nat by lia. apply IH. lia.
Qed.

Lemma in_indexed {A} (d : A) (l : list A) k : (k < length l)%nat -> In (k, nth k l d) (indexed l).
Proof. intros H. unfold indexed. apply (in_indexed_gen d l 0 k H). Qed.

Lemma nodupb_NoDup l : nodupb l = true -> NoDup l.
Proof.
  induction l as [|x r IH]; simpl; intros H; [constructor|].
  apply andb_true_iff in H as [H1 H2]. constructor; [|apply IH; exact H2].
  apply negb_true_iff in H1. apply memb_false in H1. exact H1.
Qed.

Lemma first_stage_spec f : forall l k0, (first_stage f l k0 < k0 + length l)%nat ->
  f (nth (first_stage f l k0 - k0) l []) = true.
Proof.
  induction l as [|st r IH]; intros k0 H; simpl in *; [lia|].
  destruct (f st) eqn:E.
  - replace (k0 - k0)%nat with 0%nat by lia. exact E.
  - assert (Hge : forall l' k, (k <= first_stage f l' k)%nat).
    { induction l' as [|y t IHl]; intros k; simpl; [lia|]. destruct (f y); [lia|]. specialize (IHl (S k)). lia. }
    specialize (Hge r (S k0)).
    replace (first_stage f r (S k0) - k0)%nat with (S (first_stage f r (S k0) - S k0)) by lia.
    apply IH. lia.
Qed.

(* ---- stages and operands -------------------------------------------------------------------------- *)
Definition stg (p : pipe) (k : nat) : stage := nth k (p_stages p) [].

Lemma stg_lt p k o : In o (stg p k) -> (k < nstages p)%nat.
Proof.
  intros H. unfold stg in H. destruct (lt_dec k (nstages p)) as [L|L]; [exact L|].
  unfold nstages in L. rewrite nth_overflow in H by lia. destruct H.
Qed.

Lemma stg_in p k o : In o (stg p k) -> In (stg p k) (p_stages p).
Proof. intros H. apply nth_In. apply (stg_lt p k o H). Qed.

Lemma in_all_operands p k o w : In o (stg p k) -> In w (s_ins o) \/ In w (s_outs o) -> In w (all_operands p).
Proof.
  intros Ho Hw. unfold all_operands. apply in_flat_map. exists (stg p k). split; [eapply stg_in; exact Ho|].
  unfold stage_ins, stage_outs. apply in_or_app. destruct Hw as [Hw|Hw]; [left | right]; apply in_flat_map; exists o; split; assumption.
Qed.

Lemma reads_sub o w : In w (s_reads o) -> In w (s_ins o) \/ In w (s_outs o).
Proof.
  unfold s_reads. intros H. apply in_app_or in H as [H|H]; [left; exact H|].
  destruct (s_acc o); [right; exact H | destruct H].
Qed.

Lemma accessed_sub o w : In w (accessed o) -> In w (s_ins o) \/ In w (s_outs o).
Proof.
  unfold accessed. intros H. apply in_app_or in H as [H|H]; [apply reads_sub; exact H | right; exact H].
Qed.

Lemma writes_fixed_iff b st : writes_fixed b st = true <-> exists o, In o st /\ In (Fixed b) (s_outs o).
Proof. unfold writes_fixed, stage_outs. rewrite occ_pos, in_flat_map. tauto. Qed.

Lemma reads_fixed_iff b st : reads_fixed b st = true <-> exists o, In o st /\ In (Fixed b) (s_reads o).
Proof. unfold reads_fixed. rewrite occ_pos, in_flat_map. tauto. Qed.

Lemma touches_iff b st : touches_fixed b st = true <-> exists o, In o st /\ In (Fixed b) (accessed o).
Proof.
  unfold touches_fixed, accessed. rewrite orb_true_iff, writes_fixed_iff, reads_fixed_iff. split.
  - intros [[o [H1 H2]]|[o [H1 H2]]]; exists o; (split; [exact H1|]); apply in_or_app; [right | left]; exact H2.
  - intros [o [H1 H2]]. apply in_app_or in H2 as [H2|H2]; [right | left]; exists o; split; assumption.
Qed.

Lemma bid_inj b off b' off' : 0 <= b < IDLIM -> 0 <= b' < IDLIM -> bid b off = bid b' off' -> b = b' /\ off = off'.
Proof. unfold bid, IDLIM. intros H1 H2 E. lia. Qed.

(* ---- what safe_pipe gives ---------------------------------------------------------------------------- *)
Section Safe.
  Variables (p : pipe) (ds : list Z).
  Hypothesis Hsafe : safe_pipe p ds = true.

  Lemma safe_parts :
    ids_ok p = true /\ forallb stage_ok (p_stages p) = true /\ tiles_ok p = true /\
    forallb (fun b => if memb b ds then dup_ok p b else read_only p b || private_to_one p b) (fixed_buffers p) = true /\
    forallb (fun b => negb (memb (b + DUPOFF) (fixed_buffers p)) &&
                      negb (memb (b + DUPOFF) (map fst (tiles_of (all_operands p))))) ds = true.
  Proof.
    pose proof Hsafe as H. unfold safe_pipe in H.
    apply andb_true_iff in H as [H H5]. apply andb_true_iff in H as [H H4].
    apply andb_true_iff in H as [H H3]. apply andb_true_iff in H as [H1 H2].
    repeat split; assumption.
  Qed.

  Lemma vids_unique_safe : vids_unique p.
  Proof.
    destruct safe_parts as [Hi _]. unfold ids_ok in Hi. apply andb_true_iff in Hi as [_ Hn].
    apply nodupb_NoDup. exact Hn.
  Qed.

  Lemma fixed_in_buffers c : In (Fixed c) (all_operands p) -> In c (fixed_buffers p).
  Proof. intros H. unfold fixed_buffers. apply in_dedup. apply in_fixed_of. exact H. Qed.

  Lemma fixed_range c : In (Fixed c) (all_operands p) -> 0 <= c /\ c + DUPOFF < IDLIM.
  Proof.
    intros H. destruct safe_parts as [Hi _]. unfold ids_ok in Hi. apply andb_true_iff in Hi as [Hr _].
    rewrite forallb_forall in Hr. specialize (Hr c). rewrite in_app_iff in Hr.
    specialize (Hr (or_introl (fixed_in_buffers c H))). lia.
  Qed.

  Lemma tile_range c s : In (Tile c s) (all_operands p) -> 0 <= c /\ c + DUPOFF < IDLIM.
  Proof.
    intros H. destruct safe_parts as [Hi _]. unfold ids_ok in Hi. apply andb_true_iff in Hi as [Hr _].
    rewrite forallb_forall in Hr. specialize (Hr c). rewrite in_app_iff in Hr.
    assert (Hc : In c (map fst (tiles_of (all_operands p)))).
    { apply in_map_iff. exists (c, s). split; [reflexivity | apply in_tiles_of; exact H]. }
    specialize (Hr (or_intror Hc)). lia.
  Qed.

  Lemma tile_facts c s : In (Tile c s) (all_operands p) ->
    s <> 0 /\ ~ In c (fixed_buffers p) /\ (forall s', In (Tile c s') (all_operands p) -> s' = s).
  Proof.
    intros H. destruct safe_parts as [_ [_ [Ht _]]]. unfold tiles_ok in Ht. rewrite forallb_forall in Ht.
    specialize (Ht (c, s) (proj2 (in_tiles_of c s _) H)). simpl in Ht.
    apply andb_true_iff in Ht as [Ht Hnf]. apply andb_true_iff in Ht as [Hs Hall].
    split; [|split].
    - apply negb_true_iff in Hs. apply Z.eqb_neq in Hs. exact Hs.
    - apply negb_true_iff in Hnf. apply memb_false in Hnf. exact Hnf.
    - intros s' H'. rewrite forallb_forall in Hall. specialize (Hall (c, s') (proj2 (in_tiles_of c s' _) H')).
      simpl in Hall. rewrite Z.eqb_refl in Hall. simpl in Hall. apply Z.eqb_eq in Hall. congruence.
  Qed.

  Lemma dup_facts b : In b ds ->
    ~ In (b + DUPOFF) (fixed_buffers p) /\ (forall s, ~ In (Tile (b + DUPOFF) s) (all_operands p)).
  Proof.
    intros H. destruct safe_parts as [_ [_ [_ [_ Hd]]]]. rewrite forallb_forall in Hd. specialize (Hd b H).
    apply andb_true_iff in Hd as [H1 H2]. apply negb_true_iff in H1, H2. apply memb_false in H1, H2.
    split; [exact H1|]. intros s Hs. apply H2. apply in_map_iff. exists (b + DUPOFF, s).
    split; [reflexivity | apply in_tiles_of; exact Hs].
  Qed.

  Definition writesF (k : nat) (c : Z) : Prop := exists o, In o (stg p k) /\ In (Fixed c) (s_outs o).
  Definition readsF (k : nat) (c : Z) : Prop := exists o, In o (stg p k) /\ In (Fixed c) (s_reads o).

  Lemma writesF_buffers k c : writesF k c -> In (Fixed c) (all_operands p).
  Proof. intros [o [Ho Hw]]. eapply in_all_operands; [exact Ho | right; exact Hw]. Qed.
  Lemma readsF_buffers k c : readsF k c -> In (Fixed c) (all_operands p).
  Proof. intros [o [Ho Hw]]. eapply in_all_operands; [exact Ho | apply reads_sub; exact Hw]. Qed.

  Lemma class_of c : In (Fixed c) (all_operands p) ->
    if memb c ds then dup_ok p c = true else read_only p c || private_to_one p c = true.
  Proof.
    intros H. destruct safe_parts as [_ [_ [_ [Hc _]]]]. rewrite forallb_forall in Hc.
    specialize (Hc c (fixed_in_buffers c H)). destruct (memb c ds); exact Hc.
  Qed.

  (* a Fixed buffer written in one stage and touched in another is a duplicated buffer, written by
     its out_stage and read (not written) by the next stage *)
  Lemma cross_stage_fixed kw kr c : writesF kw c -> (writesF kr c \/ readsF kr c) -> kw <> kr ->
    memb c ds = true /\ kw = out_stage p (Fixed c) /\ kr = S kw /\ readsF kr c.
  Proof.
    intros Hw Hr Hne.
    pose proof (class_of c (writesF_buffers kw c Hw)) as Hcl.
    assert (Lw : (kw < length (p_stages p))%nat) by (destruct Hw as [o [Ho _]]; apply (stg_lt p kw o Ho)).
    assert (Lr : (kr < length (p_stages p))%nat).
    { destruct Hr as [[o [Ho _]]|[o [Ho _]]]; apply (stg_lt p kr o Ho). }
    assert (Bw : writes_fixed c (stg p kw) = true) by (apply writes_fixed_iff; exact Hw).
    destruct (memb c ds) eqn:Ed.
    - unfold dup_ok in Hcl. rewrite forallb_forall in Hcl.
      pose proof (Hcl _ (in_indexed [] (p_stages p) kw Lw)) as Hkw. cbv beta iota zeta in Hkw.
      change (nth kw (p_stages p) []) with (stg p kw) in Hkw.
      pose proof (Hcl _ (in_indexed [] (p_stages p) kr Lr)) as Hkr. cbv beta iota zeta in Hkr.
      change (nth kr (p_stages p) []) with (stg p kr) in Hkr.
      apply andb_true_iff in Hkw as [Hkw1 _]. apply andb_true_iff in Hkr as [Hkr1 Hkr2].
      destruct (kw =? out_stage p (Fixed c))%nat eqn:E1; [|rewrite Bw in Hkw1; discriminate].
      apply Nat.eqb_eq in E1.
      assert (Hrr : readsF kr c).
      { destruct Hr as [Hr|Hr]; [|exact Hr]. exfalso.
        assert (Br : writes_fixed c (stg p kr) = true) by (apply writes_fixed_iff; exact Hr).
        destruct (kr =? out_stage p (Fixed c))%nat eqn:E2; [apply Nat.eqb_eq in E2; lia|].
        rewrite Br in Hkr1. discriminate. }
      assert (Brr : reads_fixed c (stg p kr) = true) by (apply reads_fixed_iff; exact Hrr).
      destruct (kr =? out_stage p (Fixed c) + 1)%nat eqn:E3; [|rewrite Brr in Hkr2; discriminate].
      apply Nat.eqb_eq in E3. repeat split; try assumption; lia.
    - exfalso. apply orb_true_iff in Hcl as [Hro|Hpr].
      + unfold read_only in Hro. apply negb_true_iff in Hro.
        assert (existsb (writes_fixed c) (p_stages p) = true).
        { apply existsb_exists. exists (stg p kw). split; [apply nth_In; exact Lw | exact Bw]. }
        congruence.
      + unfold private_to_one in Hpr. rewrite forallb_forall in Hpr.
        specialize (Hpr _ (in_indexed [] (p_stages p) kw Lw)). rewrite forallb_forall in Hpr.
        specialize (Hpr _ (in_indexed [] (p_stages p) kr Lr)). cbn [fst snd] in Hpr.
        change (nth kw (p_stages p) []) with (stg p kw) in Hpr. change (nth kr (p_stages p) []) with (stg p kr) in Hpr.
        assert (T1 : touches_fixed c (stg p kw) = true) by (unfold touches_fixed; rewrite Bw; reflexivity).
        assert (T2 : touches_fixed c (stg p kr) = true).
        { unfold touches_fixed. destruct Hr as [Hr|Hr].
          - rewrite (proj2 (writes_fixed_iff c _) Hr). reflexivity.
          - rewrite (proj2 (reads_fixed_iff c _) Hr). apply orb_true_r. }
        rewrite T1, T2 in Hpr. simpl in Hpr. rewrite orb_false_r in Hpr. apply Nat.eqb_eq in Hpr. contradiction.
  Qed.

  (* ---- buffer ids ---------------------------------------------------------------------------------- *)

  Lemma sel_range t c : In (Fixed c) (all_operands p) -> 0 <= sel ds t c < IDLIM.
  Proof.
    intros H. destruct (fixed_range c H) as [H1 H2]. unfold sel, DUPOFF in *.
    destruct (memb c ds); [destruct (t mod 2 =? 0)|]; lia.
  Qed.

  Lemma sel_eq_cases t t' c c' : In (Fixed c) (all_operands p) -> In (Fixed c') (all_operands p) ->
    sel ds t c = sel ds t' c' -> c = c' /\ (memb c ds = true -> t mod 2 = t' mod 2).
  Proof.
    intros Hc Hc' E. unfold sel in E.
    destruct (memb c ds) eqn:Ec; destruct (memb c' ds) eqn:Ec'.
    - destruct (t mod 2 =? 0) eqn:P; destruct (t' mod 2 =? 0) eqn:P'.
      + split; [exact E|]. intros _. lia.
      + exfalso. apply memb_true in Ec'. destruct (dup_facts c' Ec') as [Hn _]. apply Hn. rewrite <- E.
        apply fixed_in_buffers. exact Hc.
      + exfalso. apply memb_true in Ec. destruct (dup_facts c Ec) as [Hn _]. apply Hn. rewrite E.
        apply fixed_in_buffers. exact Hc'.
      + split; [unfold DUPOFF in E; lia|]. intros _.
        pose proof (Z.mod_pos_bound t 2). pose proof (Z.mod_pos_bound t' 2). lia.
    - destruct (t mod 2 =? 0).
      + subst c'. congruence.
      + exfalso. apply memb_true in Ec. destruct (dup_facts c Ec) as [Hn _]. apply Hn. rewrite E.
        apply fixed_in_buffers. exact Hc'.
    - destruct (t' mod 2 =? 0).
      + subst c'. congruence.
      + exfalso. apply memb_true in Ec'. destruct (dup_facts c' Ec') as [Hn _]. apply Hn. rewrite <- E.
        apply fixed_in_buffers. exact Hc.
    - split; [exact E | discriminate].
  Qed.

  (* two operands of the loop evaluate to the same buffer id only if they are the same operand (and
     same tile index, resp. same parity for a duplicated buffer) *)
  Lemma ev_eq_cases t t' w r : In w (all_operands p) -> In r (all_operands p) ->
    ev_operand ds t w = ev_operand ds t' r ->
    (exists c, w = Fixed c /\ r = Fixed c /\ (memb c ds = true -> t mod 2 = t' mod 2)) \/
    (exists c s, w = Tile c s /\ r = Tile c s /\ t = t').
  Proof.
    intros Hw Hr E. destruct w as [c|c s], r as [c'|c' s']; simpl in E.
    - left. apply bid_inj in E as [E _]; [|apply sel_range; assumption..].
      destruct (sel_eq_cases t t' c c' Hw Hr E) as [-> Hp]. exists c'. repeat split. exact Hp.
    - exfalso. destruct (tile_range c' s' Hr) as [R1 R2]. destruct (tile_facts c' s' Hr) as [_ [Hnf _]].
      apply bid_inj in E as [E _]; [|apply sel_range; assumption | unfold DUPOFF in *; lia].
      unfold sel in E. destruct (memb c ds) eqn:Ec; [destruct (t mod 2 =? 0)|].
      + apply Hnf. rewrite <- E. apply fixed_in_buffers. exact Hw.
      + apply memb_true in Ec. destruct (dup_facts c Ec) as [_ Hn]. apply (Hn s'). rewrite E. exact Hr.
      + apply Hnf. rewrite <- E. apply fixed_in_buffers. exact Hw.
    - exfalso. destruct (tile_range c s Hw) as [R1 R2]. destruct (tile_facts c s Hw) as [_ [Hnf _]].
      apply bid_inj in E as [E _]; [|unfold DUPOFF in *; lia | apply sel_range; assumption].
      unfold sel in E. destruct (memb c' ds) eqn:Ec; [destruct (t' mod 2 =? 0)|].
      + apply Hnf. rewrite E. apply fixed_in_buffers. exact Hr.
      + apply memb_true in Ec. destruct (dup_facts c' Ec) as [_ Hn]. apply (Hn s). rewrite <- E. exact Hw.
      + apply Hnf. rewrite E. apply fixed_in_buffers. exact Hr.
    - right. destruct (tile_range c s Hw) as [R1 R2]. destruct (tile_range c' s' Hr) as [R1' R2'].
      apply bid_inj in E as [Ec Eo]; [|unfold DUPOFF in *; lia..]. subst c'.
      destruct (tile_facts c s Hw) as [Hs [_ Hsame]]. pose proof (Hsame s' Hr) as ->.
      exists c, s. repeat split. apply (Z.mul_reg_r t t' s Hs Eo).
  Qed.
End Safe.

(* ---- safe_pipe implies the footprint hypotheses, for every trip count ------------------------------ *)
Lemma conflictb_intro a b :
  (forall x, In x (o_writes a) -> ~ In x (o_reads b) /\ ~ In x (o_writes b)) ->
  (forall x, In x (o_writes b) -> ~ In x (o_reads a)) -> conflictb a b = false.
Proof.
  intros H1 H2. unfold conflictb. apply negb_false_iff. apply andb_true_iff. split; apply disjointb_true.
  - intros x Hx Hi. apply in_app_or in Hi. destruct (H1 x Hx). tauto.
  - exact H2.
Qed.

Lemma in_writes_inst ds t o x : In x (o_writes (inst ds t o)) <-> exists w, In w (s_outs o) /\ x = ev_operand ds t w.
Proof. simpl. rewrite in_map_iff. split; intros [w [H1 H2]]; exists w; split; auto. Qed.
Lemma in_reads_inst ds t o x : In x (o_reads (inst ds t o)) <-> exists w, In w (s_reads o) /\ x = ev_operand ds t w.
Proof. simpl. rewrite in_map_iff. split; intros [w [H1 H2]]; exists w; split; auto. Qed.

Section SafeHyps.
  Variables (p : pipe) (ds : list Z).
  Hypothesis Hsafe : safe_pipe p ds = true.

  (* a written operand of stage kw and an accessed operand of stage kr <> kw, at iterations t <> t',
     evaluate to the same buffer only for a duplicated buffer produced at kw, read at kw+1, with equal
     parity of the two iterations *)
  Lemma cross_conflict kw kr t t' o o' w r :
    In o (stg p kw) -> In o' (stg p kr) -> In w (s_outs o) -> In r (accessed o') ->
    kw <> kr -> t <> t' -> ev_operand ds t w = ev_operand ds t' r ->
    kr = S kw /\ t mod 2 = t' mod 2 /\ In r (s_reads o').
  Proof.
    intros Ho Ho' Hw Hr Hk Ht E.
    assert (Aw : In w (all_operands p)) by (eapply in_all_operands; [exact Ho | right; exact Hw]).
    assert (Ar : In r (all_operands p)) by (eapply in_all_operands; [exact Ho' | apply accessed_sub; exact Hr]).
    destruct (ev_eq_cases p ds Hsafe t t' w r Aw Ar E) as [[c [-> [-> Hp]]]|[c [s [_ [_ Et]]]]]; [|contradiction].
    assert (W : writesF p kw c) by (exists o; split; assumption).
    assert (R : writesF p kr c \/ readsF p kr c).
    { unfold accessed in Hr. apply in_app_or in Hr as [Hr|Hr]; [right | left]; exists o'; split; assumption. }
    destruct (cross_stage_fixed p ds Hsafe kw kr c W R Hk) as [Hd [_ [Hkr Hrd]]].
    split; [exact Hkr|]. split; [apply Hp; exact Hd|].
    unfold accessed in Hr. apply in_app_or in Hr as [Hr|Hr]; [exact Hr|]. exfalso.
    (* r written in kr: then kr would be the out_stage as well *)
    assert (W' : writesF p kr c) by (exists o'; split; assumption).
    destruct (cross_stage_fixed p ds Hsafe kr kw c W' (or_introl W) (fun e => Hk (eq_sym e))) as [_ [_ [Hkw _]]]. lia.
  Qed.

  Theorem safe_overtake : forall n, overtake_safe p ds n.
  Proof.
    intros n k k' t t' a b Hk Ht Ht' _ Ha Hb.
    apply in_pair_ops in Ha as [o [Ho ->]]. apply in_pair_ops in Hb as [o' [Ho' ->]].
    change (nth k (p_stages p) []) with (stg p k) in Ho. change (nth k' (p_stages p) []) with (stg p k') in Ho'.
    apply conflictb_intro.
    - intros x Hx. apply in_writes_inst in Hx as [w [Hw ->]].
      assert (Hgen : forall r, In r (accessed o') -> ev_operand ds t w <> ev_operand ds t' r).
      { intros r Hr E. destruct (cross_conflict k k' t t' o o' w r Ho Ho' Hw Hr) as [Hkk _]; try lia; exact E. }
      split; intros Hi.
      + apply in_reads_inst in Hi as [r [Hr E]]. apply (Hgen r); [unfold accessed; apply in_or_app; left; exact Hr | exact E].
      + apply in_writes_inst in Hi as [r [Hr E]]. apply (Hgen r); [unfold accessed; apply in_or_app; right; exact Hr | exact E].
    - intros x Hx Hi. apply in_writes_inst in Hx as [w [Hw ->]]. apply in_reads_inst in Hi as [r [Hr E]].
      destruct (cross_conflict k' k t' t o' o w r Ho' Ho Hw) as [Hkk [Hpar _]];
        [unfold accessed; apply in_or_app; left; exact Hr | lia | lia | exact E |].
      (* k = k'+1, so t' = t+1: parities differ *)
      assert (t' = t + 1) by lia. subst t'.
      pose proof (Z.mod_pos_bound t 2). pose proof (Z.mod_pos_bound (t + 1) 2). lia.
  Qed.

  Theorem safe_stage : forall n, stage_safe p ds n.
  Proof.
    intros n k t a b _ Ha Hb Hc.
    apply in_pair_ops in Ha as [o [Ho ->]]. apply in_pair_ops in Hb as [o' [Ho' ->]].
    change (nth k (p_stages p) []) with (stg p k) in Ho, Ho'. simpl in Hc.
    destruct (safe_parts p ds Hsafe) as [_ [Hst _]]. rewrite forallb_forall in Hst.
    specialize (Hst (stg p k) (stg_in p k o Ho)). unfold stage_ok in Hst. rewrite forallb_forall in Hst.
    assert (Hno : forall o1 o2 w r, In o1 (stg p k) -> In o2 (stg p k) -> s_core o1 <> s_core o2 ->
               In w (s_outs o1) -> In r (accessed o2) -> ev_operand ds t w <> ev_operand ds t r).
    { intros o1 o2 w r H1 H2 Hcc Hw Hr E.
      assert (Aw : In w (all_operands p)) by (eapply in_all_operands; [exact H1 | right; exact Hw]).
      assert (Ar : In r (all_operands p)) by (eapply in_all_operands; [exact H2 | apply accessed_sub; exact Hr]).
      assert (Eq : w = r).
      { destruct (ev_eq_cases p ds Hsafe t t w r Aw Ar E) as [[c [-> [-> _]]]|[c [s [-> [-> _]]]]]; reflexivity. }
      subst r. pose proof (Hst o1 H1) as Hs. rewrite forallb_forall in Hs. specialize (Hs o2 H2).
      apply orb_true_iff in Hs as [Hs|Hs]; [apply Z.eqb_eq in Hs; contradiction|].
      rewrite forallb_forall in Hs. specialize (Hs w Hw). apply negb_true_iff in Hs.
      rewrite (proj2 (existsb_operand w (accessed o2)) Hr) in Hs. discriminate. }
    apply conflictb_intro.
    - intros x Hx. apply in_writes_inst in Hx as [w [Hw ->]]. split; intros Hi.
      + apply in_reads_inst in Hi as [r [Hr E]]. apply (Hno o o' w r Ho Ho' Hc Hw); [unfold accessed; apply in_or_app; left; exact Hr | exact E].
      + apply in_writes_inst in Hi as [r [Hr E]]. apply (Hno o o' w r Ho Ho' Hc Hw); [unfold accessed; apply in_or_app; right; exact Hr | exact E].
    - intros x Hx Hi. apply in_writes_inst in Hx as [w [Hw ->]]. apply in_reads_inst in Hi as [r [Hr E]].
      apply (Hno o' o w r Ho' Ho (fun e => Hc (eq_sym e)) Hw); [unfold accessed; apply in_or_app; left; exact Hr | exact E].
  Qed.
End SafeHyps.

(* ---- renaming: the loop run with the parity-selected copies vs the original loop ------------------- *)
Lemma index_of_map_iff {A} (f g : A -> Z) x y : forall l,
  (forall w, In w l -> (f w = x <-> g w = y)) -> index_of x (map f l) = index_of y (map g l).
Proof.
  induction l as [|w r IH]; intros H; simpl; [reflexivity|].
  assert (Hw : f w = x <-> g w = y) by (apply H; left; reflexivity).
  destruct (x =? f w) eqn:E1; destruct (y =? g w) eqn:E2.
  - reflexivity.
  - apply Z.eqb_eq in E1. apply Z.eqb_neq in E2. exfalso. apply E2. symmetry. apply Hw. symmetry. exact E1.
  - apply Z.eqb_eq in E2. apply Z.eqb_neq in E1. exfalso. apply E1. symmetry. apply Hw. symmetry. exact E2.
  - rewrite IH; [reflexivity|]. intros w' Hw'. apply H. right. exact Hw'.
Qed.

Lemma index_of_some_in' x l k : index_of x l = Some k -> In x l.
Proof. apply index_of_some_in. Qed.

Section Rename.
  Variables (p : pipe) (ds : list Z).
  Hypothesis Hsafe : safe_pipe p ds = true.
  Hypothesis Hds : forall b, In b ds -> In (Fixed b) (all_operands p).

  (* the two copies of the duplicated buffers *)
  Definition duprel (x : Z) : Prop := exists b, In b ds /\ (x = bid b 0 \/ x = bid (b + DUPOFF) 0).

  (* [W]: duplicated buffers produced in the current iteration t *)
  Definition Inv (t : Z) (W : Z -> Prop) (m1 m2 : mem) : Prop :=
    (forall x, ~ duprel x -> m1 x = m2 x) /\
    (forall b, W b -> In b ds -> m1 (bid b 0) = m2 (bid (sel ds t b) 0)).

  Lemma Inv_weaken t (W W' : Z -> Prop) m1 m2 : (forall b, W' b -> W b) -> Inv t W m1 m2 -> Inv t W' m1 m2.
  Proof. intros H [I1 I2]. split; [exact I1|]. intros b Hb. apply I2. apply H. exact Hb. Qed.

  Lemma sel_nil t b : sel [] t b = b.
  Proof. reflexivity. Qed.

  Lemma ev_nondup t w : In w (all_operands p) ->
    (forall c, w = Fixed c -> memb c ds = false) ->
    ev_operand ds t w = ev_operand [] t w /\ ~ duprel (ev_operand [] t w).
  Proof.
    intros Aw Hn. split.
    - destruct w as [c|c s]; simpl; [|reflexivity]. unfold sel. rewrite (Hn c eq_refl). reflexivity.
    - intros [b [Hb Hx]]. pose proof (Hds b Hb) as Ab.
      destruct (fixed_range p ds Hsafe b Ab) as [R1 R2].
      destruct w as [c|c s]; simpl in Hx; try rewrite sel_nil in Hx.
      + destruct (fixed_range p ds Hsafe c Aw) as [Q1 Q2]. destruct Hx as [Hx|Hx];
          apply bid_inj in Hx as [Hx _]; try (unfold DUPOFF in *; lia).
        * subst c. specialize (Hn b eq_refl). apply memb_false in Hn. contradiction.
        * destruct (dup_facts p ds Hsafe b Hb) as [Hf _]. apply Hf. rewrite <- Hx. apply fixed_in_buffers. exact Aw.
      + destruct (tile_range p ds Hsafe c s Aw) as [Q1 Q2]. destruct (tile_facts p ds Hsafe c s Aw) as [_ [Hnf _]].
        destruct Hx as [Hx|Hx]; apply bid_inj in Hx as [Hx _]; try (unfold DUPOFF in *; lia).
        * apply Hnf. rewrite Hx. apply fixed_in_buffers. exact Ab.
        * destruct (dup_facts p ds Hsafe b Hb) as [_ Hf]. apply (Hf s). rewrite <- Hx. exact Aw.
  Qed.

  Lemma ev_dup_rel t b : In b ds -> duprel (bid b 0) /\ duprel (bid (sel ds t b) 0).
  Proof.
    intros Hb. split; [exists b; split; [exact Hb | left; reflexivity]|].
    exists b. split; [exact Hb|]. unfold sel. rewrite (proj2 (memb_true b ds) Hb).
    destruct (t mod 2 =? 0); [left | right]; reflexivity.
  Qed.

  (* which operand evaluates to the original / the selected copy of the duplicated buffer b *)
  Lemma ev_is_dup t b w : In b ds -> In w (all_operands p) ->
    (ev_operand [] t w = bid b 0 <-> w = Fixed b) /\ (ev_operand ds t w = bid (sel ds t b) 0 <-> w = Fixed b).
  Proof.
    intros Hb Aw. pose proof (Hds b Hb) as Ab.
    assert (E0 : bid b 0 = ev_operand [] t (Fixed b)) by reflexivity.
    assert (E1 : bid (sel ds t b) 0 = ev_operand ds t (Fixed b)) by reflexivity.
    split; split; intros H; try (subst w; reflexivity).
    - destruct (fixed_range p ds Hsafe b Ab) as [R1 R2]. destruct w as [c|c s]; simpl in H; try rewrite sel_nil in H.
      + destruct (fixed_range p ds Hsafe c Aw). apply bid_inj in H as [H _]; try (unfold DUPOFF in *; lia). congruence.
      + exfalso. destruct (tile_range p ds Hsafe c s Aw). destruct (tile_facts p ds Hsafe c s Aw) as [_ [Hnf _]].
        apply bid_inj in H as [H _]; try (unfold DUPOFF in *; lia). apply Hnf. rewrite H. apply fixed_in_buffers. exact Ab.
    - rewrite E1 in H. destruct (ev_eq_cases p ds Hsafe t t w (Fixed b) Aw Ab H) as [[c [-> [E _]]]|[c [s [_ [E _]]]]];
        [symmetry; exact E | discriminate].
  Qed.

  (* one op *)
  Lemma inv_step_op t k o (W : Z -> Prop) m1 m2 : In o (stg p k) ->
    (forall c, In (Fixed c) (s_reads o) -> In c ds -> W c) ->
    Inv t W m1 m2 ->
    Inv t (fun b => W b \/ In (Fixed b) (s_outs o)) (exec_op (inst [] t o) m1) (exec_op (inst ds t o) m2).
  Proof.
    intros Ho Hrd [I1 I2].
    assert (Aop : forall w, In w (s_reads o) \/ In w (s_outs o) -> In w (all_operands p)).
    { intros w [H|H]; eapply in_all_operands; try exact Ho; [apply reads_sub; exact H | right; exact H]. }
    (* the values read agree *)
    assert (Hargs : map m1 (o_reads (inst [] t o)) = map m2 (o_reads (inst ds t o))).
    { simpl. rewrite !map_map. apply map_ext_in. intros r Hr.
      destruct r as [c|c s].
      - destruct (memb c ds) eqn:Ec.
        + apply memb_true in Ec. simpl. rewrite sel_nil. apply I2; [apply Hrd; assumption | exact Ec].
        + destruct (ev_nondup t (Fixed c) (Aop _ (or_introl Hr))) as [E Hn]; [intros c' Hc'; inversion Hc'; subst; exact Ec|].
          rewrite E. apply I1. exact Hn.
      - destruct (ev_nondup t (Tile c s) (Aop _ (or_introl Hr))) as [E Hn]; [intros c' Hc'; discriminate|].
        rewrite E. apply I1. exact Hn. }
    split.
    - intros x Hx. unfold exec_op. rewrite Hargs.
      assert (Hidx : index_of x (o_writes (inst [] t o)) = index_of x (o_writes (inst ds t o))).
      { simpl. apply index_of_map_iff. intros w Hw. pose proof (Aop w (or_intror Hw)) as Aw.
        destruct w as [c|c s].
        - destruct (memb c ds) eqn:Ec.
          + apply memb_true in Ec. destruct (ev_dup_rel t c Ec) as [D1 D2]. simpl.
            split; intros E; exfalso; apply Hx; rewrite <- E; [exact D1 | exact D2].
          + destruct (ev_nondup t (Fixed c) Aw) as [E _]; [intros c' Hc'; inversion Hc'; subst; exact Ec|]. rewrite E. tauto.
        - destruct (ev_nondup t (Tile c s) Aw) as [E _]; [intros c' Hc'; discriminate|]. rewrite E. tauto. }
      rewrite Hidx. destruct (index_of x (o_writes (inst ds t o))); [reflexivity | apply I1; exact Hx].
    - intros b Hb Hbd. unfold exec_op. rewrite Hargs.
      assert (Hidx : index_of (bid b 0) (o_writes (inst [] t o)) = index_of (bid (sel ds t b) 0) (o_writes (inst ds t o))).
      { simpl. apply index_of_map_iff. intros w Hw. pose proof (Aop w (or_intror Hw)) as Aw.
        destruct (ev_is_dup t b w Hbd Aw) as [E1 E2]. rewrite E1, E2. tauto. }
      rewrite Hidx. destruct (index_of (bid (sel ds t b) 0) (o_writes (inst ds t o))) eqn:Ei; [reflexivity|].
      destruct Hb as [Hb|Hb]; [apply I2; assumption|]. exfalso.
      (* b is written by o: the index cannot be None *)
      assert (Hin : In (bid (sel ds t b) 0) (o_writes (inst ds t o))).
      { simpl. apply in_map_iff. exists (Fixed b). split; [reflexivity | exact Hb]. }
      apply index_of_none in Ei. contradiction.
  Qed.

  (* a run of ops of one stage *)
  Lemma inv_ops t k : forall l (W : Z -> Prop) m1 m2, (forall o, In o l -> In o (stg p k)) ->
    (forall o c, In o l -> In (Fixed c) (s_reads o) -> In c ds -> W c) ->
    Inv t W m1 m2 ->
    Inv t (fun b => W b \/ exists o, In o l /\ In (Fixed b) (s_outs o))
        (exec (map (inst [] t) l) m1) (exec (map (inst ds t) l) m2).
  Proof.
    induction l as [|o r IH]; intros W m1 m2 Hl Hrd HI.
    - simpl. eapply Inv_weaken; [|exact HI]. intros b [H|[o [[] _]]]. exact H.
    - simpl. eapply Inv_weaken; [|apply (IH (fun b => W b \/ In (Fixed b) (s_outs o)))].
      + intros b [H|[o' [[<-|Ho'] Hw]]]; [left; left; exact H | left; right; exact Hw | right; exists o'; split; assumption].
      + intros o' Ho'. apply Hl. right. exact Ho'.
      + intros o' c Ho' Hc Hd. left. apply (Hrd o' c); [right; exact Ho' | exact Hc | exact Hd].
      + apply (inv_step_op t k o W m1 m2); [apply Hl; left; reflexivity | | exact HI].
        intros c Hc Hd. apply (Hrd o c); [left; reflexivity | exact Hc | exact Hd].
  Qed.

  Definition produced (k : nat) (b : Z) : Prop := exists j, (j < k)%nat /\ writesF p j b.

  (* a duplicated buffer read in stage k was produced by stage k-1 *)
  Lemma read_dup_produced k o c : In o (stg p k) -> In (Fixed c) (s_reads o) -> In c ds -> produced k c.
  Proof.
    intros Ho Hr Hd.
    assert (R : readsF p k c) by (exists o; split; assumption).
    pose proof (class_of p ds Hsafe c (readsF_buffers p k c R)) as Hcl.
    rewrite (proj2 (memb_true c ds) Hd) in Hcl. unfold dup_ok in Hcl. rewrite forallb_forall in Hcl.
    assert (Lk : (k < length (p_stages p))%nat) by apply (stg_lt p k o Ho).
    pose proof (Hcl _ (in_indexed [] (p_stages p) k Lk)) as Hk. cbv beta iota zeta in Hk.
    change (nth k (p_stages p) []) with (stg p k) in Hk. apply andb_true_iff in Hk as [_ Hk2].
    rewrite (proj2 (reads_fixed_iff c (stg p k)) R) in Hk2.
    destruct (k =? out_stage p (Fixed c) + 1)%nat eqn:E; [|discriminate]. apply Nat.eqb_eq in E.
    exists (out_stage p (Fixed c)). split; [lia|].
    unfold out_stage in *. set (f := fun st => (0 <? occ (Fixed c) (stage_outs st))%nat) in *.
    assert (Hlt : (first_stage f (p_stages p) 0 < 0 + length (p_stages p))%nat) by lia.
    pose proof (first_stage_spec f (p_stages p) 0 Hlt) as Hs. rewrite Nat.sub_0_r in Hs.
    apply (proj1 (writes_fixed_iff c _)). exact Hs.
  Qed.

  (* the stages k0 .. k0+m-1 of one iteration *)
  Lemma inv_stages t : forall m k0 m1 m2, Inv t (produced k0) m1 m2 ->
    Inv t (produced (k0 + m))
        (exec (flat_map (fun k => pair_ops p [] (k, t)) (seq k0 m)) m1)
        (exec (flat_map (fun k => pair_ops p ds (k, t)) (seq k0 m)) m2).
  Proof.
    induction m as [|m IH]; intros k0 m1 m2 HI.
    - simpl. rewrite Nat.add_0_r. exact HI.
    - simpl. rewrite !exec_app. replace (k0 + S m)%nat with (S k0 + m)%nat by lia. apply IH.
      unfold pair_ops. simpl. change (nth k0 (p_stages p) []) with (stg p k0).
      eapply Inv_weaken; [|apply (inv_ops t k0 (stg p k0) (produced k0) m1 m2)].
      + intros b [j [Hj Hw]]. destruct (Nat.eq_dec j k0) as [->|Hne].
        * right. destruct Hw as [o [Ho Hw]]. exists o. split; assumption.
        * left. exists j. split; [lia | exact Hw].
      + intros o Ho. exact Ho.
      + intros o c Ho Hc Hd. apply (read_dup_produced k0 o c Ho Hc Hd).
      + exact HI.
  Qed.

  Lemma inv_iterations S : forall m t0 m1 m2, (forall x, ~ duprel x -> m1 x = m2 x) ->
    forall x, ~ duprel x ->
    exec (flat_map (fun t => flat_map (fun k => pair_ops p [] (k, Z.of_nat t)) (seq 0 S)) (seq t0 m)) m1 x =
    exec (flat_map (fun t => flat_map (fun k => pair_ops p ds (k, Z.of_nat t)) (seq 0 S)) (seq t0 m)) m2 x.
  Proof.
    induction m as [|m IH]; intros t0 m1 m2 H x Hx; simpl; [apply H; exact Hx|].
    rewrite !exec_app. apply IH; [|exact Hx].
    assert (HI : Inv (Z.of_nat t0) (produced 0) m1 m2).
    { split; [exact H|]. intros b [j [Hj _]]. lia. }
    pose proof (inv_stages (Z.of_nat t0) S 0 m1 m2 HI) as [I1 _]. exact I1.
  Qed.

  (* the original loop and the loop on the selected copies agree outside the duplicated pairs *)
  Theorem rename_equiv : forall n m x, ~ duprel x ->
    exec (concat (seq_events p 0 (Z.of_nat n) 1)) m x = exec (concat (seq_events_sel p ds 0 (Z.of_nat n) 1)) m x.
  Proof.
    intros n m x Hx. change (seq_events p 0 (Z.of_nat n) 1) with (seq_events_sel p [] 0 (Z.of_nat n) 1).
    rewrite !seq_sel_Pl. unfold Pl. apply inv_iterations; [reflexivity | exact Hx].
  Qed.
End Rename.

(* ---- C15 main theorem ---------------------------------------------------------------------------------- *)
Theorem pipeline_equiv : forall p ds n m ss x,
  safe_pipe p ds = true ->
  (forall b, In b ds -> In (Fixed b) (all_operands p)) ->
  (1 <= nstages p)%nat -> (nstages p - 1 <= n)%nat ->
  Forall2 schedule_of (pipe_events p ds (Z.of_nat n) 1) ss ->
  ~ duprel ds x ->
  exec (concat ss) m x = exec (concat (seq_events p 0 (Z.of_nat n) 1)) m x.
Proof.
  intros p ds n m ss x Hsafe Hds HS Hn Hsched Hx.
  rewrite (rename_equiv p ds Hsafe Hds n m x Hx).
  apply (pipeline_equiv_partial p ds n m ss); try assumption.
  - apply vids_unique_safe with (ds := ds). exact Hsafe.
  - apply safe_overtake. exact Hsafe.
  - apply safe_stage. exact Hsafe.
Qed.

(* ---- on the barrier machine itself --------------------------------------------------------------------- *)
From Snax Require Import Model.MultiCoreStreams Proofs.MultiCoreMachine Proofs.MultiCoreStreamsProofs.

Lemma Forall2_schedule_refl : forall phs : list (list mop), Forall2 schedule_of phs phs.
Proof. induction phs as [|ph r IH]; constructor; [apply schedule_of_refl | exact IH]. Qed.

(* C15 on the machine: the DM core (1) and the compute core (0) run their streams of the unrolled
   code, synchronised only by the cluster barriers; every maximal execution terminates (no deadlock)
   and leaves, outside the duplicated pairs, the buffers of the original sequential loop *)
Theorem pipeline_machine : forall p ds n m,
  safe_pipe p ds = true ->
  (forall b, In b ds -> In (Fixed b) (all_operands p)) ->
  (forall k o, In o (nth k (p_stages p) []) -> s_core o = 0 \/ s_core o = 1) ->
  (1 <= nstages p)%nat -> (nstages p - 1 <= n)%nat ->
  forall cfg, steps (streams_of [0; 1] (pipe_events p ds (Z.of_nat n) 1), m) cfg ->
    (all_finished (fst cfg) = true /\
     forall x, ~ duprel ds x -> snd cfg x = exec (concat (seq_events p 0 (Z.of_nat n) 1)) m x) \/
    (exists cfg', step cfg cfg').
Proof.
  intros p ds n m Hsafe Hds Hcores HS Hn cfg Hsteps.
  destruct (machine_phases [0; 1] (pipe_events p ds (Z.of_nat n) 1) m) with (cfg := cfg) as [[Hfin Hm]|Hstep].
  - discriminate.
  - repeat constructor; simpl; intuition discriminate.
  - intros ph o Hph Ho. unfold pipe_events in Hph. apply in_map_iff in Hph as [ph0 [<- _]].
    unfold phase_ops in Ho. apply in_flat_map in Ho as [[k t] [_ Ho]]. apply in_pair_ops in Ho as [o' [Ho' ->]].
    simpl. destruct (Hcores k o' Ho') as [E|E]; rewrite E; [left | right; left]; reflexivity.
  - apply phases_drf; try assumption.
    + apply safe_overtake. exact Hsafe.
    + apply safe_stage. exact Hsafe.
    + apply vids_unique_safe with (ds := ds). exact Hsafe.
  - exact Hsteps.
  - left. split; [exact Hfin|]. intros x Hx. rewrite (Hm x).
    apply (pipeline_equiv p ds n m (pipe_events p ds (Z.of_nat n) 1) x Hsafe Hds HS Hn (Forall2_schedule_refl _) Hx).
  - right. exact Hstep.
Qed.

(* ---- with the duplication rule of the pass --------------------------------------------------------------- *)
Lemma in_dedup_op o l : In o (dedup_op l) -> In o l.
Proof.
  induction l as [|x r IH]; simpl; [tauto|]. destruct (existsb (operand_eqb x) r); [intros H; right; apply IH; exact H|].
  intros [->|H]; [left; reflexivity | right; apply IH; exact H].
Qed.

Lemma dups_are_operands p ds : dups p = Some ds -> forall b, In b ds -> In (Fixed b) (all_operands p).
Proof.
  unfold dups. destruct (existsb _ (operands_of p)); [discriminate|]. intros E b Hb. inversion E; subst.
  apply in_fixed_of in Hb. apply filter_In in Hb as [Hb _]. unfold operands_of in Hb. apply in_dedup_op in Hb. exact Hb.
Qed.

(* the statement for the buffers the pass itself decides to duplicate *)
Theorem pipeline_equiv_dups : forall p ds n m ss x,
  dups p = Some ds -> safe_pipe p ds = true ->
  (1 <= nstages p)%nat -> (nstages p - 1 <= n)%nat ->
  Forall2 schedule_of (pipe_events p ds (Z.of_nat n) 1) ss ->
  ~ duprel ds x ->
  exec (concat ss) m x = exec (concat (seq_events p 0 (Z.of_nat n) 1)) m x.
Proof.
  intros p ds n m ss x Hd Hsafe. apply pipeline_equiv; [exact Hsafe | apply dups_are_operands; exact Hd].
Qed.
