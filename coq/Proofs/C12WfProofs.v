(* C12 (ii) — the hypotheses of the program-level lift and of the whole-pass composition derived from the
   decidable well-formedness checks of Model/C12Casts.v (iwf, lokb, step_okb, steps_okb), which the
   correspondence run evaluates on every generated program:
   state invariant J q : every value aliases itself or the source q records for it. *)
From Snax Require Import Base.Prelude Model.C12Casts Proofs.C12CoherenceProofs Proofs.C12NestedProofs
  Proofs.C12ComposeProofs Proofs.C12LiftProofs.

Definition J (q : list item) (s : state) : Prop :=
  forall v, alias s v = v \/ src_is q v (alias s v) = true.

Lemma J_init q : J q init_state.
Proof. intros v. left. reflexivity. Qed.

Lemma root_alias q s b : J q s -> is_root q b = true -> alias s b = b.
Proof.
  intros HJ Hr. destruct (HJ b) as [H|H]; [exact H|]. unfold src_is in H. unfold is_root in Hr.
  destruct (find_cast b q); discriminate.
Qed.

(* ---- nested boolean functions as list functions ---------------------------------------------------- *)
Lemma iwf_loop q lid body : iwf q (ILoop lid body) = forallb (iwf q) body.
Proof. cbn [iwf]. induction body as [|x r IH]; [reflexivity|]. cbn [forallb]. rewrite <- IH. reflexivity. Qed.

(* ---- well-formed items preserve J ---------------------------------------------------------------------- *)
Lemma pres_iwf trips q : forall it, iwf q it = true -> pres trips (J q) it.
Proof.
  apply (item_ind2 (fun it => iwf q it = true -> pres trips (J q) it)).
  - intros id uses _ s HJ. exact HJ.
  - intros a b c e Hw s HJ. cbn [iwf] in Hw. apply andb_true_iff in Hw as [Hr Hs].
    cbn [exec_item]. intros v. cbn [alias]. unfold upd. destruct (v =? a)%nat eqn:E.
    + apply Nat.eqb_eq in E. subst v. right. rewrite (root_alias q s b HJ Hr). exact Hs.
    + apply HJ.
  - intros v _ s HJ. cbn [exec_item]. intros x. cbn [alias]. unfold upd. destruct (x =? v)%nat eqn:E.
    + apply Nat.eqb_eq in E. left. symmetry. exact E.
    + apply HJ.
  - intros a b _ s HJ. exact HJ.
  - intros lid body IHb Hw s HJ. rewrite iwf_loop in Hw. unfold pres in *. rewrite exec_loop.
    assert (Hbody : forall l, Forall (fun it => iwf q it = true -> forall s, J q s -> J q (exec_item trips it s)) l ->
              forallb (iwf q) l = true -> forall t, J q t -> J q (exec_list trips l t)).
    { induction l as [|x r IHr]; intros HF Hl t Ht; [exact Ht|].
      inversion HF as [|? ? Hx Hr]; subst. cbn [forallb] in Hl. apply andb_true_iff in Hl as [H1 H2].
      change (exec_list trips (x :: r) t) with (exec_list trips r (exec_item trips x t)).
      apply IHr; [exact Hr|exact H2|apply Hx; assumption]. }
    generalize (trips lid) as n. intros n. revert s HJ. induction n as [|n IHn]; intros s HJ; [exact HJ|].
    cbn [iter]. apply IHn. apply (Hbody body IHb Hw s HJ).
Qed.

Lemma pres_list trips q l : forallb (iwf q) l = true -> forall s, J q s -> J q (exec_list trips l s).
Proof.
  induction l as [|x r IH]; intros H s HJ; [exact HJ|]. cbn [forallb] in H. apply andb_true_iff in H as [H1 H2].
  change (exec_list trips (x :: r) s) with (exec_list trips r (exec_item trips x s)).
  apply IH; [exact H2|apply (pres_iwf trips q x H1); exact HJ].
Qed.

(* ---- a value defined by a cast is among the casts ------------------------------------------------------- *)
Lemma find_cast_item_in v : forall it p, find_cast_item v it = Some p -> In v (casts_item it).
Proof.
  apply (item_ind2 (fun it => forall p, find_cast_item v it = Some p -> In v (casts_item it))); try discriminate.
  - intros a b c e p H. cbn [find_cast_item] in H. destruct (a =? v)%nat eqn:E; [|discriminate].
    apply Nat.eqb_eq in E. left. exact E.
  - intros lid body IHb p H. rewrite casts_loop. cbn [find_cast_item] in H.
    induction IHb as [|x r Hx Hr IHr]; [discriminate|]. cbn [flat_map]. apply in_app_iff.
    destruct (find_cast_item v x) as [p'|] eqn:E; [left; apply (Hx p' eq_refl)|right; apply IHr; exact H].
Qed.

Lemma find_cast_in v q : forall p, find_cast v q = Some p -> In v (casts q).
Proof.
  induction q as [|x r IH]; intros p H; [discriminate|]. cbn [find_cast] in H. unfold casts. cbn [flat_map].
  apply in_app_iff. destruct (find_cast_item v x) as [p'|] eqn:E; [left; apply (find_cast_item_in v x p' E)|right; apply (IH p H)].
Qed.

(* ---- lokb is sound for lift_ok ----------------------------------------------------------------------------- *)
Fixpoint lokb_list (q : list item) (d src : nat) (others : list nat) (l : list item) : bool :=
  match l with
  | [] => true
  | x :: r =>
      match x with
      | ICast d' s td ts =>
          if (d' =? d)%nat
          then (s =? src)%nat && is_root q src && src_is q d src && used d r && negb (ts =? td)%nat
               && safe_nested d others r && forallb (iwf q) r
          else nm d x && iwf q x && lokb_list q d src others r
      | ILoop _ _ =>
          if nm d x then iwf q x && lokb_list q d src others r
          else lokb q d src others x && forallb (fun y => nm d y && iwf q y) r
      | _ => nm d x && iwf q x && lokb_list q d src others r
      end
  end.

Lemma lokb_loop q d src others lid body : lokb q d src others (ILoop lid body) = lokb_list q d src others body.
Proof.
  cbn [lokb]. induction body as [|x r IH]; [reflexivity|].
  destruct x; cbn [lokb_list]; rewrite <- IH; reflexivity.
Qed.

Section Sound.
  Variables (trips : nat -> nat) (q : list item) (d src : nat).
  Let others := others_of q d src.
  Hypothesis Hroot : is_root q src = true.
  Hypothesis Hsrc : src_is q d src = true.

  Lemma src_in_others : In src others.
  Proof. left. reflexivity. Qed.

  Lemma d_not_in_others : ~ In d others.
  Proof.
    intros [E|H].
    - subst src. unfold is_root in Hroot. unfold src_is in Hsrc. destruct (find_cast d q); discriminate.
    - apply filter_In in H as [_ H]. rewrite Nat.eqb_refl in H. discriminate.
  Qed.

  Lemma J_others s : J q s ->
    In (alias s src) others /\ (forall v, v <> d -> alias s v = alias s src -> In v others).
  Proof.
    intros HJ. rewrite (root_alias q s src HJ Hroot). split; [left; reflexivity|].
    intros v Hv Hal. destruct (HJ v) as [H|H].
    - left. congruence.
    - right. apply filter_In. rewrite Hal in H. split.
      + unfold src_is in H. destruct (find_cast v q) as [p|] eqn:E; [|discriminate]. apply (find_cast_in v q p E).
      + rewrite H, andb_true_r. apply negb_true_iff, Nat.eqb_neq. exact Hv.
  Qed.

  Lemma frame_forall r : forallb (fun y => nm d y && iwf q y) r = true ->
    Forall (fun y => nm d y = true /\ pres trips (J q) y) r.
  Proof.
    intros H. apply Forall_forall. intros y Hy. rewrite forallb_forall in H. specialize (H y Hy).
    apply andb_true_iff in H as [H1 H2]. split; [exact H1|apply pres_iwf; exact H2].
  Qed.

  Theorem lokb_sound : forall it lid body, it = ILoop lid body -> lokb q d src others it = true ->
    lift_ok trips q d src others (J q) body.
  Proof.
    apply (item_ind2 (fun it => forall lid body, it = ILoop lid body -> lokb q d src others it = true ->
                                lift_ok trips q d src others (J q) body)); try discriminate.
    intros lid0 body0 IHb lid body E H. inversion E; subst lid0 body0. rewrite lokb_loop in H.
    clear E. revert H. induction IHb as [|x r Hx Hr IHr]; intros H; [constructor|].
    destruct x as [id uses|d' s td ts|v|a b|lid' body'].
    - cbn [lokb_list] in H. apply andb_true_iff in H as [H H3]. apply andb_true_iff in H as [H1 H2].
      apply lo_frame; [exact H1|apply pres_iwf; exact H2|apply IHr; exact H3].
    - cbn [lokb_list] in H. destruct (d' =? d)%nat eqn:Ed.
      + apply Nat.eqb_eq in Ed. subst d'.
        repeat (apply andb_true_iff in H as [H ?]). apply Nat.eqb_eq in H. subst s.
        apply lo_cast. unfold cast_ok.
        assert (Hch : chain_source 64 q src ts = (src, ts)).
        { cbn [chain_source]. unfold is_root in Hroot. destruct (find_cast src q); [discriminate|reflexivity]. }
        rewrite Hch. cbn [snd]. repeat split; try assumption.
        * apply Nat.eqb_neq. apply negb_true_iff. assumption.
        * intros s0 HJ. change (exec_list trips (ICast d src td ts :: r) s0)
            with (exec_list trips r (exec_item trips (ICast d src td ts) s0)).
          apply pres_list; [assumption|]. apply (pres_iwf trips q (ICast d src td ts)); [|exact HJ].
          cbn [iwf]. rewrite Hroot, Hsrc. reflexivity.
      + apply andb_true_iff in H as [H H3]. apply andb_true_iff in H as [H1 H2].
        apply lo_frame; [exact H1|apply pres_iwf; exact H2|apply IHr; exact H3].
    - cbn [lokb_list] in H. apply andb_true_iff in H as [H H3]. apply andb_true_iff in H as [H1 H2].
      apply lo_frame; [exact H1|apply pres_iwf; exact H2|apply IHr; exact H3].
    - cbn [lokb_list] in H. apply andb_true_iff in H as [H H3]. apply andb_true_iff in H as [H1 H2].
      apply lo_frame; [exact H1|apply pres_iwf; exact H2|apply IHr; exact H3].
    - cbn [lokb_list] in H. destruct (nm d (ILoop lid' body')) eqn:En.
      + apply andb_true_iff in H as [H2 H3].
        apply lo_frame; [exact En|apply pres_iwf; exact H2|apply IHr; exact H3].
      + apply andb_true_iff in H as [H1 H2].
        apply lo_loop; [apply (Hx lid' body' eq_refl H1)|apply frame_forall; exact H2].
  Qed.
End Sound.

(* one step of the walker, from the decidable check *)
Theorem step_ok_equiv q c : step_okb q c = true -> prog_equiv [c] q (rz_list q c q).
Proof.
  unfold step_okb. destruct (find_cast c q) as [[src ts]|] eqn:Ef; [|discriminate]. intros H.
  assert (Hsrc : src_is q c src = true) by (unfold src_is; rewrite Ef; apply Nat.eqb_refl).
  apply andb_true_iff in H as [Hroot H].
  apply (realize_anywhere_equiv q c src (others_of q c src) (J q)).
  - apply src_in_others.
  - apply (d_not_in_others q c src Hroot Hsrc).
  - intros s HJ. apply (J_others q c src Hroot s HJ).
  - apply J_init.
  - intros trips. apply (lokb_sound trips q c src Hroot Hsrc (ILoop 0 q) 0%nat q eq_refl H).
Qed.

(* the whole pass, from the decidable check evaluated on every generated program by the correspondence run *)
Lemma steps_ok_equiv : forall cs q, steps_okb cs q = true ->
  prog_equiv cs q (fold_left (fun p c => rz_list p c p) cs q).
Proof.
  induction cs as [|c cs IH]; intros q H; [apply prog_equiv_refl|].
  cbn [steps_okb] in H. apply andb_true_iff in H as [H1 H2]. cbn [fold_left].
  change (c :: cs) with ([c] ++ cs). apply prog_equiv_trans with (rz_list q c q).
  - apply step_ok_equiv. exact H1.
  - apply IH. exact H2.
Qed.

Theorem all_steps_equiv p : all_steps_okb p = true -> prog_equiv (rev (casts p)) p (realize_all p).
Proof. intros H. unfold realize_all. apply steps_ok_equiv. exact H. Qed.

(* non-vacuity: three casts of three different arguments, one of them inside a loop with its user *)
Example all_steps_applies :
  let p := [ICast 2 0 1 0; ICast 3 1 1 0; IOp 0 [(2, KIn); (3, KOut)];
            ILoop 7 [ICast 4 5 1 0; IOp 1 [(4, KInOut)]]; IOp 9 []]%nat in
  all_steps_okb p = true /\
  realize_all p = [IAlloc 2; IAlloc 3; ICopy 0 2; IOp 0 [(2, KIn); (3, KOut)]; ICopy 3 1;
                   ILoop 7 [IAlloc 4; ICopy 5 4; IOp 1 [(4, KInOut)]; ICopy 4 5]; IOp 9 []]%nat.
Proof. split; reflexivity. Qed.
