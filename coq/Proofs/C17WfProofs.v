(* C17 — the rewrites preserve well-formedness (SSA scoping + unique names), so that the trace theorem
   applies to every program reachable by any finite sequence of rule applications. *)
From Coq Require Import Permutation.
From Snax Require Import Base.Prelude Base.ListAux Model.C17Loop Proofs.C17LoopProofs Proofs.C17ContextProofs.

Definition disj (D l : list var) : Prop := forall v, In v D -> ~ In v l.

(* ------------------------------------------------------------------ weakening of the scope *)
Definition op_weaken (o : op) := forall D1 D2,
  wf_op D1 o = true -> (forall v, In v D1 -> In v D2) ->
  (forall v, In v D2 -> ~ In v D1 -> ~ In v (alldefs_op o)) -> wf_op D2 o = true.

Lemma forallb_memb_weaken D1 D2 l :
  forallb (fun v => memb v D1) l = true -> (forall v, In v D1 -> In v D2) ->
  forallb (fun v => memb v D2) l = true.
Proof.
  intros H Hi. apply forallb_forall. intros v Hv. rewrite forallb_forall in H.
  apply memb_In. apply Hi. apply memb_In. apply H. exact Hv.
Qed.

Lemma block_weaken_of_ops b : Forall op_weaken b -> forall D1 D2,
  wf_block D1 b = true -> (forall v, In v D1 -> In v D2) ->
  (forall v, In v D2 -> ~ In v D1 -> ~ In v (alldefs b)) -> wf_block D2 b = true.
Proof.
  induction 1 as [|o b Ho _ IH]; intros D1 D2 Hwf Hi Hx; [reflexivity|].
  rewrite wf_block_cons in *. apply andb_true_iff in Hwf as [H1 H2]. rewrite alldefs_cons in Hx.
  apply andb_true_iff. split.
  - apply (Ho D1 D2 H1 Hi). intros v Hv Hn Hin. apply (Hx v Hv Hn). apply in_or_app. left; exact Hin.
  - apply (IH (push D1 o) (push D2 o) H2).
    + intros v Hv. destruct o; cbn [push] in *; try (apply Hi; exact Hv).
      destruct Hv as [<-|Hv]; [left; reflexivity|right; apply Hi; exact Hv].
    + intros v Hv Hn Hin. destruct o as [d p| |]; cbn [push] in *.
      * destruct Hv as [<-|Hv]; [apply Hn; left; reflexivity|].
        apply (Hx v Hv); [intros H3; apply Hn; right; exact H3|apply in_or_app; right; exact Hin].
      * apply (Hx v Hv Hn). apply in_or_app; right; exact Hin.
      * apply (Hx v Hv Hn). apply in_or_app; right; exact Hin.
Qed.

Lemma wf_weaken_op o : op_weaken o.
Proof.
  induction o as [d p|i a|iv lb ub st body IH] using op_ind'; intros D1 D2 Hwf Hi Hx.
  - cbn [wf_op] in *. apply andb_true_iff in Hwf as [H1 H2]. apply andb_true_iff. split.
    + eapply forallb_memb_weaken; eassumption.
    + apply negb_true_iff. apply memb_not_In. intros Hin.
      apply negb_true_iff in H2. apply memb_not_In in H2.
      apply (Hx d Hin H2). left. reflexivity.
  - cbn [wf_op] in *. eapply forallb_memb_weaken; eassumption.
  - rewrite wf_op_For in *. repeat (apply andb_true_iff in Hwf as [Hwf ?]).
    cbn [alldefs_op] in Hx. fold (alldefs body) in Hx.
    repeat (apply andb_true_iff; split).
    + apply memb_In, Hi, memb_In. assumption.
    + apply memb_In, Hi, memb_In. assumption.
    + apply memb_In, Hi, memb_In. assumption.
    + apply negb_true_iff. apply memb_not_In. intros Hin.
      match goal with Hn : negb (memb iv D1) = true |- _ => apply negb_true_iff in Hn; apply memb_not_In in Hn;
        apply (Hx iv Hin Hn) end. left. reflexivity.
    + apply (block_weaken_of_ops body IH (iv :: D1) (iv :: D2)); [assumption| |].
      * intros v [<-|Hv]; [left; reflexivity|right; apply Hi; exact Hv].
      * intros v [<-|Hv] Hn Hin; [apply Hn; left; reflexivity|].
        apply (Hx v Hv); [intros H3; apply Hn; right; exact H3|right; exact Hin].
Qed.

Lemma wf_weaken b D1 D2 :
  wf_block D1 b = true -> (forall v, In v D1 -> In v D2) ->
  (forall v, In v D2 -> ~ In v D1 -> ~ In v (alldefs b)) -> wf_block D2 b = true.
Proof. apply block_weaken_of_ops. apply Forall_forall. intros o _. apply wf_weaken_op. Qed.

(* ------------------------------------------------------------------ what a rule must guarantee *)
Definition below (fresh : var) (l : list var) : Prop := forall v, In v l -> (v < fresh)%nat.

Definition rule_wf (f : scope -> op -> option (list op)) (fresh : var) : Prop :=
  forall Sc D o ops,
    f Sc o = Some ops ->
    wf_op D o = true -> NoDup (alldefs_op o) -> disj D (alldefs_op o) -> closedI D Sc ->
    below fresh D -> below fresh (vars_op o) ->
    push D o = D /\
    wf_block D ops = true /\ NoDup (alldefs ops) /\
    (forall v, In v (alldefs ops) -> In v (alldefs_op o) \/ (fresh <= v)%nat) /\
    (forall v, In v (scope_after D ops) -> In v D \/ In v (alldefs_op o) \/ (fresh <= v)%nat) /\
    below (S (S (S fresh))) (vars_of ops).

Lemma alldefs_vars_op o v : In v (alldefs_op o) -> In v (vars_op o).
Proof.
  induction o as [d p|i a|iv lb ub st body IH] using op_ind'; cbn; intros H.
  - destruct H as [<-|[]]. left; reflexivity.
  - contradiction.
  - destruct H as [<-|H]; [left; reflexivity|]. do 4 right.
    apply in_flat_map in H as [o [Ho Hv]]. apply in_flat_map. exists o. split; [exact Ho|].
    rewrite Forall_forall in IH. apply IH; assumption.
Qed.
Lemma alldefs_vars b v : In v (alldefs b) -> In v (vars_of b).
Proof.
  unfold alldefs, vars_of. intros H. apply in_flat_map in H as [o [Ho Hv]]. apply in_flat_map.
  exists o. split; [exact Ho|apply alldefs_vars_op; exact Hv].
Qed.

(* ---- ChangeForStep *)
Lemma change_step_wf fresh : rule_wf (fun Sc o => change_step Sc fresh o) fresh.
Proof.
  intros Sc D o ops Hr Hwf Hnd Hdj Hincl HbD Hbo.
  unfold change_step, change_step_with in Hr.
  destruct o as [| |iv lb ub st body]; try discriminate.
  destruct (cst_of Sc lb); [|discriminate]. destruct (cst_of Sc ub) as [u|]; [|discriminate].
  destruct (cst_of Sc st) as [s|]; [|discriminate].
  destruct (negb (z =? 0)); [discriminate|]. destruct (s =? 1); [discriminate|]. destruct (s <=? 0); [discriminate|].
  inversion Hr; subst ops; clear Hr.
  rewrite wf_op_For in Hwf. repeat (apply andb_true_iff in Hwf as [Hwf ?]).
  cbn [alldefs_op] in Hnd, Hdj. fold (alldefs body) in *.
  assert (Hiv : (iv < fresh)%nat) by (apply Hbo; cbn; auto).
  assert (Hbody : below fresh (vars_of body)) by (intros v Hv; apply Hbo; cbn; do 4 right; exact Hv).
  assert (Hlb : In lb D) by (apply memb_In; assumption).
  assert (Hub : In ub D) by (apply memb_In; assumption).
  assert (Hst : In st D) by (apply memb_In; assumption).
  assert (HivD : ~ In iv D) by (apply memb_not_In, negb_true_iff; assumption).
  set (f1 := S fresh). set (f2 := S (S fresh)).
  split; [reflexivity|]. split; [|split; [|split; [|split]]].
  - cbn [wf_block push]. rewrite wf_op_For. cbn [wf_op uses_p forallb].
    repeat (apply andb_true_iff; split); try reflexivity.
    + apply negb_true_iff, memb_not_In. intros Hin. specialize (HbD _ Hin). lia.
    + apply negb_true_iff, memb_not_In. intros [Hin|Hin]; [unfold f1 in *; lia|]. specialize (HbD _ Hin). unfold f1 in *. lia.
    + apply memb_In. right; right; exact Hlb.
    + apply memb_In. left; reflexivity.
    + apply memb_In. right; left; reflexivity.
    + apply negb_true_iff, memb_not_In. intros [Hin|[Hin|Hin]]; try (unfold f1, f2 in *; lia).
      specialize (HbD _ Hin). unfold f1 in *. lia.
    + apply memb_In. do 3 right. exact Hst.
    + apply memb_In. left; reflexivity.
    + apply negb_true_iff, memb_not_In. intros [Hin|[Hin|[Hin|Hin]]]; try (unfold f1, f2 in *; lia).
      contradiction.
    + change (wf_block (iv :: S f1 :: f1 :: fresh :: D) body = true).
      apply (wf_weaken body (iv :: D)); [assumption| |].
      * intros v [<-|Hv]; [left; reflexivity|do 4 right; exact Hv].
      * intros v Hv Hn Hin. apply alldefs_vars in Hin. specialize (Hbody _ Hin).
        destruct Hv as [<-|[<-|[<-|[<-|Hv]]]]; try (unfold f1, f2 in *; lia).
        -- apply Hn. left; reflexivity.
        -- apply Hn. right; exact Hv.
  - unfold alldefs. cbn [flat_map alldefs_op app]. fold (alldefs body).
    inversion Hnd as [|? ? Hn1 Hn2]; subst.
    assert (Hb2 : forall v, In v (alldefs body) -> (v < fresh)%nat) by (intros v Hv; apply Hbody, alldefs_vars; exact Hv).
    rewrite app_nil_r.
    constructor; [cbn; intros [Hq|[Hq|[Hq|Hq]]]; try lia; specialize (Hb2 _ Hq); lia|].
    constructor; [cbn; intros [Hq|[Hq|Hq]]; try lia; specialize (Hb2 _ Hq); lia|].
    constructor; [cbn; intros [Hq|Hq]; try lia; specialize (Hb2 _ Hq); lia|].
    constructor; assumption.
  - unfold alldefs. cbn [flat_map alldefs_op app]. fold (alldefs body). rewrite app_nil_r.
    intros v [<-|[<-|[<-|[<-|Hv]]]]; try (right; lia).
    + left. left. reflexivity.
    + left. right. exact Hv.
  - cbn [scope_after fold_left push]. intros v [<-|[<-|Hv]]; [right; right; lia|right; right; lia|left; exact Hv].
  - intros v Hv. unfold vars_of in Hv. cbn [flat_map vars_op uses_p app] in Hv. fold (vars_of body) in Hv.
    rewrite app_nil_r in Hv. cbn in Hv.
    assert (Hall : forall w, In w [lb; ub; st; iv] \/ In w (vars_of body) -> (w < fresh)%nat).
    { intros w [Hw|Hw]; [apply Hbo; cbn in *; tauto|apply Hbody; exact Hw]. }
    repeat (destruct Hv as [<-|Hv]); try lia;
      try (match goal with |- (?x < _)%nat => assert ((x < fresh)%nat) by (apply Hall; cbn; tauto); lia end).
Qed.

(* ---- list helpers *)
Lemma NoDup_app_iff {A} (l1 l2 : list A) :
  NoDup (l1 ++ l2) <-> NoDup l1 /\ NoDup l2 /\ (forall x, In x l1 -> ~ In x l2).
Proof.
  split.
  - intros H. split; [apply (NoDup_app_l _ _ H)|]. split; [apply (NoDup_app_r _ _ H)|].
    intros x Hx. apply (NoDup_app_disj _ _ _ H Hx).
  - intros (H1 & H2 & H3). induction l1 as [|x l1 IH]; [exact H2|].
    inversion H1 as [|? ? Hn Hd]; subst. cbn. constructor.
    + intros Hin. apply in_app_or in Hin as [Hin|Hin]; [contradiction|]. apply (H3 x); [left; reflexivity|exact Hin].
    + apply IH; [exact Hd|]. intros y Hy. apply H3. right; exact Hy.
Qed.

(* replacing the middle segment O of a duplicate-free list by X, whose elements are old (in O) or fresh *)
Lemma NoDup_replace_middle (A O X B : list var) fresh :
  NoDup (A ++ O ++ B) -> NoDup X ->
  (forall v, In v X -> In v O \/ (fresh <= v)%nat) ->
  below fresh A -> below fresh B ->
  NoDup (A ++ X ++ B).
Proof.
  intros H HX Hsub HA HB.
  apply NoDup_app_iff in H as (HnA & HOB & HdA). apply NoDup_app_iff in HOB as (HnO & HnB & HdO).
  apply NoDup_app_iff. split; [exact HnA|]. split.
  - apply NoDup_app_iff. split; [exact HX|]. split; [exact HnB|].
    intros x Hx HxB. destruct (Hsub x Hx) as [Ho|Hf]; [apply (HdO x Ho HxB)|specialize (HB x HxB); lia].
  - intros x HxA Hin. apply in_app_or in Hin as [Hin|Hin].
    + destruct (Hsub x Hin) as [Ho|Hf]; [apply (HdA x HxA); apply in_or_app; left; exact Ho|specialize (HA x HxA); lia].
    + apply (HdA x HxA). apply in_or_app. right; exact Hin.
Qed.

Lemma below_weaken n m l : (n <= m)%nat -> below n l -> below m l.
Proof. intros H Hb v Hv. specialize (Hb v Hv). lia. Qed.

(* ---- LoopHoistPureOperations *)
Lemma hoist_wf fresh j : rule_wf (fun Sc o => hoist Sc j o) fresh.
Proof.
  intros Sc D o ops Hr Hwf Hnd Hdj Hincl HbD Hbo.
  unfold hoist in Hr.
  destruct o as [| |iv lb ub st body]; try discriminate.
  destruct (split_at j body) as [[[pre x] post]|] eqn:Esp; [|discriminate].
  destruct x as [d p| |]; try discriminate.
  destruct (hoistable_p p && forallb (in_scope Sc) (uses_p p)) eqn:G; [|discriminate].
  inversion Hr; subst ops; clear Hr. apply andb_true_iff in G as [_ G].
  apply split_at_spec in Esp as [-> _].
  rewrite wf_op_For in Hwf. repeat (apply andb_true_iff in Hwf as [Hwf ?]).
  match goal with Hb : wf_block (iv :: D) _ = true |- _ =>
    rewrite wf_block_app, wf_block_cons in Hb; apply andb_true_iff in Hb as [Hwpre Hb];
    apply andb_true_iff in Hb as [Hwd Hwpost] end.
  cbn [push] in Hwpost.
  cbn [alldefs_op] in Hnd, Hdj. fold (alldefs (pre ++ Def d p :: post)) in *.
  rewrite alldefs_app, alldefs_cons in Hnd, Hdj. cbn [alldefs_op app] in Hnd, Hdj.
  assert (Hlb : In lb D) by (apply memb_In; assumption).
  assert (Hub : In ub D) by (apply memb_In; assumption).
  assert (Hst : In st D) by (apply memb_In; assumption).
  assert (HivD : ~ In iv D) by (apply memb_not_In, negb_true_iff; assumption).
  inversion Hnd as [|? ? Hniv Hnd']; subst.
  assert (HdD : ~ In d D).
  { intros Hin. apply (Hdj _ Hin). right. apply in_or_app. right. left. reflexivity. }
  assert (Hdiv : d <> iv).
  { intros ->. apply Hniv. apply in_or_app. right. left. reflexivity. }
  assert (Hdpre : ~ In d (alldefs pre)).
  { intros Hin. apply (NoDup_app_disj _ _ _ Hnd' Hin). left. reflexivity. }
  assert (Hperm : Permutation (iv :: alldefs pre ++ d :: alldefs post) (d :: iv :: alldefs pre ++ alldefs post)).
  { apply Permutation_sym. apply (Permutation_middle (iv :: alldefs pre) (alldefs post) d). }
  assert (Hall : alldefs [Def d p; For iv lb ub st (pre ++ post)] = d :: iv :: alldefs pre ++ alldefs post).
  { unfold alldefs. cbn [flat_map alldefs_op app]. rewrite app_nil_r, flat_map_app. reflexivity. }
  split; [reflexivity|]. split; [|split; [|split; [|split]]].
  - cbn [wf_block push]. rewrite wf_op_For. cbn [wf_op].
    rewrite andb_true_r.
    repeat (apply andb_true_iff; split).
    + apply forallb_forall. intros u Hu. rewrite forallb_forall in G. apply memb_In, (closedI_dom _ _ _ Hincl), in_scope_In, G. exact Hu.
    + apply negb_true_iff, memb_not_In. exact HdD.
    + apply memb_In. right; exact Hlb.
    + apply memb_In. right; exact Hub.
    + apply memb_In. right; exact Hst.
    + apply negb_true_iff, memb_not_In. intros [Hin|Hin]; [congruence|contradiction].
    + rewrite wf_block_app. apply andb_true_iff. split.
      * apply (wf_weaken pre (iv :: D)); [exact Hwpre| |].
        -- intros v [<-|Hv]; [left; reflexivity|right; right; exact Hv].
        -- intros v Hv Hn Hin. destruct Hv as [<-|[<-|Hv]].
           ++ apply Hn. left; reflexivity.
           ++ contradiction.
           ++ apply Hn. right; exact Hv.
      * apply (wf_weaken post (d :: scope_after (iv :: D) pre)); [exact Hwpost| |].
        -- intros v Hv. apply scope_after_In. destruct Hv as [<-|Hv]; [left; right; left; reflexivity|].
           apply scope_after_In in Hv as [[<-|Hv]|Hv]; [left; left; reflexivity|left; right; right; exact Hv|right; exact Hv].
        -- intros v Hv Hn. exfalso. apply Hn. apply scope_after_In in Hv as [[<-|[<-|Hv]]|Hv].
           ++ right. apply scope_after_In. left. left. reflexivity.
           ++ left. reflexivity.
           ++ right. apply scope_after_In. left. right. exact Hv.
           ++ right. apply scope_after_In. right. exact Hv.
  - rewrite Hall. apply (Permutation_NoDup Hperm). constructor; assumption.
  - rewrite Hall. intros v Hv. left. cbn [alldefs_op]. fold (alldefs (pre ++ Def d p :: post)).
    rewrite alldefs_app, alldefs_cons. cbn [alldefs_op app].
    apply (Permutation_in _ (Permutation_sym Hperm)). exact Hv.
  - cbn [scope_after fold_left push]. intros v [<-|Hv]; [|left; exact Hv].
    right. left. cbn [alldefs_op]. right. fold (alldefs (pre ++ Def d p :: post)).
    rewrite alldefs_app, alldefs_cons. apply in_or_app. right. left. reflexivity.
  - apply (below_weaken fresh); [lia|]. intros v Hv. apply Hbo.
    unfold vars_of in Hv. cbn [flat_map vars_op app] in Hv. rewrite app_nil_r in Hv.
    cbn [vars_op]. fold (vars_of (pre ++ post)) in Hv. fold (vars_of (pre ++ Def d p :: post)).
    rewrite vars_of_app, vars_of_cons. rewrite vars_of_app in Hv. cbn [vars_op].
    destruct Hv as [<-|Hv].
    { do 4 right. apply in_or_app. right. left. reflexivity. }
    apply in_app_or in Hv as [Hv|Hv].
    { do 4 right. apply in_or_app. right. right. apply in_or_app. left. exact Hv. }
    destruct Hv as [<-|[<-|[<-|[<-|Hv]]]]; cbn; auto.
    do 4 right. apply in_app_or in Hv as [Hv|Hv]; apply in_or_app; [left; exact Hv|].
    right. right. apply in_or_app. right. exact Hv.
Qed.

(* ---- MergeForLoops *)
Lemma merge_wf fresh j : rule_wf (fun Sc o => merge_loops Sc fresh j o) fresh.
Proof.
  intros Sc D o ops Hr Hwf Hnd Hdj Hincl HbD Hbo.
  unfold merge_loops, merge_loops_with in Hr.
  destruct o as [| |ivp lbp ubp stp pbody]; try discriminate.
  destruct (split_at j pbody) as [[[pre x] post]|] eqn:Esp; [|discriminate].
  destruct x as [| |iv lb ub st ibody]; try discriminate.
  apply split_at_spec in Esp as [-> _].
  destruct (cst_of (defs_top pre ++ Sc) lb); [|discriminate].
  destruct (cst_of (defs_top pre ++ Sc) ub) as [u|]; [|discriminate].
  destruct (cst_of (defs_top pre ++ Sc) st); [|discriminate].
  destruct (cst_of Sc lbp); [|discriminate]. destruct (cst_of Sc ubp) as [up|]; [|discriminate].
  destruct (cst_of Sc stp); [|discriminate].
  match type of Hr with (if ?c then _ else _) = _ => destruct c; [discriminate|] end.
  match type of Hr with (if ?c then _ else _) = _ => destruct c; [discriminate|] end.
  match type of Hr with (if ?c then _ else _) = _ => destruct c; [discriminate|] end.
  inversion Hr; subst ops; clear Hr.
  set (c := S (S fresh)). set (k := S fresh). pose (f := fresh).
  rewrite wf_op_For in Hwf. repeat (apply andb_true_iff in Hwf as [Hwf ?]).
  match goal with Hb : wf_block (ivp :: D) _ = true |- _ =>
    rewrite wf_block_app, wf_block_cons in Hb; apply andb_true_iff in Hb as [Hwpre Hb];
    apply andb_true_iff in Hb as [Hwin Hwpost] end.
  cbn [push] in Hwpost. set (Dp := scope_after (ivp :: D) pre) in *.
  rewrite wf_op_For in Hwin. repeat (apply andb_true_iff in Hwin as [Hwin ?]).
  assert (Hlbp : In lbp D) by (apply memb_In; assumption).
  assert (Hstp : In stp D) by (apply memb_In; assumption).
  assert (HivpD : ~ In ivp D) by (apply memb_not_In, negb_true_iff; assumption).
  assert (HivDp : ~ In iv Dp) by (apply memb_not_In, negb_true_iff; assumption).
  cbn [alldefs_op] in Hnd, Hdj. fold (alldefs (pre ++ For iv lb ub st ibody :: post)) in *.
  rewrite alldefs_app, alldefs_cons in Hnd, Hdj. cbn [alldefs_op] in Hnd, Hdj. fold (alldefs ibody) in *.
  assert (Hbv : forall v, In v (ivp :: vars_of pre ++ (iv :: vars_of ibody) ++ vars_of post) -> (v < fresh)%nat).
  { intros v Hv. apply Hbo. cbn [vars_op]. fold (vars_of (pre ++ For iv lb ub st ibody :: post)).
    rewrite vars_of_app, vars_of_cons. cbn [vars_op]. fold (vars_of ibody).
    destruct Hv as [<-|Hv]; [left; reflexivity|]. do 4 right.
    apply in_app_or in Hv as [Hv|Hv]; apply in_or_app; [left; exact Hv|right].
    apply in_app_or in Hv as [Hv|Hv]; apply in_or_app; [left|right; exact Hv].
    destruct Hv as [<-|Hv]; [left; reflexivity|do 4 right; exact Hv]. }
  assert (Hbd : forall v, In v (ivp :: alldefs pre ++ (iv :: alldefs ibody) ++ alldefs post) -> (v < fresh)%nat).
  { intros v Hv. apply Hbv. destruct Hv as [<-|Hv]; [left; reflexivity|right].
    apply in_app_or in Hv as [Hv|Hv]; apply in_or_app; [left; apply alldefs_vars; exact Hv|right].
    apply in_app_or in Hv as [Hv|Hv]; apply in_or_app; [left|right; apply alldefs_vars; exact Hv].
    destruct Hv as [<-|Hv]; [left; reflexivity|right; apply alldefs_vars; exact Hv]. }
  inversion Hnd as [|? ? Hnivp Hnd']; subst.
  apply NoDup_app_iff in Hnd' as (Hndpre & Hnd2 & Hdpre).
  change (iv :: alldefs ibody ++ alldefs post) with ((iv :: alldefs ibody) ++ alldefs post) in Hnd2.
  apply NoDup_app_iff in Hnd2 as (Hndin & Hndpost & Hdin).
  set (body' := Def c (PConst u) :: Def ivp (PBin BDivU k c) :: pre ++ Def iv (PBin BRemU k c) :: ibody ++ post).
  assert (Hall : alldefs [Def fresh (PConst (u * up)); For k lbp fresh stp body'] =
                 fresh :: k :: c :: ivp :: alldefs pre ++ (iv :: alldefs ibody) ++ alldefs post).
  { unfold alldefs, body'. cbn [flat_map alldefs_op app]. rewrite app_nil_r.
    rewrite flat_map_app. cbn [flat_map alldefs_op app]. rewrite flat_map_app. reflexivity. }
  set (D0 := ivp :: c :: k :: f :: D).
  set (D1 := scope_after D0 pre).
  assert (HDpD1 : forall v, In v Dp -> In v D1).
  { intros v Hv. apply scope_after_In in Hv. apply scope_after_In.
    destruct Hv as [[<-|Hv]|Hv]; [left; left; reflexivity|left; do 4 right; exact Hv|right; exact Hv]. }
  assert (HD1 : forall v, In v D1 -> In v Dp \/ v = c \/ v = k \/ v = f).
  { intros v Hv. apply scope_after_In in Hv as [[<-|[<-|[<-|[<-|Hv]]]]|Hv]; auto.
    - left. apply scope_after_In. left. left. reflexivity.
    - left. apply scope_after_In. left. right. exact Hv.
    - left. apply scope_after_In. right. exact Hv. }
  split; [reflexivity|]. split; [|split; [|split; [|split]]].
  - assert (Hivpf : (ivp < fresh)%nat) by (apply Hbv; left; reflexivity).
    assert (Hivf : (iv < fresh)%nat).
    { apply Hbv. right. apply in_or_app. right. apply in_or_app. left. left. reflexivity. }
    assert (F1 : negb (memb fresh D) = true).
    { apply negb_true_iff, memb_not_In. intros Hin. specialize (HbD _ Hin). lia. }
    assert (F2 : memb lbp (fresh :: D) = true) by (apply memb_In; right; exact Hlbp).
    assert (F3 : memb fresh (fresh :: D) = true) by (apply memb_In; left; reflexivity).
    assert (F4 : memb stp (fresh :: D) = true) by (apply memb_In; right; exact Hstp).
    assert (F5 : negb (memb k (fresh :: D)) = true).
    { apply negb_true_iff, memb_not_In. intros [Hin|Hin]; [unfold k in *; lia|]. specialize (HbD _ Hin). unfold k in *. lia. }
    assert (F6 : negb (memb c (k :: fresh :: D)) = true).
    { apply negb_true_iff, memb_not_In. intros [Hin|[Hin|Hin]]; try (unfold k, c in *; lia).
      specialize (HbD _ Hin). unfold c in *. lia. }
    assert (F7 : memb k (c :: k :: fresh :: D) = true) by (apply memb_In; right; left; reflexivity).
    assert (F8 : memb c (c :: k :: fresh :: D) = true) by (apply memb_In; left; reflexivity).
    assert (F9 : negb (memb ivp (c :: k :: fresh :: D)) = true).
    { apply negb_true_iff, memb_not_In. intros [Hin|[Hin|[Hin|Hin]]]; try (unfold k, c in *; lia). contradiction. }
    assert (F10 : wf_block D0 pre = true).
    { apply (wf_weaken pre (ivp :: D)); [exact Hwpre| |].
      - intros v [<-|Hv]; [left; reflexivity|do 4 right; exact Hv].
      - intros v Hv Hn Hin.
        assert ((v < fresh)%nat) by (apply Hbd; right; apply in_or_app; left; exact Hin).
        destruct Hv as [<-|[<-|[<-|[<-|Hv]]]]; try (unfold f, k, c in *; lia).
        + apply Hn. left; reflexivity.
        + apply Hn. right; exact Hv. }
    assert (F11 : memb k D1 = true) by (apply memb_In, scope_after_In; left; right; right; left; reflexivity).
    assert (F12 : memb c D1 = true) by (apply memb_In, scope_after_In; left; right; left; reflexivity).
    assert (F13 : negb (memb iv D1) = true).
    { apply negb_true_iff, memb_not_In. intros Hin.
      destruct (HD1 _ Hin) as [Hq|[Hq|[Hq|Hq]]]; try (unfold f, k, c in *; lia). contradiction. }
    assert (F14 : wf_block (iv :: D1) ibody = true).
    { apply (wf_weaken ibody (iv :: Dp)); [assumption| |].
      - intros v [<-|Hv]; [left; reflexivity|right; apply HDpD1; exact Hv].
      - intros v Hv Hn Hin.
        assert ((v < fresh)%nat).
        { apply Hbd. right. apply in_or_app. right. apply in_or_app. left. right. exact Hin. }
        destruct Hv as [<-|Hv]; [apply Hn; left; reflexivity|].
        destruct (HD1 _ Hv) as [Hq|[Hq|[Hq|Hq]]]; try (unfold f, k, c in *; lia).
        apply Hn. right. exact Hq. }
    assert (F15 : wf_block (scope_after (iv :: D1) ibody) post = true).
    { apply (wf_weaken post Dp); [exact Hwpost| |].
      - intros v Hv. apply scope_after_In. left. right. apply HDpD1. exact Hv.
      - intros v Hv Hn Hin.
        assert ((v < fresh)%nat).
        { apply Hbd. right. apply in_or_app. right. apply in_or_app. right. exact Hin. }
        apply scope_after_In in Hv as [[Hv|Hv]|Hv].
        + subst v. apply (Hdin iv); [left; reflexivity|exact Hin].
        + destruct (HD1 _ Hv) as [Hq|[Hq|[Hq|Hq]]]; try (unfold f, k, c in *; lia). contradiction.
        + apply defs_top_alldefs in Hv. apply (Hdin v); [right; exact Hv|exact Hin]. }
    unfold D1, D0, f in *. unfold body'.
    rewrite !wf_block_cons. cbn [wf_block push]. rewrite wf_op_For, !wf_block_cons. cbn [wf_op uses_p forallb push].
    rewrite wf_block_app, wf_block_cons, wf_block_app. cbn [wf_op uses_p forallb push].
    repeat (apply andb_true_iff; split); try reflexivity; assumption.
  - rewrite Hall.
    assert (Hold : NoDup (ivp :: alldefs pre ++ (iv :: alldefs ibody) ++ alldefs post)).
    { constructor; [exact Hnivp|]. apply NoDup_app_iff. split; [exact Hndpre|]. split; [|exact Hdpre].
      apply NoDup_app_iff. split; [exact Hndin|]. split; [exact Hndpost|exact Hdin]. }
    constructor; [intros [Hq|[Hq|Hq]]; try (unfold f, k, c in *; lia); specialize (Hbd _ Hq); unfold f in *; lia|].
    constructor; [intros [Hq|Hq]; try (unfold f, k, c in *; lia); specialize (Hbd _ Hq); unfold k in *; lia|].
    constructor; [intros Hq; specialize (Hbd _ Hq); unfold c in *; lia|]. exact Hold.
  - rewrite Hall. intros v [<-|[<-|[<-|Hv]]]; try (right; unfold f, k, c; lia). left.
    cbn [alldefs_op]. fold (alldefs (pre ++ For iv lb ub st ibody :: post)).
    rewrite alldefs_app, alldefs_cons. cbn [alldefs_op]. fold (alldefs ibody). exact Hv.
  - cbn [scope_after fold_left push]. intros v [<-|Hv]; [right; right; unfold f; lia|left; exact Hv].
  - intros v Hv. unfold vars_of, body' in Hv. cbn [flat_map vars_op uses_p app] in Hv. rewrite app_nil_r in Hv.
    rewrite flat_map_app in Hv. cbn [flat_map vars_op uses_p app] in Hv. rewrite flat_map_app in Hv.
    fold (vars_of pre) (vars_of ibody) (vars_of post) in Hv.
    assert (Hb3 : forall w, In w [lbp; stp] -> (w < fresh)%nat) by (intros w Hw; apply Hbo; cbn in *; tauto).
    cbn [In] in Hv.
    repeat (destruct Hv as [<-|Hv]; [try (unfold f, k, c; lia); try (assert ((lbp < fresh)%nat) by (apply Hb3; cbn; tauto); lia);
                                     try (assert ((stp < fresh)%nat) by (apply Hb3; cbn; tauto); lia);
                                     try (assert ((ivp < fresh)%nat) by (apply Hbv; left; reflexivity); lia)|]).
    apply in_app_or in Hv as [Hv|Hv].
    { assert ((v < fresh)%nat) by (apply Hbv; right; apply in_or_app; left; exact Hv). lia. }
    cbn [In] in Hv.
    repeat (destruct Hv as [<-|Hv]; [try (unfold f, k, c; lia);
      try (assert ((iv < fresh)%nat) by (apply Hbv; right; apply in_or_app; right; apply in_or_app; left; left; reflexivity); lia)|]).
    apply in_app_or in Hv as [Hv|Hv].
    { assert ((v < fresh)%nat) by (apply Hbv; right; apply in_or_app; right; apply in_or_app; left; right; exact Hv). lia. }
    assert ((v < fresh)%nat) by (apply Hbv; right; apply in_or_app; right; apply in_or_app; right; exact Hv). lia.
Qed.

(* ---- closedness of scopes without an environment *)
Lemma closed_after_block b : forall D Sc,
  wf_block D b = true -> closedI D Sc -> closedI (scope_after D b) (defs_top b ++ Sc).
Proof.
  induction b as [|o b IH]; intros D Sc Hwf Hc; [exact Hc|].
  rewrite wf_block_cons in Hwf. apply andb_true_iff in Hwf as [H1 H2].
  assert (Hc1 : closedI (push D o) (defs_top [o] ++ Sc)).
  { destruct o as [d p|i a|iv lb ub st body]; cbn [defs_top app push]; try exact Hc.
    cbn [wf_op] in H1. apply andb_true_iff in H1 as [Hu _].
    intros v q [Heq|Hin].
    - inversion Heq; subst v q. split; [left; reflexivity|].
      intros u Hu2. right. eapply forallb_memb_In; eassumption.
    - destruct (Hc v q Hin) as [Ha Hb]. split; [right; exact Ha|intros u Hu2; right; apply Hb; exact Hu2]. }
  pose proof (IH _ _ H2 Hc1) as Hc2.
  cbn [scope_after fold_left]. fold (scope_after (push D o) b). rewrite defs_top_cons.
  intros v p Hin. apply Hc2. rewrite !in_app_iff in *. tauto.
Qed.

(* ---- substitution of uses: syntactic facts *)
Lemma uses_sb_p d w p : uses_p (sb_p d w p) = map (sbv d w) (uses_p p).
Proof.
  destruct p as [z|k a b|rs|s i|sz|s sz|lm lix]; cbn [uses_p sb_p map]; try reflexivity.
  - induction rs as [|l rs IH]; [reflexivity|]. cbn [map flat_map fst snd]. rewrite map_app, IH.
    f_equal. rewrite !map_map. reflexivity.
  - induction sz as [|x sz IH]; [reflexivity|]. cbn [map flat_map]. rewrite map_app, IH. f_equal. destruct x; reflexivity.
  - f_equal. induction sz as [|x sz IH]; [reflexivity|]. cbn [map flat_map]. rewrite map_app, IH. f_equal. destruct x; reflexivity.
Qed.

Lemma alldefs_subst_op d w o : alldefs_op (subst_op d w o) = alldefs_op o.
Proof.
  induction o as [x p|i a|iv lb ub st body IH] using op_ind'; cbn [subst_op alldefs_op]; try reflexivity.
  f_equal. induction IH as [|o b Ho _ IHb]; [reflexivity|]. cbn [map flat_map]. rewrite Ho, IHb. reflexivity.
Qed.
Lemma alldefs_subst d w b : alldefs (map (subst_op d w) b) = alldefs b.
Proof. unfold alldefs. induction b as [|o b IH]; [reflexivity|]. cbn [map flat_map]. rewrite alldefs_subst_op, IH. reflexivity. Qed.

Lemma sbv_cases d w u : sbv d w u = u \/ sbv d w u = w.
Proof. unfold sbv. destruct (Nat.eqb u d); auto. Qed.
Lemma sbv_other d w u : u <> d -> sbv d w u = u.
Proof. intros H. unfold sbv. destruct (Nat.eqb u d) eqn:E; [apply Nat.eqb_eq in E; contradiction|reflexivity]. Qed.

Lemma vars_subst_op d w o : forall v, In v (vars_op (subst_op d w o)) -> In v (vars_op o) \/ v = w.
Proof.
  induction o as [x p|i a|iv lb ub st body IH] using op_ind'; intros v; cbn [subst_op vars_op].
  - rewrite uses_sb_p. intros [<-|Hin]; [left; left; reflexivity|].
    apply in_map_iff in Hin as [u [Hu Hin]]. destruct (sbv_cases d w u) as [E|E]; rewrite E in Hu; subst; [left; right; exact Hin|right; reflexivity].
  - intros Hin. apply in_map_iff in Hin as [u [Hu Hin]].
    destruct (sbv_cases d w u) as [E|E]; rewrite E in Hu; subst; [left; exact Hin|right; reflexivity].
  - intros [<-|[Hq|[Hq|[Hq|Hin]]]].
    + left. left. reflexivity.
    + destruct (sbv_cases d w lb) as [E|E]; rewrite E in Hq; subst; [left; cbn; auto|right; reflexivity].
    + destruct (sbv_cases d w ub) as [E|E]; rewrite E in Hq; subst; [left; cbn; auto|right; reflexivity].
    + destruct (sbv_cases d w st) as [E|E]; rewrite E in Hq; subst; [left; cbn; auto|right; reflexivity].
    + apply in_flat_map in Hin as [o' [Ho' Hv]]. apply in_map_iff in Ho' as [o [<- Ho]].
      rewrite Forall_forall in IH. destruct (IH o Ho v Hv) as [Hq|Hq]; [left|right; exact Hq].
      cbn. do 4 right. apply in_flat_map. exists o. split; assumption.
Qed.
Lemma vars_subst d w b v : In v (vars_of (map (subst_op d w) b)) -> In v (vars_of b) \/ v = w.
Proof.
  unfold vars_of. intros Hin. apply in_flat_map in Hin as [o' [Ho' Hv]]. apply in_map_iff in Ho' as [o [<- Ho]].
  destruct (vars_subst_op d w o v Hv) as [Hq|Hq]; [left|right; exact Hq]. apply in_flat_map. exists o. split; assumption.
Qed.

(* the substituted block is well scoped in D2 when every name of D1 is mapped into D2 and D2 does not
   contain a name the block defines *)
Definition op_wf_subst (d w : var) (o : op) := forall D1 D2,
  wf_op D1 o = true -> (forall u, In u D1 -> In (sbv d w u) D2) ->
  (forall x, In x (alldefs_op o) -> ~ In x D2) -> ~ In d (alldefs_op o) -> NoDup (alldefs_op o) ->
  wf_op D2 (subst_op d w o) = true.

Lemma forallb_memb_subst d w D1 D2 l :
  forallb (fun v => memb v D1) l = true -> (forall u, In u D1 -> In (sbv d w u) D2) ->
  forallb (fun v => memb v D2) (map (sbv d w) l) = true.
Proof.
  intros H Hi. apply forallb_forall. intros v Hv. apply in_map_iff in Hv as [u [<- Hu]].
  rewrite forallb_forall in H. apply memb_In, Hi, memb_In, H. exact Hu.
Qed.

Lemma block_wf_subst_of_ops d w b : Forall (op_wf_subst d w) b -> forall D1 D2,
  wf_block D1 b = true -> (forall u, In u D1 -> In (sbv d w u) D2) ->
  (forall x, In x (alldefs b) -> ~ In x D2) -> ~ In d (alldefs b) -> NoDup (alldefs b) ->
  wf_block D2 (map (subst_op d w) b) = true.
Proof.
  induction 1 as [|o b Ho _ IH]; intros D1 D2 Hwf Hi Hx Hd Hnd; [reflexivity|].
  cbn [map]. rewrite wf_block_cons in *. apply andb_true_iff in Hwf as [H1 H2].
  rewrite alldefs_cons in Hx, Hd, Hnd. rewrite in_app_iff in Hd.
  apply andb_true_iff. split.
  - apply (Ho D1 D2 H1 Hi); [|tauto|apply (NoDup_app_l _ _ Hnd)]. intros x Hin. apply Hx. apply in_or_app. left; exact Hin.
  - apply (IH (push D1 o) (push D2 (subst_op d w o)) H2); [| |tauto|apply (NoDup_app_r _ _ Hnd)].
    + intros u Hu. destruct o as [x p| |]; cbn [push subst_op] in *; try (apply Hi; exact Hu).
      destruct Hu as [<-|Hu]; [|right; apply Hi; exact Hu].
      left. symmetry. apply sbv_other. intros ->. apply Hd. left. left. reflexivity.
    + intros x Hin Hx2. destruct o as [y p| |]; cbn [push subst_op] in Hx2;
        try (apply (Hx x); [apply in_or_app; right; exact Hin|exact Hx2]).
      destruct Hx2 as [<-|Hx2]; [|apply (Hx x); [apply in_or_app; right; exact Hin|exact Hx2]].
      cbn [alldefs_op app] in Hnd. inversion Hnd; contradiction.
Qed.

Lemma wf_subst_op d w o : op_wf_subst d w o.
Proof.
  induction o as [x p|i a|iv lb ub st body IH] using op_ind'; intros D1 D2 Hwf Hi Hx Hd Hnd.
  - cbn [wf_op subst_op] in *. apply andb_true_iff in Hwf as [H1 H2]. rewrite uses_sb_p.
    apply andb_true_iff. split; [eapply forallb_memb_subst; eassumption|].
    apply negb_true_iff, memb_not_In. apply Hx. left. reflexivity.
  - cbn [wf_op subst_op] in *. eapply forallb_memb_subst; eassumption.
  - cbn [subst_op]. rewrite wf_op_For in *. repeat (apply andb_true_iff in Hwf as [Hwf ?]).
    cbn [alldefs_op] in Hx, Hd, Hnd. fold (alldefs body) in *.
    inversion Hnd as [|? ? Hniv Hndb]; subst.
    repeat (apply andb_true_iff; split).
    + apply memb_In, Hi, memb_In. assumption.
    + apply memb_In, Hi, memb_In. assumption.
    + apply memb_In, Hi, memb_In. assumption.
    + apply negb_true_iff, memb_not_In. apply Hx. left. reflexivity.
    + apply (block_wf_subst_of_ops d w body IH (iv :: D1) (iv :: D2)); try assumption.
      * intros u [<-|Hu]; [left; symmetry; apply sbv_other; intros ->; apply Hd; left; reflexivity|right; apply Hi; exact Hu].
      * intros x Hin [<-|Hx2]; [contradiction|]. apply (Hx x); [right; exact Hin|exact Hx2].
      * intros Hin. apply Hd. right. exact Hin.
Qed.

Lemma wf_subst d w b D1 D2 :
  wf_block D1 b = true -> (forall u, In u D1 -> In (sbv d w u) D2) ->
  (forall x, In x (alldefs b) -> ~ In x D2) -> ~ In d (alldefs b) -> NoDup (alldefs b) ->
  wf_block D2 (map (subst_op d w) b) = true.
Proof. apply block_wf_subst_of_ops. apply Forall_forall. intros o _. apply wf_subst_op. Qed.

(* ---- MoveMemrefDims *)
Lemma move_dim_wf fresh j : rule_wf (fun Sc o => move_dim Sc fresh j o) fresh.
Proof.
  intros Sc D o ops Hr Hwf Hnd Hdj Hcl HbD Hbo.
  unfold move_dim in Hr.
  destruct o as [| |iv lb ub st body]; try discriminate.
  destruct (split_at j body) as [[[pre x] post]|] eqn:Esp; [|discriminate].
  destruct x as [d p| |]; try discriminate. destruct p as [| | |src idx| | |]; try discriminate.
  apply split_at_spec in Esp as [-> _].
  set (Sin := defs_top pre) in *.
  destruct (cst_of (Sin ++ Sc) idx) as [iz|] eqn:Eidx; [|discriminate].
  destruct (negb (forallb (dim_uses_ok d) post)); [discriminate|].
  destruct (resolve_dim 8 Sin Sc src iz) as [r|] eqn:Eres; [|discriminate].
  rewrite wf_op_For in Hwf. repeat (apply andb_true_iff in Hwf as [Hwf ?]).
  match goal with Hb : wf_block (iv :: D) _ = true |- _ =>
    rewrite wf_block_app, wf_block_cons in Hb; apply andb_true_iff in Hb as [Hwpre Hb];
    apply andb_true_iff in Hb as [Hwd Hwpost] end.
  cbn [push] in Hwpost. set (Dp := scope_after (iv :: D) pre) in *.
  cbn [wf_op uses_p forallb] in Hwd. rewrite andb_true_r in Hwd.
  apply andb_true_iff in Hwd as [Hwd HdDp]. apply andb_true_iff in Hwd as [Hsrc Hidx].
  apply memb_In in Hsrc. apply negb_true_iff, memb_not_In in HdDp.
  assert (Hlb : In lb D) by (apply memb_In; assumption).
  assert (Hub : In ub D) by (apply memb_In; assumption).
  assert (Hst : In st D) by (apply memb_In; assumption).
  assert (HivD : ~ In iv D) by (apply memb_not_In, negb_true_iff; assumption).
  cbn [alldefs_op] in Hnd, Hdj. fold (alldefs (pre ++ Def d (PDim src idx) :: post)) in *.
  rewrite alldefs_app, alldefs_cons in Hnd, Hdj. cbn [alldefs_op app] in Hnd, Hdj.
  inversion Hnd as [|? ? Hniv Hnd']; subst.
  pose proof (NoDup_remove_1 _ _ _ Hnd') as Hnd2.
  pose proof (NoDup_remove_2 _ _ _ Hnd') as Hdnot.
  assert (Hdpost : ~ In d (alldefs post)) by (intros Hin; apply Hdnot, in_or_app; right; exact Hin).
  assert (Hndpost : NoDup (alldefs post)) by (apply (NoDup_app_r _ _ Hnd2)).
  assert (Hbvars : forall v, In v (iv :: lb :: ub :: st :: vars_of pre ++ (d :: src :: idx :: nil) ++ vars_of post) -> (v < fresh)%nat).
  { intros v Hv. apply Hbo. cbn [vars_op]. fold (vars_of (pre ++ Def d (PDim src idx) :: post)).
    rewrite vars_of_app, vars_of_cons. cbn [vars_op uses_p]. exact Hv. }
  assert (Hbpost : forall v, In v (alldefs post) -> (v < fresh)%nat).
  { intros v Hv. apply Hbvars. do 4 right. apply in_or_app. right. apply in_or_app. right. apply alldefs_vars. exact Hv. }
  assert (Hbpre : forall v, In v (alldefs pre) -> (v < fresh)%nat).
  { intros v Hv. apply Hbvars. do 4 right. apply in_or_app. left. apply alldefs_vars. exact Hv. }
  assert (Hivf : (iv < fresh)%nat) by (apply Hbvars; left; reflexivity).
  (* the loop with the dim erased, in a scope D0 that contains D and the replacement w *)
  assert (Hloop : forall D0 w, (forall v, In v D -> In v D0) -> In w D0 -> ~ In iv D0 ->
             (forall x, In x D0 -> ~ In x D -> (fresh <= x)%nat) -> (w <> iv) ->
             wf_op D0 (For iv lb ub st (pre ++ map (subst_op d w) post)) = true).
  { intros D0 w HD Hw Hiv0 Hextra Hwiv. rewrite wf_op_For.
    repeat (apply andb_true_iff; split).
    - apply memb_In, HD. exact Hlb.
    - apply memb_In, HD. exact Hub.
    - apply memb_In, HD. exact Hst.
    - apply negb_true_iff, memb_not_In. exact Hiv0.
    - rewrite wf_block_app. apply andb_true_iff. split.
      + apply (wf_weaken pre (iv :: D)); [exact Hwpre| |].
        * intros v [<-|Hv]; [left; reflexivity|right; apply HD; exact Hv].
        * intros v [<-|Hv] Hn Hin; [apply Hn; left; reflexivity|].
          assert (Hnq : ~ In v D) by (intros Hq; apply Hn; right; exact Hq).
          specialize (Hextra v Hv Hnq). specialize (Hbpre v Hin). lia.
      + apply (wf_subst d w post (d :: Dp)); try assumption.
        * intros u [<-|Hu].
          -- unfold sbv. rewrite Nat.eqb_refl. apply scope_after_In. left. right. exact Hw.
          -- rewrite sbv_other by (intros ->; contradiction). apply scope_after_In.
             apply scope_after_In in Hu as [[<-|Hu]|Hu]; [left; left; reflexivity|left; right; apply HD; exact Hu|right; exact Hu].
        * intros x Hin Hx2. apply scope_after_In in Hx2 as [[<-|Hx2]|Hx2].
          -- apply Hniv. apply in_or_app. right. right. exact Hin.
          -- destruct (in_dec Nat.eq_dec x D) as [Hq|Hq].
             ++ apply (Hdj _ Hq). right. apply in_or_app. right. right. exact Hin.
             ++ specialize (Hextra x Hx2 Hq). specialize (Hbpost x Hin). lia.
          -- apply defs_top_alldefs in Hx2. apply (NoDup_app_disj _ _ _ Hnd2 Hx2 Hin). }
  assert (Halld : forall w, alldefs [For iv lb ub st (pre ++ map (subst_op d w) post)] = iv :: alldefs pre ++ alldefs post).
  { intros w. unfold alldefs. cbn [flat_map alldefs_op]. rewrite app_nil_r, flat_map_app. f_equal. f_equal. apply alldefs_subst. }
  assert (Hsubold : forall v, In v (iv :: alldefs pre ++ alldefs post) -> In v (iv :: alldefs pre ++ d :: alldefs post)).
  { intros v [<-|Hv]; [left; reflexivity|right]. apply in_app_or in Hv as [Hv|Hv]; apply in_or_app; [left|right; right]; exact Hv. }
  assert (Hbnew : forall w, (w < S fresh)%nat -> below (S (S (S fresh))) (vars_of [For iv lb ub st (pre ++ map (subst_op d w) post)])).
  { intros w Hw v Hv. unfold vars_of in Hv. cbn [flat_map vars_op] in Hv. rewrite app_nil_r in Hv.
    fold (vars_of (pre ++ map (subst_op d w) post)) in Hv. rewrite vars_of_app in Hv.
    assert ((v < S fresh)%nat); [|lia].
    destruct Hv as [<-|[<-|[<-|[<-|Hv]]]].
    - assert ((iv < fresh)%nat) by (apply Hbvars; cbn; auto). lia.
    - assert ((lb < fresh)%nat) by (apply Hbvars; cbn; auto). lia.
    - assert ((ub < fresh)%nat) by (apply Hbvars; cbn; auto). lia.
    - assert ((st < fresh)%nat) by (apply Hbvars; cbn; auto). lia.
    - apply in_app_or in Hv as [Hv|Hv].
      + assert ((v < fresh)%nat) by (apply Hbvars; do 4 right; apply in_or_app; left; exact Hv). lia.
      + destruct (vars_subst _ _ _ _ Hv) as [Hq|Hq]; [|subst v; exact Hw].
        assert ((v < fresh)%nat) by (apply Hbvars; do 4 right; apply in_or_app; right; apply in_or_app; right; exact Hq). lia. }
  assert (Hnewop : forall E, (forall u, In u (uses_p E) -> In u D) ->
     [Def fresh E; For iv lb ub st (pre ++ map (subst_op d fresh) post)] = ops ->
     push D (For iv lb ub st (pre ++ Def d (PDim src idx) :: post)) = D /\
     wf_block D ops = true /\ NoDup (alldefs ops) /\
     (forall v, In v (alldefs ops) -> In v (iv :: alldefs pre ++ d :: alldefs post) \/ (fresh <= v)%nat) /\
     (forall v, In v (scope_after D ops) -> In v D \/ In v (iv :: alldefs pre ++ d :: alldefs post) \/ (fresh <= v)%nat) /\
     below (S (S (S fresh))) (vars_of ops)).
  { intros E HE <-. split; [reflexivity|]. split; [|split; [|split; [|split]]].
    - cbn [wf_block push]. rewrite andb_true_r. apply andb_true_iff. split.
      + cbn [wf_op]. apply andb_true_iff. split.
        * apply forallb_forall. intros u Hu. apply memb_In, HE. exact Hu.
        * apply negb_true_iff, memb_not_In. intros Hin. specialize (HbD _ Hin). lia.
      + apply Hloop.
        * intros v Hv. right. exact Hv.
        * left. reflexivity.
        * intros [Hq|Hq]; [lia|contradiction].
        * intros x [<-|Hx] Hn; [lia|contradiction].
        * lia.
    - change (alldefs (Def fresh E :: [For iv lb ub st (pre ++ map (subst_op d fresh) post)]))
        with (fresh :: alldefs [For iv lb ub st (pre ++ map (subst_op d fresh) post)]).
      rewrite Halld. constructor.
      + intros Hin. apply Hsubold in Hin. destruct Hin as [Hq|Hq]; [lia|].
        apply in_app_or in Hq as [Hq|[Hq|Hq]].
        * specialize (Hbpre _ Hq). lia.
        * assert ((d < fresh)%nat) by (apply Hbvars; do 4 right; apply in_or_app; right; left; reflexivity). lia.
        * specialize (Hbpost _ Hq). lia.
      + constructor; [|exact Hnd2]. intros Hin. apply Hniv. apply in_app_or in Hin as [Hq|Hq]; apply in_or_app; [left|right; right]; exact Hq.
    - change (alldefs (Def fresh E :: [For iv lb ub st (pre ++ map (subst_op d fresh) post)]))
        with (fresh :: alldefs [For iv lb ub st (pre ++ map (subst_op d fresh) post)]).
      rewrite Halld. intros v [<-|Hv]; [right; lia|left; apply Hsubold; exact Hv].
    - cbn [scope_after fold_left push]. intros v [<-|Hv]; [right; right; lia|left; exact Hv].
    - intros v Hv. rewrite vars_of_cons in Hv. apply in_app_or in Hv as [Hv|Hv].
      + cbn [vars_op] in Hv. destruct Hv as [<-|Hv]; [lia|]. specialize (HbD _ (HE _ Hv)). lia.
      + apply (Hbnew fresh); [lia|exact Hv]. }
  assert (Hao : alldefs_op (For iv lb ub st (pre ++ Def d (PDim src idx) :: post)) = iv :: alldefs pre ++ d :: alldefs post).
  { cbn [alldefs_op]. fold (alldefs (pre ++ Def d (PDim src idx) :: post)). rewrite alldefs_app, alldefs_cons. reflexivity. }
  rewrite Hao.
  destruct r as [z|v|s i|v c]; try discriminate.
  - apply (Hnewop (PConst z)); [intros u []|]. inversion Hr. reflexivity.
  - destruct (in_scope Sc v) eqn:Ev; [|discriminate]. inversion Hr; subst ops; clear Hr.
    assert (HvD : In v D) by (apply (closedI_dom _ _ _ Hcl), in_scope_In; exact Ev).
    split; [reflexivity|]. split; [|split; [|split; [|split]]].
    + cbn [wf_block push]. rewrite andb_true_r. apply Hloop; try assumption.
      * intros u Hu; exact Hu.
      * intros x Hx Hn. contradiction.
      * intros ->. contradiction.
    + rewrite Halld. constructor; [|exact Hnd2].
      intros Hin. apply Hniv. apply in_app_or in Hin as [Hq|Hq]; apply in_or_app; [left|right; right]; exact Hq.
    + rewrite Halld. intros u Hu. left. apply Hsubold. exact Hu.
    + cbn [scope_after fold_left push]. intros u Hu. left. exact Hu.
    + apply Hbnew. specialize (HbD _ HvD). lia.
  - destruct (newdim_idx 8 Sin Sc src idx) as [ix|] eqn:Eix; [|discriminate].
    destruct (in_scope Sc ix && negb (in_scope Sin s) && negb (Nat.eqb s iv)) eqn:G; [|discriminate].
    apply andb_true_iff in G as [G Gsiv]. apply andb_true_iff in G as [Gix GsSin].
    apply negb_true_iff in Gsiv. apply Nat.eqb_neq in Gsiv.
    assert (HixD : In ix D) by (apply (closedI_dom _ _ _ Hcl), in_scope_In; exact Gix).
    assert (HsD : In s D).
    { assert (Hcl' : closedI Dp (Sin ++ Sc)).
      { apply closed_after_block; [exact Hwpre|]. apply (closedI_mono D); [intros u Hu; right; exact Hu|exact Hcl]. }
      destruct (resolve_newdim_src 8 Sin Sc src iz s i (fun v => In v Dp) Eres Hsrc) as [HsDp Hsnone].
      - intros v0 s' i' Hl. assert (Hin : In (v0, PDim s' i') (Sin ++ Sc)) by (apply in_or_app; left; apply lookup_In; exact Hl).
        destruct (Hcl' _ _ Hin) as [_ Hu]. apply Hu. left. reflexivity.
      - apply scope_after_In in HsDp as [[Hq|Hq]|Hq]; [congruence|exact Hq|].
        exfalso. destruct (in_lookup_some _ _ Hq) as [p Hp]. rewrite lookup_app in Hsnone. fold Sin in Hp.
        rewrite Hp in Hsnone. discriminate. }
    apply (Hnewop (PDim s ix)); [|inversion Hr; reflexivity].
    intros u [<-|[<-|[]]]; assumption.
Qed.

Lemma apply_rule_wf r fresh : rule_wf (fun Sc o => apply_rule r Sc fresh o) fresh.
Proof.
  destruct r as [|j|j|j]; cbn [apply_rule].
  - apply change_step_wf.
  - apply merge_wf.
  - apply hoist_wf.
  - apply move_dim_wf.
Qed.

(* ------------------------------------------------------------------ context lemma for well-formedness *)
Lemma apply_at_wf f fresh : rule_wf f fresh ->
  forall path D Sc b b',
    wf_block D b = true -> NoDup (alldefs b) -> disj D (alldefs b) -> closedI D Sc ->
    below fresh D -> below fresh (vars_of b) ->
    apply_at f path Sc b = Some b' ->
    wf_block D b' = true /\ NoDup (alldefs b') /\
    (forall v, In v (alldefs b') -> In v (alldefs b) \/ (fresh <= v)%nat).
Proof.
  intros Hrule. induction path as [|i path IH]; intros D Sc b b' Hwf Hnd Hdj Hincl HbD Hbb Hr; [discriminate|].
  cbn [apply_at] in Hr.
  destruct (split_at i b) as [[[pre o] post]|] eqn:Esp; [|discriminate].
  apply split_at_spec in Esp as [-> _].
  rewrite wf_block_app, wf_block_cons in Hwf.
  apply andb_true_iff in Hwf as [Hwpre Hwf]. apply andb_true_iff in Hwf as [Hwo Hwpost].
  rewrite alldefs_app, alldefs_cons in Hnd, Hdj.
  set (D' := scope_after D pre) in *. set (Sc' := defs_top pre ++ Sc) in *.
  pose proof (closed_after_block pre D Sc Hwpre Hincl) as Hincl'. fold D' in Hincl'. fold Sc' in Hincl'.
  assert (Hbpre : below fresh (vars_of pre)).
  { intros v Hv. apply Hbb. rewrite vars_of_app. apply in_or_app. left; exact Hv. }
  assert (Hbo : below fresh (vars_op o)).
  { intros v Hv. apply Hbb. rewrite vars_of_app, vars_of_cons. apply in_or_app. right. apply in_or_app. left; exact Hv. }
  assert (Hbpost : below fresh (vars_of post)).
  { intros v Hv. apply Hbb. rewrite vars_of_app, vars_of_cons. apply in_or_app. right. apply in_or_app. right; exact Hv. }
  assert (HbD' : below fresh D').
  { intros v Hv. apply scope_after_In in Hv as [Hv|Hv]; [apply HbD; exact Hv|].
    apply Hbpre. apply defs_top_vars. exact Hv. }
  assert (Hndo : NoDup (alldefs_op o)).
  { apply NoDup_app_r in Hnd. apply (NoDup_app_l _ _ Hnd). }
  assert (Hdj' : disj D' (alldefs_op o ++ alldefs post)).
  { intros v Hin. apply scope_after_In in Hin as [Hin|Hin].
    - intros H2. apply (Hdj _ Hin). apply in_or_app. right. exact H2.
    - apply defs_top_alldefs in Hin. apply (NoDup_app_disj _ _ _ Hnd Hin). }
  assert (HbA : below fresh (alldefs pre)) by (intros v Hv; apply Hbpre, alldefs_vars; exact Hv).
  assert (HbB : below fresh (alldefs post)) by (intros v Hv; apply Hbpost, alldefs_vars; exact Hv).
  destruct path as [|i2 path2].
  - destruct (f Sc' o) as [ops|] eqn:Ef; [|discriminate]. inversion Hr; subst b'; clear Hr.
    destruct (Hrule Sc' D' o ops Ef Hwo Hndo) as (Hpush & Hwops & Hndops & Hsub & Hscope & _); try assumption.
    { intros v Hv H2. apply (Hdj' v Hv). apply in_or_app. left; exact H2. }
    rewrite Hpush in Hwpost.
    split; [|split].
    + rewrite wf_block_app, wf_block_app. fold D'. rewrite Hwpre, Hwops. cbn [andb].
      apply (wf_weaken post D'); [exact Hwpost| |].
      * intros v Hv. apply scope_after_In. left; exact Hv.
      * intros v Hv Hn Hin. destruct (Hscope v Hv) as [Hq|[Hq|Hq]].
        -- contradiction.
        -- apply NoDup_app_r in Hnd. apply (NoDup_app_disj _ _ _ Hnd Hq Hin).
        -- specialize (HbB v Hin). lia.
    + rewrite !alldefs_app. apply (NoDup_replace_middle _ (alldefs_op o) _ _ fresh); assumption.
    + rewrite !alldefs_app. intros v Hv. apply in_app_or in Hv as [Hv|Hv].
      * left. apply in_or_app. left; exact Hv.
      * apply in_app_or in Hv as [Hv|Hv].
        -- destruct (Hsub v Hv) as [Hq|Hq]; [left|right; exact Hq]. apply in_or_app. right. apply in_or_app. left; exact Hq.
        -- left. apply in_or_app. right. apply in_or_app. right; exact Hv.
  - destruct o as [| |iv lb ub st body]; try discriminate.
    destruct (apply_at f (i2 :: path2) Sc' body) as [body'|] eqn:Eb; [|discriminate].
    inversion Hr; subst b'; clear Hr.
    rewrite wf_op_For in Hwo. repeat (apply andb_true_iff in Hwo as [Hwo ?]).
    assert (HivD : ~ In iv D') by (apply memb_not_In, negb_true_iff; assumption).
    cbn [alldefs_op] in Hndo, Hdj'. fold (alldefs body) in *.
    inversion Hndo as [|? ? Hniv Hndb]; subst.
    assert (Hivf : (iv < fresh)%nat) by (apply Hbo; left; reflexivity).
    destruct (IH (iv :: D') Sc' body body') as (Hwb' & Hndb' & Hsub'); try assumption.
    + intros v [<-|Hin]; [exact Hniv|].
      intros Hb2. apply (Hdj' v Hin). right. apply in_or_app. left. exact Hb2.
    + apply (closedI_mono D'); [intros v Hv; right; exact Hv|exact Hincl'].
    + intros v [<-|Hv]; [exact Hivf|apply HbD'; exact Hv].
    + intros v Hv. apply Hbo. cbn. do 4 right. exact Hv.
    + cbn [push] in Hwpost.
      assert (Hniv' : ~ In iv (alldefs body')).
      { intros Hin. destruct (Hsub' _ Hin) as [Hq|Hq]; [contradiction|lia]. }
      split; [|split].
      * rewrite wf_block_app, wf_block_cons, wf_op_For. cbn [push]. fold D'.
        rewrite Hwpre, Hwb', Hwpost.
        repeat match goal with Hm : memb _ D' = true |- _ => rewrite Hm end.
        match goal with Hm : negb (memb iv D') = true |- _ => rewrite Hm end. reflexivity.
      * rewrite alldefs_app, alldefs_cons. cbn [alldefs_op]. fold (alldefs body').
        apply (NoDup_replace_middle _ (iv :: alldefs body) _ _ fresh); try assumption.
        -- constructor; assumption.
        -- intros v [<-|Hv]; [left; left; reflexivity|].
           destruct (Hsub' v Hv) as [Hq|Hq]; [left; right; exact Hq|right; exact Hq].
      * rewrite !alldefs_app, !alldefs_cons. cbn [alldefs_op]. fold (alldefs body') (alldefs body).
        intros v Hv. apply in_app_or in Hv as [Hv|Hv]; [left; apply in_or_app; left; exact Hv|].
        apply in_app_or in Hv as [Hv|Hv]; [|left; apply in_or_app; right; apply in_or_app; right; exact Hv].
        destruct Hv as [<-|Hv].
        -- left. apply in_or_app. right. left. reflexivity.
        -- destruct (Hsub' v Hv) as [Hq|Hq]; [left|right; exact Hq].
           apply in_or_app. right. right. apply in_or_app. left. exact Hq.
Qed.

(* ------------------------------------------------------------------ top level *)
Lemma fold_max_bound l v : In v l -> (v <= fold_right Nat.max 0%nat l)%nat.
Proof. induction l as [|x l IH]; [intros []|]. cbn [fold_right]. intros [->|Hin]; [lia|]. specialize (IH Hin). lia. Qed.

Lemma NoDup_nodupb l : NoDup l -> nodupb l = true.
Proof.
  induction 1 as [|x l Hn _ IH]; [reflexivity|]. cbn. rewrite IH, andb_true_r.
  apply negb_true_iff, memb_not_In. exact Hn.
Qed.

Lemma rewrite_in_facts args r path b b' :
  wf_prog args b = true -> rewrite_in args r path b = Some b' ->
  (forall e h, trace b' e h = trace b e h) /\ wf_prog args b' = true.
Proof.
  intros Hwf Hr. unfold wf_prog in Hwf. apply andb_true_iff in Hwf as [Hw Hn]. apply nodupb_NoDup in Hn.
  unfold rewrite_in in Hr. set (fresh := fresh_for args b) in *.
  assert (HbD : below fresh args).
  { intros v Hv. apply fold_max_bound in Hv. unfold fresh, fresh_for. lia. }
  assert (Hbb : below fresh (vars_of b)).
  { intros v Hv. apply maxvar_bound in Hv. unfold fresh, fresh_for. lia. }
  assert (Hnb : NoDup (alldefs b)) by (apply (NoDup_app_r _ _ Hn)).
  assert (Hdj : disj args (alldefs b)) by (intros v Hv; apply (NoDup_app_disj _ _ _ Hn Hv)).
  split.
  - intros e h. apply (apply_at_trace _ fresh (apply_rule_sound r fresh) path args [] b b' e h); try assumption.
    + intros v p0 [].
    + intros v p0 [].
  - destruct (apply_at_wf _ fresh (apply_rule_wf r fresh) path args [] b b') as (H1 & H2 & H3); try assumption.
    + intros v p0 [].
    + unfold wf_prog. rewrite H1. cbn [andb]. apply NoDup_nodupb. apply NoDup_app_iff.
      split; [apply (NoDup_app_l _ _ Hn)|]. split; [exact H2|].
      intros v Hv Hin. destruct (H3 v Hin) as [Hq|Hq]; [apply (Hdj v Hv Hq)|specialize (HbD v Hv); lia].
Qed.

(* Any finite sequence of rule applications starting from a well-formed SSA program preserves the trace
   (from every environment) and well-formedness: no condition on the intermediate programs. *)
Theorem rewrite_seq_in_trace steps : forall args b b',
  wf_prog args b = true ->
  rewrite_seq_in args steps b = Some b' ->
  (forall e h, trace b' e h = trace b e h) /\ wf_prog args b' = true.
Proof.
  induction steps as [|[r path] rest IH]; intros args b b' Hwf H; cbn [rewrite_seq_in] in H.
  - inversion H; subst. split; [reflexivity|exact Hwf].
  - destruct (rewrite_in args r path b) as [b1|] eqn:Hr; [|discriminate].
    destruct (rewrite_in_facts args r path b b1 Hwf Hr) as [Ht1 Hwf1].
    destruct (IH args b1 b' Hwf1 H) as [Ht2 Hwf2].
    split; [intros e h; rewrite Ht2, Ht1; reflexivity|exact Hwf2].
Qed.
