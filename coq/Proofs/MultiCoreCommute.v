(* Commutation of non-conflicting operations and data-race freedom of a phase. *)
From Snax Require Import Base.Prelude Base.ListAux Model.MultiCore.

Lemma memb_true x l : memb x l = true <-> In x l.
Proof.
  unfold memb. rewrite existsb_exists. split.
  - intros [y [Hy He]]. apply Z.eqb_eq in He. subst. exact Hy.
  - intros H. exists x. split; [exact H | apply Z.eqb_refl].
Qed.

Lemma memb_false x l : memb x l = false <-> ~ In x l.
Proof.
  rewrite <- memb_true. destruct (memb x l); split; intros H; try congruence.
Qed.

Lemma disjointb_true a b : disjointb a b = true <-> (forall x, In x a -> ~ In x b).
Proof.
  unfold disjointb. rewrite forallb_forall. split; intros H x Hx.
  - specialize (H x Hx). apply negb_true_iff in H. apply memb_false in H. exact H.
  - apply negb_true_iff. apply memb_false. apply H. exact Hx.
Qed.

Lemma index_of_none x l : index_of x l = None <-> ~ In x l.
Proof.
  induction l as [|y r IH]; simpl.
  - split; [intros _ H; exact H | reflexivity].
  - destruct (x =? y) eqn:E.
    + apply Z.eqb_eq in E. subst. split; [discriminate | intros H; exfalso; apply H; left; reflexivity].
    + apply Z.eqb_neq in E. destruct (index_of x r) eqn:I; simpl.
      * split; [discriminate|]. intros H. exfalso. apply H. right.
        destruct (in_dec Z.eq_dec x r) as [Hi|Hi]; [exact Hi|]. apply IH in Hi. discriminate.
      * split; [|reflexivity]. intros _ [H|H]; [congruence|]. apply (proj1 IH eq_refl H).
Qed.

Lemma index_of_some_in x l k : index_of x l = Some k -> In x l.
Proof.
  intros H. destruct (in_dec Z.eq_dec x l) as [Hi|Hi]; [exact Hi|].
  apply index_of_none in Hi. congruence.
Qed.

(* frame: an op leaves every buffer it does not write untouched *)
Lemma exec_op_frame o m x : ~ In x (o_writes o) -> exec_op o m x = m x.
Proof. intros H. unfold exec_op. apply index_of_none in H. rewrite H. reflexivity. Qed.

Lemma exec_op_meq o m m' : meq m m' -> meq (exec_op o m) (exec_op o m').
Proof.
  intros H x. unfold exec_op. destruct (index_of x (o_writes o)); [|apply H].
  f_equal. apply map_ext. exact H.
Qed.

Lemma exec_meq l : forall m m', meq m m' -> meq (exec l m) (exec l m').
Proof.
  induction l as [|o r IH]; intros m m' H; simpl; [exact H|].
  apply IH. apply exec_op_meq. exact H.
Qed.

Lemma exec_app l1 l2 m : exec (l1 ++ l2) m = exec l2 (exec l1 m).
Proof. unfold exec. apply fold_left_app. Qed.

Lemma meq_refl m : meq m m. Proof. intros x. reflexivity. Qed.
Lemma meq_sym m m' : meq m m' -> meq m' m. Proof. intros H x. symmetry. apply H. Qed.
Lemma meq_trans a b c : meq a b -> meq b c -> meq a c.
Proof. intros H1 H2 x. rewrite H1. apply H2. Qed.

Lemma conflictb_false a b :
  conflictb a b = false ->
  (forall x, In x (o_writes a) -> ~ In x (o_reads b) /\ ~ In x (o_writes b)) /\
  (forall x, In x (o_writes b) -> ~ In x (o_reads a)).
Proof.
  unfold conflictb. intros H. apply negb_false_iff in H. apply andb_true_iff in H as [H1 H2].
  rewrite disjointb_true in H1, H2. split.
  - intros x Hx. specialize (H1 x Hx). split; intros Hi; apply H1; apply in_or_app; [left|right]; exact Hi.
  - exact H2.
Qed.

(* two non-conflicting operations commute *)
Lemma exec_op_commute a b m :
  conflictb a b = false -> meq (exec_op a (exec_op b m)) (exec_op b (exec_op a m)).
Proof.
  intros H. apply conflictb_false in H as [Ha Hb]. intros x.
  destruct (index_of x (o_writes a)) eqn:Ia; destruct (index_of x (o_writes b)) eqn:Ib.
  - exfalso. apply index_of_some_in in Ia, Ib. destruct (Ha x Ia) as [_ Hn]. exact (Hn Ib).
  - (* written by a only *)
    apply index_of_some_in in Ia as Ia'.
    assert (Hxb : ~ In x (o_writes b)) by (apply index_of_none; exact Ib).
    rewrite (exec_op_frame b _ x Hxb).
    unfold exec_op at 1 3. rewrite Ia. f_equal.
    apply map_ext_in. intros r Hr. apply exec_op_frame. intros Hw. exact (Hb r Hw Hr).
  - apply index_of_some_in in Ib as Ib'.
    assert (Hxa : ~ In x (o_writes a)) by (apply index_of_none; exact Ia).
    rewrite (exec_op_frame a _ x Hxa).
    unfold exec_op at 1 2. rewrite Ib. f_equal.
    apply map_ext_in. intros r Hr. symmetry. apply exec_op_frame. intros Hw.
    destruct (Ha r Hw) as [Hn _]. exact (Hn Hr).
  - assert (Hxa : ~ In x (o_writes a)) by (apply index_of_none; exact Ia).
    assert (Hxb : ~ In x (o_writes b)) by (apply index_of_none; exact Ib).
    rewrite !exec_op_frame by assumption. reflexivity.
Qed.

Lemma conflictb_sym a b : conflictb a b = false -> conflictb b a = false.
Proof.
  intros H. apply conflictb_false in H as [Ha Hb].
  unfold conflictb. apply negb_false_iff. apply andb_true_iff. split; apply disjointb_true.
  - intros x Hx Hi. apply in_app_or in Hi as [Hi|Hi].
    + exact (Hb x Hx Hi).
    + destruct (Ha x Hi) as [_ Hn]. exact (Hn Hx).
  - intros x Hx Hi. destruct (Ha x Hx) as [Hn _]. exact (Hn Hi).
Qed.

(* an op commutes with a whole list of ops none of which conflicts with it *)
Lemma exec_commute_list x l : forall m,
  (forall y, In y l -> conflictb x y = false) ->
  meq (exec (l ++ [x]) m) (exec (x :: l) m).
Proof.
  induction l as [|y r IH]; intros m H; simpl; [apply meq_refl|].
  (* exec (r ++ [x]) (exec_op y m)  ==  exec r (exec_op y (exec_op x m)) *)
  eapply meq_trans; [apply IH; intros z Hz; apply H; right; exact Hz|].
  simpl. apply exec_meq. apply exec_op_commute. apply H. left. reflexivity.
Qed.

Lemma filter_cons_split {A} (f : A -> bool) (s : list A) x r :
  filter f s = x :: r ->
  exists s1 s2, s = s1 ++ x :: s2 /\ filter f s1 = [] /\ filter f s2 = r /\ f x = true.
Proof.
  induction s as [|y t IH]; simpl; [discriminate|].
  destruct (f y) eqn:E.
  - intros H. inversion H; subst. exists [], t. simpl. repeat split; assumption.
  - intros H. destruct (IH H) as [s1 [s2 [H1 [H2 [H3 H4]]]]].
    exists (y :: s1), s2. simpl. rewrite E. subst. repeat split; assumption.
Qed.

Lemma phase_drfb_cons a r :
  phase_drfb (a :: r) = true ->
  (forall b, In b r -> o_core a <> o_core b -> conflictb a b = false) /\ phase_drfb r = true.
Proof.
  simpl. intros H. apply andb_true_iff in H as [H1 H2]. split; [|exact H2].
  intros b Hb Hc. rewrite forallb_forall in H1. specialize (H1 b Hb).
  apply orb_true_iff in H1 as [H1|H1].
  - apply Z.eqb_eq in H1. contradiction.
  - apply negb_true_iff. exact H1.
Qed.

Lemma in_schedule p s y : schedule_of p s -> In y s -> In y p.
Proof.
  intros H Hy. specialize (H (o_core y)).
  assert (Hf : In y (filter (on_core (o_core y)) s)).
  { apply filter_In. split; [exact Hy | unfold on_core; apply Z.eqb_refl]. }
  rewrite H in Hf. apply filter_In in Hf. tauto.
Qed.

(* DRF theorem for one phase: if ops of different cores are pairwise conflict free, every
   interleaving of the cores yields the memory of the sequential order. *)
Theorem drf_phase : forall p s m,
  phase_drfb p = true -> schedule_of p s -> meq (exec s m) (exec p m).
Proof.
  induction p as [|x p' IH]; intros s m Hd Hs.
  - (* s must be empty *)
    destruct s as [|y t]; [apply meq_refl|].
    exfalso. specialize (Hs (o_core y)). simpl in Hs.
    replace (on_core (o_core y) y) with true in Hs by (unfold on_core; symmetry; apply Z.eqb_refl).
    discriminate.
  - apply phase_drfb_cons in Hd as [Hx Hd'].
    pose proof (Hs (o_core x)) as Hc. simpl in Hc.
    replace (on_core (o_core x) x) with true in Hc by (unfold on_core; symmetry; apply Z.eqb_refl).
    apply filter_cons_split in Hc as [s1 [s2 [Es [F1 [F2 _]]]]]. subst s.
    assert (Hs' : schedule_of p' (s1 ++ s2)).
    { intros c. specialize (Hs c). rewrite filter_app in Hs |- *. simpl in Hs.
      destruct (on_core c x) eqn:E.
      - unfold on_core in E. apply Z.eqb_eq in E. subst c.
        rewrite F1, F2. rewrite F1 in Hs. simpl in Hs. inversion Hs. reflexivity.
      - exact Hs. }
    assert (Hs1 : forall y, In y s1 -> conflictb x y = false).
    { intros y Hy. apply Hx.
      - eapply in_schedule; [exact Hs'|]. apply in_or_app. left. exact Hy.
      - intros Ec.
        assert (Hf : In y (filter (on_core (o_core x)) s1)).
        { apply filter_In. split; [exact Hy|]. unfold on_core. apply Z.eqb_eq. congruence. }
        rewrite F1 in Hf. exact Hf. }
    (* move x in front of s1 *)
    replace (s1 ++ x :: s2) with ((s1 ++ [x]) ++ s2) by (rewrite <- app_assoc; reflexivity).
    rewrite exec_app.
    eapply meq_trans.
    { apply exec_meq. apply exec_commute_list. exact Hs1. }
    change (exec (x :: p') m) with (exec p' (exec_op x m)).
    change (exec (x :: s1) m) with (exec s1 (exec_op x m)).
    rewrite <- exec_app. apply IH; assumption.
Qed.

(* several phases separated by barriers *)
Theorem drf_phases : forall ps ss m,
  Forall (fun p => phase_drfb p = true) ps ->
  Forall2 schedule_of ps ss ->
  meq (exec (concat ss) m) (exec (concat ps) m).
Proof.
  induction ps as [|p ps IH]; intros ss m Hd Hs; inversion Hs; subst; simpl.
  - apply meq_refl.
  - inversion Hd; subst. rewrite !exec_app.
    eapply meq_trans.
    + apply exec_meq. apply drf_phase; eassumption.
    + apply IH; assumption.
Qed.

(* the sequential order is itself a schedule: the theorem is not vacuous *)
Lemma schedule_of_refl p : schedule_of p p.
Proof. intros c. reflexivity. Qed.

Lemma phase_race_none p : phase_race p = None -> phase_drfb p = true.
Proof.
  induction p as [|a r IH]; simpl; [reflexivity|].
  destruct (find _ r) eqn:F; [discriminate|]. intros H. rewrite (IH H), andb_true_r.
  apply forallb_forall. intros b Hb. pose proof (find_none _ _ F b Hb) as Hn. simpl in Hn.
  destruct (o_core a =? o_core b); simpl in *; [reflexivity|]. rewrite Hn. reflexivity.
Qed.

(* ---- no deadlock when every core executes the same number of barriers ------------------ *)
Definition balanced (ss : streams) : Prop :=
  forall s s', In s ss -> In s' ss -> nbarriers s = nbarriers s'.

Lemma balanced_step ss m ss' m' : balanced ss -> step (ss, m) (ss', m') -> balanced ss'.
Proof.
  intros Hb Hst. inversion Hst; subst.
  - intros a b Ha Hb'.
    assert (Hfix : forall t, In t (pre ++ s :: post) ->
                   exists t0, In t0 (pre ++ (Some o :: s) :: post) /\ nbarriers t = nbarriers t0).
    { intros t Ht. apply in_app_or in Ht as [Ht|[Ht|Ht]].
      - exists t. split; [apply in_or_app; left; exact Ht | reflexivity].
      - subst t. exists (Some o :: s). split; [apply in_or_app; right; left; reflexivity | reflexivity].
      - exists t. split; [apply in_or_app; right; right; exact Ht | reflexivity]. }
    destruct (Hfix a Ha) as [a0 [Ha0 Ea]]. destruct (Hfix b Hb') as [b0 [Hb0 Eb]].
    rewrite Ea, Eb. apply Hb; assumption.
  - intros a b Ha Hb'. unfold pass_barrier in Ha, Hb'.
    apply in_map_iff in Ha as [a0 [Ea Ha0]]. apply in_map_iff in Hb' as [b0 [Eb Hb0]].
    match goal with H : all_at_barrier _ = true |- _ => unfold all_at_barrier in H; rewrite forallb_forall in H;
      pose proof (H a0 Ha0) as Aa; pose proof (H b0 Hb0) as Ab end.
    specialize (Hb a0 b0 Ha0 Hb0).
    destruct a0 as [|[?|] ?]; simpl in Aa; try discriminate.
    destruct b0 as [|[?|] ?]; simpl in Ab; try discriminate.
    subst. unfold nbarriers in *. simpl in *. lia.
Qed.

Theorem barrier_progress : forall ss m,
  balanced ss -> all_finished ss = true \/ exists c', step (ss, m) c'.
Proof.
  intros ss m Hb.
  destruct (existsb (fun s => match s with Some _ :: _ => true | _ => false end) ss) eqn:E.
  - (* some core can execute an op *)
    right. apply existsb_exists in E as [s [Hs Hh]].
    destruct s as [|[o|] r]; try discriminate.
    apply in_split in Hs as [pre [post Es]]. subst ss.
    eexists. apply step_op.
  - assert (Hall : forall s, In s ss -> s = [] \/ exists r, s = None :: r).
    { intros s Hs. destruct s as [|[o|] r]; [left; reflexivity | | right; eexists; reflexivity].
      exfalso. assert (existsb (fun s => match s with Some _ :: _ => true | _ => false end) ss = true).
      { apply existsb_exists. eexists. split; [exact Hs | reflexivity]. } congruence. }
    destruct (all_finished ss) eqn:F; [left; reflexivity|]. right.
    (* some stream is not finished, hence at a barrier, hence (balance) all are *)
    assert (Hex : exists s0, In s0 ss /\ finished s0 = false).
    { unfold all_finished in F. clear -F. induction ss as [|a t IH]; simpl in F; [discriminate|].
      destruct (finished a) eqn:Fa; simpl in F.
      - destruct (IH F) as [s0 [H1 H2]]. exists s0. split; [right; exact H1 | exact H2].
      - exists a. split; [left; reflexivity | exact Fa]. }
    destruct Hex as [s0 [Hs0 Fs0]].
    destruct (Hall s0 Hs0) as [->|[r0 ->]]; [discriminate|].
    eexists. apply step_bar.
    + intros ->. exact Hs0.
    + unfold all_at_barrier. apply forallb_forall. intros s Hs.
      destruct (Hall s Hs) as [->|[r ->]]; [|reflexivity].
      exfalso. specialize (Hb [] (None :: r0) Hs Hs0). unfold nbarriers in Hb. simpl in Hb. lia.
Qed.

(* ... and balance is an invariant, so no reachable configuration is stuck *)
Theorem no_deadlock : forall c c', steps c c' -> balanced (fst c) ->
  all_finished (fst c') = true \/ exists c'', step c' c''.
Proof.
  intros c c' H. induction H as [c|a b c Hab Hbc IH]; intros Hb.
  - destruct c as [ss m]. apply barrier_progress. exact Hb.
  - apply IH. destruct a as [ss m], b as [ss' m']. simpl in *. eapply balanced_step; eassumption.
Qed.

(* ---- reordering (Mazurkiewicz): a permutation that keeps the relative order of every
        conflicting pair computes the same memory ------------------------------------------- *)
From Coq Require Import Permutation.

Definition before {A} (l : list A) (a b : A) : Prop := exists l1 l2, l = l1 ++ a :: l2 /\ In b l2.

Lemma before_cons {A} (x : A) l a b : before l a b -> before (x :: l) a b.
Proof. intros [l1 [l2 [E H]]]. exists (x :: l1), l2. subst. split; [reflexivity | exact H]. Qed.

Lemma before_head {A} (x : A) l y : In y l -> before (x :: l) x y.
Proof. intros H. exists [], l. split; [reflexivity | exact H]. Qed.

Lemma before_insert {A} (q1 q2 : list A) x a b : before (q1 ++ q2) a b -> before (q1 ++ x :: q2) a b.
Proof.
  intros [l1 [l2 [E Hb]]]. apply app_eq_app in E as [l [[E1 E2]|[E1 E2]]].
  - (* q1 = l1 ++ l, a :: l2 = l ++ q2 *)
    destruct l as [|a' l'].
    + simpl in E2. subst. rewrite app_nil_r. exists (l1 ++ [x]), l2.
      split; [rewrite <- app_assoc; reflexivity | exact Hb].
    + inversion E2; subst. exists l1, (l' ++ x :: q2). split.
      * rewrite <- app_assoc. reflexivity.
      * apply in_app_or in Hb as [Hb|Hb]; apply in_or_app; [left | right; right]; exact Hb.
  - (* l1 = q1 ++ l, q2 = l ++ a :: l2 *)
    subst. exists (q1 ++ x :: l), l2. split; [rewrite <- app_assoc; reflexivity | exact Hb].
Qed.

Lemma before_app_inv {A} (u v : list A) a b :
  before (u ++ v) a b -> before u a b \/ (In a u /\ In b v) \/ before v a b.
Proof.
  intros [l1 [l2 [E Hb]]]. apply app_eq_app in E as [l [[E1 E2]|[E1 E2]]].
  - destruct l as [|a' l'].
    + simpl in E2. subst. right. right. exists [], l2. split; [reflexivity | exact Hb].
    + inversion E2; subst. apply in_app_or in Hb as [Hb|Hb].
      * left. exists l1, l'. split; [reflexivity | exact Hb].
      * right. left. split; [apply in_or_app; right; left; reflexivity | exact Hb].
  - subst. right. right. exists l, l2. split; [reflexivity | exact Hb].
Qed.

Lemma before_in {A} (l : list A) a b : before l a b -> In a l /\ In b l.
Proof.
  intros [l1 [l2 [E Hb]]]. subst. split; apply in_or_app; right; [left; reflexivity | right; exact Hb].
Qed.

Lemma before_flat_map_inv {A B} (f : A -> list B) l a b :
  before (flat_map f l) a b ->
  (exists x y, before l x y /\ In a (f x) /\ In b (f y)) \/ (exists x, In x l /\ before (f x) a b).
Proof.
  induction l as [|x r IH]; simpl; intros H.
  - destruct H as [l1 [l2 [E _]]]. destruct l1; discriminate.
  - apply before_app_inv in H as [H|[[Ha Hb]|H]].
    + right. exists x. split; [left; reflexivity | exact H].
    + left. apply in_flat_map in Hb as [y [Hy Hby]]. exists x, y.
      split; [apply before_head; exact Hy | split; assumption].
    + destruct (IH H) as [[x' [y' [Hb' [Ha' Hb'']]]]|[x' [Hx' Hb']]].
      * left. exists x', y'. split; [apply before_cons; exact Hb' | split; assumption].
      * right. exists x'. split; [right; exact Hx' | exact Hb'].
Qed.

Lemma before_map_inv {A B} (g : A -> B) l u v :
  before (map g l) u v -> exists x y, before l x y /\ u = g x /\ v = g y.
Proof.
  intros [l1 [l2 [E Hb]]]. apply map_eq_app in E as [m1 [m2 [E [E1 E2]]]].
  destruct m2 as [|x m2']; [discriminate|]. simpl in E2. inversion E2; subst.
  apply in_map_iff in Hb as [y [Ey Hy]]. exists x, y. split; [|split; [reflexivity | symmetry; exact Ey]].
  exists m1, m2'. split; [reflexivity | exact Hy].
Qed.

Lemma before_seq s m a b : before (seq s m) a b -> (a < b)%nat.
Proof.
  revert s. induction m as [|m IH]; intros s [l1 [l2 [E Hb]]].
  - destruct l1; discriminate.
  - simpl in E. destruct l1 as [|y l1'].
    + inversion E; subst. apply in_seq in Hb. lia.
    + injection E as E0 E1. apply (IH (S s)). exists l1', l2. split; [exact E1 | exact Hb].
Qed.

Lemma before_NoDup_neq {A} (l : list A) a b : NoDup l -> before l a b -> a <> b.
Proof.
  intros Hn [l1 [l2 [E Hb]]] <-. subst. apply NoDup_remove_2 in Hn. apply Hn. apply in_or_app. right. exact Hb.
Qed.

Lemma NoDup_split_unique {A} (b : A) : forall x1 y1 x2 y2,
  NoDup (x1 ++ b :: y1) -> x1 ++ b :: y1 = x2 ++ b :: y2 -> x1 = x2 /\ y1 = y2.
Proof.
  induction x1 as [|c x1 IH]; intros y1 x2 y2 Hn E; destruct x2 as [|d x2]; simpl in *.
  - inversion E. split; reflexivity.
  - inversion E; subst. inversion Hn; subst. exfalso. apply H1. apply in_or_app. right. left. reflexivity.
  - inversion E; subst. inversion Hn; subst. exfalso. apply H1. apply in_or_app. right. left. reflexivity.
  - inversion E; subst. inversion Hn; subst. destruct (IH y1 x2 y2 H3 H1) as [-> ->]. split; reflexivity.
Qed.

Lemma before_antisym {A} (l : list A) a b : NoDup l -> before l a b -> before l b a -> False.
Proof.
  intros Hn [l1 [l2 [E Hb]]] [m1 [m2 [E' Ha]]].
  apply in_split in Hb as [u [v ->]].
  assert (E2 : (l1 ++ a :: u) ++ b :: v = m1 ++ b :: m2).
  { rewrite <- app_assoc. simpl. rewrite <- E. exact E'. }
  assert (Hn2 : NoDup ((l1 ++ a :: u) ++ b :: v)).
  { rewrite <- app_assoc. simpl. rewrite <- E. exact Hn. }
  destruct (NoDup_split_unique b _ _ _ _ Hn2 E2) as [_ <-].
  subst l. apply NoDup_remove_2 in Hn. apply Hn.
  apply in_or_app. right. apply in_or_app. right. right. exact Ha.
Qed.

Theorem reorder_equiv : forall p q m, NoDup p -> Permutation p q ->
  (forall a b, before p a b -> before q b a -> conflictb a b = false) ->
  meq (exec q m) (exec p m).
Proof.
  induction p as [|x p' IH]; intros q m Hn Hp Hc.
  - apply Permutation_nil in Hp. subst. apply meq_refl.
  - assert (Hx : In x q) by (eapply Permutation_in; [exact Hp | left; reflexivity]).
    apply in_split in Hx as [q1 [q2 Eq]]. subst q.
    assert (Hnq : NoDup (q1 ++ x :: q2)) by (eapply Permutation_NoDup; eassumption).
    assert (Hp' : Permutation p' (q1 ++ q2)) by (eapply Permutation_cons_app_inv; exact Hp).
    assert (Hq1 : forall y, In y q1 -> conflictb x y = false).
    { intros y Hy. apply Hc.
      - apply before_head. apply (Permutation_in y (Permutation_sym Hp')). apply in_or_app. left. exact Hy.
      - apply in_split in Hy as [a [b ->]]. exists a, (b ++ x :: q2).
        split; [rewrite <- app_assoc; reflexivity | apply in_or_app; right; left; reflexivity]. }
    replace (q1 ++ x :: q2) with ((q1 ++ [x]) ++ q2) by (rewrite <- app_assoc; reflexivity).
    rewrite exec_app. eapply meq_trans.
    { apply exec_meq. apply exec_commute_list. exact Hq1. }
    change (exec (x :: p') m) with (exec p' (exec_op x m)).
    change (exec (x :: q1) m) with (exec q1 (exec_op x m)).
    rewrite <- exec_app. apply IH.
    + inversion Hn; assumption.
    + exact Hp'.
    + intros a b Hab Hba. apply Hc; [apply before_cons; exact Hab | apply before_insert; exact Hba].
Qed.

Lemma phase_drfb_intro p :
  (forall a b, before p a b -> o_core a <> o_core b -> conflictb a b = false) -> phase_drfb p = true.
Proof.
  induction p as [|x r IH]; intros H; simpl; [reflexivity|]. apply andb_true_iff. split.
  - apply forallb_forall. intros b Hb. destruct (o_core x =? o_core b) eqn:E; [reflexivity|].
    apply Z.eqb_neq in E. simpl. rewrite (H x b (before_head x r b Hb) E). reflexivity.
  - apply IH. intros a b Hab. apply H. apply before_cons. exact Hab.
Qed.
