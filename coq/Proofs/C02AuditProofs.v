(* C02 (audit) — inside the Safe class the conversion never refuses: `convert_okb` mirrors every error
   branch of the converter, so a Safe operand always gets a stride pattern (and, by pattern_bytes_eq, the
   right one).  A loud rejection of a Safe operand by the real code is therefore a disagreement with the model. *)
From Snax Require Import Base.Prelude Base.ListAux Model.C02Stream.

Lemma fill_okb_converts bcast : forall spats cur rest ss,
  fill_okb spats cur rest = true -> exists r, fill_spatial bcast spats cur rest ss = Ok r.
Proof.
  induction spats as [|sp spats IH]; intros cur rest ss H; cbn [fill_spatial fill_okb] in *.
  - eexists. reflexivity.
  - destruct cur as [[s b]|]; [|discriminate].
    destruct (b =? sp) eqn:Eb.
    + destruct (pop_opt rest) as [c r] eqn:Ep. apply andb_true_iff in H as [_ H]. apply IH. exact H.
    + destruct (b <? sp) eqn:El; [|discriminate].
      destruct rest as [|[ns nb] r]; [discriminate|].
      apply andb_true_iff in H as [H Hrec]. apply andb_true_iff in H as [H _]. apply andb_true_iff in H as [H _].
      apply andb_true_iff in H as [H Hns]. apply andb_true_iff in H as [Hb Hmod].
      apply Z.ltb_lt in Hb. apply Z.eqb_eq in Hns.
      replace (b =? 0) with false by (symmetry; apply Z.eqb_neq; lia).
      rewrite Hmod. cbn [negb]. rewrite Hns, Z.eqb_refl. cbn [negb]. apply IH. rewrite <- Hns. exact Hrec.
Qed.

Theorem safe_converts elsize bcast spats dims :
  convert_okb elsize spats dims = true -> exists p, to_pattern bcast spats dims = Ok p.
Proof.
  unfold convert_okb, to_pattern. intros H. apply andb_true_iff in H as [_ H].
  destruct (first_dim dims) as [[d rest]|]; [|discriminate].
  destruct (fill_okb_converts bcast spats (Some d) rest [] H) as [[[ss cur] rest'] E]. rewrite E. eexists. reflexivity.
Qed.

(* ---- end to end: layout resolution + conversion + canonicalize, absolute bytes ------------------------ *)
From Snax Require Import Proofs.C02StreamProofs Proofs.C02XdmaProofs Proofs.C02LinearProofs Model.C02GenCanon
  Proofs.C02GenCanonProofs Model.C02Check.
From Snax Require Model.Tsl Proofs.TslProofs.

(* the loop nest of (coefficient, bound) pairs, LAST iteration dim innermost, enumerates c . x over the box in
   schedule (row-major) order *)
Lemma nest_rev_row_major : forall bounds c, List.length c = List.length bounds ->
  nest (rev (combine c bounds)) = map (dot c) (Tsl.row_major bounds).
Proof.
  induction bounds as [|b bs IH]; intros [|c0 cs] Hl; try discriminate Hl.
  - reflexivity.
  - cbn [combine rev Tsl.row_major]. rewrite nest_app_shift. rewrite IH by (simpl in Hl; lia).
    cbn [nest flat_map]. rewrite app_nil_r. rewrite flat_map_map, map_flat_map.
    apply flat_map_ext. intros i. rewrite !map_map. apply map_ext. intros x. rewrite dot_cons. lia.
Qed.

(* what layout resolution hands to the converter — (stride_i, bound_i), last dim innermost — is the address
   sequence of the scheduled elements relative to the constant term, in schedule order *)
Theorem resolve_nest f bounds : linear_on_box f bounds ->
  nest (rev (combine (resolve f (List.length bounds)) bounds))
  = map (fun x => f x - resolve_base f (List.length bounds)) (Tsl.row_major bounds).
Proof.
  intros Hl. rewrite nest_rev_row_major by apply resolve_length.
  apply map_ext_in. intros x Hx. apply TslProofs.in_row_major in Hx. apply in_box_Forall2 in Hx.
  unfold resolve_base. exact (resolve_linear f bounds Hl x Hx).
Qed.

Lemma byte_stream_shift w k l : byte_stream w (map (fun a => k + a) l) = map (fun a => k + a) (byte_stream w l).
Proof.
  unfold byte_stream, bytes_at. rewrite flat_map_map, map_flat_map. apply flat_map_ext. intros a.
  rewrite map_map. apply map_ext. intros j. lia.
Qed.

(* Every operand all of whose iteration dims are relevant (snax_alu, xDMA; gemmx operands drop the template
   dims they do not depend on): base pointer constant + final stride pattern stream, byte for byte and in
   schedule order, the elements layout(schedule(x)) for x over the iteration box. *)
Theorem end_to_end_bytes f bounds elsize bcast spats p q :
  let n := List.length bounds in
  let dims := rev (combine (resolve f n) bounds) in
  linear_on_box f bounds ->
  convert_okb elsize spats dims = true -> to_pattern bcast spats dims = Ok p -> gen_canonicalize p = Some q ->
  byte_stream TCDM (map (fun w => resolve_base f n + w) (pattern_words q spats))
  = byte_stream elsize (map f (Tsl.row_major bounds)).
Proof.
  intros n dims Hl Hok Hp Hq.
  rewrite byte_stream_shift. rewrite (gen_final_pattern_bytes_eq elsize bcast spats dims p q Hok Hp Hq).
  unfold dims, n. rewrite (resolve_nest f bounds Hl). rewrite <- byte_stream_shift. rewrite map_map.
  f_equal. apply map_ext. intros x. lia.
Qed.

(* the relevance mask with every dim relevant is exactly that list *)
Lemma relevant_dims_all strides bounds : List.length strides = List.length bounds ->
  relevant_dims strides bounds (repeat true (List.length bounds)) = rev (combine strides bounds).
Proof.
  intros Hl. unfold relevant_dims. f_equal.
  assert (H : forall (l : list (Z * Z)), map fst (filter snd (combine l (repeat true (List.length l)))) = l).
  { induction l as [|a l IH]; [reflexivity|]. cbn [List.length repeat combine filter snd map fst]. rewrite IH. reflexivity. }
  rewrite <- (H (combine strides bounds)) at 2. rewrite combine_length. rewrite Hl, Nat.min_id. reflexivity.
Qed.
