(* C06 — the block rule on ARBITRARY programs: applying the plan of Model/C06BlockSide.v (dependency closure +
   setup moved directly behind the previous launch, across whatever sits in between) preserves, under the
   decidable side condition [block_side_ok], the full simulation relation — same launches / awaits / calls in the
   same order, every launch observing the same registers — in every program context. *)
From Snax Require Import Base.Prelude Model.AccIR Model.AccSem Model.AccWeave Model.AccRules
  Proofs.AccSemProofs Proofs.AccRenameProofs Proofs.AccRulesProofs.
From Snax Require Import Model.C06Overlap Model.C06BlockSide Proofs.C06SimProofs.

(* ---- the full relation (nothing excluded) -------------------------------------------------------------- *)
Definition Eq0 (a : acc) (m1 m2 : mstate) : Prop := Rel [] a [] m1 m2.

Lemma off_nil v : off [] v.
Proof. intros []. Qed.
Lemma Forall_off_nil l : Forall (off []) l.
Proof. induction l; constructor; [apply off_nil|assumption]. Qed.
Lemma Forall_bind_nil (l : list (val * val)) : Forall (fun ky => bind_ok [] (fst ky) (snd ky)) l.
Proof. induction l; constructor; [left; apply off_nil|assumption]. Qed.

Lemma reads_off_nil : forall s, reads_off [] s.
Proof.
  apply (stmt_ind2 (fun s => reads_off [] s) (fun b => block_reads_off [] b)).
  - intros; cbn; apply Forall_off_nil.
  - intros; cbn; apply Forall_off_nil.
  - intros; cbn; apply Forall_off_nil.
  - intros; cbn; apply Forall_off_nil.
  - intros; constructor.
  - intros; constructor.
  - intros iv lb ub sp its rs body ys Hb. rewrite reads_off_for.
    repeat split; try apply off_nil; try apply Forall_bind_nil; [|exact Hb].
    induction its; constructor; [left; apply off_nil|assumption].
  - intros c rs th thy el ely Ht He. rewrite reads_off_if.
    repeat split; try apply off_nil; try apply Forall_bind_nil; assumption.
  - constructor.
  - intros s b Hs Hb. split; assumption.
Qed.

Lemma block_reads_off_nil : forall b, block_reads_off [] b.
Proof. induction b as [|s b IH]; [constructor|split; [apply reads_off_nil|exact IH]]. Qed.

Lemma ev_rel_refl e : ev_rel e e.
Proof. destruct e; cbn; repeat split; auto. Qed.

Lemma ev_rel_trans e1 e2 e3 : ev_rel e1 e2 -> ev_rel e2 e3 -> ev_rel e1 e3.
Proof.
  destruct e1, e2, e3; cbn; try tauto.
  - intros (H1 & H2 & H3 & H4) (H5 & H6 & H7 & H8). repeat split; try congruence.
    + intros f Hf. rewrite (H3 f Hf). apply H7. apply H4. exact Hf.
    + intros f Hf. apply H8. apply H4. exact Hf.
  - congruence.
  - intros (H1 & H2 & H3) (H5 & H6 & H7). repeat split; congruence.
  - congruence.
Qed.

Lemma Eq0_refl a m : Eq0 a m m.
Proof.
  unfold Eq0, Rel. repeat split; auto.
  induction (tr m); constructor; [apply ev_rel_refl|assumption].
Qed.

Lemma Forall2_ev_trans l1 : forall l2 l3, Forall2 ev_rel l1 l2 -> Forall2 ev_rel l2 l3 -> Forall2 ev_rel l1 l3.
Proof.
  induction l1 as [|e l1 IH]; intros l2 l3 H1 H2; inversion H1; subst; inversion H2; subst; constructor.
  - eapply ev_rel_trans; eassumption.
  - eapply IH; eassumption.
Qed.

Lemma Eq0_trans a m1 m2 m3 : Eq0 a m1 m2 -> Eq0 a m2 m3 -> Eq0 a m1 m3.
Proof.
  intros (He1 & Hr1 & Hk1 & Hn1 & Ht1) (He2 & Hr2 & Hk2 & Hn2 & Ht2). unfold Eq0, Rel. repeat split.
  - intros v Hv. rewrite (He1 v Hv). apply He2. exact Hv.
  - intros b f Hne. rewrite (Hr1 b f Hne). apply Hr2. exact Hne.
  - intros b f Hf. apply Hk2. apply Hk1. exact Hf.
  - congruence.
  - eapply Forall2_ev_trans; eassumption.
Qed.

Section Gen.
Variable orc : oracle.
Variable a : acc.

Lemma Eq0_block b m1 m2 : Eq0 a m1 m2 -> Eq0 a (exec_block orc b m1) (exec_block orc b m2).
Proof. apply (exec_rel_block orc [] a [] b (block_reads_off_nil b)). left. reflexivity. Qed.
Lemma Eq0_stmt s m1 m2 : Eq0 a m1 m2 -> Eq0 a (exec_stmt orc s m1) (exec_stmt orc s m2).
Proof. apply (exec_rel_stmt orc [] a [] s (reads_off_nil s)). left. reflexivity. Qed.

(* ---- quiet statements ------------------------------------------------------------------------------------- *)
Lemma quiet_no_launch : forall s, quiet a s = true -> stmt_launches a s = false.
Proof.
  apply (stmt_ind2 (fun s => quiet a s = true -> stmt_launches a s = false)
                   (fun b => quiet_block a b = true -> block_launches a b = false)); try (intros; reflexivity).
  - intros a' k st fs H. cbn in *. apply negb_true_iff in H. exact H.
  - intros iv lb ub sp its rs body ys IH H. rewrite quiet_for in H. rewrite stmt_launches_for. apply IH. exact H.
  - intros c rs th thy el ely IHt IHe H. rewrite quiet_if in H. apply andb_true_iff in H as [H1 H2].
    rewrite stmt_launches_if, (IHt H1), (IHe H2). reflexivity.
  - intros s b Hs Hb H. cbn [quiet_block] in H. apply andb_true_iff in H as [H1 H2].
    cbn [block_launches]. rewrite (Hs H1), (Hb H2). reflexivity.
Qed.

Lemma quiet_known_block : forall b, quiet_block a b = true -> forall m, known (exec_block orc b m) a = known m a.
Proof.
  apply (block_ind2 (fun s => quiet a s = true -> forall m, known (exec_stmt orc s m) a = known m a)
                    (fun b => quiet_block a b = true -> forall m, known (exec_block orc b m) a = known m a)).
  - intros d e _ m. reflexivity.
  - intros g ef pu ds ar Hq m. cbn in Hq. apply negb_true_iff in Hq. subst ef. reflexivity.
  - intros a' o i fs Hq m. cbn in Hq. apply negb_true_iff in Hq. apply Nat.eqb_neq in Hq.
    cbn. rewrite upd_other by congruence. reflexivity.
  - intros; reflexivity.
  - intros; reflexivity.
  - intros; reflexivity.
  - intros iv lb ub sp its rs body ys IH Hq m. rewrite quiet_for in Hq. rewrite exec_stmt_for. unfold exec_for. cbn.
    set (step := for_step (exec_block orc body) iv (map it_arg its) ys (env m lb) (env m sp)).
    set (m0 := set_env m (bind_list (map it_arg its) (map (fun x => env m (it_init x)) its) (env m))).
    assert (Hl : forall k, known (iter_n k step m0) a = known m a).
    { induction k as [|k IHk]; [reflexivity|]. cbn [iter_n]. unfold step at 1, for_step. cbn.
      rewrite (IH Hq). cbn. exact IHk. }
    apply Hl.
  - intros c rs th thy el ely IHt IHe Hq m. rewrite quiet_if in Hq. apply andb_true_iff in Hq.
    rewrite exec_stmt_if. unfold exec_if. destruct (env m c =? 0); cbn; [apply (IHe (proj2 Hq))|apply (IHt (proj1 Hq))].
  - intros _ m. reflexivity.
  - intros s b Hs Hb Hq m. cbn [quiet_block] in Hq. apply andb_true_iff in Hq. cbn [exec_block].
    rewrite (Hb (proj2 Hq)). apply (Hs (proj1 Hq)).
Qed.

Lemma quiet_regs_stmt s : quiet a s = true -> forall m f, regs (exec_stmt orc s m) a f = regs m a f.
Proof.
  intros H m f. change (exec_stmt orc s m) with (exec_block orc [s] m).
  apply quiet_regs_block. cbn. rewrite H. reflexivity.
Qed.
Lemma quiet_known_stmt s : quiet a s = true -> forall m, known (exec_stmt orc s m) a = known m a.
Proof.
  intros H m. change (exec_stmt orc s m) with (exec_block orc [s] m).
  apply quiet_known_block. cbn. rewrite H. reflexivity.
Qed.
Lemma env_frame_stmt s m x : ~ In x (stmt_binds s) -> env (exec_stmt orc s m) x = env m x.
Proof.
  intros H. change (exec_stmt orc s m) with (exec_block orc [s] m). apply env_frame_block.
  unfold block_binds. cbn. rewrite app_nil_r. exact H.
Qed.
End Gen.

(* ---- the boolean side conditions ------------------------------------------------------------------------------ *)
Lemma noneb_off xs F : noneb xs F = true -> Forall (off F) xs.
Proof.
  unfold noneb. induction xs as [|x xs IH]; cbn [forallb]; intros H; constructor.
  - apply andb_true_iff in H as [H1 _]. apply negb_true_iff in H1. apply mem_nat_false. exact H1.
  - apply IH. apply andb_true_iff in H as [_ H2]. exact H2.
Qed.

Lemma bind_okb_ok F k src : bind_okb F k src = true -> bind_ok F k src.
Proof.
  unfold bind_okb, bind_ok. intros H. apply orb_true_iff in H as [H|H].
  - left. apply negb_true_iff in H. apply mem_nat_false. exact H.
  - right. apply mem_nat_In. exact H.
Qed.

Lemma forallb_bind_ok F (l : list (val * val)) :
  forallb (fun ky => bind_okb F (fst ky) (snd ky)) l = true -> Forall (fun ky => bind_ok F (fst ky) (snd ky)) l.
Proof.
  induction l as [|x l IH]; cbn [forallb]; intros H; constructor.
  - apply andb_true_iff in H as [H1 _]. apply bind_okb_ok. exact H1.
  - apply IH. apply andb_true_iff in H as [_ H2]. exact H2.
Qed.

Section Offb.
Variable F : list val.
Fixpoint block_reads_offb (b : block) : bool :=
  match b with [] => true | x :: b' => reads_offb F x && block_reads_offb b' end.
End Offb.

Lemma reads_offb_for F iv lb ub sp iters rs body ys :
  reads_offb F (SFor iv lb ub sp iters rs body ys) =
  (negb (mem_nat lb F) && negb (mem_nat ub F) && negb (mem_nat sp F)
   && forallb (fun it => bind_okb F (it_arg it) (it_init it)) iters
   && forallb (fun ky => bind_okb F (fst ky) (snd ky)) (combine (map it_arg iters) ys)
   && forallb (fun ka => bind_okb F (fst ka) (snd ka)) (combine rs (map it_arg iters))
   && block_reads_offb F body).
Proof. reflexivity. Qed.
Lemma reads_offb_if F c rs th thy el ely :
  reads_offb F (SIf c rs th thy el ely) =
  (negb (mem_nat c F)
   && forallb (fun ky => bind_okb F (fst ky) (snd ky)) (combine (map fst rs) thy)
   && forallb (fun ky => bind_okb F (fst ky) (snd ky)) (combine (map fst rs) ely)
   && block_reads_offb F th && block_reads_offb F el).
Proof. reflexivity. Qed.

Lemma negb_mem_off F v : negb (mem_nat v F) = true -> off F v.
Proof. intros H. apply negb_true_iff in H. apply mem_nat_false. exact H. Qed.

Lemma reads_offb_sound F : forall s, reads_offb F s = true -> reads_off F s.
Proof.
  apply (stmt_ind2 (fun s => reads_offb F s = true -> reads_off F s)
                   (fun b => block_reads_offb F b = true -> block_reads_off F b)).
  - intros d e H. cbn in *. apply noneb_off. exact H.
  - intros g ef pu ds ar H. cbn in *. apply noneb_off. exact H.
  - intros a o i fs H. cbn in *. apply noneb_off. exact H.
  - intros a k st fs H. cbn in *. apply noneb_off. exact H.
  - intros; constructor.
  - intros; constructor.
  - intros iv lb ub sp its rs body ys IH H. rewrite reads_offb_for in H. rewrite reads_off_for.
    apply andb_true_iff in H as [H H7]. apply andb_true_iff in H as [H H6]. apply andb_true_iff in H as [H H5].
    apply andb_true_iff in H as [H H4]. apply andb_true_iff in H as [H H3]. apply andb_true_iff in H as [H1 H2].
    split; [apply negb_mem_off; exact H1|]. split; [apply negb_mem_off; exact H2|].
    split; [apply negb_mem_off; exact H3|]. split.
    { clear - H4. induction its as [|x its IHi]; cbn [forallb] in H4; constructor.
      - apply andb_true_iff in H4 as [Ha _]. apply bind_okb_ok. exact Ha.
      - apply IHi. apply andb_true_iff in H4 as [_ Hb]. exact Hb. }
    split; [apply forallb_bind_ok; exact H5|]. split; [apply forallb_bind_ok; exact H6|apply IH; exact H7].
  - intros c rs th thy el ely IHt IHe H. rewrite reads_offb_if in H. rewrite reads_off_if.
    apply andb_true_iff in H as [H H5]. apply andb_true_iff in H as [H H4]. apply andb_true_iff in H as [H H3].
    apply andb_true_iff in H as [H1 H2].
    split; [apply negb_mem_off; exact H1|]. split; [apply forallb_bind_ok; exact H2|].
    split; [apply forallb_bind_ok; exact H3|]. split; [apply IHt; exact H4|apply IHe; exact H5].
  - intros; constructor.
  - intros s b Hs Hb H. cbn [block_reads_offb] in H. apply andb_true_iff in H as [H1 H2].
    split; [apply Hs|apply Hb]; assumption.
Qed.

Lemma noneb_notin xs ds : noneb xs ds = true -> forall v, In v xs -> ~ In v ds.
Proof.
  unfold noneb. rewrite forallb_forall. intros H v Hv. specialize (H v Hv).
  apply negb_true_iff in H. apply mem_nat_false. exact H.
Qed.

Section Swap.
Variable orc : oracle.
Variable a : acc.

Lemma In_add_known fs : forall k f, In f k -> In f (add_known fs k).
Proof.
  induction fs as [|x fs IH]; intros k f H; cbn [add_known]; [exact H|].
  apply IH. destruct (mem_nat x k); [exact H|right; exact H].
Qed.

(* an arith op jumps over y *)
Lemma swap_pure d e y m m' :
  reads_off [d] y -> ~ In d (stmt_binds y) -> (forall v, In v (pexp_vals e) -> ~ In v (stmt_binds y)) ->
  Eq0 a m m' ->
  Eq0 a (exec_stmt orc (SPure d e) (exec_stmt orc y m)) (exec_stmt orc y (exec_stmt orc (SPure d e) m')).
Proof.
  intros Hro Hd He HR.
  assert (H1 : Rel [d] a [] m (exec_stmt orc (SPure d e) m')).
  { destruct HR as (Hen & Hr & Hk & Hn & Ht). cbn [exec_stmt]. unfold Rel, set_env. cbn [env regs known ncalls tr].
    repeat split; try assumption.
    intros v Hv. unfold upd. destruct (Nat.eqb v d) eqn:E.
    - apply Nat.eqb_eq in E. subst v. exfalso. apply Hv. left. reflexivity.
    - apply Hen. apply off_nil. }
  pose proof (exec_rel_stmt orc [d] a [] y Hro (or_introl eq_refl) _ _ H1) as (Hen2 & Hr2 & Hk2 & Hn2 & Ht2).
  cbn [exec_stmt] in *. unfold Eq0, Rel, set_env. cbn [env regs known ncalls tr]. repeat split; try assumption.
  intros v _. unfold upd at 1. destruct (Nat.eqb v d) eqn:E.
  - apply Nat.eqb_eq in E. subst v.
    rewrite (env_frame_stmt orc y _ d Hd). cbn [env]. rewrite upd_same.
    assert (Hev : forall w, In w (pexp_vals e) -> env (exec_stmt orc y m) w = env m' w).
    { intros w Hw. rewrite (env_frame_stmt orc y m w (He w Hw)). apply HR. apply off_nil. }
    destruct e as [z|x|o x1 x2|c x1 x2|c x1 x2]; cbn [eval_pexp pexp_vals] in *.
    + reflexivity.
    + apply Hev. left; reflexivity.
    + rewrite (Hev x1), (Hev x2); try reflexivity; cbn; auto.
    + rewrite (Hev x1), (Hev x2); try reflexivity; cbn; auto.
    + rewrite (Hev c), (Hev x1), (Hev x2); try reflexivity; cbn; auto.
  - apply Hen2. intros [Hin|[]]. subst v. rewrite Nat.eqb_refl in E. discriminate.
Qed.

(* the setup jumps over a statement that is quiet for its accelerator *)
Lemma swap_setup o i fs y m m' :
  quiet a y = true -> (forall v, In v (map snd fs) -> ~ In v (stmt_binds y)) ->
  Eq0 a m m' ->
  Eq0 a (exec_stmt orc (SSetup a o i fs) (exec_stmt orc y m)) (exec_stmt orc y (exec_stmt orc (SSetup a o i fs) m')).
Proof.
  intros Hq Hv HR.
  assert (H1 : Rel [] a (map fst fs) m (exec_stmt orc (SSetup a o i fs) m')).
  { destruct HR as (Hen & Hr & Hk & Hn & Ht). cbn [exec_stmt]. unfold Rel, exec_setup. cbn [env regs known ncalls tr].
    repeat split; try assumption.
    - intros b f Hne. unfold upd. destruct (Nat.eqb b a) eqn:E.
      + apply Nat.eqb_eq in E. subst b. rewrite write_fields_spec.
        destruct (last_binding f fs) as [w|] eqn:El.
        * exfalso. apply Hne. split; [reflexivity|].
          apply last_binding_In2 in El. apply in_map_iff. exists (f, w). split; [reflexivity|exact El].
        * apply Hr. intros [_ []].
      + apply Hr. intros [_ []].
    - intros b f Hf. unfold upd. destruct (Nat.eqb b a) eqn:E; [|apply Hk; exact Hf].
      apply Nat.eqb_eq in E. subst b. apply In_add_known. apply Hk. exact Hf. }
  pose proof (exec_rel_stmt orc [] a (map fst fs) y (reads_off_nil y) (or_intror (quiet_no_launch a y Hq)) _ _ H1)
    as (Hen2 & Hr2 & Hk2 & Hn2 & Ht2).
  set (m1 := exec_stmt orc y m) in *. set (m2 := exec_stmt orc y (exec_stmt orc (SSetup a o i fs) m')) in *.
  cbn [exec_stmt]. unfold Eq0, Rel, exec_setup. cbn [env regs known ncalls tr]. repeat split; try assumption.
  - intros b f _. unfold upd. destruct (Nat.eqb b a) eqn:E.
    + apply Nat.eqb_eq in E. subst b.
      unfold m2. rewrite (quiet_regs_stmt orc a y Hq). cbn [exec_stmt exec_setup regs]. rewrite upd_same.
      rewrite !write_fields_spec. destruct (last_binding f fs) as [w|] eqn:El.
      * assert (Hw : In w (map snd fs)).
        { apply last_binding_In2 in El. apply in_map_iff. exists (f, w). split; [reflexivity|exact El]. }
        unfold m1. rewrite (env_frame_stmt orc y m w (Hv w Hw)). apply HR. apply off_nil.
      * unfold m1. rewrite (quiet_regs_stmt orc a y Hq). apply HR. intros [_ []].
    + apply Hr2. intros [Hb _]. subst b. rewrite Nat.eqb_refl in E. discriminate.
  - intros b f Hf. unfold upd in Hf. destruct (Nat.eqb b a) eqn:E; [|apply Hk2; exact Hf].
    apply Nat.eqb_eq in E. subst b. unfold m2. rewrite (quiet_known_stmt orc a y Hq).
    cbn [exec_stmt exec_setup known]. rewrite upd_same.
    unfold m1 in Hf. rewrite (quiet_known_stmt orc a y Hq) in Hf.
    apply (add_known_mono (map fst fs) (known m a)); [|exact Hf]. apply HR.
Qed.

Lemma swap_one x y m m' : swap_okb a x y = true -> Eq0 a m m' ->
  Eq0 a (exec_stmt orc x (exec_stmt orc y m)) (exec_stmt orc y (exec_stmt orc x m')).
Proof.
  intros H HR. destruct x as [d e| |a' o i fs| | | | |]; try discriminate; cbn [swap_okb] in H.
  - apply andb_true_iff in H as [H _]. apply andb_true_iff in H as [H H3]. apply andb_true_iff in H as [H1 H2].
    apply swap_pure; [apply reads_offb_sound; exact H1|apply negb_mem_off; exact H2|apply noneb_notin; exact H3|exact HR].
  - apply andb_true_iff in H as [H _]. apply andb_true_iff in H as [H H3]. apply andb_true_iff in H as [H1 H2]. apply Nat.eqb_eq in H1. subst a'.
    apply swap_setup; [exact H2|apply noneb_notin; exact H3|exact HR].
Qed.

(* a list of moved ops jumps over y *)
Lemma swap_list : forall xs y m m', forallb (fun x => swap_okb a x y) xs = true -> Eq0 a m m' ->
  Eq0 a (exec_block orc xs (exec_stmt orc y m)) (exec_stmt orc y (exec_block orc xs m')).
Proof.
  induction xs as [|x xs IH]; intros y m m' H HR; cbn [exec_block].
  - apply Eq0_stmt. exact HR.
  - cbn [forallb] in H. apply andb_true_iff in H as [H1 H2].
    pose proof (swap_one x y m m' H1 HR) as Hs.
    apply (Eq0_trans a _ (exec_block orc xs (exec_stmt orc y (exec_stmt orc x m')))).
    + apply Eq0_block. exact Hs.
    + apply IH; [exact H2|apply Eq0_refl].
Qed.

(* stable partition: all moved ops first *)
Theorem part_sim : forall l m m', part_okb a l = true -> Eq0 a m m' ->
  Eq0 a (exec_block orc (map snd l) m) (exec_block orc (sel_part l ++ uns_part l) m').
Proof.
  induction l as [|[t s] l IH]; intros m m' H HR; [exact HR|].
  cbn [part_okb] in H. destruct t; apply andb_true_iff in H as [H1 H2].
  - unfold sel_part, uns_part. cbn [map snd filter fst negb app exec_block].
    apply IH; [exact H2|apply Eq0_stmt; exact HR].
  - unfold sel_part, uns_part. cbn [map snd filter fst negb exec_block]. fold (sel_part l) (uns_part l).
    rewrite exec_block_app. cbn [exec_block]. 
    apply (Eq0_trans a _ (exec_block orc (sel_part l ++ uns_part l) (exec_stmt orc s m'))).
    + apply IH; [exact H2|apply Eq0_stmt; exact HR].
    + rewrite exec_block_app. apply Eq0_block. apply swap_list; [exact H1|apply Eq0_refl].
Qed.
End Swap.

(* ---- the plan's output is the stable partition of the tail ------------------------------------------------------ *)
Lemma nth_stmts_app b l1 l2 : nth_stmts b (l1 ++ l2) = nth_stmts b l1 ++ nth_stmts b l2.
Proof. unfold nth_stmts. apply flat_map_app. Qed.

Lemma nth_stmts_tail (P : nat -> bool) (g : bool -> bool) : forall t pre,
  nth_stmts (pre ++ t) (filter (fun i => g (P i)) (seq (List.length pre) (List.length t)))
  = map snd (filter (fun x : bool * stmt => g (fst x)) (combine (map P (seq (List.length pre) (List.length t))) t)).
Proof.
  induction t as [|x t IH]; intros pre; [reflexivity|].
  cbn [List.length seq map combine filter fst].
  replace (pre ++ x :: t) with ((pre ++ [x]) ++ t) by (rewrite <- app_assoc; reflexivity).
  specialize (IH (pre ++ [x])). rewrite app_length in IH. cbn [List.length] in IH.
  replace (List.length pre + 1)%nat with (S (List.length pre)) in IH by lia.
  destruct (g (P (List.length pre))) eqn:E.
  - cbn [nth_stmts flat_map map snd]. fold (nth_stmts ((pre ++ [x]) ++ t)).
    rewrite <- app_assoc. cbn [app]. rewrite nth_error_app2 by lia. rewrite Nat.sub_diag. cbn [nth_error app].
    f_equal. rewrite <- IH. rewrite <- app_assoc. reflexivity.
  - exact IH.
Qed.

Lemma map_snd_combine {A B} : forall (l1 : list A) (l2 : list B), List.length l1 = List.length l2 -> map snd (combine l1 l2) = l2.
Proof.
  induction l1 as [|x l1 IH]; intros [|y l2] H; cbn in *; try reflexivity; try discriminate.
  f_equal. apply IH. lia.
Qed.

Lemma apply_plan_partition b ip moved :
  (ip <= List.length b)%nat ->
  moved = filter (fun i => mem_nat i moved) (seq ip (List.length b - ip)) ->
  b = firstn ip b ++ map snd (tag_tail b ip moved)
  /\ apply_plan b ip moved = firstn ip b ++ sel_part (tag_tail b ip moved) ++ uns_part (tag_tail b ip moved).
Proof.
  intros Hip Hm.
  assert (Hl : List.length (firstn ip b) = ip) by (rewrite firstn_length; lia).
  assert (Hs : List.length (skipn ip b) = (List.length b - ip)%nat) by (rewrite skipn_length; reflexivity).
  split.
  - unfold tag_tail. rewrite map_snd_combine; [symmetry; apply firstn_skipn|].
    rewrite map_length, seq_length. symmetry. exact Hs.
  - unfold apply_plan, sel_part, uns_part, tag_tail. f_equal.
    pose proof (nth_stmts_tail (fun i => mem_nat i moved) (fun x => x) (skipn ip b) (firstn ip b)) as H1.
    pose proof (nth_stmts_tail (fun i => mem_nat i moved) negb (skipn ip b) (firstn ip b)) as H2.
    rewrite firstn_skipn, Hl, Hs in H1, H2. rewrite <- Hm in H1. rewrite H1, H2. reflexivity.
Qed.

Section Local.
Variable orc : oracle.
Variable a : acc.

Theorem block_plan_local b ip moved m m' :
  block_side_ok a b ip moved = true -> Eq0 a m m' ->
  Eq0 a (exec_block orc b m) (exec_block orc (apply_plan b ip moved) m').
Proof.
  unfold block_side_ok. intros H HR.
  apply andb_true_iff in H as [H H3]. apply andb_true_iff in H as [H1 H2].
  apply Nat.leb_le in H1. apply (list_eqb_eq Nat.eqb Nat.eqb_eq) in H2.
  destruct (apply_plan_partition b ip moved H1 H2) as [Hb Hp].
  rewrite Hp. rewrite Hb at 1.
  rewrite (exec_block_app orc (firstn ip b) (map snd (tag_tail b ip moved))).
  rewrite (exec_block_app orc (firstn ip b) (sel_part (tag_tail b ip moved) ++ uns_part (tag_tail b ip moved))).
  apply (part_sim orc a); [exact H3|]. apply Eq0_block. exact HR.
Qed.
End Local.

(* ---- any context ---------------------------------------------------------------------------------------------------- *)
Section Ctx.
Variable orc : oracle.
Variable a : acc.
Variable f : block -> option block.
Definition bsim (b b' : block) : Prop := forall m m', Eq0 a m m' -> Eq0 a (exec_block orc b m) (exec_block orc b' m').
Definition ssim (s s' : stmt) : Prop := forall m m', Eq0 a m m' -> Eq0 a (exec_stmt orc s m) (exec_stmt orc s' m').

Lemma bsim_refl b : bsim b b.
Proof. intros m m' H. apply Eq0_block. exact H. Qed.

Lemma rw_stmt_for iv lb ub sp its rs body ys :
  rw_stmt f (SFor iv lb ub sp its rs body ys) =
  match rw_block f body with Some body' => Some (SFor iv lb ub sp its rs body' ys) | None => None end.
Proof. reflexivity. Qed.
Lemma rw_stmt_if c rs th thy el ely :
  rw_stmt f (SIf c rs th thy el ely) =
  match rw_block f th with
  | Some th' => Some (SIf c rs th' thy el ely)
  | None => match rw_block f el with Some el' => Some (SIf c rs th thy el' ely) | None => None end
  end.
Proof. reflexivity. Qed.

(* loops / ifs with related bodies are related (same proof as the congruence, two bodies) *)
Lemma for_bsim iv lb ub sp its rs ys body body' :
  bsim body body' -> ssim (SFor iv lb ub sp its rs body ys) (SFor iv lb ub sp its rs body' ys).
Proof.
  intros Hb m1 m2 HR. rewrite !exec_stmt_for. unfold exec_for.
  pose proof HR as (He & _).
  rewrite (He lb (off_nil lb)), (He ub (off_nil ub)), (He sp (off_nil sp)).
  set (bargs := map it_arg its). rewrite <- !(map_map it_init).
  assert (HR0 : Eq0 a (set_env m1 (bind_list bargs (map (env m1) (map it_init its)) (env m1)))
                      (set_env m2 (bind_list bargs (map (env m2) (map it_init its)) (env m2)))).
  { apply Rel_set_env; [exact HR|]. apply bind_list_agree; [exact He|exact He|apply Forall_bind_nil]. }
  assert (Hstep : forall k m1' m2', Eq0 a m1' m2' ->
    Eq0 a (for_step (exec_block orc body) iv bargs ys (env m2 lb) (env m2 sp) k m1')
          (for_step (exec_block orc body') iv bargs ys (env m2 lb) (env m2 sp) k m2')).
  { intros k m1' m2' HR'. unfold for_step.
    assert (HR1 : Eq0 a (set_env m1' (upd (env m1') iv (env m2 lb + Z.of_nat k * env m2 sp)))
                        (set_env m2' (upd (env m2') iv (env m2 lb + Z.of_nat k * env m2 sp)))).
    { apply Rel_set_env; [exact HR'|]. apply eagree_upd. exact (proj1 HR'). }
    pose proof (Hb _ _ HR1) as HR2. pose proof HR2 as (He2 & _).
    apply Rel_set_env; [exact HR2|]. apply bind_list_agree; [exact He2|exact He2|apply Forall_bind_nil]. }
  pose proof (iter_Rel [] a [] _ _ Hstep (trip_count (env m2 lb) (env m2 ub) (env m2 sp)) _ _ HR0) as HRN.
  pose proof HRN as (HeN & _).
  apply Rel_set_env; [exact HRN|]. apply bind_list_agree; [exact HeN|exact HeN|apply Forall_bind_nil].
Qed.

Lemma if_bsim c rs thy ely th th' el el' :
  bsim th th' -> bsim el el' -> ssim (SIf c rs th thy el ely) (SIf c rs th' thy el' ely).
Proof.
  intros Ht Hel m1 m2 HR. rewrite !exec_stmt_if. unfold exec_if. pose proof HR as (He & _).
  rewrite (He c (off_nil c)). destruct (env m2 c =? 0).
  - pose proof (Hel _ _ HR) as HR2. pose proof HR2 as (He2 & _).
    apply Rel_set_env; [exact HR2|]. apply bind_list_agree; [exact He2|exact He2|apply Forall_bind_nil].
  - pose proof (Ht _ _ HR) as HR2. pose proof HR2 as (He2 & _).
    apply Rel_set_env; [exact HR2|]. apply bind_list_agree; [exact He2|exact He2|apply Forall_bind_nil].
Qed.

Lemma rw_target_for iv lb ub sp its rs body ys :
  rw_target_stmt f (SFor iv lb ub sp its rs body ys) = rw_target f body.
Proof. reflexivity. Qed.
Lemma rw_target_if c rs th thy el ely :
  rw_target_stmt f (SIf c rs th thy el ely) =
  match rw_target f th with Some r => Some r | None => rw_target f el end.
Proof. reflexivity. Qed.

(* the traversal rewrites exactly one block [bb]; the rewritten program is related to the original as soon as
   that block and its image are *)
Definition tgt_ok (tg : option block) (goal : Prop) : Prop :=
  exists bb bb1, tg = Some bb /\ f bb = Some bb1 /\ (bsim bb bb1 -> goal).

Lemma rw_block_tgt b b' (IH : forall b1, rw_inner f b = Some b1 -> tgt_ok (rw_target_inner f b) (bsim b b1)) :
  rw_block f b = Some b' -> tgt_ok (rw_target f b) (bsim b b').
Proof.
  unfold rw_block, rw_target. destruct (f b) as [b1|] eqn:E; intros H.
  - inversion H; subst. exists b, b'. split; [reflexivity|]. split; [exact E|]. intros Hs. exact Hs.
  - apply IH. exact H.
Qed.

Lemma rw_none_block : forall b, rw_inner f b = None -> rw_target_inner f b = None.
Proof.
  apply (block_ind2 (fun s => rw_stmt f s = None -> rw_target_stmt f s = None)
                    (fun bl => rw_inner f bl = None -> rw_target_inner f bl = None)); try (intros; reflexivity).
  - intros iv lb ub sp its rs body ys IHb Hn. rewrite rw_stmt_for in Hn. rewrite rw_target_for.
    unfold rw_block in Hn. unfold rw_target. destruct (f body); [discriminate|].
    destruct (rw_inner f body) eqn:Ei; [discriminate|]. apply IHb. reflexivity.
  - intros c0 rs0 th0 thy0 el0 ely0 IH1 IH2 Hn. rewrite rw_stmt_if in Hn. rewrite rw_target_if.
    unfold rw_block in Hn. unfold rw_target.
    destruct (f th0); [discriminate|]. destruct (rw_inner f th0) eqn:E1; [discriminate|].
    rewrite (IH1 eq_refl). destruct (f el0); [discriminate|].
    destruct (rw_inner f el0) eqn:E2; [discriminate|]. apply IH2. reflexivity.
  - intros s0 b0 Hs0 Hb0 Hn. cbn [rw_inner] in Hn. cbn [rw_target_inner].
    destruct (rw_stmt f s0) eqn:E1; [discriminate|]. rewrite (Hs0 eq_refl).
    destruct (rw_inner f b0) eqn:E2; [discriminate|]. apply Hb0. reflexivity.
Qed.

Lemma rw_none_stmt s : rw_stmt f s = None -> rw_target_stmt f s = None.
Proof.
  intros H. pose proof (rw_none_block [s]) as Hb. cbn [rw_inner rw_target_inner] in Hb. rewrite H in Hb.
  specialize (Hb eq_refl). destruct (rw_target_stmt f s); [discriminate|reflexivity].
Qed.

Lemma rw_none_blk b : rw_block f b = None -> rw_target f b = None.
Proof.
  unfold rw_block, rw_target. destruct (f b); [discriminate|]. apply rw_none_block.
Qed.

Lemma rw_sound : forall b b', rw_inner f b = Some b' -> tgt_ok (rw_target_inner f b) (bsim b b').
Proof.
  apply (block_ind2 (fun s => forall s', rw_stmt f s = Some s' -> tgt_ok (rw_target_stmt f s) (ssim s s'))
                    (fun b => forall b', rw_inner f b = Some b' -> tgt_ok (rw_target_inner f b) (bsim b b')));
    try (intros; discriminate).
  - intros iv lb ub sp its rs body ys IH s' H. rewrite rw_stmt_for in H. rewrite rw_target_for.
    destruct (rw_block f body) as [b1|] eqn:Eb; [|discriminate]. inversion H; subst.
    destruct (rw_block_tgt body b1 IH Eb) as (bb & bb1 & H1 & H2 & H3).
    exists bb, bb1. split; [exact H1|]. split; [exact H2|].
    intros Hs. apply for_bsim. apply H3. exact Hs.
  - intros c rs th thy el ely IHt IHe s' H. rewrite rw_stmt_if in H. rewrite rw_target_if.
    destruct (rw_block f th) as [t1|] eqn:Et.
    + inversion H; subst. destruct (rw_block_tgt th t1 IHt Et) as (bb & bb1 & H1 & H2 & H3).
      exists bb, bb1. rewrite H1. split; [reflexivity|]. split; [exact H2|].
      intros Hs. apply if_bsim; [apply H3; exact Hs|apply bsim_refl].
    + destruct (rw_block f el) as [e1|] eqn:Ee; [|discriminate]. inversion H; subst.
      destruct (rw_block_tgt el e1 IHe Ee) as (bb & bb1 & H1 & H2 & H3).
      rewrite (rw_none_blk th Et). exists bb, bb1. split; [exact H1|]. split; [exact H2|].
      intros Hs. apply if_bsim; [apply bsim_refl|apply H3; exact Hs].
  - intros s b Hs Hb b' H. cbn [rw_inner] in H. cbn [rw_target_inner]. destruct (rw_stmt f s) as [s1|] eqn:Es.
    + inversion H; subst. destruct (Hs s1 eq_refl) as (bb & bb1 & H1 & H2 & H3). rewrite H1.
      exists bb, bb1. split; [reflexivity|]. split; [exact H2|].
      intros Hq m m' HR. cbn [exec_block]. apply Eq0_block. apply (H3 Hq). exact HR.
    + destruct (rw_inner f b) as [b1|] eqn:Eb; [|discriminate]. inversion H; subst.
      rewrite (rw_none_stmt s Es). destruct (Hb b1 eq_refl) as (bb & bb1 & H1 & H2 & H3).
      exists bb, bb1. split; [exact H1|]. split; [exact H2|].
      intros Hq m m' HR. cbn [exec_block]. apply (H3 Hq). apply Eq0_stmt. exact HR.
Qed.

Lemma rw_block_sound b b' : rw_block f b = Some b' -> tgt_ok (rw_target f b) (bsim b b').
Proof. apply rw_block_tgt. intros b1. apply rw_sound. Qed.
End Ctx.

(* ---- the theorem about the model's rule ------------------------------------------------------------------------------ *)
Lemma Eq0_any a a' m m' : Eq0 a m m' -> Eq0 a' m m'.
Proof.
  intros (He & Hr & Hk & Hn & Ht). unfold Eq0, Rel. repeat split; try assumption.
  intros b f _. apply Hr. intros [_ []].
Qed.

Lemma block_overlap_at_plan whole o b :
  block_overlap_at whole o b =
  match block_plan whole o b with Some (ip, _, moved) => Some (apply_plan b ip moved) | None => None end.
Proof.
  unfold block_overlap_at, block_plan.
  destruct (C06Overlap.find_setup b o 0) as [[[[k a] s] fs]|]; [|reflexivity].
  destruct (negb _); [reflexivity|].
  destruct (find_launch_of b s 0) as [j|]; [|reflexivity].
  destruct (negb (j <? k)%nat); [reflexivity|]. destruct (Nat.eqb (S j) k); [reflexivity|].
  destruct (scoped_inputs b (map snd fs)) as [inputs|]; [|reflexivity].
  destruct (mem_nat (S j) inputs); reflexivity.
Qed.

Require Import Snax.Proofs.C06LoopProofs.

Theorem block_overlap_preserves orc p o p' args :
  block_overlap p o = Some p' ->
  block_overlap_side_ok p o = true ->
  trace_sim_b (run orc p args) (run orc p' args) = true.
Proof.
  intros Hov Hside. unfold block_overlap in Hov.
  destruct (rw_block (block_overlap_at (p_body p) o) (p_body p)) as [b'|] eqn:Erw; [|discriminate].
  inversion Hov; subst. clear Hov.
  destruct (rw_block_sound orc 0%nat _ _ _ Erw) as (bb & bb1 & Ht & Hfb & Hsim).
  unfold block_overlap_side_ok in Hside. rewrite Ht in Hside.
  rewrite block_overlap_at_plan in Hfb.
  destruct (block_plan (p_body p) o bb) as [[[ip a] moved]|] eqn:Ep; [|discriminate]. inversion Hfb; subst.
  assert (Hb : bsim orc 0%nat bb (apply_plan bb ip moved)).
  { intros m m' HR. apply (Eq0_any a). apply block_plan_local; [exact Hside|]. apply (Eq0_any 0%nat). exact HR. }
  specialize (Hsim Hb).
  unfold run, final_state, init_state. cbn [p_params p_body].
  destruct (Hsim _ _ (Eq0_refl 0%nat (mkSt (bind_list (p_params p) args (fun _ => 0)) (o_adv orc 0%nat) (fun _ => []) 1%nat [])))
    as (_ & _ & _ & _ & Htr).
  apply trace_rel_sim_b. apply Forall2_rev. exact Htr.
Qed.
