(* C04 — RoCC lowering: every issued instruction carries the values currently in effect for both source
   fields, provided the inferred input state is sound (C07's invariant [holds]); every touched instruction
   is issued. *)
From Snax Require Import Base.Prelude Model.AccIR Model.AccSem Model.AccInfer Model.C04Csr Model.C04Rocc
     Proofs.AccSemProofs.

Lemma dict_last_spec e fs : forall r f,
  write_fields e fs r f = match dict_last f fs with Some v => e v | None => r f end.
Proof.
  induction fs as [|[g v] fs IH]; intros r f; [reflexivity|]. cbn [write_fields dict_last].
  rewrite IH. destruct (dict_last f fs) as [w|]; [reflexivity|].
  unfold upd. rewrite Nat.eqb_sym. destruct (Nat.eqb g f); reflexivity.
Qed.

Lemma rocc_emit_sound whole hv tch : forall d cb,
  rocc_emit whole d tch hv = Some cb ->
  forall f7 v1 v2, In (CInsn f7 v1 v2) cb ->
  exists rf f2, In rf d /\ rf_rs1 rf = true /\ mem_nat (rf_instr rf) tch = true /\ rf_func7 rf = f7
                /\ half_field whole (rf_instr rf) false = Some f2
                /\ hv (rf_field rf) = Some v1 /\ hv f2 = Some v2.
Proof.
  induction d as [|rf d IH]; intros cb H f7 v1 v2 Hin; cbn [rocc_emit] in H.
  - inversion H; subst. destruct Hin.
  - destruct (rf_rs1 rf && mem_nat (rf_instr rf) tch) eqn:E.
    + destruct (half_field whole (rf_instr rf) false) as [f2|] eqn:Hh; [|discriminate].
      destruct (hv (rf_field rf)) as [w1|] eqn:H1; [|discriminate].
      destruct (hv f2) as [w2|] eqn:H2; [|discriminate].
      destruct (rocc_emit whole d tch hv) as [r|] eqn:Hr; [|discriminate].
      inversion H; subst. apply andb_true_iff in E as [E1 E2]. destruct Hin as [Hin|Hin].
      * inversion Hin; subst. exists rf, f2. repeat split; try assumption. left; reflexivity.
      * destruct (IH r eq_refl f7 v1 v2 Hin) as (rf' & f2' & Hi & Hrest).
        exists rf', f2'. split; [right; exact Hi|exact Hrest].
    + destruct (IH cb H f7 v1 v2 Hin) as (rf' & f2' & Hi & Hrest).
      exists rf', f2'. split; [right; exact Hi|exact Hrest].
Qed.

Lemma rocc_emit_complete whole hv tch : forall d cb,
  rocc_emit whole d tch hv = Some cb ->
  forall rf, In rf d -> rf_rs1 rf = true -> mem_nat (rf_instr rf) tch = true ->
  exists v1 v2, In (CInsn (rf_func7 rf) v1 v2) cb.
Proof.
  induction d as [|rf0 d IH]; intros cb H rf Hin H1 H2; [destruct Hin|]. cbn [rocc_emit] in H.
  destruct (rf_rs1 rf0 && mem_nat (rf_instr rf0) tch) eqn:E.
  - destruct (half_field whole (rf_instr rf0) false) as [f2|]; [|discriminate].
    destruct (hv (rf_field rf0)) as [w1|]; [|discriminate].
    destruct (hv f2) as [w2|]; [|discriminate].
    destruct (rocc_emit whole d tch hv) as [r|] eqn:Hr; [|discriminate].
    inversion H; subst. destruct Hin as [Hin|Hin].
    + subst rf0. exists w1, w2. left. reflexivity.
    + destruct (IH r eq_refl rf Hin H1 H2) as (v1 & v2 & Hv). exists v1, v2. right. exact Hv.
  - destruct Hin as [Hin|Hin].
    + subst rf0. rewrite H1, H2 in E. discriminate.
    + apply (IH cb H rf Hin H1 H2).
Qed.

(* the value create_pairs picks for one half is the value of that field after the setup's writes *)
Lemma half_val_current (T : tbl) (m : mstate) (a : acc) ins fs f v :
  half_val fs (match ins with Some i => Some (tlook T i) | None => None end) f = Some v ->
  (forall i, ins = Some i -> holds (tlook T) m a i = true) ->
  (ins = None -> dict_last f fs <> None) ->
  cval_eval (env m) v = write_fields (env m) fs (regs m a) f.
Proof.
  intros Hv Hs Hd. rewrite dict_last_spec. unfold half_val in Hv.
  destruct (dict_last f fs) as [w|] eqn:E.
  - inversion Hv; subst. reflexivity.
  - destruct ins as [i|].
    + destruct (st_lookup f (tlook T i)) as [w|] eqn:El; [|discriminate]. inversion Hv; subst. cbn [cval_eval].
      specialize (Hs i eq_refl). unfold holds in Hs. rewrite forallb_forall in Hs.
      assert (Hin : In (f, w) (tlook T i)).
      { clear - El. induction (tlook T i) as [|[g x] l IH]; cbn [st_lookup] in El; [discriminate|].
        destruct (Nat.eqb g f) eqn:Eg.
        - inversion El; subst. apply Nat.eqb_eq in Eg. subst. left. reflexivity.
        - right. apply IH. exact El. }
      specialize (Hs (f, w) Hin). cbn [fst snd] in Hs. apply Z.eqb_eq in Hs. symmetry. exact Hs.
    + exfalso. apply (Hd eq_refl). reflexivity.
Qed.

(* rocc_pairs_current *)
Theorem rocc_pairs_current (ri : rinfo) (T : tbl) (a : acc) ins fs cb (m : mstate) :
  lower_rocc_setup ri T ins fs = Some cb ->
  (forall i, ins = Some i -> holds (tlook T) m a i = true) ->
  let R' := write_fields (env m) fs (regs m a) in
  (* every issued instruction belongs to a touched instruction and carries the current values *)
  (forall f7 v1 v2, In (CInsn f7 v1 v2) cb ->
     exists rf f2, In rf (ri_fields ri) /\ rf_rs1 rf = true /\ rf_func7 rf = f7
       /\ mem_nat (rf_instr rf) (touched (ri_fields ri) fs) = true
       /\ half_field (ri_fields ri) (rf_instr rf) false = Some f2
       /\ ((ins = None -> dict_last (rf_field rf) fs <> None) -> cval_eval (env m) v1 = R' (rf_field rf))
       /\ ((ins = None -> dict_last f2 fs <> None) -> cval_eval (env m) v2 = R' f2)
       /\ (ins = None -> dict_last (rf_field rf) fs = None -> v1 = VConst 0)
       /\ (ins = None -> dict_last f2 fs = None -> v2 = VConst 0))
  (* and every touched instruction is issued *)
  /\ (forall rf, In rf (ri_fields ri) -> rf_rs1 rf = true ->
        mem_nat (rf_instr rf) (touched (ri_fields ri) fs) = true ->
        exists v1 v2, In (CInsn (rf_func7 rf) v1 v2) cb).
Proof.
  intros Hl Hs R'. unfold lower_rocc_setup in Hl.
  destruct (negb (all_declared (ri_fields ri) fs)); [discriminate|].
  split.
  - intros f7 v1 v2 Hin.
    destruct (rocc_emit_sound _ _ _ _ _ Hl f7 v1 v2 Hin) as (rf & f2 & Hi & H1 & Ht & H7 & Hh & Hv1 & Hv2).
    exists rf, f2. repeat split; try assumption.
    + intros Hd. apply (half_val_current T m a ins fs _ _ Hv1 Hs Hd).
    + intros Hd. apply (half_val_current T m a ins fs _ _ Hv2 Hs Hd).
    + intros Hn Hd. subst ins. unfold half_val in Hv1. rewrite Hd in Hv1. inversion Hv1. reflexivity.
    + intros Hn Hd. subst ins. unfold half_val in Hv2. rewrite Hd in Hv2. inversion Hv2. reflexivity.
  - intros rf Hi H1 Ht. apply (rocc_emit_complete _ _ _ _ _ Hl rf Hi H1 Ht).
Qed.

(* launches carry exactly the launch values *)
Theorem rocc_launch_values (ri : rinfo) fs cb (e : envT) :
  lower_rocc_launch ri fs = Some cb ->
  forall f7 v1 v2, In (CInsn f7 v1 v2) cb ->
  exists rf f2 x1 x2, In rf (ri_launch ri) /\ rf_func7 rf = f7 /\ half_field (ri_launch ri) (rf_instr rf) false = Some f2
    /\ dict_last (rf_field rf) fs = Some x1 /\ dict_last f2 fs = Some x2 /\ v1 = VRef x1 /\ v2 = VRef x2.
Proof.
  intros Hl f7 v1 v2 Hin. unfold lower_rocc_launch in Hl.
  destruct (negb (all_declared (ri_launch ri) fs)); [discriminate|].
  destruct (rocc_emit_sound _ _ _ _ _ Hl f7 v1 v2 Hin) as (rf & f2 & Hi & H1 & Ht & H7 & Hh & Hv1 & Hv2).
  destruct (dict_last (rf_field rf) fs) as [x1|] eqn:E1; [|discriminate].
  destruct (dict_last f2 fs) as [x2|] eqn:E2; [|discriminate].
  inversion Hv1; inversion Hv2; subst. exists rf, f2, x1, x2. repeat split; try assumption; reflexivity.
Qed.
