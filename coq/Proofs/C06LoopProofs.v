(* C06 — what happens after a rewritten loop (SafeAfterLoop), the loop-rotation identity behind the
   induction on the iteration index, and the refutation witness F4. *)
From Snax Require Import Base.Prelude Model.AccIR Model.AccSem Model.C06Overlap
     Proofs.AccSemProofs Proofs.C06SimProofs.

(* ---- [ev_rel] is what the executable trace comparison of AccSem decides ----------------------------- *)
Lemma lv_list_eqb_eq (l1 l2 : list (field * Z)) : list_eqb lv_eqb l1 l2 = true <-> l1 = l2.
Proof.
  apply list_eqb_eq. intros [f v] [g w]. unfold lv_eqb. cbn [fst snd]. split.
  - intros H. apply andb_true_iff in H as [H1 H2]. apply Nat.eqb_eq in H1. apply Z.eqb_eq in H2. congruence.
  - intros H. inversion H; subst. rewrite Nat.eqb_refl, Z.eqb_refl. reflexivity.
Qed.

Lemma ev_rel_sim_b e1 e2 : ev_rel e1 e2 -> ev_sim_b e1 e2 = true.
Proof.
  destruct e1 as [a kn rg lv|a|g n ar|a], e2 as [a' kn' rg' lv'|a'|g' n' ar'|a']; cbn [ev_sim_b ev_rel];
    try (intro HF; contradiction).
  - intros (H1 & H2 & H3 & _). rewrite !andb_true_iff, Nat.eqb_eq, lv_list_eqb_eq, forallb_forall.
    repeat split; try assumption. intros f Hf. apply Z.eqb_eq. apply H3. exact Hf.
  - apply Nat.eqb_eq.
  - intros (H1 & H2 & H3). rewrite !andb_true_iff, !Nat.eqb_eq. repeat split; try assumption.
    apply (list_eqb_eq Z.eqb Z.eqb_eq). exact H3.
  - apply Nat.eqb_eq.
Qed.

Lemma trace_rel_sim_b t1 t2 : Forall2 ev_rel t1 t2 -> trace_sim_b t1 t2 = true.
Proof.
  unfold trace_sim_b. induction 1 as [|e e' t1 t2 He _ IH]; cbn [list_eqb]; [reflexivity|].
  rewrite (ev_rel_sim_b _ _ He), IH. reflexivity.
Qed.

Lemma Forall2_rev {A B} (R : A -> B -> Prop) l1 l2 : Forall2 R l1 l2 -> Forall2 R (rev l1) (rev l2).
Proof.
  induction 1 as [|x y l1 l2 Hxy _ IH]; cbn [rev]; [constructor|].
  apply Forall2_app; [exact IH|constructor; [exact Hxy|constructor]].
Qed.

(* ---- after the loop ---------------------------------------------------------------------------------- *)
Section After.
Variable orc : oracle.
Variable F : list val.
Variable a0 : acc.

(* a setup of a0 re-establishes agreement on the fields it writes *)
Lemma setup_shrinks fs o i fvs m1 m2 :
  Forall (off F) (map snd fvs) ->
  Rel F a0 fs m1 m2 ->
  Rel F a0 (filter (fun f => negb (mem_nat f (map fst fvs))) fs)
      (exec_stmt orc (SSetup a0 o i fvs) m1) (exec_stmt orc (SSetup a0 o i fvs) m2).
Proof.
  intros Hro (He & Hr & Hk & Hn & Ht). cbn [exec_stmt]. unfold exec_setup, Rel. cbn [env regs known ncalls tr].
  repeat split; try assumption.
  - intros a f Hne. unfold upd. destruct (Nat.eqb a a0) eqn:E.
    + apply Nat.eqb_eq in E. subst a. apply (write_fields_agree F); [exact He|exact Hro|].
      destruct (mem_nat f (map fst fvs)) eqn:Em.
      * right. apply mem_nat_In. exact Em.
      * left. apply Hr. intros [_ Hin]. apply Hne. split; [reflexivity|].
        apply filter_In. split; [exact Hin|]. rewrite Em. reflexivity.
    + apply Hr. intros [Ha _]. subst a. rewrite Nat.eqb_refl in E. discriminate.
  - intros a f. unfold upd. destruct (Nat.eqb a a0); [|apply Hk]. apply add_known_mono. apply Hk.
Qed.

(* a call that reconfigures the accelerators re-establishes agreement everywhere *)
Lemma effect_call_resets fs g pu ds ar m1 m2 :
  Forall (off F) ar ->
  Rel F a0 fs m1 m2 ->
  Rel F a0 [] (exec_stmt orc (SCall g true pu ds ar) m1) (exec_stmt orc (SCall g true pu ds ar) m2).
Proof.
  intros Hro (He & Hr & Hk & Hn & Ht). cbn [exec_stmt]. unfold exec_call, Rel. cbn [env regs known ncalls tr].
  rewrite (eagree_map F _ _ _ He Hro), Hn. split; [|split; [|split; [|split]]].
  - apply (call_results_agree orc F). exact He.
  - intros a f _. reflexivity.
  - intros a f [].
  - reflexivity.
  - constructor; [cbn; repeat split|exact Ht].
Qed.

(* SafeAfterLoop: if the two runs agree everywhere except on the fields [fs] of accelerator a0 (the fields the
   moved setup writes) and every launch of a0 reachable in [post] is preceded by writes to all of [fs], then
   the runs of [post] are event-by-event related: every launch observes the same registers. *)
Theorem after_safe : forall post fs m1 m2,
  safe_after a0 fs post = true ->
  block_reads_off F post ->
  Rel F a0 fs m1 m2 ->
  exists fs', Rel F a0 fs' (exec_block orc post m1) (exec_block orc post m2).
Proof.
  induction post as [|x post IH]; intros fs m1 m2 Hsafe Hro HR.
  - exists fs. exact HR.
  - destruct fs as [|f0 fs].
    + exists []. apply (exec_rel_block orc F a0 [] (x :: post) Hro); [left; reflexivity|exact HR].
    + cbn [block_reads_off] in Hro. destruct Hro as [Hx Hpost]. cbn [exec_block].
      set (fs1 := f0 :: fs) in *.
      destruct x as [d e|g ef pu ds ar|a o i fvs|a k st fvs|a k|a st|iv lb ub sp its rs body ys|c rs th thy el ely].
      * (* SPure *)
        cbn [safe_after stmt_launches negb andb] in Hsafe. apply (IH fs1); [exact Hsafe|exact Hpost|].
        apply (exec_rel_stmt orc F a0 fs1 _ Hx); [right; reflexivity|exact HR].
      * (* SCall *)
        destruct ef.
        -- apply (IH []); [destruct post; reflexivity|exact Hpost|].
           apply (effect_call_resets fs1); [exact Hx|exact HR].
        -- cbn [safe_after stmt_launches negb andb] in Hsafe. apply (IH fs1); [exact Hsafe|exact Hpost|].
           apply (exec_rel_stmt orc F a0 fs1 _ Hx); [right; reflexivity|exact HR].
      * (* SSetup *)
        cbn [safe_after] in Hsafe. destruct (Nat.eqb a a0) eqn:E.
        -- apply Nat.eqb_eq in E. subst a.
           apply (IH (filter (fun f => negb (mem_nat f (map fst fvs))) fs1)); [exact Hsafe|exact Hpost|].
           apply setup_shrinks; [exact Hx|exact HR].
        -- apply (IH fs1); [exact Hsafe|exact Hpost|].
           apply (exec_rel_stmt orc F a0 fs1 _ Hx); [right; reflexivity|exact HR].
      * (* SLaunch *)
        cbn [safe_after] in Hsafe. apply andb_true_iff in Hsafe as [Hl Hs]. apply negb_true_iff in Hl.
        apply (IH fs1); [exact Hs|exact Hpost|].
        apply (exec_rel_stmt orc F a0 fs1 _ Hx); [right; exact Hl|exact HR].
      * cbn [safe_after stmt_launches negb andb] in Hsafe. apply (IH fs1); [exact Hsafe|exact Hpost|].
        apply (exec_rel_stmt orc F a0 fs1 _ Hx); [right; reflexivity|exact HR].
      * cbn [safe_after stmt_launches negb andb] in Hsafe. apply (IH fs1); [exact Hsafe|exact Hpost|].
        apply (exec_rel_stmt orc F a0 fs1 _ Hx); [right; reflexivity|exact HR].
      * cbn [safe_after] in Hsafe. apply andb_true_iff in Hsafe as [Hl Hs]. apply negb_true_iff in Hl.
        apply (IH fs1); [exact Hs|exact Hpost|].
        apply (exec_rel_stmt orc F a0 fs1 _ Hx); [right; exact Hl|exact HR].
      * cbn [safe_after] in Hsafe. apply andb_true_iff in Hsafe as [Hl Hs]. apply negb_true_iff in Hl.
        apply (IH fs1); [exact Hs|exact Hpost|].
        apply (exec_rel_stmt orc F a0 fs1 _ Hx); [right; exact Hl|exact HR].
Qed.

(* the same, in terms of the executable trace comparison *)
Corollary after_safe_traces post fs m1 m2 :
  safe_after a0 fs post = true -> block_reads_off F post -> Rel F a0 fs m1 m2 ->
  trace_sim_b (rev (tr (exec_block orc post m1))) (rev (tr (exec_block orc post m2))) = true.
Proof.
  intros Hs Hro HR. destruct (after_safe post fs m1 m2 Hs Hro HR) as [fs' (_ & _ & _ & _ & Ht)].
  apply trace_rel_sim_b. apply Forall2_rev. exact Ht.
Qed.
End After.

(* ---- loop rotation: the induction on the iteration index ------------------------------------------------
   W k = "configure for iteration k", B k = "the rest of iteration k".  The original loop runs
   W0 B0 W1 B1 ... ; the rewritten one runs W0 (prologue) and then B_k W_(k+1) per iteration.  For every trip
   count n the rewritten run is the original run followed by ONE speculative W n — so inside the loop every B k
   (hence every launch) starts from the same state, and after the loop the states differ by exactly W n. *)
Lemma iter_shift {A} (W B : nat -> A -> A) : forall n a,
  iter_n n (fun k x => W (S k) (B k x)) (W 0%nat a) = W n (iter_n n (fun k x => B k (W k x)) a).
Proof.
  induction n as [|n IH]; intros a; cbn [iter_n]; [reflexivity|]. rewrite IH. reflexivity.
Qed.

(* every B k of the rewritten loop starts from the state B k starts from in the original loop *)
Lemma iter_shift_inside {A} (W B : nat -> A -> A) : forall n a k, (k < n)%nat ->
  iter_n k (fun j x => W (S j) (B j x)) (W 0%nat a) = W k (iter_n k (fun j x => B j (W j x)) a).
Proof. intros n a k _. apply iter_shift. Qed.

(* ---- F4: the post-loop launch of notes/probe_c06_post_loop_launch.mlir -------------------------------------- *)
Definition f4_before : prog :=
  mkProg [0; 1; 2; 3; 4]%nat
    [SSetup 0 5 None [(0, 1)];
     SFor 6 2 3 4 [(7, 5, TState 0)] [13]
       [SPure 8 (PId 6); SSetup 0 9 (Some 7) [(0, 8)]; SLaunch 0 10 9 []; SAwait 0 10;
        SSetup 0 11 (Some 9) [(0, 1)]; SLaunch 0 12 11 []; SAwait 0 12] [11];
     SLaunch 0 14 13 []; SAwait 0 14]%nat.

Definition f4_after : prog :=
  mkProg [0; 1; 2; 3; 4]%nat
    [SSetup 0 5 None [(0, 1)]; SPure 15 (PId 2); SSetup 0 16 (Some 5) [(0, 15)];
     SFor 6 2 3 4 [(7, 16, TState 0)] [13]
       [SPure 8 (PId 6); SLaunch 0 10 7 []; SAwait 0 10; SSetup 0 11 (Some 7) [(0, 1)]; SLaunch 0 12 11 [];
        SAwait 0 12; SPure 17 (PBin BAdd 6 4); SPure 18 (PId 17); SSetup 0 19 (Some 11) [(0, 18)]] [19];
     SLaunch 0 14 13 []; SAwait 0 14]%nat.

Lemma f4_rewrite : loop_overlap f4_before 9%nat 15%nat = Some f4_after.
Proof. vm_compute. reflexivity. Qed.

Lemma f4_unsafe : safe_after_loop f4_before 9%nat = false.
Proof. vm_compute. reflexivity. Qed.

(* two iterations (lb 0, ub 2, step 1) and zero iterations (ub = lb): the post-loop launch differs *)
Lemma f4_differs :
  trace_sim_b (run (test_oracle 1) f4_before [10; 13; 0; 2; 1]) (run (test_oracle 1) f4_after [10; 13; 0; 2; 1]) = false
  /\ trace_sim_b (run (test_oracle 1) f4_before [10; 13; 0; 0; 1]) (run (test_oracle 1) f4_after [10; 13; 0; 0; 1]) = false.
Proof. split; vm_compute; reflexivity. Qed.

(* ... while every launch inside the loop observes the same registers: the traces agree up to the last launch *)
Lemma f4_inside_ok :
  let t1 := run (test_oracle 1) f4_before [10; 13; 5; 11; 3] in
  let t2 := run (test_oracle 1) f4_after [10; 13; 5; 11; 3] in
  trace_sim_b (firstn 8 t1) (firstn 8 t2) = true /\ List.length t1 = 10%nat.
Proof. split; vm_compute; reflexivity. Qed.
