(* C17 — lifting the per-rule theorems to "any rule, at any position of a well-formed SSA program",
   and to finite sequences of rule applications. *)
From Snax Require Import Base.Prelude Base.ListAux Model.C17Loop Proofs.C17LoopProofs.

(* ------------------------------------------------------------------ membership / scoping helpers *)
Lemma memb_In x l : memb x l = true <-> In x l.
Proof.
  unfold memb. rewrite existsb_exists. split.
  - intros [y [Hy He]]. apply Nat.eqb_eq in He. subst. exact Hy.
  - intros H. exists x. split; [exact H|apply Nat.eqb_refl].
Qed.
Lemma memb_not_In x l : memb x l = false <-> ~ In x l.
Proof. rewrite <- memb_In. destruct (memb x l); split; congruence. Qed.

Definition push (D : list var) (o : op) : list var := match o with Def d _ => d :: D | _ => D end.
Definition scope_after (D : list var) (pre : list op) : list var := fold_left push pre D.

Lemma wf_block_cons D o b : wf_block D (o :: b) = wf_op D o && wf_block (push D o) b.
Proof. reflexivity. Qed.

Lemma wf_go_eq b : forall D,
  (fix go (D : list var) (b : list op) {struct b} : bool :=
     match b with
     | [] => true
     | o :: b' => wf_op D o && go (match o with Def d _ => d :: D | _ => D end) b'
     end) D b = wf_block D b.
Proof. induction b as [|o b IH]; intros D; [reflexivity|]. cbn [wf_block]. rewrite IH. reflexivity. Qed.

Lemma wf_op_For D iv lb ub st body :
  wf_op D (For iv lb ub st body) =
  memb lb D && memb ub D && memb st D && negb (memb iv D) && wf_block (iv :: D) body.
Proof. cbn [wf_op]. rewrite wf_go_eq. reflexivity. Qed.

Lemma wf_block_app D pre rest :
  wf_block D (pre ++ rest) = wf_block D pre && wf_block (scope_after D pre) rest.
Proof.
  revert D; induction pre as [|o pre IH]; intros D; [reflexivity|].
  rewrite <- app_comm_cons, !wf_block_cons, IH, andb_assoc. reflexivity.
Qed.

Lemma scope_after_In D pre v :
  In v (scope_after D pre) <-> In v D \/ In v (map fst (defs_top pre)).
Proof.
  revert D; induction pre as [|o pre IH]; intros D; cbn [scope_after fold_left].
  - cbn. tauto.
  - fold (scope_after (push D o) pre). rewrite IH, defs_top_cons, map_app, in_app_iff.
    destruct o as [d p| |]; cbn; tauto.
Qed.

Lemma defs_top_alldefs b v : In v (map fst (defs_top b)) -> In v (alldefs b).
Proof.
  induction b as [|o b IH]; [intros []|]. rewrite defs_top_cons, map_app, in_app_iff.
  unfold alldefs. cbn [flat_map]. rewrite in_app_iff. intros [H|H].
  - left. destruct o; cbn in *; tauto.
  - right. apply IH. exact H.
Qed.

Lemma NoDup_app_r {A} (l1 l2 : list A) : NoDup (l1 ++ l2) -> NoDup l2.
Proof. induction l1 as [|x l1 IH]; intros H; [exact H|]. inversion H; subst. apply IH. assumption. Qed.
Lemma NoDup_app_disj {A} (l1 l2 : list A) x : NoDup (l1 ++ l2) -> In x l1 -> ~ In x l2.
Proof.
  induction l1 as [|y l1 IH]; intros H Hin; [contradiction|]. inversion H as [|? ? Hn Hd]; subst.
  destruct Hin as [->|Hin].
  - intros H2. apply Hn. apply in_or_app. right; exact H2.
  - apply IH; assumption.
Qed.

Lemma alldefs_app b1 b2 : alldefs (b1 ++ b2) = alldefs b1 ++ alldefs b2.
Proof. unfold alldefs. apply flat_map_app. Qed.
Lemma alldefs_cons o b : alldefs (o :: b) = alldefs_op o ++ alldefs b.
Proof. reflexivity. Qed.
Lemma vars_of_app b1 b2 : vars_of (b1 ++ b2) = vars_of b1 ++ vars_of b2.
Proof. unfold vars_of. apply flat_map_app. Qed.
Lemma vars_of_cons o b : vars_of (o :: b) = vars_op o ++ vars_of b.
Proof. reflexivity. Qed.

Lemma defs_top_NoDup b : NoDup (alldefs b) -> NoDup (map fst (defs_top b)).
Proof.
  induction b as [|o b IH]; intros H; [constructor|].
  rewrite alldefs_cons in H. rewrite defs_top_cons, map_app.
  destruct o as [d p| |iv lb ub st body]; cbn [defs_top map fst app alldefs_op] in *.
  - inversion H as [|? ? Hn Hd]; subst. constructor; [|apply IH; exact Hd].
    intros Hin. apply Hn. apply defs_top_alldefs. exact Hin.
  - apply IH. exact H.
  - apply IH. apply (NoDup_app_r (iv :: flat_map alldefs_op body)). exact H.
Qed.

(* every name mentioned in a well-scoped op is in scope or defined inside it *)
Definition op_wf_vars (o : op) := forall D, wf_op D o = true ->
  forall v, In v (vars_op o) -> In v D \/ In v (alldefs_op o).

Lemma forallb_memb_In D l : forallb (fun v => memb v D) l = true -> forall v, In v l -> In v D.
Proof. intros H v Hin. rewrite forallb_forall in H. apply memb_In. apply H. exact Hin. Qed.

Lemma block_wf_vars_of_ops b : Forall op_wf_vars b -> forall D, wf_block D b = true ->
  forall v, In v (vars_of b) -> In v D \/ In v (alldefs b).
Proof.
  induction 1 as [|o b Ho _ IH]; intros D Hwf v Hin; [contradiction|].
  rewrite wf_block_cons in Hwf. apply andb_true_iff in Hwf as [H1 H2].
  rewrite vars_of_cons in Hin. rewrite alldefs_cons. apply in_app_or in Hin as [Hin|Hin].
  - destruct (Ho D H1 v Hin) as [Hd|Hd]; [left; exact Hd|right; apply in_or_app; left; exact Hd].
  - destruct (IH _ H2 v Hin) as [Hd|Hd]; [|right; apply in_or_app; right; exact Hd].
    destruct o as [d p| |]; cbn [push] in Hd; try (left; exact Hd).
    destruct Hd as [<-|Hd]; [right; apply in_or_app; left; left; reflexivity|left; exact Hd].
Qed.

Lemma wf_vars_op o : op_wf_vars o.
Proof.
  induction o as [d p|i a|iv lb ub st body IH] using op_ind'; intros D Hwf v Hin.
  - cbn [wf_op] in Hwf. apply andb_true_iff in Hwf as [H1 _]. cbn in Hin. destruct Hin as [<-|Hin].
    + right. left. reflexivity.
    + left. eapply forallb_memb_In; eassumption.
  - cbn [wf_op] in Hwf. left. eapply forallb_memb_In; eassumption.
  - rewrite wf_op_For in Hwf. repeat (apply andb_true_iff in Hwf as [Hwf ?]).
    cbn [vars_op] in Hin. cbn [alldefs_op].
    destruct Hin as [<-|[<-|[<-|[<-|Hin]]]].
    + right. left. reflexivity.
    + left. apply memb_In. assumption.
    + left. apply memb_In. assumption.
    + left. apply memb_In. assumption.
    + destruct (block_wf_vars_of_ops body IH (iv :: D) ltac:(assumption) v Hin) as [[<-|Hd]|Hd].
      * right. left. reflexivity.
      * left. exact Hd.
      * right. right. exact Hd.
Qed.

Lemma wf_vars_block b D : wf_block D b = true ->
  forall v, In v (vars_of b) -> In v D \/ In v (alldefs b).
Proof. apply block_wf_vars_of_ops. apply Forall_forall. intros o _. apply wf_vars_op. Qed.

(* ------------------------------------------------------------------ the scope invariant *)
Lemma closedI_mono D1 D2 Sc : (forall v, In v D1 -> In v D2) -> closedI D1 Sc -> closedI D2 Sc.
Proof. intros Hi H v p Hin. destruct (H v p Hin) as [H1 H2]. split; [apply Hi; exact H1|intros u Hu; apply Hi, H2; exact Hu]. Qed.

Lemma defs_okI_upd_fresh D Sc e x val : closedI D Sc -> ~ In x D -> defs_okI Sc e -> defs_okI Sc (upd e x val).
Proof.
  intros Hc Hx Hs v p Hin Hp. destruct (Hc v p Hin) as [Hv Hu].
  rewrite upd_other by (intros ->; contradiction). rewrite (Hs v p Hin Hp).
  apply (eval_pexpr_agree (eq x)).
  - intros y Hy. symmetry. apply upd_other. congruence.
  - intros u Hin2 Heq. subst u. apply Hx. apply Hu. exact Hin2.
Qed.

Lemma inv_after_op o D Sc e h :
  wf_op D o = true -> defs_okI Sc e -> closedI D Sc ->
  defs_okI (defs_top [o] ++ Sc) (fst (exec_op o e h)) /\ closedI (push D o) (defs_top [o] ++ Sc).
Proof.
  intros Hwf Hs Hc. destruct o as [d p|i a|iv lb ub st body].
  - cbn [wf_op] in Hwf. apply andb_true_iff in Hwf as [Hu Hd].
    apply negb_true_iff, memb_not_In in Hd.
    assert (Hup : forall u, In u (uses_p p) -> In u D) by (intros u Hin; eapply forallb_memb_In; eassumption).
    cbn [defs_top app push exec_op fst]. split.
    + intros v q [Heq|Hin] Hq.
      * inversion Heq; subst v q. rewrite upd_same.
        assert (Hev : eval_def d e h p = eval_pexpr e [] p) by (destruct p; try discriminate; reflexivity).
        rewrite Hev. apply (eval_pexpr_agree (eq d)).
        -- intros y Hy. symmetry. apply upd_other. congruence.
        -- intros u Hin Heq2. subst u. apply Hd, Hup. exact Hin.
      * apply (defs_okI_upd_fresh D Sc e d _ Hc Hd Hs); assumption.
    + intros v q [Heq|Hin].
      * inversion Heq; subst v q. split; [left; reflexivity|intros u Hu2; right; apply Hup; exact Hu2].
      * destruct (Hc v q Hin) as [H1 H2]. split; [right; exact H1|intros u Hu2; right; apply H2; exact Hu2].
  - cbn [defs_top app push exec_op fst]. split; assumption.
  - rewrite env_For. cbn [defs_top app push]. split; assumption.
Qed.

Lemma inv_after_block b : forall D Sc e h,
  wf_block D b = true -> defs_okI Sc e -> closedI D Sc ->
  defs_okI (defs_top b ++ Sc) (fst (exec_block b e h)) /\ closedI (scope_after D b) (defs_top b ++ Sc).
Proof.
  induction b as [|o b IH]; intros D Sc e h Hwf Hs Hc; [split; assumption|].
  rewrite wf_block_cons in Hwf. apply andb_true_iff in Hwf as [H1 H2].
  destruct (inv_after_op o D Sc e h H1 Hs Hc) as [Hs1 Hc1].
  destruct (IH _ _ _ (hpush (snd (exec_op o e h)) h) H2 Hs1 Hc1) as [Hs2 Hc2].
  rewrite env_cons. cbn [scope_after fold_left]. fold (scope_after (push D o) b).
  rewrite defs_top_cons. split.
  - intros v p Hin Hp. apply Hs2; [|exact Hp]. rewrite !in_app_iff in *. tauto.
  - intros v p Hin. apply Hc2. rewrite !in_app_iff in *. tauto.
Qed.

(* ------------------------------------------------------------------ rules are sound in context *)
Definition inner_defs (o : op) : list var :=
  match o with For iv _ _ _ body => iv :: alldefs body | _ => [] end.

Definition rule_sound (f : scope -> op -> option (list op)) (fresh : var) : Prop :=
  forall Sc D o ops e h,
    f Sc o = Some ops ->
    wf_op D o = true ->
    NoDup (alldefs_op o) -> (forall v, In v D -> ~ In v (alldefs_op o)) ->
    closedI D Sc ->
    defs_okI Sc e ->
    (forall v, In v (vars_op o) -> (v < fresh)%nat) ->
    trace ops e h = snd (exec_op o e h) /\
    exists F, agree F (fst (exec_block ops e h)) (fst (exec_op o e h)) /\
              forall v, F v -> (fresh <= v)%nat \/ In v (inner_defs o).

Lemma change_step_sound fresh : rule_sound (fun Sc o => change_step Sc fresh o) fresh.
Proof.
  intros Sc D o ops e h Hr _ _ _ _ Hs Hf.
  destruct (change_step_trace Sc fresh o ops e h Hr (defs_okI_scope_ok _ _ Hs) Hf) as [Ht Ha].
  split; [exact Ht|]. exists (fresh_from fresh). split; [exact Ha|]. intros v Hv. left. exact Hv.
Qed.

Lemma merge_sound fresh j : rule_sound (fun Sc o => merge_loops Sc fresh j o) fresh.
Proof.
  intros Sc D o ops e h Hr Hwf Hnd Hdisj Hincl Hs Hf.
  destruct (merge_trace Sc fresh j o ops e h Hr (defs_okI_scope_ok _ _ Hs) Hf) as [Ht Ha].
  { intros iv lb ub st body ->. cbn [alldefs_op] in Hnd, Hdisj.
    inversion Hnd as [|? ? Hn Hd]; subst. fold (alldefs body) in *. split; [|split].
    - apply defs_top_NoDup. exact Hd.
    - intros Hin. apply Hn. apply defs_top_alldefs. exact Hin.
    - intros Hin. apply (closedI_dom _ _ _ Hincl) in Hin. apply (Hdisj _ Hin). left. reflexivity. }
  split; [exact Ht|]. exists (fresh_from fresh). split; [exact Ha|]. intros v Hv. left. exact Hv.
Qed.

Lemma in_scope_In Sc v : in_scope Sc v = true -> In v (map fst Sc).
Proof.
  unfold in_scope. destruct (lookup Sc v) eqn:E; [|discriminate]. intros _. eapply lookup_in. exact E.
Qed.

Lemma hoist_sound fresh j : rule_sound (fun Sc o => hoist Sc j o) fresh.
Proof.
  intros Sc D o ops e h Hr Hwf Hnd Hdisj Hincl Hs Hf.
  assert (Hside : hoist_side j o).
  { unfold hoist_side. unfold hoist in Hr.
    destruct o as [| |iv lb ub st body]; try exact I.
    destruct (split_at j body) as [[[pre x] post]|] eqn:Esp; [|exact I].
    destruct x as [d p| |]; try exact I.
    destruct (hoistable_p p && forallb (in_scope Sc) (uses_p p)) eqn:G; [|discriminate].
    apply andb_true_iff in G as [_ G].
    apply split_at_spec in Esp as [-> _].
    rewrite wf_op_For in Hwf. repeat (apply andb_true_iff in Hwf as [Hwf ?]).
    cbn [alldefs_op] in Hnd, Hdisj. fold (alldefs (pre ++ Def d p :: post)) in *.
    rewrite alldefs_app, alldefs_cons in Hnd, Hdisj. cbn [alldefs_op app] in Hnd, Hdisj.
    inversion Hnd as [|? ? Hniv Hnd']; subst.
    assert (HdD : ~ In d D).
    { intros Hin. apply (Hdisj _ Hin). right. apply in_or_app. right. left. reflexivity. }
    assert (Hdiv : d <> iv).
    { intros ->. apply Hniv. apply in_or_app. right. left. reflexivity. }
    assert (Hdpre : ~ In d (alldefs pre)).
    { intros Hin. apply (NoDup_app_disj _ _ _ Hnd' Hin). left. reflexivity. }
    assert (HivD : ~ In iv D) by (apply memb_not_In; apply negb_true_iff; assumption).
    match goal with Hb : wf_block (iv :: D) _ = true |- _ => rewrite wf_block_app in Hb;
      apply andb_true_iff in Hb as [Hwpre _] end.
    split.
    - intros Hin. cbn in Hin. destruct Hin as [Hin|[Hin|[Hin|[Hin|Hin]]]].
      + apply Hdiv. congruence.
      + apply HdD. subst d. apply memb_In. assumption.
      + apply HdD. subst d. apply memb_In. assumption.
      + apply HdD. subst d. apply memb_In. assumption.
      + destruct (wf_vars_block pre (iv :: D) Hwpre d Hin) as [[Hx|Hx]|Hx].
        * apply Hdiv. congruence.
        * apply HdD. exact Hx.
        * apply Hdpre. exact Hx.
    - intros u Hu. rewrite forallb_forall in G. specialize (G u Hu). apply in_scope_In in G.
      apply (closedI_dom _ _ _ Hincl) in G. split; [|split].
      + intros ->. apply HivD. exact G.
      + intros ->. apply HdD. exact G.
      + intros Hin. apply defs_top_alldefs in Hin. apply (Hdisj _ G). right. apply in_or_app. left. exact Hin. }
  destruct (hoist_trace Sc j o ops e h Hr Hside) as [Ht Ha].
  split; [exact Ht|]. exists (hoisted_name j o). split; [exact Ha|].
  intros v Hv. right. unfold hoisted_name in Hv. unfold inner_defs.
  destruct o as [| |iv lb ub st body]; try contradiction.
  destruct (split_at j body) as [[[pre x] post]|] eqn:Esp; [|contradiction].
  destruct x as [d p| |]; try contradiction. subst v.
  apply split_at_spec in Esp as [-> _]. right. rewrite alldefs_app, alldefs_cons.
  apply in_or_app. right. left. reflexivity.
Qed.

Lemma alldefs_vars_op_b o v : In v (alldefs_op o) -> In v (vars_op o).
Proof.
  induction o as [d p|i a|iv lb ub st body IH] using op_ind'; cbn; intros H.
  - destruct H as [<-|[]]. left; reflexivity.
  - contradiction.
  - destruct H as [<-|H]; [left; reflexivity|]. do 4 right.
    apply in_flat_map in H as [o [Ho Hv]]. apply in_flat_map. exists o. split; [exact Ho|].
    rewrite Forall_forall in IH. apply IH; assumption.
Qed.
Lemma alldefs_vars_b b v : In v (alldefs b) -> In v (vars_of b).
Proof.
  unfold alldefs, vars_of. intros H. apply in_flat_map in H as [o [Ho Hv]]. apply in_flat_map.
  exists o. split; [exact Ho|apply alldefs_vars_op_b; exact Hv].
Qed.

Lemma in_lookup_some Sc v : In v (map fst Sc) -> exists p, lookup Sc v = Some p.
Proof.
  induction Sc as [|[x q] Sc IH]; [intros []|]. cbn. destruct (Nat.eqb x v) eqn:E; [eauto|].
  intros [H|H]; [apply Nat.eqb_neq in E; contradiction|apply IH; exact H].
Qed.

(* the loop with the dim erased and its uses redirected to w computes the same trace as the original loop,
   provided w holds the value of the dim whenever the dim would have been evaluated *)
Lemma move_dim_core fresh iv lb ub st pre d src idx post w e e0 h :
  agree (fresh_from fresh) e0 e ->
  (forall v, In v (vars_op (For iv lb ub st (pre ++ Def d (PDim src idx) :: post))) -> (v < fresh)%nat) ->
  d <> w -> ~ In w (alldefs post) -> ~ In d (alldefs post) ->
  (forall x h', fst (exec_block pre (upd e0 iv x) h') w = eval_pexpr (fst (exec_block pre (upd e iv x) h')) [] (PDim src idx)) ->
  snd (exec_op (For iv lb ub st (pre ++ map (subst_op d w) post)) e0 h) =
  snd (exec_op (For iv lb ub st (pre ++ Def d (PDim src idx) :: post)) e h).
Proof.
  intros Ha Hf Hdw Hw Hd Hval.
  assert (Hlt : forall v, In v [lb; ub; st] -> e0 v = e v).
  { intros v Hv. apply Ha. unfold fresh_from. assert ((v < fresh)%nat); [|lia]. apply Hf. cbn in *. tauto. }
  rewrite !exec_For. cbn [snd].
  rewrite (Hlt lb), (Hlt ub), (Hlt st) by (cbn; auto).
  apply iter_hist_ext. intros k h1. set (x := VInt (as_int (e lb) + k * as_int (e st))).
  rewrite !trace_app, trace_Def.
  assert (Hbpre : forall v, In v (vars_of pre) -> ~ fresh_from fresh v).
  { intros v Hv. unfold fresh_from. assert ((v < fresh)%nat); [|lia]. apply Hf. cbn. do 4 right.
    fold (vars_of (pre ++ Def d (PDim src idx) :: post)). rewrite vars_of_app. apply in_or_app. left; exact Hv. }
  assert (Hbpost : forall v, In v (vars_of post) -> ~ fresh_from fresh v).
  { intros v Hv. unfold fresh_from. assert ((v < fresh)%nat); [|lia]. apply Hf. cbn. do 4 right.
    fold (vars_of (pre ++ Def d (PDim src idx) :: post)). rewrite vars_of_app, vars_of_cons.
    apply in_or_app. right. apply in_or_app. right; exact Hv. }
  destruct (exec_block_agree pre (fresh_from fresh) (upd e0 iv x) (upd e iv x) h1) as [Htpre Hag1];
    [apply agree_upd; exact Ha|exact Hbpre|].
  rewrite Htpre. f_equal.
  set (ep0 := fst (exec_block pre (upd e0 iv x) h1)) in *. set (ep := fst (exec_block pre (upd e iv x) h1)) in *.
  set (h2 := hpush (trace pre (upd e iv x) h1) h1).
  destruct (subst_block_ok d w post ep0 (upd ep0 d (ep0 w)) h2) as [Hts _]; [|exact Hd|exact Hw|].
  { split; [intros y Hy; symmetry; apply upd_other; exact Hy|apply upd_same]. }
  rewrite Hts. apply (exec_block_agree post (fresh_from fresh)); [|exact Hbpost].
  unfold ep0 at 2. rewrite (Hval x h1). fold ep. cbn [eval_def eval_pexpr]. apply agree_upd. exact Hag1.
Qed.

Lemma move_dim_sound fresh j : rule_sound (fun Sc o => move_dim Sc fresh j o) fresh.
Proof.
  intros Sc D o ops e h Hr Hwf Hnd Hdisj Hcl Hs Hf.
  unfold move_dim in Hr.
  destruct o as [| |iv lb ub st body]; try discriminate.
  destruct (split_at j body) as [[[pre x] post]|] eqn:Esp; [|discriminate].
  destruct x as [d p| |]; try discriminate. destruct p as [| | |src idx| | |]; try discriminate.
  apply split_at_spec in Esp as [-> _].
  set (Sin := defs_top pre) in *.
  destruct (cst_of (Sin ++ Sc) idx) as [iz|] eqn:Eidx; [|discriminate].
  destruct (negb (forallb (dim_uses_ok d) post)); [discriminate|].
  destruct (resolve_dim 8 Sin Sc src iz) as [r|] eqn:Eres; [|discriminate].
  rewrite wf_op_For in Hwf. repeat (apply andb_true_iff in Hwf as [Hwf ?]).
  match goal with Hb : wf_block (iv :: D) _ = true |- _ =>
    rewrite wf_block_app, wf_block_cons in Hb; apply andb_true_iff in Hb as [Hwpre Hb];
    apply andb_true_iff in Hb as [Hwd Hwpost] end.
  set (Dp := scope_after (iv :: D) pre) in *.
  cbn [wf_op uses_p forallb] in Hwd. rewrite andb_true_r in Hwd.
  apply andb_true_iff in Hwd as [Hwd HdDp]. apply andb_true_iff in Hwd as [Hsrc Hidx].
  apply memb_In in Hsrc.
  assert (HivD : ~ In iv D) by (apply memb_not_In, negb_true_iff; assumption).
  cbn [alldefs_op] in Hnd, Hdisj. fold (alldefs (pre ++ Def d (PDim src idx) :: post)) in *.
  rewrite alldefs_app, alldefs_cons in Hnd, Hdisj. cbn [alldefs_op app] in Hnd, Hdisj.
  inversion Hnd as [|? ? Hniv Hnd']; subst.
  assert (HdD : ~ In d D).
  { intros Hin. apply (Hdisj _ Hin). right. apply in_or_app. right. left. reflexivity. }
  assert (Hdpost : ~ In d (alldefs post)).
  { apply NoDup_app_r in Hnd'. inversion Hnd'; assumption. }
  assert (HDpost : forall v, In v D -> ~ In v (alldefs post)).
  { intros v Hv Hin. apply (Hdisj _ Hv). right. apply in_or_app. right. right. exact Hin. }
  assert (HDpre : forall v, In v D -> ~ In v (map fst (defs_top pre))).
  { intros v Hv Hin. apply defs_top_alldefs in Hin. apply (Hdisj _ Hv). right. apply in_or_app. left. exact Hin. }
  assert (Hbpre : forall v, In v (vars_of pre) -> (v < fresh)%nat).
  { intros v Hv. apply Hf. cbn. do 4 right. fold (vars_of (pre ++ Def d (PDim src idx) :: post)).
    rewrite vars_of_app. apply in_or_app. left; exact Hv. }
  assert (Hfrpre : ~ In fresh (map fst (defs_top pre))).
  { intros Hin. apply defs_top_vars in Hin. specialize (Hbpre _ Hin). lia. }
  assert (Hivf : (iv < fresh)%nat) by (apply Hf; left; reflexivity).
  assert (Hdf : (d < fresh)%nat).
  { apply Hf. cbn. do 4 right. fold (vars_of (pre ++ Def d (PDim src idx) :: post)).
    rewrite vars_of_app, vars_of_cons. apply in_or_app. right. left. reflexivity. }
  (* the scope invariant at the position of the dim, in every iteration *)
  assert (Hinv : forall x h', defs_okI (Sin ++ Sc) (fst (exec_block pre (upd e iv x) h')) /\ closedI Dp (Sin ++ Sc)).
  { intros x h'. apply inv_after_block; [exact Hwpre| |].
    - apply (defs_okI_upd_fresh D); assumption.
    - apply (closedI_mono D); [intros v Hv; right; exact Hv|exact Hcl]. }
  assert (Hdimval : forall x h' r', resolve_dim 8 Sin Sc src iz = Some r' -> repl_safe r' = true ->
            eval_pexpr (fst (exec_block pre (upd e iv x) h')) [] (PDim src idx) =
            VInt (eval_repl (fst (exec_block pre (upd e iv x) h')) r')).
  { intros x h' r' Hr' Hsafe. destruct (Hinv x h') as [Hok _]. set (ep := fst (exec_block pre (upd e iv x) h')) in *.
    cbn [eval_pexpr]. rewrite (defs_okI_scope_ok _ _ Hok _ _ Eidx). cbn [as_int].
    rewrite (move_dim_value 8 Sin Sc src iz r' ep Hr' (defs_okI_defs_ok _ _ Hok) Hsafe). reflexivity. }
  assert (HframeD : forall x h' v, In v D -> fst (exec_block pre (upd e iv x) h') v = e v).
  { intros x h' v Hv. rewrite exec_block_frame by (apply HDpre; exact Hv).
    apply upd_other. intros ->. contradiction. }
  destruct r as [z|v|s i|v c]; try discriminate.
  - (* static size: a new constant in front of the loop *)
    inversion Hr; subst ops; clear Hr.
    set (e0 := upd e fresh (VInt z)).
    assert (Ha0 : agree (fresh_from fresh) e0 e).
    { unfold e0. apply agree_upd_l; [apply agree_refl|unfold fresh_from; lia]. }
    split.
    + rewrite trace_Def. cbn [eval_def eval_pexpr]. fold e0. rewrite trace_cons, trace_nil, app_nil_r.
      apply (move_dim_core fresh); try assumption.
      * lia.
      * intros Hin. apply alldefs_vars_b in Hin.
        assert ((fresh < fresh)%nat); [|lia]. apply Hf. cbn. do 4 right.
        fold (vars_of (pre ++ Def d (PDim src idx) :: post)). rewrite vars_of_app, vars_of_cons.
        apply in_or_app. right. apply in_or_app. right. exact Hin.
      * intros x h'. rewrite (Hdimval x h' _ Eres eq_refl). cbn [eval_repl].
        rewrite exec_block_frame by exact Hfrpre. rewrite upd_other by lia. unfold e0. apply upd_same.
    + exists (fresh_from fresh). split; [|intros v Hv; left; exact Hv].
      rewrite !env_cons, env_For, env_Def. cbn [fst exec_block eval_def eval_pexpr]. exact Ha0.
  - (* an existing value that dominates the loop *)
    destruct (in_scope Sc v) eqn:Ev; [|discriminate]. inversion Hr; subst ops; clear Hr.
    assert (HvD : In v D) by (apply (closedI_dom _ _ _ Hcl), in_scope_In; exact Ev).
    split.
    + rewrite trace_cons, trace_nil, app_nil_r.
      apply (move_dim_core fresh); try assumption.
      * apply agree_refl.
      * intros ->. contradiction.
      * apply HDpost. exact HvD.
      * intros x h'. rewrite (Hdimval x h' _ Eres eq_refl). cbn [eval_repl].
        destruct (Hinv x h') as [Hok _]. set (ep := fst (exec_block pre (upd e iv x) h')) in *.
        destruct (resolve_rvar_kind 8 _ _ _ _ _ Eres) as [p [Hl [[c ->]|[s' [i' ->]]]]];
          rewrite (defs_okI_defs_ok _ _ Hok _ _ Hl eq_refl); reflexivity.
    + exists (fun _ => False). split; [|intros v0 []].
      rewrite !env_cons, !env_For. cbn [fst exec_block]. apply agree_refl.
  - (* dim of a block argument: a new memref.dim in front of the loop *)
    destruct (newdim_idx 8 Sin Sc src idx) as [ix|] eqn:Eix; [|discriminate].
    destruct (in_scope Sc ix && negb (in_scope Sin s) && negb (Nat.eqb s iv)) eqn:G; [|discriminate].
    inversion Hr; subst ops; clear Hr.
    apply andb_true_iff in G as [G Gsiv]. apply andb_true_iff in G as [Gix GsSin].
    apply negb_true_iff in Gsiv. apply Nat.eqb_neq in Gsiv.
    assert (HixD : In ix D) by (apply (closedI_dom _ _ _ Hcl), in_scope_In; exact Gix).
    pose proof (newdim_idx_cst 8 _ _ _ _ _ _ _ _ Eres Eidx Eix) as Hixc.
    assert (HsD : In s D).
    { destruct (Hinv (VInt 0) []) as [_ Hcl'].
      destruct (resolve_newdim_src 8 Sin Sc src iz s i (fun v => In v Dp) Eres Hsrc) as [HsDp Hsnone].
      - intros v0 s' i' Hl. assert (Hin : In (v0, PDim s' i') (Sin ++ Sc)) by (apply in_or_app; left; apply lookup_In; exact Hl).
        destruct (Hcl' _ _ Hin) as [_ Hu]. apply Hu. left. reflexivity.
      - apply scope_after_In in HsDp as [[Hq|Hq]|Hq]; [congruence|exact Hq|].
        exfalso. destruct (in_lookup_some _ _ Hq) as [p Hp]. rewrite lookup_app in Hsnone. fold Sin in Hp.
        rewrite Hp in Hsnone. discriminate. }
    set (e0 := upd e fresh (eval_pexpr e h (PDim s ix))).
    assert (Ha0 : agree (fresh_from fresh) e0 e).
    { unfold e0. apply agree_upd_l; [apply agree_refl|unfold fresh_from; lia]. }
    split.
    + rewrite trace_Def. cbn [eval_def]. fold e0. rewrite trace_cons, trace_nil, app_nil_r.
      apply (move_dim_core fresh); try assumption.
      * lia.
      * intros Hin. apply alldefs_vars_b in Hin.
        assert ((fresh < fresh)%nat); [|lia]. apply Hf. cbn. do 4 right.
        fold (vars_of (pre ++ Def d (PDim src idx) :: post)). rewrite vars_of_app, vars_of_cons.
        apply in_or_app. right. apply in_or_app. right. exact Hin.
      * intros x h'. rewrite (Hdimval x h' _ Eres eq_refl). cbn [eval_repl].
        rewrite exec_block_frame by exact Hfrpre. rewrite upd_other by lia. unfold e0. rewrite upd_same.
        destruct (Hinv x h') as [Hok _].
        cbn [eval_pexpr]. rewrite <- (HframeD x h' ix HixD), <- (HframeD x h' s HsD).
        rewrite (defs_okI_scope_ok _ _ Hok _ _ Hixc). reflexivity.
    + exists (fresh_from fresh). split; [|intros v Hv; left; exact Hv].
      rewrite !env_cons, env_For, env_Def. cbn [fst exec_block eval_def]. exact Ha0.
Qed.

Lemma apply_rule_sound r fresh : rule_sound (fun Sc o => apply_rule r Sc fresh o) fresh.
Proof.
  destruct r as [|j|j|j]; cbn [apply_rule].
  - apply change_step_sound.
  - apply merge_sound.
  - apply hoist_sound.
  - apply move_dim_sound.
Qed.

(* ------------------------------------------------------------------ the context lemma *)
Lemma apply_at_trace f fresh : rule_sound f fresh ->
  forall path D Sc b b' e h,
    wf_block D b = true ->
    NoDup (alldefs b) -> (forall v, In v D -> ~ In v (alldefs b)) ->
    closedI D Sc ->
    defs_okI Sc e ->
    (forall v, In v (vars_of b) -> (v < fresh)%nat) ->
    apply_at f path Sc b = Some b' ->
    trace b' e h = trace b e h.
Proof.
  intros Hsound. induction path as [|i path IH]; intros D Sc b b' e h Hwf Hnd Hdisj Hincl Hs Hf Hr; [discriminate|].
  cbn [apply_at] in Hr.
  destruct (split_at i b) as [[[pre o] post]|] eqn:Esp; [|discriminate].
  apply split_at_spec in Esp as [-> _].
  rewrite wf_block_app, wf_block_cons in Hwf.
  apply andb_true_iff in Hwf as [Hwpre Hwf]. apply andb_true_iff in Hwf as [Hwo Hwpost].
  rewrite alldefs_app, alldefs_cons in Hnd, Hdisj.
  set (D' := scope_after D pre) in *.
  set (Sc' := defs_top pre ++ Sc) in *.
  set (ep := fst (exec_block pre e h)). set (hp := hpush (trace pre e h) h).
  assert (Hndpre : NoDup (map fst (defs_top pre))).
  { apply defs_top_NoDup. apply (NoDup_app_l _ _ Hnd). }
  destruct (inv_after_block pre D Sc e h Hwpre Hs Hincl) as [Hs' Hincl'].
  fold ep in Hs'. fold D' in Hincl'. fold Sc' in Hs', Hincl'.
  assert (Hndo : NoDup (alldefs_op o)).
  { apply NoDup_app_r in Hnd. apply (NoDup_app_l _ _ Hnd). }
  assert (Hdisj' : forall v, In v D' -> ~ In v (alldefs_op o ++ alldefs post)).
  { intros v Hin. apply scope_after_In in Hin as [Hin|Hin].
    - intros H2. apply (Hdisj _ Hin). apply in_or_app. right. exact H2.
    - apply defs_top_alldefs in Hin. apply (NoDup_app_disj _ _ _ Hnd Hin). }
  assert (Hfo : forall v, In v (vars_op o) -> (v < fresh)%nat).
  { intros v Hin. apply Hf. rewrite vars_of_app, vars_of_cons. apply in_or_app. right. apply in_or_app. left. exact Hin. }
  assert (Hfpost : forall v, In v (vars_of post) -> (v < fresh)%nat).
  { intros v Hin. apply Hf. rewrite vars_of_app, vars_of_cons. apply in_or_app. right. apply in_or_app. right. exact Hin. }
  destruct path as [|i2 path2].
  - (* the rule fires here *)
    destruct (f Sc' o) as [ops|] eqn:Ef; [|discriminate]. inversion Hr; subst b'; clear Hr.
    destruct (Hsound Sc' D' o ops ep hp Ef Hwo Hndo) as [Ht [F [Ha HF]]]; try assumption.
    { intros v Hin H2. apply (Hdisj' v Hin). apply in_or_app. left. exact H2. }
    rewrite !trace_app. f_equal. fold ep. fold hp. rewrite trace_cons, Ht. f_equal.
    apply (exec_block_agree post F); [exact Ha|].
    intros v Hin HFv. destruct (HF v HFv) as [Hge|Hinner].
    + specialize (Hfpost v Hin). lia.
    + (* a name defined inside o cannot be mentioned by post *)
      assert (Hino : In v (alldefs_op o)).
      { destruct o as [| |iv lb ub st body]; cbn in Hinner; try contradiction. exact Hinner. }
      assert (Hnotop : ~ In v (map fst (defs_top [o]))).
      { destruct o as [| |iv lb ub st body]; cbn in Hinner; try contradiction. cbn. tauto. }
      destruct (wf_vars_block post (push D' o) Hwpost v Hin) as [Hd|Hd].
      * destruct o as [d p| |]; cbn [push] in Hd.
        -- contradiction.
        -- apply (Hdisj' v Hd). apply in_or_app. left. exact Hino.
        -- apply (Hdisj' v Hd). apply in_or_app. left. exact Hino.
      * apply NoDup_app_r in Hnd. apply (NoDup_app_disj _ _ _ Hnd Hino Hd).
  - (* descend into a loop body *)
    destruct o as [| |iv lb ub st body]; try discriminate.
    destruct (apply_at f (i2 :: path2) Sc' body) as [body'|] eqn:Eb; [|discriminate].
    inversion Hr; subst b'; clear Hr.
    rewrite !trace_app. f_equal. fold ep. fold hp. rewrite !trace_cons, !exec_For. cbn [fst snd].
    assert (Hit : forall h0, iter_hist (fun k h1 => trace body' (upd ep iv (VInt (as_int (ep lb) + k * as_int (ep st)))) h1)
                     (zrange (trip (as_int (ep lb)) (as_int (ep ub)) (as_int (ep st)))) h0 =
                   iter_hist (fun k h1 => trace body (upd ep iv (VInt (as_int (ep lb) + k * as_int (ep st)))) h1)
                     (zrange (trip (as_int (ep lb)) (as_int (ep ub)) (as_int (ep st)))) h0);
      [|rewrite Hit; reflexivity].
    apply iter_hist_ext. intros k h1.
    rewrite wf_op_For in Hwo. repeat (apply andb_true_iff in Hwo as [Hwo ?]).
    assert (HivD : ~ In iv D') by (apply memb_not_In; apply negb_true_iff; assumption).
    cbn [alldefs_op] in Hndo, Hdisj'. fold (alldefs body) in *.
    inversion Hndo as [|? ? Hniv Hndb]; subst.
    apply (IH (iv :: D') Sc' body body'); try assumption.
    + intros v [<-|Hin]; [exact Hniv|].
      intros Hb2. apply (Hdisj' v Hin). right. apply in_or_app. left. exact Hb2.
    + apply (closedI_mono D'); [intros v Hv; right; exact Hv|exact Hincl'].
    + apply (defs_okI_upd_fresh D'); assumption.
    + intros v Hin. apply Hfo. cbn. do 4 right. exact Hin.
Qed.

Lemma maxvar_bound b v : In v (vars_of b) -> (v < S (maxvar b))%nat.
Proof.
  unfold maxvar. induction (vars_of b) as [|x l IH]; [intros []|].
  cbn [fold_right]. intros [->|Hin]; [lia|]. specialize (IH Hin). lia.
Qed.

Lemma nodupb_NoDup l : nodupb l = true -> NoDup l.
Proof.
  induction l as [|x l IH]; intros H; [constructor|]. cbn in H. apply andb_true_iff in H as [H1 H2].
  constructor; [|apply IH; exact H2]. apply memb_not_In. apply negb_true_iff. exact H1.
Qed.

(* Any rule, anywhere in a well-formed program, from any environment. *)
Theorem rewrite_trace r path args b b' e h :
  wf_prog args b = true ->
  rewrite r path b = Some b' ->
  trace b' e h = trace b e h.
Proof.
  intros Hwf Hr. unfold wf_prog in Hwf. apply andb_true_iff in Hwf as [Hw Hn]. apply nodupb_NoDup in Hn.
  unfold rewrite in Hr.
  apply (apply_at_trace _ (S (maxvar b)) (apply_rule_sound r (S (maxvar b))) path args [] b b' e h); try assumption.
  - apply (NoDup_app_r _ _ Hn).
  - intros v Hin. apply (NoDup_app_disj _ _ _ Hn Hin).
  - intros v p [].
  - intros v p [].
  - apply maxvar_bound.
Qed.

(* Finite sequences of rule applications; every intermediate program is checked to be well-formed SSA. *)
Fixpoint rewrite_seq (args : list var) (steps : list (rule * list nat)) (b : list op) : option (list op) :=
  match steps with
  | [] => Some b
  | (r, path) :: rest =>
    if wf_prog args b then
      match rewrite r path b with
      | Some b' => rewrite_seq args rest b'
      | None => None
      end
    else None
  end.

Theorem rewrite_seq_trace steps : forall args b b' e h,
  rewrite_seq args steps b = Some b' ->
  trace b' e h = trace b e h.
Proof.
  induction steps as [|[r path] rest IH]; intros args b b' e h H; cbn [rewrite_seq] in H.
  - inversion H; reflexivity.
  - destruct (wf_prog args b) eqn:Hwf; [|discriminate].
    destruct (rewrite r path b) as [b1|] eqn:Hr; [|discriminate].
    rewrite (IH _ _ _ e h H). eapply rewrite_trace; eassumption.
Qed.
