(* C20 — history_correct without the well-formedness hypothesis on the merged graph. *)
From Snax Require Import Base.Prelude Model.C20Phs Proofs.C20PhsProofs Proofs.C20DecodeProofs
  Proofs.C20SearchProofs Proofs.C20AppendProofs Proofs.C20HistoryProofs Proofs.C20WfProofs.

Section HistoryFull.
  Variable opsem : opk -> list Z -> Z.

  Theorem history_correct gs G :
    merge_all gs = Some G ->
    (forall g, In g gs -> kernel_ok g = true /\ pe_wf g = true /\ pdata g = pdata G) ->
    forall g, In g gs ->
      exists sw, decode G g = Some sw /\ true_switches G = Some (length sw) /\
                 forall ins v swg, eval_pe opsem g swg ins = Some v -> eval_pe opsem G sw ins = Some v.
  Proof.
    intros Hm Hok. apply (history_correct_wf opsem gs G Hm).
    - intros g Hg. destruct (Hok g Hg) as (H1 & _ & H3). auto.
    - destruct gs as [|g0 rest]; [discriminate|]. unfold merge_all in Hm.
      apply (merge_pe_wf rest g0 G Hm). destruct (Hok g0 (or_introl eq_refl)) as (_ & H & _). exact H.
  Qed.

  (* append_keeps in terms of decode: a decodable embedded kernel stays decodable after one more append, with
     the same function *)
  Theorem append_keeps_decode g g' G G' :
    pe_wf G = true -> kernel_ok g = true -> pdata g = pdata G ->
    embeds g G -> append g' G = Some G' ->
    exists sw', decode G' g = Some sw' /\ embeds g G' /\
                forall ins v swg, eval_pe opsem g swg ins = Some v -> eval_pe opsem G' sw' ins = Some v.
  Proof.
    intros Hwf Hk Hpd Hemb Ha.
    unfold kernel_ok in Hk. rewrite !andb_true_iff in Hk. destruct Hk as [Hc Hn].
    destruct (append_embeds g' G G' Ha) as (Hm & _ & Hd).
    pose proof (append_pe_wf g' G G' Hwf Ha) as Hwf'.
    pose proof (Hm g Hemb) as Hemb'.
    destruct (embedded_decodable g G' Hwf' Hc Hn (eq_trans Hpd (eq_sym Hd)) Hemb') as [sw' Hsw'].
    exists sw'. split; [exact Hsw'|]. split; [exact Hemb'|].
    apply decode_sound_pe; auto. apply emb_ops_agree; auto.
  Qed.
End HistoryFull.
