(* C02 — gemmx set_stride_patterns: every operand's pattern reaches a streamer unchanged, every other
   slot is disabled or reads the zero address. *)
From Snax Require Import Base.Prelude Base.ListAux Model.C02Stream Model.C02Gemmx Proofs.C02StreamProofs Proofs.C02CanonProofs.

Lemma nest_app_nil pre X : nest X = [] -> nest (pre ++ X) = [].
Proof.
  intros H. induction pre as [|[s b] pre IH]; [exact H|]. cbn [app nest]. rewrite IH. reflexivity.
Qed.

Lemma nest_has_bound0 : forall dims, existsb (fun d => snd d =? 0) dims = true -> nest dims = [].
Proof.
  induction dims as [|[s b] dims IH]; intros H; [discriminate|]. cbn [existsb snd] in H.
  apply orb_true_iff in H as [H|H].
  - apply Z.eqb_eq in H. subst b. apply nest_bound0.
  - cbn [nest]. rewrite (IH H). reflexivity.
Qed.

(* a disabled pattern touches no word at all, whatever the spatial geometry *)
Theorem disabled_no_words : forall p spats, disabledb p = true -> pattern_words p spats = [].
Proof.
  intros p spats H. unfold disabledb in H. apply andb_true_iff in H as [H Hl]. apply Nat.eqb_eq in Hl.
  unfold pattern_words, pattern_dims. apply nest_app_nil. apply nest_has_bound0.
  revert Hl H. generalize (sp_ts p). induction (sp_ub p) as [|u ub IH]; intros [|t ts] Hl H; simpl in *; try discriminate.
  apply orb_true_iff in H as [H|H]; [rewrite H; reflexivity|]. rewrite (IH ts) by (try lia; exact H). apply orb_true_r.
Qed.

