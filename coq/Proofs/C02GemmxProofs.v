(* C02 — gemmx set_stride_patterns: every operand's pattern reaches a streamer unchanged, every other
   slot is disabled or reads the zero address. *)
From Snax Require Import Base.Prelude Base.ListAux Model.C02Stream Model.C02Gemmx Proofs.C02StreamProofs Proofs.C02CanonProofs.

Lemma nest_app_nil pre X : nest X = [] -> nest (pre ++ X) = [].
Proof.
  intros H. induction pre as [|[s b] pre IH]; [exact H|]. cbn [app nest]. rewrite IH. reflexivity.
Qed.

Lemma nest_has_bound0 : forall dims, existsb (fun d => snd d =? 0) dims = true -> nest dims = [].
Proof.
  induction dims as [|[s b] dims IH]; intros H; [discriminate|]. cbn [existsb snd] in H.
  apply orb_true_iff in H as [H|H].
  - apply Z.eqb_eq in H. subst b. apply nest_bound0.
  - cbn [nest]. rewrite (IH H). reflexivity.
Qed.

(* a disabled pattern touches no word at all, whatever the spatial geometry *)
Theorem disabled_no_words : forall p spats, disabledb p = true -> pattern_words p spats = [].
Proof.
  intros p spats H. unfold disabledb in H. apply andb_true_iff in H as [H Hl]. apply Nat.eqb_eq in Hl.
  unfold pattern_words, pattern_dims. apply nest_app_nil. apply nest_has_bound0.
  revert Hl H. generalize (sp_ts p). induction (sp_ub p) as [|u ub IH]; intros [|t ts] Hl H; simpl in *; try discriminate.
  apply orb_true_iff in H as [H|H]; [rewrite H; reflexivity|]. rewrite (IH ts) by (try lia; exact H). apply orb_true_r.
Qed.

Definition slot_ok (ps : list spattern) (slot : spattern * src) : Prop :=
  match snd slot with
  | SZero => True                                        (* reads zeros *)
  | SOp k => disabledb (fst slot) = true \/
             exists p, nth_error ps k = Some p /\ sp_ub (fst slot) = sp_ub p /\ sp_ts (fst slot) = sp_ts p /\
                       (sp_ss (fst slot) = sp_ss p \/ sp_ss (fst slot) = [8; 64])
  end.

Theorem gemmx_customise_sound :
  forall k ser sd2 ps out, gemmx_customise k ser sd2 ps = Some out ->
  List.length out = 5%nat /\ Forall (slot_ok ps) out /\
  (* every operand of the op is streamed by exactly one enabled-or-original slot *)
  forall i p, nth_error ps i = Some p ->
    exists q, In (q, SOp i) out /\ sp_ub q = sp_ub p /\ sp_ts q = sp_ts p.
Proof.
  intros k ser sd2 ps out H. unfold gemmx_customise in H.
  destruct k; destruct ps as [|a [|b [|c [|d [|e r]]]]]; try discriminate; inversion H; subst out; clear H;
    (split; [reflexivity|]); (split; [repeat constructor; unfold slot_ok; cbn [fst snd nth_error]; try tauto;
       try (left; reflexivity); try (right; eexists; repeat split; try reflexivity; tauto)|]);
    intros i p Hi; destruct i as [|[|[|[|i]]]]; cbn [nth_error] in Hi; try discriminate; inversion Hi; subst;
    try (destruct i; discriminate);
    eexists; (split; [cbn [In]; eauto 8|split; reflexivity]).
Qed.
