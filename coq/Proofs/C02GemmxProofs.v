(* C02 — gemmx set_stride_patterns: every operand's pattern reaches a streamer unchanged, every other
   slot is disabled or reads the zero address. *)
From Snax Require Import Base.Prelude Base.ListAux Model.C02Stream Model.C02Gemmx Proofs.C02StreamProofs Proofs.C02CanonProofs.

Lemma nest_app_nil pre X : nest X = [] -> nest (pre ++ X) = [].
Proof.
  intros H. induction pre as [|[s b] pre IH]; [exact H|]. cbn [app nest]. rewrite IH. reflexivity.
Qed.

Lemma nest_has_bound0 : forall dims, existsb (fun d => snd d =? 0) dims = true -> nest dims = [].
Proof.
  induction dims as [|[s b] dims IH]; intros H; [discriminate|]. cbn [existsb snd] in H.
  apply orb_true_iff in H as [H|H].
  - apply Z.eqb_eq in H. subst b. apply nest_bound0.
  - cbn [nest]. rewrite (IH H). reflexivity.
Qed.

(* a disabled pattern touches no word at all, whatever the spatial geometry *)
Theorem disabled_no_words : forall p spats, disabledb p = true -> pattern_words p spats = [].
Proof.
  intros p spats H. unfold disabledb in H. apply andb_true_iff in H as [H Hl]. apply Nat.eqb_eq in Hl.
  unfold pattern_words, pattern_dims. apply nest_app_nil. apply nest_has_bound0.
  revert Hl H. generalize (sp_ts p). induction (sp_ub p) as [|u ub IH]; intros [|t ts] Hl H; simpl in *; try discriminate.
  apply orb_true_iff in H as [H|H]; [rewrite H; reflexivity|]. rewrite (IH ts) by (try lia; exact H). apply orb_true_r.
Qed.


(* ---- set_stride_patterns of gemmx: where every operand pattern ends up -------------------------- *)
Definition slot_ok (ps : list spattern) (slot : spattern * src) : Prop :=
  match snd slot with
  | SZero => True                                        (* reads zeros *)
  | SOp k => disabledb (fst slot) = true \/
             exists p, nth_error ps k = Some p /\ sp_ub (fst slot) = sp_ub p /\ sp_ts (fst slot) = sp_ts p /\
                       (sp_ss (fst slot) = sp_ss p \/ sp_ss (fst slot) = [8; 64])
  end.

Lemma slot_same ps k p : nth_error ps k = Some p -> slot_ok ps (p, SOp k).
Proof. intros H. right. exists p. cbn [fst]. repeat split; try assumption; try reflexivity. left. reflexivity. Qed.

Lemma slot_disabled ps p k : disabledb p = true -> slot_ok ps (p, SOp k).
Proof. intros H. left. exact H. Qed.

Lemma slot_zero ps p : slot_ok ps (p, SZero).
Proof. exact I. Qed.

Lemma slot_respat ps k p : nth_error ps k = Some p -> slot_ok ps (mkSP (sp_ub p) (sp_ts p) [8; 64], SOp k).
Proof. intros H. right. exists p. cbn [fst sp_ub sp_ts sp_ss]. repeat split; try assumption. right. reflexivity. Qed.

Lemma empty1_disabled : disabledb empty1 = true.  Proof. reflexivity. Qed.
Lemma empty2_disabled : disabledb empty2 = true.  Proof. reflexivity. Qed.
Lemma empty1_respat_disabled : disabledb (mkSP (sp_ub empty1) (sp_ts empty1) [8; 64]) = true.  Proof. reflexivity. Qed.

Ltac slots :=
  repeat (apply Forall_cons;
          [first [ apply slot_zero | apply slot_same; reflexivity | apply slot_disabled; reflexivity
                 | apply slot_respat; reflexivity ]|]);
  apply Forall_nil.

Theorem gemmx_customise_sound :
  forall k ser sd2 ps out, gemmx_customise k ser sd2 ps = Some out ->
  List.length out = 5%nat /\ Forall (slot_ok ps) out /\
  (* every operand of the op is streamed by a slot with its temporal bounds and strides *)
  forall i p, nth_error ps i = Some p ->
    exists q, In (q, SOp i) out /\ sp_ub q = sp_ub p /\ sp_ts q = sp_ts p.
Proof.
  intros k ser sd2 ps out H. unfold gemmx_customise in H.
  destruct k.
  - (* matmul, i32 output *)
    destruct ps as [|a [|b [|d [|? ?]]]]; try discriminate H. injection H as <-.
    split; [reflexivity|]. split.
    + slots.
    + intros i p Hi. destruct i as [|[|[|i]]]; cbn [nth_error] in Hi; try (destruct i; discriminate Hi);
        injection Hi as <-; eexists; (split; [|split; reflexivity]); cbn [In]; tauto.
  - (* matmul, i8 output *)
    destruct ps as [|a [|b [|d [|? ?]]]]; try discriminate H. injection H as <-.
    split; [reflexivity|]. split.
    + slots.
    + intros i p Hi. destruct i as [|[|[|i]]]; cbn [nth_error] in Hi; try (destruct i; discriminate Hi);
        injection Hi as <-; eexists; (split; [|split; reflexivity]); cbn [In]; tauto.
  - (* gemm, i32 output *)
    destruct ps as [|a [|b [|c [|d [|? ?]]]]]; try discriminate H. injection H as <-.
    split; [reflexivity|]. split.
    + slots.
    + intros i p Hi. destruct i as [|[|[|[|i]]]]; cbn [nth_error] in Hi; try (destruct i; discriminate Hi);
        injection Hi as <-; eexists; (split; [|split; reflexivity]); cbn [In]; tauto.
  - (* gemm, i8 output *)
    destruct ps as [|a [|b [|c [|d [|? ?]]]]]; try discriminate H. injection H as <-.
    split; [reflexivity|]. split.
    + slots.
    + intros i p Hi. destruct i as [|[|[|[|i]]]]; cbn [nth_error] in Hi; try (destruct i; discriminate Hi);
        injection Hi as <-; eexists; (split; [|split; reflexivity]); cbn [In]; tauto.
  - (* rescale only *)
    destruct ps as [|c [|d [|? ?]]]; try discriminate H. injection H as <-.
    split; [reflexivity|]. split.
    + slots.
    + intros i p Hi. destruct i as [|[|i]]; cbn [nth_error] in Hi; try (destruct i; discriminate Hi); injection Hi as <-.
      * exists (mkSP (sp_ub c) (sp_ts c) [8; 64]). split; [cbn [In]; tauto|split; reflexivity].
      * exists d. split; [cbn [In]; tauto|split; reflexivity].
Qed.
