(* C20 — proofs, part 10: convert_generic_body_to_phs succeeds on every SSA body and its result satisfies
   kernel_total_ok; hence the property from kernel bodies without any hypothesis on graphs or on the merge. *)
From Snax Require Import Base.Prelude Base.ListAux Model.C20Phs Model.C20Order Proofs.C20PhsProofs
  Proofs.C20DecodeProofs Proofs.C20SearchProofs Proofs.C20AppendProofs Proofs.C20HistoryProofs
  Proofs.C20WfProofs Proofs.C20HistoryFullProofs Proofs.C20EncodeProofs Proofs.C20EncodeSemProofs
  Proofs.C20EndToEndProofs Proofs.C20TotalProofs.

(* ---------------------------------------------------------------- encode succeeds *)
Lemma conv_succeeds b ids j s :
  ksrc_ok (bnargs b) j s = true -> (j <= length ids)%nat -> exists o, conv_ksrc b ids s = Some o.
Proof.
  intros H Hj. destruct s as [i|j']; cbn [ksrc_ok conv_ksrc] in *.
  - rewrite H. eauto.
  - apply Nat.ltb_lt in H. destruct (nth_error ids j') eqn:E; [eauto|]. apply nth_error_None in E. lia.
Qed.

Lemma encode_nodes_succeeds b ids : forall ops j,
  (j + length ops = length ids)%nat -> kops_ok (bnargs b) j ops = true ->
  exists ns, encode_nodes b ids j ops = Some ns.
Proof.
  induction ops as [|o r IH]; intros j Hl Hk; cbn [encode_nodes]; [eauto|].
  cbn [kops_ok] in Hk. apply andb_true_iff in Hk as [Ho Hr]. cbn [length] in Hl.
  destruct (nth_error ids j) as [id|] eqn:Eid; [|apply nth_error_None in Eid; lia].
  destruct (map_opt_some (conv_ksrc b ids) (kargs o)) as [args ->].
  { intros s Hs. rewrite forallb_forall in Ho. apply (conv_succeeds b ids j); [apply Ho; exact Hs|lia]. }
  destruct (IH (S j)) as [ns ->]; [lia|exact Hr|]. eauto.
Qed.

Theorem encode_succeeds b : body_ok b = true -> exists g, encode b = Some g.
Proof.
  unfold body_ok. intros H. apply andb_true_iff in H as [Hk Hy]. unfold encode.
  destruct (encode_nodes_succeeds b (body_ids b) (bops b) 0) as [ns ->]; [|exact Hk|].
  { unfold body_ids. rewrite ids_from_length. reflexivity. }
  destruct (byield b) as [|y ys]; [discriminate|].
  destruct (conv_succeeds b (body_ids b) (length (bops b)) y Hy) as [o ->]; [|eauto].
  unfold body_ids. rewrite ids_from_length. lia.
Qed.

(* ---------------------------------------------------------------- block order *)
Lemma firstn_S_nth {A} (l : list A) j x : nth_error l j = Some x -> firstn (S j) l = firstn j l ++ [x].
Proof.
  revert j. induction l as [|y r IH]; intros [|j] H; cbn [nth_error firstn] in *; try discriminate.
  - inversion H. reflexivity.
  - cbn [app]. f_equal. apply IH. exact H.
Qed.

Lemma nth_error_firstn_in {A} (l : list A) j j' x : nth_error l j' = Some x -> (j' < j)%nat -> In x (firstn j l).
Proof.
  revert j j'. induction l as [|y r IH]; intros j j' H Hlt; [destruct j'; discriminate|].
  destruct j as [|j]; [lia|]. destruct j' as [|j']; cbn [nth_error firstn] in *.
  - inversion H. left. reflexivity.
  - right. eapply IH; eauto. lia.
Qed.

Lemma conv_defined b ids j s o :
  ksrc_ok (bnargs b) j s = true -> conv_ksrc b ids s = Some o ->
  forallb (leaf_defined (firstn j ids)) (leaves o) = true.
Proof.
  intros Hk Hc. destruct s as [i|j']; cbn [ksrc_ok conv_ksrc] in *.
  - destruct (i <? bnargs b)%nat; [|discriminate]. inversion Hc; subst. reflexivity.
  - apply Nat.ltb_lt in Hk. destruct (nth_error ids j') as [id|] eqn:E; [|discriminate]. inversion Hc; subst.
    cbn [leaves forallb leaf_defined]. rewrite andb_true_r. apply existsb_exists. exists id.
    split; [eapply nth_error_firstn_in; eauto|apply ident_eqb_refl].
Qed.

Lemma map_conv_defined b ids j l r :
  forallb (ksrc_ok (bnargs b) j) l = true -> map_opt (conv_ksrc b ids) l = Some r ->
  forallb (leaf_defined (firstn j ids)) (flat_map leaves r) = true.
Proof.
  revert r. induction l as [|s l IH]; intros r Hk H; cbn [map_opt] in H.
  - inversion H. reflexivity.
  - cbn [forallb] in Hk. apply andb_true_iff in Hk as [Hs Hl].
    destruct (conv_ksrc b ids s) as [o|] eqn:Eo; [|discriminate].
    destruct (map_opt (conv_ksrc b ids) l) as [r'|] eqn:E; [|discriminate]. inversion H; subst.
    cbn [flat_map]. rewrite forallb_app', (conv_defined _ _ _ _ _ Hs Eo), (IH r' Hl eq_refl). reflexivity.
Qed.

Lemma encode_nodes_ordered b ids : forall ops j ns,
  encode_nodes b ids j ops = Some ns -> kops_ok (bnargs b) j ops = true ->
  ordered_nodes (firstn j ids) ns = true.
Proof.
  induction ops as [|o r IH]; intros j ns H Hk; cbn [encode_nodes] in H.
  - inversion H. reflexivity.
  - cbn [kops_ok] in Hk. apply andb_true_iff in Hk as [Ho Hr].
    destruct (nth_error ids j) as [id|] eqn:Eid; [|discriminate].
    destruct (map_opt (conv_ksrc b ids) (kargs o)) as [args|] eqn:Ea; [|discriminate].
    destruct (encode_nodes b ids (S j) r) as [ns'|] eqn:En; [|discriminate]. inversion H; subst. clear H.
    cbn [ordered_nodes nargs nid]. rewrite (map_conv_defined _ _ _ _ _ Ho Ea). cbn [andb].
    rewrite <- (firstn_S_nth _ _ _ Eid). apply (IH _ _ En Hr).
Qed.

(* ---------------------------------------------------------------- arguments in range, arities *)
Lemma new_index_lt b i :
  arg_used b i = true -> (i < bnargs b)%nat ->
  (new_index b i < length (filter (arg_used b) (seq 0 (bnargs b))))%nat.
Proof.
  intros Hu Hi. unfold new_index. rewrite (seq_split i (bnargs b) Hi), filter_app, app_length.
  cbn [filter]. rewrite Hu. cbn [length]. lia.
Qed.

Lemma conv_in_range b ids s o :
  conv_ksrc b ids s = Some o -> (forall i, s = KArg i -> arg_used b i = true) ->
  src_in_range (length (filter (arg_used b) (seq 0 (bnargs b)))) o = true.
Proof.
  intros Hc Hu. destruct s as [i|j']; cbn [conv_ksrc] in Hc.
  - destruct (i <? bnargs b)%nat eqn:E; [|discriminate]. inversion Hc; subst. cbn [src_in_range].
    apply Nat.ltb_lt. apply new_index_lt; [apply Hu; reflexivity|apply Nat.ltb_lt; exact E].
  - destruct (nth_error ids j'); [|discriminate]. inversion Hc; subst. reflexivity.
Qed.

Lemma map_conv_in_range b ids l r :
  map_opt (conv_ksrc b ids) l = Some r -> (forall i, In (KArg i) l -> arg_used b i = true) ->
  forallb (src_in_range (length (filter (arg_used b) (seq 0 (bnargs b))))) r = true.
Proof.
  revert r. induction l as [|s l IH]; intros r H Hu; cbn [map_opt] in H.
  - inversion H. reflexivity.
  - destruct (conv_ksrc b ids s) as [o|] eqn:Eo; [|discriminate].
    destruct (map_opt (conv_ksrc b ids) l) as [r'|] eqn:E; [|discriminate]. inversion H; subst.
    cbn [forallb]. rewrite (conv_in_range _ _ _ _ Eo) by (intros i ->; apply Hu; left; reflexivity).
    apply (IH r' eq_refl). intros i Hi. apply Hu. right. exact Hi.
Qed.

Lemma ids_from_nth ops : forall seen k id,
  nth_error (ids_from seen ops) k = Some id -> exists o, nth_error ops k = Some o /\ fst id = ksig o.
Proof.
  induction ops as [|o r IH]; intros seen k id H; cbn [ids_from] in H; [destruct k; discriminate|].
  destruct k as [|k]; cbn [nth_error] in *.
  - inversion H; subst. exists o. auto.
  - eapply IH; eauto.
Qed.

Lemma used_in_op b o i : In o (bops b) -> In (KArg i) (kargs o) -> arg_used b i = true.
Proof.
  intros Ho Hi. unfold arg_used. apply orb_true_iff. left. apply existsb_exists. exists o. split; [exact Ho|].
  apply existsb_exists. exists (KArg i). split; [exact Hi|cbn; apply Nat.eqb_refl].
Qed.

(* ---------------------------------------------------------------- encode_total_ok *)
Theorem encode_total_ok b g : body_total_ok b = true -> encode b = Some g -> kernel_total_ok g = true.
Proof.
  unfold body_total_ok. intros Hb Henc. apply andb_true_iff in Hb as [Hok Har].
  destruct (encode_ok b g Henc) as (H1 & H2 & H3).
  pose proof Hok as Hok'. unfold body_ok in Hok'. apply andb_true_iff in Hok' as [Hk Hy].
  pose proof Henc as H. unfold encode in H.
  destruct (encode_nodes b (body_ids b) 0 (bops b)) as [ns|] eqn:En; [|discriminate].
  destruct (byield b) as [|y ys] eqn:Ey; [discriminate|].
  destruct (conv_ksrc b (body_ids b) y) as [oy|] eqn:Eo; [|discriminate]. inversion H; subst g. clear H.
  destruct (encode_nodes_spec _ _ _ _ _ En) as (Hsw & Hids & Hn3).
  assert (map nid ns = body_ids b) as Hids'.
  { rewrite Hids. cbn [skipn]. unfold body_ids. rewrite <- (ids_from_length (bops b) []). apply firstn_all. }
  assert (length ns = length (bops b)) as Hln by (rewrite <- (map_length nsw ns), Hsw, seq_length; reflexivity).
  (* every node comes from an op *)
  assert (forall n, In n ns -> exists k o id args, nth_error (bops b) k = Some o /\ nth_error (body_ids b) k = Some id /\
            map_opt (conv_ksrc b (body_ids b)) (kargs o) = Some args /\ n = mkNode id k [kkind o] args) as Hnode.
  { intros n Hn. destruct (In_nth_error _ _ Hn) as [k Hk'].
    assert (k < length (bops b))%nat as Hlt by (rewrite <- Hln; apply nth_error_Some; congruence).
    destruct (nth_error (bops b) k) as [o|] eqn:Eok; [|apply nth_error_None in Eok; lia].
    destruct (encode_nodes_nth b (body_ids b) _ _ _ En k o Eok) as (id & args & Hid & Hargs & Hnd).
    cbn [plus] in *. rewrite Hk' in Hnd. inversion Hnd; subst. exists k, o, id, args. auto. }
  unfold kernel_total_ok. rewrite H1, H2, H3. cbn [andb pnodes pout pdata length]. rewrite Nat.eqb_refl, andb_true_r.
  assert (block_ordered (mkPe (length (filter (arg_used b) (seq 0 (bnargs b)))) (length (bops b)) ns [oy]) = true) as ->.
  { unfold block_ordered. cbn [pnodes pout]. apply andb_true_iff. split.
    - apply (encode_nodes_ordered b (body_ids b) (bops b) 0 ns En Hk).
    - rewrite Hids'. cbn [flat_map]. rewrite app_nil_r.
      pose proof (conv_defined b (body_ids b) (length (bops b)) y oy Hy Eo) as Hd.
      assert (firstn (length (bops b)) (body_ids b) = body_ids b) as Hfa.
      { unfold body_ids. rewrite <- (ids_from_length (bops b) []) at 1. apply firstn_all. }
      rewrite Hfa in Hd. exact Hd. }
  cbn [andb].
  assert (args_in_range (mkPe (length (filter (arg_used b) (seq 0 (bnargs b)))) (length (bops b)) ns [oy]) = true) as ->.
  { unfold args_in_range, all_srcs. cbn [pnodes pout pdata]. rewrite forallb_app'. apply andb_true_iff. split.
    - apply forallb_forall. intros s Hs. apply in_flat_map in Hs as (n & Hn & Hs).
      destruct (Hnode n Hn) as (k & o & id & args & Hok1 & _ & Hargs & ->). cbn [nargs] in Hs.
      pose proof (map_conv_in_range b (body_ids b) (kargs o) args Hargs) as Hr.
      rewrite forallb_forall in Hr. apply Hr; [|exact Hs].
      intros i Hi. eapply used_in_op; [eapply nth_error_In; eauto|exact Hi].
    - cbn [forallb]. rewrite andb_true_r. apply (conv_in_range b (body_ids b) y oy Eo).
      intros i ->. unfold arg_used. apply orb_true_iff. right. rewrite Ey. cbn [existsb ksrc_is_arg]. rewrite Nat.eqb_refl. reflexivity. }
  cbn [andb]. unfold arity_ok. cbn [pnodes]. apply forallb_forall. intros n Hn.
  destruct (Hnode n Hn) as (k & o & id & args & Hok1 & Hid & Hargs & ->). cbn [nargs nid].
  rewrite (map_opt_length _ _ _ Hargs). unfold body_ids in Hid.
  destruct (ids_from_nth _ _ _ _ Hid) as (o' & Ho' & Hfst). rewrite Hok1 in Ho'. inversion Ho'; subst o'.
  rewrite Hfst. unfold arity_body in Har. rewrite forallb_forall in Har. apply Har. eapply nth_error_In; eauto.
Qed.

(* ---------------------------------------------------------------- the property from bodies, total *)
Section BodiesTotal.
  Variable opsem : opk -> list Z -> Z.

  Theorem bodies_history_correct_total b0 brest d :
    (forall b, In b (b0 :: brest) -> body_total_ok b = true /\
               length (filter (arg_used b) (seq 0 (bnargs b))) = d) ->
    exists gs G, Forall2 (fun b g => encode b = Some g) (b0 :: brest) gs /\ merge_all gs = Some G /\
      forall b g, In (b, g) (combine (b0 :: brest) gs) ->
        exists sw, decode G g = Some sw /\ true_switches G = Some (length sw) /\
          forall ins v, (bnargs b <= length ins)%nat -> eval_body opsem b ins = Some v ->
                        eval_pe opsem G sw (used_inputs b ins) = Some v.
  Proof.
    intros Hb.
    assert (forall bs, (forall b, In b bs -> body_total_ok b = true /\ length (filter (arg_used b) (seq 0 (bnargs b))) = d) ->
              exists gs, Forall2 (fun b g => encode b = Some g) bs gs /\
                         forall g, In g gs -> kernel_total_ok g = true /\ pdata g = d) as Henc.
    { induction bs as [|b bs IH]; intros H; [exists []; split; [constructor|intros g []]|].
      destruct (H b (or_introl eq_refl)) as [Hbt Hd]. pose proof Hbt as Hbt'. unfold body_total_ok in Hbt'.
      apply andb_true_iff in Hbt' as [Hok _]. destruct (encode_succeeds b Hok) as [g Hg].
      destruct IH as (gs & HF & Hgs); [intros x Hx; apply H; right; exact Hx|].
      exists (g :: gs). split; [constructor; assumption|]. intros x [<-|Hx]; [|apply Hgs; exact Hx].
      split; [eapply encode_total_ok; eauto|].
      unfold encode in Hg. destruct (encode_nodes b (body_ids b) 0 (bops b)); [|discriminate].
      destruct (byield b); [discriminate|]. destruct (conv_ksrc b (body_ids b) k); [|discriminate].
      injection Hg as <-. exact Hd. }
    destruct (Henc (b0 :: brest) Hb) as (gs & HF & Hgs).
    destruct gs as [|g0 grest]; [inversion HF|].
    destruct (merge_succeeds g0 grest d Hgs) as (G & Hm & HdG).
    exists (g0 :: grest), G. split; [exact HF|]. split; [exact Hm|].
    apply (bodies_history_correct opsem (b0 :: brest) (g0 :: grest) G HF); [| |exact Hm].
    - intros b Hin. destruct (Hb b Hin) as [Hbt _]. unfold body_total_ok in Hbt. apply andb_true_iff in Hbt as [H _]. exact H.
    - intros g Hg. destruct (Hgs g Hg) as [_ H]. congruence.
  Qed.
End BodiesTotal.
