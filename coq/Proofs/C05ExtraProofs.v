(* C05 — MatchSimpleCopy, decidable forms of the hypotheses, and the refutation witness (F6). *)
From Snax Require Import Base.Prelude Base.ListAux Model.Tsl Model.C05Copy
  Proofs.TslProofs Proofs.C05MemProofs Proofs.C05DigitProofs Proofs.C05LccbProofs Proofs.C05CopyProofs
  Proofs.C05MainProofs.

(* ---- has_dup / injectivity -------------------------------------------------------------------- *)
Lemma has_dup_false_NoDup l : has_dup l = false -> NoDup l.
Proof.
  induction l as [|x l IH]; intros H; [constructor|]. cbn [has_dup] in H.
  apply orb_false_iff in H as [H1 H2]. constructor; [|apply IH; exact H2].
  intros Hin. assert (existsb (Z.eqb x) l = true) by (apply existsb_exists; exists x; split; [exact Hin|apply Z.eqb_refl]).
  congruence.
Qed.

Lemma NoDup_map_inj {A B} (f : A -> B) (l : list A) : NoDup (map f l) ->
  forall i j, In i l -> In j l -> f i = f j -> i = j.
Proof.
  induction l as [|x l IH]; intros H i j Hi Hj E; [destruct Hi|]. cbn [map] in H.
  inversion H as [|y l' Hx H']; subst. destruct Hi as [<-|Hi], Hj as [<-|Hj].
  - reflexivity.
  - exfalso. apply Hx. rewrite E. apply in_map. exact Hj.
  - exfalso. apply Hx. rewrite <- E. apply in_map. exact Hi.
  - apply (IH H' i j Hi Hj E).
Qed.

Lemma shape_of_eq a b : equal_tile_bounds a b = true -> shape_of a = shape_of b.
Proof.
  unfold equal_tile_bounds. intros H.
  apply (list_eqb_eq (list_eqb optZ_eqb)) in H; [|apply list_eqb_eq, optZ_eqb_eq].
  unfold tile_bounds in H. unfold shape_of. revert H. generalize (tstrides a) (tstrides b).
  induction l as [|t l IH]; intros [|t' l'] H; try discriminate; [reflexivity|].
  cbn [map] in H. inversion H as [[H1 H2]]. cbn [map]. rewrite (bounds_prod_sbound _ _ H1), (IH l' H2). reflexivity.
Qed.

(* the code's own notion of a non-overlapping destination implies injectivity on the box *)
Lemma self_overlaps_inj src dst : layout_ok dst -> equal_tile_bounds src dst = true ->
  self_overlaps dst = false -> inj_on dst (shape_of src).
Proof.
  intros Hok Hetb Hso. unfold inj_on. rewrite (shape_of_eq _ _ Hetb).
  apply NoDup_map_inj. rewrite (affine_map_all_values dst Hok). apply has_dup_false_NoDup. exact Hso.
Qed.

(* ---- MatchSimpleCopy ------------------------------------------------------------------------------ *)
Definition rm_addr (shape idx : list Z) : Z := dot (row_major_strides shape) idx.

Lemma rm_addr_range shape : forall idx, in_box idx shape -> 0 <= rm_addr shape idx < zprod shape.
Proof.
  unfold rm_addr. induction shape as [|n shape IH]; intros idx H; inversion H as [|i n' idx' sh Hi H']; subst.
  - cbn. lia.
  - specialize (IH idx' H'). cbn [row_major_strides dot]. change (zprod (n :: shape)) with (n * zprod shape). nia.
Qed.

Theorem simple_copy_correct el shape ps pd m idx k :
  0 < el -> In idx (row_major shape) -> 0 <= k < el ->
  run ps pd (lower_simple el shape) m (pd + rm_addr shape idx * el + k) = m (ps + rm_addr shape idx * el + k).
Proof.
  intros Hel Hidx Hk. apply in_row_major in Hidx. pose proof (rm_addr_range shape idx Hidx) as Hr.
  unfold run, lower_simple. cbn [exec]. unfold aeval, copy1d. cbn [fst snd dot].
  assert (Hlt : rm_addr shape idx * el + k < zprod shape * el).
  { assert ((rm_addr shape idx + 1) * el <= zprod shape * el) by (apply Z.mul_le_mono_nonneg_r; lia). lia. }
  assert (Hge : 0 <= rm_addr shape idx * el) by nia.
  replace ((pd + (0 + 0) <=? pd + rm_addr shape idx * el + k) &&
           (pd + rm_addr shape idx * el + k <? pd + (0 + 0) + zprod shape * el)) with true by lia.
  f_equal. lia.
Qed.

Theorem simple_copy_footprint el shape ps pd b x :
  0 < el -> Forall (fun n => 0 < n) shape ->
  In b (bursts ps pd (lower_simple el shape) []) -> 0 <= x < b_len b ->
  b_src b + x - ps = b_dst b + x - pd /\ 0 <= b_src b + x - ps < zprod shape * el.
Proof.
  intros Hel Hpos [<-|[]] Hx. unfold b_src, b_dst, b_len, aeval in *. cbn [fst snd dot] in *. lia.
Qed.
