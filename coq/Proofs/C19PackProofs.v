(* C19 (c) — proofs about the pack_bitlist model: the emitted op DAG evaluates to the or of the
   shifted fields (low w bits), for every list of values/offsets (ints or SSA values), any length. *)
From Coq Require Import Permutation.
From Snax Require Import Base.Prelude Base.ListAux Model.C19Pack.

(* ---- bit-level facts ------------------------------------------------------------------------ *)
Lemma wrap_lor w a b : 0 <= w -> Z.lor (wrap w a) (wrap w b) = wrap w (Z.lor a b).
Proof.
  intros Hw. unfold wrap. rewrite <- !Z.land_ones by exact Hw.
  rewrite Z.land_lor_distr_l. reflexivity.
Qed.

Lemma wrap_wrap w a : 0 <= w -> wrap w (wrap w a) = wrap w a.
Proof. intros Hw. unfold wrap. apply Z.mod_mod. apply Z.pow_nonzero; lia. Qed.

Lemma wrap_0 w : wrap w 0 = 0.
Proof. unfold wrap. apply Zmod_0_l. Qed.

Lemma wrap_shiftl_l w a b : 0 <= w -> 0 <= b -> wrap w (Z.shiftl (wrap w a) b) = wrap w (Z.shiftl a b).
Proof.
  intros Hw Hb. unfold wrap. rewrite !Z.shiftl_mul_pow2 by exact Hb.
  rewrite Z.mul_mod_idemp_l by (apply Z.pow_nonzero; lia). reflexivity.
Qed.

Lemma wrap_nonneg w a : 0 <= w -> 0 <= wrap w a.
Proof. intros Hw. unfold wrap. apply Z.mod_pos_bound. apply Z.pow_pos_nonneg; lia. Qed.

Lemma fold_lor_snoc l x : fold_right Z.lor 0 (l ++ [x]) = Z.lor x (fold_right Z.lor 0 l).
Proof.
  induction l as [|y ys IH]; cbn [app fold_right].
  - reflexivity.
  - rewrite IH. rewrite !Z.lor_assoc. f_equal. apply Z.lor_comm.
Qed.

Lemma fold_lor_wrap w l : 0 <= w ->
  fold_right Z.lor 0 (map (wrap w) l) = wrap w (fold_right Z.lor 0 l).
Proof.
  intros Hw. induction l as [|y ys IH]; cbn [map fold_right].
  - symmetry. apply wrap_0.
  - rewrite IH. apply wrap_lor. exact Hw.
Qed.

(* any association / order of the or-tree gives the same word *)
Lemma fold_lor_perm l1 l2 : Permutation l1 l2 -> fold_right Z.lor 0 l1 = fold_right Z.lor 0 l2.
Proof.
  induction 1 as [|x l l' _ IH|x y l|l l' l'' _ IH1 _ IH2]; cbn [fold_right].
  - reflexivity.
  - rewrite IH. reflexivity.
  - rewrite !Z.lor_assoc. f_equal. apply Z.lor_comm.
  - congruence.
Qed.

Lemma wrap_const_norm w z : wrap w (const_norm w z) = wrap w z.
Proof.
  unfold wrap, const_norm. destruct (2 ^ (w - 1) <=? z); [|reflexivity].
  destruct (Z.eq_dec (2 ^ w) 0) as [E|E]; [rewrite E, !Zmod_0_r; lia|].
  replace (z - 2 ^ w) with (z + (-1) * 2 ^ w) by lia. apply Z.mod_add. exact E.
Qed.

Lemma fold_lor_app l1 l2 :
  fold_right Z.lor 0 (l1 ++ l2) = Z.lor (fold_right Z.lor 0 l1) (fold_right Z.lor 0 l2).
Proof.
  induction l1 as [|x xs IH]; cbn [app fold_right]; [reflexivity|]. rewrite IH, Z.lor_assoc. reflexivity.
Qed.

Lemma ot_eval_leaves t : ot_eval t = fold_right Z.lor 0 (ot_leaves t).
Proof.
  induction t as [z|l IHl r IHr]; cbn [ot_eval ot_leaves fold_right].
  - rewrite Z.lor_0_r. reflexivity.
  - rewrite fold_lor_app, IHl, IHr. reflexivity.
Qed.

Lemma ortree_any_shape t1 t2 : Permutation (ot_leaves t1) (ot_leaves t2) -> ot_eval t1 = ot_eval t2.
Proof. intros H. rewrite !ot_eval_leaves. apply fold_lor_perm. exact H. Qed.

(* ---- running op lists ----------------------------------------------------------------------- *)
Lemma last_nth {A} (l : list A) d : last l d = nth (pred (length l)) l d.
Proof.
  induction l as [|x xs IH]; [reflexivity|].
  destruct xs as [|y ys]; [reflexivity|].
  change (last (x :: y :: ys) d) with (last (y :: ys) d). rewrite IH. reflexivity.
Qed.

Section Run.
  Variable w : Z.
  Variable ext : nat -> Z.
  Hypothesis Hw : 0 <= w.

  Notation run := (run_ops w ext).
  Notation rv := (ref_val w ext).

  Lemma run_app a b res : run (a ++ b) res = run b (run a res).
  Proof. unfold run_ops. apply fold_left_app. Qed.

  Lemma run_cons op ops res : run (op :: ops) res = run ops (res ++ [eval_op w ext res op]).
  Proof. reflexivity. Qed.

  Lemma run_prefix ops : forall res, exists tl, run ops res = res ++ tl /\ length tl = length ops.
  Proof.
    induction ops as [|op ops IH]; intros res.
    - exists []. rewrite app_nil_r. split; reflexivity.
    - rewrite run_cons. destruct (IH (res ++ [eval_op w ext res op])) as [tl [E L]].
      exists (eval_op w ext res op :: tl). rewrite E, <- app_assoc. split; [reflexivity|]. simpl. lia.
  Qed.

  Lemma run_length ops res : length (run ops res) = (length res + length ops)%nat.
  Proof. destruct (run_prefix ops res) as [tl [E L]]. rewrite E, app_length. lia. Qed.

  Definition ref_ok (res : list Z) (r : pk_ref) : Prop :=
    match r with RExt _ => True | RRes k => (k < length res)%nat end.

  Lemma ref_ok_app res tl r : ref_ok res r -> ref_ok (res ++ tl) r.
  Proof. destruct r; simpl; [tauto|]. rewrite app_length. lia. Qed.

  Lemma rv_app res tl r : ref_ok res r -> rv (res ++ tl) r = rv res r.
  Proof. destruct r; simpl; [reflexivity|]. intros H. apply app_nth1. exact H. Qed.

  (* "reference r is defined in res and holds v" *)
  Definition holds (res : list Z) (r : pk_ref) (v : Z) : Prop := ref_ok res r /\ rv res r = v.

  Lemma holds_app res tl r v : holds res r v -> holds (res ++ tl) r v.
  Proof. intros [H1 H2]. split; [apply ref_ok_app; exact H1 | rewrite rv_app; assumption]. Qed.

  Lemma holds_run ops res r v : holds res r v -> holds (run ops res) r v.
  Proof. intros H. destruct (run_prefix ops res) as [tl [E _]]. rewrite E. apply holds_app. exact H. Qed.

  Lemma Forall2_holds_app res tl q vals :
    Forall2 (holds res) q vals -> Forall2 (holds (res ++ tl)) q vals.
  Proof. induction 1; constructor; [apply holds_app|]; assumption. Qed.

  Lemma holds_new res v : holds (res ++ [v]) (RRes (length res)) v.
  Proof.
    split; simpl.
    - rewrite app_length; simpl; lia.
    - rewrite app_nth2 by lia. rewrite Nat.sub_diag. reflexivity.
  Qed.

  (* ---- materialisation of one operand ---- *)
  Lemma materialize_sound x next res :
    length res = next ->
    let '(ops, r, n) := pk_materialize w x next in
    n = (next + length ops)%nat /\ holds (run ops res) r (operand_val w ext x).
  Proof.
    intros L. destruct x as [z|i]; cbn [pk_materialize].
    - split; [simpl; lia|]. cbn [run_ops fold_left eval_op operand_val]. subst next.
      rewrite wrap_const_norm. apply holds_new.
    - split; [simpl; lia|]. split; simpl; [exact I|reflexivity].
  Qed.

  Definition shifted (vo : pk_operand * pk_operand) : Z :=
    wrap w (Z.shiftl (operand_val w ext (fst vo)) (operand_val w ext (snd vo))).

  (* ---- phase 1: the shift loop ---- *)
  Lemma pack_shifts_sound vos : forall next res,
    length res = next ->
    let '(ops, refs) := pack_shifts w vos next in
    Forall2 (holds (run ops res)) refs (map shifted vos)
    /\ (vos <> [] -> last refs (RExt 0) = RRes (pred (length (run ops res)))).
  Proof.
    induction vos as [|[v o] rest IH]; intros next res L.
    - cbn [pack_shifts map]. split; [constructor|congruence].
    - cbn [pack_shifts].
      pose proof (materialize_sound o next res L) as Ho.
      destruct (pk_materialize w o next) as [[ops_o ro] n1]. destruct Ho as [En1 Ho].
      assert (L1 : length (run ops_o res) = n1) by (rewrite run_length; lia).
      pose proof (materialize_sound v n1 (run ops_o res) L1) as Hv.
      destruct (pk_materialize w v n1) as [[ops_v rv'] n2]. destruct Hv as [En2 Hv].
      set (res2 := run ops_v (run ops_o res)) in *.
      assert (L2 : length res2 = n2) by (unfold res2; rewrite run_length; lia).
      set (sv := eval_op w ext res2 (OpShl rv' ro)).
      assert (L3 : length (res2 ++ [sv]) = S n2) by (rewrite app_length; simpl; lia).
      specialize (IH (S n2) (res2 ++ [sv]) L3).
      destruct (pack_shifts w rest (S n2)) as [ops_r refs] eqn:Eps. destruct IH as [IHf IHl].
      assert (Erun : run (ops_o ++ ops_v ++ OpShl rv' ro :: ops_r) res = run ops_r (res2 ++ [sv])).
      { rewrite !run_app, run_cons. reflexivity. }
      rewrite Erun. split.
      + cbn [map]. constructor; [|exact IHf].
        apply holds_run. rewrite <- L2.
        replace (shifted (v, o)) with sv; [apply holds_new|].
        unfold sv, shifted. cbn [eval_op fst snd].
        destruct Hv as [_ Hv]. rewrite Hv.
        assert (Ho2 : holds res2 ro (operand_val w ext o)) by (apply holds_run; exact Ho).
        destruct Ho2 as [_ Ho2]. rewrite Ho2. reflexivity.
      + intros _. destruct rest as [|p rest'].
        * cbn [pack_shifts] in Eps. injection Eps as <- <-. cbn [last run_ops fold_left]. rewrite L3. simpl. reflexivity.
        * assert (Hne : p :: rest' <> []) by congruence. specialize (IHl Hne).
          destruct refs as [|r0 refs0].
          { inversion IHf. }
          change (last (RRes n2 :: r0 :: refs0) (RExt 0)) with (last (r0 :: refs0) (RExt 0)). exact IHl.
  Qed.

  (* ---- phase 2: the queue-shaped or tree ---- *)
  Lemma pack_ors_sound fuel : forall q vals next res,
    length res = next ->
    (length q <= fuel)%nat ->
    Forall2 (holds res) q vals ->
    q <> [] ->
    last q (RExt 0) = RRes (pred (length res)) ->
    last (run (pack_ors fuel q next) res) 0 = fold_right Z.lor 0 vals.
  Proof.
    induction fuel as [|f IH]; intros q vals next res L Hf H2 Hne Hl.
    - destruct q; [congruence|simpl in Hf; lia].
    - destruct q as [|a q1]; [congruence|].
      destruct q1 as [|b rest].
      + (* single element: nothing emitted; it is the last result *)
        cbn [pack_ors run_ops fold_left]. cbn [last] in Hl. subst a.
        inversion H2 as [|? v ? vs Ha Hr]; subst. inversion Hr; subst.
        cbn [fold_right]. rewrite Z.lor_0_r. destruct Ha as [_ Ha]. simpl in Ha.
        rewrite last_nth. exact Ha.
      + cbn [pack_ors]. rewrite run_cons.
        inversion H2 as [|? va ? vs1 Ha Hr1]; subst. inversion Hr1 as [|? vb ? vs Hb Hr]; subst.
        set (nv := eval_op w ext res (OpOr a b)).
        assert (Env : nv = Z.lor va vb).
        { unfold nv. cbn [eval_op]. destruct Ha as [_ Ha], Hb as [_ Hb]. rewrite Ha, Hb. reflexivity. }
        assert (L' : length (res ++ [nv]) = S (length res)) by (rewrite app_length; simpl; lia).
        rewrite (IH (rest ++ [RRes (length res)]) (vs ++ [nv]) (S (length res)) (res ++ [nv])).
        * rewrite fold_lor_snoc, Env. cbn [fold_right]. rewrite Z.lor_assoc. reflexivity.
        * exact L'.
        * rewrite app_length. simpl in *. lia.
        * apply Forall2_app; [apply Forall2_holds_app; exact Hr|].
          constructor; [apply holds_new|constructor].
        * destruct rest; discriminate.
        * rewrite last_last, L'. reflexivity.
  Qed.

  (* ---- the whole function ---- *)
  Lemma pack_value vs os ops :
    pack_bitlist vs os w = Some ops -> vs <> [] ->
    pack_result w ext ops = pack_spec w ext vs os.
  Proof.
    unfold pack_bitlist, pack_result, pack_spec. intros H Hne.
    destruct (length vs =? length os)%nat eqn:El; [|discriminate].
    apply Nat.eqb_eq in El. cbn [andb] in H.
    destruct (forallb _ (combine vs os)); [|discriminate].
    pose proof (pack_shifts_sound (combine vs os) 0%nat [] eq_refl) as P.
    destruct (pack_shifts w (combine vs os) 0) as [sops refs]. destruct P as [Pf Pl].
    injection H as <-. rewrite run_app.
    assert (Hc : combine vs os <> []).
    { destruct vs; [congruence|]. destruct os; [discriminate|]. discriminate. }
    rewrite (pack_ors_sound (length refs) refs (map shifted (combine vs os)) (length sops) (run sops [])).
    - unfold shifted. rewrite <- map_map with (g := wrap w). rewrite fold_lor_wrap by exact Hw. reflexivity.
    - rewrite run_length. reflexivity.
    - lia.
    - exact Pf.
    - intros ->. inversion Pf as [E1 E2|]. symmetry in E2. apply map_eq_nil in E2. contradiction.
    - apply Pl. exact Hc.
  Qed.

  (* an error exactly when the lengths differ or an integer does not fit dtype *)
  Lemma pack_error vs os :
    pack_bitlist vs os w = None <->
    (length vs <> length os \/
     exists vo, In vo (combine vs os) /\ (operand_in_range w (fst vo) && operand_in_range w (snd vo)) = false).
  Proof.
    unfold pack_bitlist. destruct (length vs =? length os)%nat eqn:El; cbn [andb].
    - apply Nat.eqb_eq in El.
      destruct (forallb _ (combine vs os)) eqn:Ef.
      + destruct (pack_shifts w (combine vs os) 0). split; [discriminate|].
        intros [H|[vo [Hin Hr]]]; [congruence|].
        rewrite forallb_forall in Ef. rewrite (Ef vo Hin) in Hr. discriminate.
      + split; [intros _|reflexivity]. right.
        apply Bool.not_true_iff_false in Ef. rewrite forallb_forall in Ef.
        destruct (existsb (fun vo => negb (operand_in_range w (fst vo) && operand_in_range w (snd vo))) (combine vs os)) eqn:Ex.
        * apply existsb_exists in Ex. destruct Ex as [vo [Hin Hn]]. exists vo. split; [exact Hin|].
          apply negb_true_iff in Hn. exact Hn.
        * exfalso. apply Ef. intros vo Hin.
          destruct (operand_in_range w (fst vo) && operand_in_range w (snd vo)) eqn:E; [reflexivity|].
          assert (existsb (fun vo => negb (operand_in_range w (fst vo) && operand_in_range w (snd vo))) (combine vs os) = true).
          { apply existsb_exists. exists vo. split; [exact Hin|]. rewrite E. reflexivity. }
          congruence.
    - apply Nat.eqb_neq in El. split; [intros _; left; exact El|reflexivity].
  Qed.
End Run.

