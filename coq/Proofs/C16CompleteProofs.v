(* C16: COMPLETENESS of the row-space model.  If a is a rational combination of the rows of B then the
   fraction-free elimination reduces a to zero, hence [row_in_span B a = true]; together with soundness,
   [rowspace_eqb A B = true] iff the two matrices have the same rational row space. *)
From Snax Require Import Base.Prelude Base.ListAux Model.C03Schedule Model.C16Matcher
  Proofs.C16MatcherProofs Proofs.C16ElimProofs.

Definition bvec (e : belem) : vec := snd (fst e).
Definition bpiv (e : belem) : nat := fst (fst e).
Definition vecs (basis : list belem) : list vec := map bvec basis.

(* f is a rational combination of V, in integer form *)
Definition in_spanf (V : list vec) (f : nat -> Z) : Prop :=
  exists D mu, D <> 0 /\ length mu = length V /\ forall j, D * f j = lincomb j mu V.
Definition in_span (V : list vec) (x : vec) : Prop := in_spanf V (fun j => nth j x 0).

Fixpoint echelon (basis : list belem) : Prop :=
  match basis with
  | [] => True
  | e :: rest => nth (bpiv e) (bvec e) 0 <> 0 /\ Forall (fun e' => nth (bpiv e) (bvec e') 0 = 0) rest /\ echelon rest
  end.

Lemma lincomb_app j m1 m2 V1 V2 : length m1 = length V1 ->
  lincomb j (m1 ++ m2) (V1 ++ V2) = lincomb j m1 V1 + lincomb j m2 V2.
Proof.
  revert V1; induction m1 as [|x m1 IH]; intros [|v V1] H; try discriminate; cbn [app lincomb]; [lia|].
  rewrite IH by (injection H; auto). lia.
Qed.

Lemma lincomb_col_zero p mu V : Forall (fun v => nth p v 0 = 0) V -> lincomb p mu V = 0.
Proof.
  intros H. revert mu; induction H as [|v V Hv _ IH]; intros [|x mu]; cbn [lincomb]; try reflexivity.
  rewrite IH, Hv. lia.
Qed.

Lemma lincomb_nil_r j mu : lincomb j mu [] = 0.
Proof. destruct mu; reflexivity. Qed.

Lemma vzerob_of_nth v : (forall j, nth j v 0 = 0) -> vzerob v = true.
Proof.
  induction v as [|x v IH]; intros H; [reflexivity|]. cbn [vzerob forallb]. apply andb_true_iff. split.
  - specialize (H 0%nat). cbn in H. lia.
  - apply IH. intros j. exact (H (S j)).
Qed.

Section Complete.
  Variable n : nat.

  Definition blen_ok (e : belem) : Prop := length (bvec e) = n.

  (* one elimination step *)
  Lemma reduce_cons pc v c r x d m :
    reduce ((pc, v, c) :: r) x d m =
    if nth pc x 0 =? 0 then reduce r x d m
    else reduce r (vsub (vscale (nth pc v 0) x) (vscale (nth pc x 0) v)) (nth pc v 0 * d)
                  (vadd (vscale (nth pc v 0) m) (vscale (nth pc x 0) c)).
  Proof. reflexivity. Qed.

  Lemma step_length v x : length v = n -> length x = n ->
    length (vsub (vscale (nth 0 v 0) x) (vscale (nth 0 x 0) v)) = n.
  Proof. intros Hv Hx. rewrite vsub_length; rewrite !vscale_length; congruence. Qed.

  Lemma reduce_length basis : Forall blen_ok basis -> forall x d m x' d' m',
    length x = n -> reduce basis x d m = (x', d', m') -> length x' = n.
  Proof.
    induction 1 as [|[[pc v] c] r Hv _ IH]; intros x d m x' d' m' Hx Hr.
    - cbn in Hr. congruence.
    - rewrite reduce_cons in Hr. unfold blen_ok, bvec in Hv. cbn in Hv.
      destruct (nth pc x 0 =? 0); [eapply IH; eauto|].
      eapply IH; [|exact Hr]. rewrite vsub_length; rewrite !vscale_length; congruence.
  Qed.

  (* a column on which every basis vector vanishes stays zero *)
  Lemma reduce_keeps_zero p basis : Forall blen_ok basis -> Forall (fun e => nth p (bvec e) 0 = 0) basis ->
    forall x d m x' d' m', length x = n -> nth p x 0 = 0 -> reduce basis x d m = (x', d', m') -> nth p x' 0 = 0.
  Proof.
    induction 1 as [|[[pc v] c] r Hv _ IH]; intros Hz x d m x' d' m' Hx Hp Hr.
    - cbn in Hr. congruence.
    - inversion Hz as [|? ? Hz1 Hz2]; subst. unfold blen_ok, bvec in Hv, Hz1. cbn in Hv, Hz1.
      rewrite reduce_cons in Hr. destruct (nth pc x 0 =? 0); [eapply IH; eauto|].
      eapply IH; [exact Hz2| | |exact Hr].
      + rewrite vsub_length; rewrite !vscale_length; congruence.
      + rewrite vsub_nth by (rewrite !vscale_length; congruence). rewrite !vscale_nth, Hp, Hz1. lia.
  Qed.

  (* after the elimination the row vanishes on every pivot *)
  Lemma reduce_zero_pivots basis : Forall blen_ok basis -> echelon basis ->
    forall x d m x' d' m', length x = n -> reduce basis x d m = (x', d', m') ->
      Forall (fun e => nth (bpiv e) x' 0 = 0) basis.
  Proof.
    induction 1 as [|[[pc v] c] r Hv Hr IH]; intros He x d m x' d' m' Hx Hred; [constructor|].
    destruct He as (Hp & Hz & He). unfold blen_ok, bvec, bpiv in *. cbn [fst snd] in *.
    rewrite reduce_cons in Hred.
    destruct (nth pc x 0 =? 0) eqn:E.
    - constructor; [|eapply IH; eauto]. cbn [fst]. eapply (reduce_keeps_zero pc r Hr Hz); [exact Hx| |exact Hred]. lia.
    - assert (Hl : length (vsub (vscale (nth pc v 0) x) (vscale (nth pc x 0) v)) = n)
        by (rewrite vsub_length; rewrite !vscale_length; congruence).
      constructor; [|eapply IH; eauto]. cbn [fst].
      eapply (reduce_keeps_zero pc r Hr Hz); [exact Hl| |exact Hred].
      rewrite vsub_nth by (rewrite !vscale_length; congruence). rewrite !vscale_nth. lia.
  Qed.

  Definition piv_ok (e : belem) : Prop := nth (bpiv e) (bvec e) 0 <> 0.

  Lemma echelon_piv_ok basis : echelon basis -> Forall piv_ok basis.
  Proof. induction basis as [|e r IH]; intros H; [constructor|]. destruct H as (Hp & _ & He). constructor; auto. Qed.

  (* the result is D*x minus a combination of the basis vectors *)
  Lemma reduce_comb basis : Forall blen_ok basis -> Forall piv_ok basis -> forall x d m x' d' m', length x = n ->
    reduce basis x d m = (x', d', m') ->
    exists D c, D <> 0 /\ length c = length basis /\
      forall j, nth j x' 0 = D * nth j x 0 - lincomb j c (vecs basis).
  Proof.
    induction 1 as [|[[pc v] c0] r Hv Hr IH]; intros Hpo x d m x' d' m' Hx Hred.
    - cbn in Hred. injection Hred as <- _ _. exists 1, []. split; [lia|]. split; [reflexivity|]. intros j. cbn [vecs map lincomb]. lia.
    - inversion Hpo as [|? ? Hp1 Hp2]; subst. unfold piv_ok, bpiv, bvec in Hp1. cbn [fst snd] in Hp1.
      unfold blen_ok, bvec in Hv. cbn [fst snd] in Hv. rewrite reduce_cons in Hred.
      destruct (nth pc x 0 =? 0) eqn:E.
      + destruct (IH Hp2 _ _ _ _ _ _ Hx Hred) as (D & c & HD & Hc & Hj).
        exists D, (0 :: c). split; [exact HD|]. split; [cbn; congruence|]. intros j.
        cbn [vecs map lincomb]. fold (vecs r). rewrite Hj. lia.
      + assert (Hl : length (vsub (vscale (nth pc v 0) x) (vscale (nth pc x 0) v)) = n)
          by (rewrite vsub_length; rewrite !vscale_length; congruence).
        destruct (IH Hp2 _ _ _ _ _ _ Hl Hred) as (D & c & HD & Hc & Hj).
        exists (D * nth pc v 0), (D * nth pc x 0 :: c).
        split; [nia|]. split; [cbn; congruence|].
        intros j. cbn [vecs map lincomb]. fold (vecs r). rewrite Hj.
        rewrite vsub_nth by (rewrite !vscale_length; congruence). rewrite !vscale_nth. unfold bvec. cbn [fst snd]. lia.
  Qed.

  (* ---- spans ---------------------------------------------------------------------- *)
  Lemma in_spanf_ext V f g : (forall j, f j = g j) -> in_spanf V f -> in_spanf V g.
  Proof. intros H (D & mu & HD & Hl & Hj). exists D, mu. repeat split; auto. intros j. rewrite <- H. apply Hj. Qed.

  Lemma in_span_weaken V w x : in_span V x -> in_span (V ++ [w]) x.
  Proof.
    intros (D & mu & HD & Hl & Hj). exists D, (mu ++ [0]). split; [exact HD|].
    split; [rewrite !app_length; cbn; lia|]. intros j. rewrite lincomb_app by exact Hl. rewrite Hj. cbn. lia.
  Qed.

  (* a combination of vectors of the span is in the span *)
  Lemma in_span_lincomb V B : Forall (in_span V) B -> forall m, in_spanf V (fun j => lincomb j m B).
  Proof.
    induction 1 as [|bk B Hk _ IH]; intros m.
    - exists 1, (repeat 0 (length V)). split; [lia|]. split; [apply repeat_length|]. intros j.
      rewrite lincomb_nil_r, lincomb_zero. lia.
    - destruct m as [|mk m].
      + exists 1, (repeat 0 (length V)). split; [lia|]. split; [apply repeat_length|]. intros j. cbn [lincomb].
        rewrite lincomb_zero. lia.
      + destruct Hk as (D0 & nu0 & HD0 & Hl0 & Hj0). destruct (IH m) as (D1 & nu1 & HD1 & Hl1 & Hj1).
        exists (D0 * D1), (vadd (vscale (D1 * mk) nu0) (vscale D0 nu1)). split; [nia|].
        split; [rewrite vadd_length; rewrite !vscale_length; congruence|]. intros j. cbn [lincomb].
        rewrite lincomb_vadd by (rewrite !vscale_length; congruence). rewrite !lincomb_vscale, <- Hj0, <- Hj1. lia.
  Qed.

  (* triangularity: a vector of the span of an echelon basis that vanishes on all pivots is zero *)
  Lemma echelon_zero basis : echelon basis -> forall f, in_spanf (vecs basis) f ->
    Forall (fun e => f (bpiv e) = 0) basis -> forall j, f j = 0.
  Proof.
    induction basis as [|e r IH]; intros He f (D & mu & HD & Hl & Hj) Hz j.
    - specialize (Hj j). cbn [vecs map] in Hj. rewrite lincomb_nil_r in Hj. nia.
    - destruct He as (Hp & Hcol & He). inversion Hz as [|? ? Hz1 Hz2]; subst.
      destruct mu as [|m1 mu]; [discriminate|]. cbn [vecs map length] in Hl.
      assert (Hm1 : m1 = 0).
      { pose proof (Hj (bpiv e)) as E. cbn [vecs map lincomb] in E. fold (vecs r) in E.
        rewrite lincomb_col_zero in E.
        - rewrite Hz1 in E. nia.
        - unfold vecs. apply Forall_map. exact Hcol. }
      subst m1. apply (IH He); [|exact Hz2].
      exists D, mu. split; [exact HD|]. split; [unfold vecs in *; rewrite map_length in *; lia|].
      intros j'. rewrite Hj. change (vecs (e :: r)) with (bvec e :: vecs r). cbn [lincomb]. lia.
  Qed.
End Complete.

Lemma echelon_snoc basis e : echelon basis -> piv_ok e ->
  Forall (fun b => nth (bpiv b) (bvec e) 0 = 0) basis -> echelon (basis ++ [e]).
Proof.
  induction basis as [|b r IH]; intros He Hp Hz; cbn [app echelon].
  - split; [exact Hp|]. split; [constructor|exact I].
  - destruct He as (H1 & H2 & H3). inversion Hz as [|? ? Hz1 Hz2]; subst. split; [exact H1|]. split.
    + apply Forall_app. split; [exact H2|]. constructor; [exact Hz1|constructor].
    + apply IH; assumption.
Qed.

Lemma vecs_app b1 b2 : vecs (b1 ++ b2) = vecs b1 ++ vecs b2.
Proof. apply map_app. Qed.

Section Complete2.
  Variable B : list vec.
  Variable n : nat.
  Hypothesis HB : Forall (fun r => length r = n) B.
  Let nB := length B.

  Definition basis_inv (basis : list belem) : Prop := Forall (blen_ok n) basis /\ echelon basis.

  Lemma build_basis_inv : forall rows i basis done,
    Forall (fun r => length r = n) rows -> basis_inv basis -> Forall (in_span (vecs basis)) done ->
    basis_inv (build_basis nB rows i basis) /\
    Forall (in_span (vecs (build_basis nB rows i basis))) (done ++ rows).
  Proof.
    induction rows as [|r rest IH]; intros i basis done Hrows Hinv Hdone.
    - cbn [build_basis]. rewrite app_nil_r. auto.
    - inversion Hrows as [|? ? Hr Hrest]; subst. cbn [build_basis]. destruct Hinv as [Hlen Hech].
      destruct (reduce basis r 1 (repeat 0 nB)) as [[x d] m] eqn:Hred.
      pose proof (reduce_length n basis Hlen _ _ _ _ _ _ Hr Hred) as Hx.
      pose proof (reduce_zero_pivots n basis Hlen Hech _ _ _ _ _ _ Hr Hred) as Hzp.
      destruct (reduce_comb n basis Hlen (echelon_piv_ok basis Hech) _ _ _ _ _ _ Hr Hred) as (D & c & HD & Hc & Hj).
      assert (Hcl : length c = length (vecs basis)) by (unfold vecs; rewrite map_length; exact Hc).
      replace (done ++ r :: rest) with ((done ++ [r]) ++ rest) by (rewrite <- app_assoc; reflexivity).
      destruct (vzerob x) eqn:Hz.
      + apply IH; [exact Hrest|split; assumption|]. apply Forall_app. split; [exact Hdone|]. constructor; [|constructor].
        exists D, c. split; [exact HD|]. split; [exact Hcl|]. intros j. pose proof (Hj j) as E.
        rewrite (vzerob_nth x Hz) in E. lia.
      + set (e := (pivot x, x, vsub (vscale d (unit_vec nB i)) m)).
        apply IH; [exact Hrest| |].
        * split.
          -- apply Forall_app. split; [exact Hlen|]. constructor; [exact Hx|constructor].
          -- apply echelon_snoc; [exact Hech| |exact Hzp]. unfold piv_ok, e, bpiv, bvec. cbn [fst snd].
             apply pivot_nonzero. exact Hz.
        * rewrite vecs_app. change (vecs [e]) with [x].
          apply Forall_app. split.
          -- eapply Forall_impl; [|exact Hdone]. intros y Hy. apply (in_span_weaken n). exact Hy.
          -- constructor; [|constructor]. exists D, (c ++ [1]). split; [exact HD|].
             split; [rewrite !app_length; cbn [length]; lia|]. intros j.
             rewrite lincomb_app by exact Hcl. cbn [lincomb]. rewrite (Hj j). lia.
  Qed.

  (* COMPLETENESS: a rational combination of the rows of B is always accepted *)
  Theorem row_in_span_complete a : length a = n -> span_cert B a -> row_in_span B a = true.
  Proof.
    intros Ha Hsp. apply (row_in_span_iff B n HB a Ha). unfold find_coeffs. fold nB.
    destruct (build_basis_inv B 0%nat [] [] HB (conj (Forall_nil _) I) (Forall_nil _)) as [[Hlen Hech] Hspan].
    cbn [app] in Hspan. set (basis := build_basis nB B 0 []) in *.
    destruct (reduce basis a 1 (repeat 0 nB)) as [[x d] m] eqn:Hred.
    pose proof (reduce_zero_pivots n basis Hlen Hech _ _ _ _ _ _ Ha Hred) as Hzp.
    destruct (reduce_comb n basis Hlen (echelon_piv_ok basis Hech) _ _ _ _ _ _ Ha Hred) as (D & c & HD & Hc & Hj).
    assert (Hcl : length c = length (vecs basis)) by (unfold vecs; rewrite map_length; exact Hc).
    assert (HBa : Forall (fun r => length r = length a) B) by (rewrite Ha; exact HB).
    destruct (span_cert_coordinates B a HBa Hsp) as (d0 & m0 & Hd0 & Hm0).
    destruct (in_span_lincomb n (vecs basis) B Hspan m0) as (D1 & mu1 & HD1 & Hl1 & Hmu1).
    assert (Hx0 : forall j, nth j x 0 = 0).
    { apply (echelon_zero basis Hech (fun j => nth j x 0)); [|exact Hzp].
      exists (D1 * d0), (vadd (vscale D mu1) (vscale (- (D1 * d0)) c)). split; [nia|].
      split; [rewrite vadd_length; rewrite !vscale_length; congruence|]. intros j.
      rewrite lincomb_vadd by (rewrite !vscale_length; congruence). rewrite !lincomb_vscale, <- Hmu1, <- Hm0, (Hj j). lia. }
    rewrite (vzerob_of_nth x Hx0). discriminate.
  Qed.
End Complete2.

(* the model's comparison is exactly rational row-space equality (cross-multiplied form) *)
Theorem rowspace_eqb_complete A B n :
  Forall (fun r => length r = n) A -> Forall (fun r => length r = n) B ->
  Forall (span_cert B) A -> Forall (span_cert A) B -> rowspace_eqb A B = true.
Proof.
  intros HA HB H1 H2. unfold rowspace_eqb. apply andb_true_iff. split; apply forallb_forall; intros r Hr.
  - rewrite Forall_forall in HA, H1. apply (row_in_span_complete B n HB r (HA r Hr) (H1 r Hr)).
  - rewrite Forall_forall in HB, H2. apply (row_in_span_complete A n HA r (HB r Hr) (H2 r Hr)).
Qed.

Theorem rowspace_eqb_iff A B n :
  Forall (fun r => length r = n) A -> Forall (fun r => length r = n) B ->
  (rowspace_eqb A B = true <-> Forall (span_cert B) A /\ Forall (span_cert A) B).
Proof.
  intros HA HB. split; [apply rowspace_eqb_sound|]. intros [H1 H2]. eapply rowspace_eqb_complete; eauto.
Qed.
