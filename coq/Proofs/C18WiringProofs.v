(* C18 — the expansion of a kernel op with arbitrary wiring computes the kernel formula on the values the
   kernel op reads (after the repair of F-C18-2); the positional expansion did not. *)
From Snax Require Import Base.Prelude Model.C18FixedWidth Model.C18Kernel Model.C18Wiring Proofs.C18KernelProofs.

Lemma ktys_length kb : length (ktys kb) = S (length (koperands kb)).
Proof. unfold ktys. rewrite app_length, map_length. cbn. lia. Qed.

(* the wired region evaluated on the block arguments = the region evaluated on the values read *)
Lemma wired_region_value kb args :
  well_typed (kk kb) (ktys kb) = true ->
  get args (eval_ops args [] (ops (expand_kbody kb))) (wire kb (hd (SRes 0) (yielded (equivalent_region (kk kb) (ktys kb)))))
  = hd 0 (eval_body (equivalent_region (kk kb) (ktys kb)) (kvals kb args)).
Proof.
  destruct kb as [at_ k res ko ky]. cbn [kk]. intros Hwt.
  assert (Hlen := ktys_length (mkKBody at_ k res ko ky)). cbn [koperands] in Hlen.
  destruct k; cbn [well_typed] in Hwt; try discriminate.
  - (* mul *)
    assert (Hl : length ko = 2%nat).
    { apply andb_true_iff in Hwt as [Hwt _]. apply andb_true_iff in Hwt as [Hwt _]. apply andb_true_iff in Hwt as [Hwt _].
      apply Nat.eqb_eq in Hwt. lia. }
    destruct ko as [|a [|b [|c ko]]]; cbn in Hl; try discriminate. reflexivity.
  - (* add *)
    assert (Hl : length ko = 2%nat).
    { apply andb_true_iff in Hwt as [Hwt _]. apply andb_true_iff in Hwt as [Hwt _]. apply andb_true_iff in Hwt as [Hwt _].
      apply Nat.eqb_eq in Hwt. lia. }
    destruct ko as [|a [|b [|c ko]]]; cbn in Hl; try discriminate. reflexivity.
  - (* mac *)
    assert (Hl : length ko = 2%nat).
    { apply andb_true_iff in Hwt as [Hwt _]. apply andb_true_iff in Hwt as [Hwt _]. apply andb_true_iff in Hwt as [Hwt _].
      apply Nat.eqb_eq in Hwt. lia. }
    destruct ko as [|a [|b [|c ko]]]; cbn in Hl; try discriminate.
    unfold expand_kbody, expand_kbody, eval_body, kvals, ktys. cbn [kk koperands kres kargtys map app equivalent_region ty nth].
    destruct (nth a at_ 0 =? res); reflexivity.
  - (* qmac *)
    assert (Hl : length ko = 4%nat).
    { repeat (apply andb_true_iff in Hwt as [Hwt _]). apply Nat.eqb_eq in Hwt. lia. }
    destruct ko as [|a [|b [|c [|d [|e ko]]]]]; cbn in Hl; try discriminate. reflexivity.
Qed.

(* Expansion of a kernel op applied to ANY operand list (permuted, duplicated block arguments) in a body that
   yields ANY mix of the kernel result and block arguments computes the same function as the body with the
   kernel op, for all integers. *)
Theorem expand_wired_sound kb args :
  well_typed (kk kb) (ktys kb) = true ->
  eval_body (expand_kbody kb) args = eval_kbody kb args.
Proof.
  intros Hwt. pose proof (wired_region_value kb args Hwt) as Hv.
  rewrite (expand_sound _ _ (kvals kb args) Hwt) in Hv. cbn [hd] in Hv.
  unfold eval_body at 1. unfold eval_kbody.
  change (yielded (expand_kbody kb)) with
    (map (fun y => match y with
                   | None => wire kb (hd (SRes 0) (yielded (equivalent_region (kk kb) (ktys kb))))
                   | Some i => SArg i
                   end) (kyielded kb)).
  rewrite map_map. apply map_ext. intros [i|]; [reflexivity|exact Hv].
Qed.

(* the positional expansion (before the repair) is refuted: kernel.mul %x0, %x0 became x0 * x1 *)
Theorem expand_positional_refuted :
  exists kb args,
    well_typed (kk kb) (ktys kb) = true /\ canonical kb = false /\
    eval_body (expand_kbody_positional kb) args <> eval_kbody kb args /\
    eval_body (expand_kbody kb) args = eval_kbody kb args.
Proof.
  exists (mkKBody [8; 8; 8] KMulK 8 [0%nat; 0%nat] [None]), [2; 3; 0].
  split; [reflexivity|]. split; [reflexivity|]. split; [vm_compute; discriminate|reflexivity].
Qed.

(* on canonically wired bodies both coincide with the region itself *)
Example expand_canonical_example :
  let kb := mkKBody [8; 8; 32] KMacK 32 [0%nat; 1%nat] [None] in
  canonical kb = true /\ expand_kbody kb = equivalent_region KMacK [8; 8; 32].
Proof. split; reflexivity. Qed.

(* ------------------------------------------------------------------ LowerRescale and the result type *)
(* for an i8 result the body is the one modelled in C18Kernel.v ... *)
Theorem rescale_result_i8_ok p :
  rescale_region_for 8 p = rescale_region p /\ yield_typed (rescale_region_for 8 p) = true.
Proof. split; reflexivity. Qed.

(* ... and for every result width the yielded value has the type of the output (repaired F-C18-3) *)
Theorem rescale_result_typed wout p : yield_typed (rescale_region_for wout p) = true.
Proof.
  unfold rescale_region_for. destruct (wout <? 32) eqn:E1; [|destruct (wout =? 32) eqn:E2].
  - cbn. apply Z.eqb_refl.
  - apply Z.eqb_eq in E2. subst. reflexivity.
  - cbn. apply Z.eqb_refl.
Qed.

Lemma rescale_region_for_eval wout p x out :
  0 < wout ->
  eval_body (rescale_region_for wout p) [x; out] =
  [if wout <? 32 then wrap wout (rescale_core p x) else rescale_core p x].
Proof.
  intros Hw. unfold rescale_region_for. destruct (wout <? 32) eqn:E1; [|destruct (wout =? 32) eqn:E2]; reflexivity.
Qed.

Lemma rescale_core_golden wout p x :
  rescale_safe_w wout p x = true -> rescale_core p x = golden_rescale p x /\ in_range (Z.min wout 32) (golden_rescale p x) /\ 0 < wout.
Proof.
  unfold rescale_safe_w. intros H.
  repeat (apply andb_true_iff in H as [H ?]).
  repeat match goal with Hr : in_rangeb _ _ = true |- _ => apply in_rangeb_spec in Hr end.
  unfold rescale_core, golden_rescale.
  destruct (double_round p); [discriminate|].
  set (v := x - zp_in p) in *.
  rewrite (wrap_id 32 v) by (auto; lia).
  set (m := v * mult p) in *.
  rewrite (wrap_id 64 m) by (auto; lia).
  assert (Hs : Z.shiftr m (shift p) = Z.shiftr (Z.shiftr m (shift p - 1)) 1).
  { rewrite Z.shiftr_shiftr by lia. f_equal. lia. }
  set (s1 := Z.shiftr m (shift p - 1)) in *.
  rewrite (wrap_id 32 s1) by (auto; lia).
  rewrite Hs.
  assert (Hr : in_range 32 (Z.shiftr s1 1)).
  { match goal with Hx : in_range 32 s1 |- _ => destruct Hx as [Hx1 Hx2] end.
    rewrite Z.shiftr_div_pow2 by lia. unfold in_range. rewrite half_32 in *. change (2 ^ 1) with 2. lia. }
  rewrite (wrap_id 32 (Z.shiftr s1 1)) by (auto; lia).
  set (o := wrap 32 (Z.shiftr s1 1 + zp_out p)).
  assert (Hc : Z.max (Z.min o (max_int p)) (min_int p) = Z.min (Z.max o (min_int p)) (max_int p)) by lia.
  rewrite Hc. split; [reflexivity|]. split; [|lia].
  unfold in_range in *. lia.
Qed.

(* the repaired expansion computes the golden model's value for every result width, on the safe inputs
   (no double rounding, no intermediate overflow, clamp bounds inside the result type) *)
Theorem rescale_for_vs_golden wout p x out :
  rescale_safe_w wout p x = true ->
  eval_body (rescale_region_for wout p) [x; out] = [golden_rescale p x].
Proof.
  intros H. destruct (rescale_core_golden wout p x H) as [Hc [Hr Hw]].
  rewrite rescale_region_for_eval by exact Hw. rewrite Hc.
  destruct (wout <? 32) eqn:E; [|reflexivity].
  f_equal. apply wrap_id; [exact Hw|]. rewrite Z.min_l in Hr by lia. exact Hr.
Qed.

(* documentation of F-C18-3 (before the repair): kernel.rescale (i32) -> i32 with clamp bounds +-1000: the
   golden model gives 300 for x = 600, the old expansion wrapped it to 8 bits (44) and yielded an i8 *)
Theorem rescale_result_not_i8_refuted :
  exists wout p x,
    rescale_result_not_i8 wout = true /\ rescale_safe_w wout p x = true /\
    yield_typed (rescale_region_for_old wout p) = false /\
    eval_body (rescale_region_for_old wout p) [x; 0] <> [golden_rescale p x] /\
    eval_body (rescale_region_for wout p) [x; 0] = [golden_rescale p x].
Proof.
  exists 32, (mkR 0 0 1 1 1000 (-1000) false), 600.
  split; [reflexivity|]. split; [reflexivity|]. split; [reflexivity|]. split; [vm_compute; discriminate|reflexivity].
Qed.
