(* C05 — the run-time lowering of Model/C05Dyn.v coincides with the static lowering of
   Model/C05Copy.v on static layouts (whatever strided metadata is supplied). *)
From Coq Require Import Permutation.
From Snax Require Import Base.Prelude Base.ListAux Model.Tsl Model.TslOps Model.C05Copy Model.C05Dyn
  Proofs.TslProofs Proofs.C05MemProofs Proofs.C05DigitProofs Proofs.C05LccbProofs Proofs.C05CopyProofs
  Proofs.C05MainProofs.

Definition sbnd (s : stride) : Z := snd (static_of s).
Definition sstp (s : stride) : Z := fst (static_of s).

(* ---- bounds ------------------------------------------------------------------------------------- *)
Lemma dim_bound_vals_static t n : tstride_ok t -> dim_bound_vals t n = Some (map sbnd t).
Proof.
  intros H. destruct t as [|s0 rest]; [reflexivity|]. inversion H as [|? ? H0 Hr]; subst.
  unfold dim_bound_vals. destruct H0 as [a [b [-> Hb]]]. cbn [sbound snd].
  assert (E : forallb (fun s => match sbound s with Some _ => true | None => false end) rest = true).
  { apply forallb_forall. intros s Hs. destruct (proj1 (Forall_forall _ _) Hr s Hs) as [a' [b' [-> _]]]. reflexivity. }
  rewrite E. cbn [map]. f_equal. f_equal. apply map_ext_in. intros s Hs.
  destruct (proj1 (Forall_forall _ _) Hr s Hs) as [a' [b' [-> _]]]. reflexivity.
Qed.

Lemma bound_vals_static ts : Forall tstride_ok ts -> forall shape, length shape = length ts ->
  bound_vals ts shape = Some (map (map sbnd) ts).
Proof.
  induction 1 as [|t ts Ht Hts IH]; intros shape Hl; [reflexivity|].
  destruct shape as [|n shape]; [discriminate|]. cbn [bound_vals map].
  rewrite (dim_bound_vals_static t n Ht), (IH shape) by (simpl in Hl; lia). reflexivity.
Qed.

(* ---- steps --------------------------------------------------------------------------------------- *)
Lemma presets_dim_length t m : length (presets_dim t m) = length t.
Proof.
  induction t as [|s t IH]; [reflexivity|]. destruct t as [|s' t']; [reflexivity|].
  change (presets_dim (s :: s' :: t') m) with (None :: presets_dim (s' :: t') m). cbn [length]. rewrite IH. reflexivity.
Qed.

Lemma presets_length ts : forall ms el, length (presets ts ms el) = length (concat ts).
Proof.
  induction ts as [|t ts IH]; intros ms el; [destruct ms; reflexivity|].
  destruct ms as [|m ms]; cbn [presets concat]; rewrite !app_length, IH.
  - rewrite map_length. reflexivity.
  - rewrite presets_dim_length. reflexivity.
Qed.

Definition step_static (s : stride) : Prop := sstep s <> None.

Lemma step_scan_static el : forall (flat : list stride) (vals : list (Z * option Z)) dyn,
  Forall step_static flat -> length vals = length flat ->
  snd (fold_right (step_scan_md el) (dyn, []) (combine flat vals)) = map (fun s => sstp s * el) flat.
Proof.
  induction flat as [|s flat IH]; intros vals dyn Hok Hl; [reflexivity|].
  destruct vals as [|v vals]; [discriminate|]. inversion Hok as [|? ? Hs Hr]; subst.
  cbn [combine fold_right map].
  specialize (IH vals dyn Hr ltac:(simpl in Hl; lia)).
  destruct (fold_right (step_scan_md el) (dyn, []) (combine flat vals)) as [dy out] eqn:E.
  cbn [snd] in IH. subst out. destruct s as [[a|] b]; [|exfalso; apply Hs; reflexivity].
  destruct b; reflexivity.
Qed.

Lemma step_vals_md_steps l fb el md : Forall step_static (all_strides l) -> length fb = length (all_strides l) ->
  step_vals_md l fb el md = map (fun s => sstp s * el) (all_strides l).
Proof.
  intros Hok Hl. unfold step_vals_md. destruct (max_static_step (all_strides l)) as [mk mv].
  apply step_scan_static; [exact Hok|].
  rewrite combine_length. destruct md as [[ms o]|].
  - unfold all_strides. rewrite presets_length. unfold all_strides in Hl. lia.
  - rewrite map_length. lia.
Qed.

Lemma layout_ok_steps l : layout_ok l -> Forall step_static (all_strides l).
Proof.
  intros Hok. apply Forall_forall. intros s Hs. unfold all_strides in Hs. apply in_concat in Hs as [t [Ht Hs]].
  destruct (proj1 (Forall_forall _ _) (proj1 (Forall_forall _ _) Hok t Ht) s Hs) as [a [b [-> _]]]. discriminate.
Qed.

Lemma step_vals_md_static l fb el md : layout_ok l -> length fb = length (all_strides l) ->
  step_vals_md l fb el md = map (fun s => sstp s * el) (all_strides l).
Proof. intros Hok. apply step_vals_md_steps, layout_ok_steps, Hok. Qed.

(* ---- remaining strides ---------------------------------------------------------------------------- *)
Definition gval (el : Z) (p : stride * stride) : stride * (Z * Z * Z) :=
  (fst p, (sbnd (fst p), sstp (fst p) * el, sstp (snd p) * el)).

Lemma remaining_dyn_map lcb el (P : list (stride * stride)) :
  remaining_dyn lcb (map fst P)
    (combine (map (fun p => sbnd (fst p)) P)
             (combine (map (fun p => sstp (fst p) * el) P) (map (fun p => sstp (snd p) * el) P))) =
  map (gval el) (filter (fun p => negb (value_in (fst p) lcb)) P).
Proof.
  induction P as [|p P IH]; [reflexivity|]. cbn [map combine remaining_dyn filter].
  destruct (value_in (fst p) lcb); cbn [negb]; rewrite IH; reflexivity.
Qed.

Lemma remaining_dyn_map' lcb el (P : list (stride * stride)) :
  remaining_dyn lcb (map fst P)
    (combine (map sbnd (map fst P))
             (combine (map (fun s => sstp s * el) (map fst P)) (map (fun s => sstp s * el) (map snd P)))) =
  map (gval el) (filter (fun p => negb (value_in (fst p) lcb)) P).
Proof. rewrite !map_map. apply remaining_dyn_map. Qed.

Lemma insert_desc_d_map el x l : insert_desc_d (gval el x) (map (gval el) l) = map (gval el) (insert_desc x l).
Proof.
  induction l as [|y l IH]; [reflexivity|]. cbn [map insert_desc_d insert_desc].
  change (dkey (gval el x)) with (sort_key x). change (dkey (gval el y)) with (sort_key y).
  destruct (sort_key x <? sort_key y); [rewrite IH|]; reflexivity.
Qed.

Lemma sort_desc_d_map el l : sort_desc_d (map (gval el) l) = map (gval el) (sort_desc l).
Proof.
  induction l as [|x l IH]; [reflexivity|]. cbn [map sort_desc_d sort_desc fold_right].
  change (fold_right insert_desc_d [] (map (gval el) l)) with (sort_desc_d (map (gval el) l)).
  change (fold_right insert_desc [] l) with (sort_desc l). rewrite IH. apply insert_desc_d_map.
Qed.

Lemma map_fst_combine {A B} (a : list A) (b : list B) : length a = length b -> map fst (combine a b) = a.
Proof. revert b. induction a as [|x a IH]; intros [|y b] H; try discriminate; [reflexivity|]. cbn. rewrite IH by (simpl in H; lia). reflexivity. Qed.
Lemma map_snd_combine {A B} (a : list A) (b : list B) : length a = length b -> map snd (combine a b) = b.
Proof. revert b. induction a as [|x a IH]; intros [|y b] H; try discriminate; [reflexivity|]. cbn. rewrite IH by (simpl in H; lia). reflexivity. Qed.

Lemma filter_map_comm {A B} (f : B -> bool) (g : A -> B) (l : list A) :
  filter f (map g l) = map g (filter (fun x => f (g x)) l).
Proof. induction l as [|x l IH]; [reflexivity|]. cbn [map filter]. destruct (f (g x)); cbn [map]; rewrite IH; reflexivity. Qed.

Lemma pair_ok_vals el p : pair_ok p ->
  snd (gval el p) = (tb (tri_of p), tsrc (tri_of p) * el, tdst (tri_of p) * el).
Proof. intros [[a [b [E1 _]]] [c [d [E2 _]]]]. destruct p as [s1 s2]. cbn [fst snd] in *. subst. reflexivity. Qed.

Lemma rem_list_filter src dst :
  rem_list src dst = filter (fun p => negb (value_in (fst p) (lccb src dst 1)))
                            (combine (all_strides src) (all_strides dst)).
Proof.
  unfold rem_list. rewrite <- !map_snd_entries, <- map_sp_combine. symmetry.
  apply (filter_map_comm (fun p : stride * stride => negb (value_in (fst p) (lccb src dst 1))) sp).
Qed.

(* ---- the two lowerings agree on static layouts ----------------------------------------------------- *)
Lemma lower_dyn_body_static (src dst : layout) (el so do_ : Z) (smd dmd : rtmd) :
  layout_ok src -> layout_ok dst -> equal_tile_bounds src dst = true ->
  offset src = Some so -> offset dst = Some do_ ->
  lower_dyn_body src dst el (shape_of src) smd dmd = lower_body src dst el (shape_of src).
Proof.
  intros Hs Hd Hetb Hso Hdo.
  pose proof (equal_tile_bounds_keys src dst Hetb) as Hk.
  assert (Hlen : length (all_strides src) = length (all_strides dst)).
  { rewrite <- !map_snd_entries, !map_length. rewrite <- (map_length fst (entries src)), Hk, map_length. reflexivity. }
  unfold lower_dyn_body, lower_body, off_val. rewrite Hso, Hdo.
  rewrite (bound_vals_static (tstrides src) Hs (shape_of src)) by (unfold shape_of; apply map_length).
  assert (Hfb : concat (map (map sbnd) (tstrides src)) = map sbnd (all_strides src))
    by (unfold all_strides; rewrite concat_map; reflexivity).
  rewrite Hfb.
  rewrite (step_vals_md_static src _ el smd Hs) by (rewrite map_length; reflexivity).
  rewrite (step_vals_md_static dst _ el dmd Hd) by (rewrite map_length; exact Hlen).
  rewrite Hlen, Nat.eqb_refl. cbn [negb].
  rewrite (remaining_eq src dst Hetb).
  set (lcb := lccb src dst 1).
  set (P := combine (all_strides src) (all_strides dst)).
  assert (HP1 : map fst P = all_strides src) by (apply map_fst_combine; exact Hlen).
  assert (HP2 : map snd P = all_strides dst) by (apply map_snd_combine; exact Hlen).
  assert (Hrem : rem_list src dst = filter (fun p => negb (value_in (fst p) lcb)) P).
  { unfold rem_list, P. rewrite <- !map_snd_entries, <- map_sp_combine. symmetry. apply (filter_map_comm (fun p : stride * stride => negb (value_in (fst p) lcb)) sp). }
  rewrite <- HP1, <- HP2.
  rewrite (remaining_dyn_map' lcb el P), <- Hrem, sort_desc_d_map.
  rewrite (map_opt_loop_of el _ (rem_pair_ok src dst Hs Hd)).
  pose proof (rem_pair_ok src dst Hs Hd) as Hok.
  destruct (sort_desc (rem_list src dst)) as [|h tail]; [reflexivity|].
  inversion Hok as [|? ? Hh Ht]; subst. cbn [map].
  pose proof (pair_ok_vals el h Hh) as Eh. destruct (gval el h) as [hs hv]. cbn [snd] in Eh. subst hv.
  destruct (sval (last lcb (None, None))) as [[ls lb]|]; [|reflexivity].
  rewrite !map_map.
  assert (Ev : forall f : Z * Z * Z -> Z, map (fun x => f (snd (gval el x))) tail =
             map (fun x => f (tb (tri_of x), tsrc (tri_of x) * el, tdst (tri_of x) * el)) tail).
  { intros f. apply map_ext_in. intros x Hx. rewrite (pair_ok_vals el x (proj1 (Forall_forall _ _) Ht x Hx)). reflexivity. }
  rewrite (Ev (fun v => fst (fst v))), (Ev (fun v => snd (fst v))), (Ev (fun v => snd v)). reflexivity.
Qed.

Theorem lower_dyn_static (src dst : layout) (el so do_ : Z) (smd dmd : rtmd) :
  layout_ok src -> layout_ok dst -> equal_tile_bounds src dst = true ->
  offset src = Some so -> offset dst = Some do_ ->
  lower_dyn src dst el (shape_of src) smd dmd = lower src dst el (shape_of src).
Proof.
  intros Hs Hd Hetb Hso Hdo. pose proof (lower_dyn_body_static src dst el so do_ smd dmd Hs Hd Hetb Hso Hdo) as H.
  unfold lower_dyn, lower. destruct (shape_of src); [reflexivity|exact H].
Qed.
