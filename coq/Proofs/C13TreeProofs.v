(* C13 — the pass-level path theorem at arbitrary nesting depth: for every structured program (any
   nesting of scf.for / scf.if) the tree of the pass output is guarded for every SameLevel pair;
   hence (C13PathProofs) every path crosses a barrier, phases are conflict free, every interleaving
   and every machine execution computes the memory of the program order. *)
From Snax Require Import Base.Prelude Base.ListAux Model.MultiCore Model.C13SyncBarrier Model.C13Paths
  Model.C13Tree Proofs.MultiCoreCommute Proofs.C13SyncBarrierProofs Proofs.C13PathProofs.

Section CInd.
  Variable P : cstmt -> Prop.
  Hypothesis HLeaf : forall n inner, P (CLeaf n inner).
  Hypothesis HFor : forall n b y, Forall P b -> P (CFor n b y).
  Hypothesis HIf : forall n t e, Forall P t -> Forall P e -> P (CIf n t e).
  Fixpoint cstmt_ind' (s : cstmt) : P s :=
    let fix go (l : list cstmt) : Forall P l :=
      match l with [] => Forall_nil P | x :: r => Forall_cons x (cstmt_ind' x) (go r) end in
    match s with
    | CLeaf n inner => HLeaf n inner
    | CFor n b y => HFor n b y (go b)
    | CIf n t e => HIf n t e (go t) (go e)
    end.
End CInd.

(* ---- unfolding of the local fixpoints ------------------------------------------------------------------ *)
Lemma flat_inner l : forall par pf py,
  (fix fl (par : Z) (pf : bool) (py : Z) (l : list cstmt) {struct l} : list opinfo :=
     match l with [] => [] | x :: r => flat1 par pf py x ++ fl par pf py r end) par pf py l = flatl par pf py l.
Proof. induction l as [|x r IH]; intros; [reflexivity|]. simpl. rewrite IH. reflexivity. Qed.

Lemma flat1_For par pf py n b y :
  flat1 par pf py (CFor n b y) = mk par pf py n :: flatl (n_id n) true (n_id y) b ++ [mk (n_id n) true (n_id y) y].
Proof. cbn [flat1]. rewrite flat_inner. reflexivity. Qed.
Lemma flat1_If par pf py n t e :
  flat1 par pf py (CIf n t e) = mk par pf py n :: flatl (n_id n) false 0 t ++ flatl (n_id n) false 0 e.
Proof. cbn [flat1]. rewrite !flat_inner. reflexivity. Qed.

Lemma flatl_app par pf py l1 l2 : flatl par pf py (l1 ++ l2) = flatl par pf py l1 ++ flatl par pf py l2.
Proof. induction l1 as [|x r IH]; [reflexivity|]. cbn [app flatl]. rewrite IH, app_assoc. reflexivity. Qed.

Lemma out_inner bars l :
  (fix ol (l : list cstmt) : list rstmt := match l with [] => [] | x :: r => out1 bars x ++ ol r end) l = outl bars l.
Proof. induction l as [|x r IH]; [reflexivity|]. simpl. rewrite IH. reflexivity. Qed.

Lemma out1_For bars n b y : out1 bars (CFor n b y) = msync bars (n_id n) ++ [RFor (n_id n) (outl bars b ++ msync bars (n_id y))].
Proof. cbn [out1]. rewrite out_inner. reflexivity. Qed.
Lemma out1_If bars n t e : out1 bars (CIf n t e) = msync bars (n_id n) ++ [RIf (n_id n) (outl bars t) (outl bars e)].
Proof. cbn [out1]. rewrite !out_inner. reflexivity. Qed.

Lemma outl_app bars l1 l2 : outl bars (l1 ++ l2) = outl bars l1 ++ outl bars l2.
Proof. induction l1 as [|x r IH]; [reflexivity|]. cbn [app outl]. rewrite IH, app_assoc. reflexivity. Qed.

Lemma cls_inner flat X U fb whole l :
  (fix go (fb : bool) (whole l : list cstmt) {struct l} : bool :=
    match l with
    | [] => true
    | CLeaf n inner :: r =>
        inner_inert flat n inner && (if n_id n =? X then occ U fb whole n r else true) && go fb whole r
    | s' :: r => cls1 flat X U s' && go fb whole r
    end) fb whole l = clsl flat X U fb whole l.
Proof.
  induction l as [|x r IH]; [reflexivity|]. destruct x; cbn [clsl]; rewrite <- IH; reflexivity.
Qed.

Lemma cls1_For flat X U n b y : cls1 flat X U (CFor n b y) = clsl flat X U true b b.
Proof. cbn [cls1]. apply cls_inner. Qed.
Lemma cls1_If flat X U n t e : cls1 flat X U (CIf n t e) = clsl flat X U false t t && clsl flat X U false e e.
Proof. cbn [cls1]. rewrite !cls_inner. reflexivity. Qed.

Lemma mentionsC_inner U l :
  (fix ml (l : list cstmt) : bool := match l with [] => false | x :: r => mentionsC U x || ml r end) l = mentionsCl U l.
Proof. induction l as [|x r IH]; [reflexivity|]. simpl. rewrite IH. reflexivity. Qed.

Lemma must_sync_mk a b c a' b' c' n u : must_sync (mk a b c n) (mk a' b' c' u) = must_sync_n n u.
Proof. reflexivity. Qed.

Lemma nleaf_eq n : nleaf n = RLeaf (n_id n) (core_of (mk 0 false 0 n)) (is_sync (mk 0 false 0 n)) [] (n_ops n).
Proof. reflexivity. Qed.

Lemma is_sync_mk a b c n : is_sync (mk a b c n) = is_sync (mk 0 false 0 n).
Proof. reflexivity. Qed.

(* ---- guardedness and inserted barrier leaves ------------------------------------------------------------ *)
Lemma guardedl_msync X U bars i l : guardedl X U (msync bars i ++ l) = guardedl X U l.
Proof. unfold msync. destruct (memb i bars); [|reflexivity]. cbn [app guardedl sync_leaf]. rewrite andb_false_r. reflexivity. Qed.

Lemma guardedl_top_msync X U bars i l : guardedl_top X U (msync bars i ++ l) = guardedl_top X U l.
Proof. unfold msync. destruct (memb i bars); [|reflexivity]. cbn [app guardedl_top sync_leaf]. rewrite andb_false_r. reflexivity. Qed.

Lemma bar_follows_msync_in U bars i l : In i bars -> bar_follows U (msync bars i ++ l) = true.
Proof. intros H. unfold msync. rewrite (proj2 (memb_true i bars) H). reflexivity. Qed.

Lemma bar_follows_imp_top U : forall l, bar_follows U l = true -> bar_follows_top U l = true.
Proof.
  induction l as [|s r IH]; intros H; [reflexivity|]. destruct s as [id core bar rd wr| |]; try discriminate.
  cbn [bar_follows bar_follows_top] in *. destruct bar; [reflexivity|]. destruct (id =? U); [discriminate|]. apply IH. exact H.
Qed.

(* walking plain ops (ids <> U): a barrier is met if one of them is a barrier / gets one inserted,
   or if what follows starts with one *)
Lemma bar_mids U bars : forall (mids : list cstmt) (tailR : list rstmt),
  (forall s, In s mids -> exists m im, s = CLeaf m im /\ n_id m <> U) ->
  (exists m im, In (CLeaf m im) mids /\ (is_sync (mk 0 false 0 m) = true \/ In (n_id m) bars)) \/ bar_follows U tailR = true ->
  bar_follows U (outl bars mids ++ tailR) = true.
Proof.
  induction mids as [|s r IH]; intros tailR Hl H.
  - simpl. destruct H as [[m [im [[] _]]]|H]. exact H.
  - destruct (Hl s (or_introl eq_refl)) as [m [im [-> Hne]]].
    cbn [outl out1]. rewrite <- !app_assoc. cbn [app].
    destruct (memb (n_id m) bars) eqn:Eb; [apply bar_follows_msync_in; apply memb_true; exact Eb|].
    unfold msync. rewrite Eb. cbn [app]. rewrite nleaf_eq. cbn [bar_follows].
    destruct (is_sync (mk 0 false 0 m)) eqn:Es; [reflexivity|].
    replace (n_id m =? U) with false by (symmetry; apply Z.eqb_neq; exact Hne).
    apply IH; [intros s' Hs'; apply Hl; right; exact Hs'|].
    destruct H as [[m' [im' [[E|Hin] Hw]]]|H]; [|left; exists m', im'; split; assumption | right; exact H].
    inversion E; subst. exfalso. destruct Hw as [Hw|Hw]; [congruence | apply memb_false in Eb; contradiction].
Qed.

Lemma fwd_some U : forall r u, fwd U r = Some u ->
  exists mids iu rest, r = mids ++ CLeaf u iu :: rest /\ n_id u = U /\
    (forall s, In s mids -> exists m im, s = CLeaf m im /\ n_id m <> U).
Proof.
  induction r as [|s r IH]; intros u H; [discriminate|]. destruct s as [n inner| |]; try discriminate.
  cbn [fwd] in H. destruct (n_id n =? U) eqn:E.
  - inversion H; subst. exists [], inner, r. split; [reflexivity|]. split; [apply Z.eqb_eq; exact E | intros s []].
  - destruct (IH u H) as [mids [iu [rest [-> [Hu Hm]]]]]. exists (CLeaf n inner :: mids), iu, rest.
    split; [reflexivity|]. split; [exact Hu|]. intros s [<-|Hs]; [exists n, inner; split; [reflexivity | apply Z.eqb_neq; exact E] | apply Hm; exact Hs].
Qed.

Lemma fwd_none_leaves U : forall r, all_leaves r = true -> fwd U r = None ->
  forall s, In s r -> exists m im, s = CLeaf m im /\ n_id m <> U.
Proof.
  induction r as [|s r IH]; intros Ha Hf s' Hs'; [destruct Hs'|]. destruct s as [n inner| |]; try discriminate.
  cbn [fwd] in Hf. simpl in Ha. destruct (n_id n =? U) eqn:E; [discriminate|].
  destruct Hs' as [<-|Hs']; [exists n, inner; split; [reflexivity | apply Z.eqb_neq; exact E] | apply IH; assumption].
Qed.

(* the ops of a run of plain ops in the pre-order list *)
Lemma in_flat_mids par pf py : forall mids y,
  (forall s, In s mids -> exists m im, s = CLeaf m im) -> In y (flatl par pf py mids) ->
  exists m im, In (CLeaf m im) mids /\ (y = mk par pf py m \/ In y (imap im)).
Proof.
  induction mids as [|s r IH]; intros y Hl Hy; [destruct Hy|].
  destruct (Hl s (or_introl eq_refl)) as [m [im ->]]. cbn [flatl flat1] in Hy.
  destruct Hy as [<-|Hy]; [exists m, im; split; [left; reflexivity | left; reflexivity]|].
  apply in_app_or in Hy as [Hy|Hy].
  - exists m, im. split; [left; reflexivity | right; exact Hy].
  - destruct (IH y (fun s' Hs' => Hl s' (or_intror Hs')) Hy) as [m' [im' [Hin Hw]]]. exists m', im'. split; [right; exact Hin | exact Hw].
Qed.

Lemma leaf_node_in_flat par pf py : forall whole u, In u (leaf_nodes whole) -> In (mk par pf py u) (flatl par pf py whole).
Proof.
  induction whole as [|s r IH]; intros u Hu; [destruct Hu|]. unfold leaf_nodes in Hu. cbn [flat_map] in Hu.
  cbn [flatl]. apply in_or_app. apply in_app_or in Hu as [Hu|Hu].
  - left. destruct s as [n inner|n b y|n t e]; simpl in Hu; [|destruct Hu|destruct Hu]. destruct Hu as [<-|[]]. cbn [flat1]. left. reflexivity.
  - right. apply IH. exact Hu.
Qed.

Section Main.
  Variables (flat : list opinfo) (X U : Z).
  Let bars := barriers flat.

  Lemma inert_facts y : In y flat -> inert flat y = true -> is_sync y = false /\ ~ In (oi_id y) bars.
  Proof.
    intros Hy Hi. split.
    - unfold inert in Hi. apply andb_true_iff in Hi as [Hs _]. apply negb_true_iff in Hs. exact Hs.
    - apply inert_not_barrier; assumption.
  Qed.

  (* after an op x, along a run of plain ops up to an op t that x put on the pending list, a barrier
     exists or is inserted: at one of the plain ops, or before t *)
  Lemma run_has_barrier par pf py l1 n inner mids t l3 :
    flat = l1 ++ mk par pf py n :: (imap inner ++ flatl par pf py mids) ++ t :: l3 ->
    In (oi_id t) (adds flat (mk par pf py n)) ->
    inner_inert flat n inner = true ->
    (forall s, In s mids -> exists m im, s = CLeaf m im /\ inner_inert flat m im = true) ->
    (exists m im, In (CLeaf m im) mids /\ (is_sync (mk 0 false 0 m) = true \/ In (n_id m) bars)) \/ In (oi_id t) bars.
  Proof.
    intros E Hadd Hin Hm.
    set (x := mk par pf py n) in *. set (l2 := imap inner ++ flatl par pf py mids) in *.
    assert (Hl2 : forall y, In y l2 -> In y flat).
    { intros y Hy. rewrite E. apply in_or_app. right. right. apply in_or_app. left. exact Hy. }
    assert (Hcase : forall y, In y l2 ->
              (exists m im, In (CLeaf m im) mids /\ y = mk par pf py m) \/ inert flat y = true).
    { intros y Hy. unfold l2 in Hy. apply in_app_or in Hy as [Hy|Hy].
      - right. unfold inner_inert in Hin. rewrite forallb_forall in Hin. apply Hin. exact Hy.
      - destruct (in_flat_mids par pf py mids y) as [m [im [Hmi Hw]]]; [|exact Hy|].
        { intros s Hs. destruct (Hm s Hs) as [m [im [-> _]]]. eauto. }
        destruct Hw as [->|Hw]; [left; exists m, im; split; [exact Hmi | reflexivity]|].
        right. destruct (Hm _ Hmi) as [m' [im' [Em Hi']]]. inversion Em; subst m' im'.
        unfold inner_inert in Hi'. rewrite forallb_forall in Hi'. apply Hi'. exact Hw. }
    destruct (barrier_between_flat flat l1 x l2 t l3 E Hadd) as [[y [Hy Hs]]|[y [Hy Hb]]].
    - left. destruct (Hcase y Hy) as [[m [im [Hmi ->]]]|Hi].
      + exists m, im. split; [exact Hmi | left; exact Hs].
      + destruct (inert_facts y (Hl2 y Hy) Hi) as [Hns _]. congruence.
    - apply in_app_or in Hy as [Hy|[<-|[]]]; [|right; exact Hb].
      left. destruct (Hcase y Hy) as [[m [im [Hmi ->]]]|Hi].
      + exists m, im. split; [exact Hmi | right; exact Hb].
      + destruct (inert_facts y (Hl2 y Hy) Hi) as [_ Hnb]. contradiction.
  Qed.

  Lemma clsl_inert fb whole : forall l, clsl flat X U fb whole l = true ->
    forall m im, In (CLeaf m im) l -> inner_inert flat m im = true.
  Proof.
    induction l as [|s r IH]; intros H m im Hin; [destruct Hin|]. destruct s as [n inner|n b y|n t e]; cbn [clsl] in H.
    - apply andb_true_iff in H as [H Hr]. apply andb_true_iff in H as [Hi _].
      destruct Hin as [E|Hin]; [inversion E; subst; exact Hi | apply IH; assumption].
    - apply andb_true_iff in H as [_ Hr]. destruct Hin as [E|Hin]; [discriminate | apply IH; assumption].
    - apply andb_true_iff in H as [_ Hr]. destruct Hin as [E|Hin]; [discriminate | apply IH; assumption].
  Qed.

  Lemma clsl_top_inert : forall l, clsl_top flat X U l = true ->
    forall m im, In (CLeaf m im) l -> inner_inert flat m im = true.
  Proof.
    induction l as [|s r IH]; intros H m im Hin; [destruct Hin|]. destruct s as [n inner|n b y|n t e]; cbn [clsl_top] in H.
    - apply andb_true_iff in H as [H Hr]. apply andb_true_iff in H as [Hi _].
      destruct Hin as [E|Hin]; [inversion E; subst; exact Hi | apply IH; assumption].
    - apply andb_true_iff in H as [_ Hr]. destruct Hin as [E|Hin]; [discriminate | apply IH; assumption].
    - apply andb_true_iff in H as [_ Hr]. destruct Hin as [E|Hin]; [discriminate | apply IH; assumption].
  Qed.

  (* forward case, shared by nested and outermost blocks *)
  Lemma forward_barrier par pf py A n inner r u C tailR :
    flat = A ++ flatl par pf py (CLeaf n inner :: r) ++ C ->
    fwd U r = Some u -> must_sync_n n u = true ->
    inner_inert flat n inner = true ->
    (forall m im, In (CLeaf m im) r -> inner_inert flat m im = true) ->
    bar_follows U (outl bars r ++ tailR) = true.
  Proof.
    intros E Hf Hms Hin Hr.
    destruct (fwd_some U r u Hf) as [mids [iu [rest [-> [Hu Hmids]]]]].
    rewrite outl_app, <- app_assoc. apply bar_mids; [exact Hmids|].
    assert (E' : flat = A ++ mk par pf py n :: (imap inner ++ flatl par pf py mids) ++
                      mk par pf py u :: (imap iu ++ flatl par pf py rest ++ C)).
    { rewrite E. cbn [flatl flat1]. rewrite flatl_app. cbn [flatl flat1].
      repeat (rewrite <- app_assoc; cbn [app]). reflexivity. }
    destruct (run_has_barrier par pf py A n inner mids (mk par pf py u) _ E') as [Hw|Hb].
    - apply must_sync_adds; [|rewrite must_sync_mk; exact Hms].
      rewrite E'. apply in_or_app. right. right. apply in_or_app. right. left. reflexivity.
    - exact Hin.
    - intros s Hs. destruct (Hmids s Hs) as [m [im [-> _]]]. exists m, im. split; [reflexivity|].
      apply Hr. apply in_or_app. left. exact Hs.
    - left. exact Hw.
    - right. cbn [outl out1]. rewrite <- !app_assoc. apply bar_follows_msync_in. exact Hb.
  Qed.

  (* to-yield case: x in a loop body, straight-line to the scf.yield, synchronised with a plain op of
     the same body *)
  Lemma yield_barrier par py A pre n inner r yld R' u :
    flat = A ++ flatl par true py (pre ++ CLeaf n inner :: r) ++ yld :: R' ->
    oi_id yld = py ->
    all_leaves r = true -> fwd U r = None ->
    In u (leaf_nodes (pre ++ CLeaf n inner :: r)) -> must_sync_n n u = true ->
    inner_inert flat n inner = true ->
    (forall m im, In (CLeaf m im) r -> inner_inert flat m im = true) ->
    bar_follows U (outl bars r ++ msync bars py) = true.
  Proof.
    intros E Hy Hal Hf Hu Hms Hin Hr.
    pose proof (fwd_none_leaves U r Hal Hf) as Hmids.
    apply bar_mids; [exact Hmids|].
    assert (E' : flat = (A ++ flatl par true py pre) ++ mk par true py n ::
                        (imap inner ++ flatl par true py r) ++ yld :: R').
    { rewrite E. rewrite flatl_app. cbn [flatl flat1]. repeat (rewrite <- app_assoc; cbn [app]). reflexivity. }
    destruct (run_has_barrier par true py _ n inner r yld R' E') as [Hw|Hb].
    - rewrite Hy. change py with (oi_pyield (mk par true py n)).
      apply (must_sync_adds_yield flat (mk par true py n) (mk par true py u)).
      + rewrite E. apply in_or_app. right. apply in_or_app. left. apply leaf_node_in_flat. exact Hu.
      + rewrite must_sync_mk. exact Hms.
      + unfold same_parent_for. cbn. rewrite Z.eqb_refl. reflexivity.
    - exact Hin.
    - intros s Hs. destruct (Hmids s Hs) as [m [im [-> _]]]. exists m, im. split; [reflexivity | apply Hr; exact Hs].
    - left. exact Hw.
    - right. rewrite <- (app_nil_r (msync bars py)). apply bar_follows_msync_in. rewrite <- Hy. exact Hb.
  Qed.

  (* nested constructs: the body / the branches of the output are guarded *)
  Definition Pc (s : cstmt) : Prop :=
    match s with
    | CLeaf _ _ => True
    | _ => forall par pf py L R, flat = L ++ flat1 par pf py s ++ R ->
           cls1 flat X U s = true -> guardedl X U (out1 bars s) = true
    end.

  (* a block that is the body of a loop (fb) or a branch *)
  Lemma block_guarded : forall whole, Forall Pc whole ->
    forall par pf py L R fb,
    flat = L ++ flatl par pf py whole ++ R ->
    (fb = true -> pf = true /\ exists yld R', R = yld :: R' /\ oi_id yld = py) ->
    forall l pre, whole = pre ++ l -> Forall Pc l -> clsl flat X U fb whole l = true ->
    guardedl X U (outl bars l ++ (if fb then msync bars py else [])) = true.
  Proof.
    intros whole _ par pf py L R fb E Hfb.
    induction l as [|s r IH]; intros pre Hw HP Hc.
    - simpl. destruct fb; [|reflexivity]. rewrite <- (app_nil_r (msync bars py)). rewrite guardedl_msync. reflexivity.
    - inversion HP as [|? ? Ps Pr]; subst.
      assert (IHr : guardedl X U (outl bars r ++ (if fb then msync bars py else [])) = true).
      { apply (IH (pre ++ [s])); [rewrite <- app_assoc; reflexivity | exact Pr|].
        destruct s; cbn [clsl] in Hc; apply andb_true_iff in Hc; tauto. }
      destruct s as [n inner|n b y|n t e].
      + (* a plain op *)
        cbn [clsl] in Hc. apply andb_true_iff in Hc as [Hc Hcr]. apply andb_true_iff in Hc as [Hin Hocc].
        cbn [outl out1]. rewrite <- !app_assoc. rewrite guardedl_msync. cbn [app]. rewrite nleaf_eq. cbn [guardedl].
        rewrite IHr, andb_true_r.
        destruct (n_id n =? X) eqn:EX; [|reflexivity]. destruct (is_sync (mk 0 false 0 n)) eqn:Es; [reflexivity|]. simpl.
        unfold occ in Hocc. destruct (fwd U r) as [u|] eqn:Ef.
        * apply (forward_barrier par pf py (L ++ flatl par pf py pre) n inner r u R); try assumption.
          { rewrite E. rewrite flatl_app. repeat (rewrite <- app_assoc; cbn [app]). reflexivity. }
          { apply (clsl_inert fb (pre ++ CLeaf n inner :: r) r Hcr). }
        * apply andb_true_iff in Hocc as [Hocc Hex]. apply andb_true_iff in Hocc as [Hfbt Hal]. subst fb.
          destruct (Hfb eq_refl) as [-> [yld [R' [-> Hy]]]].
          apply existsb_exists in Hex as [u [Hu Hux]]. apply andb_true_iff in Hux as [_ Hms].
          apply (yield_barrier par py L pre n inner r yld R' u); try assumption.
          apply (clsl_inert true (pre ++ CLeaf n inner :: r) r Hcr).
      + (* a nested loop *)
        cbn [clsl] in Hc. apply andb_true_iff in Hc as [Hc1 _].
        cbn [outl]. rewrite <- app_assoc. rewrite out1_For, <- app_assoc, guardedl_msync. cbn [app guardedl].
        rewrite IHr, andb_true_r.
        assert (Hg : guardedl X U (out1 bars (CFor n b y)) = true).
        { apply (Ps par pf py (L ++ flatl par pf py pre) (flatl par pf py r ++ R)); [|exact Hc1].
          rewrite E, flatl_app. cbn [flatl]. repeat (rewrite <- app_assoc; cbn [app]). reflexivity. }
        rewrite out1_For, guardedl_msync in Hg. cbn [guardedl] in Hg. rewrite andb_true_r in Hg. exact Hg.
      + cbn [clsl] in Hc. apply andb_true_iff in Hc as [Hc1 _].
        cbn [outl]. rewrite <- app_assoc. rewrite out1_If, <- app_assoc, guardedl_msync. cbn [app guardedl].
        rewrite IHr, andb_true_r.
        assert (Hg : guardedl X U (out1 bars (CIf n t e)) = true).
        { apply (Ps par pf py (L ++ flatl par pf py pre) (flatl par pf py r ++ R)); [|exact Hc1].
          rewrite E, flatl_app. cbn [flatl]. repeat (rewrite <- app_assoc; cbn [app]). reflexivity. }
        rewrite out1_If, guardedl_msync in Hg. cbn [guardedl] in Hg. rewrite andb_true_r in Hg. exact Hg.
  Qed.

  Lemma Pc_all : forall s, Pc s.
  Proof.
    apply cstmt_ind'.
    - intros. exact I.
    - intros n b y Hb par pf py L R E Hc. rewrite cls1_For in Hc. rewrite out1_For, guardedl_msync. cbn [guardedl].
      rewrite andb_true_r. rewrite guarded_For.
      apply (block_guarded b Hb (n_id n) true (n_id y) (L ++ [mk par pf py n]) (mk (n_id n) true (n_id y) y :: R) true) with (pre := []).
      + rewrite E, flat1_For. repeat (rewrite <- app_assoc; cbn [app]). reflexivity.
      + intros _. split; [reflexivity|]. eexists. eexists. split; reflexivity.
      + reflexivity.
      + exact Hb.
      + exact Hc.
    - intros n t e Ht He par pf py L R E Hc. rewrite cls1_If in Hc. apply andb_true_iff in Hc as [Hct Hce].
      rewrite out1_If, guardedl_msync. cbn [guardedl]. rewrite andb_true_r. rewrite guarded_If. apply andb_true_iff. split.
      + rewrite <- (app_nil_r (outl bars t)).
        apply (block_guarded t Ht (n_id n) false 0 (L ++ [mk par pf py n]) (flatl (n_id n) false 0 e ++ R) false) with (pre := []).
        * rewrite E, flat1_If. repeat (rewrite <- app_assoc; cbn [app]). reflexivity.
        * discriminate.
        * reflexivity.
        * exact Ht.
        * exact Hct.
      + rewrite <- (app_nil_r (outl bars e)).
        apply (block_guarded e He (n_id n) false 0 (L ++ mk par pf py n :: flatl (n_id n) false 0 t) R false) with (pre := []).
        * rewrite E, flat1_If. repeat (rewrite <- app_assoc; cbn [app]). reflexivity.
        * discriminate.
        * reflexivity.
        * exact He.
        * exact Hce.
  Qed.
End Main.

(* ---- the outermost block ---------------------------------------------------------------------------------- *)
Lemma mentions_rfor U id L : mentions U (RFor id L) = mentionsl U L.
Proof. cbn [mentions]. induction L as [|x r IH]; [reflexivity|]. simpl. rewrite IH. reflexivity. Qed.
Lemma mentions_rif U id A B : mentions U (RIf id A B) = mentionsl U A || mentionsl U B.
Proof.
  pose proof (mentions_rfor U id A) as HA. pose proof (mentions_rfor U id B) as HB. cbn [mentions] in *. rewrite HA, HB. reflexivity.
Qed.

Lemma mentionsl_false U l : mentionsl U l = false <-> (forall s, In s l -> mentions U s = false).
Proof.
  unfold mentionsl. split.
  - intros H s Hs. destruct (mentions U s) eqn:E; [|reflexivity].
    assert (existsb (mentions U) l = true) by (apply existsb_exists; exists s; split; assumption). congruence.
  - intros H. destruct (existsb (mentions U) l) eqn:E; [|reflexivity].
    apply existsb_exists in E as [s [Hs Hm]]. rewrite (H s Hs) in Hm. discriminate.
Qed.

Lemma in_msync bars i s : In s (msync bars i) -> s = sync_leaf i.
Proof. unfold msync. destruct (memb i bars); intros H; [destruct H as [H|[]]; symmetry; exact H | destruct H]. Qed.

Lemma mentions_outl U bars : forall l,
  Forall (fun s => mentionsC U s = false -> forall s', In s' (out1 bars s) -> mentions U s' = false) l ->
  mentionsCl U l = false -> forall s', In s' (outl bars l) -> mentions U s' = false.
Proof.
  induction 1 as [|x r Hx Hr IH]; intros Hm s' Hs'; [destruct Hs'|].
  simpl in Hm. apply orb_false_iff in Hm as [Hm1 Hm2]. cbn [outl] in Hs'. apply in_app_or in Hs' as [Hs'|Hs'].
  - apply (Hx Hm1). exact Hs'.
  - apply IH; assumption.
Qed.

Lemma mentions_out1 U bars : forall s, mentionsC U s = false -> forall s', In s' (out1 bars s) -> mentions U s' = false.
Proof.
  apply (cstmt_ind' (fun s => mentionsC U s = false -> forall s', In s' (out1 bars s) -> mentions U s' = false)).
  - intros n inner Hm s' Hs'. cbn [out1 mentionsC] in *. apply in_app_or in Hs' as [Hs'|[<-|[]]].
    + apply in_msync in Hs'. subst. reflexivity.
    + rewrite nleaf_eq. cbn [mentions]. rewrite Hm. apply andb_false_r.
  - intros n b y Hb Hm s' Hs'. cbn [mentionsC] in Hm. rewrite mentionsC_inner in Hm. rewrite out1_For in Hs'.
    apply in_app_or in Hs' as [Hs'|[<-|[]]]; [apply in_msync in Hs'; subst; reflexivity|].
    rewrite mentions_rfor. apply mentionsl_false. intros z Hz. apply in_app_or in Hz as [Hz|Hz].
    + apply (mentions_outl U bars b Hb Hm). exact Hz.
    + apply in_msync in Hz. subst. reflexivity.
  - intros n t e Ht He Hm s' Hs'. cbn [mentionsC] in Hm. rewrite !mentionsC_inner in Hm. apply orb_false_iff in Hm as [Hm1 Hm2].
    rewrite out1_If in Hs'. apply in_app_or in Hs' as [Hs'|[<-|[]]]; [apply in_msync in Hs'; subst; reflexivity|].
    rewrite mentions_rif. apply orb_false_iff. split; apply mentionsl_false; intros z Hz.
    + apply (mentions_outl U bars t Ht Hm1). exact Hz.
    + apply (mentions_outl U bars e He Hm2). exact Hz.
Qed.

Lemma bft_nomention U : forall l, (forall s, In s l -> mentions U s = false) -> bar_follows_top U l = true.
Proof.
  induction l as [|s r IH]; intros H; [reflexivity|].
  assert (Hr : bar_follows_top U r = true) by (apply IH; intros z Hz; apply H; right; exact Hz).
  pose proof (H s (or_introl eq_refl)) as Hs.
  destruct s as [id core bar rd wr|id b|id t e]; cbn [bar_follows_top].
  - destruct bar; [reflexivity|]. cbn [mentions negb andb] in Hs. rewrite Hs. exact Hr.
  - rewrite Hs, Hr. reflexivity.
  - rewrite Hs, Hr. reflexivity.
Qed.

Section Top.
  Variables (flat : list opinfo) (X U : Z).
  Let bars := barriers flat.

  Lemma top_guarded : forall whole par pf py L R,
    flat = L ++ flatl par pf py whole ++ R ->
    forall l pre, whole = pre ++ l -> clsl_top flat X U l = true ->
    guardedl_top X U (outl bars l) = true.
  Proof.
    intros whole par pf py L R E.
    induction l as [|s r IH]; intros pre Hw Hc; [reflexivity|].
    assert (IHr : guardedl_top X U (outl bars r) = true).
    { apply (IH (pre ++ [s])); [rewrite <- app_assoc; exact Hw|].
      destruct s; cbn [clsl_top] in Hc; apply andb_true_iff in Hc; tauto. }
    destruct s as [n inner|n b y|n t e].
    - cbn [clsl_top] in Hc. apply andb_true_iff in Hc as [Hc Hcr]. apply andb_true_iff in Hc as [Hin Hocc].
      cbn [outl out1]. rewrite <- !app_assoc. rewrite guardedl_top_msync. cbn [app]. rewrite nleaf_eq. cbn [guardedl_top].
      rewrite IHr, andb_true_r.
      destruct (n_id n =? X) eqn:EX; [|reflexivity]. destruct (is_sync (mk 0 false 0 n)) eqn:Es; [reflexivity|]. simpl.
      destruct (fwd U r) as [u|] eqn:Ef.
      + apply bar_follows_imp_top. rewrite <- (app_nil_r (outl bars r)).
        apply (forward_barrier flat U par pf py (L ++ flatl par pf py pre) n inner r u R); try assumption.
        * rewrite E, Hw. rewrite flatl_app. repeat (rewrite <- app_assoc; cbn [app]). reflexivity.
        * apply (clsl_top_inert flat X U r Hcr).
      + apply bft_nomention. apply negb_true_iff in Hocc.
        apply (mentions_outl U bars r); [|exact Hocc]. apply Forall_forall. intros z _. apply mentions_out1.
    - cbn [clsl_top] in Hc. apply andb_true_iff in Hc as [Hc1 _].
      cbn [outl]. rewrite out1_For, <- app_assoc, guardedl_top_msync. cbn [app guardedl_top]. rewrite IHr, andb_true_r.
      pose proof (Pc_all flat X U (CFor n b y)) as Hp. cbn [Pc] in Hp.
      specialize (Hp par pf py (L ++ flatl par pf py pre) (flatl par pf py r ++ R)).
      rewrite out1_For, guardedl_msync in Hp. cbn [guardedl] in Hp. rewrite andb_true_r in Hp. apply Hp; [|exact Hc1].
      rewrite E, Hw, flatl_app. cbn [flatl]. repeat (rewrite <- app_assoc; cbn [app]). reflexivity.
    - cbn [clsl_top] in Hc. apply andb_true_iff in Hc as [Hc1 _].
      cbn [outl]. rewrite out1_If, <- app_assoc, guardedl_top_msync. cbn [app guardedl_top]. rewrite IHr, andb_true_r.
      pose proof (Pc_all flat X U (CIf n t e)) as Hp. cbn [Pc] in Hp.
      specialize (Hp par pf py (L ++ flatl par pf py pre) (flatl par pf py r ++ R)).
      rewrite out1_If, guardedl_msync in Hp. cbn [guardedl] in Hp. rewrite andb_true_r in Hp. apply Hp; [|exact Hc1].
      rewrite E, Hw, flatl_app. cbn [flatl]. repeat (rewrite <- app_assoc; cbn [app]). reflexivity.
  Qed.
End Top.

(* C13, pass level, any nesting depth: for a SameLevel pair the output tree of the pass is guarded,
   hence (guarded_top_path_safe) X and U are separated by a barrier on EVERY path *)
Theorem tree_pass_guarded : forall p0 T X U,
  clsl_top (flatl p0 false 0 T) X U T = true ->
  guardedl_top X U (outl (barriers (flatl p0 false 0 T)) T) = true.
Proof.
  intros p0 T X U H.
  apply (top_guarded (flatl p0 false 0 T) X U T p0 false 0 [] []) with (pre := []); [|reflexivity | exact H].
  rewrite app_nil_r. reflexivity.
Qed.

Theorem tree_pass_all_guarded : forall p0 T, sl_program p0 T = true ->
  all_guarded (outl (barriers (flatl p0 false 0 T)) T) = true.
Proof.
  intros p0 T H. unfold sl_program in H. unfold all_guarded. rewrite forallb_forall in *. intros a Ha.
  specialize (H a Ha). rewrite forallb_forall in *. intros b Hb. specialize (H b Hb).
  apply orb_true_iff in H as [H|H]; [rewrite H; reflexivity|].
  rewrite (tree_pass_guarded p0 T _ _ H). apply orb_true_r.
Qed.

Theorem tree_pass_path_safe : forall p0 T X U,
  clsl_top (flatl p0 false 0 T) X U T = true ->
  forall o, scanb X U false (rrunl o (outl (barriers (flatl p0 false 0 T)) T) []) <> None.
Proof. intros p0 T X U H o. apply guarded_top_path_safe. apply tree_pass_guarded. exact H. Qed.

Theorem tree_pass_drf : forall p0 T, sl_program p0 T = true ->
  forall o ss m,
  let prog := outl (barriers (flatl p0 false 0 T)) T in
  Forall2 schedule_of (map (filter specific) (split_phases [] (rrunl o prog []))) ss ->
  meq (exec (concat ss) m) (exec (concat (map (filter specific) (split_phases [] (rrunl o prog [])))) m).
Proof.
  intros p0 T H o ss m prog Hs. apply all_guarded_any_interleaving; [|exact Hs]. apply tree_pass_all_guarded. exact H.
Qed.

(* ... and on the barrier machine: every maximal execution of the cores along any path of the pass
   output of a SameLevel program terminates in the memory of the program order *)
From Snax Require Import Model.MultiCoreStreams.
Theorem tree_pass_machine : forall p0 T, sl_program p0 T = true ->
  forall o cores m, cores <> [] -> NoDup cores ->
  let phs := map (filter specific) (split_phases [] (rrunl o (outl (barriers (flatl p0 false 0 T)) T) [])) in
  (forall ph op, In ph phs -> In op ph -> In (o_core op) cores) ->
  forall cfg, steps (streams_of cores phs, m) cfg ->
    (all_finished (fst cfg) = true /\ meq (snd cfg) (exec (concat phs) m)) \/ (exists cfg', step cfg cfg').
Proof.
  intros p0 T H o cores m Hc Hn phs Hin cfg Hs.
  apply (all_guarded_machine _ (tree_pass_all_guarded p0 T H) o cores m Hc Hn Hin cfg Hs).
Qed.
