(* C07 — the correctness argument of the F1 repair, proved about the model [ainfer]:
   the loop-head state  head := state_intersection(init, yielded-assuming-head=init)  is
   INDUCTIVE: walking the body again from the head yields a state that contains the head
   ([ainfer_head_inductive]).  This is the only non-trivial clause of the certificate for the
   model's own table; the other clauses hold by construction of the equations
   (st_inter_sub_l / st_inter_sub_r / st_sub_refl in AccInferProofs.v).

   Key lemma ([loc_block]): inference is FIELD-LOCAL per accelerator — the value the table gives
   field f in a state of accelerator a depends only on what the table gives f in the other
   states of a (setup = update, scf.if = intersection, loops = intersections of updates). *)
From Snax Require Import Base.Prelude Model.AccIR Model.AccSem Model.AccInfer Model.AccInferTy Model.AccDedup
  Proofs.AccSemProofs Proofs.AccInferProofs Proofs.AccDedupProofs Proofs.AccRenameProofs Proofs.AccGhostProofs
  Proofs.AccRulesProofs.

(* ---- tables whose entries are proper dictionaries ---------------------------------------------------- *)
Definition tbl_ok (T : tbl) : Prop := forall x, nodup_nat (map fst (tlook T x)) = true.

Lemma tlook_tset s d T x : tlook (tset s d T) x = if Nat.eqb s x then d else tlook T x.
Proof. reflexivity. Qed.

Lemma tbl_ok_tset s d T : tbl_ok T -> nodup_nat (map fst d) = true -> tbl_ok (tset s d T).
Proof. intros H Hd x. rewrite tlook_tset. destruct (Nat.eqb s x); [exact Hd|apply H]. Qed.

Lemma st_inter_keys_nodup a b : nodup_nat (map fst a) = true -> nodup_nat (map fst (st_inter a b)) = true.
Proof. intros H. unfold st_inter. apply nodup_filter. exact H. Qed.

Lemma tbl_ok_nil : tbl_ok [].
Proof. intros x. reflexivity. Qed.

Lemma ainfer_stmt_for iv lb ub sp its rs body ys T :
  ainfer_stmt (SFor iv lb ub sp its rs body ys) T =
  (let sis := state_iters its ys rs in
   let T1 := fold_left (fun T' x => tset (si_arg x) (tlook T (si_init x)) T') sis T in
   let T1' := ainfer_block body T1 in
   let T2 := fold_left (fun T' x => tset (si_arg x) (st_inter (tlook T (si_init x)) (tlook T1' (si_yield x))) T') sis T in
   let T2' := ainfer_block body T2 in
   fold_left (fun T' x => tset (si_res x) (st_inter (tlook T (si_init x)) (tlook T2' (si_yield x))) T') sis T2').
Proof. reflexivity. Qed.

Lemma ainfer_stmt_if c rs th thy el ely T :
  ainfer_stmt (SIf c rs th thy el ely) T =
  (let T' := ainfer_block el (ainfer_block th T) in
   fold_left (fun T'' x => tset (sr_res x) (st_inter (tlook T' (sr_then x)) (tlook T' (sr_else x))) T'')
             (state_results rs thy ely) T').
Proof. reflexivity. Qed.

Lemma tbl_ok_fold {A} (key : A -> val) (dv : A -> astate) l : forall T,
  tbl_ok T -> (forall x, In x l -> nodup_nat (map fst (dv x)) = true) ->
  tbl_ok (fold_left (fun T' x => tset (key x) (dv x) T') l T).
Proof.
  induction l as [|x l IH]; intros T HT Hd; [exact HT|]. simpl. apply IH.
  - apply tbl_ok_tset; [exact HT|apply Hd; left; reflexivity].
  - intros y Hy. apply Hd. right. exact Hy.
Qed.

Lemma tbl_ok_block : forall b T, tbl_ok T -> tbl_ok (ainfer_block b T).
Proof.
  apply (block_ind2 (fun s => forall T, tbl_ok T -> tbl_ok (ainfer_stmt s T))
                    (fun b => forall T, tbl_ok T -> tbl_ok (ainfer_block b T)));
    try (intros; assumption).
  - intros a o i fs T HT. simpl. apply tbl_ok_tset; [exact HT|].
    apply st_update_keys_nodup. destruct i as [i|]; [apply HT|reflexivity].
  - intros iv lb ub sp its rs body ys IH T HT. rewrite ainfer_stmt_for. cbv zeta.
    apply tbl_ok_fold.
    + apply IH. apply tbl_ok_fold; [exact HT|]. intros x _. apply st_inter_keys_nodup. apply HT.
    + intros x _. apply st_inter_keys_nodup. apply HT.
  - intros c rs th thy el ely IHt IHe T HT. rewrite ainfer_stmt_if. cbv zeta.
    apply tbl_ok_fold; [apply IHe; apply IHt; exact HT|].
    intros x _. apply st_inter_keys_nodup. apply IHe. apply IHt. exact HT.
  - intros s b Hs Hb T HT. simpl. apply Hb. apply Hs. exact HT.
Qed.

(* lookup in an intersection of proper dictionaries *)
Lemma st_lookup_filter_nodup (q : field * val -> bool) s f :
  nodup_nat (map fst s) = true ->
  st_lookup f (filter q s) = match st_lookup f s with Some v => if q (f, v) then Some v else None | None => None end.
Proof.
  intros Hn. rewrite <- !nodup_keys_lb by (try apply nodup_filter; exact Hn). apply last_binding_filter. exact Hn.
Qed.

Lemma st_lookup_inter a b f :
  nodup_nat (map fst a) = true ->
  st_lookup f (st_inter a b) =
  match st_lookup f a with
  | Some v => match st_lookup f b with Some w => if Nat.eqb w v then Some v else None | None => None end
  | None => None
  end.
Proof.
  intros Hn. unfold st_inter. rewrite st_lookup_filter_nodup by exact Hn.
  destruct (st_lookup f a) as [v|]; [|reflexivity]. cbn [fst snd].
  destruct (st_lookup f b) as [w|]; [|reflexivity]. destruct (Nat.eqb w v); reflexivity.
Qed.

(* ---- field-locality -------------------------------------------------------------------------------- *)
Section Loc.
Variable ty_of : val -> option acc.
Variable a : acc.
Variable f : field.

(* the two tables give field f the same value in every state of accelerator a *)
Definition rel (T1 T2 : tbl) : Prop :=
  forall x, has_ty ty_of x a = true -> st_lookup f (tlook T1 x) = st_lookup f (tlook T2 x).

Lemma rel_tset s d1 d2 T1 T2 :
  rel T1 T2 -> (has_ty ty_of s a = true -> st_lookup f d1 = st_lookup f d2) -> rel (tset s d1 T1) (tset s d2 T2).
Proof.
  intros HR Hd x Hx. rewrite !tlook_tset. destruct (Nat.eqb s x) eqn:E; [|exact (HR x Hx)].
  apply Nat.eqb_eq in E. subst x. exact (Hd Hx).
Qed.

Lemma rel_fold {A} (key : A -> val) (d1 d2 : A -> astate) l : forall T1 T2,
  rel T1 T2 -> (forall x, In x l -> has_ty ty_of (key x) a = true -> st_lookup f (d1 x) = st_lookup f (d2 x)) ->
  rel (fold_left (fun T' x => tset (key x) (d1 x) T') l T1) (fold_left (fun T' x => tset (key x) (d2 x) T') l T2).
Proof.
  induction l as [|x l IH]; intros T1 T2 HR Hd; [exact HR|]. simpl. apply IH.
  - apply rel_tset; [exact HR|apply Hd; left; reflexivity].
  - intros y Hy. apply Hd. right. exact Hy.
Qed.

Lemma has_ty_inj x b : has_ty ty_of x a = true -> has_ty ty_of x b = true -> b = a.
Proof.
  unfold has_ty. destruct (ty_of x) as [c|]; [|discriminate]. intros H1 H2.
  apply Nat.eqb_eq in H1. apply Nat.eqb_eq in H2. congruence.
Qed.

Lemma lookup_inter_rel A1 B1 A2 B2 :
  nodup_nat (map fst A1) = true -> nodup_nat (map fst A2) = true ->
  st_lookup f A1 = st_lookup f A2 -> st_lookup f B1 = st_lookup f B2 ->
  st_lookup f (st_inter A1 B1) = st_lookup f (st_inter A2 B2).
Proof. intros H1 H2 HA HB. rewrite !st_lookup_inter by assumption. rewrite HA, HB. reflexivity. Qed.

Lemma sty_stmt_for iv lb ub sp its rs body ys :
  sty_stmt ty_of (SFor iv lb ub sp its rs body ys) =
  forallb (fun x => has_ty ty_of (si_arg x) (si_acc x) && has_ty ty_of (si_init x) (si_acc x)
                    && has_ty ty_of (si_yield x) (si_acc x) && has_ty ty_of (si_res x) (si_acc x)) (state_iters its ys rs)
  && nodup_nat (map si_acc (state_iters its ys rs)) && sty_block ty_of body.
Proof. reflexivity. Qed.

Lemma sty_stmt_if c rs th thy el ely :
  sty_stmt ty_of (SIf c rs th thy el ely) =
  forallb (fun x => has_ty ty_of (sr_res x) (sr_acc x) && has_ty ty_of (sr_then x) (sr_acc x)
                    && has_ty ty_of (sr_else x) (sr_acc x)) (state_results rs thy ely)
  && sty_block ty_of th && sty_block ty_of el.
Proof. reflexivity. Qed.

Lemma loc_block : forall b, sty_block ty_of b = true ->
  forall T1 T2, tbl_ok T1 -> tbl_ok T2 -> rel T1 T2 -> rel (ainfer_block b T1) (ainfer_block b T2).
Proof.
  apply (block_ind2 (fun s => sty_stmt ty_of s = true ->
                       forall T1 T2, tbl_ok T1 -> tbl_ok T2 -> rel T1 T2 -> rel (ainfer_stmt s T1) (ainfer_stmt s T2))
                    (fun b => sty_block ty_of b = true ->
                       forall T1 T2, tbl_ok T1 -> tbl_ok T2 -> rel T1 T2 -> rel (ainfer_block b T1) (ainfer_block b T2)));
    try (intros; assumption).
  - (* setup *)
    intros a' o i fs Hty T1 T2 H1 H2 HR. simpl in Hty. apply andb_true_iff in Hty. destruct Hty as [Ho Hi].
    simpl. apply rel_tset; [exact HR|]. intros Hoa. pose proof (has_ty_inj o a' Hoa Ho) as ->.
    rewrite !st_lookup_update. destruct (last_binding f fs); [reflexivity|].
    destruct i as [i|]; [apply HR; exact Hi|reflexivity].
  - (* for *)
    intros iv lb ub sp its rs body ys IH Hty T1 T2 H1 H2 HR. rewrite sty_stmt_for in Hty.
    apply andb_true_iff in Hty. destruct Hty as [Hty Hb]. apply andb_true_iff in Hty. destruct Hty as [Hall _].
    rewrite forallb_forall in Hall.
    assert (Hx : forall x, In x (state_iters its ys rs) ->
              forall b, has_ty ty_of (si_arg x) b = true \/ has_ty ty_of (si_res x) b = true -> b = si_acc x).
    { intros x Hin b [Hb'|Hb']; specialize (Hall x Hin);
        repeat (apply andb_true_iff in Hall; destruct Hall as [Hall ?]).
      - unfold has_ty in *. destruct (ty_of (si_arg x)); [|discriminate].
        apply Nat.eqb_eq in Hb'. apply Nat.eqb_eq in Hall. congruence.
      - unfold has_ty in *. destruct (ty_of (si_res x)); [|discriminate].
        apply Nat.eqb_eq in Hb'. apply Nat.eqb_eq in H. congruence. }
    assert (Hin_ty : forall x, In x (state_iters its ys rs) ->
              has_ty ty_of (si_init x) (si_acc x) = true /\ has_ty ty_of (si_yield x) (si_acc x) = true).
    { intros x Hin. specialize (Hall x Hin). repeat (apply andb_true_iff in Hall; destruct Hall as [Hall ?]). split; assumption. }
    rewrite !ainfer_stmt_for. cbv zeta.
    set (sis := state_iters its ys rs) in *.
    (* pass 1 *)
    assert (HR1 : rel (fold_left (fun T' x => tset (si_arg x) (tlook T1 (si_init x)) T') sis T1)
                      (fold_left (fun T' x => tset (si_arg x) (tlook T2 (si_init x)) T') sis T2)).
    { apply rel_fold; [exact HR|]. intros x Hin Hk. pose proof (Hx x Hin a (or_introl Hk)) as Ea.
      apply HR. rewrite Ea. exact (proj1 (Hin_ty x Hin)). }
    assert (Hok1 : forall T, tbl_ok T -> tbl_ok (fold_left (fun T' x => tset (si_arg x) (tlook T (si_init x)) T') sis T)).
    { intros T HT. apply tbl_ok_fold; [exact HT|]. intros x _. apply HT. }
    pose proof (IH Hb _ _ (Hok1 T1 H1) (Hok1 T2 H2) HR1) as HR1'.
    set (T11 := ainfer_block body (fold_left (fun T' x => tset (si_arg x) (tlook T1 (si_init x)) T') sis T1)) in *.
    set (T21 := ainfer_block body (fold_left (fun T' x => tset (si_arg x) (tlook T2 (si_init x)) T') sis T2)) in *.
    assert (Hok11 : tbl_ok T11) by (apply tbl_ok_block; apply Hok1; exact H1).
    assert (Hok21 : tbl_ok T21) by (apply tbl_ok_block; apply Hok1; exact H2).
    (* heads *)
    assert (HR2 : rel (fold_left (fun T' x => tset (si_arg x) (st_inter (tlook T1 (si_init x)) (tlook T11 (si_yield x))) T') sis T1)
                      (fold_left (fun T' x => tset (si_arg x) (st_inter (tlook T2 (si_init x)) (tlook T21 (si_yield x))) T') sis T2)).
    { apply rel_fold; [exact HR|]. intros x Hin Hk. pose proof (Hx x Hin a (or_introl Hk)) as Ea.
      destruct (Hin_ty x Hin) as [Hi Hy].
      apply lookup_inter_rel; [apply H1|apply H2|apply HR; rewrite Ea; exact Hi|apply HR1'; rewrite Ea; exact Hy]. }
    assert (Hok2 : forall T T', tbl_ok T ->
              tbl_ok (fold_left (fun T'' x => tset (si_arg x) (st_inter (tlook T (si_init x)) (tlook T' (si_yield x))) T'') sis T)).
    { intros T T' HT. apply tbl_ok_fold; [exact HT|]. intros x _. apply st_inter_keys_nodup. apply HT. }
    pose proof (IH Hb _ _ (Hok2 T1 T11 H1) (Hok2 T2 T21 H2) HR2) as HR2'.
    (* results *)
    apply rel_fold; [exact HR2'|]. intros x Hin Hk. pose proof (Hx x Hin a (or_intror Hk)) as Ea.
    destruct (Hin_ty x Hin) as [Hi Hy].
    apply lookup_inter_rel; [apply H1|apply H2|apply HR; rewrite Ea; exact Hi|apply HR2'; rewrite Ea; exact Hy].
  - (* if *)
    intros c rs th thy el ely IHt IHe Hty T1 T2 H1 H2 HR. rewrite sty_stmt_if in Hty.
    apply andb_true_iff in Hty. destruct Hty as [Hty Hel]. apply andb_true_iff in Hty. destruct Hty as [Hall Hth].
    rewrite forallb_forall in Hall. rewrite !ainfer_stmt_if. cbv zeta.
    pose proof (IHe Hel _ _ (tbl_ok_block th T1 H1) (tbl_ok_block th T2 H2) (IHt Hth _ _ H1 H2 HR)) as HR'.
    assert (Hk1 : tbl_ok (ainfer_block el (ainfer_block th T1))) by (apply tbl_ok_block; apply tbl_ok_block; exact H1).
    assert (Hk2 : tbl_ok (ainfer_block el (ainfer_block th T2))) by (apply tbl_ok_block; apply tbl_ok_block; exact H2).
    apply rel_fold; [exact HR'|]. intros x Hin Hk. specialize (Hall x Hin).
    repeat (apply andb_true_iff in Hall; destruct Hall as [Hall ?]).
    pose proof (has_ty_inj _ _ Hk Hall) as Ea.
    apply lookup_inter_rel; [apply Hk1|apply Hk2|apply HR'; rewrite <- Ea; assumption|apply HR'; rewrite <- Ea; assumption].
  - (* cons *)
    intros s b Hs Hb Hty T1 T2 H1 H2 HR. simpl in Hty. apply andb_true_iff in Hty. destruct Hty as [Hts Htb].
    simpl. apply (Hb Htb); [apply (tbl_ok_block [s]); exact H1|apply (tbl_ok_block [s]); exact H2|].
    exact (Hs Hts T1 T2 H1 H2 HR).
Qed.
End Loc.

(* ---- the loop head is inductive ------------------------------------------------------------------------ *)
Lemma nodup_map_inj {A} (g : A -> nat) l : nodup_nat (map g l) = true ->
  forall x x', In x l -> In x' l -> g x = g x' -> x = x'.
Proof.
  induction l as [|y l IH]; intros Hn x x' Hx Hx' E; [destruct Hx|].
  simpl in Hn. apply andb_true_iff in Hn. destruct Hn as [Hy Hn].
  apply Bool.negb_true_iff in Hy. apply mem_nat_false in Hy.
  destruct Hx as [->|Hx], Hx' as [->|Hx'].
  - reflexivity.
  - exfalso. apply Hy. rewrite E. apply in_map. exact Hx'.
  - exfalso. apply Hy. rewrite <- E. apply in_map. exact Hx.
  - exact (IH Hn x x' Hx Hx' E).
Qed.

Lemma tlook_fold_other {A} (key : A -> val) (dv : A -> astate) l : forall T z,
  ~ In z (map key l) -> tlook (fold_left (fun T' x => tset (key x) (dv x) T') l T) z = tlook T z.
Proof.
  induction l as [|x l IH]; intros T z Hz; [reflexivity|]. simpl. rewrite IH by (intros H; apply Hz; right; exact H).
  rewrite tlook_tset. destruct (Nat.eqb (key x) z) eqn:E; [|reflexivity].
  apply Nat.eqb_eq in E. exfalso. apply Hz. left. exact E.
Qed.

Lemma tlook_fold_key {A} (key : A -> val) (dv : A -> astate) l : nodup_nat (map key l) = true ->
  forall T x, In x l -> tlook (fold_left (fun T' y => tset (key y) (dv y) T') l T) (key x) = dv x.
Proof.
  induction l as [|y l IH]; intros Hn T x Hx; [destruct Hx|].
  simpl in Hn. apply andb_true_iff in Hn. destruct Hn as [Hy Hn].
  apply Bool.negb_true_iff in Hy. apply mem_nat_false in Hy. simpl.
  destruct Hx as [->|Hx].
  - rewrite tlook_fold_other by exact Hy. rewrite tlook_tset, Nat.eqb_refl. reflexivity.
  - apply IH; assumption.
Qed.

Lemma rel_refl ty_of a f T : rel ty_of a f T T.
Proof. intros x _. reflexivity. Qed.

Theorem ainfer_head_inductive ty_of iv lb ub sp its rs body ys T :
  sty_stmt ty_of (SFor iv lb ub sp its rs body ys) = true -> tbl_ok T ->
  nodup_nat (map si_arg (state_iters its ys rs)) = true ->
  let sis := state_iters its ys rs in
  let T1 := fold_left (fun T' x => tset (si_arg x) (tlook T (si_init x)) T') sis T in
  let T1' := ainfer_block body T1 in
  let T2 := fold_left (fun T' x => tset (si_arg x) (st_inter (tlook T (si_init x)) (tlook T1' (si_yield x))) T') sis T in
  let T2' := ainfer_block body T2 in
  forall x, In x sis -> st_sub (tlook T2 (si_arg x)) (tlook T2' (si_yield x)) = true.
Proof.
  intros Hty HT Hnb sis T1 T1' T2 T2' x Hx.
  rewrite sty_stmt_for in Hty. apply andb_true_iff in Hty. destruct Hty as [Hty Hb].
  apply andb_true_iff in Hty. destruct Hty as [Hall Hna]. rewrite forallb_forall in Hall. fold sis in Hall, Hna, Hnb.
  assert (Htys : forall z, In z sis -> has_ty ty_of (si_arg z) (si_acc z) = true /\ has_ty ty_of (si_init z) (si_acc z) = true
                                      /\ has_ty ty_of (si_yield z) (si_acc z) = true).
  { intros z Hz. specialize (Hall z Hz). repeat (apply andb_true_iff in Hall; destruct Hall as [Hall ?]). auto. }
  assert (Hok1 : tbl_ok T1) by (apply tbl_ok_fold; [exact HT|intros z _; apply HT]).
  assert (Hok1' : tbl_ok T1') by (apply tbl_ok_block; exact Hok1).
  assert (Hok2 : tbl_ok T2) by (apply tbl_ok_fold; [exact HT|intros z _; apply st_inter_keys_nodup; apply HT]).
  unfold T2 at 1. rewrite (tlook_fold_key si_arg _ sis Hnb T x Hx).
  set (a := si_acc x). set (Ix := tlook T (si_init x)). set (Yx := tlook T1' (si_yield x)).
  unfold st_sub. apply forallb_forall. intros [f v] Hin. cbn [fst snd].
  apply st_inter_In in Hin. destruct Hin as [HinI HlY].
  assert (HlI : st_lookup f Ix = Some v) by (apply st_keys_nodup_lookup; [apply HT|exact HinI]).
  (* the two body walks see tables that agree on field f in every state of accelerator a *)
  assert (HR : rel ty_of a f T1 T2).
  { apply rel_fold; [apply rel_refl|]. intros z Hz Hk.
    destruct (Htys z Hz) as [Hza _].
    assert (Ez : z = x).
    { apply (nodup_map_inj si_acc sis Hna z x Hz Hx).
      apply (has_ty_inj ty_of (si_acc x) (si_arg z) (si_acc z)); [exact Hk|exact Hza]. }
    subst z. fold Ix Yx. rewrite st_lookup_inter by (apply HT). rewrite HlI, HlY, Nat.eqb_refl. reflexivity. }
  pose proof (loc_block ty_of a f body Hb T1 T2 Hok1 Hok2 HR) as HR'.
  destruct (Htys x Hx) as [_ [_ Hyx]].
  fold T1' T2' in HR'. rewrite <- (HR' (si_yield x) Hyx). fold Yx. rewrite HlY. apply Nat.eqb_refl.
Qed.

(* ---- all table clauses of the certificate, for the entries as [ainfer] creates them ---------------- *)
Theorem ainfer_loop_clauses ty_of iv lb ub sp its rs body ys T :
  sty_stmt ty_of (SFor iv lb ub sp its rs body ys) = true -> tbl_ok T ->
  nodup_nat (map si_arg (state_iters its ys rs)) = true ->
  let sis := state_iters its ys rs in
  let T1' := ainfer_block body (fold_left (fun T' x => tset (si_arg x) (tlook T (si_init x)) T') sis T) in
  let T2 := fold_left (fun T' x => tset (si_arg x) (st_inter (tlook T (si_init x)) (tlook T1' (si_yield x))) T') sis T in
  let T2' := ainfer_block body T2 in
  forall x, In x sis ->
    let head := tlook T2 (si_arg x) in
    let res := st_inter (tlook T (si_init x)) (tlook T2' (si_yield x)) in
    st_sub head (tlook T (si_init x)) = true /\ st_sub head (tlook T2' (si_yield x)) = true /\
    st_sub res (tlook T (si_init x)) = true /\ st_sub res (tlook T2' (si_yield x)) = true.
Proof.
  intros Hty HT Hnb sis T1' T2 T2' x Hx head res.
  assert (Hh : head = st_inter (tlook T (si_init x)) (tlook T1' (si_yield x))).
  { unfold head, T2.
    exact (tlook_fold_key si_arg (fun y => st_inter (tlook T (si_init y)) (tlook T1' (si_yield y))) sis Hnb T x Hx). }
  repeat split.
  - rewrite Hh. apply st_inter_sub_l. apply HT.
  - exact (ainfer_head_inductive ty_of iv lb ub sp its rs body ys T Hty HT Hnb x Hx).
  - apply st_inter_sub_l. apply HT.
  - apply st_inter_sub_r.
Qed.

Theorem ainfer_if_clauses (A B : astate) :
  nodup_nat (map fst A) = true ->
  st_sub (st_inter A B) A = true /\ st_sub (st_inter A B) B = true.
Proof. intros H. split; [apply st_inter_sub_l; exact H|apply st_inter_sub_r]. Qed.

Theorem ainfer_setup_clause (X : astate) fs :
  nodup_nat (map fst X) = true -> st_sub (st_update X fs) (st_update X fs) = true.
Proof. intros H. apply st_sub_refl. apply st_update_keys_nodup. exact H. Qed.
