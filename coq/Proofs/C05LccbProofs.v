(* C05 — structure of `entries`, `get_stride` and the position-aware view of
   largest_common_contiguous_block. *)
From Coq Require Import Permutation.
From Snax Require Import Base.Prelude Base.ListAux Model.Tsl Model.C05Copy Proofs.TslProofs.

(* ---- generic list facts ----------------------------------------------------------------- *)
Lemma NoDup_app_intro {A} (l1 l2 : list A) :
  NoDup l1 -> NoDup l2 -> (forall x, In x l1 -> ~ In x l2) -> NoDup (l1 ++ l2).
Proof.
  induction l1 as [|x l1 IH]; intros H1 H2 H; [exact H2|].
  inversion H1 as [|x' l1' Hx H1']; subst. cbn [app]. constructor.
  - intros Hin. apply in_app_iff in Hin as [Hin|Hin]; [contradiction|]. apply (H x (or_introl eq_refl) Hin).
  - apply IH; [exact H1'|exact H2|]. intros y Hy. apply H. right; exact Hy.
Qed.

Lemma NoDup_map_fst {A B} (l : list (A * B)) : NoDup (map fst l) -> NoDup l.
Proof.
  induction l as [|x l IH]; intros H; [constructor|]. inversion H as [|x' l' Hx H']; subst.
  constructor; [|apply IH; exact H']. intros Hin. apply Hx. apply in_map. exact Hin.
Qed.

Lemma filter_partition_perm {A} (f : A -> bool) (l : list A) :
  Permutation l (filter f l ++ filter (fun x => negb (f x)) l).
Proof.
  induction l as [|x l IH]; [constructor|]. cbn [filter]. destruct (f x); cbn [negb app].
  - constructor. exact IH.
  - apply Permutation_cons_app. exact IH.
Qed.

Lemma filter_filter {A} (f g : A -> bool) (l : list A) :
  filter g (filter f l) = filter (fun x => f x && g x) l.
Proof.
  induction l as [|x l IH]; [reflexivity|]. cbn [filter]. destruct (f x); cbn [filter andb]; [|exact IH].
  destruct (g x); rewrite IH; reflexivity.
Qed.

(* ---- enum_from ---------------------------------------------------------------------------- *)
Lemma in_enum_from {A} (l : list A) : forall n k x,
  In (k, x) (enum_from n l) -> (n <= k)%nat /\ nth_error l (k - n) = Some x.
Proof.
  induction l as [|y l IH]; intros n k x H; [destruct H|]. cbn [enum_from] in H. destruct H as [H|H].
  - inversion H; subst. rewrite Nat.sub_diag. split; [lia|reflexivity].
  - apply IH in H as [Hle Hn]. split; [lia|]. replace (k - n)%nat with (S (k - S n)) by lia. exact Hn.
Qed.

Lemma map_fst_enum_from {A} (l : list A) : forall n, map fst (enum_from n l) = seq n (length l).
Proof. induction l as [|y l IH]; intros n; cbn; [reflexivity|]. rewrite IH. reflexivity. Qed.

Lemma map_snd_enum_from {A} (l : list A) : forall n, map snd (enum_from n l) = l.
Proof. induction l as [|y l IH]; intros n; cbn; [reflexivity|]. rewrite IH. reflexivity. Qed.

(* ---- entries ------------------------------------------------------------------------------ *)
Definition entries_from (n : nat) (ts : list tstride) : list entry :=
  flat_map (fun dt => map (fun ds => (fst dt, fst ds, snd ds)) (enum_from 0 (snd dt))) (enum_from n ts).

Lemma entries_entries_from l : entries l = entries_from 0 (tstrides l).
Proof. reflexivity. Qed.

Lemma entries_from_cons n t ts :
  entries_from n (t :: ts) = map (fun ds => (n, fst ds, snd ds)) (enum_from 0 t) ++ entries_from (S n) ts.
Proof. reflexivity. Qed.

Lemma map_snd_entries_from ts : forall n, map snd (entries_from n ts) = concat ts.
Proof.
  induction ts as [|t ts IH]; intros n; [reflexivity|]. rewrite entries_from_cons, map_app, IH.
  cbn [concat]. f_equal. rewrite map_map. cbn [snd]. apply map_snd_enum_from.
Qed.

Lemma map_snd_entries l : map snd (entries l) = all_strides l.
Proof. apply map_snd_entries_from. Qed.

(* the keys depend on the tile structure only *)
Definition keys_from (n : nat) (lens : list nat) : list (nat * nat) :=
  flat_map (fun dl => map (fun k => (fst dl, k)) (seq 0 (snd dl))) (enum_from n lens).

Lemma keys_entries_from ts : forall n, map fst (entries_from n ts) = keys_from n (map (@length stride) ts).
Proof.
  induction ts as [|t ts IH]; intros n; [reflexivity|]. rewrite entries_from_cons, map_app, IH.
  cbn [map]. unfold keys_from at 2. cbn [enum_from flat_map fst snd]. f_equal.
  rewrite map_map. cbn [fst]. rewrite <- (map_fst_enum_from t 0), map_map. reflexivity.
Qed.

Lemma in_keys_from lens : forall n d k, In (d, k) (keys_from n lens) -> (n <= d)%nat.
Proof.
  induction lens as [|len lens IH]; intros n d k H; [destruct H|].
  unfold keys_from in H. cbn [enum_from flat_map fst snd] in H. apply in_app_iff in H as [H|H].
  - apply in_map_iff in H as [k' [E _]]. inversion E; subst. lia.
  - apply IH in H. lia.
Qed.

Lemma NoDup_keys_from lens : forall n, NoDup (keys_from n lens).
Proof.
  induction lens as [|len lens IH]; intros n; [constructor|].
  unfold keys_from. cbn [enum_from flat_map fst snd]. apply NoDup_app_intro.
  - apply FinFun.Injective_map_NoDup; [|apply seq_NoDup]. intros a b E. inversion E. reflexivity.
  - apply IH.
  - intros [d k] H1 H2. apply in_map_iff in H1 as [k' [E _]]. inversion E; subst.
    apply in_keys_from in H2. lia.
Qed.

Lemma NoDup_entries_keys l : NoDup (map fst (entries l)).
Proof. rewrite entries_entries_from, keys_entries_from. apply NoDup_keys_from. Qed.

Lemma NoDup_entries l : NoDup (entries l).
Proof. apply NoDup_map_fst, NoDup_entries_keys. Qed.

Lemma get_stride_entries l e : In e (entries l) ->
  get_stride l (fst (fst e)) (snd (fst e)) = Some (snd e).
Proof.
  unfold entries. rewrite in_flat_map. intros [[d t] [Hdt He]]. cbn [fst snd] in He.
  apply in_map_iff in He as [[k s] [<- Hks]]. cbn [fst snd].
  apply in_enum_from in Hdt as [_ Hd]. apply in_enum_from in Hks as [_ Hk].
  rewrite Nat.sub_0_r in Hd, Hk. unfold get_stride, tstride in *. rewrite Hd. exact Hk.
Qed.

Lemma equal_tile_bounds_lengths a b : equal_tile_bounds a b = true ->
  map (@length stride) (tstrides a) = map (@length stride) (tstrides b).
Proof.
  unfold equal_tile_bounds. intros H.
  apply (list_eqb_eq (list_eqb optZ_eqb)) in H; [|apply list_eqb_eq, optZ_eqb_eq].
  unfold tile_bounds in H.
  assert (G : map (@length (option Z)) (map (map sbound) (tstrides a)) =
              map (@length (option Z)) (map (map sbound) (tstrides b))) by (rewrite H; reflexivity).
  rewrite !map_map in G.
  rewrite !(map_ext (fun x : tstride => length (map sbound x)) (@length stride)) in G
    by (intros; apply map_length).
  exact G.
Qed.

Lemma equal_tile_bounds_keys a b : equal_tile_bounds a b = true ->
  map fst (entries a) = map fst (entries b).
Proof.
  intros H. rewrite !entries_entries_from, !keys_entries_from, (equal_tile_bounds_lengths a b H). reflexivity.
Qed.

(* ---- equality tests ------------------------------------------------------------------------ *)
Lemma stride_eqb_eq a b : stride_eqb a b = true <-> a = b.
Proof.
  unfold stride_eqb. destruct a as [a1 a2], b as [b1 b2]. cbn [fst snd].
  rewrite andb_true_iff, !optZ_eqb_eq. split; [intros [-> ->]; reflexivity|intros E; inversion E; auto].
Qed.

Lemma entry_eqb_eq a b : entry_eqb a b = true <-> a = b.
Proof.
  unfold entry_eqb. destruct a as [[a1 a2] a3], b as [[b1 b2] b3]. cbn [fst snd].
  rewrite !andb_true_iff, !Nat.eqb_eq, stride_eqb_eq. split.
  - intros [[-> ->] ->]. reflexivity.
  - intros E. inversion E. auto.
Qed.

Lemma value_in_spec s l : value_in s l = true <-> In s l.
Proof.
  unfold value_in. rewrite existsb_exists. split.
  - intros [x [Hx E]]. apply stride_eqb_eq in E. subst. exact Hx.
  - intros H. exists s. split; [exact H|apply stride_eqb_eq; reflexivity].
Qed.

(* ---- remove_first ---------------------------------------------------------------------------- *)
Lemma in_remove_first e es x : In x (remove_first e es) -> In x es.
Proof.
  induction es as [|y es IH]; cbn [remove_first]; [auto|]. destruct (entry_eqb y e).
  - intros H. right. exact H.
  - intros [H|H]; [left; exact H|right; apply IH, H].
Qed.

Lemma remove_first_NoDup e es : NoDup es -> NoDup (remove_first e es) /\ ~ In e (remove_first e es).
Proof.
  induction es as [|y es IH]; intros H; cbn [remove_first]; [split; [constructor|intros []]|].
  inversion H as [|y' es' Hy H']; subst. destruct (entry_eqb y e) eqn:E.
  - apply entry_eqb_eq in E. subst. split; assumption.
  - destruct (IH H') as [IH1 IH2]. split.
    + constructor; [|exact IH1]. intros Hin. apply Hy. apply (in_remove_first e es y Hin).
    + intros [Hin|Hin]; [|contradiction]. subst. rewrite (proj2 (entry_eqb_eq e e) eq_refl) in E. discriminate.
Qed.

Lemma length_remove_first e es : In e es -> length es = S (length (remove_first e es)).
Proof.
  induction es as [|y es IH]; intros H; [destruct H|]. cbn [remove_first]. destruct (entry_eqb y e) eqn:E; [reflexivity|].
  destruct H as [H|H]; [subst; rewrite (proj2 (entry_eqb_eq e e) eq_refl) in E; discriminate|].
  cbn [length]. rewrite (IH H). reflexivity.
Qed.

Lemma in_static_first e es : In e (static_first es) -> In e es.
Proof.
  unfold static_first. intros H. apply in_app_iff in H as [H|H]; apply filter_In in H; tauto.
Qed.

(* ---- lccb_pos ---------------------------------------------------------------------------------- *)
Lemma lccb_pos_loop_map fuel other : forall es cur acc,
  map snd (lccb_pos_loop fuel other es cur acc) = lccb_loop fuel other es cur (map snd acc).
Proof.
  induction fuel as [|fuel IH]; intros es cur acc; cbn [lccb_pos_loop lccb_loop]; [reflexivity|].
  destruct (find (fun e => optZ_eqb (sstep (snd e)) cur) (static_first es)) as [e|]; [|reflexivity].
  destruct (get_stride other (fst (fst e)) (snd (fst e))) as [so|]; [|reflexivity].
  destruct (stride_eqb (snd e) so); [|reflexivity].
  rewrite IH, map_app. reflexivity.
Qed.

Lemma lccb_lccb_pos a b start :
  lccb a b start = match lccb_pos a b start with
                   | [] => [(Some start, Some 1)]
                   | _ => map snd (lccb_pos a b start)
                   end.
Proof.
  unfold lccb, lccb_pos.
  pose proof (lccb_pos_loop_map (S (length (entries a))) b (entries a) (Some start) []) as H.
  cbn [map] in H. rewrite <- H.
  destruct (lccb_pos_loop _ _ _ _ _) as [|e r]; reflexivity.
Qed.

(* chain of the chosen entries: static, first step = cur, next step = step * bound *)
Fixpoint chainE (c : Z) (l : list entry) : Prop :=
  match l with
  | [] => True
  | e :: r => exists b, snd e = (Some c, Some b) /\ chainE (c * b) r
  end.

(* what the loop adds to the accumulator *)
Lemma lccb_pos_loop_spec fuel other : forall es c acc,
  NoDup es -> Forall (fun e => stride_ok (snd e)) es ->
  exists new, lccb_pos_loop fuel other es (Some c) acc = acc ++ new /\
    chainE c new /\ NoDup new /\
    Forall (fun e => In e es /\ get_stride other (fst (fst e)) (snd (fst e)) = Some (snd e)) new.
Proof.
  induction fuel as [|fuel IH]; intros es c acc Hnd Hok; cbn [lccb_pos_loop].
  { exists []. rewrite app_nil_r. repeat split; constructor. }
  destruct (find (fun e => optZ_eqb (sstep (snd e)) (Some c)) (static_first es)) as [e|] eqn:Hf.
  2:{ exists []. rewrite app_nil_r. repeat split; constructor. }
  apply find_some in Hf as [Hin Hstep]. apply in_static_first in Hin.
  destruct (get_stride other (fst (fst e)) (snd (fst e))) as [so|] eqn:Hg.
  2:{ exists []. rewrite app_nil_r. repeat split; constructor. }
  destruct (stride_eqb (snd e) so) eqn:Heq.
  2:{ exists []. rewrite app_nil_r. repeat split; constructor. }
  apply stride_eqb_eq in Heq. subst so.
  pose proof (proj1 (Forall_forall _ _) Hok e Hin) as [a [b [Ee Hb]]].
  rewrite Ee in Hstep. cbn [sstep fst] in Hstep. apply optZ_eqb_eq in Hstep. inversion Hstep; subst a.
  destruct (remove_first_NoDup e es Hnd) as [Hnd' Hnot].
  assert (Hok' : Forall (fun e0 => stride_ok (snd e0)) (remove_first e es)).
  { apply Forall_forall. intros x Hx. apply (proj1 (Forall_forall _ _) Hok). apply (in_remove_first e es x Hx). }
  rewrite Ee. destruct (IH (remove_first e es) (c * b) (acc ++ [e]) Hnd' Hok') as [new [E [Hc [Hn Hall]]]].
  exists (e :: new). rewrite E, <- app_assoc. split; [reflexivity|]. split.
  - exists b. split; [exact Ee|exact Hc].
  - split.
    + constructor; [|exact Hn]. intros Hin'. apply Hnot.
      apply (proj1 (Forall_forall _ _) Hall e) in Hin'. tauto.
    + constructor; [split; [exact Hin|exact Hg]|].
      apply Forall_forall. intros x Hx. apply (proj1 (Forall_forall _ _) Hall x) in Hx as [Hx1 Hx2].
      split; [apply (in_remove_first e es x Hx1)|exact Hx2].
Qed.

Lemma entries_ok l : layout_ok l -> Forall (fun e => stride_ok (snd e)) (entries l).
Proof.
  intros H. apply Forall_forall. intros e He.
  assert (Hin : In (snd e) (all_strides l)) by (rewrite <- map_snd_entries; apply in_map; exact He).
  unfold all_strides in Hin. apply in_concat in Hin as [t [Ht Hs]].
  unfold layout_ok in H. apply (proj1 (Forall_forall _ _) (proj1 (Forall_forall _ _) H t Ht) _ Hs).
Qed.

Theorem lccb_pos_spec a b : layout_ok a ->
  let blk := lccb_pos a b 1 in
  chainE 1 blk /\ NoDup blk /\
  Forall (fun e => In e (entries a) /\ get_stride b (fst (fst e)) (snd (fst e)) = Some (snd e)) blk.
Proof.
  intros Hok. unfold lccb_pos.
  destruct (lccb_pos_loop_spec (S (length (entries a))) b (entries a) 1 [] (NoDup_entries a) (entries_ok a Hok))
    as [new [E H]].
  cbn [app] in E. rewrite E. exact H.
Qed.
