(* C03, part 2: every schedule yielded by the backtracking search has the image of the input. *)
From Snax Require Import Base.Prelude Base.ListAux Model.C03Schedule Model.C03Yields Proofs.C03ScheduleProofs.
From Coq Require Import Permutation.

Lemma in_rapp r a b : In r (fst (rapp a b)) -> In r (fst a) \/ In r (fst b).
Proof.
  unfold rapp. destruct (snd a); cbn [fst]; [left; assumption|]. intros H. apply in_app_or in H. exact H.
Qed.

Lemma rot_list_length {A} d (l : list A) : (1 <= d <= length l)%nat -> length (rot_list d l) = length l.
Proof.
  intros [H1 H2]. destruct d as [|m]; [lia|]. destruct l as [|a l]; [cbn in H2; lia|].
  rewrite rot_list_cons, ins_length. reflexivity.
Qed.

Lemma c_ndims_sbounds (s : sched) n : c_ndims s = Some n -> n = length (sbounds s).
Proof. destruct s as [|p s]; [discriminate|]. cbn. intros H; injection H as <-. reflexivity. Qed.

Lemma rotate_ndims d s s1 : wf_sched s -> (1 <= d)%nat -> s_rotate d s = Some s1 -> c_ndims s1 = c_ndims s.
Proof.
  intros Hwf Hd H. destruct s as [|p0 s0]; [injection H as <-; reflexivity|].
  apply wf_sched_cons in Hwf as [_ Hall]. apply mapM_Forall2 in H.
  inversion H as [|? p0' ? s0' Hr _]; subst. inversion Hall as [|? ? [Hb Hl] _]; subst.
  apply p_rotate_Some in Hr as (Hle & Hne & -> & _). cbn [c_ndims]. unfold pndims. cbn [pbounds].
  f_equal. apply rot_list_length. lia.
Qed.

Section Backtrack.
  Variable matcher : tmpl -> sched -> bool.
  Variable checks : list (tmpl -> sched -> bool).
  Variable T : tmpl.

  Notation yields := (yields matcher checks T).

  Lemma bt_loop_yields (rec : sched -> res) k :
    (forall c r, wf_sched c -> In r (fst (rec c)) -> yields (S k) c r) ->
    forall i s n r, wf_sched s -> c_ndims s = Some n -> (i <= n + 1 - k)%nat ->
      In r (fst (bt_loop matcher checks rec T k i s)) -> yields k s r.
  Proof.
    intros Hrec. induction i as [|i IH]; intros s n r Hwf Hn Hi Hin; cbn [bt_loop] in Hin; [destruct Hin|].
    rewrite Hn in Hin.
    destruct (s_rotate (n + 1 - k) s) as [s1|] eqn:Hrot; [|destruct Hin].
    assert (Hk : (k <= n)%nat) by lia.
    assert (Hwf1 : wf_sched s1) by (eapply rotate_wf; [exact Hwf| |exact Hrot]; lia).
    assert (Hn1 : c_ndims s1 = Some n) by (rewrite <- Hn; eapply rotate_ndims; [exact Hwf| |exact Hrot]; lia).
    assert (Hskip : In r (fst (bt_loop matcher checks rec T k i s1)) -> yields k s r).
    { intros H. eapply Y_skip; [exact Hn|exact Hk|exact Hrot|]. eapply IH; [exact Hwf1|exact Hn1|lia|exact H]. }
    destruct (s_inner k s1) as [sc|] eqn:Hsc; [|destruct Hin].
    destruct (t_inner k T) as [tc|] eqn:Htc; [|destruct Hin].
    destruct (matcher tc sc) eqn:Hm; cbn [negb] in Hin; [|auto].
    destruct (forallb (fun c => c tc sc) checks) eqn:Hc; cbn [negb] in Hin; [|auto].
    destruct (template_bound T k) as [tb|] eqn:Htb; [|destruct Hin].
    destruct (schedule_bound s1 k) as [sb|] eqn:Hsb; [|destruct Hin].
    assert (Hacc : accepted matcher checks T k s1 tb sb) by (exists sc, tc; repeat split; assumption).
    destruct (truthy tb) eqn:Htr.
    - destruct tb as [t|]; [|discriminate].
      destruct (sb <=? t) eqn:Hle.
      + apply in_rapp in Hin as [Hin|Hin]; [|auto].
        eapply Y_take; [exact Hn|exact Hk|exact Hrot|exact Hacc| |apply Hrec; assumption].
        intros _ t' Ht'. injection Ht' as <-. lia.
      + destruct (sb mod t =? 0) eqn:Hmod; cbn [negb] in Hin; [|auto].
        destruct (s_tile (n - k) t s1) as [c|] eqn:Htile; [|destruct Hin].
        apply in_rapp in Hin as [Hin|Hin]; [|auto].
        assert (Hwfc : wf_sched c) by (eapply tile_wf; eassumption).
        eapply Y_tile; [exact Hn|exact Hk|exact Hrot|exact Hacc| | | |exact Htile|apply Hrec; assumption].
        * unfold truthy in Htr. lia.
        * lia.
        * lia.
    - apply in_rapp in Hin as [Hin|Hin]; [|auto].
      eapply Y_take; [exact Hn|exact Hk|exact Hrot|exact Hacc| |apply Hrec; assumption].
      intros Ht. congruence.
  Qed.

  (* every schedule yielded by the executable search has a derivation *)
  Theorem bt_yields : forall fuel s k r, wf_sched s ->
    In r (fst (bt matcher checks fuel T s k)) -> yields k s r.
  Proof.
    induction fuel as [|f IH]; intros s k r Hwf Hin; cbn [bt] in Hin; [destruct Hin|].
    destruct (c_ndims s) as [n|] eqn:Hn; [|destruct Hin].
    apply in_rapp in Hin as [Hin|Hin].
    - cbn [fst] in Hin. destruct (Nat.ltb n k) eqn:Hlt; [|destruct Hin].
      destruct Hin as [<-|[]]. apply Nat.ltb_lt in Hlt. eapply Y_done; eassumption.
    - eapply bt_loop_yields; [|exact Hwf|exact Hn| |exact Hin]; [|lia].
      intros c r' Hwfc Hr'. apply IH; assumption.
  Qed.

  (* the schedule bound read by the search is the bound of the dimension it tiles *)
  Lemma schedule_bound_nth s k n sb : c_ndims s = Some n -> schedule_bound s k = Some sb ->
    nth_error (sbounds s) (n - k) = Some sb.
  Proof.
    destruct s as [|p s]; [discriminate|]. cbn [c_ndims schedule_bound sbounds].
    intros H; injection H as <-. destruct (Nat.leb k (pndims p) && negb (Nat.eqb k 0)); [auto|discriminate].
  Qed.

  (* C03: induction over the search *)
  Theorem yields_image k s r : yields k s r -> wf_sched s ->
    Permutation (image r) (image s) /\ wf_sched r.
  Proof.
    induction 1 as [k s n Hn Hlt
                   |k s n s1 r Hn Hk Hrot _ IH
                   |k s n s1 tb sb r Hn Hk Hrot Hacc Hb _ IH
                   |k s n s1 t sb c r Hn Hk Hrot Hacc Ht Hlt Hmod Htile _ IH]; intros Hwf.
    - split; [reflexivity|exact Hwf].
    - assert (Hwf1 : wf_sched s1) by (eapply rotate_wf; [exact Hwf| |exact Hrot]; lia).
      destruct (IH Hwf1) as [HP Hwr]. split; [|exact Hwr].
      rewrite HP. eapply rotate_image; [exact Hwf| |exact Hrot]. lia.
    - assert (Hwf1 : wf_sched s1) by (eapply rotate_wf; [exact Hwf| |exact Hrot]; lia).
      destruct (IH Hwf1) as [HP Hwr]. split; [|exact Hwr].
      rewrite HP. eapply rotate_image; [exact Hwf| |exact Hrot]. lia.
    - assert (Hwf1 : wf_sched s1) by (eapply rotate_wf; [exact Hwf| |exact Hrot]; lia).
      assert (Hwfc : wf_sched c) by (eapply tile_wf; eassumption).
      destruct (IH Hwfc) as [HP Hwr]. split; [|exact Hwr].
      rewrite HP.
      assert (Hn1 : c_ndims s1 = Some n) by (rewrite <- Hn; eapply rotate_ndims; [exact Hwf| |exact Hrot]; lia).
      destruct Hacc as (sc & tc & _ & _ & _ & _ & _ & Hsb).
      rewrite (@tile_image (n - k) t s1 c Hwf1 Htile).
      + eapply rotate_image; [exact Hwf| |exact Hrot]. lia.
      + intros bd Hbd. rewrite (@schedule_bound_nth s1 k n sb Hn1 Hsb) in Hbd. injection Hbd as <-. exact Hmod.
  Qed.

  (* the divisibility guard: the search only ever tiles a dimension by a divisor of its bound *)
  Theorem yields_tiles_only_divisible k n s1 t sb :
    c_ndims s1 = Some n -> accepted matcher checks T k s1 (Some t) sb ->
    sb mod t = 0 -> forall bd, nth_error (sbounds s1) (n - k) = Some bd -> bd mod t = 0.
  Proof.
    intros Hn1 (sc & tc & _ & _ & _ & _ & _ & Hsb) Hmod bd Hbd.
    rewrite (@schedule_bound_nth s1 k n sb Hn1 Hsb) in Hbd. injection Hbd as <-. exact Hmod.
  Qed.

  Theorem backtrack_image fuel s k r : wf_sched s ->
    In r (fst (bt matcher checks fuel T s k)) -> Permutation (image r) (image s) /\ wf_sched r.
  Proof. intros Hwf Hin. eapply yields_image; [eapply bt_yields; eassumption | exact Hwf]. Qed.

  Lemma nth_py_In {A} i (l : list A) x : nth_py i l = Some x -> In x l.
  Proof.
    unfold nth_py. destruct ((0 <=? i) && (i <? Z.of_nat (length l))); [apply nth_error_In|].
    destruct ((i <? 0) && (0 <=? Z.of_nat (length l) + i)); [apply nth_error_In|discriminate].
  Qed.

  Theorem scheduler_image s idx r : wf_sched s ->
    scheduler matcher checks T s idx = Some r -> Permutation (image r) (image s).
  Proof.
    intros Hwf H. unfold scheduler, backtrack in H.
    assert (Hin : In r (fst (bt matcher checks (bt_fuel T s) T s 1))).
    { destruct idx as [i|].
      - destruct (snd (bt matcher checks (bt_fuel T s) T s 1)); [discriminate|]. eapply nth_py_In; exact H.
      - destruct (fst (bt matcher checks (bt_fuel T s) T s 1)) as [|x l]; [discriminate|].
        injection H as <-. left; reflexivity. }
    exact (proj1 (backtrack_image _ _ _ _ Hwf Hin)).
  Qed.
End Backtrack.
