(* C16: every schedule returned by the backtracking search that has at least as many dims as the
   template fits the template (matcher on the returned schedule, bounds, every requested check). *)
From Snax Require Import Base.Prelude Base.ListAux Model.C03Schedule Model.C03Yields Model.C16Matcher Model.C16Fits
  Proofs.C03ScheduleProofs Proofs.C03BacktrackProofs.

(* ---- list facts --------------------------------------------------------------------- *)
Lemma bfit_app a b x y : length a = length b -> bfit (a ++ x) (b ++ y) = bfit a b && bfit x y.
Proof.
  revert b; induction a as [|u a IH]; intros [|v b] H; try discriminate; cbn [app].
  - reflexivity.
  - unfold bfit in *. cbn [combine forallb]. rewrite IH by (injection H; auto). apply andb_assoc.
Qed.

Lemma bfit_short a b y : (length a <= length b)%nat -> bfit a (b ++ y) = bfit a b.
Proof.
  revert b; induction a as [|u a IH]; intros b H; [reflexivity|].
  destruct b as [|v b]; [cbn in H; lia|]. unfold bfit in *. cbn [app combine forallb].
  rewrite IH by (cbn in H; lia). reflexivity.
Qed.

Lemma firstn_rev_snoc {A} (l : list A) k x : (1 <= k <= length l)%nat ->
  nth_error l (length l - k) = Some x -> firstn k (rev l) = firstn (k - 1) (rev l) ++ [x].
Proof.
  intros Hk Hx. rewrite !firstn_rev. remember (length l - k)%nat as d eqn:Hd.
  replace (length l - (k - 1))%nat with (S d) by lia.
  destruct (nth_error_decomp _ _ Hx) as [Hdec Hlen].
  assert (Hs : skipn d l = x :: skipn (S d) l).
  { rewrite Hdec at 1. rewrite skipn_app, Hlen, Nat.sub_diag. rewrite skipn_all2 by lia. reflexivity. }
  rewrite Hs. reflexivity.
Qed.

Lemma skipn_rot {A} d (l : list A) : (1 <= d <= length l)%nat -> skipn d (rot_list d l) = skipn d l.
Proof.
  intros [H1 H2]. destruct d as [|m]; [lia|]. destruct l as [|a l]; [cbn in H2; lia|].
  rewrite rot_list_cons. unfold ins. cbn [length] in H2.
  rewrite skipn_app, firstn_length, Nat.min_l by lia.
  rewrite skipn_all2 by (rewrite firstn_length; lia).
  replace (S m - m)%nat with 1%nat by lia. reflexivity.
Qed.

Lemma lastn_all {A} k (l : list A) : (length l <= k)%nat -> lastn k l = l.
Proof. intros H. unfold lastn. replace (length l - k)%nat with 0%nat by lia. reflexivity. Qed.

(* ---- what the schedule-level operations do to the bounds ---------------------------- *)
Lemma rotate_sbounds d s s1 : wf_sched s -> s_rotate d s = Some s1 ->
  sbounds s1 = rot_list d (sbounds s) /\ (s <> [] -> (d <= length (sbounds s))%nat).
Proof.
  intros Hwf H. destruct s as [|p0 s0].
  - injection H as <-. split; [|congruence]. unfold rot_list, slice. cbn [sbounds]. rewrite !skipn_nil, !firstn_nil. reflexivity.
  - apply wf_sched_cons in Hwf as [_ Hall]. apply mapM_Forall2 in H.
    inversion H as [|? p0' ? s0' Hr _]; subst. inversion Hall as [|? ? [Hb Hl] _]; subst.
    apply p_rotate_Some in Hr as (Hle & Hne & -> & _). cbn [sbounds pbounds]. split; [reflexivity|]. intros _. lia.
Qed.

Lemma tile_sbounds d t s c : s_tile d t s = Some c -> s <> [] ->
  exists bd, nth_error (sbounds s) d = Some bd /\
             sbounds c = firstn d (sbounds s) ++ [bd / t; t] ++ skipn (S d) (sbounds s).
Proof.
  intros H Hne. destruct s as [|p0 s0]; [congruence|]. apply mapM_Forall2 in H.
  inversion H as [|? p0' ? s0' Hr _]; subst.
  apply p_tile_Some in Hr as (c0 & bd & _ & Hbd & _ & -> & _). exists bd. split; [exact Hbd|reflexivity].
Qed.

Section Fits.
  Variable matcher : tmpl -> sched -> bool.
  Variable checks : list (tmpl -> sched -> bool).
  Variable T : tmpl.

  Notation yields := (yields matcher checks T).

  Definition inner_okb (k : nat) (s : sched) : bool :=
    bfit (firstn (k - 1) (rev (tbounds T))) (firstn (k - 1) (rev (sbounds s))).

  (* rotation of the outer dims leaves the inner k-1 bounds alone *)
  Lemma inner_ok_rotate k s n s1 : wf_sched s -> c_ndims s = Some n -> (1 <= k <= n)%nat ->
    s_rotate (n + 1 - k) s = Some s1 -> inner_okb k s1 = inner_okb k s.
  Proof.
    intros Hwf Hn Hk Hrot. unfold inner_okb. f_equal.
    destruct (rotate_sbounds _ _ _ Hwf Hrot) as [Hsb Hd]. apply c_ndims_sbounds in Hn.
    assert (Hd' : (n + 1 - k <= length (sbounds s))%nat) by lia.
    rewrite Hsb, !firstn_rev, rot_list_length by lia.
    replace (length (sbounds s) - (k - 1))%nat with (n + 1 - k)%nat by lia.
    rewrite skipn_rot by lia. reflexivity.
  Qed.

  (* extending the checked suffix by one dimension *)
  Lemma inner_ok_step k (bs bs' : list Z) tb y :
    (1 <= k)%nat -> (k <= length bs')%nat ->
    template_bound T k = Some tb ->
    firstn k (rev bs') = firstn (k - 1) (rev bs) ++ [y] -> (k - 1 <= length bs)%nat ->
    bound_ok tb y = true ->
    bfit (firstn (k - 1) (rev (tbounds T))) (firstn (k - 1) (rev bs)) = true ->
    bfit (firstn (S k - 1) (rev (tbounds T))) (firstn (S k - 1) (rev bs')) = true.
  Proof.
    intros Hk Hk' Htb Hfs Hlen Hok Hprev. replace (S k - 1)%nat with k by lia. rewrite Hfs.
    unfold template_bound in Htb. destruct T as [|tp T']; [discriminate|]. cbn [tbounds].
    unfold pndims in Htb. destruct (Nat.leb k (length (pbounds tp))) eqn:Hle.
    - apply Nat.leb_le in Hle. rewrite (firstn_rev_snoc _ k tb) by (auto; lia).
      rewrite bfit_app by (rewrite !firstn_length, !rev_length; lia).
      cbn [tbounds] in Hprev. rewrite Hprev. unfold bfit. cbn [combine forallb fst snd]. rewrite Hok. reflexivity.
    - apply Nat.leb_gt in Hle. cbn [tbounds] in Hprev.
      rewrite firstn_all2 by (rewrite rev_length; lia).
      rewrite firstn_all2 in Hprev by (rewrite rev_length; lia).
      rewrite bfit_short by (rewrite firstn_length, !rev_length; lia). exact Hprev.
  Qed.

  (* at the last level the truncations are the identity *)
  Lemma s_inner_all (s : sched) n : wf_sched s -> c_ndims s = Some n -> (1 <= n)%nat -> s_inner n s = Some s.
  Proof.
    intros Hwf Hn H1. apply c_ndims_sbounds in Hn. destruct Hwf as [_ Hall].
    unfold s_inner, c_inner. apply mapM_Forall2.
    induction Hall as [|p l [Hb Hl] _ IH]; constructor; [|exact IH].
    unfold p_inner. destruct (Nat.eqb n 0) eqn:E; [apply Nat.eqb_eq in E; lia|].
    rewrite !lastn_all by (rewrite ?Hl, ?Hb; lia). unfold mk_ap. rewrite Hb, Hl, Nat.eqb_refl.
    destruct p; cbn in *; subst; reflexivity.
  Qed.

  Lemma t_inner_all n : wf_tmplb T = true -> (tndims T <= n)%nat -> t_inner n T = Some T.
  Proof.
    unfold wf_tmplb. intros Hwf Hn. apply andb_true_iff in Hwf as [H1 Hall]. apply Nat.leb_le in H1.
    rewrite forallb_forall in Hall. unfold t_inner, c_inner. apply mapM_Forall2.
    assert (HF : Forall (fun tp : tpat => length (pbounds tp) = tndims T /\ length (pcols tp) = tndims T) T).
    { apply Forall_forall. intros tp Htp. specialize (Hall tp Htp). apply andb_true_iff in Hall as [Ha Hb].
      apply Nat.eqb_eq in Ha, Hb. auto. }
    clear Hall. induction HF as [|p l [Hb Hl] _ IH]; constructor; [|exact IH].
    unfold p_inner. destruct (Nat.eqb n 0) eqn:E; [apply Nat.eqb_eq in E; lia|].
    rewrite !lastn_all by lia. unfold mk_ap. rewrite Hb, Hl, Nat.eqb_refl. destruct p; reflexivity.
  Qed.

  (* the state of the search on entry of level k *)
  Definition entry_ok (k : nat) (s : sched) : Prop :=
    let n := length (sbounds s) in
    (k <= n + 1)%nat /\ inner_okb k s = true /\
    (k = (n + 1)%nat -> (tndims T <= n)%nat ->
       matcher T s = true /\ forallb (fun c => c T s) checks = true).

  Lemma bound_ok_take tb sb : (truthy tb = true -> forall t, tb = Some t -> sb <= t) -> bound_ok tb sb = true.
  Proof.
    intros H. unfold bound_ok. destruct (truthy tb) eqn:Ht; [|reflexivity].
    destruct tb as [t|]; [|reflexivity]. specialize (H eq_refl t eq_refl). lia.
  Qed.

  Theorem yields_fits k s r : yields k s r -> wf_sched s -> wf_tmplb T = true -> (1 <= k)%nat -> entry_ok k s ->
    (tndims T <= length (sbounds r))%nat -> fitsb matcher checks T r = true.
  Proof.
    induction 1 as [k s n Hn Hlt
                   |k s n s1 r Hn Hk Hrot _ IH
                   |k s n s1 tb sb r Hn Hk Hrot Hacc Hb _ IH
                   |k s n s1 t sb c r Hn Hk Hrot Hacc Ht Hlt Hmod Htile _ IH];
      intros Hwf HwT H1 Hent Hdims.
    - (* done *)
      pose proof (c_ndims_sbounds _ _ Hn) as Hlen. destruct Hent as (Hkn & Hin & Hlast). rewrite <- Hlen in *.
      assert (k = (n + 1)%nat) by lia. subst k. destruct (Hlast eq_refl Hdims) as [Hm Hc].
      unfold fitsb. rewrite Hm, Hc. rewrite !andb_true_r. cbn [andb].
      unfold inner_okb in Hin. replace (n + 1 - 1)%nat with n in Hin by lia.
      unfold bounds_fitb. rewrite (firstn_all2 (rev (sbounds s))) in Hin by (rewrite rev_length; lia).
      rewrite firstn_all2 in Hin; [exact Hin|].
      rewrite rev_length. destruct T as [|tp T']; [cbn; lia|]. cbn [tbounds tndims] in *. unfold pndims in Hdims. lia.
    - (* skip *)
      pose proof (c_ndims_sbounds _ _ Hn) as Hlen.
      assert (Hwf1 : wf_sched s1) by (eapply rotate_wf; [exact Hwf| |exact Hrot]; lia).
      assert (Hn1 : c_ndims s1 = Some n) by (rewrite <- Hn; eapply rotate_ndims; [exact Hwf| |exact Hrot]; lia).
      pose proof (c_ndims_sbounds _ _ Hn1) as Hlen1.
      apply IH; auto. destruct Hent as (Hkn & Hin & _). unfold entry_ok. rewrite <- Hlen1.
      split; [lia|]. split; [|intros; lia].
      rewrite (inner_ok_rotate k s n s1) by (auto; lia). exact Hin.
    - (* take *)
      pose proof (c_ndims_sbounds _ _ Hn) as Hlen.
      assert (Hwf1 : wf_sched s1) by (eapply rotate_wf; [exact Hwf| |exact Hrot]; lia).
      assert (Hn1 : c_ndims s1 = Some n) by (rewrite <- Hn; eapply rotate_ndims; [exact Hwf| |exact Hrot]; lia).
      pose proof (c_ndims_sbounds _ _ Hn1) as Hlen1.
      destruct Hacc as (sc & tc & Hsc & Htc & Hm & Hc & Htb & Hsb).
      pose proof (schedule_bound_nth s1 k n sb Hn1 Hsb) as Hnth.
      apply IH; auto. destruct Hent as (Hkn & Hin & _). unfold entry_ok. rewrite <- Hlen1.
      split; [lia|]. split.
      + unfold inner_okb. eapply inner_ok_step with (tb := tb) (y := sb) (bs := sbounds s1); try lia; auto.
        * apply firstn_rev_snoc; [lia|]. rewrite <- Hlen1. exact Hnth.
        * apply bound_ok_take. exact Hb.
        * rewrite <- (inner_ok_rotate k s n s1) in Hin by (auto; lia). exact Hin.
      + intros Hkn' HT. assert (k = n) by lia. subst k.
        rewrite (s_inner_all s1 n Hwf1 Hn1) in Hsc by lia. injection Hsc as <-.
        rewrite (t_inner_all n HwT HT) in Htc. injection Htc as <-. auto.
    - (* tile *)
      pose proof (c_ndims_sbounds _ _ Hn) as Hlen.
      assert (Hwf1 : wf_sched s1) by (eapply rotate_wf; [exact Hwf| |exact Hrot]; lia).
      assert (Hn1 : c_ndims s1 = Some n) by (rewrite <- Hn; eapply rotate_ndims; [exact Hwf| |exact Hrot]; lia).
      pose proof (c_ndims_sbounds _ _ Hn1) as Hlen1.
      assert (Hwfc : wf_sched c) by (eapply tile_wf; eassumption).
      destruct Hacc as (sc & tc & Hsc & Htc & Hm & Hc & Htb & Hsb).
      pose proof (schedule_bound_nth s1 k n sb Hn1 Hsb) as Hnth.
      assert (Hne : s1 <> []) by (intros ->; discriminate).
      destruct (tile_sbounds _ _ _ _ Htile Hne) as (bd & Hbd & Hsbc).
      assert (bd = sb) by congruence. subst bd.
      assert (Hlenc : length (sbounds c) = (n + 1)%nat).
      { rewrite Hsbc, !app_length, firstn_length, skipn_length. cbn [length]. lia. }
      apply IH; auto. destruct Hent as (Hkn & Hin & _). unfold entry_ok. rewrite Hlenc.
      split; [lia|]. split; [|intros; lia].
      unfold inner_okb. eapply inner_ok_step with (tb := Some t) (y := t) (bs := sbounds s1); try lia; auto.
      + rewrite !firstn_rev, Hlenc, <- Hlen1. replace (n + 1 - k)%nat with (S (n - k)) by lia.
        replace (n - (k - 1))%nat with (S (n - k)) by lia.
        rewrite Hsbc. rewrite skipn_app, firstn_length, Nat.min_l by lia.
        rewrite skipn_all2 by (rewrite firstn_length; lia).
        replace (S (n - k) - (n - k))%nat with 1%nat by lia. cbn [app skipn rev]. reflexivity.
      + unfold bound_ok. destruct (truthy (Some t)); [|reflexivity]. lia.
      + rewrite <- (inner_ok_rotate k s n s1) in Hin by (auto; lia). exact Hin.
  Qed.

  Lemma entry_ok_1 s : (1 <= tndims T)%nat -> entry_ok 1 s.
  Proof.
    intros HT. unfold entry_ok. split; [lia|]. split; [reflexivity|]. intros H1 H2. lia.
  Qed.

  (* C16: every schedule yielded by the search started at level 1, with at least as many dims as the
     template, satisfies the post-condition on the RETURNED schedule *)
  Theorem backtrack_fits fuel s r : wf_sched s -> wf_tmplb T = true ->
    In r (fst (bt matcher checks fuel T s 1)) ->
    fewer_dims_than_template T r = false -> fitsb matcher checks T r = true.
  Proof.
    intros Hwf HwT Hin Hsafe. unfold fewer_dims_than_template in Hsafe. apply Nat.ltb_ge in Hsafe.
    eapply yields_fits; [eapply bt_yields; eassumption|exact Hwf|exact HwT|lia| |exact Hsafe].
    apply entry_ok_1. unfold wf_tmplb in HwT. apply andb_true_iff in HwT as [H _]. apply Nat.leb_le in H. exact H.
  Qed.
End Fits.
