(* C06 — the whole-loop theorem: simulation congruence + induction on the iteration index + chain lemma.
   Original loop body:   INS ; setup a (from the loop-carried state) fs ; REST
   Rewritten loop:       [prologue = clone (lb, iter operands)] ; for { INS ; REST ; i+step ; clone (i+step, yields) }
   (INS = the arith chain computing the setup's values = everything in front of the setup).
   For every lb, step, trip count, oracle: every event of the rewritten run is related to the original's
   (same launches / awaits / calls, every launch observing the same registers), and after the loop the machines
   differ at most in the fields the moved setup writes. *)
From Snax Require Import Base.Prelude Model.AccIR Model.AccSem Model.AccWeave Model.C06Overlap
  Proofs.AccSemProofs Proofs.AccRenameProofs Proofs.C06SimProofs Proofs.C06ChainProofs.

Lemma clone_inputs_frame : forall ins mp nf cs mp' nf',
  all_spure ins = true -> clone_inputs mp nf ins = (cs, mp', nf') ->
  forall en x, (x < nf \/ nf' <= x)%nat -> exec_pures cs en x = en x.
Proof.
  induction ins as [|s ins IH]; intros mp nf cs mp' nf' Hp Hcl en x Hx.
  - cbn in Hcl. inversion Hcl; subst. reflexivity.
  - cbn [all_spure forallb] in Hp. apply andb_true_iff in Hp as [Hp1 Hp2].
    destruct s as [d e| | | | | | |]; try discriminate. cbn [clone_inputs] in Hcl.
    destruct (clone_inputs ((d, nf) :: mp) (S nf) ins) as [[cs0 mp0] nf0] eqn:Hrec.
    inversion Hcl; subst. cbn [exec_pures].
    assert (Hle : (S nf <= nf')%nat).
    { clear - Hrec Hp2. revert Hrec. generalize ((d, nf) :: mp) (S nf) cs0 mp'. clear - Hp2.
      induction ins as [|s ins IH]; intros mp n cs m' H.
      - cbn in H. inversion H; subst. lia.
      - cbn [all_spure forallb] in Hp2. apply andb_true_iff in Hp2 as [H1 H2].
        destruct s; try discriminate. cbn [clone_inputs] in H.
        destruct (clone_inputs ((dst, n) :: mp) (S n) ins) as [[c0 m0] n0] eqn:E. inversion H; subst.
        specialize (IH H2 _ _ _ _ E). lia. }
    rewrite (IH _ _ _ _ _ Hp2 Hrec) by lia. unfold upd.
    assert (Nat.eqb x nf = false) by (apply Nat.eqb_neq; lia). rewrite H. reflexivity.
Qed.

Lemma In_add_known' fs : forall k f, In f k -> In f (add_known fs k).
Proof.
  induction fs as [|x fs IH]; intros k f H; cbn [add_known]; [exact H|].
  apply IH. destruct (mem_nat x k); [exact H|right; exact H].
Qed.
Lemma add_known_has fs : forall k f, In f fs -> In f (add_known fs k).
Proof.
  induction fs as [|x fs IH]; intros k f H; [destruct H|]. cbn [add_known]. destruct H as [H|H].
  - subst x. apply In_add_known'. destruct (mem_nat f k) eqn:E; [apply mem_nat_In; exact E|left; reflexivity].
  - apply IH. exact H.
Qed.

Lemma last_binding_fst f fs : forall w, last_binding f fs = Some w -> In f (map fst fs).
Proof.
  induction fs as [|[g v] fs IH]; intros w H; [discriminate|]. cbn [last_binding map fst] in *.
  destruct (last_binding f fs) as [w'|]; [right; apply (IH w'); reflexivity|].
  destruct (Nat.eqb g f) eqn:E; [|discriminate]. apply Nat.eqb_eq in E. left. exact E.
Qed.

Lemma exec_pures_frame : forall l e x, all_spure l = true -> ~ In x (block_binds l) -> exec_pures l e x = e x.
Proof.
  induction l as [|st l IH]; intros e x Hp Hx; [reflexivity|].
  cbn [all_spure forallb] in Hp. apply andb_true_iff in Hp as [H1 H2]. destruct st; try discriminate.
  cbn [exec_pures]. unfold block_binds in *. cbn [flat_map stmt_binds app] in Hx.
  rewrite IH; [|exact H2|intros Hin; apply Hx; right; exact Hin].
  unfold upd. destruct (Nat.eqb x dst) eqn:E; [|reflexivity].
  apply Nat.eqb_eq in E. subst. exfalso. apply Hx. left. reflexivity.
Qed.

Lemma mlook_combine_notin ks : forall ys v, ~ In v ks -> mlook (combine ks ys) v = v.
Proof.
  induction ks as [|k ks IH]; intros ys v H; [reflexivity|]. destruct ys as [|y ys]; [reflexivity|].
  cbn [combine mlook]. destruct (Nat.eqb k v) eqn:E.
  - apply Nat.eqb_eq in E. subst. exfalso. apply H. left. reflexivity.
  - apply IH. intros Hin. apply H. right. exact Hin.
Qed.

Lemma mlook_combine_in ks : forall ys v, In v ks -> List.length ys = List.length ks -> NoDup ks ->
  exists j y, nth_error ks j = Some v /\ nth_error ys j = Some y /\ mlook (combine ks ys) v = y.
Proof.
  induction ks as [|k ks IH]; intros ys v H Hl Hn; [destruct H|]. destruct ys as [|y ys]; [discriminate|].
  cbn [combine mlook]. destruct (Nat.eqb k v) eqn:E.
  - apply Nat.eqb_eq in E. subst. exists 0%nat, y. repeat split.
  - destruct H as [H|H]; [subst; rewrite Nat.eqb_refl in E; discriminate|].
    inversion Hn as [|? ? Hni Hnd']; subst. simpl in Hl. destruct (IH ys v H ltac:(lia) Hnd') as (j & y' & H1 & H2 & H4).
    exists (S j), y'. repeat split; assumption.
Qed.

Lemma bind_list_nth ks : forall srcs (e b : envT) j k y, NoDup ks -> List.length srcs = List.length ks ->
  nth_error ks j = Some k -> nth_error srcs j = Some y -> bind_list ks (map e srcs) b k = e y.
Proof.
  induction ks as [|k0 ks IH]; intros srcs e b j k y Hn Hl Hk Hy; [destruct j; discriminate|].
  destruct srcs as [|s0 srcs]; [discriminate|]. cbn [map bind_list]. inversion Hn as [|? ? Hni Hnd']; subst. simpl in Hl.
  destruct j as [|j]; cbn [nth_error] in Hk, Hy.
  - inversion Hk; inversion Hy; subst. rewrite bind_list_other by assumption. apply upd_same.
  - apply (IH srcs e _ j k y Hnd' ltac:(lia) Hk Hy).
Qed.

Section Inside.
Variable orc : oracle.
Variable F : list val.
Variable a : acc.
Variables iv sp : val.
Variable bargs : list val.
Variable ins : list stmt.
Variables o s_in : val.
Variable fs : list (field * val).
Variable rest rest' : block.
Variables ys ys' : list val.
Variable next_i : val.
Variables epi : list stmt.
Variables st_epi nfe : val.

Let S0 := SSetup a o (Some s_in) fs.
Let fields := map fst fs.
Let X := ops_of ins ++ map snd fs.
Let deps := iv :: bargs.

Hypothesis Hins : all_spure ins = true.
Hypothesis Hepi : clone_scoped deps (next_i :: ys) (S next_i) ins a s_in fs = (epi, st_epi, nfe).
Hypothesis Hrest_eq : forall m, exec_block orc rest' m = exec_block orc rest m.
Hypothesis Hrest_ro : block_reads_off F rest.
Hypothesis HXoff : forall v, In v X -> off F v.
Hypothesis HXlt : forall v, In v X -> (v < next_i)%nat.
Hypothesis Hyslt : forall v, In v ys -> (v < next_i)%nat.
Hypothesis Hfresh : forall x, (next_i <= x < nfe)%nat -> In x F.
Hypothesis Hiv : off F iv /\ ~ In iv (block_binds (ins ++ rest)) /\ ~ In iv bargs.
Hypothesis Hsp : off F sp /\ ~ In sp (block_binds (ins ++ rest)) /\ ~ In sp bargs /\ sp <> iv.
Hypothesis Hlen : List.length ys = List.length bargs.
Hypothesis Hnd : NoDup bargs.
(* yields: integer positions are the same value outside F, the other positions bind an id of F *)
Hypothesis Hys : Forall (fun t => (fst (fst t) = snd t /\ off F (snd t)) \/ In (snd (fst t)) F)
                        (combine (combine ys bargs) ys').
Hypothesis Hys_len : List.length ys' = List.length ys.
(* the dependent values that occur in the chain are integer iter_args: yielded outside F *)
Hypothesis Hdep_int : forall j b y, nth_error bargs j = Some b -> nth_error ys j = Some y -> In b X -> off F y.

Variables l s : Z.

Definition body := ins ++ S0 :: rest.
Definition body' := ins ++ rest' ++ SPure next_i (PBin BAdd iv sp) :: epi.

Definition head (k : nat) (M : mstate) : mstate := set_env M (upd (env M) iv (l + Z.of_nat k * s)).

Definition Inv (k : nat) (M1 M2 : mstate) : Prop :=
  Rel F a fields M1 M2 /\ env M2 sp = s
  /\ (forall f, In f fields -> regs M2 a f = regs (exec_block orc (ins ++ [S0]) (head k M1)) a f)
  /\ (forall f, In f fields -> In f (known M2 a)).

Lemma bind_two : forall (ks srcs1 srcs2 : list val) (e1 e2 b1 b2 : envT),
  eagree F e1 e2 -> eagree F b1 b2 ->
  Forall (fun t => (fst (fst t) = snd t /\ off F (snd t)) \/ In (snd (fst t)) F) (combine (combine srcs1 ks) srcs2) ->
  List.length srcs1 = List.length ks -> List.length srcs2 = List.length srcs1 ->
  eagree F (bind_list ks (map e1 srcs1) b1) (bind_list ks (map e2 srcs2) b2).
Proof.
  induction ks as [|k ks IH]; intros srcs1 srcs2 e1 e2 b1 b2 He Hb Hf H1 H2; cbn [bind_list]; [exact Hb|].
  destruct srcs1 as [|s1 srcs1]; [discriminate|]. destruct srcs2 as [|s2 srcs2]; [discriminate|].
  cbn [map bind_list combine] in *. simpl in H1, H2. inversion Hf as [|? ? Hk Hr]; subst. cbn [fst snd] in Hk.
  apply IH; [exact He| |exact Hr|lia|lia].
  intros v Hv. unfold upd. destruct (Nat.eqb v k) eqn:E.
  - apply Nat.eqb_eq in E. subst v. destruct Hk as [[Heq Ho]|Hin]; [subst s2; apply He; exact Ho|contradiction].
  - apply Hb. exact Hv.
Qed.

(* one iteration *)
Lemma step_inv k M1 M2 : Inv k M1 M2 ->
  Inv (S k) (for_step (exec_block orc body) iv bargs ys l s k M1)
            (for_step (exec_block orc body') iv bargs ys' l s k M2).
Proof.
  intros (HR & Hsps & Hregs & Hkn). unfold for_step.
  fold (head k M1). set (m1 := head k M1).
  set (m2 := set_env M2 (upd (env M2) iv (l + Z.of_nat k * s))).
  assert (HRh : Rel F a fields m1 m2).
  { apply Rel_set_env; [exact HR|]. apply eagree_upd. exact (proj1 HR). }
  (* the chain *)
  unfold body, body'. rewrite !exec_block_app.
  rewrite (exec_pures_block orc ins m1 Hins), (exec_pures_block orc ins m2 Hins).
  set (m1p := set_env m1 (exec_pures ins (env m1))). set (m2p := set_env m2 (exec_pures ins (env m2))).
  assert (HRp : Rel F a fields m1p m2p).
  { unfold m1p, m2p. rewrite <- !(exec_pures_block orc ins _ Hins).
    apply (exec_rel_block orc F a fields ins).
    - clear - HXoff Hins. subst X. assert (Hi : forall v, In v (ops_of ins) -> off F v) by (intros v Hv; apply HXoff; apply in_or_app; left; exact Hv).
      clear HXoff. induction ins as [|x b IH]; [constructor|]. cbn [all_spure forallb] in Hins. apply andb_true_iff in Hins as [H1 H2].
      destruct x; try discriminate. split.
      + cbn [reads_off]. apply Forall_forall. intros v Hv. apply Hi. cbn [ops_of flat_map]. right. apply in_or_app. left. exact Hv.
      + apply IH; [exact H2|]. intros v Hv. apply Hi. cbn [ops_of flat_map]. right. apply in_or_app. right. exact Hv.
    - right. clear - Hins. induction ins as [|x b IH]; [reflexivity|]. cbn [all_spure forallb] in Hins.
      apply andb_true_iff in Hins as [H1 H2]. destruct x; try discriminate. cbn [block_launches stmt_launches orb]. apply IH. exact H2.
    - exact HRh. }
  cbn [exec_block]. set (m1s := exec_stmt orc S0 m1p).
  (* after the original setup the two machines agree on ALL registers *)
  assert (HRs : Rel F a [] m1s m2p).
  { destruct HRp as (He & Hr & Hk & Hn & Ht). unfold m1s, S0. cbn [exec_stmt]. unfold Rel, exec_setup.
    cbn [env regs known ncalls tr]. repeat split; try assumption.
    - intros b f _. unfold upd. destruct (Nat.eqb b a) eqn:E.
      + apply Nat.eqb_eq in E. subst b. destruct (in_dec Nat.eq_dec f fields) as [Hf|Hf].
        * unfold m2p, m2. cbn [regs set_env]. rewrite (Hregs f Hf).
          rewrite exec_block_app, (exec_pures_block orc ins (head k M1) Hins). unfold S0. cbn [exec_block exec_stmt].
          unfold exec_setup. cbn [regs env set_env]. rewrite upd_same. reflexivity.
        * rewrite write_fields_spec. destruct (last_binding f fs) as [w|] eqn:El.
          -- exfalso. apply Hf. exact (last_binding_fst f fs w El).
          -- apply Hr. intros [_ Hin]. exact (Hf Hin).
      + apply Hr. intros [Hb _]. subst b. rewrite Nat.eqb_refl in E. discriminate.
    - intros b f Hf. unfold upd in Hf. destruct (Nat.eqb b a) eqn:E; [|apply Hk; exact Hf].
      apply Nat.eqb_eq in E. subst b.
      assert (Hsub : forall k1 g, In g (add_known fields k1) -> In g k1 \/ In g fields).
      { clear. induction fields as [|x fl IH]; intros k1 g H; [left; exact H|]. cbn [add_known] in H.
        destruct (IH _ _ H) as [H1|H1]; [|right; right; exact H1].
        destruct (mem_nat x k1); [left; exact H1|destruct H1 as [H1|H1]; [right; left; exact H1|left; exact H1]]. }
      destruct (Hsub _ _ Hf) as [H1|H1]; [apply Hk; exact H1|].
      unfold m2p, m2. cbn [known set_env]. apply Hkn. exact H1. }
  (* the rest of the body *)
  rewrite Hrest_eq.
  pose proof (exec_rel_block orc F a [] rest Hrest_ro (or_introl eq_refl) _ _ HRs) as HRr.
  set (m1r := exec_block orc rest m1s) in *. set (m2r := exec_block orc rest m2p) in *.
  (* i + step, then the clone *)
  cbn [exec_block exec_stmt eval_pexp eval_binop].
  set (m2n := set_env m2r (upd (env m2r) next_i (env m2r iv + env m2r sp))).
  pose proof Hepi as Hcl. unfold clone_scoped in Hcl.
  destruct (clone_inputs (combine deps (next_i :: ys)) (S next_i) ins) as [[cs mp] nf'] eqn:Hci.
  inversion Hcl as [[He1 He2 He3]]. clear Hcl.
  assert (Hframe2 : forall x, off F x -> env m2r x = env m2 x -> True) by (intros; exact Logic.I).
  (* values of iv / sp at the end of the body *)
  assert (Hbi : forall x, ~ In x (block_binds (ins ++ rest)) -> ~ In x (block_binds ins) /\ ~ In x (block_binds rest)).
  { intros x Hx. unfold block_binds in *. rewrite flat_map_app in Hx. split; intros Hin; apply Hx; apply in_or_app; [left|right]; exact Hin. }
  assert (Hiv2 : env m2r iv = l + Z.of_nat k * s).
  { destruct Hiv as (_ & Hb & _). destruct (Hbi iv Hb) as [Hb1 Hb2]. unfold m2r. rewrite (env_frame_block orc rest _ iv Hb2).
    unfold m2p. cbn [env set_env]. rewrite (exec_pures_frame ins _ iv Hins Hb1). unfold m2. cbn [env set_env]. apply upd_same. }
  assert (Hsp2 : env m2r sp = s).
  { destruct Hsp as (_ & Hb & _ & Hne). destruct (Hbi sp Hb) as [Hb1 Hb2]. unfold m2r. rewrite (env_frame_block orc rest _ sp Hb2).
    unfold m2p. cbn [env set_env]. rewrite (exec_pures_frame ins _ sp Hins Hb1). unfold m2. cbn [env set_env].
    rewrite upd_other by exact Hne. exact Hsps. }
  (* execute the clone *)
  set (M1' := set_env m1r (bind_list bargs (map (env m1r) ys) (env m1r))).
  set (m1h := head (S k) M1').
  assert (Hn2 : env m2n next_i = l + Z.of_nat (S k) * s).
  { unfold m2n. cbn [env set_env]. rewrite upd_same, Hiv2, Hsp2. lia. }
  assert (Hm2n : forall x, x <> next_i -> env m2n x = env m2r x).
  { intros x Hx. unfold m2n. cbn [env set_env]. apply upd_other. exact Hx. }
  assert (Her : eagree F (env m1r) (env m2r)) by exact (proj1 HRr).
  assert (Hcorr : corr (combine deps (next_i :: ys)) (env m1h) (env m2n) X).
  { intros v Hv. unfold deps. cbn [combine mlook]. destruct (Nat.eqb iv v) eqn:E.
    - apply Nat.eqb_eq in E. subst v. rewrite Hn2. unfold m1h, head. cbn [env set_env]. rewrite upd_same. reflexivity.
    - assert (Hne : v <> iv) by (intros ->; rewrite Nat.eqb_refl in E; discriminate).
      unfold m1h, head, M1'. cbn [env set_env]. rewrite upd_other by exact Hne.
      destruct (in_dec Nat.eq_dec v bargs) as [Hin|Hnin].
      + destruct (mlook_combine_in bargs ys v Hin Hlen Hnd) as (j & y & H1 & H2 & H3). rewrite H3.
        rewrite (bind_list_nth bargs ys (env m1r) (env m1r) j v y Hnd Hlen H1 H2).
        assert (Hy : (y < next_i)%nat) by (apply Hyslt; eapply nth_error_In; exact H2).
        rewrite Hm2n by lia. symmetry. apply Her. apply (Hdep_int j v y H1 H2 Hv).
      + rewrite (mlook_combine_notin bargs ys v Hnin). rewrite bind_list_other by exact Hnin.
        specialize (HXlt v Hv). rewrite Hm2n by lia. symmetry. apply Her. apply HXoff. exact Hv. }
  assert (Hlt : forall v, In v X -> (mlook (combine deps (next_i :: ys)) v < S next_i)%nat).
  { intros v Hv. unfold deps. cbn [combine mlook]. destruct (Nat.eqb iv v); [lia|].
    destruct (in_dec Nat.eq_dec v bargs) as [Hin|Hnin].
    - destruct (mlook_combine_in bargs ys v Hin Hlen Hnd) as (j & y & H1 & H2 & H3). rewrite H3.
      assert (Hy : (y < next_i)%nat) by (apply Hyslt; eapply nth_error_In; exact H2). lia.
    - rewrite (mlook_combine_notin bargs ys v Hnin). specialize (HXlt v Hv). lia. }
  assert (HiX1 : incl (ops_of ins) X) by (intros v Hv; apply in_or_app; left; exact Hv).
  assert (HiX2 : incl (map snd fs) X) by (intros v Hv; apply in_or_app; right; exact Hv).
  destruct (clone_inputs_correct ins _ _ _ _ _ (env m1h) (env m2n) X Hins Hci Hlt HiX1 Hcorr) as (Hc1 & Hc2 & Hc3 & Hc4 & Hc5).
  pose proof (clone_inputs_frame ins _ _ _ _ _ Hins Hci (env m2n)) as Hfr.
  set (epi0 := cs ++ [SSetup a nf' (Some (mlook mp s_in)) (map (fun fv : field * val => (fst fv, mlook mp (snd fv))) fs)]).
  assert (Hepi0 : clone_scoped deps (next_i :: ys) (S next_i) ins a s_in fs = (epi0, nf', S nf')).
  { unfold clone_scoped. rewrite Hci. reflexivity. }
  set (m2e := exec_block orc epi0 m2n).
  assert (Hm2e : m2e = exec_stmt orc (SSetup a nf' (Some (mlook mp s_in)) (map (fun fv : field * val => (fst fv, mlook mp (snd fv))) fs))
                         (set_env m2n (exec_pures cs (env m2n)))).
  { unfold m2e, epi0. rewrite exec_block_app, (exec_pures_block orc cs m2n Hc4). reflexivity. }
  assert (Hee : eagree F (env m1r) (env m2e)).
  { intros x Hx. rewrite Hm2e. cbn [exec_stmt exec_setup env set_env].
    assert (Hr : (x < next_i \/ S nf' <= x)%nat).
    { destruct (Nat.lt_ge_cases x next_i) as [H|H]; [left; exact H|]. destruct (Nat.lt_ge_cases x (S nf')) as [H'|H']; [|right; exact H'].
      exfalso. apply Hx. apply Hfresh. rewrite <- He3. lia. }
    assert (Hc2' : (S next_i <= nf')%nat) by exact Hc2.
    rewrite Hfr by lia. rewrite Hm2n by (intros ->; apply Hx; apply Hfresh; rewrite <- He3; lia). apply Her. exact Hx. }
  assert (Hregs_e : forall f, In f fields ->
            regs m2e a f = regs (exec_block orc (ins ++ [S0]) m1h) a f).
  { intros f Hf. unfold m2e, S0.
    apply (clone_scoped_correct orc deps (next_i :: ys) (S next_i) ins a o s_in fs epi0 nf' (S nf') m1h m2n X
             Hins Hepi0 HiX1 HiX2 Hlt Hcorr f). right. exact Hf. }
  (* assemble the invariant of the next iteration *)
  change (set_env m1r (bind_list bargs (map (env m1r) ys) (env m1r))) with M1'.
  rewrite <- He2. fold epi0. fold m2e.
  destruct HRr as (_ & Hrr & Hkr & Hnr & Htr).
  unfold Inv. split; [|split; [|split]].
  - unfold Rel. cbn [env regs known ncalls tr set_env]. split; [|split; [|split; [|split]]].
    + unfold M1'. cbn [env set_env]. apply bind_two; [exact Hee|exact Hee|exact Hys|exact Hlen|exact Hys_len].
    + intros b f Hne. unfold M1'. cbn [regs set_env]. rewrite Hm2e. cbn [exec_stmt exec_setup regs set_env].
      unfold upd. destruct (Nat.eqb b a) eqn:E.
      * apply Nat.eqb_eq in E. subst b. rewrite write_fields_spec.
        destruct (last_binding f _) as [w|] eqn:El.
        -- exfalso. apply Hne. split; [reflexivity|]. apply last_binding_fst in El. rewrite map_map in El. exact El.
        -- unfold m2n. cbn [regs set_env]. apply Hrr. intros [_ []].
      * unfold m2n. cbn [regs set_env]. apply Hrr. intros [_ []].
    + intros b f Hf. unfold M1' in Hf. cbn [known set_env] in Hf. rewrite Hm2e. cbn [exec_stmt exec_setup known set_env].
      unfold upd. destruct (Nat.eqb b a) eqn:E.
      * apply Nat.eqb_eq in E. subst b. apply In_add_known'. unfold m2n. cbn [known set_env]. apply Hkr. exact Hf.
      * unfold m2n. cbn [known set_env]. apply Hkr. exact Hf.
    + unfold M1'. cbn [ncalls set_env]. rewrite Hm2e. cbn [exec_stmt exec_setup ncalls set_env]. exact Hnr.
    + unfold M1'. cbn [tr set_env]. rewrite Hm2e. cbn [exec_stmt exec_setup tr set_env]. exact Htr.
  - cbn [env set_env]. destruct Hsp as (Hso & _ & Hsb & _). rewrite bind_list_other by exact Hsb.
    rewrite <- (Hee sp Hso). unfold m1r.
    transitivity (env m2r sp); [|exact Hsp2]. apply Her. exact Hso.
  - intros f Hf. cbn [regs set_env]. fold m1h. apply Hregs_e. exact Hf.
  - intros f Hf. cbn [known set_env]. rewrite Hm2e. cbn [exec_stmt exec_setup known set_env]. rewrite upd_same.
    apply add_known_has. rewrite map_map. exact Hf.
Qed.
(* every trip count: induction on the iteration index *)
Theorem loop_inside : forall n M1 M2, Inv 0%nat M1 M2 ->
  Inv n (iter_n n (for_step (exec_block orc body) iv bargs ys l s) M1)
        (iter_n n (for_step (exec_block orc body') iv bargs ys' l s) M2).
Proof.
  induction n as [|n IH]; intros M1 M2 H0; cbn [iter_n]; [exact H0|].
  apply step_inv. apply IH. exact H0.
Qed.

(* in particular: the traces are related event by event (every launch inside the loop observes the same
   registers) and the machines differ at most in the moved setup's fields *)
Corollary loop_inside_rel n M1 M2 : Inv 0%nat M1 M2 ->
  Rel F a fields (iter_n n (for_step (exec_block orc body) iv bargs ys l s) M1)
                 (iter_n n (for_step (exec_block orc body') iv bargs ys' l s) M2).
Proof. intros H. exact (proj1 (loop_inside n M1 M2 H)). Qed.
End Inside.
