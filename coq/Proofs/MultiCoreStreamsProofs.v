(* Running barrier-separated phases on the barrier machine: if every phase is free of cross-core
   conflicts, EVERY maximal execution of the machine (any interleaving of the cores, barriers passed
   together) terminates in the memory of the program order. *)
From Snax Require Import Base.Prelude Base.ListAux Model.MultiCore Model.MultiCoreStreams
  Proofs.MultiCoreCommute Proofs.MultiCoreMachine.

Lemma upto_some l r : upto_barrier (map Some l ++ None :: r) = l.
Proof. induction l as [|o t IH]; simpl; [reflexivity|]. rewrite IH. reflexivity. Qed.

Lemma after_some l r : after_barrier (map Some l ++ None :: r) = r.
Proof. induction l as [|o t IH]; simpl; [reflexivity | exact IH]. Qed.

Lemma core_stream_cons c ph phs :
  core_stream c (ph :: phs) = map Some (filter (on_core c) ph) ++ None :: core_stream c phs.
Proof. unfold core_stream. simpl. rewrite <- app_assoc. reflexivity. Qed.

Lemma filter_barrier_some l : filter is_barrier (map Some l) = [].
Proof. induction l as [|o t IH]; [reflexivity | exact IH]. Qed.

Lemma nbarriers_core_stream c phs : nbarriers (core_stream c phs) = length phs.
Proof.
  induction phs as [|ph r IH]; [reflexivity|]. rewrite core_stream_cons. unfold nbarriers in *.
  rewrite filter_app, filter_barrier_some. simpl. f_equal. exact IH.
Qed.

Lemma balanced_streams cores phs : balanced (streams_of cores phs).
Proof.
  intros s s' Hs Hs'. unfold streams_of in *. apply in_map_iff in Hs as [c [<- _]]. apply in_map_iff in Hs' as [c' [<- _]].
  rewrite !nbarriers_core_stream. reflexivity.
Qed.

Lemma cur_phase_streams cores ph phs : cur_phase (streams_of cores (ph :: phs)) = by_cores cores ph.
Proof.
  unfold cur_phase, streams_of, by_cores. rewrite flat_map_concat_map, map_map, <- flat_map_concat_map.
  apply flat_map_ext. intros c. rewrite core_stream_cons. apply upto_some.
Qed.

Lemma after_streams cores ph phs : map after_barrier (streams_of cores (ph :: phs)) = streams_of cores phs.
Proof.
  unfold streams_of. rewrite map_map. apply map_ext. intros c. rewrite core_stream_cons. apply after_some.
Qed.

Lemma has_barrier_streams cores ph phs : cores <> [] -> existsb has_barrier (streams_of cores (ph :: phs)) = true.
Proof.
  intros H. destruct cores as [|c r]; [congruence|]. unfold streams_of. cbn [map existsb]. rewrite core_stream_cons.
  unfold has_barrier at 1. rewrite existsb_app. simpl. rewrite orb_true_r. reflexivity.
Qed.

Lemma upto_streams cores ph phs :
  map upto_barrier (streams_of cores (ph :: phs)) = map (fun c => filter (on_core c) ph) cores.
Proof. unfold streams_of. rewrite map_map. apply map_ext. intros c. rewrite core_stream_cons. apply upto_some. Qed.

Lemma cur_phase_nil cores : cur_phase (streams_of cores []) = [].
Proof. unfold cur_phase, streams_of. induction cores as [|c r IH]; simpl; [reflexivity | exact IH]. Qed.

Lemma has_barrier_nil cores : existsb has_barrier (streams_of cores []) = false.
Proof. unfold streams_of. induction cores as [|c r IH]; simpl; [reflexivity | exact IH]. Qed.

Lemma xfree_upto_nil cores : xfree (map upto_barrier (streams_of cores [])) = true.
Proof.
  unfold streams_of. induction cores as [|c r IH]; [reflexivity|].
  cbn [map xfree]. rewrite IH, andb_true_r. apply forallb_forall. intros q _. reflexivity.
Qed.

Lemma seq_order_S f ss : seq_order (S f) ss =
  cur_phase ss ++ (if existsb has_barrier ss then seq_order f (map after_barrier ss) else []).
Proof. reflexivity. Qed.
Lemma xfree_all_S f ss : xfree_all (S f) ss =
  xfree (map upto_barrier ss) && (if existsb has_barrier ss then xfree_all f (map after_barrier ss) else true).
Proof. reflexivity. Qed.

Lemma seq_order_streams cores : cores <> [] -> forall phs,
  seq_order (S (length phs)) (streams_of cores phs) = concat (map (by_cores cores) phs).
Proof.
  intros Hc. induction phs as [|ph r IH].
  - cbn [length]. rewrite seq_order_S, cur_phase_nil, has_barrier_nil. reflexivity.
  - cbn [length]. rewrite seq_order_S, cur_phase_streams, has_barrier_streams by exact Hc.
    rewrite after_streams, IH. reflexivity.
Qed.

(* cross-core conflict freedom of a phase, both orders *)
Lemma phase_drfb_pairs : forall ph, phase_drfb ph = true ->
  forall a b, In a ph -> In b ph -> o_core a <> o_core b -> conflictb a b = false.
Proof.
  induction ph as [|x r IH]; intros Hd a b Ha Hb Hc; [destruct Ha|].
  apply phase_drfb_cons in Hd as [Hx Hd']. destruct Ha as [<-|Ha], Hb as [<-|Hb].
  - congruence.
  - apply Hx; assumption.
  - apply conflictb_sym. apply Hx; [exact Ha | congruence].
  - apply IH; assumption.
Qed.

Lemma xfree_cores : forall cores ph, NoDup cores -> phase_drfb ph = true ->
  xfree (map (fun c => filter (on_core c) ph) cores) = true.
Proof.
  induction cores as [|c r IH]; intros ph Hn Hd; [reflexivity|]. inversion Hn; subst. simpl.
  rewrite IH by assumption. rewrite andb_true_r. apply forallb_forall. intros q Hq.
  apply in_map_iff in Hq as [c' [<- Hc']]. unfold free2. apply forallb_forall. intros a Ha. apply forallb_forall. intros b Hb.
  apply filter_In in Ha as [Ha Ca]. apply filter_In in Hb as [Hb Cb]. unfold on_core in Ca, Cb.
  apply Z.eqb_eq in Ca, Cb. apply negb_true_iff. apply (phase_drfb_pairs ph Hd a b Ha Hb).
  intros E. apply H1. rewrite <- Ca, E, Cb. exact Hc'.
Qed.

Lemma xfree_all_streams cores : cores <> [] -> NoDup cores -> forall phs,
  Forall (fun ph => phase_drfb ph = true) phs -> xfree_all (S (length phs)) (streams_of cores phs) = true.
Proof.
  intros Hc Hn. induction phs as [|ph r IH]; intros Hf.
  - cbn [length]. rewrite xfree_all_S, xfree_upto_nil, has_barrier_nil. reflexivity.
  - inversion Hf; subst. cbn [length]. rewrite xfree_all_S, upto_streams, has_barrier_streams by exact Hc.
    rewrite after_streams, IH by assumption. rewrite andb_true_r. apply xfree_cores; assumption.
Qed.

Lemma filter_core_nil c' : forall ph, (forall o, In o ph -> o_core o <> c') -> filter (on_core c') ph = [].
Proof.
  induction ph as [|o t IH]; intros H; [reflexivity|]. simpl. destruct (on_core c' o) eqn:Eo.
  - exfalso. apply (H o (or_introl eq_refl)). unfold on_core in Eo. apply Z.eqb_eq in Eo. exact Eo.
  - apply IH. intros o' Ho'. apply H. right. exact Ho'.
Qed.

(* core after core is one of the schedules of a phase *)
Lemma schedule_by_cores : forall cores ph, NoDup cores -> (forall o, In o ph -> In (o_core o) cores) ->
  schedule_of ph (by_cores cores ph).
Proof.
  intros cores ph Hn Hin c'. unfold by_cores.
  assert (Hgen : forall cs, NoDup cs ->
            filter (on_core c') (flat_map (fun c => filter (on_core c) ph) cs) = if memb c' cs then filter (on_core c') ph else []).
  { induction cs as [|c r IH]; intros Hd; [reflexivity|]. inversion Hd; subst. simpl. rewrite filter_app, IH by assumption.
    destruct (c' =? c) eqn:E.
    - apply Z.eqb_eq in E. subst c'. simpl.
      replace (memb c r) with false by (symmetry; apply memb_false; assumption). rewrite app_nil_r.
      clear. induction ph as [|o t IHp]; [reflexivity|]. simpl. destruct (on_core c o) eqn:Eo; simpl; [rewrite Eo, IHp; reflexivity | exact IHp].
    - simpl. assert (Hnil : filter (on_core c') (filter (on_core c) ph) = []).
      { clear -E. induction ph as [|o t IHp]; [reflexivity|]. simpl. destruct (on_core c o) eqn:Eo; [|exact IHp].
        simpl. unfold on_core in *. apply Z.eqb_eq in Eo. rewrite Eo, Z.eqb_sym, E. exact IHp. }
      rewrite Hnil. reflexivity. }
  rewrite (Hgen cores Hn). destruct (memb c' cores) eqn:E; [reflexivity|].
  apply memb_false in E. symmetry. apply filter_core_nil. intros o Ho Ec. apply E. rewrite <- Ec. apply Hin. exact Ho.
Qed.

(* the machine on the streams of conflict-free phases: no deadlock, and every maximal execution ends
   in the memory of the program order *)
Theorem machine_phases : forall cores phs m,
  cores <> [] -> NoDup cores ->
  (forall ph o, In ph phs -> In o ph -> In (o_core o) cores) ->
  Forall (fun ph => phase_drfb ph = true) phs ->
  forall cfg, steps (streams_of cores phs, m) cfg ->
    (all_finished (fst cfg) = true /\ meq (snd cfg) (exec (concat phs) m)) \/ (exists cfg', step cfg cfg').
Proof.
  intros cores phs m Hc Hn Hin Hd cfg Hs.
  destruct (machine_result (streams_of cores phs) m (S (length phs)) (balanced_streams cores phs)) with (cfg := cfg)
    as [[Hfin Hm]|Hstep]; try assumption.
  - intros s Hs'. unfold streams_of in Hs'. apply in_map_iff in Hs' as [c [<- _]]. rewrite nbarriers_core_stream. lia.
  - apply xfree_all_streams; assumption.
  - left. split; [exact Hfin|]. eapply meq_trans; [exact Hm|].
    rewrite seq_order_streams by exact Hc.
    apply (drf_phases phs (map (by_cores cores) phs) m Hd).
    clear -Hn Hin. induction phs as [|ph r IH]; simpl; constructor.
    + apply schedule_by_cores; [exact Hn | intros o Ho; apply (Hin ph o); [left; reflexivity | exact Ho]].
    + apply IH. intros ph' o H1 H2. apply (Hin ph' o); [right; exact H1 | exact H2].
  - right. exact Hstep.
Qed.
