(* C03, part 4: the fuel of the executable search is irrelevant once it exceeds a simple measure
   (every recursive call uses up a schedule dim or a bounded template dim), so [backtrack] never
   stops for lack of fuel. *)
From Snax Require Import Base.Prelude Base.ListAux Model.C03Schedule Model.C16Matcher
  Proofs.C03ScheduleProofs Proofs.C03BacktrackProofs.

Lemma tile_ndims d t s c n : s_tile d t s = Some c -> c_ndims s = Some n -> (d < n)%nat -> c_ndims c = Some (S n).
Proof.
  intros H Hn Hd. destruct s as [|p0 s0]; [discriminate|]. apply mapM_Forall2 in H.
  inversion H as [|? p0' ? s0' Hr _]; subst. cbn [c_ndims] in *. injection Hn as Hn.
  apply p_tile_Some in Hr as (c0 & bd & _ & Hbd & _ & -> & _). unfold pndims in *. cbn [pbounds].
  f_equal. rewrite !app_length, firstn_length, skipn_length. cbn [length]. lia.
Qed.

Lemma template_bound_truthy T k tb : template_bound T k = Some tb -> truthy tb = true -> (k <= tndims T)%nat.
Proof.
  unfold template_bound, tndims. destruct T as [|tp T']; [discriminate|].
  destruct (Nat.leb k (pndims tp)) eqn:E; [intros _ _; apply Nat.leb_le; exact E|].
  intros H; injection H as <-. discriminate.
Qed.

Section Fuel.
  Variable matcher : tmpl -> sched -> bool.
  Variable checks : list (tmpl -> sched -> bool).
  Variable T : tmpl.

  Definition mu (n k : nat) : nat := ((n + 1 - k) + (tndims T + 1 - k))%nat.

  Lemma bt_loop_ext (rec1 rec2 : sched -> res) k n : (1 <= k)%nat ->
    (forall c, wf_sched c -> c_ndims c = Some n -> (k <= n)%nat -> rec1 c = rec2 c) ->
    (forall c, wf_sched c -> c_ndims c = Some (S n) -> (k <= n)%nat -> (k <= tndims T)%nat -> rec1 c = rec2 c) ->
    forall i s, wf_sched s -> c_ndims s = Some n -> (i <= n + 1 - k)%nat ->
      bt_loop matcher checks rec1 T k i s = bt_loop matcher checks rec2 T k i s.
  Proof.
    intros Hk1 Hsame Htile. induction i as [|i IH]; intros s Hwf Hn Hi; [reflexivity|].
    cbn [bt_loop]. rewrite Hn.
    destruct (s_rotate (n + 1 - k) s) as [s1|] eqn:Hrot; [|reflexivity].
    assert (Hk : (k <= n)%nat) by lia.
    assert (Hwf1 : wf_sched s1) by (eapply rotate_wf; [exact Hwf| |exact Hrot]; lia).
    assert (Hn1 : c_ndims s1 = Some n) by (rewrite <- Hn; eapply rotate_ndims; [exact Hwf| |exact Hrot]; lia).
    assert (HIH : bt_loop matcher checks rec1 T k i s1 = bt_loop matcher checks rec2 T k i s1)
      by (apply IH; auto; lia).
    rewrite HIH. rewrite (Hsame s1 Hwf1 Hn1 Hk).
    destruct (s_inner k s1) as [sc|]; [|reflexivity].
    destruct (t_inner k T) as [tc|]; [|reflexivity].
    destruct (negb (matcher tc sc)); [reflexivity|].
    destruct (negb (forallb (fun c => c tc sc) checks)); [reflexivity|].
    destruct (template_bound T k) as [tb|] eqn:Htb; [|reflexivity].
    destruct (schedule_bound s1 k) as [sb|]; [|reflexivity].
    destruct (truthy tb) eqn:Htr; [|reflexivity].
    destruct (sb <=? _); [reflexivity|]. destruct (negb _); [reflexivity|].
    destruct (s_tile (n - k) _ s1) as [c|] eqn:Hti; [|reflexivity].
    rewrite (Htile c); auto.
    - eapply tile_wf; eassumption.
    - eapply tile_ndims; [exact Hti|exact Hn1|]. lia.
    - eapply template_bound_truthy; eassumption.
  Qed.

  Theorem bt_fuel_indep : forall f1 f2 s k n, wf_sched s -> c_ndims s = Some n -> (1 <= k)%nat ->
    (mu n k < f1)%nat -> (mu n k < f2)%nat ->
    bt matcher checks f1 T s k = bt matcher checks f2 T s k.
  Proof.
    induction f1 as [|f1 IH]; intros f2 s k n Hwf Hn Hk H1 H2; [lia|].
    destruct f2 as [|f2]; [lia|]. cbn [bt]. rewrite Hn. f_equal.
    apply bt_loop_ext with (n := n); auto.
    - intros c Hwfc Hnc Hkn. apply IH with (n := n); auto; unfold mu in *; lia.
    - intros c Hwfc Hnc Hkn HkT. apply IH with (n := S n); auto; unfold mu in *; lia.
  Qed.

  (* the fuel chosen by [backtrack] is enough: more fuel never changes the result *)
  Theorem backtrack_fuel_enough s f : wf_sched s -> s <> [] -> (bt_fuel T s <= f)%nat ->
    bt matcher checks f T s 1 = backtrack matcher checks T s.
  Proof.
    intros Hwf Hne Hf. unfold backtrack. destruct s as [|p0 s0]; [congruence|].
    set (s := p0 :: s0) in *. assert (Hn : c_ndims s = Some (pndims p0)) by reflexivity.
    assert (Hmu : (mu (pndims p0) 1 < bt_fuel T s)%nat).
    { unfold mu, bt_fuel, tndims. rewrite Hn. destruct T as [|tp T']; cbn [c_ndims]; lia. }
    apply bt_fuel_indep with (n := pndims p0); auto; lia.
  Qed.
End Fuel.
