(* The barrier-synchronised machine is deterministic on race-free programs: EVERY complete
   execution (any interleaving of the cores, barriers passed together) ends in the memory of the
   canonical order (phase after phase, core after core). *)
From Snax Require Import Base.Prelude Base.ListAux Model.MultiCore Proofs.MultiCoreCommute.

Lemma free2_in p q a b : free2 p q = true -> In a p -> In b q -> conflictb a b = false.
Proof.
  unfold free2. rewrite forallb_forall. intros H Ha Hb. specialize (H a Ha).
  rewrite forallb_forall in H. specialize (H b Hb). apply negb_true_iff in H. exact H.
Qed.

Lemma free2_cons_r p o q : free2 p (o :: q) = true -> free2 p q = true /\ forall a, In a p -> conflictb a o = false.
Proof.
  unfold free2. rewrite !forallb_forall. intros H. split.
  - intros a Ha. specialize (H a Ha). simpl in H. apply andb_true_iff in H. tauto.
  - intros a Ha. specialize (H a Ha). simpl in H. apply andb_true_iff in H as [H _]. apply negb_true_iff in H. exact H.
Qed.

Lemma free2_cons_l o p q : free2 (o :: p) q = true -> free2 p q = true.
Proof. unfold free2. simpl. intros H. apply andb_true_iff in H. tauto. Qed.

(* removing the head op of one stream keeps positional conflict freedom, and that op does not
   conflict with any op of the streams before it *)
Lemma xfree_remove_head : forall A o p B,
  xfree (A ++ (o :: p) :: B) = true ->
  xfree (A ++ p :: B) = true /\ forall a, In a (concat A) -> conflictb a o = false.
Proof.
  induction A as [|q A IH]; intros o p B H; simpl in *.
  - apply andb_true_iff in H as [H1 H2]. split; [|intros a []].
    apply andb_true_iff. split; [|exact H2].
    rewrite forallb_forall in *. intros x Hx. apply free2_cons_l with (o := o). apply H1. exact Hx.
  - apply andb_true_iff in H as [H1 H2]. destruct (IH o p B H2) as [IH1 IH2].
    rewrite forallb_app in H1. apply andb_true_iff in H1 as [H1a H1b]. simpl in H1b.
    apply andb_true_iff in H1b as [H1o H1B]. apply free2_cons_r in H1o as [Hqp Hqo].
    split.
    + apply andb_true_iff. split; [|exact IH1].
      rewrite forallb_app. apply andb_true_iff. split; [exact H1a|]. simpl. rewrite Hqp, H1B. reflexivity.
    + intros a Ha. apply in_app_or in Ha as [Ha|Ha]; [apply Hqo; exact Ha | apply IH2; exact Ha].
Qed.

Lemma existsb_has_barrier_step pre o s post :
  existsb has_barrier (pre ++ (Some o :: s) :: post) = existsb has_barrier (pre ++ s :: post).
Proof. rewrite !existsb_app. reflexivity. Qed.

Lemma after_barrier_step pre o s post :
  map after_barrier (pre ++ (Some o :: s) :: post) = map after_barrier (pre ++ s :: post).
Proof. rewrite !map_app. reflexivity. Qed.

Lemma cur_phase_step pre o s post :
  cur_phase (pre ++ (Some o :: s) :: post) = cur_phase pre ++ o :: cur_phase (s :: post) /\
  cur_phase (pre ++ s :: post) = cur_phase pre ++ cur_phase (s :: post).
Proof. unfold cur_phase. rewrite !flat_map_app. simpl. split; reflexivity. Qed.

Lemma concat_map_upto ss : concat (map upto_barrier ss) = cur_phase ss.
Proof. unfold cur_phase. rewrite flat_map_concat_map. reflexivity. Qed.

(* executing the head op of one core first is as good as executing it at its canonical place *)
Lemma step_op_order f pre o s post m :
  xfree (map upto_barrier (pre ++ (Some o :: s) :: post)) = true ->
  meq (exec (o :: seq_order (S f) (pre ++ s :: post)) m)
      (exec (seq_order (S f) (pre ++ (Some o :: s) :: post)) m).
Proof.
  intros Hx. cbn [seq_order].
  rewrite existsb_has_barrier_step, after_barrier_step.
  destruct (cur_phase_step pre o s post) as [E1 E2]. rewrite E1, E2.
  set (R := if existsb has_barrier (pre ++ s :: post) then seq_order f (map after_barrier (pre ++ s :: post)) else []).
  rewrite map_app in Hx. simpl in Hx.
  destruct (xfree_remove_head _ _ _ _ Hx) as [_ Hc]. rewrite concat_map_upto in Hc.
  apply meq_sym.
  replace ((cur_phase pre ++ o :: cur_phase (s :: post)) ++ R)
    with ((cur_phase pre ++ [o]) ++ (cur_phase (s :: post) ++ R)) by (rewrite <- !app_assoc; reflexivity).
  rewrite exec_app. eapply meq_trans.
  { apply exec_meq. apply exec_commute_list. intros y Hy. apply conflictb_sym. apply Hc. exact Hy. }
  rewrite <- exec_app. rewrite <- app_assoc. simpl. apply meq_refl.
Qed.

Lemma seq_order_finished fuel ss : all_finished ss = true -> seq_order fuel ss = [].
Proof.
  intros H. destruct fuel as [|f]; [reflexivity|]. simpl.
  unfold all_finished in H. rewrite forallb_forall in H.
  assert (Hc : cur_phase ss = []).
  { unfold cur_phase. induction ss as [|s r IH]; [reflexivity|]. simpl.
    assert (Hs : finished s = true) by (apply H; left; reflexivity). destruct s; [|discriminate].
    simpl. apply IH. intros x Hx. apply H. right. exact Hx. }
  assert (Hb : existsb has_barrier ss = false).
  { induction ss as [|s r IH]; [reflexivity|]. simpl.
    assert (Hs : finished s = true) by (apply H; left; reflexivity). destruct s; [|discriminate].
    simpl. apply IH; [intros x Hx; apply H; right; exact Hx|].
    unfold cur_phase in *. simpl in Hc. exact Hc. }
  rewrite Hc, Hb. reflexivity.
Qed.

Lemma nbarriers_tl s : at_barrier s = true -> nbarriers s = S (nbarriers (tl s)).
Proof. destruct s as [|[o|] r]; try discriminate. reflexivity. Qed.

Theorem machine_deterministic : forall c c', steps c c' -> forall fuel,
  (forall s, In s (fst c) -> (nbarriers s < fuel)%nat) ->
  xfree_all fuel (fst c) = true ->
  all_finished (fst c') = true ->
  meq (snd c') (exec (seq_order fuel (fst c)) (snd c)).
Proof.
  intros c c' H. induction H as [c|a b c Hab Hbc IH]; intros fuel Hfuel Hx Hfin.
  - rewrite seq_order_finished by exact Hfin. apply meq_refl.
  - inversion Hab as [pre o s post m E1 E2 | ss m Hne Hbar E1 E2]; subst; simpl in *.
    + (* a core executes an op *)
      destruct fuel as [|f].
      { exfalso. specialize (Hfuel (Some o :: s)). assert (In (Some o :: s) (pre ++ (Some o :: s) :: post))
          by (apply in_or_app; right; left; reflexivity). specialize (Hfuel H). lia. }
      eapply meq_trans.
      * apply (IH (S f)); simpl.
        { intros s' Hs'. apply in_app_or in Hs' as [Hs'|[<-|Hs']].
          - apply Hfuel. apply in_or_app. left. exact Hs'.
          - apply (Hfuel (Some o :: s)). apply in_or_app. right. left. reflexivity.
          - apply Hfuel. apply in_or_app. right. right. exact Hs'. }
        { cbn [xfree_all] in Hx |- *. apply andb_true_iff in Hx as [Hx1 Hx2].
          rewrite existsb_has_barrier_step, after_barrier_step in Hx2. rewrite Hx2, andb_true_r.
          rewrite map_app in Hx1 |- *. simpl in Hx1 |- *.
          destruct (xfree_remove_head _ _ _ _ Hx1) as [Hx' _]. exact Hx'. }
        { exact Hfin. }
      * cbn [xfree_all] in Hx. apply andb_true_iff in Hx as [Hx1 _].
        apply (step_op_order f pre o s post m Hx1).
    + (* all cores pass the barrier *)
      assert (Hall : forall s, In s ss -> at_barrier s = true).
      { unfold all_at_barrier in Hbar. rewrite forallb_forall in Hbar. exact Hbar. }
      destruct fuel as [|f].
      { exfalso. destruct ss as [|s0 r]; [congruence|]. specialize (Hfuel s0 (or_introl eq_refl)). lia. }
      assert (Hc : cur_phase ss = []).
      { unfold cur_phase. clear -Hall. induction ss as [|s r IH]; [reflexivity|]. simpl.
        pose proof (Hall s (or_introl eq_refl)) as Hs. destruct s as [|[o|] t]; try discriminate.
        simpl. apply IH. intros x Hx. apply Hall. right. exact Hx. }
      assert (Hb : existsb has_barrier ss = true).
      { destruct ss as [|s0 r]; [congruence|]. simpl.
        pose proof (Hall s0 (or_introl eq_refl)) as Hs. destruct s0 as [|[o|] t]; try discriminate. reflexivity. }
      assert (Ha : map after_barrier ss = pass_barrier ss).
      { unfold pass_barrier. apply map_ext_in. intros s Hs. specialize (Hall s Hs).
        destruct s as [|[o|] t]; try discriminate. reflexivity. }
      cbn [seq_order]. rewrite Hc, Hb, Ha. simpl. apply (IH f); simpl.
      * intros s' Hs'. unfold pass_barrier in Hs'. apply in_map_iff in Hs' as [s [<- Hs]].
        specialize (Hfuel s Hs). rewrite (nbarriers_tl s (Hall s Hs)) in Hfuel. lia.
      * cbn [xfree_all] in Hx. apply andb_true_iff in Hx as [_ Hx2]. rewrite Hb, Ha in Hx2. exact Hx2.
      * exact Hfin.
Qed.

(* together with progress: on balanced, race-free streams every maximal execution terminates in
   the same memory *)
Theorem machine_result : forall ss m fuel,
  balanced ss ->
  (forall s, In s ss -> (nbarriers s < fuel)%nat) ->
  xfree_all fuel ss = true ->
  forall cfg, steps (ss, m) cfg ->
    (all_finished (fst cfg) = true /\ meq (snd cfg) (exec (seq_order fuel ss) m)) \/
    (exists cfg', step cfg cfg').
Proof.
  intros ss m fuel Hb Hf Hx cfg Hs.
  destruct (no_deadlock (ss, m) cfg Hs Hb) as [Hfin|Hstep]; [left | right; exact Hstep].
  split; [exact Hfin|]. apply (machine_deterministic (ss, m) cfg Hs fuel Hf Hx Hfin).
Qed.
