(* C20 — proofs, part 6: append_to_abstract_graph preserves the structural well-formedness pe_wf
   (every choose op has an alternative, ids unique, every switch argument has exactly one user). *)
From Snax Require Import Base.Prelude Base.ListAux Model.C20Phs Proofs.C20PhsProofs Proofs.C20DecodeProofs
  Proofs.C20SearchProofs Proofs.C20AppendProofs.

Definition cnt (l : list nat) (i : nat) : nat := count_occ Nat.eq_dec l i.

Lemma cnt_app l1 l2 i : cnt (l1 ++ l2) i = (cnt l1 i + cnt l2 i)%nat.
Proof.
  unfold cnt. induction l1 as [|x xs IH]; cbn [app count_occ]; [reflexivity|].
  destruct (Nat.eq_dec x i); rewrite IH; reflexivity.
Qed.

Lemma cnt_cons x l i : cnt (x :: l) i = ((if Nat.eqb x i then 1 else 0) + cnt l i)%nat.
Proof.
  unfold cnt. cbn [count_occ]. destruct (Nat.eq_dec x i) as [->|Hne].
  - rewrite Nat.eqb_refl. reflexivity.
  - apply Nat.eqb_neq in Hne. rewrite Hne. reflexivity.
Qed.

Lemma cnt_nil i : cnt [] i = 0%nat.
Proof. reflexivity. Qed.

Definition node_muxes (n : node) : list nat := flat_map src_muxes (nargs n).

Lemma all_muxes_split G :
  all_muxes G = flat_map node_muxes (pnodes G) ++ flat_map src_muxes (pout G).
Proof.
  unfold all_muxes, all_srcs. rewrite flat_map_app. f_equal. apply flat_map_flat_map.
Qed.

(* number of users of switch argument i *)
Definition users (G : pe) (i : nat) : nat :=
  (cnt (map nsw (pnodes G)) i + cnt (flat_map node_muxes (pnodes G)) i + cnt (flat_map src_muxes (pout G)) i)%nat.

Definition one_below (n i : nat) : nat := if (i <? n)%nat then 1%nat else 0%nat.

Record WF (G : pe) : Prop := mkWF {
  wf_ops : forall n, In n (pnodes G) -> nops n <> [];
  wf_ids : NoDup (map nid (pnodes G));
  wf_users : forall i, users G i = one_below (pnsw G) i
}.

(* ---------------------------------------------------------------- WF <-> pe_wf *)
Lemma filter_length_cnt (ns : list node) i :
  length (filter (fun n => Nat.eqb (nsw n) i) ns) = cnt (map nsw ns) i.
Proof.
  induction ns as [|x r IH]; cbn [filter map]; [reflexivity|]. rewrite cnt_cons.
  destruct (Nat.eqb (nsw x) i); cbn [length]; rewrite IH; reflexivity.
Qed.

Lemma cnt_pos_in l i : (0 < cnt l i)%nat <-> In i l.
Proof. unfold cnt. symmetry. apply count_occ_In. Qed.

Lemma WF_pe_wf G : WF G -> pe_wf G = true.
Proof.
  intros [Hops Hids Hus]. unfold pe_wf. rewrite !andb_true_iff. repeat split.
  - apply forallb_forall. intros n Hn. apply andb_true_iff. split.
    + specialize (Hops n Hn). destruct (nops n); [congruence|reflexivity].
    + apply Nat.ltb_lt. specialize (Hus (nsw n)). unfold users, one_below in Hus.
      assert (0 < cnt (map nsw (pnodes G)) (nsw n))%nat by (apply cnt_pos_in; apply in_map; exact Hn).
      destruct (nsw n <? pnsw G)%nat eqn:E; [apply Nat.ltb_lt; exact E|lia].
  - apply forallb_forall. intros m Hm. apply Nat.ltb_lt. specialize (Hus m). unfold users, one_below in Hus.
    rewrite all_muxes_split in Hm. apply cnt_pos_in in Hm. rewrite cnt_app in Hm.
    destruct (m <? pnsw G)%nat eqn:E; [apply Nat.ltb_lt; exact E|lia].
  - clear - Hids. induction (map nid (pnodes G)) as [|x r IH]; cbn [nodup_ids]; [reflexivity|].
    inversion Hids as [|? ? Hx Hr]; subst. apply andb_true_iff. split; [|apply IH; exact Hr].
    apply negb_true_iff. destruct (existsb (ident_eqb x) r) eqn:E; [|reflexivity].
    apply existsb_exists in E as (y & Hy & Ey). apply ident_eqb_eq in Ey. subst. contradiction.
  - apply forallb_forall. intros i Hi. apply in_seq in Hi. specialize (Hus i). unfold users, one_below in Hus.
    assert ((i <? pnsw G)%nat = true) as E by (apply Nat.ltb_lt; lia). rewrite E in Hus.
    unfold switch_user. rewrite all_muxes_split.
    fold (cnt (flat_map node_muxes (pnodes G) ++ flat_map src_muxes (pout G)) i). rewrite cnt_app.
    pose proof (filter_length_cnt (pnodes G) i) as Hf.
    destruct (filter (fun n => Nat.eqb (nsw n) i) (pnodes G)) as [|x [|y r]]; cbn [length] in Hf.
    + assert (cnt (flat_map node_muxes (pnodes G)) i + cnt (flat_map src_muxes (pout G)) i = 1)%nat as -> by lia.
      reflexivity.
    + assert (cnt (flat_map node_muxes (pnodes G)) i + cnt (flat_map src_muxes (pout G)) i = 0)%nat as -> by lia.
      reflexivity.
    + lia.
Qed.

Lemma pe_wf_WF G : pe_wf G = true -> WF G.
Proof.
  intros Hwf. destruct (pe_wf_parts G Hwf) as (Hne & Hnsw & Hmsw & Hnd & Hu).
  constructor; [exact Hne|exact Hnd|].
  intros i. unfold users, one_below. rewrite <- Nat.add_assoc, <- cnt_app, <- all_muxes_split.
  destruct (i <? pnsw G)%nat eqn:E.
  - apply Nat.ltb_lt in E. destruct (Hu i E) as [u Hus]. unfold switch_user in Hus.
    pose proof (filter_length_cnt (pnodes G) i) as Hf. fold (cnt (all_muxes G) i) in Hus.
    destruct (filter (fun n => Nat.eqb (nsw n) i) (pnodes G)) as [|x [|y r]]; cbn [length] in Hf;
      destruct (cnt (all_muxes G) i) as [|[|?]]; try discriminate; lia.
  - apply Nat.ltb_ge in E.
    assert (cnt (map nsw (pnodes G)) i = 0)%nat as ->.
    { destruct (cnt (map nsw (pnodes G)) i) as [|q] eqn:Ec; [reflexivity|].
      assert (In i (map nsw (pnodes G))) as Hin by (apply cnt_pos_in; lia).
      apply in_map_iff in Hin as (nd & Hnd1 & Hnd2). specialize (Hnsw nd Hnd2). lia. }
    destruct (cnt (all_muxes G) i) as [|q] eqn:Ec; [reflexivity|].
    assert (In i (all_muxes G)) as Hin by (apply cnt_pos_in; lia). specialize (Hmsw i Hin). lia.
Qed.

(* ---------------------------------------------------------------- uncollide_inputs adds switches n .. n'-1 *)
Definition bump (n n' i : nat) : nat := if ((n <=? i) && (i <? n'))%nat then 1%nat else 0%nat.

Lemma leaf_no_mux s l : src_leaf s = Some l -> src_muxes s = [].
Proof. destruct s; cbn [src_leaf src_muxes]; [reflexivity|reflexivity|discriminate]. Qed.

Lemma uncollide_cnt G : forall os as_ n r n',
  uncollide_args G n os as_ = Some (r, n') ->
  (n <= n')%nat /\ forall i, cnt (flat_map src_muxes r) i = (cnt (flat_map src_muxes as_) i + bump n n' i)%nat.
Proof.
  induction os as [|o os IH]; intros [|a as_] n r n' H; cbn [uncollide_args] in H; try discriminate.
  - inversion H; subst. split; [lia|]. intros i. unfold bump.
    destruct ((n' <=? i)%nat) eqn:E1; destruct ((i <? n')%nat) eqn:E2; cbn [andb]; lia.
  - destruct (are_equivalent o a).
    + destruct (uncollide_args G n os as_) as [[r0 n0]|] eqn:E; [|discriminate]. inversion H; subst.
      destruct (IH _ _ _ _ E) as [Hle Hc]. split; [exact Hle|]. intros i. cbn [flat_map].
      rewrite !cnt_app, Hc. lia.
    + destruct (equiv_owner G o) as [e|] eqn:Ee; [|discriminate].
      destruct (uncollide_args G (S n) os as_) as [[r0 n0]|] eqn:E; [|discriminate]. inversion H; subst.
      destruct (IH _ _ _ _ E) as [Hle Hc]. split; [lia|]. intros i. cbn [flat_map src_muxes].
      destruct (equiv_owner_some _ _ _ Ee) as [-> [l Hl]]. rewrite (leaf_no_mux _ _ Hl), app_nil_r.
      rewrite !cnt_app, cnt_cons, Hc. unfold bump.
      destruct (Nat.eqb n i) eqn:E0; [apply Nat.eqb_eq in E0|apply Nat.eqb_neq in E0];
        destruct ((S n <=? i)%nat) eqn:E1; destruct ((n <=? i)%nat) eqn:E3; destruct ((i <? n')%nat) eqn:E2;
        cbn [andb];
        try apply Nat.leb_le in E1; try apply Nat.leb_gt in E1; try apply Nat.leb_le in E3; try apply Nat.leb_gt in E3;
        try apply Nat.ltb_lt in E2; try apply Nat.ltb_ge in E2; lia.
Qed.

Lemma map_opt_equiv_no_mux G os es : map_opt (equiv_owner G) os = Some es -> flat_map src_muxes es = [].
Proof.
  revert es. induction os as [|o os IH]; intros es H; cbn [map_opt] in H.
  - inversion H. reflexivity.
  - destruct (equiv_owner G o) as [e|] eqn:Ee; [|discriminate].
    destruct (map_opt (equiv_owner G) os) as [es'|] eqn:E; [|discriminate]. inversion H; subst.
    cbn [flat_map]. destruct (equiv_owner_some _ _ _ Ee) as [-> [l Hl]].
    rewrite (leaf_no_mux _ _ Hl), (IH es' eq_refl). reflexivity.
Qed.

(* ---------------------------------------------------------------- replace_node *)
Lemma replace_map {A} (f : node -> A) ns id n' a :
  find_node ns id = Some a -> f n' = f a -> map f (replace_node ns id n') = map f ns.
Proof.
  intros Hf He. induction ns as [|x r IH]; cbn [find_node replace_node map] in *; [reflexivity|].
  destruct (ident_eqb (nid x) id).
  - inversion Hf; subst. cbn [map]. rewrite He. reflexivity.
  - cbn [map]. rewrite IH by exact Hf. reflexivity.
Qed.

Lemma replace_cnt ns id n' a i :
  find_node ns id = Some a ->
  (cnt (flat_map node_muxes (replace_node ns id n')) i + cnt (node_muxes a) i
   = cnt (flat_map node_muxes ns) i + cnt (node_muxes n') i)%nat.
Proof.
  intros Hf. induction ns as [|x r IH]; cbn [find_node replace_node flat_map] in *; [discriminate|].
  destruct (ident_eqb (nid x) id).
  - inversion Hf; subst. cbn [flat_map]. rewrite !cnt_app. lia.
  - cbn [flat_map]. rewrite !cnt_app. specialize (IH Hf). lia.
Qed.

(* ---------------------------------------------------------------- append_node, append *)
Lemma one_below_S n i : one_below (S n) i = (one_below n i + (if Nat.eqb n i then 1 else 0))%nat.
Proof.
  unfold one_below. destruct (Nat.eqb n i) eqn:E0; [apply Nat.eqb_eq in E0|apply Nat.eqb_neq in E0];
    destruct ((i <? S n)%nat) eqn:E1; destruct ((i <? n)%nat) eqn:E2;
    try apply Nat.ltb_lt in E1; try apply Nat.ltb_ge in E1; try apply Nat.ltb_lt in E2; try apply Nat.ltb_ge in E2; lia.
Qed.

Lemma one_below_bump n n' i : (n <= n')%nat -> one_below n' i = (one_below n i + bump n n' i)%nat.
Proof.
  intros Hle. unfold one_below, bump.
  destruct ((i <? n')%nat) eqn:E1; destruct ((i <? n)%nat) eqn:E2; destruct ((n <=? i)%nat) eqn:E3; cbn [andb];
    try apply Nat.ltb_lt in E1; try apply Nat.ltb_ge in E1; try apply Nat.ltb_lt in E2; try apply Nat.ltb_ge in E2;
    try apply Nat.leb_le in E3; try apply Nat.leb_gt in E3; lia.
Qed.

Lemma nodup_snoc {A} (l : list A) x : NoDup l -> ~ In x l -> NoDup (l ++ [x]).
Proof.
  induction l as [|y r IH]; intros Hnd Hx; cbn [app]; [constructor; [intros []|constructor]|].
  inversion Hnd as [|? ? Hy Hr]; subst. constructor.
  - intros Hin. apply in_app_or in Hin as [Hin|[->|[]]]; [contradiction|]. apply Hx. left. reflexivity.
  - apply IH; [exact Hr|]. intros Hin. apply Hx. right. exact Hin.
Qed.

Lemma append_node_WF G c G1 : WF G -> append_node G c = Some G1 -> WF G1.
Proof.
  intros [Hops Hids Hus] H. unfold append_node in H.
  destruct (find_node (pnodes G) (nid c)) as [a|] eqn:Ea.
  - destruct (uncollide_args G (pnsw G) (nargs c) (nargs a)) as [[args' n']|] eqn:Eu; [|discriminate].
    inversion H; subst G1. clear H.
    destruct (find_node_some _ _ _ Ea) as [HaG Hida]. destruct (uncollide_cnt _ _ _ _ _ _ Eu) as [Hle Hc].
    constructor; cbn [pnodes pnsw pout].
    + intros n Hn. destruct (in_replace_node _ _ _ _ Hn) as [->|Hn']; [|apply Hops; exact Hn'].
      cbn [nops]. apply insert_ops_nonempty. apply Hops. exact HaG.
    + rewrite (replace_map nid _ _ _ a Ea) by reflexivity. exact Hids.
    + intros i. unfold users. cbn [pnodes pout].
      rewrite (replace_map nsw _ _ _ a Ea) by reflexivity.
      pose proof (replace_cnt (pnodes G) (nid c) (mkNode (nid a) (nsw a) (insert_ops (nops a) (nops c)) args') a i Ea) as Hr.
      assert (cnt (node_muxes (mkNode (nid a) (nsw a) (insert_ops (nops a) (nops c)) args')) i = cnt (node_muxes a) i + bump (pnsw G) n' i)%nat
        as Hn by (unfold node_muxes; cbn [nargs]; apply Hc).
      specialize (Hus i). unfold users in Hus. rewrite (one_below_bump _ _ i Hle). lia.
  - destruct (map_opt (equiv_owner G) (nargs c)) as [es|] eqn:Ee; [|discriminate].
    destruct (nops c) as [|k0 ks] eqn:Ek; [discriminate|]. inversion H; subst G1. clear H.
    constructor; cbn [pnodes pnsw pout].
    + intros n Hn. apply in_app_or in Hn as [Hn|[<-|[]]]; [apply Hops; exact Hn|cbn [nops]; discriminate].
    + rewrite map_app. cbn [map nid].
      apply nodup_snoc; [exact Hids|].
      intros Hin. apply in_map_iff in Hin as (n & Hn1 & Hn2). eapply find_node_none; eauto.
    + intros i. unfold users. cbn [pnodes pout]. rewrite map_app, flat_map_app, !cnt_app. cbn [map flat_map nsw].
      unfold node_muxes at 2. cbn [nargs]. rewrite (map_opt_equiv_no_mux _ _ _ Ee). cbn [app]. rewrite cnt_cons, !cnt_nil.
      specialize (Hus i). unfold users in Hus. rewrite one_below_S. lia.
Qed.

Lemma append_nodes_WF : forall cs G G1, WF G -> append_nodes cs G = Some G1 -> WF G1.
Proof.
  induction cs as [|c cs IH]; intros G G1 HG H.
  - unfold append_nodes in H. cbn [fold_left] in H. inversion H; subst. exact HG.
  - rewrite append_nodes_cons in H. destruct (append_node G c) as [G0|] eqn:E0; [|discriminate].
    eapply IH; [|exact H]. eapply append_node_WF; eauto.
Qed.

Theorem append_WF g' G G' : WF G -> append g' G = Some G' -> WF G'.
Proof.
  intros HG H. unfold append in H.
  destruct (append_nodes (pnodes g') G) as [G1|] eqn:E1; [|discriminate].
  destruct (uncollide_args G1 (pnsw G1) (pout g') (pout G1)) as [[o' n']|] eqn:Eu; [|discriminate].
  inversion H; subst G'. clear H.
  destruct (append_nodes_WF _ _ _ HG E1) as [Hops Hids Hus].
  destruct (uncollide_cnt _ _ _ _ _ _ Eu) as [Hle Hc].
  constructor; cbn [pnodes pnsw pout]; [exact Hops|exact Hids|].
  intros i. unfold users. cbn [pnodes pout]. rewrite Hc. specialize (Hus i). unfold users in Hus.
  rewrite (one_below_bump _ _ i Hle). lia.
Qed.

(* append_to_abstract_graph preserves pe_wf *)
Theorem append_pe_wf g' G G' : pe_wf G = true -> append g' G = Some G' -> pe_wf G' = true.
Proof. intros H Ha. apply WF_pe_wf. eapply append_WF; [apply pe_wf_WF; exact H|exact Ha]. Qed.

Lemma merge_pe_wf : forall rest G0 G,
  fold_left (fun acc g' => match acc with Some G => append g' G | None => None end) rest (Some G0) = Some G ->
  pe_wf G0 = true -> pe_wf G = true.
Proof.
  induction rest as [|g' rest IH]; intros G0 G H H0; cbn [fold_left] in H.
  - inversion H; subst. exact H0.
  - destruct (append g' G0) as [G1|] eqn:E1.
    + eapply IH; [exact H|]. eapply append_pe_wf; eauto.
    + exfalso. clear - H. induction rest as [|x r IHr]; cbn [fold_left] in H; [discriminate|auto].
Qed.
