(* C05 — the lowering of Model/C05Copy.v moves every element to its layout position.
   Concrete part: the remaining strides, the block and the unit strides partition the positions;
   digits of a logical index; instantiation of the abstract theorem of C05DigitProofs.v. *)
From Coq Require Import Permutation.
From Snax Require Import Base.Prelude Base.ListAux Model.Tsl Model.C05Copy
  Proofs.TslProofs Proofs.C05MemProofs Proofs.C05DigitProofs Proofs.C05LccbProofs.

(* ---- sort_desc is a permutation ------------------------------------------------------------ *)
Lemma insert_desc_perm x l : Permutation (x :: l) (insert_desc x l).
Proof.
  induction l as [|y l IH]; cbn [insert_desc]; [apply Permutation_refl|].
  destruct (sort_key x <? sort_key y); [|apply Permutation_refl].
  apply Permutation_trans with (y :: x :: l); [apply perm_swap|]. constructor. exact IH.
Qed.

Lemma sort_desc_perm l : Permutation l (sort_desc l).
Proof.
  induction l as [|x l IH]; [constructor|]. cbn [sort_desc fold_right].
  apply Permutation_trans with (x :: sort_desc l); [constructor; exact IH|apply insert_desc_perm].
Qed.

Lemma last_map {A B} (f : A -> B) (l : list A) d : last (map f l) (f d) = f (last l d).
Proof. induction l as [|x l IH]; [reflexivity|]. destruct l; [reflexivity|exact IH]. Qed.

Lemma last_In {A} (l : list A) d : l <> [] -> In (last l d) l.
Proof.
  induction l as [|x l IH]; intros H; [congruence|]. destruct l as [|y l]; [left; reflexivity|].
  right. apply IH. discriminate.
Qed.

(* ---- static pairs ---------------------------------------------------------------------------- *)
Definition tri_of (p : stride * stride) : tri :=
  match sval (fst p), sval (snd p) with
  | Some (ss, b), Some (ds, _) => (b, ss, ds)
  | _, _ => (0, 0, 0)
  end.
Definition pair_ok (p : stride * stride) : Prop := stride_ok (fst p) /\ stride_ok (snd p).

Lemma loop_of_ok el p : pair_ok p ->
  loop_of el p = Some (tb (tri_of p), tsrc (tri_of p) * el, tdst (tri_of p) * el).
Proof.
  intros [[a [b [E1 _]]] [c [d [E2 _]]]]. unfold loop_of, tri_of. rewrite E1, E2. reflexivity.
Qed.

Lemma map_opt_loop_of el l : Forall pair_ok l ->
  map_opt (loop_of el) l =
  Some (map (fun p => (tb (tri_of p), tsrc (tri_of p) * el, tdst (tri_of p) * el)) l).
Proof.
  induction 1 as [|p l Hp Hl IH]; [reflexivity|]. cbn [map_opt map]. rewrite (loop_of_ok el p Hp), IH. reflexivity.
Qed.

Lemma tb_tri_of_pos p : pair_ok p -> 0 < tb (tri_of p).
Proof.
  intros [[a [b [E1 Hb]]] [c [d [E2 _]]]]. unfold tri_of. rewrite E1, E2. exact Hb.
Qed.

(* ---- pairing of source and destination entries ------------------------------------------------ *)
Definition sp (q : entry * entry) : stride * stride := (snd (fst q), snd (snd q)).

Lemma remaining_combine dst lcb : forall es ed,
  map fst es = map fst ed ->
  (forall e, In e ed -> get_stride dst (fst (fst e)) (snd (fst e)) = Some (snd e)) ->
  remaining dst lcb es =
  Some (map sp (filter (fun q => negb (value_in (snd (fst q)) lcb)) (combine es ed))).
Proof.
  induction es as [|e es IH]; intros [|e' ed] Hk Hg; try discriminate; [reflexivity|].
  cbn [map] in Hk. inversion Hk as [[Hk1 Hk2]]. cbn [remaining combine filter fst snd].
  assert (IH' := IH ed Hk2 (fun x Hx => Hg x (or_intror Hx))).
  destruct (value_in (snd e) lcb); cbn [negb]; [exact IH'|].
  rewrite Hk1, (Hg e' (or_introl eq_refl)), IH'. reflexivity.
Qed.

Lemma in_combine_same_key (es ed : list entry) e : map fst es = map fst ed -> In e es ->
  exists e', In (e, e') (combine es ed) /\ fst e' = fst e.
Proof.
  revert ed. induction es as [|x es IH]; intros [|y ed] Hk Hin; try discriminate; [destruct Hin|].
  cbn [map] in Hk. inversion Hk as [[Hk1 Hk2]]. destruct Hin as [<-|Hin].
  - exists y. split; [left; reflexivity|symmetry; exact Hk1].
  - destruct (IH ed Hk2 Hin) as [e' [H1 H2]]. exists e'. split; [right; exact H1|exact H2].
Qed.

Lemma NoDup_combine_l {A B} (l1 : list A) (l2 : list B) : NoDup l1 -> NoDup (combine l1 l2).
Proof.
  revert l2. induction l1 as [|x l1 IH]; intros [|y l2] H; try constructor.
  - inversion H as [|x' l' Hx H']; subst. intros Hin. apply in_combine_l in Hin. contradiction.
  - inversion H; subst. apply IH. assumption.
Qed.

Lemma combine_functional {A B} (l1 : list A) (l2 : list B) x y y' :
  NoDup l1 -> In (x, y) (combine l1 l2) -> In (x, y') (combine l1 l2) -> y = y'.
Proof.
  revert l2. induction l1 as [|a l1 IH]; intros [|b l2] Hnd H1 H2; try (destruct H1; fail).
  inversion Hnd as [|a' l' Ha Hnd']; subst. cbn [combine] in H1, H2.
  destruct H1 as [H1|H1], H2 as [H2|H2].
  - congruence.
  - inversion H1; subst. apply in_combine_l in H2. contradiction.
  - inversion H2; subst. apply in_combine_l in H1. contradiction.
  - apply (IH l2 Hnd' H1 H2).
Qed.

Lemma map_sp_combine (es ed : list entry) :
  map sp (combine es ed) = combine (map snd es) (map snd ed).
Proof.
  revert ed. induction es as [|e es IH]; intros [|e' ed]; cbn [combine map]; try reflexivity.
  rewrite IH. reflexivity.
Qed.

(* ------------------------------------------------------------------------------------------------ *)
Section Partition.
  Variables (src dst : layout).
  Hypothesis Hsrc : layout_ok src.
  Hypothesis Hdst : layout_ok dst.
  Hypothesis Hetb : equal_tile_bounds src dst = true.
  Hypothesis Hsafe : safe_lccb src dst = true.

  Let lcb := lccb src dst 1.
  Let blk := lccb_pos src dst 1.
  Let Q := combine (entries src) (entries dst).
  Let fR := fun q : entry * entry => negb (value_in (snd (fst q)) lcb).
  Let fB := fun q : entry * entry => pos_in (fst q) blk.
  Let fU := fun q : entry * entry => negb (fR q) && negb (fB q).
  Definition EE : list tri := map (fun q => tri_of (sp q)) Q.
  Definition CC : list tri := map (fun e : entry => tri_of (snd e, snd e)) blk.
  Definition UU : list tri := map (fun q => tri_of (sp q)) (filter fU Q).
  Definition rem_list : list (stride * stride) := map sp (filter fR Q).
  Definition RR : list tri := map tri_of (sort_desc rem_list).

  Lemma keys_eq : map fst (entries src) = map fst (entries dst).
  Proof. apply equal_tile_bounds_keys, Hetb. Qed.

  Lemma remaining_eq : remaining dst lcb (entries src) = Some rem_list.
  Proof. apply remaining_combine; [apply keys_eq|apply get_stride_entries]. Qed.

  Lemma Q_pair_ok q : In q Q -> pair_ok (sp q).
  Proof.
    destruct q as [e e']. intros H. split; cbn [sp fst snd].
    - apply (proj1 (Forall_forall _ _) (entries_ok src Hsrc)). apply (in_combine_l _ _ _ _ H).
    - apply (proj1 (Forall_forall _ _) (entries_ok dst Hdst)). apply (in_combine_r _ _ _ _ H).
  Qed.

  Lemma pos_in_spec e : pos_in e blk = true <-> In e blk.
  Proof.
    unfold pos_in. rewrite existsb_exists. split.
    - intros [x [Hx E]]. apply entry_eqb_eq in E. subst. exact Hx.
    - intros H. exists e. split; [exact H|apply entry_eqb_eq; reflexivity].
  Qed.

  Lemma blk_value_in e : In e blk -> value_in (snd e) lcb = true.
  Proof.
    intros H. apply value_in_spec. unfold lcb. rewrite lccb_lccb_pos. fold blk.
    destruct blk as [|x r] eqn:Eb; [destruct H|]. rewrite <- Eb. apply in_map. rewrite Eb. exact H.
  Qed.

  Lemma blk_in_Q e : In e blk -> In (e, e) Q.
  Proof.
    intros H. destruct (lccb_pos_spec src dst Hsrc) as [_ [_ Hall]]. fold blk in Hall.
    apply (proj1 (Forall_forall _ _) Hall) in H as [Hin Hg].
    destruct (in_combine_same_key _ _ e keys_eq Hin) as [e' [HQ Hk]].
    assert (Hg' := get_stride_entries dst e' (in_combine_r _ _ _ _ HQ)).
    rewrite Hk, Hg in Hg'. inversion Hg' as [Hs].
    assert (e' = e) by (destruct e as [ke se], e' as [ke' se']; cbn [fst snd] in *; subst; reflexivity).
    subst e'. exact HQ.
  Qed.

  Lemma NoDup_Q : NoDup Q.
  Proof. apply NoDup_combine_l, NoDup_entries. Qed.

  Lemma perm_block : Permutation (filter fB Q) (map (fun e : entry => (e, e)) blk).
  Proof.
    destruct (lccb_pos_spec src dst Hsrc) as [_ [Hnd _]]. fold blk in Hnd.
    apply NoDup_Permutation.
    - apply NoDup_filter, NoDup_Q.
    - apply FinFun.Injective_map_NoDup; [|exact Hnd]. intros a b E. inversion E. reflexivity.
    - intros [e e']. rewrite filter_In, in_map_iff. unfold fB. cbn [fst]. rewrite pos_in_spec. split.
      + intros [HQ Hb]. exists e. split; [|exact Hb]. f_equal.
        apply (combine_functional _ _ e e e' (NoDup_entries src) (blk_in_Q e Hb) HQ).
      + intros [x [E Hx]]. inversion E; subst. split; [apply blk_in_Q; exact Hx|exact Hx].
  Qed.

  Lemma perm_Q : Permutation Q (filter fR Q ++ filter fB Q ++ filter fU Q).
  Proof.
    apply Permutation_trans with (filter fR Q ++ filter (fun q => negb (fR q)) Q);
      [apply filter_partition_perm|]. apply Permutation_app_head.
    apply Permutation_trans with
      (filter fB (filter (fun q => negb (fR q)) Q) ++ filter (fun q => negb (fB q)) (filter (fun q => negb (fR q)) Q));
      [apply filter_partition_perm|].
    rewrite !filter_filter. fold fU. apply Permutation_app_tail.
    erewrite filter_ext_in; [apply Permutation_refl|]. intros q Hq. cbn beta.
    destruct (fB q) eqn:Eb; [|apply andb_false_r]. unfold fR, fB in *. apply pos_in_spec in Eb.
    rewrite (blk_value_in _ Eb). reflexivity.
  Qed.

  Theorem partition_perm : Permutation EE (RR ++ CC ++ UU).
  Proof.
    unfold EE, RR, CC, UU, rem_list.
    apply Permutation_trans with (map (fun q => tri_of (sp q)) (filter fR Q ++ filter fB Q ++ filter fU Q));
      [apply Permutation_map, perm_Q|].
    rewrite !map_app. apply Permutation_app; [|apply Permutation_app_tail].
    - rewrite <- (map_map sp tri_of). apply Permutation_map, sort_desc_perm.
    - apply Permutation_trans with (map (fun q => tri_of (sp q)) (map (fun e : entry => (e, e)) blk));
        [apply Permutation_map, perm_block|]. rewrite map_map. apply Permutation_refl.
  Qed.

  Lemma chainE_chain l : forall c, chainE c l -> Forall (fun e => stride_ok (snd e)) l ->
    chain c (map (fun e : entry => tri_of (snd e, snd e)) l).
  Proof.
    induction l as [|e l IH]; intros c Hc Hok; [exact I|]. destruct Hc as [b [Ee Hc]].
    inversion Hok as [|e' l' He Hl]; subst. cbn [map chain]. unfold tri_of at 1 2 3. cbn [fst snd].
    rewrite Ee. cbn [sval tsrc tdst tb fst snd].
    destruct He as [a [b' [E' Hb']]]. rewrite Ee in E'. inversion E'; subst.
    repeat split; try reflexivity; [exact Hb'|]. apply IH; [exact Hc|exact Hl].
  Qed.

  Theorem CC_chain : chain 1 CC.
  Proof.
    destruct (lccb_pos_spec src dst Hsrc) as [Hc [_ Hall]]. fold blk in Hc, Hall.
    apply chainE_chain; [exact Hc|]. apply Forall_forall. intros e He.
    apply (proj1 (Forall_forall _ _) Hall) in He as [Hin _].
    apply (proj1 (Forall_forall _ _) (entries_ok src Hsrc) e Hin).
  Qed.

  Theorem UU_unit : Forall (fun e => tb e = 1) UU.
  Proof.
    unfold UU. apply Forall_forall. intros t Ht. apply in_map_iff in Ht as [[e e'] [<- Hq]].
    apply filter_In in Hq as [HQ Hf]. unfold fU, fR, fB in Hf. rewrite negb_involutive in Hf.
    apply andb_true_iff in Hf as [Hv Hp].
    unfold safe_lccb in Hsafe. rewrite forallb_forall in Hsafe.
    cbn [fst] in Hv, Hp.
    pose proof (Hsafe e (in_combine_l _ _ _ _ HQ)) as Hs.
    fold lcb blk in Hs. rewrite Hv in Hs. cbn [negb orb] in Hs.
    destruct (pos_in e blk); [discriminate|]. cbn [orb] in Hs. apply optZ_eqb_eq in Hs.
    destruct (Q_pair_ok (e, e') HQ) as [[a [b [E1 _]]] [c [d [E2 _]]]]. cbn [sp fst snd] in E1, E2.
    unfold tri_of, sp. cbn [fst snd]. rewrite E1, E2. cbn [sval tb fst].
    rewrite E1 in Hs. cbn [sbound snd] in Hs. inversion Hs. reflexivity.
  Qed.

  Lemma EE_pos : Forall (fun e => 0 < tb e) EE.
  Proof.
    unfold EE. apply Forall_forall. intros t Ht. apply in_map_iff in Ht as [q [<- Hq]].
    apply tb_tri_of_pos, Q_pair_ok, Hq.
  Qed.

  Lemma rem_pair_ok : Forall pair_ok (sort_desc rem_list).
  Proof.
    apply Forall_forall. intros p Hp.
    apply (Permutation_in _ (Permutation_sym (sort_desc_perm rem_list))) in Hp.
    unfold rem_list in Hp. apply in_map_iff in Hp as [q [<- Hq]]. apply filter_In in Hq as [HQ _].
    apply Q_pair_ok, HQ.
  Qed.

  (* the size of the contiguous block, as the code computes it from lcb[-1] *)
  Lemma chain_last C : forall c d, chain c C -> C <> [] ->
    tsrc (last C d) * tb (last C d) = c * bprod C.
  Proof.
    induction C as [|e C IH]; intros c d Hc Hne; [congruence|]. destruct Hc as [Es [_ [Hb Hc]]].
    destruct C as [|e' C'].
    - cbn [last]. unfold bprod. cbn. rewrite Es. ring.
    - change (last (e :: e' :: C') d) with (last (e' :: C') d). rewrite (IH _ d Hc) by discriminate.
      rewrite (bprod_cons e). ring.
  Qed.

  Lemma block_size_gen (l : list entry) :
    chain 1 (map (fun e0 : entry => tri_of (snd e0, snd e0)) l) ->
    Forall (fun e => stride_ok (snd e)) l ->
    exists ls lb,
      sval (last (match l with [] => [(Some 1, Some 1)] | _ => map snd l end) (None, None)) = Some (ls, lb) /\
      lb * ls = bprod (map (fun e0 : entry => tri_of (snd e0, snd e0)) l).
  Proof.
    intros Hc Hok. destruct l as [|e r] eqn:El.
    - exists 1, 1. split; reflexivity.
    - rewrite <- El in *. assert (Hne : l <> []) by (rewrite El; discriminate).
      replace (match l with [] => [(Some 1, Some 1)] | _ :: _ => map snd l end) with (map snd l)
        by (rewrite El; reflexivity).
      pose (d0 := (0%nat, 0%nat, ((None, None) : stride)) : entry).
      pose proof (last_In l d0 Hne) as Hl.
      pose proof (proj1 (Forall_forall _ _) Hok _ Hl) as [a [b [Es Hb]]].
      exists a, b. split.
      { etransitivity; [|exact (f_equal sval Es)]. f_equal. apply (last_map snd l d0). }
      assert (Hne' : map (fun e0 : entry => tri_of (snd e0, snd e0)) l <> [])
        by (intros E0; apply map_eq_nil in E0; contradiction).
      assert (HL : forall t, t = last (map (fun e0 : entry => tri_of (snd e0, snd e0)) l)
                                      ((fun e0 : entry => tri_of (snd e0, snd e0)) d0) ->
                   tsrc t * tb t = 1 * bprod (map (fun e0 : entry => tri_of (snd e0, snd e0)) l))
        by (intros t ->; apply chain_last; assumption).
      specialize (HL _ (eq_sym (last_map (fun e0 : entry => tri_of (snd e0, snd e0)) l d0))).
      cbv beta in HL. set (BP := bprod (map (fun e0 : entry => tri_of (snd e0, snd e0)) l)) in *.
      unfold tri_of in HL. cbn [fst snd] in HL. rewrite Es in HL. cbn [sval tsrc tb fst snd] in HL. lia.
  Qed.

  Theorem block_size : exists ls lb, sval (last lcb (None, None)) = Some (ls, lb) /\ lb * ls = bprod CC.
  Proof.
    unfold lcb. rewrite lccb_lccb_pos. apply block_size_gen; [apply CC_chain|].
    destruct (lccb_pos_spec src dst Hsrc) as [_ [_ Hall]].
    apply Forall_forall. intros e He. apply (proj1 (Forall_forall _ _) Hall) in He as [Hin _].
    apply (proj1 (Forall_forall _ _) (entries_ok src Hsrc) e Hin).
  Qed.
End Partition.
