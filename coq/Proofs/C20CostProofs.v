(* C20 — the cost of the backtracking search_mapping: it validates complete assignments only, so it explores
   up to 2^(number of muxes) of them, and exactly that many when no valid assignment exists. *)
From Snax Require Import Base.Prelude Model.C20Phs Model.C20Order.

Lemma search_cost_upper g G ms : forall mu, (search_cost g G ms mu <= 2 ^ length ms)%nat.
Proof.
  induction ms as [|m ms IH]; intros mu; cbn [search_cost length]; [cbn; lia|].
  rewrite Nat.pow_succ_r'.
  pose proof (IH (upd mu m 0)). pose proof (IH (upd mu m 1)).
  destruct (search g G ms (upd mu m 0)) as [[r|]|]; lia.
Qed.

Lemma search_cost_pos g G ms : forall mu, (1 <= search_cost g G ms mu)%nat.
Proof.
  induction ms as [|m ms IH]; intros mu; cbn [search_cost]; [lia|].
  pose proof (IH (upd mu m 0)). destruct (search g G ms (upd mu m 0)) as [[r|]|]; lia.
Qed.

(* a kernel without a valid assignment costs the full 2^m: the hazard seen with mutation seed C20-m1 *)
Lemma search_cost_unsat g G ms : forall mu,
  search g G ms mu = Some None -> search_cost g G ms mu = (2 ^ length ms)%nat.
Proof.
  induction ms as [|m ms IH]; intros mu H; cbn [search search_cost length] in *; [reflexivity|].
  rewrite Nat.pow_succ_r'.
  destruct (search g G ms (upd mu m 0)) as [[r|]|] eqn:E0; try discriminate.
  rewrite (IH _ E0), (IH _ H). lia.
Qed.

(* the bound is reached although a valid assignment exists: a choose op with six operands, each behind one mux,
   the kernel needing the rhs of every one — the valid assignment is the last of the 2^6 leaves *)
Definition cost_sig : sig := ([32; 32; 32; 32; 32; 32], [32]).
Definition cost_G : pe :=
  mkPe 2 7 [mkNode (cost_sig, 0%nat) 0 [mkOp 1 0]
              (map (fun i => SMux i (SArg 0) (SArg 1)) [1%nat; 2%nat; 3%nat; 4%nat; 5%nat; 6%nat])]
       [SChoose (cost_sig, 0%nat)].
Definition cost_g : pe :=
  mkPe 2 1 [mkNode (cost_sig, 0%nat) 0 [mkOp 1 0] (map (fun _ : nat => SArg 1) [1%nat; 2%nat; 3%nat; 4%nat; 5%nat; 6%nat])]
       [SChoose (cost_sig, 0%nat)].

Lemma search_cost_worst_decodable :
  pe_wf cost_G = true /\ decode cost_G cost_g = Some [1; 1; 1; 1; 1; 1] /\
  search_cost cost_g cost_G (all_muxes cost_G) (fun _ => 0) = (2 ^ length (all_muxes cost_G))%nat.
Proof. repeat (split; [vm_compute; reflexivity|]). vm_compute. reflexivity. Qed.
