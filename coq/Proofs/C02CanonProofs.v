(* C02 — StridePattern.canonicalize keeps the word stream (closes the pipeline for accelerators that do
   not customise the patterns: final pattern = canonicalize (raw conversion result)). *)
From Snax Require Import Base.Prelude Base.ListAux Model.C02Stream Proofs.C02StreamProofs.

Lemma nest_app_congr pre : forall X Y, nest X = nest Y -> nest (pre ++ X) = nest (pre ++ Y).
Proof. induction pre as [|d pre IH]; intros X Y H; [exact H|]. cbn [app]. apply nest_cons_congr. apply IH. exact H. Qed.

Lemma flat_map_nil {A B} (l : list A) : flat_map (fun _ : A => @nil B) l = [].
Proof. induction l; simpl; auto. Qed.

Lemma nest_bound0 s R : nest ((s, 0) :: R) = [].
Proof. cbn [nest]. rewrite zrange_0. simpl. apply flat_map_nil. Qed.

Lemma nest_bound1 s R : nest ((s, 1) :: R) = nest R.
Proof.
  cbn [nest]. rewrite zrange_1. cbn [map]. rewrite <- (flat_map_singleton (nest R)) at 2.
  apply flat_map_ext_in. intros o _. f_equal. lia.
Qed.
