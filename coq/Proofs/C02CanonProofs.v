(* C02 — StridePattern.canonicalize keeps the word stream (closes the pipeline for accelerators that do
   not customise the patterns: final pattern = canonicalize (raw conversion result)). *)
From Snax Require Import Base.Prelude Base.ListAux Model.C02Stream Proofs.C02StreamProofs.

Lemma nest_app_congr pre : forall X Y, nest X = nest Y -> nest (pre ++ X) = nest (pre ++ Y).
Proof. induction pre as [|d pre IH]; intros X Y H; [exact H|]. cbn [app]. apply nest_cons_congr. apply IH. exact H. Qed.

Lemma flat_map_nil {A B} (l : list A) : flat_map (fun _ : A => @nil B) l = [].
Proof. induction l; simpl; auto. Qed.

Lemma nest_bound0 s R : nest ((s, 0) :: R) = [].
Proof. cbn [nest]. rewrite zrange_0. simpl. apply flat_map_nil. Qed.

Lemma nest_bound1 s R : nest ((s, 1) :: R) = nest R.
Proof.
  cbn [nest]. rewrite zrange_1. cbn [map]. rewrite <- (flat_map_singleton (nest R)) at 2.
  apply flat_map_ext_in. intros o _. f_equal. lia.
Qed.

Definition sw (ut : Z * Z) : dim := (snd ut, fst ut).
Definition D (acc : list Z * list Z) : list dim := combine (snd acc) (fst acc).
Definition inv (acc : list Z * list Z) : Prop :=
  List.length (fst acc) = List.length (snd acc) /\ Forall (fun b => 0 <= b) (fst acc).

Lemma combine_app_eq {A B} (a1 a2 : list A) (b1 b2 : list B) :
  List.length a1 = List.length b1 -> combine (a1 ++ a2) (b1 ++ b2) = combine a1 b1 ++ combine a2 b2.
Proof.
  revert b1; induction a1 as [|x a1 IH]; intros [|y b1] H; simpl in H; try discriminate; [reflexivity|].
  simpl. f_equal. apply IH. lia.
Qed.

Lemma rev_cons_inv {A} (l : list A) x r : rev l = x :: r -> l = rev r ++ [x].
Proof. intros H. rewrite <- (rev_involutive l), H. reflexivity. Qed.

Lemma canon_step_ok acc u t R :
  inv acc -> 0 <= u ->
  inv (canon_step acc (u, t)) /\
  nest (D acc ++ (t, u) :: R) = nest (D (canon_step acc (u, t)) ++ R).
Proof.
  destruct acc as [nub nts]. intros [Hl Hp] Hu. unfold canon_step, D, inv in *. cbn [fst snd] in *.
  destruct (u =? 0) eqn:E0.
  - apply Z.eqb_eq in E0. subst u. cbn [fst snd]. split.
    + split; [rewrite !app_length; simpl; lia|]. apply Forall_app; split; [exact Hp|repeat constructor; lia].
    + rewrite combine_app_eq by lia. rewrite <- app_assoc. apply nest_app_congr. cbn [combine app].
      rewrite !nest_bound0. reflexivity.
  - destruct (u =? 1) eqn:E1.
    + apply Z.eqb_eq in E1. subst u. cbn [fst snd]. split; [split; assumption|].
      apply nest_app_congr. apply nest_bound1.
    + assert (Happ : inv (nub ++ [u], nts ++ [t]) /\
                     nest (combine nts nub ++ (t, u) :: R) = nest (combine (nts ++ [t]) (nub ++ [u]) ++ R)).
      { unfold inv. cbn [fst snd]. split.
        - split; [rewrite !app_length; simpl; lia|]. apply Forall_app; split; [exact Hp|repeat constructor; lia].
        - rewrite combine_app_eq by lia. rewrite <- app_assoc. reflexivity. }
      destruct (rev nub) as [|lu ru] eqn:Eu; [exact Happ|].
      destruct (rev nts) as [|lt rt] eqn:Et; [exact Happ|].
      destruct (lu * lt =? t) eqn:Em; [|exact Happ].
      apply Z.eqb_eq in Em. apply rev_cons_inv in Eu, Et. subst nub nts t.
      rewrite !app_length in Hl. simpl in Hl.
      apply Forall_app in Hp as [Hp1 Hp2]. inversion Hp2 as [|? ? Hlu _]; subst.
      cbn [fst snd]. split.
      * split; [rewrite !app_length; simpl; lia|]. apply Forall_app; split; [exact Hp1|repeat constructor; nia].
      * rewrite !combine_app_eq by lia. rewrite <- !app_assoc. apply nest_app_congr. cbn [combine app].
        replace (lu * lt) with (lt * lu) by lia. rewrite nest_merge by lia.
        replace (u * lu) with (lu * u) by lia. reflexivity.
Qed.

Lemma fold_canon_ok : forall l acc R,
  inv acc -> Forall (fun ut => 0 <= fst ut) l ->
  inv (fold_left canon_step l acc) /\
  nest (D acc ++ map sw l ++ R) = nest (D (fold_left canon_step l acc) ++ R).
Proof.
  induction l as [|[u t] l IH]; intros acc R Hi Hl.
  - simpl. auto.
  - inversion Hl as [|? ? Hu Hl']; subst. cbn [fst] in Hu.
    destruct (canon_step_ok acc u t (map sw l ++ R) Hi Hu) as [Hi' Hn].
    destruct (IH _ R Hi' Hl') as [Hi'' Hn'].
    cbn [fold_left map app]. split; [exact Hi''|]. exact (eq_trans Hn Hn').
Qed.

Lemma map_sw_combine : forall ub ts, map sw (combine ub ts) = combine ts ub.
Proof. induction ub as [|u ub IH]; intros [|t ts]; simpl; try reflexivity. f_equal. apply IH. Qed.

Theorem canonicalize_words :
  forall p spats, Forall (fun b => 0 <= b) (sp_ub p) ->
  pattern_words (sp_canonicalize p) spats = pattern_words p spats.
Proof.
  intros p spats Hb. unfold sp_canonicalize. destruct (existsb _ (sp_ss p)); [reflexivity|].
  destruct (fold_left canon_step (combine (sp_ub p) (sp_ts p)) ([], [])) as [u t] eqn:Ef.
  unfold pattern_words, pattern_dims. cbn [sp_ss sp_ts sp_ub]. apply nest_app_congr.
  assert (Hl : Forall (fun ut : Z * Z => 0 <= fst ut) (combine (sp_ub p) (sp_ts p))).
  { rewrite Forall_forall in *. intros [a b] Hin. apply in_combine_l in Hin. cbn [fst]. apply Hb. exact Hin. }
  destruct (fold_canon_ok _ ([], []) [] (conj eq_refl (Forall_nil _)) Hl) as [_ Hn].
  rewrite Ef in Hn. unfold D in Hn. cbn [fst snd combine app] in Hn. rewrite !app_nil_r in Hn.
  rewrite map_sw_combine in Hn. symmetry. exact Hn.
Qed.
