(* C16: soundness of the certificate-checking row-space comparison and of the template matcher. *)
From Snax Require Import Base.Prelude Base.ListAux Model.C03Schedule Model.C16Matcher Model.C16Fits.

(* a is a rational combination of the rows of B, in integer cross-multiplied form:
   d * a = m . B with d <> 0 *)
Definition span_cert (B : list vec) (a : vec) : Prop :=
  exists (d : Z) (m : vec), d <> 0 /\ vscale d a = vecmat (length a) m B.

Lemma list_eqb_Z_eq l1 l2 : list_eqb Z.eqb l1 l2 = true -> l1 = l2.
Proof. apply list_eqb_eq. intros; apply Z.eqb_eq. Qed.

Lemma row_in_span_sound B a : row_in_span B a = true -> span_cert B a.
Proof.
  unfold row_in_span. destruct (find_coeffs B a) as [[d m]|]; [|discriminate].
  unfold cert_ok. intros H. apply andb_true_iff in H as [Hd He].
  exists d, m. split; [lia | apply list_eqb_Z_eq; exact He].
Qed.

(* D.A = M.B and E.B = N.A for nonzero diagonal D, E: the two matrices have the same row space over Q *)
Theorem rowspace_eqb_sound A B : rowspace_eqb A B = true ->
  Forall (span_cert B) A /\ Forall (span_cert A) B.
Proof.
  unfold rowspace_eqb. intros H. apply andb_true_iff in H as [H1 H2]. rewrite forallb_forall in H1, H2.
  split; apply Forall_forall; intros r Hr; apply row_in_span_sound; auto.
Qed.

(* ---- reading of vecmat: coordinate j of m . B is sum_k m_k * B_k[j] ------------------ *)
Fixpoint lincomb (j : nat) (m : vec) (B : list vec) : Z :=
  match m, B with
  | mk :: m', bk :: B' => mk * nth j bk 0 + lincomb j m' B'
  | _, _ => 0
  end.

Lemma vadd_length a b : length a = length b -> length (vadd a b) = length a.
Proof. revert b; induction a as [|x a IH]; intros [|y b] H; try discriminate; cbn; [reflexivity|]. f_equal. apply IH. injection H; auto. Qed.

Lemma vadd_nth j a b : length a = length b -> nth j (vadd a b) 0 = nth j a 0 + nth j b 0.
Proof.
  revert j b; induction a as [|x a IH]; intros j [|y b] H; try discriminate; cbn [vadd].
  - destruct j; reflexivity.
  - destruct j as [|j]; cbn [nth]; [reflexivity|]. apply IH. injection H; auto.
Qed.

Lemma vscale_length k v : length (vscale k v) = length v.
Proof. apply map_length. Qed.

Lemma vscale_nth j k v : nth j (vscale k v) 0 = k * nth j v 0.
Proof. unfold vscale. replace 0 with (k * 0) at 1 by lia. apply map_nth. Qed.

Lemma vecmat_length n m B : Forall (fun r => length r = n) B -> length (vecmat n m B) = n.
Proof.
  intros HB. revert m; induction HB as [|bk B Hk _ IH]; intros [|mk m]; cbn [vecmat]; try apply repeat_length.
  rewrite vadd_length; rewrite vscale_length; [exact Hk|]. rewrite IH. exact Hk.
Qed.

Lemma nth_repeat_0 j n : nth j (repeat 0 n) 0 = 0.
Proof. revert j; induction n; intros [|j]; cbn; auto. Qed.

Lemma vecmat_nth n m B j : Forall (fun r => length r = n) B -> nth j (vecmat n m B) 0 = lincomb j m B.
Proof.
  intros HB. revert m; induction HB as [|bk B Hk HB IH]; intros [|mk m]; cbn [vecmat lincomb]; try apply nth_repeat_0.
  rewrite vadd_nth by (rewrite vscale_length, vecmat_length; auto). rewrite vscale_nth, IH. reflexivity.
Qed.

(* readable form of the certificate *)
Theorem span_cert_coordinates B a : Forall (fun r => length r = length a) B -> span_cert B a ->
  exists d m, d <> 0 /\ forall j, d * nth j a 0 = lincomb j m B.
Proof.
  intros HB (d & m & Hd & He). exists d, m. split; [exact Hd|]. intros j.
  rewrite <- vscale_nth, He. apply vecmat_nth. exact HB.
Qed.

(* ---- the matcher -------------------------------------------------------------------- *)
Lemma all2_Forall2 {A B} (f : A -> B -> bool) la lb : all2 f la lb = true -> Forall2 (fun a b => f a b = true) la lb.
Proof.
  revert lb; induction la as [|a la IH]; intros [|b lb] H; try discriminate; constructor.
  - cbn in H. apply andb_true_iff in H as [H _]. exact H.
  - apply IH. cbn in H. apply andb_true_iff in H as [_ H]. exact H.
Qed.

(* rows of the template operand that are compared (the trailing rows when the schedule operand has fewer results) *)
Definition t_rows (tp : tpat) (sp : spat) : list vec :=
  skipn (length (pb tp) - length (pb sp)) (rows_of (length (pb tp)) (pcols tp)).
(* rows of the schedule operand restricted to the innermost template-many dims *)
Definition s_rows (tp : tpat) (sp : spat) : list vec :=
  rows_of (length (pb sp)) (if Nat.ltb (pndims tp) (pndims sp) then lastn (pndims tp) (pcols sp) else pcols sp).

Theorem p_matches_sound tp sp : p_matches tp sp = true ->
  (pndims tp <= pndims sp)%nat /\
  Forall (span_cert (s_rows tp sp)) (t_rows tp sp) /\ Forall (span_cert (t_rows tp sp)) (s_rows tp sp).
Proof.
  unfold p_matches. destruct (Nat.ltb (pndims sp) (pndims tp)) eqn:E1; [discriminate|].
  destruct (Nat.eqb (pndims tp) 0 && Nat.ltb 0 (pndims sp)); [discriminate|].
  intros H. apply Nat.ltb_ge in E1. split; [exact E1|]. apply rowspace_eqb_sound. exact H.
Qed.

(* Template.matches: same number of operands and every operand matches *)
Theorem matches_sound T s : matches T s = true ->
  Forall2 (fun tp sp => (pndims tp <= pndims sp)%nat /\
                        Forall (span_cert (s_rows tp sp)) (t_rows tp sp) /\
                        Forall (span_cert (t_rows tp sp)) (s_rows tp sp)) T s.
Proof.
  intros H. apply all2_Forall2 in H. induction H as [|tp sp T s Hp _ IH]; constructor; [|exact IH].
  apply p_matches_sound. exact Hp.
Qed.

(* partial completeness: a row that is literally one of the rows of B, or the zero row, is always accepted
   would need the echelon invariant of build_basis; NOT proved.  What is proved: the certificate that
   the elimination produces is never rejected for the trivial space. *)
Lemma row_in_span_nil_zero a : vzerob a = true -> row_in_span [] a = true.
Proof.
  intros Hz. unfold row_in_span, find_coeffs. cbn [length build_basis reduce repeat]. rewrite Hz.
  unfold cert_ok. cbn [negb Z.eqb andb vecmat]. unfold vscale.
  assert (H : map (Z.mul 1) a = repeat 0 (length a)).
  { unfold vzerob in Hz. induction a as [|x a IH]; [reflexivity|]. cbn in Hz. apply andb_true_iff in Hz as [Hx Ha].
    cbn [map repeat length]. rewrite IH by exact Ha. f_equal. lia. }
  rewrite H. apply list_eqb_eq; [intros; apply Z.eqb_eq|reflexivity].
Qed.
