(* C15 — the unrolled, double-buffered schedule computes the memory of the sequential loop, for
   every interleaving of the cores the barriers permit; for all S and n. *)
From Coq Require Import Permutation.
From Snax Require Import Base.Prelude Base.ListAux Model.MultiCore Model.C15Pipeline
  Proofs.MultiCoreCommute Proofs.C15PipelineProofs.

(* footprint hypotheses (on the op instances with the parity-selected copies):
   overtake_safe: an earlier stage k' of a later iteration t' that runs before or together with
     a later stage k of an earlier iteration t (t < t' <= t + (k-k')) does not conflict with it;
   stage_safe: ops of one stage instance on different cores do not conflict. *)
Definition overtake_safe (p : pipe) (ds : list Z) (n : nat) : Prop :=
  forall k k' t t' a b, (k' < k)%nat -> 0 <= t -> t < t' <= t + Z.of_nat (k - k') -> t' < Z.of_nat n ->
    In a (pair_ops p ds (k, t)) -> In b (pair_ops p ds (k', t')) -> conflictb a b = false.
Definition stage_safe (p : pipe) (ds : list Z) (n : nat) : Prop :=
  forall k t a b, 0 <= t < Z.of_nat n -> In a (pair_ops p ds (k, t)) -> In b (pair_ops p ds (k, t)) ->
    o_core a <> o_core b -> conflictb a b = false.
Definition vids_unique (p : pipe) : Prop := NoDup (map s_vid (concat (p_stages p))).

(* ---- op instances know their stage and iteration ------------------------------------------------ *)
Lemma in_pair_ops p ds k t a :
  In a (pair_ops p ds (k, t)) <-> exists o, In o (nth k (p_stages p) []) /\ a = inst ds t o.
Proof.
  unfold pair_ops. simpl. rewrite in_map_iff. split; intros [o [H1 H2]]; exists o; split; auto.
Qed.

Lemma NoDup_app_disj {A} (l1 l2 : list A) x : NoDup (l1 ++ l2) -> In x l1 -> In x l2 -> False.
Proof.
  induction l1 as [|y r IH]; intros Hn H1 H2; [destruct H1|].
  simpl in Hn. inversion Hn; subst. destruct H1 as [->|H1].
  - apply H3. apply in_or_app. right. exact H2.
  - apply IH; assumption.
Qed.

Lemma NoDup_app_l {A} (l1 l2 : list A) : NoDup (l1 ++ l2) -> NoDup l1.
Proof.
  induction l1 as [|y r IH]; intros Hn; [constructor|]. simpl in Hn. inversion Hn; subst. constructor.
  - intros H. apply H1. apply in_or_app. left. exact H.
  - apply IH. exact H2.
Qed.

Lemma NoDup_app_r {A} (l1 l2 : list A) : NoDup (l1 ++ l2) -> NoDup l2.
Proof. induction l1 as [|y r IH]; intros Hn; [exact Hn|]. simpl in Hn. inversion Hn; subst. apply IH. exact H2. Qed.

Lemma stage_of_vid_unique : forall (stages : list stage) k k' o o',
  NoDup (map s_vid (concat stages)) ->
  In o (nth k stages []) -> In o' (nth k' stages []) -> s_vid o = s_vid o' -> k = k'.
Proof.
  induction stages as [|st r IH]; intros k k' o o' Hn Ho Ho' E.
  - destruct k; destruct Ho.
  - simpl in Hn. rewrite map_app in Hn.
    assert (Hin : forall j x, In x (nth j r []) -> In (s_vid x) (map s_vid (concat r))).
    { intros j x Hx. apply in_map. apply in_concat. exists (nth j r []). split; [|exact Hx].
      destruct (lt_dec j (length r)) as [Hj|Hj]; [apply nth_In; exact Hj|].
      rewrite nth_overflow in Hx by lia. destruct Hx. }
    destruct k as [|k], k' as [|k']; simpl in Ho, Ho'.
    + reflexivity.
    + exfalso. apply (NoDup_app_disj _ _ (s_vid o) Hn); [apply in_map; exact Ho | rewrite E; apply (Hin k'); exact Ho'].
    + exfalso. apply (NoDup_app_disj _ _ (s_vid o') Hn); [apply in_map; exact Ho' | rewrite <- E; apply (Hin k); exact Ho].
    + f_equal. apply (IH k k' o o'); [apply NoDup_app_r in Hn; exact Hn | assumption..].
Qed.

Lemma NoDup_vids_stage : forall (stages : list stage) k,
  NoDup (map s_vid (concat stages)) -> NoDup (map s_vid (nth k stages [])).
Proof.
  induction stages as [|st r IH]; intros k Hn.
  - destruct k; constructor.
  - simpl in Hn. rewrite map_app in Hn. destruct k as [|k]; simpl.
    + apply NoDup_app_l in Hn. exact Hn.
    + apply IH. apply NoDup_app_r in Hn. exact Hn.
Qed.

Lemma inst_name ds t o : o_name (inst ds t o) = [s_vid o; t].
Proof. reflexivity. Qed.

Lemma pair_ops_key p ds k t k' t' a : vids_unique p ->
  In a (pair_ops p ds (k, t)) -> In a (pair_ops p ds (k', t')) -> k = k' /\ t = t'.
Proof.
  intros Hu H1 H2. apply in_pair_ops in H1 as [o [Ho ->]]. apply in_pair_ops in H2 as [o' [Ho' E]].
  assert (En : o_name (inst ds t o) = o_name (inst ds t' o')) by (rewrite E; reflexivity).
  rewrite !inst_name in En. inversion En; subst. split; [|reflexivity].
  eapply stage_of_vid_unique; eassumption.
Qed.

Lemma NoDup_map_vid_inj (l : list sop) x y : NoDup (map s_vid l) -> In x l -> In y l -> s_vid x = s_vid y -> x = y.
Proof.
  induction l as [|z r IH]; intros Hn Hx Hy E; [destruct Hx|].
  simpl in Hn. inversion Hn; subst. destruct Hx as [->|Hx], Hy as [->|Hy].
  - reflexivity.
  - exfalso. apply H1. rewrite E. apply in_map. exact Hy.
  - exfalso. apply H1. rewrite <- E. apply in_map. exact Hx.
  - apply IH; assumption.
Qed.

Lemma NoDup_pair_ops p ds k t : vids_unique p -> NoDup (pair_ops p ds (k, t)).
Proof.
  intros Hu. unfold pair_ops. simpl. apply NoDup_map_inj.
  - intros x y Hx Hy E.
    assert (En : o_name (inst ds t x) = o_name (inst ds t y)) by (rewrite E; reflexivity).
    rewrite !inst_name in En. inversion En.
    eapply NoDup_map_vid_inj; [apply NoDup_vids_stage; exact Hu | eassumption..].
  - pose proof (NoDup_vids_stage (p_stages p) k Hu) as Hn. apply NoDup_map_inv in Hn. exact Hn.
Qed.

(* ---- the two op sequences in explicit form ------------------------------------------------------- *)
Lemma concat_phase_ops p ds phs : concat (map (phase_ops p ds) phs) = flat_map (pair_ops p ds) (concat phs).
Proof.
  induction phs as [|ph r IH]; simpl; [reflexivity|]. rewrite IH. unfold phase_ops. rewrite flat_map_app. reflexivity.
Qed.

Lemma concat_seq_phases S lb ub st : concat (seq_phases S lb ub st) = concat (seq_pairs S lb ub st).
Proof.
  unfold seq_phases, seq_pairs. generalize (loop_indices lb ub st). intros l.
  induction l as [|i r IH]; [reflexivity|].
  cbn [flat_map map concat]. rewrite concat_app. f_equal; [|exact IH].
  clear. induction (seq 0 S) as [|k ks' IHk]; [reflexivity|]. cbn [map concat]. rewrite IHk. reflexivity.
Qed.

Definition Pl (p : pipe) (ds : list Z) (S n : nat) : list mop :=
  flat_map (fun t => flat_map (fun k => pair_ops p ds (k, Z.of_nat t)) (seq 0 S)) (seq 0 n).
Definition Ql (p : pipe) (ds : list Z) (S n : nat) : list mop :=
  flat_map (fun a => flat_map (fun k => pair_ops p ds (k, Z.of_nat a - Z.of_nat k)) (ks S n a)) (seq 0 (n + S - 1)).

Lemma flat_map_flat_map' {A B C} (f : B -> list C) (g : A -> list B) l :
  flat_map f (flat_map g l) = flat_map (fun x => flat_map f (g x)) l.
Proof. induction l as [|x r IH]; simpl; [reflexivity|]. rewrite flat_map_app, IH. reflexivity. Qed.

Lemma flat_map_map' {A B C} (f : B -> list C) (g : A -> B) l : flat_map f (map g l) = flat_map (fun x => f (g x)) l.
Proof. induction l as [|x r IH]; simpl; [reflexivity|]. rewrite IH. reflexivity. Qed.

Lemma seq_sel_Pl p ds n :
  concat (seq_events_sel p ds 0 (Z.of_nat n) 1) = Pl p ds (nstages p) n.
Proof.
  unfold seq_events_sel. rewrite concat_phase_ops, concat_seq_phases, seq_pairs_flat.
  unfold Pl. rewrite flat_map_flat_map'. apply flat_map_ext. intros t. apply flat_map_map'.
Qed.

Lemma pipe_Ql p ds n : (1 <= nstages p)%nat -> (nstages p - 1 <= n)%nat ->
  concat (pipe_events p ds (Z.of_nat n) 1) = Ql p ds (nstages p) n.
Proof.
  intros HS H. unfold pipe_events. rewrite unrolled_canon by assumption.
  rewrite concat_phase_ops, canon_flat. unfold Ql. rewrite flat_map_flat_map'.
  apply flat_map_ext. intros a. unfold diag. apply flat_map_map'.
Qed.

Lemma perm_Pl_Ql p ds n : (1 <= nstages p)%nat -> (nstages p - 1 <= n)%nat ->
  Permutation (Pl p ds (nstages p) n) (Ql p ds (nstages p) n).
Proof.
  intros HS H. rewrite <- seq_sel_Pl, <- pipe_Ql by assumption.
  unfold seq_events_sel, pipe_events. rewrite !concat_phase_ops, concat_seq_phases.
  apply Permutation_flat_map. apply Permutation_sym. apply each_stage_once; assumption.
Qed.

(* ---- order inversions ------------------------------------------------------------------------------ *)
Lemma before_Pl p ds S n a b : before (Pl p ds S n) a b ->
  exists k t k' t', In a (pair_ops p ds (k, Z.of_nat t)) /\ In b (pair_ops p ds (k', Z.of_nat t')) /\
    (t < n)%nat /\ (t' < n)%nat /\
    ((t < t')%nat \/ (t = t' /\ k < k')%nat \/ (t = t' /\ k = k' /\ before (pair_ops p ds (k, Z.of_nat t)) a b)).
Proof.
  intros H. unfold Pl in H. apply before_flat_map_inv in H as [[t [t' [Hb [Ha Hb']]]]|[t [Ht H]]].
  - pose proof (before_in _ _ _ Hb) as [Ht Ht']. apply in_seq in Ht. apply in_seq in Ht'.
    apply before_seq in Hb.
    apply in_flat_map in Ha as [k [_ Ha]]. apply in_flat_map in Hb' as [k' [_ Hb']].
    exists k, t, k', t'. split; [exact Ha|]. split; [exact Hb'|]. split; [lia|]. split; [lia|]. left. exact Hb.
  - apply in_seq in Ht.
    apply before_flat_map_inv in H as [[k [k' [Hb [Ha Hb']]]]|[k [Hk H]]].
    + apply before_seq in Hb. exists k, t, k', t. split; [exact Ha|]. split; [exact Hb'|]. split; [lia|]. split; [lia|].
      right. left. split; [reflexivity | exact Hb].
    + pose proof (before_in _ _ _ H) as [Ha Hb]. exists k, t, k, t.
      split; [exact Ha|]. split; [exact Hb|]. split; [lia|]. split; [lia|].
      right. right. repeat split. exact H.
Qed.

Lemma before_Ql p ds S n a b : (1 <= S)%nat -> (S - 1 <= n)%nat -> before (Ql p ds S n) a b ->
  exists k t k' t', In a (pair_ops p ds (k, t)) /\ In b (pair_ops p ds (k', t')) /\ 0 <= t /\ 0 <= t' /\
    (Z.of_nat k + t < Z.of_nat k' + t' \/ (Z.of_nat k + t = Z.of_nat k' + t' /\ (k < k')%nat) \/
     (t = t' /\ k = k' /\ before (pair_ops p ds (k, t)) a b)).
Proof.
  intros HS Hn H. unfold Ql in H. apply before_flat_map_inv in H as [[x [y [Hb [Ha Hb']]]]|[x [Hx H]]].
  - pose proof (before_in _ _ _ Hb) as [Hx Hy]. apply in_seq in Hx. apply in_seq in Hy.
    apply before_seq in Hb.
    apply in_flat_map in Ha as [k [Hk Ha]]. apply in_flat_map in Hb' as [k' [Hk' Hb']].
    apply in_ks in Hk; [|assumption|assumption|lia]. apply in_ks in Hk'; [|assumption|assumption|lia].
    exists k, (Z.of_nat x - Z.of_nat k), k', (Z.of_nat y - Z.of_nat k').
    split; [exact Ha|]. split; [exact Hb'|]. split; [lia|]. split; [lia|]. left. lia.
  - apply in_seq in Hx.
    apply before_flat_map_inv in H as [[k [k' [Hb [Ha Hb']]]]|[k [Hk H]]].
    + pose proof (before_in _ _ _ Hb) as [Hk Hk'].
      apply in_ks in Hk; [|assumption|assumption|lia]. apply in_ks in Hk'; [|assumption|assumption|lia].
      assert (Hlt : (k < k')%nat).
      { unfold ks in Hb. destruct (x <? S - 1)%nat; [|destruct (x <? n)%nat]; apply before_seq in Hb; exact Hb. }
      exists k, (Z.of_nat x - Z.of_nat k), k', (Z.of_nat x - Z.of_nat k').
      split; [exact Ha|]. split; [exact Hb'|]. split; [lia|]. split; [lia|]. right. left. split; [lia | exact Hlt].
    + apply in_ks in Hk; [|assumption|assumption|lia].
      pose proof (before_in _ _ _ H) as [Ha Hb].
      exists k, (Z.of_nat x - Z.of_nat k), k, (Z.of_nat x - Z.of_nat k).
      split; [exact Ha|]. split; [exact Hb|]. split; [lia|]. split; [lia|]. right. right. repeat split. exact H.
Qed.

Lemma NoDup_Pl p ds S n : vids_unique p -> NoDup (Pl p ds S n).
Proof.
  intros Hu. unfold Pl. apply NoDup_flat_map_disjoint.
  - apply seq_NoDup.
  - intros t _. apply NoDup_flat_map_disjoint.
    + apply seq_NoDup.
    + intros k _. apply NoDup_pair_ops. exact Hu.
    + intros k k' z _ _ Hne H1 H2. destruct (pair_ops_key _ _ _ _ _ _ _ Hu H1 H2) as [E _]. contradiction.
  - intros t t' z _ _ Hne H1 H2.
    apply in_flat_map in H1 as [k [_ H1]]. apply in_flat_map in H2 as [k' [_ H2]].
    destruct (pair_ops_key _ _ _ _ _ _ _ Hu H1 H2) as [_ E]. lia.
Qed.

(* ---- reordering: the unrolled sequence computes what the loop with the selected copies does ------- *)
Theorem pipeline_reorder : forall p ds n m,
  vids_unique p -> overtake_safe p ds n -> (1 <= nstages p)%nat -> (nstages p - 1 <= n)%nat ->
  meq (exec (concat (pipe_events p ds (Z.of_nat n) 1)) m)
      (exec (concat (seq_events_sel p ds 0 (Z.of_nat n) 1)) m).
Proof.
  intros p ds n m Hu Ho HS Hn. rewrite seq_sel_Pl, pipe_Ql by assumption.
  apply reorder_equiv.
  - apply NoDup_Pl. exact Hu.
  - apply perm_Pl_Ql; assumption.
  - intros a b Hab Hba.
    apply before_Pl in Hab as [k [t [k' [t' [Ha [Hb [Htn [Htn' Hord]]]]]]]].
    apply before_Ql in Hba as [kb [tb [ka [ta [Hb2 [Ha2 [Htb [Hta Hord2]]]]]]]]; [|assumption|assumption].
    destruct (pair_ops_key _ _ _ _ _ _ _ Hu Ha Ha2) as [<- <-].
    destruct (pair_ops_key _ _ _ _ _ _ _ Hu Hb Hb2) as [<- <-].
    destruct Hord as [Hlt|[[Et Hlt]|[Et [Ek Hbef]]]].
    + (* a in an earlier iteration; in Q, b comes first *)
      destruct Hord2 as [H2|[[H2 H2']|[H2 [H2' _]]]].
      * apply (Ho k k' (Z.of_nat t) (Z.of_nat t')); try assumption; lia.
      * apply (Ho k k' (Z.of_nat t) (Z.of_nat t')); try assumption; lia.
      * lia.
    + subst t'. destruct Hord2 as [H2|[[H2 H2']|[H2 [H2' _]]]]; lia.
    + subst t' k'. destruct Hord2 as [H2|[[H2 H2']|[_ [_ H2]]]]; try lia.
      exfalso. eapply before_antisym; [apply NoDup_pair_ops; exact Hu | exact Hbef | exact H2].
Qed.

(* every barrier-separated phase of the unrolled code is free of cross-core conflicts *)
Lemma phases_drf p ds n : overtake_safe p ds n -> stage_safe p ds n -> vids_unique p ->
  (1 <= nstages p)%nat -> (nstages p - 1 <= n)%nat ->
  Forall (fun ph => phase_drfb ph = true) (pipe_events p ds (Z.of_nat n) 1).
Proof.
  intros Ho Hs Hu HS Hn. unfold pipe_events. rewrite unrolled_canon by assumption.
  apply Forall_forall. intros ph Hph. apply in_map_iff in Hph as [phase0 [<- Hin]].
  unfold canon in Hin. apply in_map_iff in Hin as [x [<- Hx]]. apply in_seq in Hx.
  apply phase_drfb_intro. intros a b Hab Hcore.
  unfold phase_ops, diag in Hab. rewrite flat_map_map' in Hab.
  apply before_flat_map_inv in Hab as [[k [k' [Hb [Ha Hb']]]]|[k [Hk H]]].
  - pose proof (before_in _ _ _ Hb) as [Hk Hk'].
    apply in_ks in Hk; [|assumption|assumption|lia]. apply in_ks in Hk'; [|assumption|assumption|lia].
    assert (Hlt : (k < k')%nat).
    { unfold ks in Hb. destruct (x <? nstages p - 1)%nat; [|destruct (x <? n)%nat]; apply before_seq in Hb; exact Hb. }
    apply conflictb_sym.
    apply (Ho k' k (Z.of_nat x - Z.of_nat k') (Z.of_nat x - Z.of_nat k)); try assumption; lia.
  - apply in_ks in Hk; [|assumption|assumption|lia].
    pose proof (before_in _ _ _ H) as [Ha Hb].
    apply (Hs k (Z.of_nat x - Z.of_nat k)); [lia | assumption..].
Qed.

(* C15 pipeline_equiv (PARTIAL: under the footprint hypotheses; reference = the loop executing
   with the parity-selected copies): for ALL stage counts, trip counts n >= S-1 and EVERY
   interleaving of the cores between consecutive barriers, the unrolled double-buffered code
   leaves the memory the sequential loop leaves. *)
Theorem pipeline_equiv_partial : forall p ds n m ss,
  vids_unique p -> overtake_safe p ds n -> stage_safe p ds n ->
  (1 <= nstages p)%nat -> (nstages p - 1 <= n)%nat ->
  Forall2 schedule_of (pipe_events p ds (Z.of_nat n) 1) ss ->
  meq (exec (concat ss) m) (exec (concat (seq_events_sel p ds 0 (Z.of_nat n) 1)) m).
Proof.
  intros p ds n m ss Hu Ho Hs HS Hn Hsched.
  apply (meq_trans _ (exec (concat (pipe_events p ds (Z.of_nat n) 1)) m)).
  - apply (drf_phases (pipe_events p ds (Z.of_nat n) 1) ss m); [apply phases_drf; assumption | exact Hsched].
  - apply pipeline_reorder; assumption.
Qed.

(* ---- decidable checkers for the footprint hypotheses (bounded by the trip count) ---------------- *)
Definition free_lists (l1 l2 : list mop) : bool :=
  forallb (fun a => forallb (fun b => negb (conflictb a b)) l2) l1.

Definition overtake_safeb (p : pipe) (ds : list Z) (n : nat) : bool :=
  forallb (fun k => forallb (fun k' => forallb (fun t => forallb (fun d =>
     let t' := (t + 1 + d)%nat in
     (n <=? t')%nat || free_lists (pair_ops p ds (k, Z.of_nat t)) (pair_ops p ds (k', Z.of_nat t')))
     (seq 0 (k - k'))) (seq 0 n)) (seq 0 k)) (seq 0 (nstages p)).

Definition stage_safeb (p : pipe) (ds : list Z) (n : nat) : bool :=
  forallb (fun k => forallb (fun t =>
     let l := pair_ops p ds (k, Z.of_nat t) in
     forallb (fun a => forallb (fun b => (o_core a =? o_core b) || negb (conflictb a b)) l) l)
     (seq 0 n)) (seq 0 (nstages p)).

Lemma pair_ops_overflow p ds k t : (nstages p <= k)%nat -> pair_ops p ds (k, t) = [].
Proof. intros H. unfold pair_ops. simpl. rewrite nth_overflow by exact H. reflexivity. Qed.

Lemma overtake_safeb_sound p ds n : overtake_safeb p ds n = true -> overtake_safe p ds n.
Proof.
  intros H k k' t t' a b Hk Ht Ht' Hn Ha Hb.
  destruct (le_lt_dec (nstages p) k) as [Hge|Hlt].
  { rewrite pair_ops_overflow in Ha by exact Hge. destruct Ha. }
  unfold overtake_safeb in H. rewrite forallb_forall in H.
  specialize (H k (proj2 (in_seq _ _ _) (conj (Nat.le_0_l _) Hlt))). rewrite forallb_forall in H.
  specialize (H k' (proj2 (in_seq _ _ _) (conj (Nat.le_0_l _) Hk))). rewrite forallb_forall in H.
  assert (Htn : In (Z.to_nat t) (seq 0 n)) by (apply in_seq; lia).
  specialize (H _ Htn). rewrite forallb_forall in H.
  assert (Hd : In (Z.to_nat (t' - t - 1)) (seq 0 (k - k'))) by (apply in_seq; lia).
  specialize (H _ Hd). cbv zeta in H.
  replace (Z.of_nat (Z.to_nat t)) with t in H by lia.
  replace (Z.of_nat (Z.to_nat t + 1 + Z.to_nat (t' - t - 1))) with t' in H by lia.
  apply orb_true_iff in H as [H|H]; [apply Nat.leb_le in H; lia|].
  unfold free_lists in H. rewrite forallb_forall in H. specialize (H a Ha).
  rewrite forallb_forall in H. specialize (H b Hb). apply negb_true_iff in H. exact H.
Qed.

Lemma stage_safeb_sound p ds n : stage_safeb p ds n = true -> stage_safe p ds n.
Proof.
  intros H k t a b Ht Ha Hb Hc.
  destruct (le_lt_dec (nstages p) k) as [Hge|Hlt].
  { rewrite pair_ops_overflow in Ha by exact Hge. destruct Ha. }
  unfold stage_safeb in H. rewrite forallb_forall in H.
  specialize (H k (proj2 (in_seq _ _ _) (conj (Nat.le_0_l _) Hlt))). rewrite forallb_forall in H.
  assert (Htn : In (Z.to_nat t) (seq 0 n)) by (apply in_seq; lia).
  specialize (H _ Htn). cbv zeta in H. replace (Z.of_nat (Z.to_nat t)) with t in H by lia.
  rewrite forallb_forall in H. specialize (H a Ha). rewrite forallb_forall in H. specialize (H b Hb).
  apply orb_true_iff in H as [H|H]; [apply Z.eqb_eq in H; contradiction | apply negb_true_iff in H; exact H].
Qed.

(* the checked form: the hypotheses are decided by computation for a given trip count *)
Theorem pipeline_equiv_checked : forall p ds n m ss,
  vids_unique p -> overtake_safeb p ds n = true -> stage_safeb p ds n = true ->
  (1 <= nstages p)%nat -> (nstages p - 1 <= n)%nat ->
  Forall2 schedule_of (pipe_events p ds (Z.of_nat n) 1) ss ->
  meq (exec (concat ss) m) (exec (concat (seq_events_sel p ds 0 (Z.of_nat n) 1)) m).
Proof.
  intros p ds n m ss Hu Ho Hs. apply pipeline_equiv_partial;
    [exact Hu | apply overtake_safeb_sound; exact Ho | apply stage_safeb_sound; exact Hs].
Qed.

(* non-vacuity: the standard three-stage load / compute / store pipeline satisfies the hypotheses
   for its (duplicated) buffers 10 and 11 *)
Definition pipe3 : pipe :=
  mkPipe [[mkSop 1 1 [Tile 0 8] [Fixed 10] false];
          [mkSop 2 0 [Fixed 10] [Fixed 11] false];
          [mkSop 3 1 [Fixed 11] [Tile 1 8] false]] [10; 11].

Example pipe3_dups : dups pipe3 = Some [10; 11] /\ safe_pipe pipe3 [10; 11] = true.
Proof. split; reflexivity. Qed.

Example pipe3_hypotheses :
  vids_unique pipe3 /\ overtake_safeb pipe3 [10; 11] 40 = true /\ stage_safeb pipe3 [10; 11] 40 = true /\
  (* without the second copies the same loop is NOT overtake safe *)
  overtake_safeb pipe3 [] 40 = false.
Proof.
  split; [|split; [|split]]; try (vm_compute; reflexivity).
  unfold vids_unique. simpl. repeat constructor; simpl; intuition congruence.
Qed.

