(* C10, part 3: largest_common_contiguous_block is contiguous in, and shared by, both layouts. *)
From Snax Require Import Base.Prelude Base.ListAux Model.Tsl.

Definition next_cur (s : stride) : option Z :=
  match s with (Some a, Some b) => Some (a * b) | _ => None end.

(* contiguity chain: first step = cur, every next step = previous step * previous bound *)
Fixpoint chain (cur : option Z) (r : list stride) : Prop :=
  match r with
  | [] => True
  | s :: r' => sstep s = cur /\ chain (next_cur s) r'
  end.

(* the stride sits at one and the same (dim, depth) position in both layouts *)
Definition shared (a b : layout) (s : stride) : Prop :=
  exists d k, get_stride a d k = Some s /\ get_stride b d k = Some s.

Lemma stride_eqb_eq x y : stride_eqb x y = true <-> x = y.
Proof.
  destruct x as [x1 x2], y as [y1 y2]. unfold stride_eqb. cbn [fst snd].
  rewrite andb_true_iff, !optZ_eqb_eq. split; [intros [-> ->]; reflexivity | intros H; inversion H; auto].
Qed.

Lemma enum_from_in {A} (l : list A) : forall m n x,
  In (n, x) (enum_from m l) -> (m <= n)%nat /\ nth_error l (n - m) = Some x.
Proof.
  induction l as [|y ys IH]; intros m n x; cbn [enum_from]; [intros []|].
  intros [E|Hin].
  - inversion E; subst. split; [lia|]. rewrite Nat.sub_diag. reflexivity.
  - destruct (IH _ _ _ Hin) as [Hle Hn]. split; [lia|].
    replace (n - m)%nat with (S (n - S m)) by lia. exact Hn.
Qed.

Lemma entries_get a d k s : In (d, k, s) (entries a) -> get_stride a d k = Some s.
Proof.
  unfold entries, get_stride. intros H. apply in_flat_map in H as [[d' t] [Hdt Hin]].
  apply in_map_iff in Hin as [[k' s'] [E Hks]]. cbn [fst snd] in *. inversion E; subst. cbn [fst snd] in *.
  apply enum_from_in in Hdt as [_ Hd]. apply enum_from_in in Hks as [_ Hk].
  rewrite Nat.sub_0_r in Hd, Hk. unfold tstride in *. rewrite Hd. exact Hk.
Qed.

Lemma remove_first_incl e es x : In x (remove_first e es) -> In x es.
Proof.
  induction es as [|y ys IH]; cbn [remove_first]; [intros []|].
  destruct (entry_eqb y e); [intros H; right; exact H|].
  intros [->|H]; [left; reflexivity | right; apply IH, H].
Qed.

Lemma static_first_incl es x : In x (static_first es) -> In x es.
Proof.
  unfold static_first. intros H. apply in_app_or in H as [H|H]; apply filter_In in H as [H _]; exact H.
Qed.

Lemma lccb_loop_spec a other : forall fuel es cur acc,
  (forall e, In e es -> get_stride a (fst (fst e)) (snd (fst e)) = Some (snd e)) ->
  exists r', lccb_loop fuel other es cur acc = acc ++ r' /\ chain cur r' /\ Forall (shared a other) r'.
Proof.
  induction fuel as [|fuel IH]; intros es cur acc Hes; cbn [lccb_loop].
  - exists []. rewrite app_nil_r. repeat split; constructor.
  - destruct (find (fun e => optZ_eqb (sstep (snd e)) cur) (static_first es)) as [e|] eqn:Ef.
    2:{ exists []. rewrite app_nil_r. repeat split; constructor. }
    apply find_some in Ef as [Hin Hstep]. apply optZ_eqb_eq in Hstep.
    apply static_first_incl in Hin.
    destruct (get_stride other (fst (fst e)) (snd (fst e))) as [so|] eqn:Eo.
    2:{ exists []. rewrite app_nil_r. repeat split; constructor. }
    destruct (stride_eqb (snd e) so) eqn:Eeq.
    2:{ exists []. rewrite app_nil_r. repeat split; constructor. }
    apply stride_eqb_eq in Eeq. subst so.
    destruct (IH (remove_first e es) (next_cur (snd e)) (acc ++ [snd e])) as [r' [E [Hc Hs]]].
    { intros x Hx. apply Hes. eapply remove_first_incl, Hx. }
    exists (snd e :: r'). split.
    + unfold next_cur in E. rewrite E. rewrite <- app_assoc. reflexivity.
    + split; [split; [exact Hstep|exact Hc]|].
      constructor; [|exact Hs]. exists (fst (fst e)), (snd (fst e)). split; [apply Hes, Hin | exact Eo].
Qed.

Theorem lccb_sound a b start :
  lccb a b start = [(Some start, Some 1)] \/
  (chain (Some start) (lccb a b start) /\ Forall (shared a b) (lccb a b start)).
Proof.
  unfold lccb.
  destruct (lccb_loop_spec a b (S (length (entries a))) (entries a) (Some start) [])
    as [r' [E [Hc Hs]]].
  { intros [[d k] s] H. apply entries_get, H. }
  rewrite E. cbn [app]. destruct r' as [|s r']; [left; reflexivity|].
  right. split; assumption.
Qed.
