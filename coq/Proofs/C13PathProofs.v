(* C13 — every execution path: a structurally guarded pair is separated by a barrier on every path
   (all trip counts, all branch outcomes), and a program whose conflicting pairs are all guarded
   has conflict-free phases on every path, so that drf_phases / machine_result apply. *)
From Snax Require Import Base.Prelude Base.ListAux Model.MultiCore Model.C13SyncBarrier Model.C13Paths
  Proofs.MultiCoreCommute.

Section RInd.
  Variable P : rstmt -> Prop.
  Hypothesis HLeaf : forall id core bar rd wr, P (RLeaf id core bar rd wr).
  Hypothesis HFor : forall id b, Forall P b -> P (RFor id b).
  Hypothesis HIf : forall id t e, Forall P t -> Forall P e -> P (RIf id t e).
  Fixpoint rstmt_ind' (s : rstmt) : P s :=
    let fix go (l : list rstmt) : Forall P l :=
      match l with [] => Forall_nil P | x :: r => Forall_cons x (rstmt_ind' x) (go r) end in
    match s with
    | RLeaf id core bar rd wr => HLeaf id core bar rd wr
    | RFor id b => HFor id b (go b)
    | RIf id t e => HIf id t e (go t) (go e)
    end.
End RInd.

Lemma rrun_rrunl o l : forall ctx,
  (fix rrunl (l : list rstmt) (ctx : list nat) {struct l} : list instr :=
     match l with [] => [] | x :: r => rrun o x ctx ++ rrunl r ctx end) l ctx = rrunl o l ctx.
Proof. induction l as [|x r IH]; intros ctx; simpl; [reflexivity|]. rewrite IH. reflexivity. Qed.

Lemma rrun_For o id b ctx :
  rrun o (RFor id b) ctx = flat_map (fun i => rrunl o b (i :: ctx)) (seq 0 (rtrip o id ctx)).
Proof. simpl. apply flat_map_ext. intros i. apply rrun_rrunl. Qed.

Lemma rrun_If o id t e ctx :
  rrun o (RIf id t e) ctx = if rcond o id ctx then rrunl o t ctx else rrunl o e ctx.
Proof. simpl. destruct (rcond o id ctx); apply rrun_rrunl. Qed.

Lemma guarded_inner X U l :
  (fix gl (l : list rstmt) : bool :=
    match l with
    | [] => true
    | x :: r =>
        (match x with
         | RLeaf id _ bar _ _ => if (id =? X) && negb bar then bar_follows U r else true
         | _ => guarded X U x
         end) && gl r
    end) l = guardedl X U l.
Proof. induction l as [|x r IH]; [reflexivity|]. cbn [guardedl]. rewrite <- IH. reflexivity. Qed.

Lemma guarded_For X U id b : guarded X U (RFor id b) = guardedl X U b.
Proof. cbn [guarded]. apply guarded_inner. Qed.
Lemma guarded_If X U id t e : guarded X U (RIf id t e) = guardedl X U t && guardedl X U e.
Proof. cbn [guarded]. rewrite !guarded_inner. reflexivity. Qed.

Lemma scanb_app X U : forall l1 l2 a,
  scanb X U a (l1 ++ l2) = match scanb X U a l1 with Some a' => scanb X U a' l2 | None => None end.
Proof.
  induction l1 as [|i r IH]; intros l2 a; simpl; [reflexivity|].
  destruct i as [o|]; [|apply IH]. destruct ((opid o =? U) && a); [reflexivity | apply IH].
Qed.

Section PathSafe.
  Variables X U : Z.

  Definition Q (s : rstmt) : Prop :=
    guarded X U s = true -> forall o ctx, scanb X U false (rrun o s ctx) = Some false.

  (* the statement for single statements is about constructs (a bare leaf X alone arms the scanner) *)
  Definition Q' (s : rstmt) : Prop :=
    match s with RLeaf _ _ _ _ _ => True | _ => Q s end.

  Lemma list_safe' : forall l, Forall Q' l -> guardedl X U l = true ->
    (forall o ctx, scanb X U false (rrunl o l ctx) = Some false) /\
    (bar_follows U l = true -> forall o ctx, scanb X U true (rrunl o l ctx) = Some false).
  Proof.
    induction 1 as [|x r Hx Hr IH]; intros Hg; [split; [reflexivity | discriminate]|].
    cbn [guardedl] in Hg. apply andb_true_iff in Hg as [Hgx Hgr]. destruct (IH Hgr) as [IH1 IH2].
    destruct x as [id core bar rd wr | id b | id t e].
    - split.
      + intros o ctx. cbn [rrunl rrun]. destruct bar; simpl.
        * apply IH1.
        * unfold opid. simpl. rewrite andb_false_r. simpl.
          destruct (id =? X) eqn:E; simpl in Hgx.
          { apply IH2. exact Hgx. }
          { apply IH1. }
      + intros Hb o ctx. cbn [bar_follows] in Hb. cbn [rrunl rrun]. destruct bar; simpl.
        * apply IH1.
        * unfold opid. simpl. destruct (id =? U) eqn:E; [discriminate|]. simpl. apply IH2. exact Hb.
    - split; [|discriminate]. intros o ctx. cbn [rrunl]. rewrite scanb_app, (Hx Hgx o ctx). apply IH1.
    - split; [|discriminate]. intros o ctx. cbn [rrunl]. rewrite scanb_app, (Hx Hgx o ctx). apply IH1.
  Qed.

  Lemma stmt_safe' : forall s, Q' s.
  Proof.
    apply rstmt_ind'.
    - intros. exact I.
    - intros id b Hb Hg o ctx. rewrite guarded_For in Hg. rewrite rrun_For.
      destruct (list_safe' b Hb Hg) as [H1 _].
      induction (seq 0 (rtrip o id ctx)) as [|i is IHs]; simpl; [reflexivity|].
      rewrite scanb_app, H1. exact IHs.
    - intros id t e Ht He Hg o ctx. rewrite guarded_If in Hg. apply andb_true_iff in Hg as [Hgt Hge].
      rewrite rrun_If. destruct (rcond o id ctx).
      + apply (list_safe' t Ht Hgt).
      + apply (list_safe' e He Hge).
  Qed.

  (* C13 path theorem: a guarded pair is separated by a barrier on EVERY path (every oracle) *)
  Theorem guarded_path_safe : forall prog, guardedl X U prog = true ->
    forall o ctx, scanb X U false (rrunl o prog ctx) = Some false.
  Proof.
    intros prog Hg. apply (list_safe' prog); [|exact Hg].
    apply Forall_forall. intros s _. apply stmt_safe'.
  Qed.
End PathSafe.

(* ---- from path safety to conflict-free phases ------------------------------------------------------- *)
Lemma split_spec : forall tr cur ph, In ph (split_phases cur tr) ->
  exists pre post, map Some (rev cur) ++ tr = pre ++ map Some ph ++ post.
Proof.
  induction tr as [|i r IH]; intros cur ph H; simpl in H.
  - destruct H as [<-|[]]. exists [], []. rewrite !app_nil_r. reflexivity.
  - destruct i as [o|].
    + destruct (IH (o :: cur) ph H) as [pre [post E]]. exists pre, post. rewrite <- E.
      simpl. rewrite map_app, <- app_assoc. reflexivity.
    + destruct H as [<-|H].
      * exists [], (None :: r). reflexivity.
      * destruct (IH [] ph H) as [pre [post E]]. simpl in E.
        exists (map Some (rev cur) ++ None :: pre), post. rewrite E, <- app_assoc. reflexivity.
Qed.

Lemma scanb_armed_hits X U : forall mid b post,
  opid b = U -> scanb X U true (map Some mid ++ Some b :: post) = None.
Proof.
  induction mid as [|o r IH]; intros b post Hb; simpl.
  - rewrite Hb, Z.eqb_refl. reflexivity.
  - destruct ((opid o =? U) && true); [reflexivity|]. simpl. apply IH. exact Hb.
Qed.

Lemma scanb_none_prefix X U : forall pre a rest, (forall arm, scanb X U arm rest = None) -> scanb X U a (pre ++ rest) = None.
Proof.
  intros pre a rest H. rewrite scanb_app. destruct (scanb X U a pre); [apply H | reflexivity].
Qed.

Theorem paths_give_drf_phases : forall tr,
  (forall a b, In (Some a) tr -> In (Some b) tr -> o_core a <> o_core b ->
               specific a = true -> specific b = true -> conflictb a b = true ->
               scanb (opid a) (opid b) false tr <> None) ->
  Forall (fun ph => phase_drfb (filter specific ph) = true) (split_phases [] tr).
Proof.
  intros tr H. apply Forall_forall. intros ph Hph. apply phase_drfb_intro. intros a b Hab Hc.
  destruct (conflictb a b) eqn:Ecf; [|reflexivity]. exfalso.
  destruct (split_spec tr [] ph Hph) as [pre [post E]]. simpl in E.
  pose proof (before_in _ _ _ Hab) as [Ha Hb]. apply filter_In in Ha as [Ha Sa]. apply filter_In in Hb as [Hb Sb].
  (* a .. b inside ph, no barrier between *)
  destruct Hab as [f1 [f2 [Ef Hbf2]]].
  assert (Hph2 : exists p1 p2 p3, ph = p1 ++ a :: p2 ++ b :: p3).
  { clear -Ef Hbf2. revert f1 Ef. induction ph as [|y r IH]; intros f1 Ef; simpl in Ef.
    - destruct f1; discriminate.
    - destruct (specific y) eqn:Sy.
      + destruct f1 as [|z f1'].
        * simpl in Ef. injection Ef as E1 E2. subst y. assert (Hb : In b r).
          { assert (Hf : In b (filter specific r)) by (rewrite E2; exact Hbf2). apply filter_In in Hf. tauto. }
          apply in_split in Hb as [u [v ->]]. exists [], u, v. reflexivity.
        * simpl in Ef. injection Ef as E1 E2. destruct (IH f1' E2) as [p1 [p2 [p3 ->]]]. exists (y :: p1), p2, p3. reflexivity.
      + destruct (IH f1 Ef) as [p1 [p2 [p3 ->]]]. exists (y :: p1), p2, p3. reflexivity. }
  destruct Hph2 as [p1 [p2 [p3 ->]]].
  assert (Ina : In (Some a) tr) by (rewrite E; apply in_or_app; right; apply in_or_app; left; apply in_map; exact Ha).
  assert (Inb : In (Some b) tr) by (rewrite E; apply in_or_app; right; apply in_or_app; left; apply in_map; exact Hb).
  apply (H a b Ina Inb Hc Sa Sb Ecf).
  rewrite E. rewrite !map_app. simpl. rewrite map_app. simpl. rewrite <- !app_assoc.
  apply scanb_none_prefix. intros arm. apply scanb_none_prefix. intros arm'. simpl.
  destruct ((opid a =? opid b) && arm'); [reflexivity|].
  replace (arm' || (opid a =? opid a)) with true by (rewrite Z.eqb_refl, orb_true_r; reflexivity).
  rewrite <- app_assoc. simpl. apply scanb_armed_hits. reflexivity.
Qed.

(* ---- static guardedness of all conflicting pairs ----------------------------------------------------- *)
Lemma leaves_inner l : (fix ll (l : list rstmt) := match l with [] => [] | x :: r => leaves x ++ ll r end) l = leavesl l.
Proof. induction l as [|x r IH]; [reflexivity|]. simpl. rewrite IH. reflexivity. Qed.

Lemma in_trace_leaf o : forall s ctx a, In (Some a) (rrun o s ctx) ->
  In (opid a, o_core a, o_reads a, o_writes a) (leaves s).
Proof.
  apply (rstmt_ind' (fun s => forall ctx a, In (Some a) (rrun o s ctx) -> In (opid a, o_core a, o_reads a, o_writes a) (leaves s))).
  - intros id core bar rd wr ctx a H. simpl in *. destruct bar; [destruct H as [H|[]]; discriminate|].
    destruct H as [H|[]]. inversion H; subst. left. reflexivity.
  - intros id b Hb ctx a H. rewrite rrun_For in H. cbn [leaves]. rewrite leaves_inner.
    apply in_flat_map in H as [i [_ H]]. clear -Hb H. revert H. generalize (i :: ctx). intros c H.
    induction Hb as [|x r Hx Hr IH]; simpl in H; [destruct H|].
    unfold leavesl. simpl. apply in_or_app. apply in_app_or in H as [H|H]; [left; eapply Hx; exact H | right; apply IH; exact H].
  - intros id t e Ht He ctx a H. rewrite rrun_If in H. cbn [leaves]. rewrite !leaves_inner. apply in_or_app.
    destruct (rcond o id ctx); [left; clear He | right; clear Ht].
    + induction Ht as [|x r Hx Hr IH]; simpl in H; [destruct H|]. unfold leavesl. simpl. apply in_or_app.
      apply in_app_or in H as [H|H]; [left; eapply Hx; exact H | right; apply IH; exact H].
    + induction He as [|x r Hx Hr IH]; simpl in H; [destruct H|]. unfold leavesl. simpl. apply in_or_app.
      apply in_app_or in H as [H|H]; [left; eapply Hx; exact H | right; apply IH; exact H].
Qed.

Lemma in_tracel_leaf o l ctx a : In (Some a) (rrunl o l ctx) -> In (opid a, o_core a, o_reads a, o_writes a) (leavesl l).
Proof.
  induction l as [|x r IH]; simpl; [tauto|]. intros H. unfold leavesl. simpl. apply in_or_app.
  apply in_app_or in H as [H|H]; [left; eapply in_trace_leaf; exact H | right; apply IH; exact H].
Qed.

(* C13: if every pair of static ops on different cores with conflicting footprints is guarded,
   then on EVERY execution path every barrier-separated phase is free of cross-core conflicts *)
Theorem all_guarded_phases_drf : forall prog, all_guarded prog = true ->
  forall o, Forall (fun ph => phase_drfb (filter specific ph) = true) (split_phases [] (rrunl o prog [])).
Proof.
  intros prog Hall o. apply paths_give_drf_phases. intros a b Ha Hb Hc Sa Sb Ecf.
  apply in_tracel_leaf in Ha. apply in_tracel_leaf in Hb.
  unfold all_guarded in Hall. rewrite forallb_forall in Hall. specialize (Hall _ Ha).
  rewrite forallb_forall in Hall. specialize (Hall _ Hb). cbn [fst] in Hall.
  assert (Hs : static_conflict (opid a, o_core a, o_reads a, o_writes a) (opid b, o_core b, o_reads b, o_writes b) = true).
  { unfold static_conflict. unfold specific in Sa, Sb. rewrite Sa, Sb. simpl.
    replace (o_core a =? o_core b) with false by (symmetry; apply Z.eqb_neq; exact Hc). simpl.
    destruct a, b. exact Ecf. }
  rewrite Hs in Hall. simpl in Hall. rewrite (guarded_path_safe _ _ prog Hall o []). discriminate.
Qed.

(* ... hence (drf_phases) every interleaving of the cores inside the phases of that path computes
   the memory of the program order *)
Theorem all_guarded_any_interleaving : forall prog, all_guarded prog = true ->
  forall o ss m,
  Forall2 schedule_of (map (filter specific) (split_phases [] (rrunl o prog []))) ss ->
  meq (exec (concat ss) m) (exec (concat (map (filter specific) (split_phases [] (rrunl o prog [])))) m).
Proof.
  intros prog Hall o ss m Hs. apply drf_phases; [|exact Hs].
  apply Forall_forall. intros ph Hph. apply in_map_iff in Hph as [ph0 [<- H0]].
  pose proof (all_guarded_phases_drf prog Hall o) as Hf. rewrite Forall_forall in Hf. apply Hf. exact H0.
Qed.
