(* C13 — every execution path: a structurally guarded pair is separated by a barrier on every path
   (all trip counts, all branch outcomes), and a program whose conflicting pairs are all guarded
   has conflict-free phases on every path, so that drf_phases / machine_result apply. *)
From Snax Require Import Base.Prelude Base.ListAux Model.MultiCore Model.C13SyncBarrier Model.C13Paths
  Proofs.MultiCoreCommute Proofs.C13SyncBarrierProofs.

Section RInd.
  Variable P : rstmt -> Prop.
  Hypothesis HLeaf : forall id core bar rd wr, P (RLeaf id core bar rd wr).
  Hypothesis HFor : forall id b, Forall P b -> P (RFor id b).
  Hypothesis HIf : forall id t e, Forall P t -> Forall P e -> P (RIf id t e).
  Fixpoint rstmt_ind' (s : rstmt) : P s :=
    let fix go (l : list rstmt) : Forall P l :=
      match l with [] => Forall_nil P | x :: r => Forall_cons x (rstmt_ind' x) (go r) end in
    match s with
    | RLeaf id core bar rd wr => HLeaf id core bar rd wr
    | RFor id b => HFor id b (go b)
    | RIf id t e => HIf id t e (go t) (go e)
    end.
End RInd.

Lemma rrun_rrunl o l : forall ctx,
  (fix rrunl (l : list rstmt) (ctx : list nat) {struct l} : list instr :=
     match l with [] => [] | x :: r => rrun o x ctx ++ rrunl r ctx end) l ctx = rrunl o l ctx.
Proof. induction l as [|x r IH]; intros ctx; simpl; [reflexivity|]. rewrite IH. reflexivity. Qed.

Lemma rrun_For o id b ctx :
  rrun o (RFor id b) ctx = flat_map (fun i => rrunl o b (i :: ctx)) (seq 0 (rtrip o id ctx)).
Proof. simpl. apply flat_map_ext. intros i. apply rrun_rrunl. Qed.

Lemma rrun_If o id t e ctx :
  rrun o (RIf id t e) ctx = if rcond o id ctx then rrunl o t ctx else rrunl o e ctx.
Proof. simpl. destruct (rcond o id ctx); apply rrun_rrunl. Qed.

Lemma guarded_inner X U l :
  (fix gl (l : list rstmt) : bool :=
    match l with
    | [] => true
    | x :: r =>
        (match x with
         | RLeaf id _ bar _ _ => if (id =? X) && negb bar then bar_follows U r else true
         | _ => guarded X U x
         end) && gl r
    end) l = guardedl X U l.
Proof. induction l as [|x r IH]; [reflexivity|]. cbn [guardedl]. rewrite <- IH. reflexivity. Qed.

Lemma guarded_For X U id b : guarded X U (RFor id b) = guardedl X U b.
Proof. cbn [guarded]. apply guarded_inner. Qed.
Lemma guarded_If X U id t e : guarded X U (RIf id t e) = guardedl X U t && guardedl X U e.
Proof. cbn [guarded]. rewrite !guarded_inner. reflexivity. Qed.

Lemma scanb_app X U : forall l1 l2 a,
  scanb X U a (l1 ++ l2) = match scanb X U a l1 with Some a' => scanb X U a' l2 | None => None end.
Proof.
  induction l1 as [|i r IH]; intros l2 a; simpl; [reflexivity|].
  destruct i as [o|]; [|apply IH]. destruct ((opid o =? U) && a); [reflexivity | apply IH].
Qed.

Section PathSafe.
  Variables X U : Z.

  Definition Q (s : rstmt) : Prop :=
    guarded X U s = true -> forall o ctx, scanb X U false (rrun o s ctx) = Some false.

  (* the statement for single statements is about constructs (a bare leaf X alone arms the scanner) *)
  Definition Q' (s : rstmt) : Prop :=
    match s with RLeaf _ _ _ _ _ => True | _ => Q s end.

  Lemma list_safe' : forall l, Forall Q' l -> guardedl X U l = true ->
    (forall o ctx, scanb X U false (rrunl o l ctx) = Some false) /\
    (bar_follows U l = true -> forall o ctx, scanb X U true (rrunl o l ctx) = Some false).
  Proof.
    induction 1 as [|x r Hx Hr IH]; intros Hg; [split; [reflexivity | discriminate]|].
    cbn [guardedl] in Hg. apply andb_true_iff in Hg as [Hgx Hgr]. destruct (IH Hgr) as [IH1 IH2].
    destruct x as [id core bar rd wr | id b | id t e].
    - split.
      + intros o ctx. cbn [rrunl rrun]. destruct bar; simpl.
        * apply IH1.
        * unfold opid. simpl. rewrite andb_false_r. simpl.
          destruct (id =? X) eqn:E; simpl in Hgx.
          { apply IH2. exact Hgx. }
          { apply IH1. }
      + intros Hb o ctx. cbn [bar_follows] in Hb. cbn [rrunl rrun]. destruct bar; simpl.
        * apply IH1.
        * unfold opid. simpl. destruct (id =? U) eqn:E; [discriminate|]. simpl. apply IH2. exact Hb.
    - split; [|discriminate]. intros o ctx. cbn [rrunl]. rewrite scanb_app, (Hx Hgx o ctx). apply IH1.
    - split; [|discriminate]. intros o ctx. cbn [rrunl]. rewrite scanb_app, (Hx Hgx o ctx). apply IH1.
  Qed.

  Lemma stmt_safe' : forall s, Q' s.
  Proof.
    apply rstmt_ind'.
    - intros. exact I.
    - intros id b Hb Hg o ctx. rewrite guarded_For in Hg. rewrite rrun_For.
      destruct (list_safe' b Hb Hg) as [H1 _].
      induction (seq 0 (rtrip o id ctx)) as [|i is IHs]; simpl; [reflexivity|].
      rewrite scanb_app, H1. exact IHs.
    - intros id t e Ht He Hg o ctx. rewrite guarded_If in Hg. apply andb_true_iff in Hg as [Hgt Hge].
      rewrite rrun_If. destruct (rcond o id ctx).
      + apply (list_safe' t Ht Hgt).
      + apply (list_safe' e He Hge).
  Qed.

  (* C13 path theorem: a guarded pair is separated by a barrier on EVERY path (every oracle) *)
  Theorem guarded_path_safe : forall prog, guardedl X U prog = true ->
    forall o ctx, scanb X U false (rrunl o prog ctx) = Some false.
  Proof.
    intros prog Hg. apply (list_safe' prog); [|exact Hg].
    apply Forall_forall. intros s _. apply stmt_safe'.
  Qed.

  (* a construct in which U does not occur never trips the scanner *)
  Lemma mentions_inner l :
    (fix ml (l : list rstmt) : bool := match l with [] => false | x :: r => mentions U x || ml r end) l = mentionsl U l.
  Proof. induction l as [|x r IH]; [reflexivity|]. simpl. rewrite IH. reflexivity. Qed.

  Lemma no_mention_list o : forall l, Forall (fun s => mentions U s = false -> forall ctx a, exists a', scanb X U a (rrun o s ctx) = Some a') l ->
    mentionsl U l = false -> forall ctx a, exists a', scanb X U a (rrunl o l ctx) = Some a'.
  Proof.
    induction 1 as [|x r Hx Hr IH]; intros Hm ctx a; [exists a; reflexivity|].
    simpl in Hm. apply orb_false_iff in Hm as [Hm1 Hm2]. cbn [rrunl]. rewrite scanb_app.
    destruct (Hx Hm1 ctx a) as [a1 ->]. apply IH. exact Hm2.
  Qed.

  Lemma no_mention_scan o : forall s, mentions U s = false -> forall ctx a, exists a', scanb X U a (rrun o s ctx) = Some a'.
  Proof.
    apply (rstmt_ind' (fun s => mentions U s = false -> forall ctx a, exists a', scanb X U a (rrun o s ctx) = Some a')).
    - intros id core bar rd wr Hm ctx a. cbn [rrun mentions] in *. destruct bar; [cbn [scanb]; eexists; reflexivity|].
      cbn [negb andb] in Hm. cbn [scanb]. unfold opid. cbn [o_name hd]. rewrite Hm. cbn [andb]. eexists. reflexivity.
    - intros id b Hb Hm ctx a. cbn [mentions] in Hm. rewrite mentions_inner in Hm. rewrite rrun_For.
      revert a. induction (seq 0 (rtrip o id ctx)) as [|i is IHs]; intros a; simpl; [eexists; reflexivity|].
      rewrite scanb_app. destruct (no_mention_list o b Hb Hm (i :: ctx) a) as [a1 ->]. apply IHs.
    - intros id t e Ht He Hm ctx a. cbn [mentions] in Hm. rewrite !mentions_inner in Hm. apply orb_false_iff in Hm as [Hm1 Hm2].
      rewrite rrun_If. destruct (rcond o id ctx); [apply (no_mention_list o t Ht Hm1) | apply (no_mention_list o e He Hm2)].
  Qed.

  (* the outermost block (executed once) *)
  Lemma top_safe : forall l, guardedl_top X U l = true ->
    (forall o ctx, scanb X U false (rrunl o l ctx) <> None) /\
    (bar_follows_top U l = true -> forall o ctx, scanb X U true (rrunl o l ctx) <> None).
  Proof.
    induction l as [|x r IH]; intros Hg; [split; intros; simpl; discriminate|].
    cbn [guardedl_top] in Hg. apply andb_true_iff in Hg as [Hgx Hgr]. destruct (IH Hgr) as [IH1 IH2].
    assert (Hcons : forall s, guarded X U s = true -> (match s with RLeaf _ _ _ _ _ => False | _ => True end) ->
              (forall o ctx, scanb X U false (rrun o s ctx ++ rrunl o r ctx) <> None) /\
              (negb (mentions U s) && bar_follows_top U r = true -> forall o ctx, scanb X U true (rrun o s ctx ++ rrunl o r ctx) <> None)).
    { intros s Hgs Hs. split.
      - intros o ctx. rewrite scanb_app. pose proof (stmt_safe' s) as Hq. destruct s; [destruct Hs | |];
          rewrite (Hq Hgs o ctx); apply IH1.
      - intros Hb o ctx. apply andb_true_iff in Hb as [Hm Hb]. apply negb_true_iff in Hm. rewrite scanb_app.
        destruct (no_mention_scan o s Hm ctx true) as [a' ->]. destruct a'; [apply IH2; exact Hb | apply IH1]. }
    destruct x as [id core bar rd wr | id b | id t e].
    - split.
      + intros o ctx. cbn [rrunl rrun]. destruct bar; simpl.
        * apply IH1.
        * unfold opid. simpl. rewrite andb_false_r. simpl.
          destruct (id =? X) eqn:E; simpl in Hgx; [apply IH2; exact Hgx | apply IH1].
      + intros Hb o ctx. cbn [bar_follows_top] in Hb. cbn [rrunl rrun]. destruct bar; simpl.
        * apply IH1.
        * unfold opid. simpl. destruct (id =? U) eqn:E; [discriminate|]. simpl. apply IH2. exact Hb.
    - destruct (Hcons (RFor id b) Hgx I) as [H1 H2]. split; [exact H1 | exact H2].
    - destruct (Hcons (RIf id t e) Hgx I) as [H1 H2]. split; [exact H1 | exact H2].
  Qed.

  Theorem guarded_top_path_safe : forall prog, guardedl_top X U prog = true ->
    forall o, scanb X U false (rrunl o prog []) <> None.
  Proof. intros prog Hg o. apply (proj1 (top_safe prog Hg)). Qed.
End PathSafe.

(* ---- from path safety to conflict-free phases ------------------------------------------------------- *)
Lemma split_spec : forall tr cur ph, In ph (split_phases cur tr) ->
  exists pre post, map Some (rev cur) ++ tr = pre ++ map Some ph ++ post.
Proof.
  induction tr as [|i r IH]; intros cur ph H; simpl in H.
  - destruct H as [<-|[]]. exists [], []. rewrite !app_nil_r. reflexivity.
  - destruct i as [o|].
    + destruct (IH (o :: cur) ph H) as [pre [post E]]. exists pre, post. rewrite <- E.
      simpl. rewrite map_app, <- app_assoc. reflexivity.
    + destruct H as [<-|H].
      * exists [], (None :: r). reflexivity.
      * destruct (IH [] ph H) as [pre [post E]]. simpl in E.
        exists (map Some (rev cur) ++ None :: pre), post. rewrite E, <- app_assoc. reflexivity.
Qed.

Lemma scanb_armed_hits X U : forall mid b post,
  opid b = U -> scanb X U true (map Some mid ++ Some b :: post) = None.
Proof.
  induction mid as [|o r IH]; intros b post Hb; simpl.
  - rewrite Hb, Z.eqb_refl. reflexivity.
  - destruct ((opid o =? U) && true); [reflexivity|]. simpl. apply IH. exact Hb.
Qed.

Lemma scanb_none_prefix X U : forall pre a rest, (forall arm, scanb X U arm rest = None) -> scanb X U a (pre ++ rest) = None.
Proof.
  intros pre a rest H. rewrite scanb_app. destruct (scanb X U a pre); [apply H | reflexivity].
Qed.

Theorem paths_give_drf_phases : forall tr,
  (forall a b, In (Some a) tr -> In (Some b) tr -> o_core a <> o_core b ->
               specific a = true -> specific b = true -> conflictb a b = true ->
               scanb (opid a) (opid b) false tr <> None) ->
  Forall (fun ph => phase_drfb (filter specific ph) = true) (split_phases [] tr).
Proof.
  intros tr H. apply Forall_forall. intros ph Hph. apply phase_drfb_intro. intros a b Hab Hc.
  destruct (conflictb a b) eqn:Ecf; [|reflexivity]. exfalso.
  destruct (split_spec tr [] ph Hph) as [pre [post E]]. simpl in E.
  pose proof (before_in _ _ _ Hab) as [Ha Hb]. apply filter_In in Ha as [Ha Sa]. apply filter_In in Hb as [Hb Sb].
  (* a .. b inside ph, no barrier between *)
  destruct Hab as [f1 [f2 [Ef Hbf2]]].
  assert (Hph2 : exists p1 p2 p3, ph = p1 ++ a :: p2 ++ b :: p3).
  { clear -Ef Hbf2. revert f1 Ef. induction ph as [|y r IH]; intros f1 Ef; simpl in Ef.
    - destruct f1; discriminate.
    - destruct (specific y) eqn:Sy.
      + destruct f1 as [|z f1'].
        * simpl in Ef. injection Ef as E1 E2. subst y. assert (Hb : In b r).
          { assert (Hf : In b (filter specific r)) by (rewrite E2; exact Hbf2). apply filter_In in Hf. tauto. }
          apply in_split in Hb as [u [v ->]]. exists [], u, v. reflexivity.
        * simpl in Ef. injection Ef as E1 E2. destruct (IH f1' E2) as [p1 [p2 [p3 ->]]]. exists (y :: p1), p2, p3. reflexivity.
      + destruct (IH f1 Ef) as [p1 [p2 [p3 ->]]]. exists (y :: p1), p2, p3. reflexivity. }
  destruct Hph2 as [p1 [p2 [p3 ->]]].
  assert (Ina : In (Some a) tr) by (rewrite E; apply in_or_app; right; apply in_or_app; left; apply in_map; exact Ha).
  assert (Inb : In (Some b) tr) by (rewrite E; apply in_or_app; right; apply in_or_app; left; apply in_map; exact Hb).
  apply (H a b Ina Inb Hc Sa Sb Ecf).
  rewrite E. rewrite !map_app. simpl. rewrite map_app. simpl. rewrite <- !app_assoc.
  apply scanb_none_prefix. intros arm. apply scanb_none_prefix. intros arm'. simpl.
  destruct ((opid a =? opid b) && arm'); [reflexivity|].
  replace (arm' || (opid a =? opid a)) with true by (rewrite Z.eqb_refl, orb_true_r; reflexivity).
  rewrite <- app_assoc. simpl. apply scanb_armed_hits. reflexivity.
Qed.

(* ---- static guardedness of all conflicting pairs ----------------------------------------------------- *)
Lemma leaves_inner l : (fix ll (l : list rstmt) := match l with [] => [] | x :: r => leaves x ++ ll r end) l = leavesl l.
Proof. induction l as [|x r IH]; [reflexivity|]. simpl. rewrite IH. reflexivity. Qed.

Lemma in_trace_leaf o : forall s ctx a, In (Some a) (rrun o s ctx) ->
  In (opid a, o_core a, o_reads a, o_writes a) (leaves s).
Proof.
  apply (rstmt_ind' (fun s => forall ctx a, In (Some a) (rrun o s ctx) -> In (opid a, o_core a, o_reads a, o_writes a) (leaves s))).
  - intros id core bar rd wr ctx a H. simpl in *. destruct bar; [destruct H as [H|[]]; discriminate|].
    destruct H as [H|[]]. inversion H; subst. left. reflexivity.
  - intros id b Hb ctx a H. rewrite rrun_For in H. cbn [leaves]. rewrite leaves_inner.
    apply in_flat_map in H as [i [_ H]]. clear -Hb H. revert H. generalize (i :: ctx). intros c H.
    induction Hb as [|x r Hx Hr IH]; simpl in H; [destruct H|].
    unfold leavesl. simpl. apply in_or_app. apply in_app_or in H as [H|H]; [left; eapply Hx; exact H | right; apply IH; exact H].
  - intros id t e Ht He ctx a H. rewrite rrun_If in H. cbn [leaves]. rewrite !leaves_inner. apply in_or_app.
    destruct (rcond o id ctx); [left; clear He | right; clear Ht].
    + induction Ht as [|x r Hx Hr IH]; simpl in H; [destruct H|]. unfold leavesl. simpl. apply in_or_app.
      apply in_app_or in H as [H|H]; [left; eapply Hx; exact H | right; apply IH; exact H].
    + induction He as [|x r Hx Hr IH]; simpl in H; [destruct H|]. unfold leavesl. simpl. apply in_or_app.
      apply in_app_or in H as [H|H]; [left; eapply Hx; exact H | right; apply IH; exact H].
Qed.

Lemma in_tracel_leaf o l ctx a : In (Some a) (rrunl o l ctx) -> In (opid a, o_core a, o_reads a, o_writes a) (leavesl l).
Proof.
  induction l as [|x r IH]; simpl; [tauto|]. intros H. unfold leavesl. simpl. apply in_or_app.
  apply in_app_or in H as [H|H]; [left; eapply in_trace_leaf; exact H | right; apply IH; exact H].
Qed.

(* C13: if every pair of static ops on different cores with conflicting footprints is guarded,
   then on EVERY execution path every barrier-separated phase is free of cross-core conflicts *)
Theorem all_guarded_phases_drf : forall prog, all_guarded prog = true ->
  forall o, Forall (fun ph => phase_drfb (filter specific ph) = true) (split_phases [] (rrunl o prog [])).
Proof.
  intros prog Hall o. apply paths_give_drf_phases. intros a b Ha Hb Hc Sa Sb Ecf.
  apply in_tracel_leaf in Ha. apply in_tracel_leaf in Hb.
  unfold all_guarded in Hall. rewrite forallb_forall in Hall. specialize (Hall _ Ha).
  rewrite forallb_forall in Hall. specialize (Hall _ Hb). cbn [fst] in Hall.
  assert (Hs : static_conflict (opid a, o_core a, o_reads a, o_writes a) (opid b, o_core b, o_reads b, o_writes b) = true).
  { unfold static_conflict. unfold specific in Sa, Sb. rewrite Sa, Sb. simpl.
    replace (o_core a =? o_core b) with false by (symmetry; apply Z.eqb_neq; exact Hc). simpl.
    destruct a, b. exact Ecf. }
  rewrite Hs in Hall. simpl in Hall. apply (guarded_top_path_safe _ _ prog Hall o).
Qed.

(* ... hence (drf_phases) every interleaving of the cores inside the phases of that path computes
   the memory of the program order *)
Theorem all_guarded_any_interleaving : forall prog, all_guarded prog = true ->
  forall o ss m,
  Forall2 schedule_of (map (filter specific) (split_phases [] (rrunl o prog []))) ss ->
  meq (exec (concat ss) m) (exec (concat (map (filter specific) (split_phases [] (rrunl o prog [])))) m).
Proof.
  intros prog Hall o ss m Hs. apply drf_phases; [|exact Hs].
  apply Forall_forall. intros ph Hph. apply in_map_iff in Hph as [ph0 [<- H0]].
  pose proof (all_guarded_phases_drf prog Hall o) as Hf. rewrite Forall_forall in Hf. apply Hf. exact H0.
Qed.

(* ---- end to end for straight-line functions: what the pass produces IS guarded ----------------------- *)
Lemma guardedl_top_noX X U : forall l, (forall z, In z l -> is_sync z = true \/ oi_id z <> X) ->
  guardedl_top X U (map leaf_of l) = true.
Proof.
  induction l as [|z r IH]; intros H; [reflexivity|]. cbn [map guardedl_top leaf_of].
  rewrite IH by (intros w Hw; apply H; right; exact Hw). rewrite andb_true_r.
  destruct (H z (or_introl eq_refl)) as [Hs|Hn]; [rewrite Hs, andb_false_r; reflexivity|].
  replace (oi_id z =? X) with false by (symmetry; apply Z.eqb_neq; exact Hn). reflexivity.
Qed.

Lemma guardedl_top_split X U : forall A x B,
  (forall z, In z A -> is_sync z = true \/ oi_id z <> X) ->
  (forall z, In z B -> is_sync z = true \/ oi_id z <> X) ->
  bar_follows_top U (map leaf_of B) = true ->
  guardedl_top X U (map leaf_of (A ++ x :: B)) = true.
Proof.
  induction A as [|z r IH]; intros x B HA HB Hbf.
  - cbn [app map guardedl_top leaf_of]. rewrite (guardedl_top_noX X U B HB), andb_true_r.
    destruct ((oi_id x =? X) && negb (is_sync x)); [exact Hbf | reflexivity].
  - cbn [app map guardedl_top leaf_of]. rewrite IH; [|intros w Hw; apply HA; right; exact Hw | exact HB | exact Hbf].
    rewrite andb_true_r. destruct (HA z (or_introl eq_refl)) as [Hs|Hn]; [rewrite Hs, andb_false_r; reflexivity|].
    replace (oi_id z =? X) with false by (symmetry; apply Z.eqb_neq; exact Hn). reflexivity.
Qed.

Lemma bar_follows_top_noU U : forall l, (forall z, In z l -> is_sync z = true \/ oi_id z <> U) ->
  bar_follows_top U (map leaf_of l) = true.
Proof.
  induction l as [|z r IH]; intros H; [reflexivity|]. cbn [map bar_follows_top leaf_of].
  destruct (is_sync z) eqn:Es; [reflexivity|].
  destruct (H z (or_introl eq_refl)) as [Hs|Hn]; [congruence|].
  replace (oi_id z =? U) with false by (symmetry; apply Z.eqb_neq; exact Hn).
  apply IH. intros w Hw. apply H. right. exact Hw.
Qed.

Lemma bar_follows_top_sync U : forall seg rest,
  (exists s, In s seg /\ is_sync s = true) -> (forall z, In z seg -> is_sync z = true \/ oi_id z <> U) ->
  bar_follows_top U (map leaf_of (seg ++ rest)) = true.
Proof.
  induction seg as [|z r IH]; intros rest [s [Hs Hss]] H; [destruct Hs|].
  cbn [app map bar_follows_top leaf_of]. destruct (is_sync z) eqn:Es; [reflexivity|].
  destruct (H z (or_introl eq_refl)) as [Hz|Hn]; [congruence|].
  replace (oi_id z =? U) with false by (symmetry; apply Z.eqb_neq; exact Hn).
  apply IH.
  - destruct Hs as [<-|Hs]; [congruence|]. exists s. split; assumption.
  - intros w Hw. apply H. right. exact Hw.
Qed.

Lemma in_insert_syncs_inv bars l z : In z (insert_syncs bars l) -> In z l \/ is_sync z = true.
Proof.
  unfold insert_syncs. intros H. apply in_flat_map in H as [y [Hy Hz]].
  destruct (memb (oi_id y) bars); simpl in Hz.
  - destruct Hz as [<-|[<-|[]]]; [right; reflexivity | left; exact Hy].
  - destruct Hz as [<-|[]]. left. exact Hy.
Qed.

Lemma in_run_pass_orig flat z : In z (run_pass flat) -> In z flat \/ is_sync z = true.
Proof. apply in_insert_syncs_inv. Qed.

(* straight-line function: every op is a direct child of the function body; op ids distinct *)
Definition straight (p0 : Z) (flat : list opinfo) : Prop :=
  (forall y, In y flat -> oi_parent y = p0) /\ NoDup (map oi_id flat).

Lemma shares_of_conflict x u :
  conflictb (mkOp [] (core_of x) [] (oi_operands x)) (mkOp [] (core_of u) [] (oi_operands u)) = true ->
  shares x u = true.
Proof.
  intros H. unfold conflictb in H. simpl in H. apply negb_true_iff in H. apply andb_false_iff in H.
  assert (Hex : exists v, In v (oi_operands x) /\ In v (oi_operands u)).
  { destruct H as [H|H].
    - destruct (existsb (fun v => memb v (oi_operands u)) (oi_operands x)) eqn:E.
      + apply existsb_exists in E as [v [H1 H2]]. apply memb_true in H2. eauto.
      + exfalso. assert (Hd : disjointb (oi_operands x) (oi_operands u) = true); [|congruence].
        apply disjointb_true. intros v Hv Hi.
        assert (Hx : existsb (fun v => memb v (oi_operands u)) (oi_operands x) = true); [|congruence].
        apply existsb_exists. exists v. split; [exact Hv | apply memb_true; exact Hi].
    - exfalso. assert (Hd : disjointb (oi_operands u) [] = true); [|congruence]. apply disjointb_true. intros v _ []. }
  destruct Hex as [v [H1 H2]]. unfold shares. apply existsb_exists. exists v.
  split; [apply in_or_app; left; exact H1 | apply memb_true; exact H2].
Qed.

Lemma two_positions {A} (l : list A) x u : In x l -> In u l -> x <> u ->
  exists l1 l2 l3, l = l1 ++ x :: l2 ++ u :: l3 \/ l = l1 ++ u :: l2 ++ x :: l3.
Proof.
  intros Hx Hu Hne. apply in_split in Hx as [a [b ->]]. apply in_app_or in Hu as [Hu|[Hu|Hu]]; [|congruence|].
  - apply in_split in Hu as [a1 [a2 ->]]. exists a1, a2, b. right. rewrite <- app_assoc. reflexivity.
  - apply in_split in Hu as [b1 [b2 ->]]. exists a, b1, b2. left. reflexivity.
Qed.

Lemma ids_distinct_3 (l1 : list opinfo) x l2 u l3 : NoDup (map oi_id (l1 ++ x :: l2 ++ u :: l3)) ->
  oi_id x <> oi_id u /\
  (forall z, In z l1 \/ In z l2 \/ In z l3 -> oi_id z <> oi_id x /\ oi_id z <> oi_id u).
Proof.
  intros Hn.
  assert (Hgen : forall (l : list opinfo) a b, NoDup (map oi_id l) -> In a l -> In b l -> oi_id a = oi_id b -> a = b).
  { induction l as [|y r IH]; intros a b Hd Ha Hb E; [destruct Ha|]. simpl in Hd. inversion Hd; subst.
    destruct Ha as [->|Ha], Hb as [->|Hb]; [reflexivity | | | apply IH; assumption].
    - exfalso. apply H1. rewrite E. apply in_map. exact Hb.
    - exfalso. apply H1. rewrite <- E. apply in_map. exact Ha. }
  set (L := l1 ++ x :: l2 ++ u :: l3) in *.
  assert (Ix : In x L) by (unfold L; apply in_or_app; right; left; reflexivity).
  assert (Iu : In u L) by (unfold L; apply in_or_app; right; right; apply in_or_app; right; left; reflexivity).
  (* positions differ: use the NoDup of the id list directly *)
  assert (Hids : NoDup (map oi_id l1 ++ oi_id x :: map oi_id l2 ++ oi_id u :: map oi_id l3)).
  { unfold L in Hn. rewrite map_app in Hn. simpl in Hn. rewrite map_app in Hn. simpl in Hn. exact Hn. }
  pose proof (NoDup_remove_2 _ _ _ Hids) as Nx.
  assert (Hids2 : NoDup ((map oi_id l1 ++ oi_id x :: map oi_id l2) ++ oi_id u :: map oi_id l3)).
  { rewrite <- app_assoc. simpl. exact Hids. }
  pose proof (NoDup_remove_2 _ _ _ Hids2) as Nu.
  split.
  - intros E. apply Nx. apply in_or_app. right. apply in_or_app. right. left. symmetry. exact E.
  - intros z Hz. split; intros E.
    + apply Nx. rewrite <- E. destruct Hz as [Hz|[Hz|Hz]].
      * apply in_or_app. left. apply in_map. exact Hz.
      * apply in_or_app. right. apply in_or_app. left. apply in_map. exact Hz.
      * apply in_or_app. right. apply in_or_app. right. right. apply in_map. exact Hz.
    + apply Nu. rewrite <- E. destruct Hz as [Hz|[Hz|Hz]].
      * apply in_or_app. left. apply in_or_app. left. apply in_map. exact Hz.
      * apply in_or_app. left. apply in_or_app. right. right. apply in_map. exact Hz.
      * apply in_or_app. right. apply in_map. exact Hz.
Qed.

(* for every straight-line function (any ops in any order, existing barriers, deallocs): after the
   pass, every pair of ops of the DM and the compute core that use a common SSA value is guarded *)
Theorem straightline_pass_all_guarded : forall p0 flat, straight p0 flat ->
  all_guarded (map leaf_of (run_pass flat)) = true.
Proof.
  intros p0 flat [Hpar Hnd]. unfold all_guarded. apply forallb_forall. intros a Ha. apply forallb_forall. intros b Hb.
  destruct (static_conflict a b) eqn:Esc; [|reflexivity]. simpl.
  assert (Hleaf : forall c, In c (leavesl (map leaf_of (run_pass flat))) ->
            exists y, In y (run_pass flat) /\ is_sync y = false /\ c = (oi_id y, core_of y, [], oi_operands y)).
  { intros c Hc. unfold leavesl in Hc. apply in_flat_map in Hc as [s [Hs Hc]]. apply in_map_iff in Hs as [y [<- Hy]].
    unfold leaf_of in Hc. simpl in Hc. destruct (is_sync y) eqn:Es; [destruct Hc|]. destruct Hc as [<-|[]].
    exists y. repeat split; assumption. }
  destruct (Hleaf a Ha) as [x [Hx [Sx ->]]]. destruct (Hleaf b Hb) as [u [Hu [Su ->]]]. cbn [fst].
  unfold static_conflict in Esc. apply andb_true_iff in Esc as [Esc Ecf]. apply andb_true_iff in Esc as [Esc Ene].
  apply andb_true_iff in Esc as [Cx Cu]. apply negb_true_iff in Ene. apply Z.eqb_neq in Ene.
  assert (Ox : In x flat) by (destruct (in_run_pass_orig flat x Hx) as [H|H]; [exact H | congruence]).
  assert (Ou : In u flat) by (destruct (in_run_pass_orig flat u Hu) as [H|H]; [exact H | congruence]).
  assert (Hms : must_sync x u = true).
  { unfold must_sync. rewrite (shares_of_conflict x u Ecf), andb_true_r. unfold cross_core, is_dm, is_compute.
    unfold core_of in Cx, Cu, Ene. destruct (oi_kind x), (oi_kind u); simpl in *; try reflexivity; try discriminate; congruence. }
  assert (Hxu : x <> u) by (intros ->; apply Ene; reflexivity).
  destruct (two_positions flat x u Ox Ou Hxu) as [l1 [l2 [l3 [E|E]]]].
  - (* x before u *)
    rewrite E in Hnd. destruct (ids_distinct_3 l1 x l2 u l3 Hnd) as [Nxu Nz].
    assert (Hseg : seg_ok flat (oi_parent x) (l2 ++ [u]) = true).
    { unfold seg_ok. apply forallb_forall. intros y Hy. apply orb_true_iff. left. apply Z.eqb_eq.
      rewrite (Hpar x Ox). apply Hpar. rewrite E. apply in_or_app. right. right.
      apply in_app_or in Hy as [Hy|[<-|[]]]; apply in_or_app; [left; exact Hy | right; left; reflexivity]. }
    destruct (barrier_between_ssa_deps_partial flat l1 x l2 u l3 E Hms Hseg) as [_ [Hsub Hsync]].
    rewrite (run_pass_split flat l1 x l2 u l3 E). apply guardedl_top_split.
    + intros z Hz. apply in_app_or in Hz as [Hz|Hz].
      * apply in_insert_syncs_inv in Hz as [Hz|Hz]; [right; apply (Nz z); left; exact Hz | left; exact Hz].
      * destruct (memb (oi_id x) (barriers flat)); [|destruct Hz]. destruct Hz as [<-|[]]. left. reflexivity.
    + intros z Hz. apply in_app_or in Hz as [Hz|[<-|Hz]].
      * destruct (Hsub z Hz) as [H|H]; [right; apply (Nz z); right; left; exact H | left; exact H].
      * right. intros E'. apply Nxu. symmetry. exact E'.
      * apply in_insert_syncs_inv in Hz as [Hz|Hz]; [right; apply (Nz z); right; right; exact Hz | left; exact Hz].
    + apply bar_follows_top_sync.
      * destruct Hsync as [s [H1 [H2 _]]]. exists s. split; assumption.
      * intros z Hz. destruct (Hsub z Hz) as [H|H]; [right; apply (Nz z); right; left; exact H | left; exact H].
  - (* u before x: nothing that follows x has the id of u *)
    rewrite E in Hnd. destruct (ids_distinct_3 l1 u l2 x l3 Hnd) as [Nux Nz].
    rewrite (run_pass_split flat l1 u l2 x l3 E).
    replace ((insert_syncs (barriers flat) l1 ++ (if memb (oi_id u) (barriers flat) then [sync_before u] else [])) ++
             u :: out_between (barriers flat) l2 x ++ x :: insert_syncs (barriers flat) l3)
      with (((insert_syncs (barriers flat) l1 ++ (if memb (oi_id u) (barriers flat) then [sync_before u] else [])) ++
             u :: out_between (barriers flat) l2 x) ++ x :: insert_syncs (barriers flat) l3)
      by (rewrite <- !app_assoc; reflexivity).
    apply guardedl_top_split.
    + intros z Hz. apply in_app_or in Hz as [Hz|[<-|Hz]].
      * apply in_app_or in Hz as [Hz|Hz].
        { apply in_insert_syncs_inv in Hz as [Hz|Hz]; [right; apply (Nz z); left; exact Hz | left; exact Hz]. }
        { destruct (memb (oi_id u) (barriers flat)); [|destruct Hz]. destruct Hz as [<-|[]]. left. reflexivity. }
      * right. exact Nux.
      * unfold out_between in Hz. apply in_app_or in Hz as [Hz|Hz].
        { apply in_insert_syncs_inv in Hz as [Hz|Hz]; [right; apply (Nz z); right; left; exact Hz | left; exact Hz]. }
        { destruct (memb (oi_id x) (barriers flat)); [|destruct Hz]. destruct Hz as [<-|[]]. left. reflexivity. }
    + intros z Hz. apply in_insert_syncs_inv in Hz as [Hz|Hz]; [right; apply (Nz z); right; right; exact Hz | left; exact Hz].
    + apply bar_follows_top_noU. intros z Hz.
      apply in_insert_syncs_inv in Hz as [Hz|Hz]; [right; apply (Nz z); right; right; exact Hz | left; exact Hz].
Qed.

(* C13 end to end for straight-line functions: on the output of insert-sync-barrier every
   barrier-separated phase is free of DM/compute conflicts and every interleaving of the cores
   computes the memory of the program order *)
Theorem straightline_pass_drf : forall p0 flat, straight p0 flat ->
  forall o ss m,
  Forall2 schedule_of (map (filter specific) (split_phases [] (rrunl o (map leaf_of (run_pass flat)) []))) ss ->
  meq (exec (concat ss) m)
      (exec (concat (map (filter specific) (split_phases [] (rrunl o (map leaf_of (run_pass flat)) [])))) m).
Proof.
  intros p0 flat Hs o ss m H. apply all_guarded_any_interleaving; [|exact H].
  apply (straightline_pass_all_guarded p0 flat Hs).
Qed.

(* ---- end to end for single-loop kernels: pre ; scf.for { body } ; post ------------------------------- *)
Lemma mentions_leaf U y : mentions U (leaf_of y) = negb (is_sync y) && (oi_id y =? U).
Proof. reflexivity. Qed.

Lemma mentions_for_leaves U f : forall L, (forall z, In z L -> is_sync z = true \/ oi_id z <> U) ->
  mentions U (RFor f (map leaf_of L)) = false.
Proof.
  intros L H. cbn [mentions]. induction L as [|z r IH]; [reflexivity|]. cbn [map].
  rewrite mentions_leaf. rewrite IH by (intros w Hw; apply H; right; exact Hw). rewrite orb_false_r.
  destruct (H z (or_introl eq_refl)) as [Hs|Hn]; [rewrite Hs; reflexivity|].
  replace (oi_id z =? U) with false by (symmetry; apply Z.eqb_neq; exact Hn). apply andb_false_r.
Qed.

Lemma guardedl_noX X U : forall l, (forall z, In z l -> is_sync z = true \/ oi_id z <> X) ->
  guardedl X U (map leaf_of l) = true.
Proof.
  induction l as [|z r IH]; intros H; [reflexivity|]. cbn [map guardedl leaf_of].
  rewrite IH by (intros w Hw; apply H; right; exact Hw). rewrite andb_true_r.
  destruct (H z (or_introl eq_refl)) as [Hs|Hn]; [rewrite Hs, andb_false_r; reflexivity|].
  replace (oi_id z =? X) with false by (symmetry; apply Z.eqb_neq; exact Hn). reflexivity.
Qed.

Lemma guardedl_split X U : forall A x B,
  (forall z, In z A -> is_sync z = true \/ oi_id z <> X) ->
  (forall z, In z B -> is_sync z = true \/ oi_id z <> X) ->
  bar_follows U (map leaf_of B) = true ->
  guardedl X U (map leaf_of (A ++ x :: B)) = true.
Proof.
  induction A as [|z r IH]; intros x B HA HB Hbf.
  - cbn [app map guardedl leaf_of]. rewrite (guardedl_noX X U B HB), andb_true_r.
    destruct ((oi_id x =? X) && negb (is_sync x)); [exact Hbf | reflexivity].
  - cbn [app map guardedl leaf_of]. rewrite IH; [|intros w Hw; apply HA; right; exact Hw | exact HB | exact Hbf].
    rewrite andb_true_r. destruct (HA z (or_introl eq_refl)) as [Hs|Hn]; [rewrite Hs, andb_false_r; reflexivity|].
    replace (oi_id z =? X) with false by (symmetry; apply Z.eqb_neq; exact Hn). reflexivity.
Qed.

Lemma bar_follows_sync U : forall seg rest,
  (exists s, In s seg /\ is_sync s = true) -> (forall z, In z seg -> is_sync z = true \/ oi_id z <> U) ->
  bar_follows U (map leaf_of (seg ++ rest)) = true.
Proof.
  induction seg as [|z r IH]; intros rest [s [Hs Hss]] H; [destruct Hs|].
  cbn [app map bar_follows leaf_of]. destruct (is_sync z) eqn:Es; [reflexivity|].
  destruct (H z (or_introl eq_refl)) as [Hz|Hn]; [congruence|].
  replace (oi_id z =? U) with false by (symmetry; apply Z.eqb_neq; exact Hn).
  apply IH.
  - destruct Hs as [<-|Hs]; [congruence|]. exists s. split; assumption.
  - intros w Hw. apply H. right. exact Hw.
Qed.

Lemma gtop_app_noX X U T : forall A, (forall z, In z A -> is_sync z = true \/ oi_id z <> X) ->
  guardedl_top X U (map leaf_of A ++ T) = guardedl_top X U T.
Proof.
  induction A as [|z r IH]; intros H; [reflexivity|]. cbn [map app guardedl_top leaf_of].
  rewrite IH by (intros w Hw; apply H; right; exact Hw).
  destruct (H z (or_introl eq_refl)) as [Hs|Hn]; [rewrite Hs, andb_false_r; reflexivity|].
  replace (oi_id z =? X) with false by (symmetry; apply Z.eqb_neq; exact Hn). reflexivity.
Qed.

Lemma gtop_split_T X U T : forall A x B,
  (forall z, In z A -> is_sync z = true \/ oi_id z <> X) ->
  (forall z, In z B -> is_sync z = true \/ oi_id z <> X) ->
  guardedl_top X U T = true ->
  bar_follows_top U (map leaf_of B ++ T) = true ->
  guardedl_top X U (map leaf_of (A ++ x :: B) ++ T) = true.
Proof.
  intros A x B HA HB HT Hbf. rewrite map_app, <- app_assoc. rewrite gtop_app_noX by exact HA.
  cbn [map app guardedl_top leaf_of]. rewrite (gtop_app_noX X U T B HB), HT, andb_true_r.
  destruct ((oi_id x =? X) && negb (is_sync x)); [exact Hbf | reflexivity].
Qed.

Lemma bft_sync_T U T : forall seg rest,
  (exists s, In s seg /\ is_sync s = true) -> (forall z, In z seg -> is_sync z = true \/ oi_id z <> U) ->
  bar_follows_top U (map leaf_of (seg ++ rest) ++ T) = true.
Proof.
  induction seg as [|z r IH]; intros rest [s [Hs Hss]] H; [destruct Hs|].
  cbn [app map bar_follows_top leaf_of]. destruct (is_sync z) eqn:Es; [reflexivity|].
  destruct (H z (or_introl eq_refl)) as [Hz|Hn]; [congruence|].
  replace (oi_id z =? U) with false by (symmetry; apply Z.eqb_neq; exact Hn).
  apply IH.
  - destruct Hs as [<-|Hs]; [congruence|]. exists s. split; assumption.
  - intros w Hw. apply H. right. exact Hw.
Qed.

Lemma bft_noU_T U T : forall B, (forall z, In z B -> is_sync z = true \/ oi_id z <> U) ->
  bar_follows_top U T = true -> bar_follows_top U (map leaf_of B ++ T) = true.
Proof.
  induction B as [|z r IH]; intros H HT; [exact HT|]. cbn [map app bar_follows_top leaf_of].
  destruct (is_sync z) eqn:Es; [reflexivity|].
  destruct (H z (or_introl eq_refl)) as [Hz|Hn]; [congruence|].
  replace (oi_id z =? U) with false by (symmetry; apply Z.eqb_neq; exact Hn).
  apply IH; [intros w Hw; apply H; right; exact Hw | exact HT].
Qed.

Lemma in_ins_maybe bars l y z : In z (insert_syncs bars l ++ maybe_sync bars y) -> In z l \/ is_sync z = true.
Proof.
  intros H. apply in_app_or in H as [H|H]; [apply in_insert_syncs_inv in H; exact H|].
  unfold maybe_sync in H. destruct (memb (oi_id y) bars); [|destruct H]. destruct H as [<-|[]]. right. reflexivity.
Qed.

Definition lp_wf (p0 : Z) (q : loopprog) : Prop :=
  (forall y, In y (lp_pre q) \/ y = lp_for q \/ In y (lp_post q) -> oi_parent y = p0) /\
  (forall y, In y (lp_body q) \/ y = lp_yield q ->
     oi_parent y = oi_id (lp_for q) /\ oi_pfor y = true /\ oi_pyield y = oi_id (lp_yield q)) /\
  NoDup (map oi_id (lp_flat q)) /\
  core_of (lp_for q) = -1 /\ core_of (lp_yield q) = -1 /\ is_sync (lp_for q) = false /\ is_sync (lp_yield q) = false.

(* every DM/compute pair that shares a value lies in one region (before the loop, in its body, after it) *)
Definition lp_local (q : loopprog) : Prop :=
  forall x u, In x (lp_flat q) -> In u (lp_flat q) -> must_sync x u = true -> 0 <= core_of u ->
  (In x (lp_pre q) /\ In u (lp_pre q)) \/ (In x (lp_body q) /\ In u (lp_body q)) \/ (In x (lp_post q) /\ In u (lp_post q)).

Lemma split_two {A} (l : list A) x u : In x l -> In u l -> x <> u ->
  exists l1 l2 l3, l = l1 ++ x :: l2 ++ u :: l3 \/ l = l1 ++ u :: l2 ++ x :: l3.
Proof. apply two_positions. Qed.

Theorem loop_pass_all_guarded : forall p0 q, lp_wf p0 q -> lp_local q ->
  all_guarded (lp_tree (barriers (lp_flat q)) q) = true.
Proof.
  intros p0 q [Hpar [Hbody [Hnd [Cf [Cy [Sf Sy]]]]]] Hloc.
  set (flat := lp_flat q) in *. set (bars := barriers flat).
  set (f := lp_for q) in *. set (yld := lp_yield q) in *.
  set (Lpre := insert_syncs bars (lp_pre q) ++ maybe_sync bars f).
  set (Lbody := insert_syncs bars (lp_body q) ++ maybe_sync bars yld).
  set (Lpost := insert_syncs bars (lp_post q)).
  assert (Etree : lp_tree bars q = map leaf_of Lpre ++ RFor (oi_id f) (map leaf_of Lbody) :: map leaf_of Lpost) by reflexivity.
  unfold all_guarded. apply forallb_forall. intros a Ha. apply forallb_forall. intros b Hb.
  destruct (static_conflict a b) eqn:Esc; [|reflexivity]. simpl.
  (* leaves of the tree are the non-sync original ops of the three regions *)
  assert (Hleaf : forall c, In c (leavesl (lp_tree bars q)) ->
            exists y, (In y (lp_pre q) \/ In y (lp_body q) \/ In y (lp_post q)) /\ is_sync y = false /\
                      c = (oi_id y, core_of y, [], oi_operands y)).
  { intros c Hc. rewrite Etree in Hc. unfold leavesl in Hc. rewrite flat_map_app in Hc. cbn [flat_map leaves] in Hc.
    rewrite leaves_inner in Hc. fold (leavesl (map leaf_of Lpre)) in Hc. fold (leavesl (map leaf_of Lpost)) in Hc.
    assert (Hone : forall L, In c (leavesl (map leaf_of L)) -> exists y, In y L /\ is_sync y = false /\ c = (oi_id y, core_of y, [], oi_operands y)).
    { intros L H. unfold leavesl in H. apply in_flat_map in H as [s [Hs H]]. apply in_map_iff in Hs as [y [<- Hy]].
      unfold leaf_of in H. simpl in H. destruct (is_sync y) eqn:Es; [destruct H|]. destruct H as [<-|[]]. exists y. repeat split; assumption. }
    apply in_app_or in Hc as [Hc|Hc]; [|apply in_app_or in Hc as [Hc|Hc]].
    - destruct (Hone _ Hc) as [y [Hy [Hs ->]]]. exists y. split; [|split; [exact Hs | reflexivity]].
      apply in_ins_maybe in Hy as [Hy|Hy]; [left; exact Hy | congruence].
    - destruct (Hone _ Hc) as [y [Hy [Hs ->]]]. exists y. split; [|split; [exact Hs | reflexivity]].
      apply in_ins_maybe in Hy as [Hy|Hy]; [right; left; exact Hy | congruence].
    - destruct (Hone _ Hc) as [y [Hy [Hs ->]]]. exists y. split; [|split; [exact Hs | reflexivity]].
      apply in_insert_syncs_inv in Hy as [Hy|Hy]; [right; right; exact Hy | congruence]. }
  destruct (Hleaf a Ha) as [x [Rx [Sx ->]]]. destruct (Hleaf b Hb) as [u [Ru [Su ->]]]. cbn [fst].
  unfold static_conflict in Esc. apply andb_true_iff in Esc as [Esc Ecf]. apply andb_true_iff in Esc as [Esc Ene].
  apply andb_true_iff in Esc as [Cx Cu]. apply negb_true_iff in Ene. apply Z.eqb_neq in Ene.
  assert (Hms : must_sync x u = true).
  { unfold must_sync. rewrite (shares_of_conflict x u Ecf), andb_true_r. unfold cross_core, is_dm, is_compute.
    unfold core_of in Cx, Cu, Ene. destruct (oi_kind x), (oi_kind u); simpl in *; try reflexivity; try discriminate; congruence. }
  assert (Hxu : x <> u) by (intros ->; apply Ene; reflexivity).
  assert (Hflat : forall y, In y (lp_pre q) \/ In y (lp_body q) \/ In y (lp_post q) -> In y flat).
  { intros y [H|[H|H]]; unfold flat, lp_flat; apply in_or_app; [left; exact H | right; right | right; right];
      apply in_or_app; [left; exact H | right; right; exact H]. }
  destruct (Hloc x u (Hflat x Rx) (Hflat u Ru) Hms ltac:(lia)) as [[Px Pu]|[[Bx Bu]|[Qx Qu]]].
  - (* both before the loop *)
    destruct (split_two (lp_pre q) x u Px Pu Hxu) as [a1 [l2 [a3 [E|E]]]].
    + assert (Ef : flat = a1 ++ x :: l2 ++ u :: (a3 ++ f :: lp_body q ++ yld :: lp_post q)).
      { unfold flat, lp_flat. rewrite E. rewrite <- !app_assoc. simpl. rewrite <- !app_assoc. reflexivity. }
      rewrite Ef in Hnd. destruct (ids_distinct_3 _ _ _ _ _ Hnd) as [Nxu Nz].
      assert (Hseg : seg_ok flat (oi_parent x) (l2 ++ [u]) = true).
      { unfold seg_ok. apply forallb_forall. intros y Hy. apply orb_true_iff. left. apply Z.eqb_eq.
        rewrite (Hpar x (or_introl Px)). apply Hpar. left. rewrite E. apply in_or_app. right. right.
        apply in_app_or in Hy as [Hy|[<-|[]]]; apply in_or_app; [left; exact Hy | right; left; reflexivity]. }
      destruct (barrier_between_ssa_deps_partial flat a1 x l2 u _ Ef Hms Hseg) as [_ [Hsub Hsync]].
      rewrite Etree.
      assert (ELpre : Lpre = (insert_syncs bars a1 ++ maybe_sync bars x) ++ x ::
                            (out_between bars l2 u ++ u :: insert_syncs bars a3 ++ maybe_sync bars f)).
      { unfold Lpre, out_between, maybe_sync. rewrite E.
        replace (a1 ++ x :: l2 ++ u :: a3) with (a1 ++ [x] ++ l2 ++ [u] ++ a3) by reflexivity.
        rewrite !insert_syncs_app, !insert_syncs_one. repeat (rewrite <- app_assoc; cbn [app]). reflexivity. }
      rewrite ELpre. apply gtop_split_T.
      * intros z Hz. apply in_ins_maybe in Hz as [Hz|Hz]; [right; apply (Nz z); left; exact Hz | left; exact Hz].
      * intros z Hz. apply in_app_or in Hz as [Hz|[<-|Hz]].
        { destruct (Hsub z Hz) as [H|H]; [right; apply (Nz z); right; left; exact H | left; exact H]. }
        { right. intros E'. apply Nxu. symmetry. exact E'. }
        { apply in_ins_maybe in Hz as [Hz|Hz]; [right; apply (Nz z); right; right; apply in_or_app; left; exact Hz | left; exact Hz]. }
      * cbn [guardedl_top]. rewrite guarded_For. rewrite guardedl_noX, guardedl_top_noX; [reflexivity | |].
        { intros z Hz. apply in_insert_syncs_inv in Hz as [Hz|Hz]; [right | left; exact Hz].
          apply (Nz z). right. right. apply in_or_app. right. right. apply in_or_app. right. right. exact Hz. }
        { intros z Hz. apply in_ins_maybe in Hz as [Hz|Hz]; [right | left; exact Hz].
          apply (Nz z). right. right. apply in_or_app. right. right. apply in_or_app. left. exact Hz. }
      * apply bft_sync_T.
        { destruct Hsync as [s [H1 [H2 _]]]. exists s. split; assumption. }
        { intros z Hz. destruct (Hsub z Hz) as [H|H]; [right; apply (Nz z); right; left; exact H | left; exact H]. }
    + assert (Ef : flat = a1 ++ u :: l2 ++ x :: (a3 ++ f :: lp_body q ++ yld :: lp_post q)).
      { unfold flat, lp_flat. rewrite E. rewrite <- !app_assoc. simpl. rewrite <- !app_assoc. reflexivity. }
      rewrite Ef in Hnd. destruct (ids_distinct_3 _ _ _ _ _ Hnd) as [Nux Nz].
      rewrite Etree.
      assert (ELpre : Lpre = (insert_syncs bars a1 ++ maybe_sync bars u ++ u :: out_between bars l2 x) ++ x ::
                            (insert_syncs bars a3 ++ maybe_sync bars f)).
      { unfold Lpre, out_between, maybe_sync. rewrite E.
        replace (a1 ++ u :: l2 ++ x :: a3) with (a1 ++ [u] ++ l2 ++ [x] ++ a3) by reflexivity.
        rewrite !insert_syncs_app, !insert_syncs_one. repeat (rewrite <- app_assoc; cbn [app]). reflexivity. }
      rewrite ELpre. apply gtop_split_T.
      * intros z Hz. apply in_app_or in Hz as [Hz|Hz]; [apply in_insert_syncs_inv in Hz as [Hz|Hz]; [right; apply (Nz z); left; exact Hz | left; exact Hz]|].
        apply in_app_or in Hz as [Hz|[<-|Hz]].
        { unfold maybe_sync in Hz. destruct (memb (oi_id u) bars); [|destruct Hz]. destruct Hz as [<-|[]]. left. reflexivity. }
        { right. exact Nux. }
        { unfold out_between in Hz. apply in_app_or in Hz as [Hz|Hz].
          - apply in_insert_syncs_inv in Hz as [Hz|Hz]; [right; apply (Nz z); right; left; exact Hz | left; exact Hz].
          - destruct (memb (oi_id x) bars); [|destruct Hz]. destruct Hz as [<-|[]]. left. reflexivity. }
      * intros z Hz. apply in_ins_maybe in Hz as [Hz|Hz]; [right; apply (Nz z); right; right; apply in_or_app; left; exact Hz | left; exact Hz].
      * cbn [guardedl_top]. rewrite guarded_For. rewrite guardedl_noX, guardedl_top_noX; [reflexivity | |].
        { intros z Hz. apply in_insert_syncs_inv in Hz as [Hz|Hz]; [right | left; exact Hz].
          apply (Nz z). right. right. apply in_or_app. right. right. apply in_or_app. right. right. exact Hz. }
        { intros z Hz. apply in_ins_maybe in Hz as [Hz|Hz]; [right | left; exact Hz].
          apply (Nz z). right. right. apply in_or_app. right. right. apply in_or_app. left. exact Hz. }
      * apply bft_noU_T.
        { intros z Hz. apply in_ins_maybe in Hz as [Hz|Hz]; [right; apply (Nz z); right; right; apply in_or_app; left; exact Hz | left; exact Hz]. }
        { cbn [bar_follows_top]. rewrite mentions_for_leaves.
          - simpl. apply bar_follows_top_noU. intros z Hz. apply in_insert_syncs_inv in Hz as [Hz|Hz]; [right | left; exact Hz].
            apply (Nz z). right. right. apply in_or_app. right. right. apply in_or_app. right. right. exact Hz.
          - intros z Hz. apply in_ins_maybe in Hz as [Hz|Hz]; [right | left; exact Hz].
            apply (Nz z). right. right. apply in_or_app. right. right. apply in_or_app. left. exact Hz. }
  - (* both in the loop body *)
    assert (HpreX : forall X', (forall z, In z (lp_pre q) \/ z = f -> oi_id z <> X') ->
              forall z, In z Lpre -> is_sync z = true \/ oi_id z <> X').
    { intros X' H z Hz. apply in_ins_maybe in Hz as [Hz|Hz]; [right; apply H; left; exact Hz | left; exact Hz]. }
    destruct (split_two (lp_body q) x u Bx Bu Hxu) as [b1 [l2 [b3 [E|E]]]].
    + assert (Ef : flat = (lp_pre q ++ f :: b1) ++ x :: l2 ++ u :: (b3 ++ yld :: lp_post q)).
      { unfold flat, lp_flat. rewrite E. rewrite <- !app_assoc. simpl. rewrite <- !app_assoc. reflexivity. }
      rewrite Ef in Hnd. destruct (ids_distinct_3 _ _ _ _ _ Hnd) as [Nxu Nz].
      destruct (Hbody x (or_introl Bx)) as [Px [Fx Yx]].
      assert (Hseg : seg_ok flat (oi_parent x) (l2 ++ [u]) = true).
      { unfold seg_ok. apply forallb_forall. intros y Hy. apply orb_true_iff. left. apply Z.eqb_eq.
        rewrite Px. apply Hbody. left. rewrite E. apply in_or_app. right. right.
        apply in_app_or in Hy as [Hy|[<-|[]]]; apply in_or_app; [left; exact Hy | right; left; reflexivity]. }
      destruct (barrier_between_ssa_deps_partial flat _ x l2 u _ Ef Hms Hseg) as [_ [Hsub Hsync]].
      rewrite Etree. rewrite gtop_app_noX.
      2:{ intros z Hz. apply in_ins_maybe in Hz as [Hz|Hz]; [right | left; exact Hz].
          apply (Nz z). left. apply in_or_app. left. exact Hz. }
      cbn [guardedl_top]. rewrite guarded_For. rewrite guardedl_top_noX.
      2:{ intros z Hz. apply in_insert_syncs_inv in Hz as [Hz|Hz]; [right | left; exact Hz].
          apply (Nz z). right. right. apply in_or_app. right. right. exact Hz. }
      rewrite andb_true_r.
      assert (EL : Lbody = (insert_syncs bars b1 ++ maybe_sync bars x) ++ x ::
                           (out_between bars l2 u ++ u :: insert_syncs bars b3 ++ maybe_sync bars yld)).
      { unfold Lbody, out_between, maybe_sync. rewrite E.
        replace (b1 ++ x :: l2 ++ u :: b3) with (b1 ++ [x] ++ l2 ++ [u] ++ b3) by reflexivity.
        rewrite !insert_syncs_app, !insert_syncs_one. repeat (rewrite <- app_assoc; cbn [app]). reflexivity. }
      rewrite EL. apply guardedl_split.
      * intros z Hz. apply in_ins_maybe in Hz as [Hz|Hz]; [right; apply (Nz z); left; apply in_or_app; right; right; exact Hz | left; exact Hz].
      * intros z Hz. apply in_app_or in Hz as [Hz|[<-|Hz]].
        { destruct (Hsub z Hz) as [H|H]; [right; apply (Nz z); right; left; exact H | left; exact H]. }
        { right. intros E'. apply Nxu. symmetry. exact E'. }
        { apply in_ins_maybe in Hz as [Hz|Hz]; [right; apply (Nz z); right; right; apply in_or_app; left; exact Hz | left; exact Hz]. }
      * apply bar_follows_sync.
        { destruct Hsync as [s [H1 [H2 _]]]. exists s. split; assumption. }
        { intros z Hz. destruct (Hsub z Hz) as [H|H]; [right; apply (Nz z); right; left; exact H | left; exact H]. }
    + (* u precedes x in the body: the barrier before the yield guards the back-edge *)
      assert (Ef : flat = (lp_pre q ++ f :: b1) ++ u :: l2 ++ x :: (b3 ++ yld :: lp_post q)).
      { unfold flat, lp_flat. rewrite E. rewrite <- !app_assoc. simpl. rewrite <- !app_assoc. reflexivity. }
      rewrite Ef in Hnd. destruct (ids_distinct_3 _ _ _ _ _ Hnd) as [Nux Nz].
      destruct (Hbody x (or_introl Bx)) as [Px [Fx Yx]]. destruct (Hbody u (or_introl Bu)) as [Pu _].
      assert (Ef2 : flat = ((lp_pre q ++ f :: b1) ++ u :: l2) ++ x :: b3 ++ yld :: lp_post q).
      { rewrite Ef. rewrite <- !app_assoc. reflexivity. }
      assert (Hseg : seg_ok flat (oi_parent x) (b3 ++ [yld]) = true).
      { unfold seg_ok. apply forallb_forall. intros y Hy. apply orb_true_iff. left. apply Z.eqb_eq.
        rewrite Px. apply in_app_or in Hy as [Hy|[<-|[]]].
        - apply Hbody. left. rewrite E. apply in_or_app. right. right. apply in_or_app. right. right. exact Hy.
        - apply Hbody. right. reflexivity. }
      assert (Hspf : same_parent_for x u = true).
      { unfold same_parent_for. rewrite Px, Pu, Z.eqb_refl, Fx. reflexivity. }
      destruct (barrier_on_backedge_partial flat _ x b3 yld (lp_post q) u Ef2 (Hflat u Ru) Hms Hspf (eq_sym Yx) Hseg) as [_ [Hsub Hsync]].
      rewrite Etree. rewrite gtop_app_noX.
      2:{ intros z Hz. apply in_ins_maybe in Hz as [Hz|Hz]; [right | left; exact Hz].
          apply (Nz z). left. apply in_or_app. left. exact Hz. }
      cbn [guardedl_top]. rewrite guarded_For. rewrite guardedl_top_noX.
      2:{ intros z Hz. apply in_insert_syncs_inv in Hz as [Hz|Hz]; [right | left; exact Hz].
          apply (Nz z). right. right. apply in_or_app. right. right. exact Hz. }
      rewrite andb_true_r.
      assert (EL : Lbody = (insert_syncs bars b1 ++ maybe_sync bars u ++ u :: out_between bars l2 x) ++ x ::
                           (out_between bars b3 yld)).
      { unfold Lbody, out_between, maybe_sync. rewrite E.
        replace (b1 ++ u :: l2 ++ x :: b3) with (b1 ++ [u] ++ l2 ++ [x] ++ b3) by reflexivity.
        rewrite !insert_syncs_app, !insert_syncs_one. repeat (rewrite <- app_assoc; cbn [app]). reflexivity. }
      rewrite EL. apply guardedl_split.
      * intros z Hz. apply in_app_or in Hz as [Hz|Hz]; [apply in_insert_syncs_inv in Hz as [Hz|Hz]; [right; apply (Nz z); left; apply in_or_app; right; right; exact Hz | left; exact Hz]|].
        apply in_app_or in Hz as [Hz|[<-|Hz]].
        { unfold maybe_sync in Hz. destruct (memb (oi_id u) bars); [|destruct Hz]. destruct Hz as [<-|[]]. left. reflexivity. }
        { right. exact Nux. }
        { unfold out_between in Hz. apply in_app_or in Hz as [Hz|Hz].
          - apply in_insert_syncs_inv in Hz as [Hz|Hz]; [right; apply (Nz z); right; left; exact Hz | left; exact Hz].
          - destruct (memb (oi_id x) bars); [|destruct Hz]. destruct Hz as [<-|[]]. left. reflexivity. }
      * intros z Hz. destruct (Hsub z Hz) as [H|H]; [right; apply (Nz z); right; right; apply in_or_app; left; exact H | left; exact H].
      * rewrite <- (app_nil_r (out_between bars b3 yld)). apply bar_follows_sync.
        { destruct Hsync as [s [H1 [H2 _]]]. exists s. split; assumption. }
        { intros z Hz. destruct (Hsub z Hz) as [H|H]; [right; apply (Nz z); right; right; apply in_or_app; left; exact H | left; exact H]. }
  - (* both behind the loop: as in a straight-line function *)
    destruct (split_two (lp_post q) x u Qx Qu Hxu) as [p1 [l2 [p3 [E|E]]]].
    + assert (Ef : flat = (lp_pre q ++ f :: lp_body q ++ yld :: p1) ++ x :: l2 ++ u :: p3).
      { unfold flat, lp_flat. rewrite E. rewrite <- !app_assoc. simpl. rewrite <- !app_assoc. reflexivity. }
      rewrite Ef in Hnd. destruct (ids_distinct_3 _ _ _ _ _ Hnd) as [Nxu Nz].
      assert (Hseg : seg_ok flat (oi_parent x) (l2 ++ [u]) = true).
      { unfold seg_ok. apply forallb_forall. intros y Hy. apply orb_true_iff. left. apply Z.eqb_eq.
        rewrite (Hpar x (or_intror (or_intror Qx))). apply Hpar. right. right. rewrite E. apply in_or_app. right. right.
        apply in_app_or in Hy as [Hy|[<-|[]]]; apply in_or_app; [left; exact Hy | right; left; reflexivity]. }
      destruct (barrier_between_ssa_deps_partial flat _ x l2 u _ Ef Hms Hseg) as [_ [Hsub Hsync]].
      rewrite Etree. rewrite gtop_app_noX.
      2:{ intros z Hz. apply in_ins_maybe in Hz as [Hz|Hz]; [right | left; exact Hz].
          apply (Nz z). left. apply in_or_app. left. exact Hz. }
      cbn [guardedl_top]. rewrite guarded_For. rewrite guardedl_noX.
      2:{ intros z Hz. apply in_ins_maybe in Hz as [Hz|Hz]; [right | left; exact Hz].
          apply (Nz z). left. apply in_or_app. right. right. apply in_or_app. left. exact Hz. }
      cbn [andb].
      assert (EL : Lpost = (insert_syncs bars p1 ++ maybe_sync bars x) ++ x :: (out_between bars l2 u ++ u :: insert_syncs bars p3)).
      { unfold Lpost, out_between, maybe_sync. rewrite E.
        replace (p1 ++ x :: l2 ++ u :: p3) with (p1 ++ [x] ++ l2 ++ [u] ++ p3) by reflexivity.
        rewrite !insert_syncs_app, !insert_syncs_one. repeat (rewrite <- app_assoc; cbn [app]). reflexivity. }
      rewrite EL. apply guardedl_top_split.
      * intros z Hz. apply in_ins_maybe in Hz as [Hz|Hz]; [right | left; exact Hz].
        apply (Nz z). left. apply in_or_app. right. right. apply in_or_app. right. right. exact Hz.
      * intros z Hz. apply in_app_or in Hz as [Hz|[<-|Hz]].
        { destruct (Hsub z Hz) as [H|H]; [right; apply (Nz z); right; left; exact H | left; exact H]. }
        { right. intros E'. apply Nxu. symmetry. exact E'. }
        { apply in_insert_syncs_inv in Hz as [Hz|Hz]; [right; apply (Nz z); right; right; exact Hz | left; exact Hz]. }
      * apply bar_follows_top_sync.
        { destruct Hsync as [s [H1 [H2 _]]]. exists s. split; assumption. }
        { intros z Hz. destruct (Hsub z Hz) as [H|H]; [right; apply (Nz z); right; left; exact H | left; exact H]. }
    + assert (Ef : flat = (lp_pre q ++ f :: lp_body q ++ yld :: p1) ++ u :: l2 ++ x :: p3).
      { unfold flat, lp_flat. rewrite E. rewrite <- !app_assoc. simpl. rewrite <- !app_assoc. reflexivity. }
      rewrite Ef in Hnd. destruct (ids_distinct_3 _ _ _ _ _ Hnd) as [Nux Nz].
      rewrite Etree. rewrite gtop_app_noX.
      2:{ intros z Hz. apply in_ins_maybe in Hz as [Hz|Hz]; [right | left; exact Hz].
          apply (Nz z). left. apply in_or_app. left. exact Hz. }
      cbn [guardedl_top]. rewrite guarded_For. rewrite guardedl_noX.
      2:{ intros z Hz. apply in_ins_maybe in Hz as [Hz|Hz]; [right | left; exact Hz].
          apply (Nz z). left. apply in_or_app. right. right. apply in_or_app. left. exact Hz. }
      cbn [andb].
      assert (EL : Lpost = (insert_syncs bars p1 ++ maybe_sync bars u ++ u :: out_between bars l2 x) ++ x :: insert_syncs bars p3).
      { unfold Lpost, out_between, maybe_sync. rewrite E.
        replace (p1 ++ u :: l2 ++ x :: p3) with (p1 ++ [u] ++ l2 ++ [x] ++ p3) by reflexivity.
        rewrite !insert_syncs_app, !insert_syncs_one. repeat (rewrite <- app_assoc; cbn [app]). reflexivity. }
      rewrite EL. apply guardedl_top_split.
      * intros z Hz. apply in_app_or in Hz as [Hz|Hz]; [apply in_insert_syncs_inv in Hz as [Hz|Hz]; [right | left; exact Hz]|].
        { apply (Nz z). left. apply in_or_app. right. right. apply in_or_app. right. right. exact Hz. }
        apply in_app_or in Hz as [Hz|[<-|Hz]].
        { unfold maybe_sync in Hz. destruct (memb (oi_id u) bars); [|destruct Hz]. destruct Hz as [<-|[]]. left. reflexivity. }
        { right. exact Nux. }
        { unfold out_between in Hz. apply in_app_or in Hz as [Hz|Hz].
          - apply in_insert_syncs_inv in Hz as [Hz|Hz]; [right; apply (Nz z); right; left; exact Hz | left; exact Hz].
          - destruct (memb (oi_id x) bars); [|destruct Hz]. destruct Hz as [<-|[]]. left. reflexivity. }
      * intros z Hz. apply in_insert_syncs_inv in Hz as [Hz|Hz]; [right; apply (Nz z); right; right; exact Hz | left; exact Hz].
      * apply bar_follows_top_noU. intros z Hz.
        apply in_insert_syncs_inv in Hz as [Hz|Hz]; [right; apply (Nz z); right; right; exact Hz | left; exact Hz].
Qed.

(* ---- on the barrier machine itself --------------------------------------------------------------------- *)
From Snax Require Import Model.MultiCoreStreams Proofs.MultiCoreMachine Proofs.MultiCoreStreamsProofs.

(* a program all of whose conflicting pairs are guarded, run on the barrier machine along any path:
   every maximal execution of the cores terminates in the memory of the program order *)
Theorem all_guarded_machine : forall prog, all_guarded prog = true ->
  forall o cores m, cores <> [] -> NoDup cores ->
  let phs := map (filter specific) (split_phases [] (rrunl o prog [])) in
  (forall ph op, In ph phs -> In op ph -> In (o_core op) cores) ->
  forall cfg, steps (streams_of cores phs, m) cfg ->
    (all_finished (fst cfg) = true /\ meq (snd cfg) (exec (concat phs) m)) \/ (exists cfg', step cfg cfg').
Proof.
  intros prog Hall o cores m Hc Hn phs Hin cfg Hs.
  apply (machine_phases cores phs m Hc Hn Hin); [|exact Hs].
  apply Forall_forall. intros ph Hph. unfold phs in Hph. apply in_map_iff in Hph as [ph0 [<- H0]].
  pose proof (all_guarded_phases_drf prog Hall o) as Hf. rewrite Forall_forall in Hf. apply Hf. exact H0.
Qed.
