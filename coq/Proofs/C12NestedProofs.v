(* C12 (ii) — the coherence theorem lifted from a flat block to blocks with scf.for loops (any nesting
   depth, any trip counts) below the cast's block, outside the finding classes F26 (an output use inside
   a loop) and F30 (the first use is a reader inside a loop).  There the loops contain readers of the
   cast only and come after the first use, the pass leaves them unchanged, and they preserve the
   simulation relation for every trip count (induction on the trip count, nested induction on items). *)
From Snax Require Import Base.Prelude Model.C12Casts Proofs.C12CoherenceProofs.

(* ---- induction principle for the nested item type ------------------------------------------------- *)
Lemma item_ind2 (P : item -> Prop) :
  (forall id uses, P (IOp id uses)) -> (forall a b c e, P (ICast a b c e)) ->
  (forall v, P (IAlloc v)) -> (forall a b, P (ICopy a b)) ->
  (forall lid body, Forall P body -> P (ILoop lid body)) -> forall it, P it.
Proof.
  intros H1 H2 H3 H4 H5. fix IH 1. intros [id uses|a b c e|v|a b|lid body];
    [apply H1|apply H2|apply H3|apply H4|].
  apply H5. exact ((fix go (l : list item) : Forall P l :=
                      match l with [] => Forall_nil P | x :: r => Forall_cons x (IH x) (go r) end) body).
Qed.

(* ---- the nested fixpoints as list functions --------------------------------------------------------- *)
Lemma exec_loop trips lid body s :
  exec_item trips (ILoop lid body) s = iter (trips lid) (exec_list trips body) s.
Proof.
  cbn [exec_item].
  assert (E : forall l s1, (fix go (l : list item) (s1 : state) : state :=
                              match l with [] => s1 | x :: r => go r (exec_item trips x s1) end) l s1 =
                           exec_list trips l s1).
  { induction l as [|x r IH]; intros s1; [reflexivity|]. rewrite IH. reflexivity. }
  generalize (trips lid) as n. intros n. revert s. induction n as [|n IHn]; intros s; [reflexivity|].
  cbn [iter]. rewrite E. apply IHn.
Qed.

Lemma has_out_loop d lid body : item_has_out d (ILoop lid body) = existsb (item_has_out d) body.
Proof. cbn [item_has_out]. induction body as [|x r IH]; [reflexivity|]. cbn [existsb]. rewrite <- IH. reflexivity. Qed.

Lemma used_loop d lid body : item_used d (ILoop lid body) = existsb (item_used d) body.
Proof. cbn [item_used]. induction body as [|x r IH]; [reflexivity|]. cbn [existsb]. rewrite <- IH. reflexivity. Qed.

Lemma inner_ok_loop d others lid body : inner_ok d others (ILoop lid body) = forallb (inner_ok d others) body.
Proof. cbn [inner_ok]. induction body as [|x r IH]; [reflexivity|]. cbn [forallb]. rewrite <- IH. reflexivity. Qed.

Lemma walk_flags_loop d lid body : walk_flags_item d (ILoop lid body) = flat_map (walk_flags_item d) body.
Proof. cbn [walk_flags_item]. induction body as [|x r IH]; [reflexivity|]. cbn [flat_map]. rewrite <- IH. reflexivity. Qed.

Fixpoint ins_body (d s0 : nat) (later : bool) (l : list item) (seen : bool) : list item * bool :=
  match l with
  | [] => ([], seen)
  | x :: r =>
      let x' := ins_item d s0 seen (has_out d r || later) x in
      let r' := ins_body d s0 later r (snd x') in
      (fst x' ++ fst r', snd r')
  end.

Lemma ins_loop d s0 seen later lid body :
  ins_item d s0 seen later (ILoop lid body) =
  ([ILoop lid (fst (ins_body d s0 later body seen))], snd (ins_body d s0 later body seen)).
Proof.
  cbn [ins_item].
  assert (E : forall l sn, (fix go (l : list item) (seen : bool) : list item * bool :=
               match l with
               | [] => ([], seen)
               | x :: r =>
                   let x' := ins_item d s0 seen (has_out d r || later) x in
                   let r' := go r (snd x') in
                   (fst x' ++ fst r', snd r')
               end) l sn = ins_body d s0 later l sn).
  { induction l as [|x r IH]; intros sn; [reflexivity|]. cbn [ins_body]. rewrite <- IH. reflexivity. }
  rewrite E. reflexivity.
Qed.

Section Nested.
  Variables (trips : nat -> nat) (d s0 B : nat) (others : list nat).
  Hypothesis HAB : d <> B.
  Hypothesis Hs0 : s0 <> d.
  Hypothesis HBo : In B others.
  Hypothesis Hs0o : In s0 others.

  Notation REL := (Rel d s0 B others).

  Lemma inner_flat it : (forall lid body, it <> ILoop lid body) -> inner_ok d others it = flat_ok d others it.
  Proof. destruct it; intros H; try reflexivity. exfalso. apply (H lid body). reflexivity. Qed.

  (* a non-operation leaf that passes the check does not use d *)
  Lemma leaf_flags_none it : flat_ok d others it = true -> (forall id uses, it <> IOp id uses) ->
    item_flags d it = None.
  Proof.
    intros Hok Hn. destruct (item_flags d it) as [f|] eqn:E; [|reflexivity].
    destruct (flat_use_is_op d others it f Hok E) as [id [uses ->]]. exfalso. apply (Hn id uses). reflexivity.
  Qed.

  (* read-only items preserve the relation, for every trip count *)
  Lemma ro_item : forall it, inner_ok d others it = true -> item_has_out d it = false ->
    forall seen dirty s s', (seen = true \/ item_used d it = false) -> REL seen dirty s s' ->
    REL seen dirty (exec_item trips it s) (exec_item trips it s').
  Proof.
    apply (item_ind2 (fun it => inner_ok d others it = true -> item_has_out d it = false ->
      forall seen dirty s s', (seen = true \/ item_used d it = false) -> REL seen dirty s s' ->
      REL seen dirty (exec_item trips it s) (exec_item trips it s'))).
    - intros id uses Hok Hout seen dirty s s' Hsu R.
      change (inner_ok d others (IOp id uses)) with (flat_ok d others (IOp id uses)) in Hok.
      destruct (item_flags d (IOp id uses)) as [[i o]|] eqn:Ef.
      + cbn [item_has_out] in Hout. rewrite Ef in Hout. subst o.
        pose proof (flags_io d id uses i false Ef) as Hio.
        assert (Hseen : seen = true).
        { destruct Hsu as [H|H]; [exact H|]. cbn [item_used] in H. rewrite Ef in H. discriminate. }
        subst seen.
        assert (Hfl := Ef). cbn [item_flags] in Hfl. destruct (uses_val d uses); [|discriminate].
        assert (Ei : existsb (fun u => (fst u =? d)%nat && k_is_input (snd u)) uses = i) by congruence.
        assert (Eo : existsb (fun u => (fst u =? d)%nat && k_is_output (snd u)) uses = false) by congruence.
        pose proof (step_use trips d s0 B others HAB Hs0 true dirty id uses i false false s s'
                      Hok Ei Eo Hio R ltac:(discriminate)) as R1.
        rewrite andb_false_r in R1. cbn [andb app] in R1. exact R1.
      + apply (step_other trips d s0 B others HAB HBo Hs0o); assumption.
    - intros a b c e Hok _ seen dirty s s' _ R.
      apply (step_other trips d s0 B others HAB HBo Hs0o); [exact Hok| |exact R].
      apply leaf_flags_none; [exact Hok|discriminate].
    - intros v Hok _ seen dirty s s' _ R.
      apply (step_other trips d s0 B others HAB HBo Hs0o); [exact Hok| |exact R].
      apply leaf_flags_none; [exact Hok|discriminate].
    - intros a b Hok _ seen dirty s s' _ R.
      apply (step_other trips d s0 B others HAB HBo Hs0o); [exact Hok| |exact R].
      apply leaf_flags_none; [exact Hok|discriminate].
    - intros lid body IHb Hok Hout seen dirty s s' Hsu R.
      rewrite inner_ok_loop in Hok. rewrite has_out_loop in Hout. rewrite used_loop in Hsu.
      rewrite !exec_loop.
      assert (Hbody : forall l, Forall (fun it => inner_ok d others it = true -> item_has_out d it = false ->
                        forall seen dirty s s', (seen = true \/ item_used d it = false) -> REL seen dirty s s' ->
                        REL seen dirty (exec_item trips it s) (exec_item trips it s')) l ->
                forallb (inner_ok d others) l = true -> existsb (item_has_out d) l = false ->
                (seen = true \/ existsb (item_used d) l = false) ->
                forall s s', REL seen dirty s s' -> REL seen dirty (exec_list trips l s) (exec_list trips l s')).
      { induction l as [|x r IHr]; intros HF Ho Hx Hu t t' Rt; [exact Rt|].
        inversion HF as [|? ? Hx1 Hr1]; subst. cbn [forallb] in Ho. apply andb_true_iff in Ho as [Ho1 Ho2].
        cbn [existsb] in Hx. apply orb_false_iff in Hx as [Hx1' Hx2].
        change (exec_list trips (x :: r) t) with (exec_list trips r (exec_item trips x t)).
        change (exec_list trips (x :: r) t') with (exec_list trips r (exec_item trips x t')).
        apply IHr; try assumption.
        - destruct Hu as [Hu|Hu]; [left; exact Hu|right]. cbn [existsb] in Hu. apply orb_false_iff in Hu. tauto.
        - apply Hx1; try assumption. destruct Hu as [Hu|Hu]; [left; exact Hu|right].
          cbn [existsb] in Hu. apply orb_false_iff in Hu. tauto. }
      generalize (trips lid) as n. intros n. revert s s' R.
      induction n as [|n IHn]; intros s s' R; [exact R|]. cbn [iter]. apply IHn.
      apply (Hbody body IHb Hok Hout Hsu s s' R).
  Qed.

  (* the pass leaves such items unchanged *)
  Lemma ro_ins : forall it, inner_ok d others it = true -> item_has_out d it = false ->
    forall seen later, (seen = true \/ item_used d it = false) ->
    ins_item d s0 seen later it = ([it], seen || item_used d it).
  Proof.
    apply (item_ind2 (fun it => inner_ok d others it = true -> item_has_out d it = false ->
      forall seen later, (seen = true \/ item_used d it = false) ->
      ins_item d s0 seen later it = ([it], seen || item_used d it))).
    - intros id uses Hok Hout seen later Hsu. cbn [ins_item item_used].
      destruct (item_flags d (IOp id uses)) as [[i o]|] eqn:Ef.
      + cbn [item_has_out] in Hout. rewrite Ef in Hout. subst o.
        assert (Hseen : seen = true).
        { destruct Hsu as [H|H]; [exact H|]. cbn [item_used] in H. rewrite Ef in H. discriminate. }
        subst seen. rewrite andb_false_r. cbn [andb app orb]. reflexivity.
      + rewrite orb_false_r. reflexivity.
    - intros a b c e Hok _ seen later _. cbn [ins_item item_used].
      rewrite (leaf_flags_none (ICast a b c e) Hok ltac:(discriminate)), orb_false_r. reflexivity.
    - intros v Hok _ seen later _. cbn [ins_item item_used].
      rewrite (leaf_flags_none (IAlloc v) Hok ltac:(discriminate)), orb_false_r. reflexivity.
    - intros a b Hok _ seen later _. cbn [ins_item item_used].
      rewrite (leaf_flags_none (ICopy a b) Hok ltac:(discriminate)), orb_false_r. reflexivity.
    - intros lid body IHb Hok Hout seen later Hsu.
      rewrite inner_ok_loop in Hok. rewrite has_out_loop in Hout. rewrite used_loop in *.
      rewrite ins_loop.
      assert (Hgo : forall l seen, Forall (fun it => inner_ok d others it = true -> item_has_out d it = false ->
                        forall seen later, (seen = true \/ item_used d it = false) ->
                        ins_item d s0 seen later it = ([it], seen || item_used d it)) l ->
                forallb (inner_ok d others) l = true -> existsb (item_has_out d) l = false ->
                (seen = true \/ existsb (item_used d) l = false) ->
                ins_body d s0 later l seen = (l, seen || existsb (item_used d) l)).
      { induction l as [|x r IHr]; intros sn HF Ho Hx Hu; [cbn; rewrite orb_false_r; reflexivity|].
        inversion HF as [|? ? Hx1 Hr1]; subst. cbn [forallb] in Ho. apply andb_true_iff in Ho as [Ho1 Ho2].
        cbn [existsb] in Hx. apply orb_false_iff in Hx as [Hx1' Hx2].
        assert (Hu1 : sn = true \/ item_used d x = false).
        { destruct Hu as [Hu|Hu]; [left; exact Hu|right]. cbn [existsb] in Hu. apply orb_false_iff in Hu. tauto. }
        cbn [ins_body]. rewrite (Hx1 Ho1 Hx1' sn (has_out d r || later) Hu1). cbn [fst snd].
        rewrite (IHr (sn || item_used d x) Hr1 Ho2 Hx2).
        - cbn [fst snd app existsb]. rewrite orb_assoc. reflexivity.
        - destruct Hu as [Hu|Hu]; [left; rewrite Hu; reflexivity|].
          cbn [existsb] in Hu. apply orb_false_iff in Hu as [Hu1' Hu2]. right. exact Hu2. }
      rewrite (Hgo body seen IHb Hok Hout Hsu). reflexivity.
  Qed.

  (* flags of read-only items *)
  Lemma ro_flags : forall it, item_has_out d it = false ->
    (item_used d it = false -> walk_flags_item d it = []) /\
    (item_used d it = true -> exists f fl, walk_flags_item d it = f :: fl /\ fst f = true).
  Proof.
    apply (item_ind2 (fun it => item_has_out d it = false ->
      (item_used d it = false -> walk_flags_item d it = []) /\
      (item_used d it = true -> exists f fl, walk_flags_item d it = f :: fl /\ fst f = true))).
    - intros id uses Hout. cbn [item_used walk_flags_item item_has_out] in *.
      destruct (item_flags d (IOp id uses)) as [[i o]|] eqn:Ef.
      + subst o. split; [discriminate|]. intros _. exists (i, false), []. split; [reflexivity|].
        pose proof (flags_io d id uses i false Ef) as Hio. rewrite orb_false_r in Hio. exact Hio.
      + split; [reflexivity|discriminate].
    - intros a b c e Hout. cbn [item_used walk_flags_item item_has_out] in *.
      destruct (item_flags d (ICast a b c e)) as [[i o]|] eqn:Ef.
      + cbn [item_flags] in Ef. destruct (b =? d)%nat; [|discriminate]. inversion Ef; subst. discriminate.
      + split; [reflexivity|discriminate].
    - intros v Hout. cbn. split; [reflexivity|discriminate].
    - intros a b Hout. cbn [item_used walk_flags_item item_has_out] in *.
      destruct (item_flags d (ICopy a b)) as [[i o]|] eqn:Ef.
      + cbn [item_flags] in Ef. destruct ((a =? d)%nat || (b =? d)%nat); [|discriminate]. inversion Ef; subst. discriminate.
      + split; [reflexivity|discriminate].
    - intros lid body IHb Hout. rewrite has_out_loop in Hout. rewrite used_loop, walk_flags_loop.
      revert Hout. induction IHb as [|x r Hx Hr IHr]; intros Hout.
      + split; [reflexivity|discriminate].
      + cbn [existsb] in Hout. apply orb_false_iff in Hout as [Ho1 Ho2].
        destruct (Hx Ho1) as [Hx0 Hx1]. destruct (IHr Ho2) as [Hr0 Hr1].
        cbn [existsb flat_map]. destruct (item_used d x) eqn:Eu; cbn [orb].
        * split; [discriminate|]. intros _. destruct (Hx1 eq_refl) as [f [fl [E Hf]]].
          exists f, (fl ++ flat_map (walk_flags_item d) r). split; [rewrite E; reflexivity|exact Hf].
        * rewrite (Hx0 eq_refl). cbn [app]. split; assumption.
  Qed.

  Lemma non_loop_first_in x r : (forall lid body, x <> ILoop lid body) ->
    first_in_loop d (x :: r) = if item_used d x then false else first_in_loop d r.
  Proof. intros H. cbn [first_in_loop]. destruct x; try reflexivity. exfalso. apply (H lid body). reflexivity. Qed.

  (* the block theorem with loops *)
  Theorem realize_block_coherent_nested : forall l seen dirty s s',
    forallb (inner_ok d others) l = true -> existsb (loop_out d) l = false ->
    (seen = false -> first_in_loop d l = false) ->
    (seen = false -> dirty = false) ->
    (dirty = true -> has_out d l = true) -> REL seen dirty s s' ->
    exists seen', REL seen' false (exec_list trips l s)
                      (exec_list trips (fst (ins_list d s0 seen false l)) s').
  Proof.
    induction l as [|it r IH]; intros seen dirty s s' Hok Hlo Hfi Hinv Hdirty R.
    - exists seen. destruct dirty; [specialize (Hdirty eq_refl); discriminate|exact R].
    - cbn [forallb] in Hok. apply andb_true_iff in Hok as [Hit Hr].
      cbn [existsb] in Hlo. apply orb_false_iff in Hlo as [Hlo1 Hlo2].
      cbn [ins_list]. rewrite orb_false_r.
      change (exec_list trips (it :: r) s) with (exec_list trips r (exec_item trips it s)).
      cbn [has_out existsb] in Hdirty. fold (has_out d r) in Hdirty.
      assert (Hcase : (exists lid body, it = ILoop lid body) \/ (forall lid body, it <> ILoop lid body)).
      { destruct it; try (right; intros; discriminate). left. eauto. }
      destruct Hcase as [[lid [body ->]]|Hnl].
      + (* a loop: read-only, after the first use, unchanged by the pass *)
        cbn [loop_out] in Hlo1.
        assert (Hsu : seen = true \/ item_used d (ILoop lid body) = false).
        { destruct seen; [left; reflexivity|right]. specialize (Hfi eq_refl).
          destruct (item_used d (ILoop lid body)) eqn:Eu; [|reflexivity].
          cbn [first_in_loop] in Hfi. rewrite Eu in Hfi.
          destruct (proj2 (ro_flags (ILoop lid body) Hlo1) Eu) as [f [fl [E Hf]]]. rewrite E, Hf in Hfi. discriminate. }
        assert (Hnf : nested_first_write d (ILoop lid body) = false).
        { unfold nested_first_write. destruct (item_used d (ILoop lid body)) eqn:Eu.
          - destruct (proj2 (ro_flags (ILoop lid body) Hlo1) Eu) as [f [fl [E Hf]]]. rewrite E, Hf. reflexivity.
          - rewrite (proj1 (ro_flags (ILoop lid body) Hlo1) Eu). reflexivity. }
        rewrite Hnf, andb_false_r. cbn [app].
        rewrite (ro_ins (ILoop lid body) Hit Hlo1 seen (has_out d r) Hsu). cbn [fst snd app].
        change (exec_list trips (ILoop lid body :: fst (ins_list d s0 (seen || item_used d (ILoop lid body)) false r)) s')
          with (exec_list trips (fst (ins_list d s0 (seen || item_used d (ILoop lid body)) false r))
                  (exec_item trips (ILoop lid body) s')).
        pose proof (ro_item (ILoop lid body) Hit Hlo1 seen dirty s s' Hsu R) as R1.
        rewrite Hlo1 in Hdirty. cbn [orb] in Hdirty.
        destruct Hsu as [Hs|Hu].
        * subst seen. cbn [orb]. apply (IH true dirty _ _ Hr Hlo2); try discriminate; assumption.
        * rewrite Hu, orb_false_r. apply (IH seen dirty _ _ Hr Hlo2); try assumption.
          intros Hs. specialize (Hfi Hs). cbn [first_in_loop] in Hfi. rewrite Hu in Hfi. exact Hfi.
      + (* a leaf: as in the flat theorem *)
        rewrite (inner_flat it Hnl) in Hit.
        rewrite (flat_not_nested d others it Hit), andb_false_r. cbn [app].
        rewrite (non_loop_first_in it r Hnl) in Hfi.
        destruct (item_flags d it) as [[i o]|] eqn:Ef.
        * destruct (flat_use_is_op d others it (i, o) Hit Ef) as [id [uses ->]].
          cbn [ins_item]. rewrite Ef. cbn [fst snd]. rewrite exec_list_app.
          pose proof (flags_io d id uses i o Ef) as Hio.
          assert (Hfl := Ef). cbn [item_flags] in Hfl. destruct (uses_val d uses); [|discriminate].
          assert (Ei : existsb (fun u => (fst u =? d)%nat && k_is_input (snd u)) uses = i) by congruence.
          assert (Eo : existsb (fun u => (fst u =? d)%nat && k_is_output (snd u)) uses = o) by congruence.
          clear Hfl.
          pose proof (step_use trips d s0 B others HAB Hs0 seen dirty id uses i o (has_out d r) s s'
                        Hit Ei Eo Hio R Hinv) as R1.
          apply (IH true (if o then has_out d r else dirty) _ _ Hr Hlo2); try discriminate; [|exact R1].
          destruct o.
          -- intros Hd1. exact Hd1.
          -- intros Hd. specialize (Hdirty Hd). cbn [item_has_out] in Hdirty. rewrite Ef in Hdirty. exact Hdirty.
        * pose proof (flat_has_out_none d others it Hit Ef) as E2. rewrite E2 in Hdirty.
          assert (Hins : ins_item d s0 seen (has_out d r) it = ([it], seen)).
          { destruct it; cbn [ins_item]; try (rewrite Ef; reflexivity). exfalso. apply (Hnl lid body). reflexivity. }
          rewrite Hins. cbn [fst snd app].
          change (exec_list trips (it :: fst (ins_list d s0 seen false r)) s')
            with (exec_list trips (fst (ins_list d s0 seen false r)) (exec_item trips it s')).
          apply (IH seen dirty _ _ Hr Hlo2); try assumption.
          -- intros Hs. specialize (Hfi Hs).
             assert (Eu : item_used d it = false).
             { destruct it; cbn [item_used]; try (rewrite Ef; reflexivity). exfalso. apply (Hnl lid body). reflexivity. }
             rewrite Eu in Hfi. exact Hfi.
          -- apply (step_other trips d s0 B others HAB HBo Hs0o); assumption.
  Qed.
End Nested.

(* One application of the pattern on a block that may contain loops (any depth, any trip counts). *)
Theorem realize_coherent_nested (trips : nat -> nat) (d src td ts s0 : nat) (others : list nat) (post : list item)
  (s : state) :
  (forall v, v <> d -> alias s v <> d) ->
  alias s src = alias s s0 ->
  In (alias s s0) others -> In s0 others -> ~ In d others ->
  (forall v, alias s v = alias s s0 -> In v others) ->
  safe_nested d others post = true ->
  let t := exec_list trips (ICast d src td ts :: post) s in
  let t' := exec_list trips (IAlloc d :: fst (ins_list d s0 false false post)) s in
  trace t = trace t' /\ forall b, b <> d -> memo t b = memo t' b.
Proof.
  intros Hfresh Hsrc HBo Hs0o Hdo Hal Hsafe t t'.
  set (B := alias s s0) in *.
  assert (Hs0 : s0 <> d) by (intros E; apply Hdo; rewrite <- E; exact Hs0o).
  assert (HAB : d <> B) by (intros E; apply (Hfresh s0 Hs0); symmetry; exact E).
  unfold safe_nested in Hsafe. apply andb_true_iff in Hsafe as [Hsafe Hfi]. apply andb_true_iff in Hsafe as [Hok Hlo].
  apply negb_true_iff in Hfi, Hlo.
  assert (R : Rel d s0 B others false false (exec_item trips (ICast d src td ts) s) (exec_item trips (IAlloc d) s)).
  { cbn [exec_item]. constructor; cbn [alias memo trace].
    - intros v Hv. rewrite !upd_other by exact Hv. reflexivity.
    - rewrite upd_same. exact Hsrc.
    - apply upd_same.
    - rewrite upd_other by exact Hs0. reflexivity.
    - intros v. unfold upd. destruct (v =? d)%nat eqn:E; [left; apply Nat.eqb_eq; exact E|intros H; right; apply Hal; exact H].
    - intros v. unfold upd. destruct (v =? d)%nat eqn:E; [congruence|apply Hfresh; apply Nat.eqb_neq; exact E].
    - intros b Hb _. rewrite upd_other by exact Hb. reflexivity.
    - reflexivity.
    - intros _. rewrite upd_other by congruence. reflexivity.
    - discriminate. }
  destruct (realize_block_coherent_nested trips d s0 B others HAB Hs0 HBo Hs0o post false false _ _ Hok Hlo
              (fun _ => Hfi) ltac:(reflexivity) ltac:(discriminate) R) as [seen' R'].
  unfold t, t'.
  change (exec_list trips (ICast d src td ts :: post) s) with (exec_list trips post (exec_item trips (ICast d src td ts) s)).
  change (exec_list trips (IAlloc d :: fst (ins_list d s0 false false post)) s)
    with (exec_list trips (fst (ins_list d s0 false false post)) (exec_item trips (IAlloc d) s)).
  split; [apply (r_trace _ _ _ _ _ _ _ _ R')|].
  intros b Hb. destruct (Nat.eq_dec b B) as [->|HbB].
  - symmetry. apply (r_syncB _ _ _ _ _ _ _ _ R'). reflexivity.
  - apply (r_mem _ _ _ _ _ _ _ _ R'); assumption.
Qed.

(* non-vacuity: write, then a loop nest reading the cast (inner loop in an outer loop), then a writer:
   inside the Safe region, the loops are left unchanged, one copy-out at the end *)
Example realize_nested_nonvacuous :
  let post := [IOp 0 [(2, KOut)];
               ILoop 7 [IOp 1 [(2, KIn); (3, KOut)]; ILoop 8 [IOp 2 [(2, KIn); (4, KOut)]]];
               IOp 3 [(2, KInOut)]]%nat in
  safe_nested 2%nat [0%nat] post = true /\
  fst (ins_list 2%nat 0%nat false false post) = post ++ [ICopy 2 0]%nat.
Proof. split; reflexivity. Qed.
