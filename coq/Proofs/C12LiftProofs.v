(* C12 (ii) — two-state form of the block theorem and the lift of one realisation to the program when the
   cast sits ANYWHERE, in particular inside loop bodies (every iteration re-executes the allocation, so the
   two runs enter the block in states that differ at the name d and at the buffer d).
   Pre d s s' : the two states agree except on the alias of d and the contents of buffer d, and no other
   value names buffer d.  Items that do not mention d preserve Pre (frame lemma, any nesting, any trip
   counts); the realised block re-establishes Pre; loops containing the block iterate it. *)
From Snax Require Import Base.Prelude Model.C12Casts Proofs.C12CoherenceProofs Proofs.C12NestedProofs
  Proofs.C12ComposeProofs.

Record Pre (d : nat) (s s' : state) : Prop := mkPre {
  p_alias : forall v, v <> d -> alias s v = alias s' v;
  p_mem : forall b, b <> d -> memo s b = memo s' b;
  p_trace : trace s = trace s';
  p_fresh : forall v, v <> d -> alias s v <> d
}.

Lemma Pre_init d : Pre d init_state init_state.
Proof. constructor; try reflexivity. intros v Hv. exact Hv. Qed.

(* ---- two-state block theorem --------------------------------------------------------------------- *)
Theorem realize_block2 (trips : nat -> nat) (d src td ts s0 : nat) (others : list nat) (post : list item)
  (s s' : state) :
  Pre d s s' ->
  alias s src = alias s s0 ->
  In (alias s s0) others -> In s0 others -> ~ In d others ->
  (forall v, v <> d -> alias s v = alias s s0 -> In v others) ->
  safe_nested d others post = true ->
  Pre d (exec_list trips (ICast d src td ts :: post) s)
        (exec_list trips (IAlloc d :: fst (ins_list d s0 false false post)) s').
Proof.
  intros HP Hsrc HBo Hs0o Hdo Hal Hsafe.
  set (B := alias s s0) in *.
  assert (Hs0 : s0 <> d) by (intros E; apply Hdo; rewrite <- E; exact Hs0o).
  assert (HAB : d <> B) by (intros E; apply (p_fresh _ _ _ HP s0 Hs0); symmetry; exact E).
  unfold safe_nested in Hsafe. apply andb_true_iff in Hsafe as [Hsafe Hfi]. apply andb_true_iff in Hsafe as [Hok Hlo].
  apply negb_true_iff in Hfi, Hlo.
  assert (R : Rel d s0 B others false false (exec_item trips (ICast d src td ts) s) (exec_item trips (IAlloc d) s')).
  { cbn [exec_item]. constructor; cbn [alias memo trace].
    - intros v Hv. rewrite !upd_other by exact Hv. apply (p_alias _ _ _ HP v Hv).
    - rewrite upd_same. exact Hsrc.
    - apply upd_same.
    - rewrite upd_other by exact Hs0. reflexivity.
    - intros v. unfold upd. destruct (v =? d)%nat eqn:E; [left; apply Nat.eqb_eq; exact E|].
      intros H. right. apply Hal; [apply Nat.eqb_neq; exact E|exact H].
    - intros v. unfold upd. destruct (v =? d)%nat eqn:E; [congruence|apply (p_fresh _ _ _ HP); apply Nat.eqb_neq; exact E].
    - intros b Hb _. rewrite upd_other by exact Hb. apply (p_mem _ _ _ HP b Hb).
    - apply (p_trace _ _ _ HP).
    - intros _. rewrite upd_other by congruence. symmetry. apply (p_mem _ _ _ HP). congruence.
    - discriminate. }
  destruct (realize_block_coherent_nested trips d s0 B others HAB Hs0 HBo Hs0o post false false _ _ Hok Hlo
              (fun _ => Hfi) ltac:(reflexivity) ltac:(discriminate) R) as [seen' R'].
  change (exec_list trips (ICast d src td ts :: post) s) with (exec_list trips post (exec_item trips (ICast d src td ts) s)).
  change (exec_list trips (IAlloc d :: fst (ins_list d s0 false false post)) s')
    with (exec_list trips (fst (ins_list d s0 false false post)) (exec_item trips (IAlloc d) s')).
  constructor.
  - apply (r_alias _ _ _ _ _ _ _ _ R').
  - intros b Hb. destruct (Nat.eq_dec b B) as [->|HbB].
    + symmetry. apply (r_syncB _ _ _ _ _ _ _ _ R'). reflexivity.
    + apply (r_mem _ _ _ _ _ _ _ _ R'); assumption.
  - apply (r_trace _ _ _ _ _ _ _ _ R').
  - intros v _. apply (r_A _ _ _ _ _ _ _ _ R').
Qed.

(* ---- frame: items that do not mention d --------------------------------------------------------- *)
Lemma nm_loop d lid body : nm d (ILoop lid body) = forallb (nm d) body.
Proof. cbn [nm]. induction body as [|x r IH]; [reflexivity|]. cbn [forallb]. rewrite <- IH. reflexivity. Qed.

Lemma wr_pre d (id : nat) (obs : list term) (a a' : nat -> nat) :
  forall (ws : list (nat * (nat * kind))) (m m' : nat -> term),
  (forall ju, In ju ws -> a (fst (snd ju)) = a' (fst (snd ju)) /\ a (fst (snd ju)) <> d) ->
  (forall b, b <> d -> m b = m' b) ->
  forall b, b <> d ->
    fold_left (fun m0 ju => upd m0 (a (fst (snd ju))) (TWr id (fst ju) obs)) ws m b =
    fold_left (fun m0 ju => upd m0 (a' (fst (snd ju))) (TWr id (fst ju) obs)) ws m' b.
Proof.
  induction ws as [|ju ws IH]; intros m m' Hw Hm b Hb; cbn [fold_left]; [apply Hm; exact Hb|].
  apply IH; [intros j Hj; apply Hw; right; exact Hj| |exact Hb].
  intros b0 Hb0. destruct (Hw ju (or_introl eq_refl)) as [E _]. rewrite <- E. unfold upd.
  destruct (b0 =? a (fst (snd ju)))%nat; [reflexivity|apply Hm; exact Hb0].
Qed.

Lemma frame_op d id uses s s' : uses_val d uses = false -> Pre d s s' ->
  Pre d (exec_op id uses s) (exec_op id uses s').
Proof.
  intros Hu HP. pose proof (uses_val_false d uses Hu) as Hnd.
  assert (Hobs : map (fun u => memo s (alias s (fst u))) (filter (fun u => k_reads (snd u)) uses) =
                 map (fun u => memo s' (alias s' (fst u))) (filter (fun u => k_reads (snd u)) uses)).
  { apply map_ext_in. intros u Hin. apply filter_In in Hin as [Hin _].
    rewrite <- (p_alias _ _ _ HP (fst u) (Hnd u Hin)). apply (p_mem _ _ _ HP).
    apply (p_fresh _ _ _ HP). apply (Hnd u Hin). }
  unfold exec_op. rewrite <- Hobs. constructor; cbn [alias memo trace].
  - apply (p_alias _ _ _ HP).
  - intros b Hb. apply (wr_pre d); [|apply (p_mem _ _ _ HP)|exact Hb].
    intros [j u] Hju. cbn [fst snd]. apply in_combine_seq in Hju. apply filter_In in Hju as [Hin _].
    split; [apply (p_alias _ _ _ HP); apply (Hnd u Hin)|apply (p_fresh _ _ _ HP); apply (Hnd u Hin)].
  - f_equal. apply (p_trace _ _ _ HP).
  - apply (p_fresh _ _ _ HP).
Qed.

Lemma frame_item trips d : forall it, nm d it = true -> forall s s', Pre d s s' ->
  Pre d (exec_item trips it s) (exec_item trips it s').
Proof.
  apply (item_ind2 (fun it => nm d it = true -> forall s s', Pre d s s' ->
                              Pre d (exec_item trips it s) (exec_item trips it s'))).
  - intros id uses Hn s s' HP. cbn [nm] in Hn. apply negb_true_iff in Hn. apply frame_op; assumption.
  - intros a b c e Hn s s' HP. cbn [nm] in Hn. apply andb_true_iff in Hn as [Ha Hb].
    apply negb_true_iff, Nat.eqb_neq in Ha, Hb. cbn [exec_item].
    constructor; cbn [alias memo trace]; try apply HP.
    + intros v Hv. unfold upd. destruct (v =? a)%nat; [apply (p_alias _ _ _ HP b Hb)|apply (p_alias _ _ _ HP v Hv)].
    + intros v Hv. unfold upd. destruct (v =? a)%nat; [apply (p_fresh _ _ _ HP b Hb)|apply (p_fresh _ _ _ HP v Hv)].
  - intros v Hn s s' HP. cbn [nm] in Hn. apply negb_true_iff, Nat.eqb_neq in Hn. cbn [exec_item].
    constructor; cbn [alias memo trace]; try apply HP.
    + intros x Hx. unfold upd. destruct (x =? v)%nat; [reflexivity|apply (p_alias _ _ _ HP x Hx)].
    + intros b Hb. unfold upd. destruct (b =? v)%nat; [reflexivity|apply (p_mem _ _ _ HP b Hb)].
    + intros x Hx. unfold upd. destruct (x =? v)%nat eqn:E; [congruence|apply (p_fresh _ _ _ HP x Hx)].
  - intros a b Hn s s' HP. cbn [nm] in Hn. apply andb_true_iff in Hn as [Ha Hb].
    apply negb_true_iff, Nat.eqb_neq in Ha, Hb. cbn [exec_item].
    constructor; cbn [alias memo trace]; try apply HP.
    intros b0 Hb0. rewrite <- (p_alias _ _ _ HP a Ha), <- (p_alias _ _ _ HP b Hb). unfold upd.
    destruct (b0 =? alias s b)%nat; [|apply (p_mem _ _ _ HP b0 Hb0)].
    apply (p_mem _ _ _ HP). apply (p_fresh _ _ _ HP a Ha).
  - intros lid body IHb Hn s s' HP. rewrite nm_loop in Hn. rewrite !exec_loop.
    assert (Hbody : forall l, Forall (fun it => nm d it = true -> forall s s', Pre d s s' ->
                      Pre d (exec_item trips it s) (exec_item trips it s')) l ->
              forallb (nm d) l = true -> forall t t', Pre d t t' -> Pre d (exec_list trips l t) (exec_list trips l t')).
    { induction l as [|x r IHr]; intros HF Hl t t' Ht; [exact Ht|].
      inversion HF as [|? ? Hx Hr]; subst. cbn [forallb] in Hl. apply andb_true_iff in Hl as [Hl1 Hl2].
      change (exec_list trips (x :: r) t) with (exec_list trips r (exec_item trips x t)).
      change (exec_list trips (x :: r) t') with (exec_list trips r (exec_item trips x t')).
      apply IHr; [exact Hr|exact Hl2|apply Hx; assumption]. }
    generalize (trips lid) as n. intros n. revert s s' HP.
    induction n as [|n IHn]; intros s s' HP; [exact HP|]. cbn [iter]. apply IHn. apply (Hbody body IHb Hn s s' HP).
Qed.

Lemma nm_no_cast d : forall it, nm d it = true -> ~ In d (casts_item it).
Proof.
  apply (item_ind2 (fun it => nm d it = true -> ~ In d (casts_item it))).
  - intros id uses _ [].
  - intros a b c e Hn [H|[]]. cbn [nm] in Hn. apply andb_true_iff in Hn as [Ha _].
    apply negb_true_iff, Nat.eqb_neq in Ha. congruence.
  - intros v _ [].
  - intros a b _ [].
  - intros lid body IHb Hn. rewrite nm_loop in Hn. rewrite casts_loop.
    induction IHb as [|x r Hx Hr IHr]; [intros []|]. cbn [forallb] in Hn. apply andb_true_iff in Hn as [H1 H2].
    cbn [flat_map]. intros Hin. apply in_app_iff in Hin as [Hin|Hin]; [apply (Hx H1 Hin)|apply (IHr H2 Hin)].
Qed.

Lemma rz_list_body whole c l : rz_list whole c l = rz_body whole c l.
Proof. induction l as [|x r IH]; [reflexivity|]. destruct x; cbn [rz_list rz_body]; rewrite IH; reflexivity. Qed.

Lemma rz_list_nm whole d : forall l, forallb (nm d) l = true -> rz_list whole d l = l.
Proof.
  induction l as [|x r IH]; intros H; [reflexivity|]. cbn [forallb] in H. apply andb_true_iff in H as [H1 H2].
  pose proof (nm_no_cast d x H1) as Hnc.
  destruct x; cbn [rz_list]; try (rewrite (IH H2); reflexivity).
  - cbn [casts_item] in Hnc. destruct (dst =? d)%nat eqn:E; [apply Nat.eqb_eq in E; exfalso; apply Hnc; left; exact E|].
    rewrite (IH H2). reflexivity.
  - rewrite (rz_item_id whole d (ILoop lid body) Hnc), (IH H2). reflexivity.
Qed.

(* ---- the lift ------------------------------------------------------------------------------------- *)
Section Lift.
  Variables (trips : nat -> nat) (whole : list item) (d s0 : nat) (others : list nat) (Inv : state -> Prop).
  Hypothesis Hs0o : In s0 others.
  Hypothesis Hdo : ~ In d others.
  (* what the invariant of the original run provides about the source buffer *)
  Hypothesis HInvB : forall s, Inv s ->
    In (alias s s0) others /\ (forall v, v <> d -> alias s v = alias s s0 -> In v others).

  Definition pres (it : item) : Prop := forall s, Inv s -> Inv (exec_item trips it s).

  Definition cast_ok (src td ts : nat) (r : list item) : Prop :=
    used d r = true /\ chain_source 64 whole src ts = (s0, snd (chain_source 64 whole src ts)) /\
    snd (chain_source 64 whole src ts) <> td /\ safe_nested d others r = true /\
    (forall s, Inv s -> alias s src = alias s s0) /\
    (forall s, Inv s -> Inv (exec_list trips (ICast d src td ts :: r) s)).

  (* where the cast may sit: followed by its block; inside a loop (then nothing after the loop mentions d);
     everything else does not mention d *)
  Inductive lift_ok : list item -> Prop :=
  | lo_nil : lift_ok []
  | lo_cast src td ts r : cast_ok src td ts r -> lift_ok (ICast d src td ts :: r)
  | lo_frame x r : nm d x = true -> pres x -> lift_ok r -> lift_ok (x :: r)
  | lo_loop lid body r : lift_ok body -> Forall (fun y => nm d y = true /\ pres y) r ->
                         lift_ok (ILoop lid body :: r).

  Lemma frame_list l : Forall (fun y => nm d y = true /\ pres y) l -> forall s s', Inv s -> Pre d s s' ->
    Inv (exec_list trips l s) /\ Pre d (exec_list trips l s) (exec_list trips l s').
  Proof.
    induction 1 as [|y r [Hn Hp] Hr IH]; intros s s' HI HP; [split; assumption|].
    change (exec_list trips (y :: r) s) with (exec_list trips r (exec_item trips y s)).
    change (exec_list trips (y :: r) s') with (exec_list trips r (exec_item trips y s')).
    apply IH; [apply Hp; exact HI|apply frame_item; assumption].
  Qed.

  Theorem lift_list : forall l, lift_ok l -> forall s s', Inv s -> Pre d s s' ->
    Inv (exec_list trips l s) /\ Pre d (exec_list trips l s) (exec_list trips (rz_list whole d l) s').
  Proof.
    induction 1 as [|src td ts r Hc|x r Hn Hp Hr IH|lid body r Hb IHb Hr]; intros s s' HI HP.
    - split; assumption.
    - destruct Hc as [Hused [Hch [Hty [Hsafe [Hsrc Hpres]]]]].
      split; [apply Hpres; exact HI|].
      cbn [rz_list]. rewrite Nat.eqb_refl. unfold realize_here. rewrite Hused. cbn [negb]. rewrite Hch. cbn [fst snd].
      replace (snd (chain_source 64 whole src ts) =? td)%nat with false by (symmetry; apply Nat.eqb_neq; exact Hty).
      destruct (HInvB s HI) as [HBo Hal].
      apply (realize_block2 trips d src td ts s0 others r s s' HP (Hsrc s HI) HBo Hs0o Hdo Hal Hsafe).
    - assert (Erz : rz_list whole d (x :: r) = x :: rz_list whole d r).
      { pose proof (nm_no_cast d x Hn) as Hnc. destruct x; cbn [rz_list]; try reflexivity.
        - cbn [casts_item] in Hnc. destruct (dst =? d)%nat eqn:E; [apply Nat.eqb_eq in E; exfalso; apply Hnc; left; exact E|reflexivity].
        - rewrite (rz_item_id whole d (ILoop lid body) Hnc). reflexivity. }
      rewrite Erz.
      change (exec_list trips (x :: r) s) with (exec_list trips r (exec_item trips x s)).
      change (exec_list trips (x :: rz_list whole d r) s') with (exec_list trips (rz_list whole d r) (exec_item trips x s')).
      apply IH; [apply Hp; exact HI|apply frame_item; assumption].
    - assert (Hnr : forallb (nm d) r = true).
      { apply forallb_forall. intros y Hy. apply (proj1 (proj1 (Forall_forall _ _) Hr y Hy)). }
      cbn [rz_list]. rewrite rz_loop, (rz_list_nm whole d r Hnr), <- rz_list_body.
      change (exec_list trips (ILoop lid body :: r) s) with (exec_list trips r (exec_item trips (ILoop lid body) s)).
      change (exec_list trips (ILoop lid (rz_list whole d body) :: r) s')
        with (exec_list trips r (exec_item trips (ILoop lid (rz_list whole d body)) s')).
      rewrite !exec_loop.
      assert (Hit : forall n t t', Inv t -> Pre d t t' ->
                Inv (iter n (exec_list trips body) t) /\
                Pre d (iter n (exec_list trips body) t) (iter n (exec_list trips (rz_list whole d body)) t')).
      { induction n as [|n IHn]; intros t t' Ht HPt; [split; assumption|]. cbn [iter].
        destruct (IHb t t' Ht HPt) as [I1 P1]. apply IHn; assumption. }
      destruct (Hit (trips lid) s s' HI HP) as [I2 P2].
      apply (frame_list r Hr); assumption.
  Qed.
End Lift.

(* program level: the cast anywhere (also inside loops, any depth) *)
Theorem realize_anywhere_equiv (p : list item) (d s0 : nat) (others : list nat) (Inv : state -> Prop) :
  In s0 others -> ~ In d others ->
  (forall s, Inv s -> In (alias s s0) others /\ (forall v, v <> d -> alias s v = alias s s0 -> In v others)) ->
  Inv init_state -> (forall trips : nat -> nat, lift_ok trips p d s0 others Inv p) ->
  prog_equiv [d] p (rz_list p d p).
Proof.
  intros Hs0o Hdo HB HI H trips.
  destruct (lift_list trips p d s0 others Inv Hs0o Hdo HB p (H trips) init_state init_state HI (Pre_init d)) as [_ HP].
  split; [apply (p_trace _ _ _ HP)|].
  intros b Hb. apply (p_mem _ _ _ HP). intros E. apply Hb. left. symmetry. exact E.
Qed.

(* non-vacuity: the cast and its in-place user sit inside a loop; every iteration allocates, copies in,
   computes and copies out; equivalent for every trip count *)
Example realize_in_loop_applies :
  let p := [ILoop 7 [ICast 2 0 1 0; IOp 0 [(2, KInOut)]]; IOp 9 [(0, KRet)]]%nat in
  prog_equiv [2%nat] p (rz_list p 2%nat p) /\
  rz_list p 2%nat p = [ILoop 7 [IAlloc 2; ICopy 0 2; IOp 0 [(2, KInOut)]; ICopy 2 0]; IOp 9 [(0, KRet)]]%nat.
Proof.
  intros p. split; [|reflexivity].
  set (Inv := fun s : state => alias s 0%nat = 0%nat /\ forall v, v <> 2%nat -> alias s v = 0%nat -> v = 0%nat).
  apply (realize_anywhere_equiv p 2%nat 0%nat [0%nat] Inv).
  - left. reflexivity.
  - intros [H|[]]. discriminate.
  - intros s [H0 Hc]. rewrite H0. split; [left; reflexivity|]. intros v Hv Hv0. left. symmetry. apply Hc; assumption.
  - split; [reflexivity|]. intros v _ H. exact H.
  - intros trips. apply lo_loop.
    + apply lo_cast. unfold cast_ok. repeat split; try reflexivity.
      * discriminate.
      * destruct H as [H0 Hc]. unfold exec_list. cbn [fold_left exec_item exec_op alias]. rewrite upd_other by discriminate. exact H0.
      * destruct H as [H0 Hc]. unfold exec_list. cbn [fold_left exec_item exec_op alias]. intros v Hv Hv0.
        rewrite upd_other in Hv0 by exact Hv. apply Hc; assumption.
    + constructor; [|constructor]. split; [reflexivity|]. intros s H. exact H.
Qed.
