(* C05 — digits of a logical index, normal form of the lowered code, and the final theorems
   copy_correct / copy_footprint. *)
From Coq Require Import Permutation Znumtheory.
From Snax Require Import Base.Prelude Base.ListAux Model.Tsl Model.C05Copy
  Proofs.TslProofs Proofs.C05MemProofs Proofs.C05DigitProofs Proofs.C05LccbProofs Proofs.C05CopyProofs.

(* ---- digits of an index ------------------------------------------------------------------- *)
Fixpoint tdigits (t : tstride) (x : Z) : list Z :=
  match t with
  | [] => []
  | s :: rest => (x mod bounds_prod t) / bounds_prod rest :: tdigits rest x
  end.
Fixpoint digits (ts : list tstride) (idx : list Z) : list Z :=
  match ts, idx with
  | t :: ts', x :: idx' => tdigits t x ++ digits ts' idx'
  | _, _ => []
  end.

Definition dim_tris (t1 t2 : tstride) : list tri := map tri_of (combine t1 t2).
Definition flatE (ts1 ts2 : list tstride) : list tri := map tri_of (combine (concat ts1) (concat ts2)).

Lemma bounds_prod_sbound t1 t2 : map sbound t1 = map sbound t2 -> bounds_prod t1 = bounds_prod t2.
Proof.
  intros H. unfold bounds_prod. f_equal.
  assert (G : forall t, map tbound t =
                        map (fun ob => match ob with Some b => if b =? 0 then 1 else b | None => 1 end) (map sbound t))
    by (intros t; rewrite map_map; reflexivity).
  rewrite (G t1), (G t2), H. reflexivity.
Qed.

Lemma tri_of_static a1 b1 a2 b2 : tri_of ((Some a1, Some b1), (Some a2, Some b2)) = (b1, a1, a2).
Proof. reflexivity. Qed.

Lemma tdigits_mod t : tstride_ok t -> forall P x, 0 < P -> (bounds_prod t | P) ->
  tdigits t (x mod P) = tdigits t x.
Proof.
  induction 1 as [|s t Hs Ht IH]; intros P x HP Hdiv; [reflexivity|].
  cbn [tdigits].
  pose proof (bounds_prod_pos (s :: t) (Forall_cons _ Hs Ht)) as Hpos.
  rewrite <- (Zmod_div_mod (bounds_prod (s :: t)) P x Hpos HP Hdiv).
  rewrite (IH P x HP); [reflexivity|].
  destruct Hdiv as [k Hk]. rewrite bounds_prod_cons in Hk. exists (k * tbound s). lia.
Qed.

Lemma tdigits_spec t1 : forall t2 x, tstride_ok t1 -> tstride_ok t2 -> map sbound t1 = map sbound t2 ->
  valid (tdigits t1 x) (dim_tris t1 t2) /\
  dotS (dim_tris t1 t2) (tdigits t1 x) = inner_addr t1 x /\
  dotT (dim_tris t1 t2) (tdigits t1 x) = inner_addr t2 x.
Proof.
  induction t1 as [|s1 t1 IH]; intros [|s2 t2] x H1 H2 Hb; try discriminate.
  - repeat split. constructor.
  - inversion H1 as [|? ? Hs1 Ht1]; inversion H2 as [|? ? Hs2 Ht2]; subst.
    cbn [map] in Hb. inversion Hb as [[Hb1 Hb2]].
    destruct (IH t2 x Ht1 Ht2 Hb2) as [Hv [ES ET]].
    pose proof (bounds_prod_sbound _ _ Hb2) as Hbp.
    pose proof (bounds_prod_pos t1 Ht1) as Hpos.
    destruct Hs1 as [a1 [b1 [-> Hb1']]]. destruct Hs2 as [a2 [b2 [-> Hb2']]].
    cbn [sbound snd] in Hb1. inversion Hb1; subst b2.
    unfold dim_tris in *. cbn [combine map tdigits inner_addr dotS dotT]. rewrite ES, ET.
    rewrite !tri_of_static. cbn [fst snd tsrc tdst tb static_of].
    rewrite !bounds_prod_cons. unfold tbound. cbn [sbound snd]. replace (b1 =? 0) with false by lia.
    rewrite <- Hbp. split; [|split; ring].
    constructor; [|exact Hv]. cbn [fst snd tb].
    pose proof (Z.mod_pos_bound x (b1 * bounds_prod t1) ltac:(nia)) as Hm. split.
    + apply Z.div_pos; lia.
    + apply Z.div_lt_upper_bound; [lia|]. lia.
Qed.

Lemma tundigits t1 : forall t2 ds, tstride_ok t1 -> tstride_ok t2 -> map sbound t1 = map sbound t2 ->
  valid ds (dim_tris t1 t2) -> exists x, 0 <= x < bounds_prod t1 /\ tdigits t1 x = ds.
Proof.
  induction t1 as [|s1 t1 IH]; intros [|s2 t2] ds H1 H2 Hb Hv; try discriminate.
  - inversion Hv; subst. exists 0. split; [unfold bounds_prod, zprod; cbn; lia|reflexivity].
  - inversion H1 as [|? ? Hs1 Ht1]; inversion H2 as [|? ? Hs2 Ht2]; subst.
    cbn [map] in Hb. inversion Hb as [[Hb1 Hb2]].
    unfold dim_tris in Hv. cbn [combine map] in Hv. inversion Hv as [|d e ds' L Hd Hv']; subst.
    destruct (IH t2 ds' Ht1 Ht2 Hb2 Hv') as [x' [Hx' Ex']].
    pose proof (bounds_prod_pos t1 Ht1) as Hpos.
    destruct Hs1 as [a1 [b1 [-> Hb1']]]. destruct Hs2 as [a2 [b2 [-> Hb2']]].
    unfold tri_of in Hd. cbn [fst snd sval tb] in Hd.
    exists (d * bounds_prod t1 + x'). rewrite bounds_prod_cons. unfold tbound. cbn [sbound snd].
    replace (b1 =? 0) with false by lia. split; [nia|].
    cbn [tdigits]. rewrite bounds_prod_cons. unfold tbound. cbn [sbound snd]. replace (b1 =? 0) with false by lia.
    f_equal.
    + rewrite Z.mod_small by nia.
      symmetry. apply (Z.div_unique_pos (d * bounds_prod t1 + x') (bounds_prod t1) d x'); lia.
    + rewrite <- (tdigits_mod t1 Ht1 (bounds_prod t1)) by (try lia; exists 1; lia).
      replace ((d * bounds_prod t1 + x') mod bounds_prod t1) with x'
        by (apply (Z.mod_unique_pos (d * bounds_prod t1 + x') (bounds_prod t1) d x'); lia).
      exact Ex'.
Qed.

Lemma combine_app {A B} (a c : list A) (b d : list B) : length a = length b ->
  combine (a ++ c) (b ++ d) = combine a b ++ combine c d.
Proof.
  revert b. induction a as [|x a IH]; intros [|y b] H; try discriminate; [reflexivity|].
  cbn [app combine]. rewrite IH by (simpl in H; lia). reflexivity.
Qed.

Lemma flatE_cons t1 ts1 t2 ts2 : map sbound t1 = map sbound t2 ->
  flatE (t1 :: ts1) (t2 :: ts2) = dim_tris t1 t2 ++ flatE ts1 ts2.
Proof.
  intros H. unfold flatE, dim_tris. cbn [concat]. rewrite combine_app, map_app; [reflexivity|].
  rewrite <- (map_length sbound t1), H, map_length. reflexivity.
Qed.

Definition in_box (idx shape : list Z) : Prop := Forall2 (fun i n => 0 <= i < n) idx shape.

Theorem digits_spec ts1 : forall ts2 idx,
  Forall tstride_ok ts1 -> Forall tstride_ok ts2 -> map (map sbound) ts1 = map (map sbound) ts2 ->
  in_box idx (map bounds_prod ts1) ->
  valid (digits ts1 idx) (flatE ts1 ts2) /\
  dotS (flatE ts1 ts2) (digits ts1 idx) = affine_addr ts1 idx /\
  dotT (flatE ts1 ts2) (digits ts1 idx) = affine_addr ts2 idx.
Proof.
  induction ts1 as [|t1 ts1 IH]; intros [|t2 ts2] idx H1 H2 Hb Hbox; try discriminate.
  - inversion Hbox; subst. repeat split. constructor.
  - inversion H1 as [|? ? Ht1 Hts1]; inversion H2 as [|? ? Ht2 Hts2]; subst.
    cbn [map] in Hb, Hbox. inversion Hb as [[Hb1 Hb2]].
    inversion Hbox as [|x n idx' sh Hx Hbox']; subst.
    destruct (IH ts2 idx' Hts1 Hts2 Hb2 Hbox') as [Hv [ES ET]].
    destruct (tdigits_spec t1 t2 x Ht1 Ht2 Hb1) as [Hv1 [ES1 ET1]].
    rewrite (flatE_cons _ _ _ _ Hb1). cbn [digits affine_addr].
    rewrite dotS_app, dotT_app by (apply valid_length; exact Hv1).
    rewrite ES, ET, ES1, ET1.
    rewrite (dim_addr_inner t1 x Ht1 Hx).
    rewrite (dim_addr_inner t2 x Ht2) by (rewrite <- (bounds_prod_sbound _ _ Hb1); exact Hx).
    split; [apply valid_app; assumption|split; reflexivity].
Qed.

Theorem undigits ts1 : forall ts2 ds,
  Forall tstride_ok ts1 -> Forall tstride_ok ts2 -> map (map sbound) ts1 = map (map sbound) ts2 ->
  valid ds (flatE ts1 ts2) ->
  exists idx, in_box idx (map bounds_prod ts1) /\ digits ts1 idx = ds.
Proof.
  induction ts1 as [|t1 ts1 IH]; intros [|t2 ts2] ds H1 H2 Hb Hv; try discriminate.
  - inversion Hv; subst. exists []. split; [constructor|reflexivity].
  - inversion H1 as [|? ? Ht1 Hts1]; inversion H2 as [|? ? Ht2 Hts2]; subst.
    cbn [map] in Hb. inversion Hb as [[Hb1 Hb2]].
    rewrite (flatE_cons _ _ _ _ Hb1) in Hv. apply valid_app_inv in Hv as [da [db [-> [Hva Hvb]]]].
    destruct (IH ts2 db Hts1 Hts2 Hb2 Hvb) as [idx' [Hbox' E']].
    destruct (tundigits t1 t2 da Ht1 Ht2 Hb1 Hva) as [x [Hx Ex]].
    exists (x :: idx'). split; [constructor; assumption|]. cbn [digits]. rewrite Ex, E'. reflexivity.
Qed.

(* ---- the loop nest in terms of tri lists ------------------------------------------------------- *)
Lemma in_bounds_valid ivs T : in_bounds ivs (map tb T) <-> valid ivs T.
Proof.
  unfold in_bounds, valid. revert ivs. induction T as [|e T IH]; intros ivs; cbn [map].
  - split; intros H; inversion H; constructor.
  - split; intros H; inversion H; subst; constructor; try assumption; apply IH; assumption.
Qed.

Lemma dot_scaled_S el T ivs : dot (map (fun e => tsrc e * el) T) ivs = el * dotS T ivs.
Proof.
  revert ivs. induction T as [|e T IH]; intros [|i ivs]; cbn [map dot dotS]; try lia; try (rewrite IH; ring).
Qed.
Lemma dot_scaled_T el T ivs : dot (map (fun e => tdst e * el) T) ivs = el * dotT T ivs.
Proof.
  revert ivs. induction T as [|e T IH]; intros [|i ivs]; cbn [map dot dotT]; try lia; try (rewrite IH; ring).
Qed.

Lemma bursts_nest2 ps pd el so do_ T th size b :
  In b (bursts ps pd
          (nest (map tb T)
             (CDma2 (el * so, map (fun e => tsrc e * el) T) (el * do_, map (fun e => tdst e * el) T)
                    size (tsrc th * el) (tdst th * el) (tb th))) []) <->
  exists ds, valid ds (th :: T) /\
    b = (ps + el * (so + dotS (th :: T) ds), pd + el * (do_ + dotT (th :: T) ds), size).
Proof.
  rewrite bursts_nest. cbn [app bursts]. split.
  - intros [ivs [Hb Hin]]. apply in_map_iff in Hin as [i [<- Hi]]. apply in_zrange in Hi.
    apply in_bounds_valid in Hb. exists (i :: ivs). split; [constructor; assumption|].
    unfold aeval. cbn [fst snd dotS dotT]. rewrite dot_scaled_S, dot_scaled_T. apply f_equal2; [apply f_equal2; ring|reflexivity].
  - intros [ds [Hv ->]]. inversion Hv as [|i e ivs L Hi Hv']; subst.
    exists ivs. split; [apply in_bounds_valid; exact Hv'|]. apply in_map_iff. exists i.
    split; [|apply in_zrange; exact Hi].
    unfold aeval. cbn [fst snd dotS dotT]. rewrite dot_scaled_S, dot_scaled_T. apply f_equal2; [apply f_equal2; ring|reflexivity].
Qed.

(* ---- products ------------------------------------------------------------------------------------ *)
Lemma bprod_app A B : bprod (A ++ B) = bprod A * bprod B.
Proof. unfold bprod. rewrite map_app. apply zprod_app. Qed.

Lemma bprod_perm A B : Permutation A B -> bprod A = bprod B.
Proof.
  induction 1 as [|x l l' HP IH|x y l|l l' l'' HP1 IH1 HP2 IH2]; try reflexivity.
  - rewrite !bprod_cons, IH. reflexivity.
  - rewrite !bprod_cons. ring.
  - congruence.
Qed.

Lemma bprod_unit U : Forall (fun e => tb e = 1) U -> bprod U = 1.
Proof. induction 1 as [|e U He HU IH]; [reflexivity|]. rewrite bprod_cons, He, IH. reflexivity. Qed.

Lemma bprod_dim_tris t1 : forall t2, tstride_ok t1 -> tstride_ok t2 -> map sbound t1 = map sbound t2 ->
  bprod (dim_tris t1 t2) = bounds_prod t1.
Proof.
  induction t1 as [|s1 t1 IH]; intros [|s2 t2] H1 H2 Hb; try discriminate; [reflexivity|].
  inversion H1 as [|? ? Hs1 Ht1]; inversion H2 as [|? ? Hs2 Ht2]; subst.
  cbn [map] in Hb. inversion Hb as [[Hb1 Hb2]].
  unfold dim_tris in *. cbn [combine map]. rewrite bprod_cons, (IH t2 Ht1 Ht2 Hb2), bounds_prod_cons.
  destruct Hs1 as [a1 [b1 [-> Hb1']]]. destruct Hs2 as [a2 [b2 [-> Hb2']]].
  unfold tri_of, tbound. cbn [fst snd sval tb sbound]. replace (b1 =? 0) with false by lia. reflexivity.
Qed.

Lemma bprod_flatE ts1 : forall ts2,
  Forall tstride_ok ts1 -> Forall tstride_ok ts2 -> map (map sbound) ts1 = map (map sbound) ts2 ->
  bprod (flatE ts1 ts2) = zprod (map bounds_prod ts1).
Proof.
  induction ts1 as [|t1 ts1 IH]; intros [|t2 ts2] H1 H2 Hb; try discriminate; [reflexivity|].
  inversion H1 as [|? ? Ht1 Hts1]; inversion H2 as [|? ? Ht2 Hts2]; subst.
  cbn [map] in Hb. inversion Hb as [[Hb1 Hb2]].
  rewrite (flatE_cons _ _ _ _ Hb1), bprod_app, (IH ts2 Hts1 Hts2 Hb2), (bprod_dim_tris t1 t2 Ht1 Ht2 Hb1).
  reflexivity.
Qed.

(* ------------------------------------------------------------------------------------------------ *)
(* rank 0 (no dimension): the pass asserts; for rank > 0 `lower` is its body *)
Lemma lower_some src dst el shape c : lower src dst el shape = Some c -> lower_body src dst el shape = Some c.
Proof. unfold lower. destruct shape; [discriminate|exact (fun H => H)]. Qed.
Lemma lower_rank src dst el shape : shape <> [] -> lower src dst el shape = lower_body src dst el shape.
Proof. unfold lower. destruct shape; [intros H; elim H; reflexivity|reflexivity]. Qed.
Lemma shape_of_rank l : tstrides l <> [] -> shape_of l <> [].
Proof. unfold shape_of. destruct (tstrides l); [intros H; elim H; reflexivity|discriminate]. Qed.

Section Main.
  Variables (src dst : layout) (el so do_ : Z).
  Hypothesis Hsrc : layout_ok src.
  Hypothesis Hdst : layout_ok dst.
  Hypothesis Hetb : equal_tile_bounds src dst = true.
  Hypothesis Hsafe : safe_lccb src dst = true.
  Hypothesis Hel : 0 < el.
  Hypothesis Hso : offset src = Some so.
  Hypothesis Hdo : offset dst = Some do_.

  Let E := EE src dst.
  Let R := RR src dst.
  Let C := CC src dst.
  Let U := UU src dst.

  Lemma tile_bounds_eq : map (map sbound) (tstrides src) = map (map sbound) (tstrides dst).
  Proof.
    unfold equal_tile_bounds in Hetb.
    apply (list_eqb_eq (list_eqb optZ_eqb)) in Hetb; [exact Hetb|apply list_eqb_eq, optZ_eqb_eq].
  Qed.

  Lemma E_flat : E = flatE (tstrides src) (tstrides dst).
  Proof.
    unfold E, EE, flatE. rewrite <- (map_map sp tri_of), map_sp_combine, !map_snd_entries. reflexivity.
  Qed.

  Lemma shape_prod : zprod (shape_of src) = bprod R * bprod C.
  Proof.
    unfold shape_of. rewrite <- (bprod_flatE _ _ Hsrc Hdst tile_bounds_eq), <- E_flat.
    unfold E, R, C, U. rewrite (bprod_perm _ _ (partition_perm src dst Hsrc Hetb)).
    rewrite !bprod_app.
    rewrite (bprod_unit _ (UU_unit src dst Hsrc Hdst Hsafe)).
    ring.
  Qed.

  (* normal form of the emitted code: its bursts are enumerated by the digit vectors of R *)
  Theorem lower_bursts : exists code, lower_body src dst el (shape_of src) = Some code /\
    forall ps pd b, In b (bursts ps pd code []) <->
      exists ds, valid ds R /\
        b = (ps + el * (so + dotS R ds), pd + el * (do_ + dotT R ds), bprod C * el).
  Proof.
    unfold lower_body. rewrite Hso, Hdo, (remaining_eq src dst Hetb).
    rewrite (map_opt_loop_of el _ (rem_pair_ok src dst Hsrc Hdst)).
    pose proof shape_prod as Hsp. unfold R, RR in *.
    destruct (sort_desc (rem_list src dst)) as [|h tail] eqn:Es; cbn [map].
    - eexists. split; [reflexivity|]. intros ps pd b. cbn [bursts In]. unfold aeval. cbn [fst snd dot].
      cbn [map] in Hsp. change (bprod []) with 1 in Hsp. rewrite Hsp. split.
      + intros [<-|[]]. exists []. split; [constructor|]. cbn [dotS dotT].
        apply f_equal2; [apply f_equal2; ring|ring].
      + intros [ds [Hv ->]]. inversion Hv; subst. left. cbn [dotS dotT].
        apply f_equal2; [apply f_equal2; ring|ring].
    - destruct (block_size src dst Hsrc) as [ls [lb [El Eb]]]. rewrite El.
      eexists. split; [reflexivity|]. intros ps pd b. rewrite !map_map. cbn [fst snd].
      fold C in Eb. rewrite Eb.
      rewrite <- (map_map tri_of tb), <- (map_map tri_of (fun e => tsrc e * el)),
              <- (map_map tri_of (fun e => tdst e * el)).
      apply bursts_nest2.
  Qed.

  Definition inj_on (l : layout) (shape : list Z) : Prop :=
    forall i j, In i (row_major shape) -> In j (row_major shape) ->
      affine_map_eval l i = affine_map_eval l j -> i = j.

  Definition disjoint_footprints (ps pd : Z) (shape : list Z) : Prop :=
    forall i j k k', In i (row_major shape) -> In j (row_major shape) -> 0 <= k < el -> 0 <= k' < el ->
      ps + elem_addr src el i + k <> pd + elem_addr dst el j + k'.

  Lemma idx_digits idx : In idx (row_major (shape_of src)) ->
    valid (digits (tstrides src) idx) E /\
    dotS E (digits (tstrides src) idx) = affine_map_eval src idx /\
    dotT E (digits (tstrides src) idx) = affine_map_eval dst idx.
  Proof.
    intros H. apply in_row_major in H. rewrite E_flat.
    apply (digits_spec _ _ idx Hsrc Hdst tile_bounds_eq H).
  Qed.

  Lemma digits_idx d : valid d E -> exists idx, In idx (row_major (shape_of src)) /\ digits (tstrides src) idx = d.
  Proof.
    rewrite E_flat. intros H. destruct (undigits _ _ d Hsrc Hdst tile_bounds_eq H) as [idx [Hb Ed]].
    exists idx. split; [apply in_row_major; exact Hb|exact Ed].
  Qed.

  Lemma elem_addr_src idx : elem_addr src el idx = el * (so + affine_map_eval src idx).
  Proof. unfold elem_addr. rewrite Hso. ring. Qed.
  Lemma elem_addr_dst idx : elem_addr dst el idx = el * (do_ + affine_map_eval dst idx).
  Proof. unfold elem_addr. rewrite Hdo. ring. Qed.

  Section WithCode.
    Variables (code : code) (ps pd : Z).
    Hypothesis Hcode : lower src dst el (shape_of src) = Some code.
    Hypothesis Hinj : inj_on dst (shape_of src).
    Hypothesis Hdisj : disjoint_footprints ps pd (shape_of src).

    Let bs := bursts ps pd code [].

    Lemma bs_spec b : In b bs <->
      exists ds, valid ds R /\
        b = (ps + el * (so + dotS R ds), pd + el * (do_ + dotT R ds), bprod C * el).
    Proof.
      destruct lower_bursts as [code' [E1 H]]. rewrite (lower_some _ _ _ _ _ Hcode) in E1. inversion E1; subst code'. apply H.
    Qed.

    Lemma abs_inj d d' : valid d E -> valid d' E -> dotT E d = dotT E d' -> dotS E d = dotS E d'.
    Proof.
      intros Hv Hv' HT.
      destruct (digits_idx d Hv) as [i [Hi Ei]]. destruct (digits_idx d' Hv') as [j [Hj Ej]].
      destruct (idx_digits i Hi) as [_ [_ ETi]]. destruct (idx_digits j Hj) as [_ [_ ETj]].
      rewrite Ei in ETi. rewrite Ej in ETj.
      assert (i = j) by (apply Hinj; [exact Hi|exact Hj|congruence]). subst j. congruence.
    Qed.

    Lemma abs_disj d d' k k' : valid d E -> valid d' E -> 0 <= k < el -> 0 <= k' < el ->
      SA E el so ps d k <> DA E el do_ pd d' k'.
    Proof.
      intros Hv Hv' Hk Hk'.
      destruct (digits_idx d Hv) as [i [Hi Ei]]. destruct (digits_idx d' Hv') as [j [Hj Ej]].
      destruct (idx_digits i Hi) as [_ [ESi _]]. destruct (idx_digits j Hj) as [_ [_ ETj]].
      rewrite Ei in ESi. rewrite Ej in ETj.
      pose proof (Hdisj i j k k' Hi Hj Hk Hk') as Hne.
      rewrite elem_addr_src, elem_addr_dst in Hne. unfold SA, DA. rewrite ESi, ETj. exact Hne.
    Qed.

    (* C05, main statement *)
    Theorem copy_correct_sec m idx k : In idx (row_major (shape_of src)) -> 0 <= k < el ->
      run ps pd code m (pd + elem_addr dst el idx + k) = m (ps + elem_addr src el idx + k).
    Proof.
      intros Hidx Hk. unfold run. rewrite exec_run_bursts. fold bs.
      destruct (idx_digits idx Hidx) as [Hv [ES ET]].
      pose proof (abstract_copy_correct E R C U el so do_ ps pd bs
                    (partition_perm src dst Hsrc Hetb) (CC_chain src dst Hsrc)
                    (UU_unit src dst Hsrc Hdst Hsafe) Hel abs_inj abs_disj bs_spec
                    m (digits (tstrides src) idx) k Hv Hk) as H.
      unfold SA, DA in H. rewrite ES, ET in H.
      rewrite elem_addr_src, elem_addr_dst. exact H.
    Qed.

    (* footprints: every byte read belongs to a source element, every byte written to a
       destination element *)
    Theorem copy_footprint_sec b x : In b bs -> 0 <= x < b_len b ->
      (exists idx k, In idx (row_major (shape_of src)) /\ 0 <= k < el /\
                     b_src b + x = ps + elem_addr src el idx + k) /\
      (exists idx k, In idx (row_major (shape_of src)) /\ 0 <= k < el /\
                     b_dst b + x = pd + elem_addr dst el idx + k).
    Proof.
      intros Hb Hx.
      destruct (abstract_footprint E R C U el so do_ ps pd bs
                  (partition_perm src dst Hsrc Hetb) (CC_chain src dst Hsrc)
                  (UU_unit src dst Hsrc Hdst Hsafe) Hel bs_spec b x Hb Hx)
        as [[d [k [Hv [Hk E1]]]] [d' [k' [Hv' [Hk' E2]]]]].
      destruct (digits_idx d Hv) as [i [Hi Ei]]. destruct (digits_idx d' Hv') as [j [Hj Ej]].
      destruct (idx_digits i Hi) as [_ [ESi _]]. destruct (idx_digits j Hj) as [_ [_ ETj]].
      rewrite Ei in ESi. rewrite Ej in ETj. unfold SA in E1. unfold DA in E2.
      split.
      - exists i, k. rewrite elem_addr_src, <- ESi. auto.
      - exists j, k'. rewrite elem_addr_dst, <- ETj. auto.
    Qed.
  End WithCode.
End Main.
