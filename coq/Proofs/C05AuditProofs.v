(* C05 — audit additions: the three dynamic finding classes of Model/C05Dyn.v (dyn_no_anchor F27,
   dyn_anchor_tie F28, dyn_in_block F29) are tied to statements:
   (1) they are all false on the region the theorems of Props/C05.v cover (static steps), so a failure
       inside the proved region can never be classified as one of these known findings;
   (2) each class contains an input on which the MODEL of the lowering (lower_memref_dyn, the function
       L1 compares with the real pass) does not move an element: the model reproduces the defect. *)
From Snax Require Import Base.Prelude Base.ListAux Model.Tsl Model.TslOps Model.C05Copy Model.C05Dyn
  Proofs.TslProofs Proofs.C05LccbProofs Proofs.C05DynProofs Proofs.C05DynCopyProofs.

Lemma has_dyn_step_static l : Forall step_static (all_strides l) -> has_dyn_step l = false.
Proof.
  intros H. unfold has_dyn_step. apply not_true_is_false. intros E.
  apply existsb_exists in E as [s [Hs Hd]]. apply (proj1 (Forall_forall _ _) H) in Hs.
  unfold step_static in Hs. unfold step_dynamic in Hd.
  destruct (sstep s); [discriminate|apply Hs; reflexivity].
Qed.

Lemma dyn_no_anchor_static l : has_dyn_step l = false -> dyn_no_anchor l = false.
Proof. intros H. unfold dyn_no_anchor. rewrite H. reflexivity. Qed.

Lemma dyn_anchor_tie_static l : has_dyn_step l = false -> dyn_anchor_tie l = false.
Proof.
  intros H. unfold dyn_anchor_tie. destruct (max_static_step (all_strides l)) as [mk mv].
  rewrite H. reflexivity.
Qed.

(* the common block of a static source consists of static strides *)
Lemma lccb_static a b : layout_ok a -> existsb step_dynamic (lccb a b 1) = false.
Proof.
  intros Ha. rewrite lccb_lccb_pos.
  pose proof (lccb_pos_spec a b Ha) as H. cbv zeta in H. destruct H as [_ [_ Hall]].
  destruct (lccb_pos a b 1) as [|e r] eqn:E; [reflexivity|].
  apply not_true_is_false. intros Hex. apply existsb_exists in Hex as [s [Hs Hd]].
  apply in_map_iff in Hs as [e' [Ee He']].
  apply (proj1 (Forall_forall _ _) Hall) in He' as [Hin _].
  pose proof (proj1 (Forall_forall _ _) (entries_ok a Ha) e' Hin) as [x [y [Es _]]].
  rewrite <- Ee, Es in Hd. discriminate.
Qed.

(* (1) on the domain of C05_copy_dynamic_partial (dynamic outer bounds, static steps) no dynamic class holds *)
Theorem dyn_classes_off_proved_region (src dst : layout) (rshape : list Z) (sh : list (option Z)) :
  layout_ok (resolve src rshape) -> layout_ok (resolve dst rshape) ->
  lccb src dst 1 = lccb (resolve src rshape) (resolve dst rshape) 1 ->
  dyn_no_anchor src = false /\ dyn_no_anchor dst = false /\
  dyn_anchor_tie src = false /\ dyn_anchor_tie dst = false /\
  dyn_in_block src dst = false /\ dyn_class sh (LTsl src) (LTsl dst) = 0.
Proof.
  intros Hs Hd Hl.
  pose proof (has_dyn_step_static src (src_steps rshape src Hs)) as H1.
  pose proof (has_dyn_step_static dst (src_steps rshape dst Hd)) as H2.
  assert (H5 : dyn_in_block src dst = false) by (unfold dyn_in_block; rewrite Hl; apply lccb_static, Hs).
  pose proof (dyn_no_anchor_static src H1) as A1. pose proof (dyn_no_anchor_static dst H2) as A2.
  pose proof (dyn_anchor_tie_static src H1) as B1. pose proof (dyn_anchor_tie_static dst H2) as B2.
  repeat split; try assumption.
  unfold dyn_class. cbn [to_tsl uses_rule andb]. rewrite A1, A2, B1, B2, H5. reflexivity.
Qed.

(* ... and on the domain of the static theorems *)
Theorem dyn_classes_off_static (src dst : layout) (sh : list (option Z)) :
  layout_ok src -> layout_ok dst -> dyn_class sh (LTsl src) (LTsl dst) = 0.
Proof.
  intros Hs Hd.
  pose proof (has_dyn_step_static src (layout_ok_steps src Hs)) as H1.
  pose proof (has_dyn_step_static dst (layout_ok_steps dst Hd)) as H2.
  unfold dyn_class. cbn [to_tsl uses_rule andb].
  rewrite (dyn_no_anchor_static src H1), (dyn_no_anchor_static dst H2),
          (dyn_anchor_tie_static src H1), (dyn_anchor_tie_static dst H2).
  unfold dyn_in_block. rewrite (lccb_static src dst Hs). reflexivity.
Qed.

(* (2) a run-time layout `t` is what the dynamic layout `d` denotes on some run: same structure,
   every static component of d kept *)
Definition comp_res (d t : option Z) : bool :=
  match d, t with None, Some _ => true | Some a, Some b => a =? b | _, None => false end.
Definition stride_res (d t : stride) : bool := comp_res (fst d) (fst t) && comp_res (snd d) (snd t).
Definition resolves_to (d t : layout) : bool :=
  list_eqb (list_eqb stride_res) (tstrides d) (tstrides t) &&
  comp_res (offset d) (offset t).

(* element-byte footprints of the two run-time layouts are disjoint (decidable form of
   C05MainProofs.disjoint_footprints on a concrete input) *)
Definition disjointb (rs rd : layout) (el ps pd : Z) (shape : list Z) : bool :=
  forallb (fun i => forallb (fun j => forallb (fun k => forallb (fun k' =>
    negb (ps + elem_addr rs el i + k =? pd + elem_addr rd el j + k')) (zrange el)) (zrange el))
    (row_major shape)) (row_major shape).

(* the model of the run-time lowering, on a memory whose byte at address a holds a, leaves byte 0 of
   destination element idx different from byte 0 of source element idx, although the run-time layouts
   rs/rd (which the dynamic types denote on this run) satisfy every hypothesis of C05_copy_correct *)
Definition model_miscopies (sh : list (option Z)) (msrc mdst : mlayout) (el : Z) (rshape : list Z)
    (smd dmd : rtmd) (rs rd : layout) (c : code) (idx : list Z) (ps pd : Z) : Prop :=
  resolves_to (to_tsl sh msrc mdst) rs = true /\ resolves_to (to_tsl sh mdst msrc) rd = true /\
  layout_okb rs = true /\ layout_okb rd = true /\ equal_tile_bounds rs rd = true /\
  safe_lccb rs rd = true /\ self_overlaps rd = false /\ rshape = shape_of rs /\
  disjointb rs rd el ps pd rshape = true /\
  lower_memref_dyn sh msrc mdst el rshape smd dmd = Some c /\ In idx (row_major rshape) /\
  run ps pd c (fun a => Some a) (pd + elem_addr rd el idx + 0) <> Some (ps + elem_addr rs el idx + 0).

(* F27: [?] -> (?) copied to [?] -> (1), three elements at run time: 2-D transfer with source stride 0 *)
Theorem dyn_refuted_no_anchor :
  exists sh msrc mdst el rshape smd dmd rs rd c idx ps pd,
    dyn_no_anchor (to_tsl sh msrc mdst) = true /\ dyn_class sh msrc mdst = 1 /\
    c = CDma2 (0, []) (0, []) 1 0 1 3 /\
    model_miscopies sh msrc mdst el rshape smd dmd rs rd c idx ps pd.
Proof.
  exists [None], (LTsl (mkLayout [[(None, None)]] (Some 0))), (LTsl (mkLayout [[(Some 1, None)]] (Some 0))),
         1, [3], None, None,
         (mkLayout [[(Some 1, Some 3)]] (Some 0)), (mkLayout [[(Some 1, Some 3)]] (Some 0)),
         (CDma2 (0, []) (0, []) 1 0 1 3), [1], 100, 0.
  unfold model_miscopies. repeat split; try reflexivity.
  - right. left. reflexivity.
  - vm_compute. discriminate.
Qed.

(* F28: [?, 1, 4] -> (?, 1, 1) on both sides, 8 elements: the outer step is resolved to 1 instead of 4 *)
Theorem dyn_refuted_anchor_tie :
  exists sh msrc mdst el rshape smd dmd rs rd c idx ps pd,
    dyn_anchor_tie (to_tsl sh msrc mdst) = true /\ dyn_class sh msrc mdst = 2 /\
    c = CDma2 (0, []) (0, []) 4 1 1 2 /\
    model_miscopies sh msrc mdst el rshape smd dmd rs rd c idx ps pd.
Proof.
  exists [None], (LTsl (mkLayout [[(None, None); (Some 1, Some 1); (Some 1, Some 4)]] (Some 0))),
         (LTsl (mkLayout [[(None, None); (Some 1, Some 1); (Some 1, Some 4)]] (Some 0))),
         1, [8], None, None,
         (mkLayout [[(Some 4, Some 2); (Some 1, Some 1); (Some 1, Some 4)]] (Some 0)),
         (mkLayout [[(Some 4, Some 2); (Some 1, Some 1); (Some 1, Some 4)]] (Some 0)),
         (CDma2 (0, []) (0, []) 4 1 1 2), [5], 100, 0.
  unfold model_miscopies. repeat split; try reflexivity.
  - do 5 right. left. reflexivity.
  - vm_compute. discriminate.
Qed.

(* F29: memref<?x?xi16, strided<[?, 1], offset: ?>> with run-time strides [9, 1], offset 3, copied to a
   dense memref<?x?xi16> of 3x8 elements: one 1-D transfer of 48 bytes *)
Theorem dyn_refuted_in_block :
  exists sh msrc mdst el rshape smd dmd rs rd c idx ps pd,
    dyn_in_block (to_tsl sh msrc mdst) (to_tsl sh mdst msrc) = true /\ dyn_class sh msrc mdst = 3 /\
    smd = Some ([9; 1], 3) /\ c = CDma1 (6, []) (0, []) 48 /\
    model_miscopies sh msrc mdst el rshape smd dmd rs rd c idx ps pd.
Proof.
  exists [None; None], (LStrided [None; Some 1] None), LNone, 2, [3; 8], (Some ([9; 1], 3)), None,
         (mkLayout [[(Some 9, Some 3)]; [(Some 1, Some 8)]] (Some 3)),
         (mkLayout [[(Some 8, Some 3)]; [(Some 1, Some 8)]] (Some 0)),
         (CDma1 (6, []) (0, []) 48), [1; 0], 1000, 0.
  unfold model_miscopies. repeat split; try reflexivity.
  - do 8 right. left. reflexivity.
  - vm_compute. discriminate.
Qed.
