(* C12 (ii)/(iii) — refutation witnesses and type-level facts about set-memory-space.
   The coherence theorem for one realised cast is in Proofs/C12CoherenceProofs.v. *)
From Snax Require Import Base.Prelude Model.C12Casts.

(* ---- (iii) set-memory-space ------------------------------------------------------------------- *)
Lemma operand_space_L1 m : operand_space m = ML1.
Proof. destruct m; reflexivity. Qed.

Lemma func_space_spec m : func_space m = match m with MNone => ML3 | x => x end.
Proof. reflexivity. Qed.

Lemma func_space_keeps_L3 : func_space ML3 = ML3 /\ func_space MNone = ML3.
Proof. split; reflexivity. Qed.

(* ---- (ii) witnesses ----------------------------------------------------------------------------- *)
(* write / read / write of the same function argument through one shared cast (what set-memory-space
   produces for three linalg.generic operations on %a0):
   the copy-in placed before the reader overwrites what the first writer produced *)
Definition w_order : list item :=
  [ICast 2 0 1 0; ICast 3 1 1 0;
   IOp 0 [(2, KOut)]; IOp 1 [(2, KIn); (3, KOut)]; IOp 2 [(2, KOut)]]%nat.

(* an accumulating linalg.generic: the output operand is read but is not listed as an input *)
Definition w_acc : list item :=
  [ICast 2 0 1 0; ICast 3 1 1 0; IOp 0 [(2, KIn); (3, KOutAcc)]]%nat.

Definition run (p : list item) : state := exec_list (fun _ => 1%nat) p init_state.

(* Both witnesses were refutations of the coherence property for the unrepaired pass (findings F22,
   F23).  The repaired pass emits the copy-in only when the FIRST use of the new buffer reads it (an
   accumulating output counts as a read): w_order gets no copy-in for %a0 at all (the first writer makes
   the buffer current), w_acc gets the copy-in for its accumulating output. *)
Lemma w_order_repaired :
  realize_all w_order =
    [IAlloc 2; IAlloc 3; IOp 0 [(2, KOut)]; IOp 1 [(2, KIn); (3, KOut)]; ICopy 3 1;
     IOp 2 [(2, KOut)]; ICopy 2 0]%nat /\
  trace (run (realize_all w_order)) = trace (run w_order) /\
  (forall b, In b [0; 1]%nat -> memo (run (realize_all w_order)) b = memo (run w_order) b).
Proof.
  repeat split; try reflexivity. intros b [<-|[<-|[]]]; reflexivity.
Qed.

Lemma w_acc_repaired :
  realize_all w_acc = [IAlloc 2; IAlloc 3; ICopy 1 3; ICopy 0 2; IOp 0 [(2, KIn); (3, KOutAcc)]; ICopy 3 1]%nat /\
  trace (run (realize_all w_acc)) = trace (run w_acc) /\
  (forall b, In b [0; 1]%nat -> memo (run (realize_all w_acc)) b = memo (run w_acc) b).
Proof.
  repeat split; try reflexivity. intros b [<-|[<-|[]]]; reflexivity.
Qed.

(* F30: the first use of the cast of %a0 is a reader inside a loop; with zero iterations the copy-in placed
   in the loop body never runs and the reader after the loop observes the uninitialised buffer *)
Definition w_copy_in_loop : list item :=
  [IAlloc 2; ICast 3 0 1 0; ICast 4 1 1 0;
   ILoop 0 [IOp 1 [(3, KIn); (2, KOut)]]; IOp 2 [(3, KIn); (4, KOut)]]%nat.

Lemma copy_in_inside_loop_refuted :
  bad_nested_in w_copy_in_loop = true /\ bad_nested w_copy_in_loop = false /\
  realize_all w_copy_in_loop =
    [IAlloc 2; IAlloc 3; IAlloc 4; ILoop 0 [ICopy 0 3; IOp 1 [(3, KIn); (2, KOut)]];
     IOp 2 [(3, KIn); (4, KOut)]; ICopy 4 1]%nat /\
  trace (exec_list (fun _ => 0%nat) (realize_all w_copy_in_loop) init_state) <>
  trace (exec_list (fun _ => 0%nat) w_copy_in_loop init_state).
Proof. repeat split; try reflexivity. vm_compute. discriminate. Qed.

