(* C20 — proofs, part 4: append_to_abstract_graph keeps every embedded kernel embedded (muxes are only
   added around the old source, which stays on lhs; alternatives are only added at the end of a choose op)
   and embeds the appended kernel itself. *)
From Snax Require Import Base.Prelude Model.C20Phs Proofs.C20PhsProofs Proofs.C20DecodeProofs Proofs.C20SearchProofs.

(* ---------------------------------------------------------------- alternatives *)
Lemma opk_eqb_refl k : opk_eqb k k = true.
Proof. apply opk_eqb_eq. reflexivity. Qed.

Lemma find_op_app_l k0 cur x k : find_op k0 cur = Some k -> find_op k0 (cur ++ x) = Some k.
Proof.
  induction cur as [|y r IH]; cbn [find_op app]; [discriminate|].
  destruct (opk_eqb y k0); [auto|exact IH].
Qed.

Lemma find_op_in ops k : In k ops -> exists k', find_op k ops = Some k'.
Proof.
  induction ops as [|x r IH]; intros Hin; [contradiction|]. cbn [find_op].
  destruct (opk_eqb x k) eqn:E; [eauto|].
  destruct Hin as [->|Hin]; [rewrite opk_eqb_refl in E; discriminate|apply IH; exact Hin].
Qed.

Lemma existsb_find_op k0 cur :
  existsb (opk_eqb k0) cur = true -> exists k', find_op k0 cur = Some k'.
Proof.
  intros H. apply existsb_exists in H as (x & Hx & E). apply opk_eqb_eq in E. subst. apply find_op_in. exact Hx.
Qed.

Lemma insert_ops_keeps k0 : forall new cur k,
  find_op k0 cur = Some k -> find_op k0 (insert_ops cur new) = Some k.
Proof.
  induction new as [|x xs IH]; intros cur k Hf; cbn [insert_ops]; [exact Hf|].
  destruct (existsb (opk_eqb x) cur); [apply IH; exact Hf|].
  apply IH. apply find_op_app_l. exact Hf.
Qed.

Lemma insert_ops_has : forall new cur k, In k new -> exists k', find_op k (insert_ops cur new) = Some k'.
Proof.
  induction new as [|x xs IH]; intros cur k Hin; [contradiction|]. cbn [insert_ops].
  destruct Hin as [->|Hin].
  - destruct (existsb (opk_eqb k) cur) eqn:E.
    + destruct (existsb_find_op _ _ E) as [k' Hk']. exists k'. apply insert_ops_keeps. exact Hk'.
    + destruct (find_op_in (cur ++ [k]) k) as [k' Hk']; [apply in_or_app; right; left; reflexivity|].
      exists k'. apply insert_ops_keeps. exact Hk'.
  - destruct (existsb (opk_eqb x) cur); apply IH; exact Hin.
Qed.

Lemma insert_ops_nonempty : forall new cur, cur <> [] -> insert_ops cur new <> [].
Proof.
  induction new as [|x xs IH]; intros cur Hc; cbn [insert_ops]; [exact Hc|].
  destruct (existsb (opk_eqb x) cur); apply IH; [exact Hc|]. destruct cur; discriminate.
Qed.

(* ---------------------------------------------------------------- find_node under updates *)
Lemma find_node_app_l ns ms id n : find_node ns id = Some n -> find_node (ns ++ ms) id = Some n.
Proof.
  induction ns as [|x r IH]; cbn [find_node app]; [discriminate|].
  destruct (ident_eqb (nid x) id); [auto|exact IH].
Qed.

Lemma find_node_app_new ns n : find_node ns (nid n) = None -> find_node (ns ++ [n]) (nid n) = Some n.
Proof.
  induction ns as [|x r IH]; cbn [find_node app].
  - intros _. rewrite ident_eqb_refl. reflexivity.
  - destruct (ident_eqb (nid x) (nid n)); [discriminate|exact IH].
Qed.

Lemma find_replace_same ns id a n' :
  find_node ns id = Some a -> nid n' = id -> find_node (replace_node ns id n') id = Some n'.
Proof.
  intros Hf Hn. induction ns as [|x r IH]; cbn [find_node replace_node] in *; [discriminate|].
  destruct (ident_eqb (nid x) id) eqn:E.
  - cbn [find_node]. rewrite Hn, ident_eqb_refl. reflexivity.
  - cbn [find_node]. rewrite E. apply IH. exact Hf.
Qed.

Lemma find_replace_other ns id n' id2 :
  nid n' = id -> id2 <> id -> find_node (replace_node ns id n') id2 = find_node ns id2.
Proof.
  intros Hn Hne. induction ns as [|x r IH]; cbn [find_node replace_node]; [reflexivity|].
  destruct (ident_eqb (nid x) id) eqn:E.
  - cbn [find_node]. apply ident_eqb_eq in E. rewrite Hn, E.
    assert (ident_eqb id id2 = false) as -> by (apply ident_eqb_neq; congruence). reflexivity.
  - cbn [find_node]. destruct (ident_eqb (nid x) id2); [reflexivity|exact IH].
Qed.

Lemma in_replace_node ns id n' n : In n (replace_node ns id n') -> n = n' \/ In n ns.
Proof.
  induction ns as [|x r IH]; cbn [replace_node]; [intros []|].
  destruct (ident_eqb (nid x) id).
  - intros [<-|H]; [left; reflexivity|right; right; exact H].
  - intros [<-|H]; [right; left; reflexivity|]. destruct (IH H); [left|right; right]; assumption.
Qed.

(* ---------------------------------------------------------------- uncollide_inputs *)
Lemma equiv_owner_some G o e : equiv_owner G o = Some e -> e = o /\ exists l, src_leaf o = Some l.
Proof.
  destruct o as [i|id|sw l r]; cbn [equiv_owner src_leaf]; [| |discriminate].
  - destruct (i <? pdata G)%nat; [|discriminate]. intros H; inversion H; eauto.
  - destruct (find_node (pnodes G) id); [|discriminate]. intros H; inversion H; eauto.
Qed.

Lemma are_equivalent_emb o a : are_equivalent o a = true -> arg_emb o a.
Proof.
  unfold are_equivalent, arg_emb. destruct (src_leaf o) as [l|]; [|discriminate].
  intros H. apply existsb_exists in H as (l' & Hin & E). apply leaf_eqb_eq in E. subst. eauto.
Qed.

Definition leaves_incl (a a' : src) : Prop := incl (leaves a) (leaves a').

Lemma uncollide_mono G : forall os as_ n r n',
  uncollide_args G n os as_ = Some (r, n') -> Forall2 leaves_incl as_ r.
Proof.
  induction os as [|o os IH]; intros [|a as_] n r n' H; cbn [uncollide_args] in H; try discriminate.
  - inversion H. constructor.
  - destruct (are_equivalent o a).
    + destruct (uncollide_args G n os as_) as [[r0 n0]|] eqn:E; [|discriminate]. inversion H; subst.
      constructor; [apply incl_refl|eapply IH; eauto].
    + destruct (equiv_owner G o) as [e|]; [|discriminate].
      destruct (uncollide_args G (S n) os as_) as [[r0 n0]|] eqn:E; [|discriminate]. inversion H; subst.
      constructor; [|eapply IH; eauto]. unfold leaves_incl. cbn [leaves]. apply incl_appl. apply incl_refl.
Qed.

Lemma uncollide_self G : forall os as_ n r n',
  uncollide_args G n os as_ = Some (r, n') -> Forall2 arg_emb os r.
Proof.
  induction os as [|o os IH]; intros [|a as_] n r n' H; cbn [uncollide_args] in H; try discriminate.
  - inversion H. constructor.
  - destruct (are_equivalent o a) eqn:Eq.
    + destruct (uncollide_args G n os as_) as [[r0 n0]|] eqn:E; [|discriminate]. inversion H; subst.
      constructor; [apply are_equivalent_emb; exact Eq|eapply IH; eauto].
    + destruct (equiv_owner G o) as [e|] eqn:Ee; [|discriminate].
      destruct (uncollide_args G (S n) os as_) as [[r0 n0]|] eqn:E; [|discriminate]. inversion H; subst.
      constructor; [|eapply IH; eauto].
      destruct (equiv_owner_some _ _ _ Ee) as [-> [l Hl]]. exists l. split; [exact Hl|].
      cbn [leaves]. apply in_or_app. right. destruct o; cbn [src_leaf] in Hl; inversion Hl; left; reflexivity.
Qed.

Lemma arg_emb_mono os as_ r : Forall2 arg_emb os as_ -> Forall2 leaves_incl as_ r -> Forall2 arg_emb os r.
Proof.
  intros H. revert r. induction H as [|o a os as_ Hoa _ IH]; intros r Hr; inversion Hr; subst; constructor.
  - destruct Hoa as (l & Hl & Hin). exists l. split; [exact Hl|]. match goal with Hi : leaves_incl a _ |- _ => apply Hi end. exact Hin.
  - apply IH. assumption.
Qed.

Lemma map_opt_equiv_self G os es : map_opt (equiv_owner G) os = Some es -> Forall2 arg_emb os es.
Proof.
  revert es. induction os as [|o os IH]; intros es H; cbn [map_opt] in H.
  - inversion H. constructor.
  - destruct (equiv_owner G o) as [e|] eqn:Ee; [|discriminate].
    destruct (map_opt (equiv_owner G) os) as [es'|] eqn:E; [|discriminate]. inversion H; subst.
    constructor; [|apply IH; reflexivity].
    destruct (equiv_owner_some _ _ _ Ee) as [-> [l Hl]]. exists l. split; [exact Hl|].
    destruct o; cbn [src_leaf] in Hl; inversion Hl; left; reflexivity.
Qed.

(* ---------------------------------------------------------------- append_node *)
Lemma node_emb_pnodes G G' c : pnodes G = pnodes G' -> node_emb G c -> node_emb G' c.
Proof. unfold node_emb. intros ->. auto. Qed.

Lemma append_node_mono G c' G1 c : append_node G c' = Some G1 -> node_emb G c -> node_emb G1 c.
Proof.
  unfold append_node. intros H (a0 & Ha0 & HF & Hops).
  destruct (find_node (pnodes G) (nid c')) as [a|] eqn:Ea.
  - destruct (uncollide_args G (pnsw G) (nargs c') (nargs a)) as [[args' n']|] eqn:Eu; [|discriminate].
    inversion H; subst G1. clear H. unfold node_emb. cbn [pnodes].
    destruct (find_node_some _ _ _ Ea) as [_ Hida].
    destruct (ident_eqb (nid c) (nid c')) eqn:E.
    + apply ident_eqb_eq in E. rewrite E in *. rewrite Ea in Ha0. inversion Ha0; subst a0.
      exists (mkNode (nid a) (nsw a) (insert_ops (nops a) (nops c')) args'). split; [|split].
      * eapply find_replace_same; eauto.
      * cbn [nargs]. eapply arg_emb_mono; [exact HF|]. eapply uncollide_mono; eauto.
      * cbn [nops]. intros k Hk. destruct (Hops k Hk) as [k' Hk']. exists k'. apply insert_ops_keeps. exact Hk'.
    + apply ident_eqb_neq in E. exists a0. split; [|split; assumption].
      rewrite find_replace_other; [exact Ha0|exact Hida|exact E].
  - destruct (map_opt (equiv_owner G) (nargs c')) as [es|]; [|discriminate].
    destruct (nops c') as [|k0 ks]; [discriminate|]. inversion H; subst G1. clear H.
    exists a0. cbn [pnodes]. split; [|split; assumption]. apply find_node_app_l. exact Ha0.
Qed.

Lemma append_node_self G c' G1 : append_node G c' = Some G1 -> node_emb G1 c'.
Proof.
  unfold append_node. intros H.
  destruct (find_node (pnodes G) (nid c')) as [a|] eqn:Ea.
  - destruct (uncollide_args G (pnsw G) (nargs c') (nargs a)) as [[args' n']|] eqn:Eu; [|discriminate].
    inversion H; subst G1. clear H. destruct (find_node_some _ _ _ Ea) as [_ Hida].
    exists (mkNode (nid a) (nsw a) (insert_ops (nops a) (nops c')) args'). cbn [pnodes nargs nops]. split; [|split].
    + eapply find_replace_same; eauto.
    + eapply uncollide_self; eauto.
    + intros k Hk. apply insert_ops_has. exact Hk.
  - destruct (map_opt (equiv_owner G) (nargs c')) as [es|] eqn:Ee; [|discriminate].
    destruct (nops c') as [|k0 ks] eqn:Ek; [discriminate|]. inversion H; subst G1. clear H.
    exists (mkNode (nid c') (pnsw G) (k0 :: ks) es). cbn [pnodes nargs nops]. split; [|split].
    + apply (find_node_app_new (pnodes G) (mkNode (nid c') (pnsw G) (k0 :: ks) es)). exact Ea.
    + apply (map_opt_equiv_self G). exact Ee.
    + intros k Hk. rewrite Ek in Hk. apply find_op_in. exact Hk.
Qed.

Lemma append_node_out G c' G1 : append_node G c' = Some G1 -> pout G1 = pout G /\ pdata G1 = pdata G.
Proof.
  unfold append_node. intros H.
  destruct (find_node (pnodes G) (nid c')) as [a|].
  - destruct (uncollide_args G (pnsw G) (nargs c') (nargs a)) as [[args' n']|]; [|discriminate].
    inversion H; subst. auto.
  - destruct (map_opt (equiv_owner G) (nargs c')); [|discriminate].
    destruct (nops c'); [discriminate|]. inversion H; subst. auto.
Qed.

Definition an_step (acc : option pe) (c : node) : option pe :=
  match acc with Some G' => append_node G' c | None => None end.

Lemma an_fold_none cs : fold_left an_step cs None = None.
Proof. induction cs as [|c cs IH]; cbn [fold_left an_step]; [reflexivity|exact IH]. Qed.

Lemma append_nodes_cons c cs G :
  append_nodes (c :: cs) G = match append_node G c with Some G1 => append_nodes cs G1 | None => None end.
Proof.
  unfold append_nodes. fold an_step. cbn [fold_left an_step]. destruct (append_node G c); [reflexivity|].
  apply an_fold_none.
Qed.

Lemma append_nodes_spec : forall cs G G1,
  append_nodes cs G = Some G1 ->
  (forall c, node_emb G c -> node_emb G1 c) /\ Forall (node_emb G1) cs /\ pout G1 = pout G /\ pdata G1 = pdata G.
Proof.
  induction cs as [|c cs IH]; intros G G1 H.
  - unfold append_nodes in H. cbn [fold_left] in H. inversion H; subst. auto.
  - rewrite append_nodes_cons in H. destruct (append_node G c) as [G0|] eqn:E0; [|discriminate].
    destruct (IH G0 G1 H) as (Hm & Hs & Ho & Hd).
    destruct (append_node_out _ _ _ E0) as [Ho0 Hd0].
    split; [|split; [|split; congruence]].
    + intros c0 Hc0. apply Hm. eapply append_node_mono; eauto.
    + constructor; [|exact Hs]. apply Hm. eapply append_node_self; eauto.
Qed.

(* append_keeps, on embeddings: a kernel embedded in G stays embedded after any further append, and the
   appended kernel is embedded *)
Theorem append_embeds g' G G' :
  append g' G = Some G' ->
  (forall g, embeds g G -> embeds g G') /\ embeds g' G' /\ pdata G' = pdata G.
Proof.
  unfold append. intros H.
  destruct (append_nodes (pnodes g') G) as [G1|] eqn:E1; [|discriminate].
  destruct (uncollide_args G1 (pnsw G1) (pout g') (pout G1)) as [[o' n']|] eqn:Eu; [|discriminate].
  inversion H; subst G'. clear H.
  destruct (append_nodes_spec _ _ _ E1) as (Hm & Hs & Ho & Hd).
  split; [|split; [|exact Hd]].
  - intros g [Hn Hout]. split.
    + rewrite Forall_forall in *. intros c Hc. apply (node_emb_pnodes G1); [reflexivity|]. apply Hm. apply Hn. exact Hc.
    + cbn [pout]. eapply arg_emb_mono; [exact Hout|]. rewrite <- Ho. eapply uncollide_mono; eauto.
  - split.
    + rewrite Forall_forall in *. intros c Hc. apply (node_emb_pnodes G1); [reflexivity|]. apply Hs. exact Hc.
    + cbn [pout]. eapply uncollide_self; eauto.
Qed.

(* ---------------------------------------------------------------- the first kernel *)
Lemma embeds_refl g :
  is_concrete g = true -> nodup_ids (map nid (pnodes g)) = true -> embeds g g.
Proof.
  intros Hc Hnd. apply nodup_ids_NoDup in Hnd. unfold is_concrete in Hc. apply andb_true_iff in Hc as [Hc1 Hc2].
  rewrite forallb_forall in Hc1.
  assert (forall l, forallb src_is_leaf l = true -> Forall2 arg_emb l l) as Hl.
  { induction l as [|s l IH]; cbn [forallb]; intros H; [constructor|]. apply andb_true_iff in H as [H1 H2].
    constructor; [|apply IH; exact H2].
    destruct s; cbn [src_is_leaf] in H1; try discriminate; eexists; (split; [reflexivity|left; reflexivity]). }
  split.
  - apply Forall_forall. intros c Hin. exists c. split; [apply find_node_nodup; assumption|]. split.
    + apply Hl. specialize (Hc1 c Hin). apply andb_true_iff in Hc1 as [_ H]. exact H.
    + intros k Hk. apply find_op_in. exact Hk.
  - apply Hl. exact Hc2.
Qed.
