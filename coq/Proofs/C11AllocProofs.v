(* Proofs about Model/C11Alloc.v : StaticAllocs bump arithmetic (C11). *)
From Snax Require Import Base.Prelude Base.ListAux Model.Tsl Model.C11Alloc.

(* a well-formed request: positive alignment, non-negative size *)
Definition req_ok (r : req) : Prop := 0 < ralign r /\ 0 <= rsize r.
Definition req_okb (r : req) : bool := (0 <? ralign r) && (0 <=? rsize r).
Lemma req_okb_ok r : req_okb r = true <-> req_ok r.
Proof. unfold req_okb, req_ok. lia. Qed.

Lemma align_up_spec cur al : 0 < al ->
  cur <= align_up cur al < cur + al /\ align_up cur al mod al = 0.
Proof.
  intros Hal. unfold align_up. destruct (cur mod al =? 0) eqn:E.
  - apply Z.eqb_eq in E. lia.
  - apply Z.eqb_neq in E. pose proof (Z.mod_pos_bound cur al Hal) as Hb. split; [lia|].
    replace (cur + (al - cur mod al)) with ((cur - cur mod al) + 1 * al) by lia.
    rewrite Z.mod_add by lia.
    rewrite Zminus_mod, Zmod_mod, Z.sub_diag. apply Zmod_0_l.
Qed.

(* least aligned address >= cur *)
Lemma align_up_least cur al x : 0 < al -> cur <= x -> x mod al = 0 -> align_up cur al <= x.
Proof.
  intros Hal Hx Hm. destruct (align_up_spec cur al Hal) as [[H1 H2] H3].
  apply Z.mod_divide in Hm; [|lia]. apply Z.mod_divide in H3; [|lia].
  destruct Hm as [k ->]. destruct H3 as [m Hm]. rewrite Hm in *.
  destruct (Z_le_gt_dec m k) as [Hmk|Hmk]; [nia|]. assert (k + 1 <= m) by lia. nia.
Qed.

(* the chain invariant: every address is aligned, inside [lo, hi], and starts at or after the
   end of the previous range *)
Fixpoint placed (lo hi : Z) (l : list Z) (rs : list req) : Prop :=
  match l, rs with
  | [], [] => True
  | a :: l', r :: rs' =>
      lo <= a /\ a mod ralign r = 0 /\ a + rsize r <= hi /\ placed (a + rsize r) hi l' rs'
  | _, _ => False
  end.

Lemma static_from_placed start cap : forall rs cur l,
  Forall req_ok rs -> static_from start cap cur rs = AOk l -> placed cur (start + cap) l rs.
Proof.
  induction rs as [|r rs IH]; intros cur l Hok H; cbn [static_from] in H.
  - inversion H; subst. exact I.
  - inversion Hok as [|? ? [Hal Hsz] Hrest]; subst.
    unfold static_step in H. destruct (ralign r =? 0) eqn:E0; [discriminate|].
    destruct (align_up cur (ralign r) + rsize r >? start + cap) eqn:Efull; [discriminate|].
    destruct (static_from start cap (align_up cur (ralign r) + rsize r) rs) as [l'|e] eqn:Erec; [|discriminate].
    inversion H; subst. cbn [placed].
    destruct (align_up_spec cur (ralign r) Hal) as [[H1 _] H3].
    repeat split; try lia. apply IH; assumption.
Qed.

Lemma placed_length lo hi : forall l rs, placed lo hi l rs -> length l = length rs.
Proof.
  intros l; revert lo; induction l as [|a l IH]; intros lo [|r rs] H; cbn [placed] in H; try contradiction; [reflexivity|].
  destruct H as (_ & _ & _ & H). cbn [length]. f_equal. eapply IH; exact H.
Qed.

Lemma placed_weaken lo lo' hi : forall l rs, lo' <= lo -> placed lo hi l rs -> placed lo' hi l rs.
Proof.
  intros [|a l] [|r rs] Hle H; cbn [placed] in *; try contradiction; [exact I|].
  destruct H as (H1 & H2 & H3 & H4). repeat split; try assumption; lia.
Qed.

(* everything placed after `lo` starts at or after `lo` (sizes are non-negative) *)
Lemma placed_lower lo hi : forall l rs, Forall req_ok rs -> placed lo hi l rs ->
  forall j a, nth_error l j = Some a -> lo <= a.
Proof.
  intros l; revert lo; induction l as [|a0 l IH]; intros lo [|r rs] Hok H j a Hj; cbn [placed] in H; try contradiction.
  - destruct j; discriminate.
  - destruct H as (H1 & _ & _ & H4). inversion Hok as [|? ? [_ Hsz] Hrest]; subst.
    destruct j as [|j]; cbn [nth_error] in Hj.
    + inversion Hj; subst; exact H1.
    + specialize (IH _ _ Hrest H4 j a Hj). lia.
Qed.

Lemma placed_props lo hi : forall l rs, Forall req_ok rs -> placed lo hi l rs ->
  forall i ai ri, nth_error l i = Some ai -> nth_error rs i = Some ri ->
    lo <= ai /\ ai + rsize ri <= hi /\ ai mod ralign ri = 0 /\
    forall j aj, (i < j)%nat -> nth_error l j = Some aj -> ai + rsize ri <= aj.
Proof.
  intros l; revert lo; induction l as [|a0 l IH]; intros lo [|r rs] Hok H i ai ri Hi Hri; cbn [placed] in H; try contradiction.
  - destruct i; discriminate.
  - destruct H as (H1 & H2 & H3 & H4). inversion Hok as [|? ? [Hal Hsz] Hrest]; subst.
    destruct i as [|i]; cbn [nth_error] in Hi, Hri.
    + inversion Hi; inversion Hri; subst. repeat split; try assumption.
      intros j aj Hij Hj. destruct j as [|j]; [lia|]. cbn [nth_error] in Hj.
      eapply placed_lower; eassumption.
    + destruct (IH _ _ Hrest H4 i ai ri Hi Hri) as (G1 & G2 & G3 & G4).
      repeat split; try assumption; [lia|].
      intros j aj Hij Hj. destruct j as [|j]; [lia|]. cbn [nth_error] in Hj.
      apply (G4 j aj); [lia|exact Hj].
Qed.

(* static_disjoint: for every list of (size, alignment) requests with positive alignment and
   non-negative size, when StaticAllocs succeeds the ranges [a_i, a_i+size_i) are aligned, inside
   [start, start+capacity], and pairwise disjoint (ordered). *)
Theorem static_disjoint start cap rs l :
  Forall req_ok rs -> static_allocs start cap rs = AOk l ->
  length l = length rs /\
  forall i ai ri, nth_error l i = Some ai -> nth_error rs i = Some ri ->
    start <= ai /\ ai + rsize ri <= start + cap /\ ai mod ralign ri = 0 /\
    forall j aj, (i < j)%nat -> nth_error l j = Some aj -> ai + rsize ri <= aj.
Proof.
  intros Hok H. unfold static_allocs in H. pose proof (static_from_placed _ _ _ _ _ Hok H) as Hp.
  split; [eapply placed_length; exact Hp|]. intros i ai ri. apply (placed_props _ _ _ _ Hok Hp).
Qed.

(* ---- when does it fail --------------------------------------------------------- *)
(* the bump pointer ignoring the capacity check *)
Fixpoint bump (cur : Z) (rs : list req) : Z :=
  match rs with
  | [] => cur
  | r :: rest => bump (align_up cur (ralign r) + rsize r) rest
  end.

Lemma bump_mono : forall rs cur, Forall req_ok rs -> cur <= bump cur rs.
Proof.
  induction rs as [|r rs IH]; intros cur Hok; cbn [bump]; [lia|].
  inversion Hok as [|? ? [Hal Hsz] Hrest]; subst.
  destruct (align_up_spec cur (ralign r) Hal) as [[H1 _] _].
  specialize (IH (align_up cur (ralign r) + rsize r) Hrest). lia.
Qed.

(* the "memory space is full" error is raised exactly when the packed requests do not fit;
   with positive alignments no other error is possible *)
Theorem static_full_iff start cap : forall rs cur, Forall req_ok rs -> cur <= start + cap ->
  (static_from start cap cur rs = AErr ErrFull <-> bump cur rs > start + cap) /\
  (static_from start cap cur rs <> AErr ErrZeroDiv).
Proof.
  induction rs as [|r rs IH]; intros cur Hok Hcur; cbn [static_from bump].
  - split; [split; [discriminate|lia]|discriminate].
  - inversion Hok as [|? ? [Hal Hsz] Hrest]; subst.
    unfold static_step. destruct (ralign r =? 0) eqn:E0; [lia|].
    destruct (align_up cur (ralign r) + rsize r >? start + cap) eqn:Efull.
    + pose proof (bump_mono rs (align_up cur (ralign r) + rsize r) Hrest).
      split; [split; [lia|reflexivity]|discriminate].
    + assert (Hc : align_up cur (ralign r) + rsize r <= start + cap) by lia.
      destruct (IH _ Hrest Hc) as [IH1 IH2].
      destruct (static_from start cap (align_up cur (ralign r) + rsize r) rs) as [l'|e] eqn:Erec.
      * split; [split; [discriminate|]|discriminate]. intros Hb. apply IH1 in Hb. discriminate.
      * split.
        -- split; intros Hx.
           ++ apply IH1. inversion Hx; reflexivity.
           ++ apply IH1 in Hx. inversion Hx; reflexivity.
        -- intros Hx. apply IH2. inversion Hx; reflexivity.
Qed.

(* alignment = 0 (also the default when the alloc carries no alignment attribute): Python's
   `current_address % 0` raises ZeroDivisionError at that request, whatever the state *)
Theorem static_zero_alignment start cap cur r rest :
  ralign r = 0 -> static_from start cap cur (r :: rest) = AErr ErrZeroDiv.
Proof. intros H. cbn [static_from]. unfold static_step. rewrite H. reflexivity. Qed.

(* ---- several memory spaces: each memory behaves like the single-memory allocator on its own
   requests ------------------------------------------------------------------------------- *)

(* ---- the memref descriptor ------------------------------------------------------------- *)
Definition resolve (rt : Z * Z) (p : psrc) : option Z :=
  match p with
  | PConst a => Some a
  | PField 0 => Some (fst rt)
  | PField 1 => Some (snd rt)
  | PField _ => None
  end.

Section Runtime.
  (* snax_alloc_l1(size, alignment) is run-time code outside the repository's Python: an oracle returning
     (pointer, aligned_pointer) with the contract of an aligned allocator *)
  Variable alloc_l1 : Z -> Z -> Z * Z.
  Hypothesis alloc_l1_contract : forall size al, 0 < al ->
    fst (alloc_l1 size al) <= snd (alloc_l1 size al) /\ snd (alloc_l1 size al) mod al = 0.

  (* dynamic mode: accesses go through descriptor field 1, which is the allocator's aligned pointer obtained
     with this alloc's own alignment; field 0 keeps the base pointer; offset 0; sizes are the shape operands *)
  Theorem descr_dynamic_aligned size al n : 0 < al ->
    let d := descr_dynamic al n in
    d_call_align d = Some al /\
    resolve (alloc_l1 size al) (d_ptr d) = Some (fst (alloc_l1 size al)) /\
    (exists ap, resolve (alloc_l1 size al) (d_aligned d) = Some ap /\ ap mod al = 0 /\ fst (alloc_l1 size al) <= ap) /\
    d_offset d = 0 /\ d_sizes d = seq 0 n.
  Proof.
    intros Hal d. destruct (alloc_l1_contract size al Hal) as [H1 H2].
    repeat split; try reflexivity. exists (snd (alloc_l1 size al)). repeat split; assumption.
  Qed.
End Runtime.

(* static / minimalloc mode: both pointer fields are the constant address *)
Theorem descr_const_fields addr n rt :
  resolve rt (d_ptr (descr_const addr n)) = Some addr /\ resolve rt (d_aligned (descr_const addr n)) = Some addr /\
  d_offset (descr_const addr n) = 0 /\ d_sizes (descr_const addr n) = seq 0 n.
Proof. repeat split. Qed.

(* ---- several memory spaces: each memory behaves like the single-memory allocator on its own requests --- *)
Lemma nth_set_nth_same {A} (dflt : A) : forall n x l, (n < length l)%nat -> nth n (set_nth n x l) dflt = x.
Proof. induction n as [|n IH]; intros x [|h t] H; cbn [length] in H; try lia; cbn [set_nth nth]; [reflexivity|apply IH; lia]. Qed.
Lemma nth_set_nth_other {A} (dflt : A) : forall n n' x l, n <> n' -> nth n' (set_nth n x l) dflt = nth n' l dflt.
Proof.
  induction n as [|n IH]; intros [|n'] x [|h t] Hne; cbn [set_nth nth]; try reflexivity; try lia. apply IH. lia.
Qed.
Lemma set_nth_length {A} : forall n (x : A) l, length (set_nth n x l) = length l.
Proof. induction n as [|n IH]; intros x [|h t]; cbn [set_nth length]; auto. Qed.

Definition cur_of (mems : list (Z * Z)) (curs : list (option Z)) (m : nat) : Z :=
  match nth m curs None with Some c => c | None => fst (nth m mems (0, 0)) end.
Definition reqs_of (m : nat) (rs : list mreq) : list req := map snd (filter (fun r => Nat.eqb (fst r) m) rs).
Definition addrs_of (m : nat) (rs : list mreq) (l : list Z) : list Z :=
  map snd (filter (fun p => Nat.eqb (fst (fst p)) m) (combine rs l)).

Theorem static_multi_proj mems : forall rs curs l m,
  length curs = length mems -> Forall (fun r => (fst r < length mems)%nat) rs ->
  static_multi_from mems curs rs = AOk l ->
  static_from (fst (nth m mems (0, 0))) (snd (nth m mems (0, 0))) (cur_of mems curs m) (reqs_of m rs) = AOk (addrs_of m rs l).
Proof.
  induction rs as [|[m0 r] rs IH]; intros curs l m Hlen Hin H; cbn [static_multi_from] in H.
  - inversion H; subst. reflexivity.
  - inversion Hin as [|? ? Hm0 Hrest]; subst. cbn [fst] in Hm0.
    destruct (nth m0 mems (0, 0)) as [start cap] eqn:Em.
    destruct (static_step start cap (match nth m0 curs None with Some c => c | None => start end) r) as [[a next]|e] eqn:Es; [|discriminate].
    destruct (static_multi_from mems (set_nth m0 (Some next) curs) rs) as [l'|e] eqn:Er; [|discriminate].
    inversion H; subst. clear H.
    specialize (IH (set_nth m0 (Some next) curs) l' m ltac:(rewrite set_nth_length; exact Hlen) Hrest Er).
    unfold reqs_of, addrs_of. cbn [filter combine fst snd map].
    destruct (Nat.eqb m0 m) eqn:E.
    + apply Nat.eqb_eq in E. subst m0. cbn [map static_from]. rewrite Em. cbn [fst snd].
      unfold cur_of at 1. rewrite Em. cbn [fst]. rewrite Es.
      unfold cur_of in IH. rewrite nth_set_nth_same in IH by lia. fold (reqs_of m rs). fold (addrs_of m rs l').
      rewrite Em in IH. cbn [fst snd] in IH. rewrite IH. reflexivity.
    + apply Nat.eqb_neq in E. unfold cur_of in *. rewrite nth_set_nth_other in IH by exact E. exact IH.
Qed.

(* consequently StaticAllocs over several memory spaces places the buffers of every memory space m in
   aligned, in-window, pairwise disjoint ranges of that space *)
Corollary static_multi_disjoint mems rs l m :
  Forall (fun r => (fst r < length mems)%nat) rs -> Forall req_ok (reqs_of m rs) ->
  static_multi mems rs = AOk l ->
  let start := fst (nth m mems (0, 0)) in let cap := snd (nth m mems (0, 0)) in
  length (addrs_of m rs l) = length (reqs_of m rs) /\
  forall i ai ri, nth_error (addrs_of m rs l) i = Some ai -> nth_error (reqs_of m rs) i = Some ri ->
    start <= ai /\ ai + rsize ri <= start + cap /\ ai mod ralign ri = 0 /\
    forall j aj, (i < j)%nat -> nth_error (addrs_of m rs l) j = Some aj -> ai + rsize ri <= aj.
Proof.
  intros Hin Hok H start cap. unfold static_multi in H.
  pose proof (static_multi_proj mems rs _ l m ltac:(rewrite map_length; reflexivity) Hin H) as Hp.
  assert (Ec : cur_of mems (map (fun _ => None) mems) m = start).
  { unfold cur_of. replace (nth m (map (fun _ : Z * Z => @None Z) mems) None) with (@None Z); [reflexivity|].
    clear. revert m. induction mems as [|x mems IH]; intros [|m]; cbn [map nth]; auto. }
  rewrite Ec in Hp. apply (static_disjoint start cap _ _ Hok Hp).
Qed.
