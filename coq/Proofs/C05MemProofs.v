(* C05 — byte memory, bursts and loop nests: the execution of the emitted code is the
   left-to-right application of its 1-D bursts, and the final contents of an address are
   determined by the bursts covering it. *)
From Snax Require Import Base.Prelude Base.ListAux Model.Tsl Model.C05Copy.

Definition b_src (b : burst) : Z := fst (fst b).
Definition b_dst (b : burst) : Z := snd (fst b).
Definition b_len (b : burst) : Z := snd b.
Definition covers (b : burst) (a : Z) : Prop := b_dst b <= a < b_dst b + b_len b.

Lemma run_bursts_app bs1 bs2 m : run_bursts (bs1 ++ bs2) m = run_bursts bs2 (run_bursts bs1 m).
Proof. unfold run_bursts. apply fold_left_app. Qed.

Lemma run_bursts_flat_map {A} (f : A -> list burst) (l : list A) m :
  run_bursts (flat_map f l) m = fold_left (fun m' x => run_bursts (f x) m') l m.
Proof.
  revert m. induction l as [|x l IH]; intros m; cbn [flat_map fold_left]; [reflexivity|].
  rewrite run_bursts_app. apply IH.
Qed.

Lemma fold_left_ext_in {A B} (f g : A -> B -> A) (l : list B) (a : A) :
  (forall x y, In y l -> f x y = g x y) -> fold_left f l a = fold_left g l a.
Proof.
  revert a. induction l as [|y l IH]; intros a H; cbn [fold_left]; [reflexivity|].
  rewrite H by (left; reflexivity). apply IH. intros x z Hz. apply H. right; exact Hz.
Qed.

(* the loop-nest execution is the sequence of its bursts *)
Theorem exec_run_bursts ps pd c : forall env m,
  exec ps pd c env m = run_bursts (bursts ps pd c env) m.
Proof.
  induction c as [ub body IH | s d n | s d n ss ds rep]; intros env m; cbn [exec bursts].
  - rewrite run_bursts_flat_map. apply fold_left_ext_in. intros m' i _. apply IH.
  - reflexivity.
  - unfold copy2d, run_bursts. generalize (zrange rep) as l. intros l. revert m.
    induction l as [|i l IHl]; intros m; cbn [map fold_left]; [reflexivity|].
    cbn [fst snd]. rewrite IHl. reflexivity.
Qed.

Lemma run_bursts_uncovered bs : forall m a,
  (forall b, In b bs -> ~ covers b a) -> run_bursts bs m a = m a.
Proof.
  induction bs as [|b bs IH]; intros m a H; [reflexivity|].
  change (run_bursts (b :: bs) m) with (run_bursts bs (copy1d (fst (fst b)) (snd (fst b)) (snd b) m)).
  rewrite IH by (intros b' Hb'; apply H; right; exact Hb').
  unfold copy1d. specialize (H b (or_introl eq_refl)). unfold covers, b_dst, b_len in H.
  destruct ((snd (fst b) <=? a) && (a <? snd (fst b) + snd b)) eqn:E; [lia|reflexivity].
Qed.

(* Final contents of an address: if no read location of any burst is ever written, some burst
   covers [a], and every burst covering [a] reads the byte for [a] from address [x], then the
   result holds the initial contents of [x]. *)
Theorem run_bursts_spec bs : forall m a x,
  (forall b b' k, In b bs -> In b' bs -> 0 <= k < b_len b -> ~ covers b' (b_src b + k)) ->
  (exists b, In b bs /\ covers b a) ->
  (forall b, In b bs -> covers b a -> b_src b + (a - b_dst b) = x) ->
  run_bursts bs m a = m x.
Proof.
  induction bs as [|b bs IH] using rev_ind; intros m a x Hrw [b0 [Hin0 Hc0]] Hall; [destruct Hin0|].
  rewrite run_bursts_app.
  change (run_bursts [b] (run_bursts bs m)) with (copy1d (fst (fst b)) (snd (fst b)) (snd b) (run_bursts bs m)).
  unfold copy1d.
  destruct ((snd (fst b) <=? a) && (a <? snd (fst b) + snd b)) eqn:E.
  - assert (Hc : covers b a) by (unfold covers, b_dst, b_len; lia).
    assert (Hinb : In b (bs ++ [b])) by (apply in_app_iff; right; left; reflexivity).
    pose proof (Hall b Hinb Hc) as Hx.
    unfold b_src, b_dst in Hx. rewrite Hx.
    apply run_bursts_uncovered. intros b' Hb'. rewrite <- Hx.
    apply (Hrw b b' (a - snd (fst b))).
    + apply in_app_iff. right. left. reflexivity.
    + apply in_app_iff. left. exact Hb'.
    + unfold covers, b_dst, b_len in Hc. unfold b_len. lia.
  - apply IH.
    + intros b1 b2 k H1 H2. apply Hrw; apply in_app_iff; left; assumption.
    + apply in_app_iff in Hin0 as [Hin0|[<-|[]]].
      * exists b0. split; assumption.
      * unfold covers, b_dst, b_len in Hc0. lia.
    + intros b1 H1. apply Hall. apply in_app_iff. left. exact H1.
Qed.

(* bursts of a nest of loops around an inner statement *)
Definition in_bounds (ivs ubs : list Z) : Prop := Forall2 (fun i u => 0 <= i < u) ivs ubs.

Lemma bursts_nest ps pd inner : forall ubs env b,
  In b (bursts ps pd (nest ubs inner) env) <->
  exists ivs, in_bounds ivs ubs /\ In b (bursts ps pd inner (env ++ ivs)).
Proof.
  induction ubs as [|u ubs IH]; intros env b; cbn [nest bursts].
  - split.
    + intros H. exists []. split; [constructor|]. rewrite app_nil_r. exact H.
    + intros [ivs [Hb H]]. inversion Hb; subst. rewrite app_nil_r in H. exact H.
  - rewrite in_flat_map. split.
    + intros [i [Hi H]]. apply in_zrange in Hi. apply IH in H as [ivs [Hb H]].
      exists (i :: ivs). split; [constructor; assumption|].
      rewrite <- app_assoc in H. exact H.
    + intros [ivs [Hb H]]. inversion Hb as [|i u' ivs' ubs' Hi Hb']; subst.
      exists i. split; [apply in_zrange; exact Hi|]. apply IH. exists ivs'. split; [exact Hb'|].
      rewrite <- app_assoc. exact H.
Qed.
