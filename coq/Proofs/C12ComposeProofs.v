(* C12 (ii) — from one rewrite on a block to programs and to the whole pass:
   (a) context lift for a cast in the function's top-level block: the program-level rewrite rz_list
       (the model of one application of the pattern by the walker) yields an equivalent program;
   (b) composition: any finite sequence of equivalent steps is an equivalence (transitivity with the
       union of the new allocations), in particular the fold over the worklist of casts realize_all.
   Partial: the lift (a) is for casts of the top-level block (where set-memory-space creates the casts
   of top-level operations); a cast inside a loop body needs the two-state generalisation of the block
   theorem (each iteration re-executes the alloc) and is covered by correspondence and search only. *)
From Snax Require Import Base.Prelude Model.C12Casts Proofs.C12CoherenceProofs Proofs.C12NestedProofs.

Definition agree_except (D : list nat) (t t' : state) : Prop :=
  trace t = trace t' /\ forall b, ~ In b D -> memo t b = memo t' b.

(* same observations of every operation and same final contents of every buffer outside D, for every
   assignment of trip counts *)
Definition prog_equiv (D : list nat) (p p' : list item) : Prop :=
  forall trips, agree_except D (exec_list trips p init_state) (exec_list trips p' init_state).

Lemma prog_equiv_refl p : prog_equiv [] p p.
Proof. intros trips. split; reflexivity. Qed.

Lemma prog_equiv_trans D1 D2 p p' p'' :
  prog_equiv D1 p p' -> prog_equiv D2 p' p'' -> prog_equiv (D1 ++ D2) p p''.
Proof.
  intros H1 H2 trips. destruct (H1 trips) as [T1 M1]. destruct (H2 trips) as [T2 M2]. split; [congruence|].
  intros b Hb. rewrite M1, M2; [reflexivity| |]; intros Hin; apply Hb; apply in_app_iff; tauto.
Qed.

(* ---- (b) composition over a worklist ------------------------------------------------------------- *)
Theorem fold_equiv (f : list item -> nat -> list item) : forall cs p,
  (forall cs1 c cs2, cs = cs1 ++ c :: cs2 ->
     let q := fold_left f cs1 p in prog_equiv [c] q (f q c)) ->
  prog_equiv cs p (fold_left f cs p).
Proof.
  induction cs as [|c cs IH]; intros p H; [apply prog_equiv_refl|].
  cbn [fold_left]. change (c :: cs) with ([c] ++ cs).
  apply prog_equiv_trans with (f p c).
  - apply (H [] c cs eq_refl).
  - apply IH. intros cs1 c' cs2 E. subst cs. apply (H (c :: cs1) c' cs2 eq_refl).
Qed.

(* the whole pass: realisations in the walker's order *)
Theorem realize_all_equiv p :
  (forall cs1 c cs2, rev (casts p) = cs1 ++ c :: cs2 ->
     let q := fold_left (fun p c => rz_list p c p) cs1 p in prog_equiv [c] q (rz_list q c q)) ->
  prog_equiv (rev (casts p)) p (realize_all p).
Proof. intros H. unfold realize_all. apply (fold_equiv (fun p c => rz_list p c p)). exact H. Qed.

(* ---- (a) context lift for a cast of the top-level block ---------------------------------------------- *)
Lemma casts_loop lid body : casts_item (ILoop lid body) = flat_map casts_item body.
Proof. cbn [casts_item]. induction body as [|x r IH]; [reflexivity|]. cbn [flat_map]. rewrite <- IH. reflexivity. Qed.

Fixpoint rz_body (whole : list item) (c : nat) (l : list item) : list item :=
  match l with
  | [] => []
  | ICast d s td ts :: r =>
      if (d =? c)%nat then realize_here whole d s td ts r else ICast d s td ts :: rz_body whole c r
  | x :: r => rz_item whole c x :: rz_body whole c r
  end.

Lemma rz_loop whole c lid body : rz_item whole c (ILoop lid body) = ILoop lid (rz_body whole c body).
Proof.
  cbn [rz_item]. f_equal. induction body as [|x r IH]; [reflexivity|].
  destruct x; cbn [rz_body]; rewrite <- IH; reflexivity.
Qed.

Lemma rz_item_id whole c : forall it, ~ In c (casts_item it) -> rz_item whole c it = it.
Proof.
  apply (item_ind2 (fun it => ~ In c (casts_item it) -> rz_item whole c it = it)); try reflexivity.
  intros lid body IHb Hn. rewrite rz_loop. f_equal. rewrite casts_loop in Hn.
  induction IHb as [|x r Hx Hr IHr]; [reflexivity|].
  cbn [flat_map] in Hn.
  assert (Hn1 : ~ In c (casts_item x)) by (intros H; apply Hn; apply in_app_iff; left; exact H).
  assert (Hn2 : ~ In c (flat_map casts_item r)) by (intros H; apply Hn; apply in_app_iff; right; exact H).
  destruct x; cbn [rz_body]; try (rewrite (IHr Hn2); try rewrite (Hx Hn1); reflexivity).
  - cbn [casts_item] in Hn1. destruct (dst =? c)%nat eqn:E; [apply Nat.eqb_eq in E; exfalso; apply Hn1; left; exact E|].
    rewrite (IHr Hn2). reflexivity.
Qed.

Lemma rz_list_split whole d src td ts : forall pre post, ~ In d (casts pre) ->
  rz_list whole d (pre ++ ICast d src td ts :: post) = pre ++ realize_here whole d src td ts post.
Proof.
  induction pre as [|x pre IH]; intros post Hn.
  - cbn [app rz_list]. rewrite Nat.eqb_refl. reflexivity.
  - unfold casts in Hn. cbn [flat_map] in Hn.
    assert (Hn1 : ~ In d (casts_item x)) by (intros H; apply Hn; apply in_app_iff; left; exact H).
    assert (Hn2 : ~ In d (casts pre)) by (intros H; apply Hn; apply in_app_iff; right; exact H).
    cbn [app]. destruct x; cbn [rz_list]; try (rewrite (IH post Hn2); reflexivity).
    + cbn [casts_item] in Hn1. destruct (dst =? d)%nat eqn:E; [apply Nat.eqb_eq in E; exfalso; apply Hn1; left; exact E|].
      rewrite (IH post Hn2). reflexivity.
    + rewrite (rz_item_id whole d (ILoop lid body) Hn1), (IH post Hn2). reflexivity.
Qed.

(* One application of the pattern to a cast of the top-level block of a program: the rewritten program is
   equivalent, for every assignment of trip counts.  The facts about the state reached in front of the cast
   (d is defined once; the cast chain aliases its source; `others` lists the aliases of the source) are
   hypotheses about that state. *)
Theorem realize_top_equiv (p pre post : list item) (d src td ts s0 ts0 : nat) (others : list nat) :
  p = pre ++ ICast d src td ts :: post ->
  ~ In d (casts pre) -> used d post = true ->
  chain_source 64 p src ts = (s0, ts0) -> ts0 <> td ->
  In s0 others -> ~ In d others ->
  (forall trips, let s := exec_list trips pre init_state in
     (forall v, v <> d -> alias s v <> d) /\ alias s src = alias s s0 /\ In (alias s s0) others /\
     (forall v, alias s v = alias s s0 -> In v others)) ->
  safe_nested d others post = true ->
  prog_equiv [d] p (rz_list p d p).
Proof.
  intros Hp Hnc Hused Hch Hty Hs0o Hdo Hst Hsafe trips.
  assert (Er : rz_list p d p = pre ++ realize_here p d src td ts post)
    by (rewrite <- (rz_list_split p d src td ts pre post Hnc), <- Hp; reflexivity).
  rewrite Er. clear Er. unfold realize_here. rewrite Hused. cbn [negb]. rewrite Hch. cbn [fst snd].
  replace (ts0 =? td)%nat with false by (symmetry; apply Nat.eqb_neq; exact Hty).
  rewrite Hp at 1. rewrite !exec_list_app.
  destruct (Hst trips) as [Hfresh [Hsrc [HBo Hal]]].
  destruct (realize_coherent_nested trips d src td ts s0 others post (exec_list trips pre init_state)
              Hfresh Hsrc HBo Hs0o Hdo Hal Hsafe) as [HT HM].
  split; [exact HT|]. intros b Hb. apply HM. intros E. apply Hb. left. symmetry. exact E.
Qed.

(* non-vacuity of the lift: the second cast of a two-cast program, realised first by the reverse walker *)
Example realize_top_applies :
  let p := [ICast 2 0 1 0; ICast 3 1 1 0; IOp 0 [(2, KIn); (3, KOut)]; IOp 9 []]%nat in
  prog_equiv [3%nat] p (rz_list p 3%nat p) /\
  rz_list p 3%nat p = [ICast 2 0 1 0; IAlloc 3; IOp 0 [(2, KIn); (3, KOut)]; ICopy 3 1; IOp 9 []]%nat.
Proof.
  intros p. split; [|reflexivity].
  apply (realize_top_equiv p [ICast 2 0 1 0]%nat [IOp 0 [(2, KIn); (3, KOut)]; IOp 9 []]%nat
           3%nat 1%nat 1%nat 0%nat 1%nat 0%nat [1%nat]); try reflexivity.
  - cbn. intros [H|[]]. discriminate.
  - discriminate.
  - left. reflexivity.
  - intros [H|[]]. discriminate.
  - intros trips. cbn. unfold upd. repeat split.
    + intros v Hv. destruct (v =? 2)%nat eqn:E; [discriminate|exact Hv].
    + left. reflexivity.
    + intros v H. destruct (v =? 2)%nat eqn:E; [discriminate|left; symmetry; exact H].
Qed.
