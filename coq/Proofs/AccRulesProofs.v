(* C01 — preservation theorems for the guarded rules of Model/AccRules.v:
   context theorem (a block-local rewrite that preserves the simulation preserves it in every
   program context), moving a setup across statements that are quiet for its accelerator,
   MergeSetupOps, HoistSetupCallsIntoConditionals, ElideEmptySetupOps (any input state), and any
   finite sequence of proved rule applications. *)
From Snax Require Import Base.Prelude Model.AccIR Model.AccSem Model.AccInfer Model.AccDedup Model.AccWeave Model.AccRules
  Proofs.AccSemProofs Proofs.AccInferProofs Proofs.AccDedupProofs Proofs.AccRenameProofs Proofs.AccGhostProofs.

(* ---- identical statements preserve R ----------------------------------------------------------- *)
Lemma same_block orc : forall b m m', R m m' -> R (exec_block orc b m) (exec_block orc b m').
Proof.
  apply (block_ind2 (fun s => forall m m', R m m' -> R (exec_stmt orc s m) (exec_stmt orc s m'))
                    (fun b => forall m m', R m m' -> R (exec_block orc b m) (exec_block orc b m'))).
  - intros d e m m' HR. exact (R_same_pure orc d e m m' HR).
  - intros g ef pu ds ar m m' HR. exact (R_same_call orc g ef pu ds ar m m' HR).
  - intros a o i fs m m' HR. exact (R_same_setup a fs m m' HR).
  - intros a k st fs m m' HR. exact (R_same_launch orc a k st fs m m' HR).
  - intros a k m m' HR. simpl. apply R_same_emit_simple; exact HR.
  - intros a st m m' HR. simpl. apply R_same_emit_simple; exact HR.
  - intros iv lb ub sp its rs body ys IH m m' HR. rewrite !exec_stmt_for. apply exec_for_sim; assumption.
  - intros c rs th thy el ely IHt IHe m m' HR. rewrite !exec_stmt_if. apply exec_if_sim; assumption.
  - intros m m' HR. exact HR.
  - intros s b Hs Hb m m' HR. simpl. apply Hb. apply Hs. exact HR.
Qed.

Lemma R_trans m1 m2 m3 : R m1 m2 -> R m2 m3 -> R m1 m3.
Proof.
  intros [He1 [Hr1 [Hn1 Ht1]]] [He2 [Hr2 [Hn2 Ht2]]]. repeat split.
  - congruence.
  - intros a f. rewrite Hr2. apply Hr1.
  - congruence.
  - eapply trace_strong_trans; eassumption.
Qed.

(* ---- context theorem ------------------------------------------------------------------------------ *)
Section Context.
Variable orc : oracle.
Variable G : list val.
Variable f : block -> option block.

Definition bsim (b b' : block) : Prop :=
  forall m m', R m m' -> Zi G m -> Zi G m' -> R (exec_block orc b m) (exec_block orc b' m').

Hypothesis Hf : forall b b', f b = Some b' -> gok_block G b = true -> gok_block G b' = true -> bsim b b'.

Lemma ctx_stmt_for iv lb ub sp its rs body ys :
  ctx_stmt f (SFor iv lb ub sp its rs body ys) =
  match ctx_block f body with Some body' => Some (SFor iv lb ub sp its rs body' ys) | None => None end.
Proof. reflexivity. Qed.

Lemma ctx_stmt_if c rs th thy el ely :
  ctx_stmt f (SIf c rs th thy el ely) =
  match ctx_block f th with
  | Some th' => Some (SIf c rs th' thy el ely)
  | None => match ctx_block f el with Some el' => Some (SIf c rs th thy el' ely) | None => None end
  end.
Proof. reflexivity. Qed.

Lemma ctx_for_sim (b b' : block) iv lb ub sp its rs ys m m' :
  gok_stmt G (SFor iv lb ub sp its rs b ys) = true -> gok_stmt G (SFor iv lb ub sp its rs b' ys) = true ->
  bsim b b' -> R m m' -> Zi G m -> Zi G m' ->
  R (exec_for (exec_block orc b) iv lb ub sp its rs ys m) (exec_for (exec_block orc b') iv lb ub sp its rs ys m').
Proof.
  intros Hg Hg' Hb HR HZ HZ'. rewrite gok_stmt_for in Hg, Hg'.
  repeat (apply andb_true_iff in Hg; destruct Hg as [Hg ?]). apply Bool.negb_true_iff in Hg.
  repeat (apply andb_true_iff in Hg'; destruct Hg' as [Hg' ?]).
  destruct (Zi_for G (exec_block orc b) iv lb ub sp its rs ys m Hg H2 H1 H0
              (fun k Hk => Zi_block orc G b H k Hk) HZ) as [HZl _].
  destruct (Zi_for G (exec_block orc b') iv lb ub sp its rs ys m' Hg H2 H1 H0
              (fun k Hk => Zi_block orc G b' H3 k Hk) HZ') as [HZl' _].
  destruct HR as [He [Hr [Hn Ht]]]. unfold exec_for. rewrite He in HZl' |- *.
  set (l := env m lb) in *. set (s := env m sp) in *. set (n := trip_count l (env m ub) s).
  set (bargs := map it_arg its) in *.
  set (e0 := bind_list bargs (map (fun x => env m (it_init x)) its) (env m)) in *.
  assert (Hloop : forall k, R (iter_n k (for_step (exec_block orc b) iv bargs ys l s) (set_env m e0))
                              (iter_n k (for_step (exec_block orc b') iv bargs ys l s) (set_env m' e0))).
  { induction k as [|k IHk]; [repeat split; simpl; assumption|]. cbn [iter_n].
    pose proof (HZl k) as HZk. pose proof (HZl' k) as HZk'.
    set (mk := iter_n k (for_step (exec_block orc b) iv bargs ys l s) (set_env m e0)) in *.
    set (mk' := iter_n k (for_step (exec_block orc b') iv bargs ys l s) (set_env m' e0)) in *.
    unfold for_step. destruct IHk as [Hek [Hrk [Hnk Htk]]]. rewrite Hek.
    set (e1 := upd (env mk) iv (l + Z.of_nat k * s)).
    assert (HR1 : R (set_env mk e1) (set_env mk' e1)) by (repeat split; simpl; assumption).
    assert (HZ1 : Zi G (set_env mk e1)).
    { intros g Hg1. unfold e1. simpl. rewrite upd_other; [exact (HZk g Hg1)|]. intros ->. congruence. }
    assert (HZ1' : Zi G (set_env mk' e1)).
    { intros g Hg1. unfold e1. simpl. rewrite upd_other; [exact (HZk g Hg1)|]. intros ->. congruence. }
    destruct (Hb _ _ HR1 HZ1 HZ1') as [He2 [Hr2 [Hn2 Ht2]]]. rewrite He2. repeat split; simpl; assumption. }
  destruct (Hloop n) as [HeN [HrN [HnN HtN]]]. rewrite HeN. repeat split; simpl; assumption.
Qed.

Definition Cs (s : stmt) : Prop := forall s', ctx_stmt f s = Some s' ->
  gok_stmt G s = true -> gok_stmt G s' = true ->
  forall m m', R m m' -> Zi G m -> Zi G m' -> R (exec_stmt orc s m) (exec_stmt orc s' m').
Definition Cb (b : block) : Prop := forall b', ctx_children f b = Some b' ->
  gok_block G b = true -> gok_block G b' = true -> bsim b b'.

Lemma ctx_block_of_children b : Cb b -> forall b', ctx_block f b = Some b' ->
  gok_block G b = true -> gok_block G b' = true -> bsim b b'.
Proof.
  intros HC b' H Hg Hg'. unfold ctx_block in H. destruct (f b) as [b1|] eqn:E.
  - inversion H; subst. exact (Hf b b' E Hg Hg').
  - exact (HC b' H Hg Hg').
Qed.

Lemma ctx_children_sound : forall b, Cb b.
Proof.
  apply (block_ind2 Cs Cb); try (intros; intros s' H; discriminate).
  - (* for *)
    intros iv lb ub sp its rs body ys IH s' H Hg Hg' m m' HR HZ HZ'. rewrite ctx_stmt_for in H.
    destruct (ctx_block f body) as [body'|] eqn:E; [|discriminate]. inversion H; subst s'. clear H.
    rewrite !exec_stmt_for. apply ctx_for_sim; try assumption.
    rewrite gok_stmt_for in Hg, Hg'.
    apply andb_true_iff in Hg. apply andb_true_iff in Hg'.
    exact (ctx_block_of_children body IH body' E (proj2 Hg) (proj2 Hg')).
  - (* if *)
    intros c rs th thy el ely IHt IHe s' H Hg Hg' m m' HR HZ HZ'. rewrite ctx_stmt_if in H.
    rewrite !gok_stmt_if in *.
    destruct (ctx_block f th) as [th'|] eqn:Et.
    + inversion H; subst s'. clear H. rewrite gok_stmt_if in Hg'.
      repeat (apply andb_true_iff in Hg; destruct Hg as [Hg ?]).
      repeat (apply andb_true_iff in Hg'; destruct Hg' as [Hg' ?]).
      rewrite !exec_stmt_if. unfold exec_if. pose proof HR as [He _]. rewrite He.
      destruct (env m c =? 0).
      * destruct (same_block orc el m m' HR) as [He2 [Hr2 [Hn2 Ht2]]]. rewrite He2. repeat split; simpl; assumption.
      * destruct (ctx_block_of_children th IHt th' Et H0 H3 m m' HR HZ HZ') as [He2 [Hr2 [Hn2 Ht2]]].
        rewrite He2. repeat split; simpl; assumption.
    + destruct (ctx_block f el) as [el'|] eqn:Ee; [|discriminate]. inversion H; subst s'. clear H.
      rewrite gok_stmt_if in Hg'.
      repeat (apply andb_true_iff in Hg; destruct Hg as [Hg ?]).
      repeat (apply andb_true_iff in Hg'; destruct Hg' as [Hg' ?]).
      rewrite !exec_stmt_if. unfold exec_if. pose proof HR as [He _]. rewrite He.
      destruct (env m c =? 0).
      * destruct (ctx_block_of_children el IHe el' Ee H H2 m m' HR HZ HZ') as [He2 [Hr2 [Hn2 Ht2]]].
        rewrite He2. repeat split; simpl; assumption.
      * destruct (same_block orc th m m' HR) as [He2 [Hr2 [Hn2 Ht2]]]. rewrite He2. repeat split; simpl; assumption.
  - (* cons *)
    intros s b Hs Hb b' H Hg Hg' m m' HR HZ HZ'. cbn [ctx_children] in H.
    simpl in Hg. apply andb_true_iff in Hg. destruct Hg as [Hgs Hgb].
    destruct (ctx_stmt f s) as [s'|] eqn:Es.
    + inversion H; subst b'. clear H. simpl in Hg'. apply andb_true_iff in Hg'. destruct Hg' as [Hgs' _].
      cbn [exec_block]. apply same_block. exact (Hs s' Es Hgs Hgs' m m' HR HZ HZ').
    + destruct (ctx_children f b) as [b''|] eqn:Eb; [|discriminate]. inversion H; subst b'. clear H.
      simpl in Hg'. apply andb_true_iff in Hg'. destruct Hg' as [_ Hgb'].
      cbn [exec_block]. apply (Hb b'' Eb Hgb Hgb').
      * apply (same_block orc [s]). exact HR.
      * apply Zi_stmt; assumption.
      * apply Zi_stmt; assumption.
Qed.

Theorem ctx_prog_sound p p' args :
  ctx_prog f p = Some p' -> gok_prog G p = true -> gok_prog G p' = true ->
  trace_strong (run orc p args) (run orc p' args).
Proof.
  intros H Hg Hg'. unfold ctx_prog in H. destruct (ctx_block f (p_body p)) as [b'|] eqn:E; [|discriminate].
  inversion H; subst p'. clear H.
  pose proof (Zi_init orc G p args Hg) as HZ. pose proof (Zi_init orc G _ args Hg') as HZ'.
  unfold gok_prog in Hg, Hg'. cbn [p_params p_body] in Hg'.
  apply andb_true_iff in Hg. apply andb_true_iff in Hg'.
  unfold run, final_state. apply trace_strong_rev.
  assert (HR : R (exec_block orc (p_body p) (init_state orc p args))
                 (exec_block orc b' (init_state orc (mkProg (p_params p) b') args))).
  { apply (ctx_block_of_children _ (ctx_children_sound _) b' E (proj2 Hg) (proj2 Hg')); [apply R_refl|exact HZ|exact HZ']. }
  exact (proj2 (proj2 (proj2 HR))).
Qed.
End Context.

(* ---- statements that are quiet for accelerator a ------------------------------------------------- *)
Section Quiet.
Variable orc : oracle.
Variable a : acc.

(* everything agrees except (possibly) the registers of [a] *)
Definition Ra (m m' : mstate) : Prop :=
  env m' = env m /\ ncalls m' = ncalls m /\ trace_strong (tr m) (tr m') /\
  (forall b f, b <> a -> regs m' b f = regs m b f).

Lemma Ra_env m m' : Ra m m' -> env m' = env m.
Proof. intros H; exact (proj1 H). Qed.
Lemma Ra_set m m' e : Ra m m' -> Ra (set_env m e) (set_env m' e).
Proof. intros [He [Hn [Ht Hr]]]. repeat split; simpl; assumption. Qed.

Lemma quiet_for iv lb ub sp its rs body ys : quiet a (SFor iv lb ub sp its rs body ys) = quiet_block a body.
Proof.
  cbn [quiet]. induction body as [|x b IH]; [reflexivity|]. cbn [quiet_block]. rewrite <- IH. reflexivity.
Qed.
Lemma quiet_if c rs th thy el ely : quiet a (SIf c rs th thy el ely) = quiet_block a th && quiet_block a el.
Proof.
  cbn [quiet]. f_equal.
  - induction th as [|x b IH]; [reflexivity|]. cbn [quiet_block]. rewrite <- IH. reflexivity.
  - induction el as [|x b IH]; [reflexivity|]. cbn [quiet_block]. rewrite <- IH. reflexivity.
Qed.

Lemma quiet_Ra_block : forall b, quiet_block a b = true -> forall m m', Ra m m' -> Ra (exec_block orc b m) (exec_block orc b m').
Proof.
  apply (block_ind2 (fun s => quiet a s = true -> forall m m', Ra m m' -> Ra (exec_stmt orc s m) (exec_stmt orc s m'))
                    (fun b => quiet_block a b = true -> forall m m', Ra m m' -> Ra (exec_block orc b m) (exec_block orc b m'))).
  - intros d e _ m m' [He [Hn [Ht Hr]]]. simpl. rewrite He. repeat split; simpl; assumption.
  - intros g ef pu ds ar Hq m m' [He [Hn [Ht Hr]]]. simpl in Hq. apply Bool.negb_true_iff in Hq. subst ef.
    simpl. unfold exec_call. rewrite He, Hn. repeat split; simpl; try assumption.
    constructor; [simpl; auto|exact Ht].
  - intros a' o i fs Hq m m' [He [Hn [Ht Hr]]]. simpl in Hq. apply Bool.negb_true_iff in Hq. apply Nat.eqb_neq in Hq.
    simpl. unfold exec_setup. repeat split; simpl; try assumption.
    intros b f Hb. unfold upd. destruct (Nat.eqb b a') eqn:E; [|exact (Hr b f Hb)].
    rewrite He. apply write_fields_ext. intros g. apply Hr. apply Nat.eqb_eq in E. congruence.
  - intros a' k st fs Hq m m' [He [Hn [Ht Hr]]]. simpl in Hq. apply Bool.negb_true_iff in Hq. apply Nat.eqb_neq in Hq.
    simpl. unfold emit. repeat split; simpl; try assumption. rewrite He. constructor; [|exact Ht].
    simpl. repeat split. intros f. symmetry. apply Hr. exact Hq.
  - intros a' k _ m m' [He [Hn [Ht Hr]]]. simpl. unfold emit. repeat split; simpl; try assumption.
    constructor; [apply ev_strong_refl|exact Ht].
  - intros a' st _ m m' [He [Hn [Ht Hr]]]. simpl. unfold emit. repeat split; simpl; try assumption.
    constructor; [apply ev_strong_refl|exact Ht].
  - intros iv lb ub sp its rs body ys IH Hq m m' HR. rewrite quiet_for in Hq. rewrite !exec_stmt_for.
    apply (rel_for_sim Ra Ra_env Ra_set); [exact (IH Hq)|exact HR].
  - intros c rs th thy el ely IHt IHe Hq m m' HR. rewrite quiet_if in Hq. apply andb_true_iff in Hq.
    rewrite !exec_stmt_if. apply (rel_if_sim Ra Ra_env Ra_set); [exact (IHt (proj1 Hq))|exact (IHe (proj2 Hq))|exact HR].
  - intros _ m m' HR. exact HR.
  - intros s b Hs Hb Hq m m' HR. simpl in Hq. apply andb_true_iff in Hq. simpl. apply (Hb (proj2 Hq)). apply (Hs (proj1 Hq)). exact HR.
Qed.

(* ... and they leave the registers of [a] alone *)
Lemma quiet_regs_block : forall b, quiet_block a b = true -> forall m f, regs (exec_block orc b m) a f = regs m a f.
Proof.
  apply (block_ind2 (fun s => quiet a s = true -> forall m f, regs (exec_stmt orc s m) a f = regs m a f)
                    (fun b => quiet_block a b = true -> forall m f, regs (exec_block orc b m) a f = regs m a f)).
  - intros d e _ m f. reflexivity.
  - intros g ef pu ds ar Hq m f. simpl in Hq. apply Bool.negb_true_iff in Hq. subst ef. reflexivity.
  - intros a' o i fs Hq m f. simpl in Hq. apply Bool.negb_true_iff in Hq. apply Nat.eqb_neq in Hq.
    simpl. rewrite upd_other by congruence. reflexivity.
  - intros a' k st fs _ m f. reflexivity.
  - intros a' k _ m f. reflexivity.
  - intros a' st _ m f. reflexivity.
  - intros iv lb ub sp its rs body ys IH Hq m f. rewrite quiet_for in Hq. rewrite exec_stmt_for. unfold exec_for. simpl.
    set (step := for_step (exec_block orc body) iv (map it_arg its) ys (env m lb) (env m sp)).
    set (m0 := set_env m (bind_list (map it_arg its) (map (fun x => env m (it_init x)) its) (env m))).
    assert (Hl : forall k, regs (iter_n k step m0) a f = regs m a f).
    { induction k as [|k IHk]; [reflexivity|]. cbn [iter_n]. unfold step at 1, for_step. simpl.
      rewrite (IH Hq). simpl. exact IHk. }
    apply Hl.
  - intros c rs th thy el ely IHt IHe Hq m f. rewrite quiet_if in Hq. apply andb_true_iff in Hq.
    rewrite exec_stmt_if. unfold exec_if. destruct (env m c =? 0); simpl; [apply (IHe (proj2 Hq))|apply (IHt (proj1 Hq))].
  - intros _ m f. reflexivity.
  - intros s b Hs Hb Hq m f. simpl in Hq. apply andb_true_iff in Hq. simpl. rewrite (Hb (proj2 Hq)). apply (Hs (proj1 Hq)).
Qed.
End Quiet.

(* ---- list lemmas --------------------------------------------------------------------------------- *)
Lemma find_setup_split tg : forall b pre a o i fs post,
  find_setup tg b = Some (pre, (a, o, i, fs), post) -> b = pre ++ SSetup a o i fs :: post.
Proof.
  induction b as [|s b IH]; intros pre a o i fs post H; [discriminate|].
  assert (Hgen : match find_setup tg b with
                 | Some (pre0, x, post0) => Some (s :: pre0, x, post0)
                 | None => None
                 end = Some (pre, (a, o, i, fs), post) -> s :: b = pre ++ SSetup a o i fs :: post).
  { destruct (find_setup tg b) as [[[pre0 x] post0]|] eqn:E; [|discriminate]. intros H'. inversion H'; subst.
    simpl. f_equal. apply IH. reflexivity. }
  destruct s; try (exact (Hgen H)).
  simpl in H. destruct (Nat.eqb out tg).
  - inversion H; subst. reflexivity.
  - exact (Hgen H).
Qed.

Lemma find_prev_split a : forall r bt po pi pfs rest,
  find_prev_setup a r = Some (bt, (po, pi, pfs), rest) -> r = bt ++ SSetup a po pi pfs :: rest.
Proof.
  induction r as [|s r IH]; intros bt po pi pfs rest H; [discriminate|].
  assert (Hgen : (if stmt_sef s
                  then match find_prev_setup a r with
                       | Some (between, x, rest0) => Some (s :: between, x, rest0)
                       | None => None
                       end
                  else None) = Some (bt, (po, pi, pfs), rest) -> s :: r = bt ++ SSetup a po pi pfs :: rest).
  { destruct (stmt_sef s); [|discriminate].
    destruct (find_prev_setup a r) as [[[b0 x] r0]|] eqn:E; [|discriminate]. intros H'. inversion H'; subst.
    simpl. f_equal. apply IH. reflexivity. }
  destruct s; try (exact (Hgen H)).
  simpl in H. destruct (Nat.eqb a0 a) eqn:Ea; [|discriminate].
  apply Nat.eqb_eq in Ea. subst a0. inversion H; subst. reflexivity.
Qed.

Lemma last_binding_In2 f fs : forall v, last_binding f fs = Some v -> In (f, v) fs.
Proof.
  induction fs as [|[g w] fs IH]; intros v; simpl; [discriminate|].
  destruct (last_binding f fs) as [x|] eqn:E.
  - intros H. inversion H; subst. right. apply IH. reflexivity.
  - destruct (Nat.eqb g f) eqn:Eg; [|discriminate]. intros H. inversion H; subst.
    apply Nat.eqb_eq in Eg. subst. left. reflexivity.
Qed.

Lemma mem_nat_app x l1 l2 : mem_nat x (l1 ++ l2) = mem_nat x l1 || mem_nat x l2.
Proof. unfold mem_nat. apply existsb_app. Qed.

Lemma nodup_nat_snoc l f : nodup_nat l = true -> mem_nat f l = false -> nodup_nat (l ++ [f]) = true.
Proof.
  induction l as [|x l IH]; intros Hn Hf; [reflexivity|].
  simpl in Hn. apply andb_true_iff in Hn. destruct Hn as [Hx Hn].
  simpl. rewrite mem_nat_app. apply Bool.negb_true_iff in Hx. rewrite Hx. simpl.
  unfold mem_nat in Hf. simpl in Hf. apply orb_false_iff in Hf. destruct Hf as [Hfx Hf].
  rewrite Nat.eqb_sym, Hfx. simpl. apply IH; [exact Hn|exact Hf].
Qed.

Lemma keys_map_set f v s :
  map fst (map (fun gv : field * val => if Nat.eqb (fst gv) f then (f, v) else gv) s) = map fst s.
Proof.
  induction s as [|[g w] s IH]; [reflexivity|]. simpl. rewrite IH. f_equal.
  destruct (Nat.eqb g f) eqn:E; [apply Nat.eqb_eq in E; subst; reflexivity|reflexivity].
Qed.

Lemma st_set_keys_nodup f v s : nodup_nat (map fst s) = true -> nodup_nat (map fst (st_set f v s)) = true.
Proof.
  intros Hn. unfold st_set. destruct (st_has f s) eqn:Eh.
  - rewrite keys_map_set. exact Hn.
  - rewrite map_app. simpl. apply nodup_nat_snoc; [exact Hn|].
    apply mem_nat_false. intros Hin. apply in_map_iff in Hin. destruct Hin as [[g w] [E Hin]]. simpl in E. subst g.
    exact (st_has_false_notin f s Eh w Hin).
Qed.

Lemma st_update_keys_nodup fs : forall s, nodup_nat (map fst s) = true -> nodup_nat (map fst (st_update s fs)) = true.
Proof.
  induction fs as [|[f v] fs IH]; intros s Hn; [exact Hn|]. simpl. apply IH. apply st_set_keys_nodup. exact Hn.
Qed.

Lemma nodup_keys_lb s : nodup_nat (map fst s) = true -> forall f, last_binding f s = st_lookup f s.
Proof.
  induction s as [|[g w] s IH]; intros Hn f; [reflexivity|].
  simpl in Hn. apply andb_true_iff in Hn. destruct Hn as [Hg Hn].
  apply Bool.negb_true_iff in Hg. apply mem_nat_false in Hg.
  rewrite last_binding_cons. cbn [st_lookup]. rewrite (IH Hn f).
  destruct (Nat.eqb g f) eqn:E.
  - apply Nat.eqb_eq in E. subst g. destruct (st_lookup f s) as [x|] eqn:El; [|reflexivity].
    exfalso. apply Hg. apply in_map_iff. exists (f, x). split; [reflexivity|apply st_lookup_In; exact El].
  - destruct (st_lookup f s); reflexivity.
Qed.

Lemma lb_merged pfs fs f :
  last_binding f (st_update (st_update [] pfs) fs)
  = match last_binding f fs with Some v => Some v | None => last_binding f pfs end.
Proof.
  rewrite nodup_keys_lb by (apply st_update_keys_nodup; apply st_update_keys_nodup; reflexivity).
  rewrite !st_lookup_update. simpl. destruct (last_binding f fs); [reflexivity|]. destruct (last_binding f pfs); reflexivity.
Qed.

Lemma vals_avoid_spec fs ds f v : vals_avoid fs ds = true -> In (f, v) fs -> ~ In v ds.
Proof.
  unfold vals_avoid. rewrite forallb_forall. intros H Hin. specialize (H _ Hin). simpl in H.
  apply Bool.negb_true_iff in H. apply mem_nat_false in H. exact H.
Qed.

(* ---- MergeSetupOps -------------------------------------------------------------------------------- *)
Lemma R_to_Ra a m m' : R m m' -> Ra a m m'.
Proof. intros [He [Hr [Hn Ht]]]. repeat split; try assumption. intros b f _. apply Hr. Qed.

Lemma merge_g_here_sound orc o' tg b b' :
  merge_g_here o' tg b = Some b' -> forall m m', R m m' -> R (exec_block orc b m) (exec_block orc b' m').
Proof.
  unfold merge_g_here. intros H m m' HR.
  destruct (find_setup tg b) as [[[pre [[[a o] i] fs]] post]|] eqn:Ef; [|discriminate].
  destruct (find_prev_setup a (rev pre)) as [[[bt_rev [[po pi] pfs]] rest_rev]|] eqn:Ep; [|discriminate].
  destruct (quiet_block a (rev bt_rev) && vals_avoid pfs (block_binds (rev bt_rev))) eqn:Eg; [|discriminate].
  inversion H; subst b'. clear H. apply andb_true_iff in Eg. destruct Eg as [Hq Hv].
  apply find_setup_split in Ef. apply find_prev_split in Ep.
  assert (Hpre : pre = rev rest_rev ++ SSetup a po pi pfs :: rev bt_rev).
  { rewrite <- (rev_involutive pre). rewrite Ep. rewrite rev_app_distr. simpl. rewrite <- app_assoc. reflexivity. }
  subst b. rewrite Hpre. set (between := rev bt_rev) in *.
  rewrite <- !app_assoc. cbn [app]. rewrite !exec_block_app. cbn [exec_block].
  rewrite !exec_block_app. cbn [exec_block exec_stmt].
  (* common prefix *)
  pose proof (same_block orc (rev rest_rev) m m' HR) as HR1.
  set (m1 := exec_block orc (rev rest_rev) m) in *. set (m1' := exec_block orc (rev rest_rev) m') in *.
  (* prev executed on the left only *)
  assert (HRa : Ra a (exec_setup a pfs m1) m1').
  { destruct HR1 as [He [Hr [Hn Ht]]]. repeat split; simpl; try assumption.
    intros b f Hb. rewrite upd_other by exact Hb. apply Hr. }
  pose proof (quiet_Ra_block orc a between Hq _ _ HRa) as HRa2.
  set (m3 := exec_block orc between (exec_setup a pfs m1)) in *.
  set (m3' := exec_block orc between m1') in *.
  apply same_block.
  destruct HRa2 as [He3 [Hn3 [Ht3 Hr3]]].
  repeat split; simpl; try assumption.
  intros b f. unfold upd. destruct (Nat.eqb b a) eqn:Eb; [|apply Hr3; apply Nat.eqb_neq; exact Eb].
  rewrite He3. rewrite !write_fields_spec. rewrite lb_merged.
  destruct (last_binding f fs) as [v|]; [reflexivity|].
  unfold m3 at 2. rewrite (quiet_regs_block orc a between Hq). simpl. rewrite upd_same. rewrite write_fields_spec.
  unfold m3'. rewrite (quiet_regs_block orc a between Hq).
  destruct (last_binding f pfs) as [u|] eqn:Eu.
  - unfold m3. rewrite (env_frame_block orc between) by (exact (vals_avoid_spec _ _ f u Hv (last_binding_In2 _ _ _ Eu))).
    reflexivity.
  - destruct HR1 as [_ [Hr1 _]]. apply Hr1.
Qed.

(* ---- HoistSetupCallsIntoConditionals ---------------------------------------------------------------- *)
Lemma find_if_split r : forall b pre0 s between, find_if r b = Some (pre0, s, between) -> b = pre0 ++ s :: between.
Proof.
  induction b as [|x b IH]; intros pre0 s between H; [discriminate|].
  assert (Hgen : match find_if r b with Some (x0, i, y) => Some (x :: x0, i, y) | None => None end
                 = Some (pre0, s, between) -> x :: b = pre0 ++ s :: between).
  { destruct (find_if r b) as [[[x0 i] y]|] eqn:E; [|discriminate]. intros H'. inversion H'; subst.
    simpl. f_equal. apply IH. reflexivity. }
  destruct x; try (exact (Hgen H)).
  simpl in H. destruct (mem_nat r (map fst results)).
  - inversion H; subst. reflexivity.
  - exact (Hgen H).
Qed.

Lemma gok_block_app G b1 b2 : gok_block G (b1 ++ b2) = gok_block G b1 && gok_block G b2.
Proof. induction b1 as [|s b1 IH]; [reflexivity|]. simpl. rewrite IH. rewrite andb_assoc. reflexivity. Qed.

Lemma write_fields_env_ext (e e' : envT) fs r f :
  (forall g v, In (g, v) fs -> e v = e' v) -> write_fields e fs r f = write_fields e' fs r f.
Proof.
  intros H. rewrite !write_fields_spec. destruct (last_binding f fs) as [v|] eqn:E; [|reflexivity].
  exact (H f v (last_binding_In2 _ _ _ E)).
Qed.

Section Hoist.
Variable orc : oracle.
Variable G : list val.

(* one branch of the rewritten scf.if against the same branch of the original *)
Lemma hoist_branch a fs (br : block) (yv : list val) (yt o1 : val) (rs : list (val * ty)) m1 m1' :
  gok_block G br = true -> isg G yt = true -> isg G o1 = true ->
  R m1 m1' -> Zi G m1' ->
  let mb := exec_block orc br m1 in
  let mb' := exec_block orc (br ++ [SSetup a o1 (Some yt) fs]) m1' in
  let m2 := set_env mb (bind_list (map fst rs) (map (env mb) yv) (env mb)) in
  let m2' := set_env mb' (bind_list (map fst rs) (map (env mb') (map (rn yt o1) yv)) (env mb')) in
  Ra a m2 m2' /\ (forall f, regs m2' a f = write_fields (env mb) fs (regs m2 a) f).
Proof.
  intros Hg Hyt Ho1 HR HZ mb mb' m2 m2'.
  pose proof (same_block orc br m1 m1' HR) as HRb.
  pose proof (Zi_block orc G br Hg m1' HZ) as HZb.
  assert (Hmb' : mb' = exec_setup a fs (exec_block orc br m1')).
  { unfold mb'. rewrite exec_block_app. reflexivity. }
  set (mr := exec_block orc br m1') in *.
  destruct HRb as [He [Hr [Hn Ht]]]. fold mb in He, Hr, Hn, Ht.
  assert (Henv' : env mb' = env mb) by (rewrite Hmb'; simpl; exact He).
  assert (Hmap : map (env mb') (map (rn yt o1) yv) = map (env mb) yv).
  { rewrite Henv'. rewrite <- He. apply (map_read_f yt o1 mr yv).
    unfold I. rewrite (HZb yt Hyt), (HZb o1 Ho1). reflexivity. }
  unfold m2, m2'. rewrite Hmap, Henv'. split.
  - repeat split; simpl; try (rewrite Hmb'; simpl; assumption).
    intros b f Hb. rewrite Hmb'. simpl. rewrite upd_other by exact Hb. apply Hr.
  - intros f. simpl. rewrite Hmb'. simpl. rewrite upd_same. rewrite He.
    apply write_fields_ext. intros g. apply Hr.
Qed.

Lemma hoist_g_here_sound o1 o2 tg b b' :
  hoist_g_here G o1 o2 tg b = Some b' -> gok_block G b = true ->
  forall m m', R m m' -> Zi G m' -> R (exec_block orc b m) (exec_block orc b' m').
Proof.
  unfold hoist_g_here. intros H Hgb m m' HR HZ'.
  destruct (find_setup tg b) as [[[pre [[[a o] i] fs]] post]|] eqn:Ef; [|discriminate].
  destruct i as [r|]; [|discriminate].
  destruct (find_if r pre) as [[[pre0 sif] between]|] eqn:Ei; [|discriminate].
  destruct sif as [| | | | | | |c rs th thy el ely]; try discriminate.
  destruct (index_of r (map fst rs)) as [idx|]; [|discriminate].
  destruct (existsb (fun fv => mem_nat (snd fv) (map fst rs ++ flat_map top_defs between)) fs); [discriminate|].
  destruct (existsb (fun s => stmt_launches_on r s) between); [discriminate|].
  destruct (existsb (fun s => negb (is_launch s) && stmt_launches_on r s) post); [discriminate|].
  set (yt := nth idx thy 0%nat) in *. set (ye := nth idx ely 0%nat) in *.
  destruct (quiet_block a between
            && vals_avoid fs (stmt_binds (SIf c rs th thy el ely) ++ block_binds between)
            && isg G yt && isg G ye && isg G o1 && isg G o2) eqn:Eg; [|discriminate].
  inversion H; subst b'. clear H.
  repeat (apply andb_true_iff in Eg; destruct Eg as [Eg ?]).
  rename Eg into Hq. rename H3 into Hva. rename H2 into Hyt. rename H1 into Hye. rename H0 into Ho1. rename H into Ho2.
  apply find_setup_split in Ef. apply find_if_split in Ei. subst b pre.
  rewrite <- !app_assoc in Hgb |- *. cbn [app] in Hgb |- *.
  rewrite gok_block_app in Hgb. apply andb_true_iff in Hgb. destruct Hgb as [Hg0 Hgb].
  cbn [gok_block] in Hgb. apply andb_true_iff in Hgb. destruct Hgb as [Hgif _].
  rewrite gok_stmt_if in Hgif. repeat (apply andb_true_iff in Hgif; destruct Hgif as [Hgif ?]).
  rename H0 into Hgth. rename H into Hgel.
  rewrite !exec_block_app. cbn [exec_block]. rewrite !exec_block_app. cbn [exec_block].
  pose proof (same_block orc pre0 m m' HR) as HR1.
  pose proof (Zi_block orc G pre0 Hg0 m' HZ') as HZ1'.
  set (m1 := exec_block orc pre0 m) in *. set (m1' := exec_block orc pre0 m') in *.
  apply same_block.
  (* the conditional *)
  rewrite !exec_stmt_if. unfold exec_if. pose proof HR1 as [He1 _]. rewrite He1.
  assert (Hfin : forall (m2 m2' : mstate) (eb : envT),
            Ra a m2 m2' -> (forall f, regs m2' a f = write_fields eb fs (regs m2 a) f) ->
            (forall g v, In (g, v) fs -> env m2 v = eb v) ->
            R (exec_stmt orc (SSetup a o (Some r) fs) (exec_block orc between m2)) (exec_block orc between m2')).
  { intros m2 m2' eb HRa Hregs Henv.
    pose proof (quiet_Ra_block orc a between Hq _ _ HRa) as [He3 [Hn3 [Ht3 Hr3]]].
    cbn [exec_stmt]. unfold exec_setup. repeat split; simpl; try assumption.
    intros b f. unfold upd. destruct (Nat.eqb b a) eqn:Eb; [|apply Hr3; apply Nat.eqb_neq; exact Eb].
    apply Nat.eqb_eq in Eb. subst b.
    rewrite (quiet_regs_block orc a between Hq m2' f). rewrite Hregs.
    transitivity (write_fields (env (exec_block orc between m2)) fs (regs m2 a) f).
    - apply write_fields_env_ext. intros g v Hin. rewrite <- (Henv g v Hin).
      symmetry. apply (env_frame_block orc between).
      intros Hb. apply (vals_avoid_spec _ _ g v Hva Hin). apply in_app_iff. right. exact Hb.
    - apply write_fields_ext. intros g. symmetry. apply (quiet_regs_block orc a between Hq). }
  assert (Hrsb : forall g v, In (g, v) fs -> ~ In v (map fst rs)).
  { intros g v Hin Hb. apply (vals_avoid_spec _ _ g v Hva Hin). apply in_app_iff. left.
    rewrite stmt_binds_if. apply in_app_iff. left. exact Hb. }
  destruct (env m1 c =? 0).
  - destruct (hoist_branch a fs el ely ye o2 rs m1 m1' Hgel Hye Ho2 HR1 HZ1') as [HRa Hregs].
    apply (Hfin _ _ _ HRa Hregs). intros g v Hin. simpl. apply bind_list_other. exact (Hrsb g v Hin).
  - destruct (hoist_branch a fs th thy yt o1 rs m1 m1' Hgth Hyt Ho1 HR1 HZ1') as [HRa Hregs].
    apply (Hfin _ _ _ HRa Hregs). intros g v Hin. simpl. apply bind_list_other. exact (Hrsb g v Hin).
Qed.
End Hoist.

(* ---- the rule theorems ------------------------------------------------------------------------------ *)
Lemma trace_strong_of_eq l l' : l' = l -> trace_strong l l'.
Proof. intros ->. apply trace_strong_refl. Qed.

Theorem rule_merge_g_preserves G orc fresh tg p p' args :
  rule_merge_g fresh tg p = Some p' -> merge_hyp G fresh tg p = true ->
  trace_strong (run orc p args) (run orc p' args).
Proof.
  unfold rule_merge_g, merge_hyp. destruct (hd_fresh fresh) as [o'|]; [|discriminate].
  destruct (ctx_prog (merge_g_here o' tg) p) as [q|] eqn:Eq; [|discriminate].
  intros H Hh. inversion H; subst p'. clear H.
  apply andb_true_iff in Hh; destruct Hh as [Hh H].
  apply andb_true_iff in Hh; destruct Hh as [Hh H0].
  apply andb_true_iff in Hh; destruct Hh as [Hh H1].
  apply andb_true_iff in Hh; destruct Hh as [Hh H2].
  apply Bool.negb_true_iff in H1. apply mem_nat_false in H1.
  eapply trace_strong_trans.
  - apply (ctx_prog_sound orc G (merge_g_here o' tg)) with (p' := q); try assumption.
    intros b b' Hb _ _ m m' HR _ _. exact (merge_g_here_sound orc o' tg b b' Hb m m' HR).
  - apply trace_strong_of_eq. apply (ren_ghost_run orc G tg o'); assumption.
Qed.

Theorem rule_hoist_g_preserves G orc fresh tg p p' args :
  rule_hoist_g G fresh tg p = Some p' -> hoist_hyp G fresh tg p = true ->
  trace_strong (run orc p args) (run orc p' args).
Proof.
  unfold rule_hoist_g, hoist_hyp. destruct fresh as [|o1 [|o2 fresh]]; try discriminate.
  destruct (setup_in_of tg p) as [r|]; [|discriminate].
  destruct (ctx_prog (hoist_g_here G o1 o2 tg) p) as [q|] eqn:Eq; [|discriminate].
  intros H Hh. inversion H; subst p'. clear H.
  apply andb_true_iff in Hh; destruct Hh as [Hh H].
  apply andb_true_iff in Hh; destruct Hh as [Hh H0].
  apply andb_true_iff in Hh; destruct Hh as [Hh H1].
  apply andb_true_iff in Hh; destruct Hh as [Hh H2].
  apply Bool.negb_true_iff in H1. apply mem_nat_false in H1.
  eapply trace_strong_trans.
  - apply (ctx_prog_sound orc G (hoist_g_here G o1 o2 tg)) with (p' := q); try assumption.
    intros b b' Hb Hgb _ m m' HR _ HZ'. exact (hoist_g_here_sound orc G o1 o2 tg b b' Hb Hgb m m' HR HZ').
  - apply trace_strong_of_eq. apply (ren_ghost_run orc G tg r); assumption.
Qed.

Theorem rule_elide_g_preserves G orc tg p p' args :
  rule_elide_g tg p = Some p' -> elide_hyp G tg p = true ->
  trace_strong (run orc p args) (run orc p' args).
Proof.
  unfold rule_elide_g, elide_hyp, setup_in_of.
  destruct (setup_in_block tg (p_body p)) as [[[i|] [|fv fs]]|]; try discriminate.
  intros H Hh. inversion H; subst p'. clear H.
  apply andb_true_iff in Hh; destruct Hh as [Hh H].
  apply andb_true_iff in Hh; destruct Hh as [Hh H0].
  apply andb_true_iff in Hh; destruct Hh as [Hh H1].
  apply Bool.negb_true_iff in H1. apply mem_nat_false in H1.
  eapply trace_strong_trans; [apply drop_preserves|].
  apply trace_strong_of_eq. apply (ren_ghost_run orc G tg i); assumption.
Qed.

Theorem rule_simplify_g_preserves T orc fresh tg p p' args :
  rule_simplify_g T fresh tg p = Some p' -> simplify_hyp T fresh tg p = true ->
  trace_strong (run orc p args) (run orc p' args).
Proof.
  unfold rule_simplify_g, simplify_hyp. destruct (hd_fresh fresh) as [o'|]; [|discriminate].
  intros H Hh. inversion H; subst p'. clear H.
  apply andb_true_iff in Hh; destruct Hh as [Hh H].
  apply andb_true_iff in Hh; destruct Hh as [Hh H0].
  apply andb_true_iff in Hh; destruct Hh as [Hh H1].
  apply Bool.negb_true_iff in H0, H. apply mem_nat_false in H0, H.
  eapply trace_strong_trans.
  - apply (simp_preserves_strong T orc (Nat.eqb tg) p args H1). apply wf_sound. exact Hh.
  - apply trace_strong_of_eq. apply ren_prog_run. split; assumption.
Qed.

(* ---- any finite sequence of applications of the proved rules, in any order -------------------------- *)
Inductive step : prog -> prog -> Prop :=
| St_simplify T fresh tg p p' : rule_simplify_g T fresh tg p = Some p' -> simplify_hyp T fresh tg p = true -> step p p'
| St_merge G fresh tg p p' : rule_merge_g fresh tg p = Some p' -> merge_hyp G fresh tg p = true -> step p p'
| St_elide G tg p p' : rule_elide_g tg p = Some p' -> elide_hyp G tg p = true -> step p p'
| St_hoist G fresh tg p p' : rule_hoist_g G fresh tg p = Some p' -> hoist_hyp G fresh tg p = true -> step p p'.

Inductive steps : prog -> prog -> Prop :=
| Steps_nil p : steps p p
| Steps_cons p q r : step p q -> steps q r -> steps p r.

Lemma step_preserves orc args p p' : step p p' -> trace_strong (run orc p args) (run orc p' args).
Proof.
  intros [T fresh tg q q' H Hh|G fresh tg q q' H Hh|G tg q q' H Hh|G fresh tg q q' H Hh].
  - exact (rule_simplify_g_preserves T orc fresh tg q q' args H Hh).
  - exact (rule_merge_g_preserves G orc fresh tg q q' args H Hh).
  - exact (rule_elide_g_preserves G orc tg q q' args H Hh).
  - exact (rule_hoist_g_preserves G orc fresh tg q q' args H Hh).
Qed.

Theorem steps_preserve orc args p p' : steps p p' -> trace_strong (run orc p args) (run orc p' args).
Proof.
  induction 1 as [p|p q r Hs _ IH]; [apply trace_strong_refl|].
  eapply trace_strong_trans; [exact (step_preserves orc args p q Hs)|exact IH].
Qed.
