(* C10, part 2: from_strides, overlap/density predicates, largest common contiguous block. *)
From Snax Require Import Base.Prelude Base.ListAux Model.Tsl Proofs.TslProofs.
From Coq Require Import Znumtheory Permutation.

(* ---- from_stride ------------------------------------------------------------ *)
Fixpoint fs_spec (s : Z) (bs : list Z) : tstride :=
  match bs with
  | [] => []
  | b :: r => (Some (s * zprod r), Some b) :: fs_spec s r
  end.

Definition steps_of (s : Z) (r : list Z) : list (option Z) :=
  fold_right (fun b acc => from_stride_step acc b) [Some s] (map Some r).

Lemma zprod_cons b r : zprod (b :: r) = b * zprod r.
Proof. reflexivity. Qed.

Lemma zprod_nonzero r : Forall (fun b => 0 < b) r -> zprod r <> 0.
Proof. intros H. pose proof (zprod_pos r H). lia. Qed.

Lemma steps_of_cons s b r : s <> 0 -> 0 < b -> Forall (fun b => 0 < b) r ->
  hd None (steps_of s r) = Some (s * zprod r) /\
  steps_of s (b :: r) = Some (s * zprod (b :: r)) :: steps_of s r.
Proof.
  intros Hs Hb Hr. revert b Hb. induction Hr as [|c r Hc Hr IH]; intros b Hb.
  - split; [cbn [steps_of map fold_right hd]; f_equal; unfold zprod; cbn [fold_right]; lia|]. unfold steps_of. cbn [map fold_right]. unfold from_stride_step. cbn [hd].
    unfold truthy. replace (b =? 0) with false by lia. replace (s =? 0) with false by lia.
    cbn [negb andb]. replace (s * zprod [b]) with (b * s) by (unfold zprod; cbn [fold_right]; lia). reflexivity.
  - destruct (IH c Hc) as [Hhd Hcons]. split.
    + rewrite Hcons. reflexivity.
    + unfold steps_of in *. cbn [map fold_right]. cbn [map fold_right] in Hcons. rewrite Hcons.
      unfold from_stride_step at 1. cbn [hd]. unfold truthy.
      pose proof (zprod_pos (c :: r) (Forall_cons _ Hc Hr)) as Hp.
      replace (b =? 0) with false by lia. replace (s * zprod (c :: r) =? 0) with false by nia.
      cbn [negb andb]. replace (s * zprod (b :: c :: r)) with (b * (s * zprod (c :: r))) by (rewrite (zprod_cons b); lia). reflexivity.
Qed.

Lemma combine_steps_spec s b0 r : s <> 0 -> Forall (fun b => 0 < b) r ->
  combine (steps_of s r) (Some b0 :: map Some r) = fs_spec s (b0 :: r).
Proof.
  intros Hs Hr. revert b0. induction Hr as [|b1 r Hb1 Hr IH]; intros b0.
  - cbn. f_equal. f_equal. f_equal. lia.
  - destruct (steps_of_cons s b1 r Hs Hb1 Hr) as [_ Hcons]. rewrite Hcons.
    cbn [map combine fs_spec]. rewrite (IH b1). reflexivity.
Qed.

Lemma from_stride_spec s bs : s <> 0 -> Forall (fun b => 0 < b) bs ->
  from_stride (Some s) (map Some bs) = fs_spec s bs.
Proof.
  intros Hs Hbs. destruct bs as [|b0 r]; [reflexivity|].
  unfold from_stride. cbn [map tl]. rewrite fold_left_rev_right.
  change (fold_right (fun x acc => from_stride_step acc x) [Some s] (map Some r)) with (steps_of s r).
  apply combine_steps_spec; [exact Hs | inversion Hbs; assumption].
Qed.

Lemma fs_spec_ok s bs : Forall (fun b => 0 < b) bs -> tstride_ok (fs_spec s bs).
Proof.
  induction 1 as [|b r Hb Hr IH]; [constructor|]. cbn [fs_spec]. constructor; [|exact IH].
  exists (s * zprod r), b. split; [reflexivity|exact Hb].
Qed.

Lemma fs_spec_bounds_prod s bs : Forall (fun b => 0 < b) bs -> bounds_prod (fs_spec s bs) = zprod bs.
Proof.
  induction 1 as [|b r Hb Hr IH]; [reflexivity|]. cbn [fs_spec]. rewrite bounds_prod_cons, IH, zprod_cons.
  unfold tbound. cbn [sbound snd]. replace (b =? 0) with false by lia. reflexivity.
Qed.

Lemma fs_spec_inner_addr s bs : Forall (fun b => 0 < b) bs -> forall x,
  inner_addr (fs_spec s bs) x = s * (x mod zprod bs).
Proof.
  induction 1 as [|b r Hb Hr IH]; intros x.
  - cbn. rewrite Z.mod_1_r. lia.
  - cbn [fs_spec inner_addr static_of fst]. rewrite IH.
    change (bounds_prod ((Some (s * zprod r), Some b) :: fs_spec s r)) with (bounds_prod (fs_spec s (b :: r))).
    rewrite !fs_spec_bounds_prod by (try constructor; assumption).
    rewrite zprod_cons. pose proof (zprod_pos r Hr) as Hp.
    set (P := zprod r) in *. set (y := x mod (b * P)).
    assert (E : x mod P = y mod P).
    { unfold y. apply Zmod_div_mod; try nia. exists b. lia. }
    rewrite E. pose proof (Z.div_mod y P ltac:(lia)) as D. nia.
Qed.

(* A layout built from plain strides addresses element idx at sum_d stride_d * idx_d. *)
Fixpoint dotZ (a b : list Z) : Z :=
  match a, b with x :: a', y :: b' => x * y + dotZ a' b' | _, _ => 0 end.

Theorem from_strides_addr strides bss off :
  Forall (fun s => s <> 0) strides -> Forall (Forall (fun b => 0 < b)) bss -> length strides = length bss ->
  let l := from_strides (map Some strides) (map (map Some) bss) off in
  layout_ok l /\ shape_of l = map zprod bss /\
  forall idx, Forall2 (fun i n => 0 <= i < n) idx (map zprod bss) -> affine_map_eval l idx = dotZ strides idx.
Proof.
  intros Hs. revert bss. induction Hs as [|s strides Hs0 Hs IH]; intros bss Hb Hlen.
  - destruct bss; [|discriminate]. cbn. split; [constructor|]. split; [reflexivity|].
    intros idx H. inversion H. reflexivity.
  - destruct bss as [|bs bss]; [discriminate|]. inversion Hb as [|? ? Hb0 Hb']; subst.
    destruct (IH bss Hb' ltac:(cbn in Hlen; lia)) as [Hok [Hshape Haddr]].
    cbn zeta. unfold from_strides. cbn [map combine fst snd].
    rewrite (from_stride_spec s bs Hs0 Hb0).
    unfold layout_ok, shape_of, affine_map_eval in *. cbn [tstrides map] in *.
    unfold from_strides in Hok, Hshape, Haddr. cbn [tstrides] in *.
    split; [constructor; [apply fs_spec_ok, Hb0 | exact Hok]|].
    split; [rewrite fs_spec_bounds_prod by exact Hb0; f_equal; exact Hshape|].
    intros idx H. inversion H as [|i n idx' shape' Hi Hidx']; subst.
    cbn [affine_addr dotZ]. rewrite (Haddr idx' Hidx').
    rewrite dim_addr_inner; [|apply fs_spec_ok, Hb0 | rewrite fs_spec_bounds_prod by exact Hb0; exact Hi].
    rewrite fs_spec_inner_addr by exact Hb0. rewrite Z.mod_small by exact Hi. reflexivity.
Qed.

(* ---- duplicates / density ------------------------------------------------------- *)
Lemma has_dup_false_NoDup l : has_dup l = false <-> NoDup l.
Proof.
  induction l as [|x xs IH]; cbn [has_dup]; [split; [constructor|reflexivity]|].
  rewrite orb_false_iff, IH. split.
  - intros [Hx Hn]. constructor; [|exact Hn]. intros Hin.
    assert (existsb (Z.eqb x) xs = true) by (apply existsb_exists; exists x; split; [exact Hin|apply Z.eqb_refl]).
    congruence.
  - intros H. inversion H as [|? ? Hnin Hn]; subst. split; [|exact Hn].
    destruct (existsb (Z.eqb x) xs) eqn:E; [|reflexivity].
    apply existsb_exists in E as [y [Hy Exy]]. apply Z.eqb_eq in Exy. subst. contradiction.
Qed.

Theorem self_overlaps_spec l : self_overlaps l = false <-> NoDup (all_values l).
Proof. apply has_dup_false_NoDup. Qed.

Lemma zmax_list_ge l x : In x l -> x <= zmax_list l.
Proof.
  induction l as [|y ys IH]; [intros []|]. intros [->|Hin]; cbn [zmax_list fold_right].
  - lia.
  - specialize (IH Hin). unfold zmax_list in IH. lia.
Qed.

(* dense = the addresses are exactly 0 .. n-1, each once (for layouts with non-negative addresses) *)
Theorem is_dense_spec l : Forall (fun v => 0 <= v) (all_values l) ->
  is_dense l = true -> Permutation (all_values l) (zrange (Z.of_nat (length (all_values l)))).
Proof.
  intros Hnn. unfold is_dense. destruct (self_overlaps l) eqn:E; [discriminate|]. intros Hmax.
  apply self_overlaps_spec in E. apply Z.eqb_eq in Hmax.
  apply NoDup_Permutation_bis; [exact E | rewrite zrange_length; lia |].
  intros v Hv. apply in_zrange. rewrite Forall_forall in Hnn. pose proof (Hnn v Hv).
  pose proof (zmax_list_ge _ _ Hv). lia.
Qed.
