(* C15 — the unrolled schedule covers every (stage, iteration) pair exactly once, in stage order,
   with parity-safe double buffering and inside the iteration range; for all S and n. *)
From Coq Require Import Permutation.
From Snax Require Import Base.Prelude Base.ListAux Model.MultiCore Model.C15Pipeline.

(* ---- list helpers -------------------------------------------------------------------------- *)
Lemma rev_seq0 m : rev (seq 0 m) = map (fun q => (m - 1 - q)%nat) (seq 0 m).
Proof.
  induction m as [|m IH]; [reflexivity|].
  replace (rev (seq 0 (S m))) with (m :: rev (seq 0 m)).
  2:{ rewrite seq_S, rev_app_distr. reflexivity. }
  rewrite IH. cbn [seq map]. rewrite <- seq_shift, map_map. f_equal; [lia|].
  apply map_ext. intros q. lia.
Qed.

Lemma seq_add0 a m : seq a m = map (fun q => (a + q)%nat) (seq 0 m).
Proof. apply seq_shift_add. Qed.

Lemma zrange_nat m : zrange (Z.of_nat m) = map Z.of_nat (seq 0 m).
Proof. unfold zrange. rewrite Nat2Z.id. reflexivity. Qed.

Lemma NoDup_app_intro {A} (l1 l2 : list A) :
  NoDup l1 -> NoDup l2 -> (forall x, In x l1 -> In x l2 -> False) -> NoDup (l1 ++ l2).
Proof.
  induction l1 as [|a r IH]; intros H1 H2 Hd; simpl; [exact H2|].
  inversion H1; subst. constructor.
  - intros Hi. apply in_app_or in Hi as [Hi|Hi]; [contradiction|]. apply (Hd a); [left; reflexivity | exact Hi].
  - apply IH; [assumption | assumption |]. intros x Hx. apply Hd. right. exact Hx.
Qed.

Lemma NoDup_flat_map_disjoint {A B} (f : A -> list B) (l : list A) :
  NoDup l -> (forall x, In x l -> NoDup (f x)) ->
  (forall x y z, In x l -> In y l -> x <> y -> In z (f x) -> In z (f y) -> False) ->
  NoDup (flat_map f l).
Proof.
  induction l as [|a r IH]; intros Hn Hf Hd; simpl; [constructor|].
  inversion Hn; subst. apply NoDup_app_intro.
  - apply Hf. left. reflexivity.
  - apply IH; [assumption | intros x Hx; apply Hf; right; exact Hx |].
    intros x y z Hx Hy. apply Hd; right; assumption.
  - intros z Hz Hz'. apply in_flat_map in Hz' as [y [Hy Hzy]].
    apply (Hd a y z); [left; reflexivity | right; exact Hy | intros ->; contradiction | exact Hz | exact Hzy].
Qed.

Lemma NoDup_map_inj {A B} (f : A -> B) l :
  (forall x y, In x l -> In y l -> f x = f y -> x = y) -> NoDup l -> NoDup (map f l).
Proof.
  intros Hinj Hn. induction Hn as [|a r Ha Hr IH]; simpl; constructor.
  - intros Hi. apply in_map_iff in Hi as [y [Ey Hy]].
    assert (y = a) by (apply Hinj; [right; exact Hy | left; reflexivity | exact Ey]). subst. contradiction.
  - apply IH. intros x y Hx Hy. apply Hinj; right; assumption.
Qed.

(* ---- canonical form of the schedule: phase a holds (k, a-k) for the valid stages k --------- *)
Definition diag (a : nat) (ks : list nat) : phase := map (fun k => (k, Z.of_nat a - Z.of_nat k)) ks.

Definition ks (S n a : nat) : list nat :=
  if (a <? S - 1)%nat then seq 0 (a + 1)
  else if (a <? n)%nat then seq 0 S
  else seq (a - n + 1) (n + S - 1 - a).

Definition canon (S n : nat) : list phase := map (fun a => diag a (ks S n a)) (seq 0 (n + S - 1)).

Lemma trip_unit (lb ub : Z) : lb <= ub -> trip lb ub 1 = ub - lb.
Proof.
  intros H. unfold trip. simpl. replace (ub - lb + 1 - 1) with (ub - lb) by lia.
  rewrite Z.div_1_r. lia.
Qed.

Lemma prologue_canon S n : (S - 1 <= n)%nat ->
  prologue S = map (fun a => diag a (ks S n a)) (seq 0 (S - 1)).
Proof.
  intros H. unfold prologue. apply map_ext_in. intros a Ha. apply in_seq in Ha.
  unfold ks. replace (a <? S - 1)%nat with true by (symmetry; apply Nat.ltb_lt; lia).
  reflexivity.
Qed.

Lemma steady_canon S n : (1 <= S)%nat -> (S - 1 <= n)%nat ->
  steady S (Z.of_nat n) 1 = map (fun a => diag a (ks S n a)) (seq (S - 1) (n - (S - 1))).
Proof.
  intros HS H. unfold steady, loop_indices.
  rewrite trip_unit by lia.
  replace (Z.of_nat n - (Z.of_nat S - 1)) with (Z.of_nat (n - (S - 1))) by lia.
  rewrite zrange_nat, (seq_add0 (S - 1)), !map_map.
  apply map_ext_in. intros q Hq. apply in_seq in Hq.
  unfold ks.
  replace (S - 1 + q <? S - 1)%nat with false by (symmetry; apply Nat.ltb_ge; lia).
  replace (S - 1 + q <? n)%nat with true by (symmetry; apply Nat.ltb_lt; lia).
  unfold diag. apply map_ext. intros k. f_equal. lia.
Qed.

Lemma epilogue_canon S n : (1 <= S)%nat -> (S - 1 <= n)%nat ->
  epilogue S (Z.of_nat n) = map (fun a => diag a (ks S n a)) (seq n (S - 1)).
Proof.
  intros HS H. unfold epilogue. rewrite rev_seq0, (seq_add0 n), !map_map.
  apply map_ext_in. intros q Hq. apply in_seq in Hq.
  unfold ks.
  replace (n + q <? S - 1)%nat with false by (symmetry; apply Nat.ltb_ge; lia).
  replace (n + q <? n)%nat with false by (symmetry; apply Nat.ltb_ge; lia).
  unfold epilogue_group, diag. rewrite rev_seq0, map_map.
  replace (S - 1 - 1 - q + 1)%nat with (S - 1 - q)%nat by lia.
  replace (n + S - 1 - (n + q))%nat with (S - 1 - q)%nat by lia.
  rewrite (seq_add0 (n + q - n + 1)), map_map.
  apply map_ext_in. intros r Hr. apply in_seq in Hr. f_equal; lia.
Qed.

Theorem unrolled_canon : forall S n, (1 <= S)%nat -> (S - 1 <= n)%nat ->
  unrolled S (Z.of_nat n) 1 = canon S n.
Proof.
  intros S n HS H. unfold unrolled, canon.
  rewrite (prologue_canon S n H), (steady_canon S n HS H), (epilogue_canon S n HS H).
  rewrite <- !map_app. f_equal.
  replace (n + S - 1)%nat with ((S - 1) + ((n - (S - 1)) + (S - 1)))%nat by lia.
  rewrite seq_app, seq_app. f_equal. f_equal. f_equal. lia.
Qed.

(* ---- membership ------------------------------------------------------------------------------ *)
Lemma in_ks S n a k : (1 <= S)%nat -> (S - 1 <= n)%nat -> (a < n + S - 1)%nat ->
  In k (ks S n a) <-> (k < S /\ k <= a /\ a < n + k)%nat.
Proof.
  intros HS H Ha. unfold ks.
  destruct (a <? S - 1)%nat eqn:E1; [apply Nat.ltb_lt in E1 | apply Nat.ltb_ge in E1].
  - rewrite in_seq. lia.
  - destruct (a <? n)%nat eqn:E2; [apply Nat.ltb_lt in E2 | apply Nat.ltb_ge in E2]; rewrite in_seq; lia.
Qed.

Lemma nth_map_seq {B} (f : nat -> B) d : forall m s a, (a < m)%nat ->
  nth a (map f (seq s m)) d = f (s + a)%nat.
Proof.
  induction m as [|m IH]; intros s a Ha; [lia|].
  destruct a as [|a]; simpl.
  - f_equal. lia.
  - rewrite IH by lia. f_equal. lia.
Qed.

Lemma nth_canon S n a : (a < n + S - 1)%nat -> nth a (canon S n) [] = diag a (ks S n a).
Proof. intros Ha. unfold canon. rewrite nth_map_seq by exact Ha. reflexivity. Qed.

Lemma in_phase S n a k t : (1 <= S)%nat -> (S - 1 <= n)%nat ->
  In (k, t) (nth a (canon S n) []) <->
  (a < n + S - 1 /\ k < S /\ k <= a /\ a < n + k)%nat /\ t = Z.of_nat a - Z.of_nat k.
Proof.
  intros HS H. destruct (lt_dec a (n + S - 1)) as [Ha|Ha].
  - rewrite nth_canon by exact Ha. unfold diag. rewrite in_map_iff. split.
    + intros [k' [E Hk]]. inversion E; subst. apply in_ks in Hk; try assumption. lia.
    + intros [[_ Hk] ->]. exists k. split; [reflexivity|]. apply in_ks; assumption.
  - rewrite nth_overflow by (unfold canon; rewrite map_length, seq_length; lia).
    simpl. split; [tauto | intros [[Hc _] _]; lia].
Qed.

Lemma in_concat_canon S n k t : (1 <= S)%nat -> (S - 1 <= n)%nat ->
  In (k, t) (concat (canon S n)) <-> (k < S)%nat /\ 0 <= t < Z.of_nat n.
Proof.
  intros HS H. rewrite in_concat. split.
  - intros [ph [Hph Hin]]. apply In_nth with (d := []) in Hph as [a [Ha Ea]]. subst ph.
    apply in_phase in Hin; try assumption. lia.
  - intros [Hk Ht]. exists (nth (k + Z.to_nat t) (canon S n) []). split.
    + apply nth_In. unfold canon. rewrite map_length, seq_length. lia.
    + apply in_phase; try assumption. lia.
Qed.

(* ---- no pair twice --------------------------------------------------------------------------- *)
Lemma canon_flat S n : concat (canon S n) = flat_map (fun a => diag a (ks S n a)) (seq 0 (n + S - 1)).
Proof. unfold canon. rewrite flat_map_concat_map. reflexivity. Qed.

Lemma NoDup_ks S n a : NoDup (ks S n a).
Proof. unfold ks. destruct (a <? S - 1)%nat; [|destruct (a <? n)%nat]; apply seq_NoDup. Qed.

Lemma NoDup_canon S n : NoDup (concat (canon S n)).
Proof.
  rewrite canon_flat. apply NoDup_flat_map_disjoint.
  - apply seq_NoDup.
  - intros a _. unfold diag. apply NoDup_map_inj; [|apply NoDup_ks].
    intros x y _ _ E. inversion E. reflexivity.
  - intros a b [k t] _ _ Hab Ha Hb. unfold diag in Ha, Hb.
    apply in_map_iff in Ha as [k1 [E1 _]]. apply in_map_iff in Hb as [k2 [E2 _]].
    inversion E1; inversion E2; subst. lia.
Qed.

(* ---- the sequential loop ---------------------------------------------------------------------- *)
Lemma seq_pairs_flat S n :
  concat (seq_pairs S 0 (Z.of_nat n) 1) =
  flat_map (fun t => map (fun k => (k, Z.of_nat t)) (seq 0 S)) (seq 0 n).
Proof.
  unfold seq_pairs, loop_indices. rewrite trip_unit by lia. rewrite Z.sub_0_r, zrange_nat.
  rewrite !map_map, <- flat_map_concat_map. apply flat_map_ext. intros t.
  apply map_ext. intros k. f_equal. lia.
Qed.

Lemma in_seq_pairs S n k t :
  In (k, t) (concat (seq_pairs S 0 (Z.of_nat n) 1)) <-> (k < S)%nat /\ 0 <= t < Z.of_nat n.
Proof.
  rewrite seq_pairs_flat, in_flat_map. split.
  - intros [t' [Ht Hin]]. apply in_seq in Ht. apply in_map_iff in Hin as [k' [E Hk]].
    inversion E; subst. apply in_seq in Hk. lia.
  - intros [Hk Ht]. exists (Z.to_nat t). split; [apply in_seq; lia|].
    apply in_map_iff. exists k. split; [f_equal; lia | apply in_seq; lia].
Qed.

Lemma NoDup_seq_pairs S n : NoDup (concat (seq_pairs S 0 (Z.of_nat n) 1)).
Proof.
  rewrite seq_pairs_flat. apply NoDup_flat_map_disjoint.
  - apply seq_NoDup.
  - intros t _. apply NoDup_map_inj; [|apply seq_NoDup]. intros x y _ _ E. inversion E. reflexivity.
  - intros t1 t2 [k t] _ _ Hne H1 H2.
    apply in_map_iff in H1 as [k1 [E1 _]]. apply in_map_iff in H2 as [k2 [E2 _]].
    inversion E1; inversion E2; subst. lia.
Qed.

(* ---- C15 each_stage_once: for ALL stage counts S >= 1 and ALL trip counts n >= S-1 ------------ *)
Theorem each_stage_once : forall S n, (1 <= S)%nat -> (S - 1 <= n)%nat ->
  Permutation (concat (unrolled S (Z.of_nat n) 1)) (concat (seq_pairs S 0 (Z.of_nat n) 1)).
Proof.
  intros S n HS H. rewrite unrolled_canon by assumption.
  apply NoDup_Permutation; [apply NoDup_canon | apply NoDup_seq_pairs|].
  intros [k t]. rewrite in_concat_canon, in_seq_pairs by assumption. reflexivity.
Qed.

(* every (stage, iteration) of the loop occurs in exactly one phase, once *)
Theorem exactly_once : forall S n k t, (1 <= S)%nat -> (S - 1 <= n)%nat ->
  (k < S)%nat -> 0 <= t < Z.of_nat n ->
  In (k, t) (concat (unrolled S (Z.of_nat n) 1)) /\ NoDup (concat (unrolled S (Z.of_nat n) 1)).
Proof.
  intros S n k t HS H Hk Ht. rewrite unrolled_canon by assumption. split.
  - apply in_concat_canon; try assumption. lia.
  - apply NoDup_canon.
Qed.

(* ---- in_range ---------------------------------------------------------------------------------- *)
Theorem in_range : forall S n k t, (1 <= S)%nat -> (S - 1 <= n)%nat ->
  In (k, t) (concat (unrolled S (Z.of_nat n) 1)) -> (k < S)%nat /\ 0 <= t < Z.of_nat n.
Proof.
  intros S n k t HS H Hin. rewrite unrolled_canon in Hin by assumption.
  apply in_concat_canon in Hin; assumption.
Qed.

(* ---- stage_order: phase number = stage + iteration --------------------------------------------- *)
Theorem phase_is_sum : forall S n a k t, (1 <= S)%nat -> (S - 1 <= n)%nat ->
  In (k, t) (nth a (unrolled S (Z.of_nat n) 1) []) -> Z.of_nat a = Z.of_nat k + t.
Proof.
  intros S n a k t HS H Hin. rewrite unrolled_canon in Hin by assumption.
  apply in_phase in Hin; try assumption. lia.
Qed.

Theorem stage_order : forall S n a b s t, (1 <= S)%nat -> (S - 1 <= n)%nat ->
  In (s, t) (nth a (unrolled S (Z.of_nat n) 1) []) ->
  In (Datatypes.S s, t) (nth b (unrolled S (Z.of_nat n) 1) []) ->
  (b = a + 1)%nat.
Proof.
  intros S n a b s t HS H Ha Hb.
  apply phase_is_sum in Ha; try assumption. apply phase_is_sum in Hb; try assumption. lia.
Qed.

(* inside a phase the stages appear in increasing order (the order of the ops of one core) *)
Theorem phase_sorted : forall S n a, (1 <= S)%nat -> (S - 1 <= n)%nat -> (a < n + S - 1)%nat ->
  exists k0 m, map fst (nth a (unrolled S (Z.of_nat n) 1) []) = seq k0 m.
Proof.
  intros S n a HS H Ha. rewrite unrolled_canon, nth_canon by assumption.
  unfold diag. rewrite map_map. simpl. rewrite map_id. unfold ks.
  destruct (a <? S - 1)%nat; [|destruct (a <? n)%nat]; eauto.
Qed.

(* ---- parity_safe --------------------------------------------------------------------------------- *)
Lemma sel_parity ds b t1 t2 : memb b ds = true -> t1 mod 2 <> t2 mod 2 -> sel ds t1 b <> sel ds t2 b.
Proof.
  intros Hb Hp. unfold sel, DUPOFF. rewrite Hb.
  destruct (t1 mod 2 =? 0) eqn:E1; destruct (t2 mod 2 =? 0) eqn:E2; lia.
Qed.

Lemma sel_same_parity ds b t1 t2 : memb b ds = true -> sel ds t1 b = sel ds t2 b -> t1 mod 2 = t2 mod 2.
Proof.
  intros Hb. unfold sel, DUPOFF. rewrite Hb.
  destruct (t1 mod 2 =? 0) eqn:E1; destruct (t2 mod 2 =? 0) eqn:E2; lia.
Qed.

(* (i) producer (stage s) and consumer (stage s+1) of a duplicated buffer that run in the same
   phase use different copies *)
Theorem parity_safe_same_phase : forall S n a s t1 t2 ds b, (1 <= S)%nat -> (S - 1 <= n)%nat ->
  memb b ds = true ->
  In (s, t1) (nth a (unrolled S (Z.of_nat n) 1) []) ->
  In (Datatypes.S s, t2) (nth a (unrolled S (Z.of_nat n) 1) []) ->
  sel ds t1 b <> sel ds t2 b.
Proof.
  intros S n a s t1 t2 ds b HS H Hb H1 H2.
  apply phase_is_sum in H1; try assumption. apply phase_is_sum in H2; try assumption.
  apply sel_parity; [exact Hb|]. replace t1 with (t2 + 1) by lia.
  intros E. pose proof (Z.mod_pos_bound t2 2). pose proof (Z.mod_pos_bound (t2 + 1) 2). lia.
Qed.

(* (ii) the copy written for iteration t (phase a) is not written again before the consumer of
   iteration t has read it (phase a+1): any other producer instance using the same copy runs in
   a phase < a or > a+1 *)
Theorem parity_safe_not_overwritten : forall S n a a' s t t' ds b, (1 <= S)%nat -> (S - 1 <= n)%nat ->
  memb b ds = true ->
  In (s, t) (nth a (unrolled S (Z.of_nat n) 1) []) ->
  In (s, t') (nth a' (unrolled S (Z.of_nat n) 1) []) ->
  t' <> t -> sel ds t' b = sel ds t b ->
  (a' < a \/ a + 1 < a')%nat.
Proof.
  intros S n a a' s t t' ds b HS H Hb H1 H2 Hne Hsel.
  apply phase_is_sum in H1; try assumption. apply phase_is_sum in H2; try assumption.
  apply sel_same_parity in Hsel; [|exact Hb].
  assert (t' <> t + 1) by (intros ->; pose proof (Z.mod_pos_bound t 2); pose proof (Z.mod_pos_bound (t + 1) 2); lia).
  lia.
Qed.

(* ---- refutations: outside n >= S-1 the schedule is wrong (the code does not guard) -------------- *)
Theorem pipeline_refuted_small_n :
  exists S n, (1 <= S)%nat /\ (n < S - 1)%nat /\
    ~ Permutation (concat (unrolled S (Z.of_nat n) 1)) (concat (seq_pairs S 0 (Z.of_nat n) 1)) /\
    (exists k t, In (k, t) (concat (unrolled S (Z.of_nat n) 1)) /\ ~ (0 <= t < Z.of_nat n)).
Proof.
  exists 3%nat, 1%nat. split; [lia|]. split; [lia|]. split.
  - intros Hp. apply Permutation_length in Hp. vm_compute in Hp. discriminate.
  - exists 2%nat, (-1). split; [vm_compute; tauto | lia].
Qed.

(* zero iterations: the original loop does nothing, the unrolled code still runs stage 0 *)
Theorem pipeline_refuted_zero_trip :
  concat (seq_pairs 2 0 0 1) = [] /\ In (0%nat, 0) (concat (unrolled 2 0 1)).
Proof. split; [reflexivity | vm_compute; tauto]. Qed.

(* the schedule never looks at lb and uses the step only for the steady loop: for lb <> 0 or
   step <> 1 it is not a permutation of the loop's iterations (why ConstructPipeline must guard) *)
Theorem pipeline_refuted_lb_step :
  (exists S lb ub, lb <> 0 /\ Z.of_nat S - 1 <= trip lb ub 1 /\
     ~ Permutation (concat (unrolled S ub 1)) (concat (seq_pairs S lb ub 1))) /\
  (exists S ub st, st <> 1 /\ Z.of_nat S - 1 <= trip 0 ub st /\
     ~ Permutation (concat (unrolled S ub st)) (concat (seq_pairs S 0 ub st))).
Proof.
  split.
  - exists 2%nat, 1, 4. split; [lia|]. split; [vm_compute; discriminate|].
    intros Hp. apply Permutation_length in Hp. vm_compute in Hp. discriminate.
  - exists 2%nat, 6, 2. split; [lia|]. split; [vm_compute; discriminate|].
    intros Hp. assert (Hin : In (0%nat, 4) (concat (unrolled 2 6 2))).
    { eapply Permutation_in; [apply Permutation_sym; exact Hp|]. vm_compute. tauto. }
    vm_compute in Hin. intuition congruence.
Qed.

(* ---- the recogniser: scan accepts exactly the bodies made of stage groups each closed by a barrier --- *)
Lemma scan_shape_len : forall k l, (length l <= k)%nat -> forall cur n m, scan cur n l = Some m ->
  if cur then exists a gs, m = (n + 1 + length gs)%nat /\ l = repeat TStage (S a) ++ TSync :: groups gs
  else exists gs, m = (n + length gs)%nat /\ l = groups gs.
Proof.
  induction k as [|k IH]; intros l Hl cur n m H.
  - destruct l; [|simpl in Hl; inversion Hl]. simpl in H. destruct cur; [discriminate|].
    inversion H; subst. exists []. split; [simpl; lia|reflexivity].
  - destruct l as [|t r].
    { simpl in H. destruct cur; [discriminate|]. inversion H; subst. exists []. split; [simpl; lia|reflexivity]. }
    destruct t; try (simpl in H; discriminate).
    simpl in Hl.
    assert (Hcases : (exists r', r = TSync :: r') \/ scan cur n (TStage :: r) = scan true n r).
    { destruct r as [|t' r']; [right; reflexivity|]. destruct t'; [right; reflexivity | left; eexists; reflexivity | right; reflexivity]. }
    destruct Hcases as [[r' ->]|E].
    + simpl in H. simpl in Hl. apply (IH r' ltac:(lia) false) in H. destruct H as [gs [Hm Hr]]. subst r'.
      destruct cur.
      * exists 0%nat, gs. split; [simpl; lia|reflexivity].
      * exists (0%nat :: gs). split; [simpl; lia|reflexivity].
    + rewrite E in H. apply (IH r ltac:(lia) true) in H. destruct H as [a [gs [Hm Hr]]]. subst r.
      destruct cur.
      * exists (S a), gs. split; [simpl; lia|reflexivity].
      * exists (S a :: gs). split; [simpl; lia|]. unfold groups. simpl. rewrite <- app_assoc. reflexivity.
Qed.

Theorem scan_shape : forall l n, scan false 0 l = Some n -> exists gs, length gs = n /\ l = groups gs.
Proof.
  intros l n H. apply (scan_shape_len (length l) l (le_n _) false) in H. destruct H as [gs [Hm Hl]].
  exists gs. split; [lia|exact Hl].
Qed.

Lemma scan_group : forall g cur n rest, scan cur n (repeat TStage (S g) ++ TSync :: rest) = scan false (S n) rest.
Proof.
  induction g as [|g IH]; intros cur n rest; [reflexivity|].
  rewrite <- (IH true n rest). reflexivity.
Qed.

Theorem scan_groups : forall gs n, scan false n (groups gs) = Some (n + length gs)%nat.
Proof.
  induction gs as [|g gs IH]; intros n; [simpl; f_equal; lia|].
  change (groups (g :: gs)) with ((repeat TStage (S g) ++ [TSync]) ++ groups gs).
  rewrite <- app_assoc. change ([TSync] ++ groups gs) with (TSync :: groups gs).
  rewrite scan_group, IH. f_equal. simpl. lia.
Qed.

Lemma scan_clean_body p : scan false 0 (clean_body p) = Some (nstages p).
Proof. unfold clean_body. rewrite scan_groups, map_length. reflexivity. Qed.

Theorem recognised_shape : forall p lb st body, recognised p lb st body = true ->
  lb = 0 /\ st = 1 /\ (2 <= nstages p)%nat /\ exists gs, length gs = nstages p /\ body = groups gs.
Proof.
  intros p lb st body H. unfold recognised in H.
  destruct (scan false 0 body) as [n|] eqn:E; [|rewrite andb_false_r in H; discriminate].
  apply andb_prop in H as [H1 H2]. apply andb_prop in H1 as [Hlb Hst]. apply andb_prop in H2 as [H2 H3].
  apply Z.eqb_eq in Hlb, Hst. apply Nat.leb_le in H2. apply Nat.eqb_eq in H3. subst n.
  apply scan_shape in E. repeat split; try assumption.
Qed.

Theorem clean_recognised : forall p, (2 <= nstages p)%nat -> recognised p 0 1 (clean_body p) = true.
Proof.
  intros p H. unfold recognised. rewrite scan_clean_body.
  apply andb_true_intro. split; [reflexivity|].
  apply andb_true_intro. split; [apply Nat.leb_le; exact H | apply Nat.eqb_refl].
Qed.

(* an op that is neither a stage op nor a barrier anywhere behind the index ops, a barrier that closes no
   stage, or a last stage without barrier: not recognised *)
Example stray_not_recognised :
  scan false 0 [TStage; TSync; TStage; TSync; TOther; TStage; TSync] = None /\
  scan false 0 [TStage; TSync; TStage; TOther; TSync] = None /\
  scan false 0 [TStage; TSync; TSync; TStage; TSync] = None /\
  scan false 0 [TStage; TSync; TStage; TSync; TStage] = None /\
  scan false 0 [TStage; TStage; TSync; TStage; TSync] = Some 2%nat.
Proof. repeat split; reflexivity. Qed.
