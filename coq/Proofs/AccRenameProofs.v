(* Renaming a state value: if neither [x] nor [y] is ever bound by the machine (they are not
   parameters, pure results, call results, induction variables, loop-carried arguments or results
   of scf.for / scf.if — e.g. the out-state of a setup and a fresh value), renaming x to y at every
   occurrence leaves every execution unchanged: the two are read-only, equal "ghost" cells of the
   environment.  Used to connect the real SimplifyRedundantSetupCalls rewrite (which creates a new
   out-state value) with the proved structural map. *)
From Snax Require Import Base.Prelude Model.AccIR Model.AccSem Model.AccInfer Model.AccDedup Model.AccWeave
  Proofs.AccSemProofs Proofs.AccInferProofs Proofs.AccDedupProofs.

Section Rename.
Variable orc : oracle.
Variables x y : val.
Let f := rn x y.

Lemma f_id v : v <> x -> f v = v.
Proof. intros H. unfold f, rn. destruct (Nat.eqb v x) eqn:E; [apply Nat.eqb_eq in E; congruence|reflexivity]. Qed.

Lemma map_f_id l : ~ In x l -> map f l = l.
Proof.
  induction l as [|v l IH]; intros H; [reflexivity|]. simpl. rewrite f_id by (intros E; apply H; left; congruence).
  rewrite IH by (intros H'; apply H; right; exact H'). reflexivity.
Qed.

(* the invariant: both cells hold the same value *)
Definition I (m : mstate) : Prop := env m x = env m y.

Lemma read_f m v : I m -> env m (f v) = env m v.
Proof. intros H. unfold f, rn. destruct (Nat.eqb v x) eqn:E; [|reflexivity]. apply Nat.eqb_eq in E. subst v. symmetry. exact H. Qed.

Lemma map_read_f m l : I m -> map (env m) (map f l) = map (env m) l.
Proof. intros H. rewrite map_map. apply map_ext. intros v. apply read_f. exact H. Qed.

Lemma eval_f m e : I m -> eval_pexp (env m) (ren_pexp f e) = eval_pexp (env m) e.
Proof. intros H. destruct e; simpl; rewrite ?(read_f m) by exact H; reflexivity. Qed.

Lemma write_fields_f m fs : I m -> forall r,
  write_fields (env m) (map (fun fv : field * val => (fst fv, f (snd fv))) fs) r = write_fields (env m) fs r.
Proof.
  intros H. induction fs as [|[g v] fs IH]; intros r; [reflexivity|]. simpl. rewrite (read_f m v H). apply IH.
Qed.

Lemma ren_stmt_for iv lb ub sp its rs body ys :
  ren_stmt f (SFor iv lb ub sp its rs body ys) =
  SFor (f iv) (f lb) (f ub) (f sp) (map (fun it => (f (it_arg it), f (it_init it), it_ty it)) its)
       (map f rs) (ren_block f body) (map f ys).
Proof.
  reflexivity.
Qed.

Lemma ren_stmt_if c rs th thy el ely :
  ren_stmt f (SIf c rs th thy el ely) =
  SIf (f c) (map (fun r => (f (fst r), snd r)) rs) (ren_block f th) (map f thy) (ren_block f el) (map f ely).
Proof.
  reflexivity.
Qed.

Lemma stmt_binds_for iv lb ub sp its rs body ys :
  stmt_binds (SFor iv lb ub sp its rs body ys) = iv :: map it_arg its ++ rs ++ block_binds body.
Proof. reflexivity. Qed.
Lemma stmt_binds_if c rs th thy el ely :
  stmt_binds (SIf c rs th thy el ely) = map fst rs ++ block_binds th ++ block_binds el.
Proof. reflexivity. Qed.

Definition unbound (l : list val) : Prop := ~ In x l /\ ~ In y l.

Lemma unbound_app l1 l2 : unbound (l1 ++ l2) -> unbound l1 /\ unbound l2.
Proof. unfold unbound. rewrite !in_app_iff. tauto. Qed.

Lemma unbound_cons v l : unbound (v :: l) -> v <> x /\ v <> y /\ unbound l.
Proof. unfold unbound. simpl. intros [H1 H2]. repeat split; try (intros E; subst; tauto); tauto. Qed.

Lemma I_bind m ks vs : unbound ks -> I m -> I (set_env m (bind_list ks vs (env m))).
Proof. intros [Hx Hy] H. unfold I. simpl. rewrite !bind_list_other by assumption. exact H. Qed.

Definition Ps (s : stmt) : Prop := forall m, unbound (stmt_binds s) -> I m ->
  exec_stmt orc (ren_stmt f s) m = exec_stmt orc s m /\ I (exec_stmt orc s m).
Definition Pb (b : block) : Prop := forall m, unbound (block_binds b) -> I m ->
  exec_block orc (ren_block f b) m = exec_block orc b m /\ I (exec_block orc b m).

Lemma ren_pure d e : Ps (SPure d e).
Proof.
  intros m Hu HI. apply unbound_cons in Hu. destruct Hu as [Hdx [Hdy _]].
  cbn [ren_stmt exec_stmt]. rewrite f_id by exact Hdx. rewrite eval_f by exact HI. split; [reflexivity|].
  unfold I. simpl. rewrite !upd_other by congruence. exact HI.
Qed.

Lemma ren_call g ef pu ds ar : Ps (SCall g ef pu ds ar).
Proof.
  intros m [Hx Hy] HI. cbn [ren_stmt exec_stmt stmt_binds] in *. unfold exec_call.
  rewrite map_f_id by exact Hx. rewrite map_read_f by exact HI. split; [reflexivity|].
  unfold I. simpl. rewrite !call_results_other by assumption. exact HI.
Qed.

Lemma ren_for iv lb ub sp its rs body ys : Pb body -> Ps (SFor iv lb ub sp its rs body ys).
Proof.
  intros IHb m Hu HI. rewrite stmt_binds_for in Hu.
  apply unbound_cons in Hu. destruct Hu as [Hivx [Hivy Hu]].
  apply unbound_app in Hu. destruct Hu as [Hargs Hu]. apply unbound_app in Hu. destruct Hu as [Hrs Hbody].
  rewrite ren_stmt_for, !exec_stmt_for. unfold exec_for.
  rewrite !(read_f m) by exact HI. rewrite (f_id iv Hivx).
  assert (Hba : map it_arg (map (fun it => (f (it_arg it), f (it_init it), it_ty it)) its) = map it_arg its).
  { transitivity (map f (map it_arg its)); [rewrite !map_map; reflexivity|]. apply map_f_id. exact (proj1 Hargs). }
  rewrite Hba.
  assert (Hin : map (fun x0 => env m (it_init x0)) (map (fun it => (f (it_arg it), f (it_init it), it_ty it)) its)
                = map (fun x0 => env m (it_init x0)) its).
  { rewrite map_map. apply map_ext. intros it. cbn [it_init fst snd]. apply read_f. exact HI. }
  rewrite Hin. rewrite (map_f_id rs (proj1 Hrs)).
  set (l := env m lb). set (s := env m sp). set (n := trip_count l (env m ub) s).
  set (bargs := map it_arg its).
  set (m0 := set_env m (bind_list bargs (map (fun x0 => env m (it_init x0)) its) (env m))).
  assert (HI0 : I m0) by (apply I_bind; assumption).
  assert (Hloop : forall k,
            iter_n k (for_step (exec_block orc (ren_block f body)) iv bargs (map f ys) l s) m0
            = iter_n k (for_step (exec_block orc body) iv bargs ys l s) m0
            /\ I (iter_n k (for_step (exec_block orc body) iv bargs ys l s) m0)).
  { induction k as [|k [IHk1 IHk2]]; [split; [reflexivity|exact HI0]|].
    cbn [iter_n]. rewrite IHk1.
    set (mk := iter_n k (for_step (exec_block orc body) iv bargs ys l s) m0) in *.
    unfold for_step.
    set (m1 := set_env mk (upd (env mk) iv (l + Z.of_nat k * s))).
    assert (HI1 : I m1). { unfold I, m1. simpl. rewrite !upd_other by congruence. exact IHk2. }
    destruct (IHb m1 Hbody HI1) as [He HI2]. rewrite He.
    rewrite (map_read_f _ ys HI2). split; [reflexivity|]. apply I_bind; assumption. }
  destruct (Hloop n) as [H1 H2]. rewrite H1. split; [reflexivity|]. apply I_bind; assumption.
Qed.

Lemma ren_if c rs th thy el ely : Pb th -> Pb el -> Ps (SIf c rs th thy el ely).
Proof.
  intros IHt IHe m Hu HI. rewrite stmt_binds_if in Hu.
  apply unbound_app in Hu. destruct Hu as [Hrs Hu]. apply unbound_app in Hu. destruct Hu as [Hth Hel].
  rewrite ren_stmt_if, !exec_stmt_if. unfold exec_if. rewrite (read_f m c HI).
  assert (Hr : map fst (map (fun r : val * ty => (f (fst r), snd r)) rs) = map fst rs).
  { transitivity (map f (map fst rs)); [rewrite !map_map; reflexivity|]. apply map_f_id. exact (proj1 Hrs). }
  rewrite Hr.
  destruct (env m c =? 0).
  - destruct (IHe m Hel HI) as [He HI2]. rewrite He. rewrite (map_read_f _ ely HI2).
    split; [reflexivity|]. apply I_bind; assumption.
  - destruct (IHt m Hth HI) as [He HI2]. rewrite He. rewrite (map_read_f _ thy HI2).
    split; [reflexivity|]. apply I_bind; assumption.
Qed.

Lemma ren_block_sound : forall b, Pb b.
Proof.
  apply (block_ind2 Ps Pb).
  - exact ren_pure.
  - exact ren_call.
  - intros a o i fs m _ HI. cbn [ren_stmt exec_stmt]. unfold exec_setup.
    rewrite (write_fields_f m fs HI). rewrite map_map. cbn [fst]. split; [reflexivity|exact HI].
  - intros a k st fs m _ HI. cbn [ren_stmt exec_stmt]. split; [|exact HI].
    f_equal. f_equal. rewrite map_map. apply map_ext. intros fv. cbn [fst snd]. rewrite (read_f m _ HI). reflexivity.
  - intros a k m _ HI. split; [reflexivity|exact HI].
  - intros a st m _ HI. split; [reflexivity|exact HI].
  - exact ren_for.
  - exact ren_if.
  - intros m _ HI. split; [reflexivity|exact HI].
  - intros s b Hs Hb m Hu HI. unfold block_binds in Hu. cbn [flat_map] in Hu. apply unbound_app in Hu.
    destruct Hu as [Hus Hub]. cbn [ren_block map exec_block].
    destruct (Hs m Hus HI) as [He HI1]. fold (ren_block f b). rewrite He. exact (Hb _ Hub HI1).
Qed.

(* renaming x to y everywhere does not change any run *)
Theorem ren_prog_run p args :
  unbound (prog_binds p) -> run orc (ren_prog f p) args = run orc p args.
Proof.
  intros Hu. unfold prog_binds in Hu. apply unbound_app in Hu. destruct Hu as [Hpar Hbody].
  unfold run, final_state, init_state. cbn [ren_prog p_params p_body].
  rewrite (map_f_id _ (proj1 Hpar)).
  set (m0 := mkSt (bind_list (p_params p) args (fun _ => 0)) (o_adv orc 0%nat) (fun _ => []) 1%nat []).
  assert (HI0 : I m0). { unfold I, m0. simpl. rewrite !bind_list_other by (apply Hpar). reflexivity. }
  destruct (ren_block_sound (p_body p) m0 Hbody HI0) as [He _]. rewrite He. reflexivity.
Qed.
End Rename.

(* the real SimplifyRedundantSetupCalls rewrite = the proved map + renaming of the replaced
   out-state [tg] to the new value [o'] *)
Theorem simplify_rule_preserves (T : val -> astate) (tg o' : val) (p : prog) (orc : oracle) (args : list Z) :
  wf_prog T p = true -> block_fields_nodup (p_body p) = true ->
  mem_nat tg (prog_binds (simp_prog (Nat.eqb tg) T p)) = false ->
  mem_nat o' (prog_binds (simp_prog (Nat.eqb tg) T p)) = false ->
  trace_sim_b (run orc p args) (run orc (ren_prog (rn tg o') (simp_prog (Nat.eqb tg) T p)) args) = true.
Proof.
  intros Hwf Hnd Hx Hy. rewrite ren_prog_run.
  - apply simp_preserves; assumption.
  - split; apply mem_nat_false; assumption.
Qed.
