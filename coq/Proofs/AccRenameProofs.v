(* Renaming a state value: if neither [x] nor [y] is ever bound by the machine (they are not
   parameters, pure results, call results, induction variables, loop-carried arguments or results
   of scf.for / scf.if — e.g. the out-state of a setup and a fresh value), renaming x to y at every
   occurrence leaves every execution unchanged: the two are read-only, equal "ghost" cells of the
   environment.  Used to connect the real SimplifyRedundantSetupCalls rewrite (which creates a new
   out-state value) with the proved structural map. *)
From Snax Require Import Base.Prelude Model.AccIR Model.AccSem Model.AccInfer Model.AccDedup Model.AccWeave
  Proofs.AccSemProofs Proofs.AccInferProofs Proofs.AccDedupProofs.

Section Rename.
Variable orc : oracle.
Variables x y : val.
Let f := rn x y.

Lemma f_id v : v <> x -> f v = v.
Proof. intros H. unfold f, rn. destruct (Nat.eqb v x) eqn:E; [apply Nat.eqb_eq in E; congruence|reflexivity]. Qed.

Lemma map_f_id l : ~ In x l -> map f l = l.
Proof.
  induction l as [|v l IH]; intros H; [reflexivity|]. simpl. rewrite f_id by (intros E; apply H; left; congruence).
  rewrite IH by (intros H'; apply H; right; exact H'). reflexivity.
Qed.

(* the invariant: both cells hold the same value *)
Definition I (m : mstate) : Prop := env m x = env m y.

Lemma read_f m v : I m -> env m (f v) = env m v.
Proof. intros H. unfold f, rn. destruct (Nat.eqb v x) eqn:E; [|reflexivity]. apply Nat.eqb_eq in E. subst v. symmetry. exact H. Qed.

Lemma map_read_f m l : I m -> map (env m) (map f l) = map (env m) l.
Proof. intros H. rewrite map_map. apply map_ext. intros v. apply read_f. exact H. Qed.

Lemma eval_f m e : I m -> eval_pexp (env m) (ren_pexp f e) = eval_pexp (env m) e.
Proof. intros H. destruct e; simpl; rewrite ?(read_f m) by exact H; reflexivity. Qed.

Lemma write_fields_f m fs : I m -> forall r,
  write_fields (env m) (map (fun fv : field * val => (fst fv, f (snd fv))) fs) r = write_fields (env m) fs r.
Proof.
  intros H. induction fs as [|[g v] fs IH]; intros r; [reflexivity|]. simpl. rewrite (read_f m v H). apply IH.
Qed.

Lemma ren_stmt_for iv lb ub sp its rs body ys :
  ren_stmt f (SFor iv lb ub sp its rs body ys) =
  SFor (f iv) (f lb) (f ub) (f sp) (map (fun it => (f (it_arg it), f (it_init it), it_ty it)) its)
       (map f rs) (ren_block f body) (map f ys).
Proof.
  reflexivity.
Qed.

Lemma ren_stmt_if c rs th thy el ely :
  ren_stmt f (SIf c rs th thy el ely) =
  SIf (f c) (map (fun r => (f (fst r), snd r)) rs) (ren_block f th) (map f thy) (ren_block f el) (map f ely).
Proof.
  reflexivity.
Qed.

Lemma stmt_binds_for iv lb ub sp its rs body ys :
  stmt_binds (SFor iv lb ub sp its rs body ys) = iv :: map it_arg its ++ rs ++ block_binds body.
Proof. reflexivity. Qed.
Lemma stmt_binds_if c rs th thy el ely :
  stmt_binds (SIf c rs th thy el ely) = map fst rs ++ block_binds th ++ block_binds el.
Proof. reflexivity. Qed.

Definition unbound (l : list val) : Prop := ~ In x l /\ ~ In y l.

Lemma unbound_app l1 l2 : unbound (l1 ++ l2) -> unbound l1 /\ unbound l2.
Proof. unfold unbound. rewrite !in_app_iff. tauto. Qed.

Lemma unbound_cons v l : unbound (v :: l) -> v <> x /\ v <> y /\ unbound l.
Proof. unfold unbound. simpl. intros [H1 H2]. repeat split; try (intros E; subst; tauto); tauto. Qed.

Lemma I_bind m ks vs : unbound ks -> I m -> I (set_env m (bind_list ks vs (env m))).
Proof. intros [Hx Hy] H. unfold I. simpl. rewrite !bind_list_other by assumption. exact H. Qed.

Definition Ps (s : stmt) : Prop := forall m, unbound (stmt_binds s) -> I m ->
  exec_stmt orc (ren_stmt f s) m = exec_stmt orc s m /\ I (exec_stmt orc s m).
Definition Pb (b : block) : Prop := forall m, unbound (block_binds b) -> I m ->
  exec_block orc (ren_block f b) m = exec_block orc b m /\ I (exec_block orc b m).

Lemma ren_pure d e : Ps (SPure d e).
Proof.
  intros m Hu HI. apply unbound_cons in Hu. destruct Hu as [Hdx [Hdy _]].
  cbn [ren_stmt exec_stmt]. rewrite f_id by exact Hdx. rewrite eval_f by exact HI. split; [reflexivity|].
  unfold I. simpl. rewrite !upd_other by congruence. exact HI.
Qed.

Lemma ren_call g ef pu ds ar : Ps (SCall g ef pu ds ar).
Proof.
  intros m [Hx Hy] HI. cbn [ren_stmt exec_stmt stmt_binds] in *. unfold exec_call.
  rewrite map_f_id by exact Hx. rewrite map_read_f by exact HI. split; [reflexivity|].
  unfold I. simpl. rewrite !call_results_other by assumption. exact HI.
Qed.

Lemma ren_for iv lb ub sp its rs body ys : Pb body -> Ps (SFor iv lb ub sp its rs body ys).
Proof.
  intros IHb m Hu HI. rewrite stmt_binds_for in Hu.
  apply unbound_cons in Hu. destruct Hu as [Hivx [Hivy Hu]].
  apply unbound_app in Hu. destruct Hu as [Hargs Hu]. apply unbound_app in Hu. destruct Hu as [Hrs Hbody].
  rewrite ren_stmt_for, !exec_stmt_for. unfold exec_for.
  rewrite !(read_f m) by exact HI. rewrite (f_id iv Hivx).
  assert (Hba : map it_arg (map (fun it => (f (it_arg it), f (it_init it), it_ty it)) its) = map it_arg its).
  { transitivity (map f (map it_arg its)); [rewrite !map_map; reflexivity|]. apply map_f_id. exact (proj1 Hargs). }
  rewrite Hba.
  assert (Hin : map (fun x0 => env m (it_init x0)) (map (fun it => (f (it_arg it), f (it_init it), it_ty it)) its)
                = map (fun x0 => env m (it_init x0)) its).
  { rewrite map_map. apply map_ext. intros it. cbn [it_init fst snd]. apply read_f. exact HI. }
  rewrite Hin. rewrite (map_f_id rs (proj1 Hrs)).
  set (l := env m lb). set (s := env m sp). set (n := trip_count l (env m ub) s).
  set (bargs := map it_arg its).
  set (m0 := set_env m (bind_list bargs (map (fun x0 => env m (it_init x0)) its) (env m))).
  assert (HI0 : I m0) by (apply I_bind; assumption).
  assert (Hloop : forall k,
            iter_n k (for_step (exec_block orc (ren_block f body)) iv bargs (map f ys) l s) m0
            = iter_n k (for_step (exec_block orc body) iv bargs ys l s) m0
            /\ I (iter_n k (for_step (exec_block orc body) iv bargs ys l s) m0)).
  { induction k as [|k [IHk1 IHk2]]; [split; [reflexivity|exact HI0]|].
    cbn [iter_n]. rewrite IHk1.
    set (mk := iter_n k (for_step (exec_block orc body) iv bargs ys l s) m0) in *.
    unfold for_step.
    set (m1 := set_env mk (upd (env mk) iv (l + Z.of_nat k * s))).
    assert (HI1 : I m1). { unfold I, m1. simpl. rewrite !upd_other by congruence. exact IHk2. }
    destruct (IHb m1 Hbody HI1) as [He HI2]. rewrite He.
    rewrite (map_read_f _ ys HI2). split; [reflexivity|]. apply I_bind; assumption. }
  destruct (Hloop n) as [H1 H2]. rewrite H1. split; [reflexivity|]. apply I_bind; assumption.
Qed.

Lemma ren_if c rs th thy el ely : Pb th -> Pb el -> Ps (SIf c rs th thy el ely).
Proof.
  intros IHt IHe m Hu HI. rewrite stmt_binds_if in Hu.
  apply unbound_app in Hu. destruct Hu as [Hrs Hu]. apply unbound_app in Hu. destruct Hu as [Hth Hel].
  rewrite ren_stmt_if, !exec_stmt_if. unfold exec_if. rewrite (read_f m c HI).
  assert (Hr : map fst (map (fun r : val * ty => (f (fst r), snd r)) rs) = map fst rs).
  { transitivity (map f (map fst rs)); [rewrite !map_map; reflexivity|]. apply map_f_id. exact (proj1 Hrs). }
  rewrite Hr.
  destruct (env m c =? 0).
  - destruct (IHe m Hel HI) as [He HI2]. rewrite He. rewrite (map_read_f _ ely HI2).
    split; [reflexivity|]. apply I_bind; assumption.
  - destruct (IHt m Hth HI) as [He HI2]. rewrite He. rewrite (map_read_f _ thy HI2).
    split; [reflexivity|]. apply I_bind; assumption.
Qed.

Lemma ren_block_sound : forall b, Pb b.
Proof.
  apply (block_ind2 Ps Pb).
  - exact ren_pure.
  - exact ren_call.
  - intros a o i fs m _ HI. cbn [ren_stmt exec_stmt]. unfold exec_setup.
    rewrite (write_fields_f m fs HI). rewrite map_map. cbn [fst]. split; [reflexivity|exact HI].
  - intros a k st fs m _ HI. cbn [ren_stmt exec_stmt]. split; [|exact HI].
    f_equal. f_equal. rewrite map_map. apply map_ext. intros fv. cbn [fst snd]. rewrite (read_f m _ HI). reflexivity.
  - intros a k m _ HI. split; [reflexivity|exact HI].
  - intros a st m _ HI. split; [reflexivity|exact HI].
  - exact ren_for.
  - exact ren_if.
  - intros m _ HI. split; [reflexivity|exact HI].
  - intros s b Hs Hb m Hu HI. unfold block_binds in Hu. cbn [flat_map] in Hu. apply unbound_app in Hu.
    destruct Hu as [Hus Hub]. cbn [ren_block map exec_block].
    destruct (Hs m Hus HI) as [He HI1]. fold (ren_block f b). rewrite He. exact (Hb _ Hub HI1).
Qed.

(* renaming x to y everywhere does not change any run *)
Theorem ren_prog_run p args :
  unbound (prog_binds p) -> run orc (ren_prog f p) args = run orc p args.
Proof.
  intros Hu. unfold prog_binds in Hu. apply unbound_app in Hu. destruct Hu as [Hpar Hbody].
  unfold run, final_state, init_state. cbn [ren_prog p_params p_body].
  rewrite (map_f_id _ (proj1 Hpar)).
  set (m0 := mkSt (bind_list (p_params p) args (fun _ => 0)) (o_adv orc 0%nat) (fun _ => []) 1%nat []).
  assert (HI0 : I m0). { unfold I, m0. simpl. rewrite !bind_list_other by (apply Hpar). reflexivity. }
  destruct (ren_block_sound (p_body p) m0 Hbody HI0) as [He _]. rewrite He. reflexivity.
Qed.
End Rename.

(* the real SimplifyRedundantSetupCalls rewrite = the proved map + renaming of the replaced
   out-state [tg] to the new value [o'] *)
Theorem simplify_rule_preserves (T : val -> astate) (tg o' : val) (p : prog) (orc : oracle) (args : list Z) :
  wf_prog T p = true -> block_fields_nodup (p_body p) = true ->
  mem_nat tg (prog_binds (simp_prog (Nat.eqb tg) T p)) = false ->
  mem_nat o' (prog_binds (simp_prog (Nat.eqb tg) T p)) = false ->
  trace_sim_b (run orc p args) (run orc (ren_prog (rn tg o') (simp_prog (Nat.eqb tg) T p)) args) = true.
Proof.
  intros Hwf Hnd Hx Hy. rewrite ren_prog_run.
  - apply simp_preserves; assumption.
  - split; apply mem_nat_false; assumption.
Qed.

(* ---- generic: related bodies give related loops / conditionals -------------------------------- *)
Lemma exec_for_sim (eb eb' : mstate -> mstate) iv lb ub sp its rs ys m m' :
  (forall k k', R k k' -> R (eb k) (eb' k')) -> R m m' ->
  R (exec_for eb iv lb ub sp its rs ys m) (exec_for eb' iv lb ub sp its rs ys m').
Proof.
  intros Hb [He [Hr [Hn Ht]]]. unfold exec_for. rewrite He.
  set (l := env m lb). set (s := env m sp). set (n := trip_count l (env m ub) s).
  set (bargs := map it_arg its).
  set (e0 := bind_list bargs (map (fun x => env m (it_init x)) its) (env m)).
  assert (HR0 : R (set_env m e0) (set_env m' e0)) by (repeat split; simpl; assumption).
  assert (Hloop : forall k, R (iter_n k (for_step eb iv bargs ys l s) (set_env m e0))
                              (iter_n k (for_step eb' iv bargs ys l s) (set_env m' e0))).
  { induction k as [|k IHk]; [exact HR0|]. cbn [iter_n].
    set (mk := iter_n k (for_step eb iv bargs ys l s) (set_env m e0)) in *.
    set (mk' := iter_n k (for_step eb' iv bargs ys l s) (set_env m' e0)) in *.
    unfold for_step. destruct IHk as [Hek [Hrk [Hnk Htk]]]. rewrite Hek.
    assert (HR1 : R (set_env mk (upd (env mk) iv (l + Z.of_nat k * s))) (set_env mk' (upd (env mk) iv (l + Z.of_nat k * s))))
      by (repeat split; simpl; assumption).
    destruct (Hb _ _ HR1) as [He2 [Hr2 [Hn2 Ht2]]]. rewrite He2. repeat split; simpl; assumption. }
  destruct (Hloop n) as [HeN [HrN [HnN HtN]]]. rewrite HeN. repeat split; simpl; assumption.
Qed.

Lemma exec_if_sim (et et' ee ee' : mstate -> mstate) c rs thy ely m m' :
  (forall k k', R k k' -> R (et k) (et' k')) -> (forall k k', R k k' -> R (ee k) (ee' k')) -> R m m' ->
  R (exec_if et ee c rs thy ely m) (exec_if et' ee' c rs thy ely m').
Proof.
  intros Ht He HR. unfold exec_if. pose proof HR as [Hev _]. rewrite Hev.
  destruct (env m c =? 0).
  - destruct (He _ _ HR) as [He2 [Hr2 [Hn2 Ht2]]]. rewrite He2. repeat split; simpl; assumption.
  - destruct (Ht _ _ HR) as [He2 [Hr2 [Hn2 Ht2]]]. rewrite He2. repeat split; simpl; assumption.
Qed.

(* ---- ElideEmptySetupOps: removing a field-less setup ------------------------------------------ *)
Section DropProofs.
Variable orc : oracle.
Variable tg : val.

Lemma R_drop_setup a m m' : R m m' -> R (exec_setup a [] m) m'.
Proof.
  intros [He [Hr [Hn Ht]]]. unfold exec_setup. repeat split; simpl; try assumption.
  intros b f. unfold upd. destruct (Nat.eqb b a) eqn:E; [|apply Hr].
  apply Nat.eqb_eq in E. subst b. apply Hr.
Qed.

Lemma is_dropped_exec s m m' : is_dropped tg s = true -> R m m' -> R (exec_stmt orc s m) m'.
Proof.
  destruct s as [| |a o i fs| | | | |]; try discriminate. destruct i as [i|]; [|discriminate].
  destruct fs; [|discriminate]. intros _ HR. cbn [exec_stmt]. apply R_drop_setup. exact HR.
Qed.

Definition Ds (s : stmt) : Prop := forall m m', R m m' -> R (exec_stmt orc s m) (exec_stmt orc (drop_stmt tg s) m').
Definition Db (b : block) : Prop := forall m m', R m m' -> R (exec_block orc b m) (exec_block orc (drop_block tg b) m').

Lemma drop_block_sound : forall b, Db b.
Proof.
  apply (block_ind2 Ds Db).
  - intros d e m m' HR. exact (R_same_pure orc d e m m' HR).
  - intros g ef pu ds ar m m' HR. exact (R_same_call orc g ef pu ds ar m m' HR).
  - intros a o i fs m m' HR. exact (R_same_setup a fs m m' HR).
  - intros a k st fs m m' HR. exact (R_same_launch orc a k st fs m m' HR).
  - intros a k m m' HR. simpl. apply R_same_emit_simple; exact HR.
  - intros a st m m' HR. simpl. apply R_same_emit_simple; exact HR.
  - intros iv lb ub sp its rs body ys IH m m' HR.
    change (drop_stmt tg (SFor iv lb ub sp its rs body ys)) with (SFor iv lb ub sp its rs (drop_block tg body) ys).
    rewrite !exec_stmt_for. apply exec_for_sim; [exact IH|exact HR].
  - intros c rs th thy el ely IHt IHe m m' HR.
    change (drop_stmt tg (SIf c rs th thy el ely)) with (SIf c rs (drop_block tg th) thy (drop_block tg el) ely).
    rewrite !exec_stmt_if. apply exec_if_sim; [exact IHt|exact IHe|exact HR].
  - intros m m' HR. exact HR.
  - intros s b Hs Hb m m' HR. cbn [drop_block exec_block].
    destruct (is_dropped tg s) eqn:E.
    + apply Hb. apply is_dropped_exec; assumption.
    + cbn [exec_block]. apply Hb. apply Hs. exact HR.
Qed.

Theorem drop_preserves p args :
  trace_strong (run orc p args) (run orc (drop_prog tg p) args).
Proof.
  unfold run, final_state. apply trace_strong_rev.
  assert (HR : R (exec_block orc (p_body p) (init_state orc p args))
                 (exec_block orc (drop_block tg (p_body p)) (init_state orc p args)))
    by (apply drop_block_sound; apply R_refl).
  exact (proj2 (proj2 (proj2 HR))).
Qed.
End DropProofs.

(* the real ElideEmptySetupOps rewrite when the input state [i] of the removed setup is itself a
   never-bound value (the out-state of another setup): drop + rename.  No hypothesis on inference. *)
Theorem elide_rule_preserves (tg i : val) (p : prog) (orc : oracle) (args : list Z) :
  mem_nat tg (prog_binds (drop_prog tg p)) = false ->
  mem_nat i (prog_binds (drop_prog tg p)) = false ->
  trace_sim_b (run orc p args) (run orc (ren_prog (rn tg i) (drop_prog tg p)) args) = true.
Proof.
  intros Hx Hy. rewrite ren_prog_run by (split; apply mem_nat_false; assumption).
  apply trace_strong_sim. apply drop_preserves.
Qed.

(* ---- frame: the machine changes the environment only at the ids a statement binds -------------- *)
Section Frame.
Variable orc : oracle.

Definition Fs (s : stmt) : Prop := forall m x, ~ In x (stmt_binds s) -> env (exec_stmt orc s m) x = env m x.
Definition Fb (b : block) : Prop := forall m x, ~ In x (block_binds b) -> env (exec_block orc b m) x = env m x.

Lemma env_frame_block : forall b, Fb b.
Proof.
  apply (block_ind2 Fs Fb).
  - intros d e m x Hx. simpl. apply upd_other. intros E; apply Hx; left; congruence.
  - intros g ef pu ds ar m x Hx. simpl. apply call_results_other. exact Hx.
  - intros a o i fs m x _. reflexivity.
  - intros a k st fs m x _. reflexivity.
  - intros a k m x _. reflexivity.
  - intros a st m x _. reflexivity.
  - intros iv lb ub sp its rs body ys IH m x Hx. rewrite stmt_binds_for in Hx. rewrite exec_stmt_for. unfold exec_for.
    assert (Hiv : x <> iv) by (intros E; apply Hx; left; congruence).
    assert (Hba : ~ In x (map it_arg its)) by (intros H; apply Hx; right; apply in_app_iff; left; exact H).
    assert (Hrs : ~ In x rs) by (intros H; apply Hx; right; apply in_app_iff; right; apply in_app_iff; left; exact H).
    assert (Hbd : ~ In x (block_binds body)) by (intros H; apply Hx; right; apply in_app_iff; right; apply in_app_iff; right; exact H).
    simpl. rewrite bind_list_other by exact Hrs.
    set (step := for_step (exec_block orc body) iv (map it_arg its) ys (env m lb) (env m sp)).
    set (m0 := set_env m (bind_list (map it_arg its) (map (fun x0 => env m (it_init x0)) its) (env m))).
    assert (H0 : env m0 x = env m x) by (unfold m0; simpl; apply bind_list_other; exact Hba).
    assert (Hloop : forall k, env (iter_n k step m0) x = env m x).
    { induction k as [|k IHk]; [exact H0|]. cbn [iter_n]. unfold step at 1, for_step. simpl.
      rewrite bind_list_other by exact Hba. rewrite (IH _ x Hbd). simpl. rewrite upd_other by exact Hiv. exact IHk. }
    apply Hloop.
  - intros c rs th thy el ely IHt IHe m x Hx. rewrite stmt_binds_if in Hx. rewrite exec_stmt_if. unfold exec_if.
    assert (Hrs : ~ In x (map fst rs)) by (intros H; apply Hx; apply in_app_iff; left; exact H).
    assert (Hth : ~ In x (block_binds th)) by (intros H; apply Hx; apply in_app_iff; right; apply in_app_iff; left; exact H).
    assert (Hel : ~ In x (block_binds el)) by (intros H; apply Hx; apply in_app_iff; right; apply in_app_iff; right; exact H).
    destruct (env m c =? 0); simpl; rewrite bind_list_other by exact Hrs; [apply IHe|apply IHt]; assumption.
  - intros m x _. reflexivity.
  - intros s b Hs Hb m x Hx. unfold block_binds in Hx. cbn [flat_map] in Hx. cbn [exec_block].
    rewrite Hb by (intros H; apply Hx; apply in_app_iff; right; exact H).
    apply Hs. intros H; apply Hx; apply in_app_iff; left; exact H.
Qed.
End Frame.
