(* C06 — the loop rule of the model itself: loop_overlap_for whole o nf s = Some (pro, s') and the decidable side
   condition imply that original loop and prologue + rewritten loop are related from related start states
   (every launch inside observes the same registers; afterwards the machines differ at most in the moved setup's
   fields), for every lb, step, trip count and oracle. *)
From Snax Require Import Base.Prelude Model.AccIR Model.AccSem Model.AccWeave Model.AccRules
  Proofs.AccSemProofs Proofs.AccRenameProofs.
From Snax Require Import Model.C06Overlap Model.C06BlockSide Model.C06LoopSide
  Proofs.C06SimProofs Proofs.C06ChainProofs Proofs.C06BlockGenProofs Proofs.C06LoopInsideProofs.

(* ---- the rule is its plan -------------------------------------------------------------------------------------- *)
Lemma loop_overlap_for_plan whole o nf s :
  loop_overlap_for whole o nf s =
  match loop_plan whole o nf s with Some pl => build_loop o s pl | None => None end.
Proof.
  destruct s as [| | | | | |iv lb ub sp iters rs body ys|]; try reflexivity.
  unfold loop_overlap_for, loop_plan.
  destruct (C06Overlap.find_setup body o 0) as [[[[k a] s_in] fs]|]; [|reflexivity].
  destruct (_ || _); [reflexivity|].
  destruct (index_of s_in (map it_arg iters) 0) as [idx|]; [|reflexivity].
  destruct (has_launch_before (firstn k body)); [reflexivity|].
  destruct (scoped_inputs body (map snd fs)) as [inputs|]; [|reflexivity].
  destruct (clone_scoped (iv :: map it_arg iters) (lb :: map it_init iters) nf (nth_stmts body inputs) a s_in fs)
    as [[pro st_pro] nf1].
  destruct (clone_scoped (iv :: map it_arg iters) (nf1 :: ys) (S nf1) (nth_stmts body inputs) a s_in fs)
    as [[epi st_epi] nfe].
  reflexivity.
Qed.

Lemma loop_plan_spec whole o nf iv lb ub sp iters rs body ys pl :
  loop_plan whole o nf (SFor iv lb ub sp iters rs body ys) = Some pl ->
  C06Overlap.find_setup body o 0 = Some (lp_k pl, lp_a pl, lp_sin pl, lp_fs pl)
  /\ clone_scoped (iv :: map it_arg iters) (lb :: map it_init iters) nf (nth_stmts body (lp_inputs pl))
       (lp_a pl) (lp_sin pl) (lp_fs pl) = (lp_pro pl, lp_stpro pl, lp_nf1 pl)
  /\ clone_scoped (iv :: map it_arg iters) (lp_nf1 pl :: ys) (S (lp_nf1 pl)) (nth_stmts body (lp_inputs pl))
       (lp_a pl) (lp_sin pl) (lp_fs pl) = (lp_epi pl, lp_stepi pl, lp_nfe pl)
  /\ index_of (lp_sin pl) (map it_arg iters) 0 = Some (lp_idx pl).
Proof.
  unfold loop_plan.
  destruct (C06Overlap.find_setup body o 0) as [[[[k a] s_in] fs]|]; [|discriminate].
  destruct (_ || _); [discriminate|].
  destruct (index_of s_in (map it_arg iters) 0) as [idx|] eqn:Ei; [|discriminate].
  destruct (has_launch_before (firstn k body)); [discriminate|].
  destruct (scoped_inputs body (map snd fs)) as [inputs|]; [|discriminate].
  destruct (clone_scoped (iv :: map it_arg iters) (lb :: map it_init iters) nf (nth_stmts body inputs) a s_in fs)
    as [[pro st_pro] nf1] eqn:E1.
  destruct (clone_scoped (iv :: map it_arg iters) (nf1 :: ys) (S nf1) (nth_stmts body inputs) a s_in fs)
    as [[epi st_epi] nfe] eqn:E2.
  intros H. inversion H; subst. cbn. repeat split; assumption.
Qed.

Lemma find_setup_split o : forall b pos k a s fs,
  C06Overlap.find_setup b o pos = Some (k, a, s, fs) ->
  (pos <= k)%nat /\ b = firstn (k - pos) b ++ SSetup a o (Some s) fs :: skipn (S (k - pos)) b.
Proof.
  induction b as [|x b IH]; intros pos k a s fs H; [discriminate|]. cbn [C06Overlap.find_setup] in H.
  assert (Hrec : C06Overlap.find_setup b o (S pos) = Some (k, a, s, fs) ->
                 (pos <= k)%nat /\ x :: b = firstn (k - pos) (x :: b) ++ SSetup a o (Some s) fs :: skipn (S (k - pos)) (x :: b)).
  { intros Hr. destruct (IH _ _ _ _ _ Hr) as [Hle Hb]. split; [lia|].
    replace (k - pos)%nat with (S (k - S pos)) by lia. cbn [firstn skipn app]. f_equal. exact Hb. }
  destruct x as [| |a' o' ins fs'| | | | |]; try (apply Hrec; exact H).
  destruct ins as [s'|]; [|apply Hrec; exact H].
  destruct (Nat.eqb o' o) eqn:E; [|apply Hrec; exact H].
  apply Nat.eqb_eq in E. inversion H; subst. split; [lia|]. rewrite Nat.sub_diag. reflexivity.
Qed.

Lemma nth_stmts_seq : forall t pre n, (n <= List.length t)%nat ->
  nth_stmts (pre ++ t) (seq (List.length pre) n) = firstn n t.
Proof.
  induction t as [|x t IH]; intros pre n Hn.
  - destruct n; [reflexivity|cbn in Hn; lia].
  - destruct n as [|n]; [reflexivity|]. cbn [seq nth_stmts flat_map firstn].
    rewrite nth_error_app2 by lia. rewrite Nat.sub_diag. cbn [nth_error app]. f_equal.
    replace (pre ++ x :: t) with ((pre ++ [x]) ++ t) by (rewrite <- app_assoc; reflexivity).
    specialize (IH (pre ++ [x]) n). rewrite app_length in IH. cbn [List.length] in IH.
    replace (List.length pre + 1)%nat with (S (List.length pre)) in IH by lia.
    apply IH. cbn [List.length] in Hn. lia.
Qed.

(* ---- replacing the erased state in flat statements does not change what they do ---------------------------------- *)
Lemma mlook_single o s v : v <> o -> mlook [(o, s)] v = v.
Proof. intros H. cbn. destruct (Nat.eqb o v) eqn:E; [apply Nat.eqb_eq in E; congruence|reflexivity]. Qed.

Lemma map_sv_id o s l : ~ In o l -> map (sv o s) l = l.
Proof.
  induction l as [|x l IH]; intros H; [reflexivity|]. cbn [map]. unfold sv at 1.
  destruct (Nat.eqb x o) eqn:E; [apply Nat.eqb_eq in E; subst; exfalso; apply H; left; reflexivity|].
  rewrite IH; [reflexivity|]. intros Hin. apply H. right. exact Hin.
Qed.

Lemma map_fvs_id o s (fs : list (field * val)) : ~ In o (map snd fs) ->
  map (fun fv : field * val => (fst fv, sv o s (snd fv))) fs = fs.
Proof.
  induction fs as [|[f v] fs IH]; intros H; [reflexivity|]. cbn [map fst snd] in *. unfold sv at 1.
  destruct (Nat.eqb v o) eqn:E; [apply Nat.eqb_eq in E; subst; exfalso; apply H; left; reflexivity|].
  rewrite IH; [reflexivity|]. intros Hin. apply H. right. exact Hin.
Qed.

Lemma exec_subst_flat orc o s x m : is_flat x = true -> ~ In o (flat_reads x) ->
  exec_stmt orc (subst_stmt o s x) m = exec_stmt orc x m.
Proof.
  intros Hf Hr. destruct x as [d e|g ef pu ds ar|a out ins fs|a t st fs|a t|a st| |]; try discriminate; cbn [flat_reads] in Hr.
  - cbn [subst_stmt exec_stmt]. f_equal. f_equal. unfold sv_pexp.
    destruct e as [z|v|b v1 v2|c v1 v2|c v1 v2]; cbn [map_pexp eval_pexp pexp_vals] in *; try reflexivity;
      rewrite ?mlook_single; try reflexivity; intros ->; apply Hr; cbn; auto.
  - cbn [subst_stmt exec_stmt]. rewrite (map_sv_id o s ar Hr). reflexivity.
  - cbn [subst_stmt exec_stmt]. rewrite (map_fvs_id o s fs Hr). reflexivity.
  - cbn [subst_stmt exec_stmt]. rewrite (map_fvs_id o s fs Hr). reflexivity.
  - reflexivity.
  - reflexivity.
Qed.

Lemma exec_subst_flat_block orc o s : forall b m,
  forallb is_flat b = true -> forallb (fun x => negb (mem_nat o (flat_reads x))) b = true ->
  exec_block orc (subst_block o s b) m = exec_block orc b m.
Proof.
  induction b as [|x b IH]; intros m Hf Hr; [reflexivity|]. cbn [forallb] in Hf, Hr.
  apply andb_true_iff in Hf as [Hf1 Hf2]. apply andb_true_iff in Hr as [Hr1 Hr2].
  cbn [subst_block map exec_block]. fold (subst_block o s b).
  rewrite exec_subst_flat; [apply IH; assumption|exact Hf1|]. apply negb_true_iff in Hr1. apply mem_nat_false. exact Hr1.
Qed.

Lemma iter_n_ext {A} (f g : nat -> A -> A) : (forall k x, f k x = g k x) -> forall n a, iter_n n f a = iter_n n g a.
Proof. intros H n. induction n as [|n IH]; intros a0; cbn [iter_n]; [reflexivity|]. rewrite IH. apply H. Qed.

(* ---- binding from two source lists ----------------------------------------------------------------------------------- *)
Definition two_ok (F : list val) (t : val * val * val) : Prop :=
  (fst (fst t) = snd t /\ off F (snd t)) \/ In (snd (fst t)) F.

Lemma bind_two' F : forall (ks srcs1 srcs2 : list val) (e1 e2 b1 b2 : envT),
  eagree F e1 e2 -> eagree F b1 b2 ->
  Forall (two_ok F) (combine (combine srcs1 ks) srcs2) ->
  List.length srcs1 = List.length ks -> List.length srcs2 = List.length srcs1 ->
  eagree F (bind_list ks (map e1 srcs1) b1) (bind_list ks (map e2 srcs2) b2).
Proof.
  induction ks as [|k ks IH]; intros srcs1 srcs2 e1 e2 b1 b2 He Hb Hf H1 H2; cbn [bind_list]; [exact Hb|].
  destruct srcs1 as [|s1 srcs1]; [discriminate|]. destruct srcs2 as [|s2 srcs2]; [discriminate|].
  cbn [map bind_list combine] in *. simpl in H1, H2. inversion Hf as [|? ? Hk Hr]; subst. unfold two_ok in Hk. cbn [fst snd] in Hk.
  apply IH; [exact He| |exact Hr|lia|lia].
  intros v Hv. unfold upd. destruct (Nat.eqb v k) eqn:E.
  - apply Nat.eqb_eq in E. subst v. destruct Hk as [[Heq Ho]|Hin]; [subst s2; apply He; exact Ho|contradiction].
  - apply Hb. exact Hv.
Qed.

Lemma two_okb_ok F l : forallb (two_okb F) l = true -> Forall (two_ok F) l.
Proof.
  induction l as [|t l IH]; cbn [forallb]; intros H; constructor.
  - apply andb_true_iff in H as [H _]. unfold two_okb in H. unfold two_ok. apply orb_true_iff in H as [H|H].
    + left. apply andb_true_iff in H as [H1 H2]. apply Nat.eqb_eq in H1. split; [exact H1|apply negb_mem_off; exact H2].
    + right. apply mem_nat_In. exact H.
  - apply IH. apply andb_true_iff in H as [_ H]. exact H.
Qed.

Lemma nodupb_NoDup l : nodupb l = true -> NoDup l.
Proof.
  induction l as [|x l IH]; cbn [nodupb]; intros H; constructor.
  - apply andb_true_iff in H as [H _]. apply negb_true_iff in H. apply mem_nat_false. exact H.
  - apply IH. apply andb_true_iff in H as [_ H]. exact H.
Qed.

Lemma forallb_ltb l n : forallb (fun v => Nat.ltb v n) l = true -> forall v, In v l -> (v < n)%nat.
Proof. rewrite forallb_forall. intros H v Hv. apply Nat.ltb_lt. apply H. exact Hv. Qed.

Lemma clone_inputs_shape : forall ins mp nf cs mp' nf',
  all_spure ins = true -> clone_inputs mp nf ins = (cs, mp', nf') -> all_spure cs = true /\ (nf <= nf')%nat.
Proof.
  induction ins as [|x ins IH]; intros mp nf cs mp' nf' Hp H.
  - cbn in H. inversion H; subst. split; [reflexivity|lia].
  - cbn [all_spure forallb] in Hp. apply andb_true_iff in Hp as [H1 H2]. destruct x; try discriminate.
    cbn [clone_inputs] in H. destruct (clone_inputs ((dst, nf) :: mp) (S nf) ins) as [[c0 m0] n0] eqn:E.
    inversion H; subst. destruct (IH _ _ _ _ _ H2 E) as [Ha Hb]. split; [cbn; exact Ha|lia].
Qed.

(* ---- the prologue establishes the invariant for k = 0 --------------------------------------------------------------------- *)
Section Prologue.
Variable orc : oracle.
Variable F : list val.
Variable a : acc.
Variables iv sp lb : val.
Variables bargs inits inits' : list val.
Variable ins : list stmt.
Variables o s_in : val.
Variable fs : list (field * val).
Variable nf : nat.
Variable pro : list stmt.
Variables st_pro nf1 : val.

Let fields := map fst fs.
Let X := ops_of ins ++ map snd fs.
Let deps := iv :: bargs.

Hypothesis Hins : all_spure ins = true.
Hypothesis Hpro : clone_scoped deps (lb :: inits) nf ins a s_in fs = (pro, st_pro, nf1).
Hypothesis HXoff : forall v, In v X -> off F v.
Hypothesis HXlt : forall v, In v X -> (v < nf)%nat.
Hypothesis Hlblt : (lb < nf)%nat.
Hypothesis Hinlt : forall v, In v inits -> (v < nf)%nat.
Hypothesis Hfresh : forall x, (nf <= x < nf1)%nat -> In x F.
Hypothesis Hivb : ~ In iv bargs.
Hypothesis Hspb : off F sp /\ ~ In sp bargs.
Hypothesis Hlb : off F lb.
Hypothesis Hlen : List.length inits = List.length bargs.
Hypothesis Hnd : NoDup bargs.
Hypothesis Hin2 : Forall (two_ok F) (combine (combine inits bargs) inits').
Hypothesis Hin2_len : List.length inits' = List.length inits.
Hypothesis Hdep_int : forall j b i, nth_error bargs j = Some b -> nth_error inits j = Some i -> In b X -> off F i.

Lemma prologue_inv m1 m2 :
  Rel F a [] m1 m2 ->
  let m2p := exec_block orc pro m2 in
  let l := env m2p lb in let s := env m2p sp in
  Inv orc F a iv sp ins o s_in fs l s 0%nat
      (set_env m1 (bind_list bargs (map (env m1) inits) (env m1)))
      (set_env m2p (bind_list bargs (map (env m2p) inits') (env m2p)))
  /\ eagree F (env m1) (env m2p).
Proof.
  intros HR m2p l s.
  pose proof Hpro as Hcl. unfold clone_scoped in Hcl.
  destruct (clone_inputs (combine deps (lb :: inits)) nf ins) as [[cs mp] nf'] eqn:Hci.
  inversion Hcl as [[He1 He2 He3]]. clear Hcl.
  set (M1 := set_env m1 (bind_list bargs (map (env m1) inits) (env m1))).
  set (m1h := head iv l s 0%nat M1).
  destruct HR as (Her & Hrr & Hkr & Hnr & Htr).
  assert (Hframe : forall cs0 mp0 nf0, clone_inputs (combine deps (lb :: inits)) nf ins = (cs0, mp0, nf0) ->
            forall x, (x < nf \/ nf0 <= x)%nat -> exec_pures cs0 (env m2) x = env m2 x).
  { intros cs0 mp0 nf0 H x Hx. apply (clone_inputs_frame ins _ _ _ _ _ Hins H). exact Hx. }
  assert (Hm2p : m2p = exec_stmt orc (SSetup a nf' (Some (mlook mp s_in)) (map (fun fv : field * val => (fst fv, mlook mp (snd fv))) fs))
                         (set_env m2 (exec_pures cs (env m2)))).
  { unfold m2p. rewrite <- He1.
    assert (Hc4 : all_spure cs = true) by exact (proj1 (clone_inputs_shape _ _ _ _ _ _ Hins Hci)).
    rewrite exec_block_app, (exec_pures_block orc cs m2 Hc4). reflexivity. }
  assert (Hnf' : (nf <= nf')%nat) by exact (proj2 (clone_inputs_shape _ _ _ _ _ _ Hins Hci)).
  assert (Hee : eagree F (env m1) (env m2p)).
  { intros x Hx. rewrite Hm2p. cbn [exec_stmt exec_setup env set_env].
    assert (Hr : (x < nf \/ S nf' <= x)%nat).
    { destruct (Nat.lt_ge_cases x nf) as [H|H]; [left; exact H|]. destruct (Nat.lt_ge_cases x (S nf')) as [H'|H']; [|right; exact H'].
      exfalso. apply Hx. apply Hfresh. rewrite <- He3. lia. }
    rewrite (Hframe _ _ _ Hci) by lia. apply Her. exact Hx. }
  assert (Hl : l = env m1 lb) by (unfold l; symmetry; apply Hee; exact Hlb).
  assert (Hcorr : corr (combine deps (lb :: inits)) (env m1h) (env m2) X).
  { intros v Hv. unfold deps. cbn [combine mlook]. destruct (Nat.eqb iv v) eqn:E.
    - apply Nat.eqb_eq in E. subst v. unfold m1h, head. cbn [env set_env]. rewrite upd_same.
      rewrite Hl. replace (env m1 lb + Z.of_nat 0 * s) with (env m1 lb) by lia. symmetry. apply Her. exact Hlb.
    - assert (Hne : v <> iv) by (intros ->; rewrite Nat.eqb_refl in E; discriminate).
      unfold m1h, head, M1. cbn [env set_env]. rewrite upd_other by exact Hne.
      destruct (in_dec Nat.eq_dec v bargs) as [Hin|Hnin].
      + destruct (mlook_combine_in bargs inits v Hin Hlen Hnd) as (j & y & H1 & H2 & H3). rewrite H3.
        rewrite (bind_list_nth bargs inits (env m1) (env m1) j v y Hnd Hlen H1 H2).
        symmetry. apply Her. apply (Hdep_int j v y H1 H2 Hv).
      + rewrite (mlook_combine_notin bargs inits v Hnin). rewrite bind_list_other by exact Hnin.
        symmetry. apply Her. apply HXoff. exact Hv. }
  assert (Hlt : forall v, In v X -> (mlook (combine deps (lb :: inits)) v < nf)%nat).
  { intros v Hv. unfold deps. cbn [combine mlook]. destruct (Nat.eqb iv v); [exact Hlblt|].
    destruct (in_dec Nat.eq_dec v bargs) as [Hin|Hnin].
    - destruct (mlook_combine_in bargs inits v Hin Hlen Hnd) as (j & y & H1 & H2 & H3). rewrite H3.
      apply Hinlt. eapply nth_error_In. exact H2.
    - rewrite (mlook_combine_notin bargs inits v Hnin). apply HXlt. exact Hv. }
  assert (HiX1 : incl (ops_of ins) X) by (intros v Hv; apply in_or_app; left; exact Hv).
  assert (HiX2 : incl (map snd fs) X) by (intros v Hv; apply in_or_app; right; exact Hv).
  assert (Hpro0 : clone_scoped deps (lb :: inits) nf ins a s_in fs =
                  (cs ++ [SSetup a nf' (Some (mlook mp s_in)) (map (fun fv : field * val => (fst fv, mlook mp (snd fv))) fs)], nf', S nf')).
  { unfold clone_scoped. rewrite Hci. reflexivity. }
  assert (Hregs_e : forall f, In f fields ->
            regs m2p a f = regs (exec_block orc (ins ++ [SSetup a o (Some s_in) fs]) m1h) a f).
  { intros f Hf. unfold m2p. rewrite <- He1.
    apply (clone_scoped_correct orc deps (lb :: inits) nf ins a o s_in fs _ nf' (S nf') m1h m2 X
             Hins Hpro0 HiX1 HiX2 Hlt Hcorr f). right. exact Hf. }
  split; [|exact Hee].
  unfold Inv. split; [|split; [|split]].
  - unfold Rel. cbn [env regs known ncalls tr set_env]. split; [|split; [|split; [|split]]].
    + apply bind_two'; [exact Hee|exact Hee|exact Hin2|exact Hlen|exact Hin2_len].
    + intros b f Hne. rewrite Hm2p. cbn [exec_stmt exec_setup regs set_env].
      unfold upd. destruct (Nat.eqb b a) eqn:E.
      * apply Nat.eqb_eq in E. subst b. rewrite write_fields_spec.
        destruct (last_binding f _) as [w|] eqn:El.
        -- exfalso. apply Hne. split; [reflexivity|]. apply last_binding_fst in El. rewrite map_map in El. exact El.
        -- apply Hrr. intros [_ []].
      * apply Hrr. intros [_ []].
    + intros b f Hf. rewrite Hm2p. cbn [exec_stmt exec_setup known set_env].
      unfold upd. destruct (Nat.eqb b a) eqn:E.
      * apply Nat.eqb_eq in E. subst b. apply In_add_known'. apply Hkr. exact Hf.
      * apply Hkr. exact Hf.
    + rewrite Hm2p. cbn [exec_stmt exec_setup ncalls set_env]. exact Hnr.
    + rewrite Hm2p. cbn [exec_stmt exec_setup tr set_env]. exact Htr.
  - cbn [env set_env]. destruct Hspb as (Hso & Hsb). rewrite bind_list_other by exact Hsb. reflexivity.
  - intros f Hf. cbn [regs set_env]. apply Hregs_e. exact Hf.
  - intros f Hf. cbn [known set_env]. rewrite Hm2p. cbn [exec_stmt exec_setup known set_env]. rewrite upd_same.
    apply add_known_has. rewrite map_map. exact Hf.
Qed.
End Prologue.

(* ---- the rule ---------------------------------------------------------------------------------------------------------- *)
Lemma iters1_args iters idx st : map it_arg (iters1_of iters idx st) = map it_arg iters.
Proof.
  unfold iters1_of. generalize 0%nat. induction iters as [|x iters IH]; intros n; [reflexivity|].
  cbn [List.length seq combine map fst snd]. rewrite IH. destruct (Nat.eqb n idx); reflexivity.
Qed.
Lemma iters1_len iters idx st : List.length (map it_init (iters1_of iters idx st)) = List.length (map it_init iters).
Proof. rewrite !map_length. unfold iters1_of. rewrite map_length, combine_length, seq_length. lia. Qed.

Lemma ops_ofb_eq l : ops_ofb l = ops_of l.
Proof. reflexivity. Qed.

Lemma pair_nth {A B} (P : A * B -> bool) : forall (l1 : list A) (l2 : list B) j x y,
  forallb P (combine l1 l2) = true -> nth_error l1 j = Some x -> nth_error l2 j = Some y -> P (x, y) = true.
Proof.
  induction l1 as [|a l1 IH]; intros l2 j x y H H1 H2; [destruct j; discriminate|].
  destruct l2 as [|b l2]; [destruct j; discriminate|]. cbn [combine forallb] in H. apply andb_true_iff in H as [Ha Hb].
  destruct j as [|j]; cbn [nth_error] in H1, H2.
  - inversion H1; inversion H2; subst. exact Ha.
  - apply (IH l2 j x y Hb H1 H2).
Qed.

Lemma block_reads_off_forallb F : forall b, forallb (reads_offb F) b = true -> block_reads_off F b.
Proof.
  induction b as [|x b IH]; intros H; [constructor|]. cbn [forallb] in H. apply andb_true_iff in H as [H1 H2].
  split; [apply reads_offb_sound; exact H1|apply IH; exact H2].
Qed.

Lemma set_nth_length {A} (x : A) : forall l i, List.length (set_nth i x l) = List.length l.
Proof. induction l as [|y l IH]; intros [|i]; cbn; try reflexivity. rewrite IH. reflexivity. Qed.

Lemma clone_scoped_bounds deps news nf ins a s fs blk st nf2 :
  all_spure ins = true -> clone_scoped deps news nf ins a s fs = (blk, st, nf2) -> (nf <= st)%nat /\ nf2 = S st.
Proof.
  intros Hp. unfold clone_scoped. destruct (clone_inputs (combine deps news) nf ins) as [[cs mp] nf'] eqn:E.
  intros H. inversion H; subst. split; [exact (proj2 (clone_inputs_shape _ _ _ _ _ _ Hp E))|reflexivity].
Qed.

Theorem loop_stmt_rel orc F whole o nf s pl pro s' :
  loop_plan whole o nf s = Some pl -> build_loop o s pl = Some (pro, s') -> loop_side_ok F o nf s pl = true ->
  forall m1 m2, Rel F (lp_a pl) [] m1 m2 ->
  Rel F (lp_a pl) (map fst (lp_fs pl)) (exec_stmt orc s m1) (exec_block orc (pro ++ [s']) m2).
Proof.
  intros Hplan Hbuild Hside m1 m2 HR.
  destruct s as [| | | | | |iv lb ub sp iters rs body ys|]; try discriminate.
  destruct (loop_plan_spec _ _ _ _ _ _ _ _ _ _ _ _ Hplan) as (Hfind & Hc1 & Hc2 & Hidx).
  cbn [build_loop] in Hbuild. inversion Hbuild; subst pro s'. clear Hbuild.
  set (k := lp_k pl) in *. set (a := lp_a pl) in *. set (s_in := lp_sin pl) in *. set (fs := lp_fs pl) in *.
  set (nf1 := lp_nf1 pl) in *. set (epi := lp_epi pl) in *.
  set (ins := firstn k body). set (rest := skipn (S k) body).
  set (bargs := map it_arg iters). set (inits := map it_init iters).
  cbn [loop_side_ok] in Hside. fold k a fs nf1 epi ins rest bargs inits in Hside.
  repeat match type of Hside with (_ && _) = true => let H := fresh "C" in apply andb_true_iff in Hside as [Hside H] end.
  rename Hside into Cin. rename C28 into Ck. rename C27 into Cpure. rename C25 into Cob. rename C21 into CX.
  rename C18 into Cfresh. rename C2 into Cdy. rename C1 into Cdi.
  apply (list_eqb_eq Nat.eqb Nat.eqb_eq) in Cin. apply Nat.leb_le in Ck.
  destruct (find_setup_split o body 0%nat k a s_in fs Hfind) as [_ Hbody]. rewrite Nat.sub_0_r in Hbody.
  fold ins rest in Hbody.
  assert (Hins_eq : nth_stmts body (lp_inputs pl) = ins).
  { rewrite Cin. apply (nth_stmts_seq body [] k Ck). }
  rewrite Hins_eq in Hc1, Hc2. fold bargs inits in Hc1, Hc2.
  assert (Hins : all_spure ins = true).
  { unfold all_spure. rewrite forallb_forall in *. intros x Hx. specialize (Cpure x Hx). destruct x; try discriminate; reflexivity. }
  set (X := ops_of ins ++ map snd fs).
  assert (HXoff : forall v, In v X -> off F v).
  { intros v Hv. pose proof (noneb_off _ _ CX) as Hf. rewrite Forall_forall in Hf. apply Hf. exact Hv. }
  pose proof (forallb_ltb _ _ C20) as HXlt. pose proof (forallb_ltb _ _ C19) as Hyslt. pose proof (forallb_ltb _ _ C17) as Hlilt.
  assert (Hfresh : forall x, (nf <= x < lp_nfe pl)%nat -> In x F).
  { intros x Hx. rewrite forallb_forall in Cfresh. apply mem_nat_In. apply Cfresh. apply in_seq. lia. }
  (* shapes of the two clones *)
  destruct (clone_scoped_bounds _ _ _ _ _ _ _ _ _ _ Hins Hc1) as [Hb1 Hb1'].
  destruct (clone_scoped_bounds _ _ _ _ _ _ _ _ _ _ Hins Hc2) as [Hb2 Hb2'].
  assert (Hnf_le : (nf <= nf1)%nat) by (rewrite Hb1'; lia).
  assert (Hnfe_le : (S nf1 <= lp_nfe pl)%nat) by (rewrite Hb2'; lia).
  apply negb_true_iff in C24. apply Nat.eqb_neq in C24. apply negb_true_iff in C23. apply Nat.eqb_neq in C23.
  apply negb_true_iff in C10. apply Nat.eqb_neq in C10.
  apply negb_mem_off in C16. apply negb_mem_off in C15. apply negb_mem_off in C14.
  apply negb_mem_off in C13. apply negb_mem_off in C12. apply negb_mem_off in C11.
  apply negb_mem_off in C9. apply negb_mem_off in C8.
  apply nodupb_NoDup in C6. rename C6 into Hnd. apply Nat.eqb_eq in C7. rename C7 into Hlen.
  apply block_reads_off_forallb in C22. rename C22 into Hrest_ro.
  apply two_okb_ok in C5. rename C5 into Hys2. apply two_okb_ok in C4. rename C4 into Hin2.
  apply forallb_bind_ok in C3. rename C3 into Hrs.
  assert (Hdep_y : forall j b y, nth_error bargs j = Some b -> nth_error ys j = Some y -> In b X -> off F y).
  { intros j b y H1 H2 Hb. pose proof (pair_nth _ _ _ j b y Cdy H1 H2) as Hp. cbn [fst snd] in Hp.
    apply orb_true_iff in Hp as [Hp|Hp]; [|apply negb_mem_off; exact Hp].
    apply negb_true_iff in Hp. apply mem_nat_false in Hp. contradiction. }
  assert (Hdep_i : forall j b i, nth_error bargs j = Some b -> nth_error inits j = Some i -> In b X -> off F i).
  { intros j b i H1 H2 Hb. pose proof (pair_nth _ _ _ j b i Cdi H1 H2) as Hp. cbn [fst snd] in Hp.
    apply orb_true_iff in Hp as [Hp|Hp]; [|apply negb_mem_off; exact Hp].
    apply negb_true_iff in Hp. apply mem_nat_false in Hp. contradiction. }
  (* execute *)
  rewrite exec_block_app. cbn [exec_block]. rewrite !exec_stmt_for. unfold exec_for.
  rewrite iters1_args. fold bargs.
  set (m2p := exec_block orc (lp_pro pl) m2).
  set (inits' := map it_init (iters1_of iters (lp_idx pl) (lp_stpro pl))).
  rewrite <- !(map_map it_init). fold inits inits'.
  assert (HXlt' : forall v, In v X -> (v < nf)%nat) by (intros v Hv; apply HXlt; rewrite ops_ofb_eq; exact Hv).
  assert (Hlblt' : (lb < nf)%nat) by (apply Hlilt; left; reflexivity).
  assert (Hinlt' : forall v, In v inits -> (v < nf)%nat) by (intros v Hv; apply Hlilt; right; exact Hv).
  assert (Hfresh' : forall x, (nf <= x < nf1)%nat -> In x F) by (intros x Hx; apply Hfresh; lia).
  assert (Hlen_i : List.length inits = List.length bargs) by (unfold inits, bargs; rewrite !map_length; reflexivity).
  assert (Hin2_len : List.length inits' = List.length inits) by apply iters1_len.
  pose proof (prologue_inv orc F a iv sp lb bargs inits inits' ins o s_in fs nf (lp_pro pl) (lp_stpro pl) nf1
                Hins Hc1 HXoff HXlt' Hlblt' Hinlt' Hfresh' (conj C13 C11) C9 Hlen_i Hnd Hin2 Hin2_len Hdep_i m1 m2 HR)
    as [Hinv0 Hee].
  { fold m2p in Hinv0, Hee.
    assert (Hl : env m1 lb = env m2p lb) by (apply Hee; assumption).
    assert (Hu : env m1 ub = env m2p ub) by (apply Hee; assumption).
    assert (Hs : env m1 sp = env m2p sp) by (apply Hee; assumption).
    rewrite Hl, Hu, Hs.
    set (l := env m2p lb) in *. set (st := env m2p sp) in *.
    set (n := trip_count l (env m2p ub) st).
    set (ys' := map (sv o s_in) (set_nth (lp_idx pl) (lp_stepi pl) ys)).
    (* bodies *)
    assert (Hbm : forall m, exec_block orc (subst_block o s_in (ins ++ rest ++ [SPure nf1 (PBin BAdd iv sp)] ++ epi)) m
                            = exec_block orc (body' iv sp ins rest nf1 epi) m).
    { intros m. unfold body'. rewrite exec_subst_flat_block; [reflexivity| |].
      - rewrite !forallb_app. cbn [forallb is_flat andb].
        assert (forallb is_flat ins = true).
        { rewrite forallb_forall in *. intros x Hx. specialize (Cpure x Hx). destruct x; try discriminate; reflexivity. }
        repeat (apply andb_true_iff; split); assumption.
      - rewrite Hbody in Cob. rewrite forallb_app in Cob. apply andb_true_iff in Cob as [Cob1 Cob2].
        cbn [forallb] in Cob2. apply andb_true_iff in Cob2 as [_ Cob2].
        rewrite !forallb_app. cbn [forallb flat_reads pexp_vals mem_nat existsb].
        assert (Hiv' : Nat.eqb o iv = false) by (apply Nat.eqb_neq; assumption).
        assert (Hsp' : Nat.eqb o sp = false) by (apply Nat.eqb_neq; assumption).
        rewrite Hiv', Hsp'. cbn [orb negb andb].
        repeat (apply andb_true_iff; split); assumption. }
    assert (Hit : forall M, iter_n n (for_step (exec_block orc (subst_block o s_in (ins ++ rest ++ [SPure nf1 (PBin BAdd iv sp)] ++ epi))) iv bargs ys' l st) M
                          = iter_n n (for_step (exec_block orc (body' iv sp ins rest nf1 epi)) iv bargs ys' l st) M).
    { intros M. apply iter_n_ext. intros k0 x. unfold for_step. rewrite !Hbm. reflexivity. }
    fold ins rest. rewrite Hit.
    assert (Hfb : exec_block orc body = exec_block orc (C06LoopInsideProofs.body a ins o s_in fs rest)) by (f_equal; exact Hbody).
    rewrite Hfb.
    pose proof (loop_inside orc F a iv sp bargs ins o s_in fs rest rest ys ys' nf1 epi (lp_stepi pl) (lp_nfe pl)
                  Hins Hc2 (fun m => eq_refl) Hrest_ro HXoff) as Hli.
    assert (Hinvn : Inv orc F a iv sp ins o s_in fs l st n
              (iter_n n (for_step (exec_block orc (C06LoopInsideProofs.body a ins o s_in fs rest)) iv bargs ys l st)
                        (set_env m1 (bind_list bargs (map (env m1) inits) (env m1))))
              (iter_n n (for_step (exec_block orc (body' iv sp ins rest nf1 epi)) iv bargs ys' l st)
                        (set_env m2p (bind_list bargs (map (env m2p) inits') (env m2p))))).
    { apply Hli; try assumption.
      - intros v Hv. assert (v < nf)%nat by (apply HXlt; rewrite ops_ofb_eq; exact Hv). lia.
      - intros v Hv. specialize (Hyslt v Hv). lia.
      - intros x Hx. apply Hfresh. lia.
      - repeat split; assumption.
      - repeat split; assumption.
      - unfold ys'. rewrite map_length, set_nth_length. reflexivity. }
    destruct Hinvn as (HRn & _). pose proof HRn as (Hen & _).
    apply Rel_set_env; [exact HRn|]. apply bind_list_agree; [exact Hen|exact Hen|exact Hrs]. }
Qed.

(* ---- program level (the loop directly in the function body) ----------------------------------------------------------- *)
Require Import Snax.Proofs.C06LoopProofs.

Lemma build_loop_some whole o nf x pl : loop_plan whole o nf x = Some pl -> exists pro x', build_loop o x pl = Some (pro, x').
Proof. destruct x; try discriminate. intros _. cbn [build_loop]. eexists. eexists. reflexivity. Qed.

Lemma split_loop_spec whole o nf : forall b pre x post pl,
  split_loop whole o nf b = Some (pre, x, post, pl) ->
  b = pre ++ x :: post /\ loop_plan whole o nf x = Some pl
  /\ exists pro x', build_loop o x pl = Some (pro, x') /\ loop_overlap_at whole o nf b = Some (pre ++ pro ++ x' :: post).
Proof.
  induction b as [|y b IH]; intros pre x post pl H; [discriminate|]. cbn [split_loop] in H.
  cbn [loop_overlap_at]. rewrite loop_overlap_for_plan.
  destruct (loop_plan whole o nf y) as [pl0|] eqn:Ep.
  - inversion H; subst. destruct (build_loop_some _ _ _ _ _ Ep) as (pro & x' & Hb).
    split; [reflexivity|]. split; [exact Ep|]. exists pro, x'. split; [exact Hb|]. rewrite Hb. reflexivity.
  - destruct (split_loop whole o nf b) as [[[[pre0 y0] post0] pl0]|] eqn:Es; [|discriminate]. inversion H; subst.
    destruct (IH _ _ _ _ eq_refl) as (Hb & Hp & pro & x' & Hbl & Hov).
    split; [cbn [app]; f_equal; exact Hb|]. split; [exact Hp|]. exists pro, x'. split; [exact Hbl|].
    rewrite Hov. reflexivity.
Qed.

Lemma Rel_refl F a m : Rel F a [] m m.
Proof.
  unfold Rel. repeat split; auto. induction (tr m); constructor; [apply ev_rel_refl|assumption].
Qed.

Theorem loop_overlap_preserves orc p o nf p' args :
  loop_overlap p o nf = Some p' ->
  loop_overlap_side_ok p o nf = true ->
  trace_sim_b (run orc p args) (run orc p' args) = true.
Proof.
  intros Hov Hside. unfold loop_overlap_side_ok in Hside.
  destruct (split_loop (p_body p) o nf (p_body p)) as [[[[pre x] post] pl]|] eqn:Es; [|discriminate].
  destruct (split_loop_spec _ _ _ _ _ _ _ _ Es) as (Hb & Hp & pro & x' & Hbl & Hat).
  apply andb_true_iff in Hside as [Hside Hsafe]. apply andb_true_iff in Hside as [Hside Hpost].
  apply andb_true_iff in Hside as [Hlside Hpre].
  unfold loop_overlap, rw_block in Hov. rewrite Hat in Hov. inversion Hov; subst p'. clear Hov.
  set (F := loop_F p nf pl) in *. set (a := lp_a pl) in *.
  unfold run, final_state. cbn [p_body p_params]. rewrite Hb.
  replace (pre ++ pro ++ x' :: post) with (pre ++ (pro ++ [x']) ++ post) by (rewrite <- !app_assoc; reflexivity).
  rewrite !exec_block_app. cbn [exec_block].
  unfold init_state. cbn [p_params].
  set (m0 := mkSt (bind_list (p_params p) args (fun _ : val => 0)) (o_adv orc 0%nat) (fun _ : acc => []) 1%nat []).
  pose proof (exec_rel_block orc F a [] pre (block_reads_off_forallb F pre Hpre) (or_introl eq_refl) m0 m0 (Rel_refl F a m0)) as H1.
  pose proof (loop_stmt_rel orc F (p_body p) o nf x pl pro x' Hp Hbl Hlside _ _ H1) as H2.
  destruct (after_safe orc F a post (map fst (lp_fs pl)) _ _ Hsafe (block_reads_off_forallb F post Hpost) H2)
    as [fs' (_ & _ & _ & _ & Ht)].
  apply trace_rel_sim_b. apply Forall2_rev.
  rewrite exec_block_app in Ht. cbn [exec_block] in Ht. exact Ht.
Qed.

(* independent of what follows the loop: cut both programs right behind the loop *)
Theorem loop_overlap_inside_rule orc p o nf p' args :
  loop_overlap p o nf = Some p' ->
  loop_inside_side_ok p o nf = true ->
  exists pre x post pro x',
    p_body p = pre ++ x :: post /\ p_body p' = pre ++ pro ++ x' :: post
    /\ loop_overlap_for (p_body p) o nf x = Some (pro, x')
    /\ trace_sim_b (run orc (mkProg (p_params p) (pre ++ [x])) args)
                   (run orc (mkProg (p_params p) (pre ++ pro ++ [x'])) args) = true.
Proof.
  intros Hov Hside. unfold loop_inside_side_ok in Hside.
  destruct (split_loop (p_body p) o nf (p_body p)) as [[[[pre x] post] pl]|] eqn:Es; [|discriminate].
  destruct (split_loop_spec _ _ _ _ _ _ _ _ Es) as (Hb & Hp & pro & x' & Hbl & Hat).
  apply andb_true_iff in Hside as [Hlside Hpre].
  unfold loop_overlap, rw_block in Hov. rewrite Hat in Hov. inversion Hov; subst p'. clear Hov.
  exists pre, x, post, pro, x'. split; [exact Hb|]. split; [reflexivity|]. split.
  { rewrite loop_overlap_for_plan, Hp. exact Hbl. }
  set (F := loop_F p nf pl) in *. set (a := lp_a pl) in *.
  unfold run, final_state. cbn [p_body p_params].
  replace (pre ++ pro ++ [x']) with (pre ++ (pro ++ [x'])) by reflexivity.
  rewrite !(exec_block_app orc pre). cbn [exec_block].
  unfold init_state. cbn [p_params].
  set (m0 := mkSt (bind_list (p_params p) args (fun _ : val => 0)) (o_adv orc 0%nat) (fun _ : acc => []) 1%nat []).
  pose proof (exec_rel_block orc F a [] pre (block_reads_off_forallb F pre Hpre) (or_introl eq_refl) m0 m0 (Rel_refl F a m0)) as H1.
  pose proof (loop_stmt_rel orc F (p_body p) o nf x pl pro x' Hp Hbl Hlside _ _ H1) as (_ & _ & _ & _ & Ht).
  apply trace_rel_sim_b. apply Forall2_rev. exact Ht.
Qed.
