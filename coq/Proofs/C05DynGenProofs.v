(* C05 — the run-time lowering on layouts with DYNAMIC bounds, DYNAMIC steps (TSL contiguity rule or
   strided metadata) and DYNAMIC offsets.  [resolves src .. rs] says that the static layout rs is what
   the emitted memref.dim / extract_strided_metadata / arith ops compute for src at run time
   (Model/TslOps.bound_vals, Model/C05Dyn.step_vals_md, off_val).  The code of lower_dyn then moves every
   element of the resolved layouts, for ANY dynamic layouts, run-time shapes and metadata, provided the
   common block and the value-membership tests do not depend on the dynamic entries (two decidable
   equalities; they exclude class F29, lemma dyn_in_block_off).  Classes F27/F28 are the cases where the
   resolution computed by the code is not the intended contiguous layout; the theorem is about the
   resolution the code computes (rd then self-overlaps and the hypothesis of the Props statement fails). *)
From Coq Require Import Permutation.
From Snax Require Import Base.Prelude Base.ListAux Model.Tsl Model.TslOps Model.C05Copy Model.C05Dyn
  Proofs.TslProofs Proofs.C05MemProofs Proofs.C05DigitProofs Proofs.C05LccbProofs Proofs.C05CopyProofs
  Proofs.C05MainProofs Proofs.C05DynProofs Proofs.C05DynCopyProofs.

Record resolves (l : layout) (rshape : list Z) (el : Z) (md : rtmd) (fb : list Z) (r : layout) : Prop := {
  rv_steps : step_vals_md l fb el md = map (fun s => sstp s * el) (all_strides r);
  rv_off : off_val l md = offset r
}.

Section DynGen.
  Variables (src dst rs rd : layout) (el so do_ : Z) (rshape : list Z) (smd dmd : rtmd).
  Hypothesis Hrs : layout_ok rs.
  Hypothesis Hrd : layout_ok rd.
  Hypothesis Hetb : equal_tile_bounds rs rd = true.
  Hypothesis Hsafe : safe_lccb rs rd = true.
  Hypothesis Hel : 0 < el.
  Hypothesis Hrank : rshape <> [].
  Hypothesis Hbv : bound_vals (tstrides src) rshape = Some (map (map sbnd) (tstrides rs)).
  Hypothesis Hres_s : resolves src rshape el smd (map sbnd (all_strides rs)) rs.
  Hypothesis Hres_d : resolves dst rshape el dmd (map sbnd (all_strides rs)) rd.
  Hypothesis Hso : offset rs = Some so.
  Hypothesis Hdo : offset rd = Some do_.
  Hypothesis Hlen : length (all_strides src) = length (all_strides dst).
  Hypothesis Hshape : rshape = shape_of rs.
  Hypothesis Hlcb : lccb src dst 1 = lccb rs rd 1.
  Hypothesis Hval : map (fun s => value_in s (lccb rs rd 1)) (all_strides src) =
                    map (fun s => value_in s (lccb rs rd 1)) (all_strides rs).

  Let R := RR rs rd.
  Let C := CC rs rd.
  Let U := UU rs rd.
  Let E := EE rs rd.

  Lemma gen_vals : exists R', Permutation R R' /\
    lower_dyn src dst el rshape smd dmd =
    code_of_vals el so do_ (zprod rshape * el) (lccb rs rd 1) (map (hv el) R').
  Proof.
    assert (Ho1 : off_val src smd = Some so) by (rewrite (rv_off _ _ _ _ _ _ Hres_s); exact Hso).
    assert (Ho2 : off_val dst dmd = Some do_) by (rewrite (rv_off _ _ _ _ _ _ Hres_d); exact Hdo).
    assert (Ew : lower_dyn src dst el rshape smd dmd = lower_dyn_body src dst el rshape smd dmd).
    { unfold lower_dyn. destruct rshape; [elim Hrank; reflexivity|reflexivity]. }
    rewrite Ew.
    rewrite (lower_dyn_unfold src dst el rshape smd dmd so do_ _ Ho1 Ho2 Hbv Hlen).
    assert (Hfb : concat (map (map sbnd) (tstrides rs)) = map sbnd (all_strides rs))
      by (unfold all_strides; rewrite concat_map; reflexivity).
    rewrite Hfb, (rv_steps _ _ _ _ _ _ Hres_s), (rv_steps _ _ _ _ _ _ Hres_d), Hlcb.
    set (lcb := lccb rs rd 1). set (P := combine (all_strides rs) (all_strides rd)).
    pose proof (equal_tile_bounds_keys rs rd Hetb) as Hk.
    assert (Hlr : length (all_strides rs) = length (all_strides rd)).
    { rewrite <- !map_snd_entries, !map_length. rewrite <- (map_length fst (entries rs)), Hk, map_length. reflexivity. }
    assert (HP1 : map fst P = all_strides rs) by (apply map_fst_combine; exact Hlr).
    assert (HP2 : map snd P = all_strides rd) by (apply map_snd_combine; exact Hlr).
    set (vals := combine (map sbnd (all_strides rs))
                   (combine (map (fun s => sstp s * el) (all_strides rs)) (map (fun s => sstp s * el) (all_strides rd)))).
    assert (Hm : map snd (remaining_dyn lcb (all_strides src) vals) = map (hv el) (map tri_of (rem_list rs rd))).
    { rewrite (remaining_dyn_flags lcb _ _ vals Hval). unfold vals. rewrite <- HP1, <- HP2.
      rewrite (remaining_dyn_map' lcb el P). fold lcb. rewrite (rem_list_filter rs rd). fold lcb P.
      rewrite !map_map. apply map_ext_in. intros p Hp. apply filter_In in Hp as [Hp _].
      apply pair_ok_vals. unfold P in Hp.
      split.
      - apply (proj1 (Forall_forall _ _) (proj1 (layout_okb_ok rs) (proj2 (layout_okb_ok rs) Hrs))) || idtac.
        assert (Hin : In (fst p) (all_strides rs)) by (destruct p; apply (in_combine_l _ _ _ _ Hp)).
        unfold all_strides in Hin. apply in_concat in Hin as [t [Ht Hs]].
        apply (proj1 (Forall_forall _ _) (proj1 (Forall_forall _ _) Hrs t Ht) _ Hs).
      - assert (Hin : In (snd p) (all_strides rd)) by (destruct p; apply (in_combine_r _ _ _ _ Hp)).
        unfold all_strides in Hin. apply in_concat in Hin as [t [Ht Hs]].
        apply (proj1 (Forall_forall _ _) (proj1 (Forall_forall _ _) Hrd t Ht) _ Hs). }
    pose proof (Permutation_map snd (sort_desc_d_perm (remaining_dyn lcb (all_strides src) vals))) as HPm.
    rewrite Hm in HPm. apply Permutation_sym in HPm.
    destruct (Permutation_map_inv _ _ HPm) as [R' [ER' HR']].
    exists R'. split.
    - unfold R, RR. apply Permutation_trans with (map tri_of (rem_list rs rd)); [|exact HR'].
      apply Permutation_map, Permutation_sym, sort_desc_perm.
    - rewrite ER'. reflexivity.
  Qed.

  (* bursts of the code, enumerated by the digit vectors of R' *)
  Lemma gen_bursts : exists code R', lower_dyn src dst el rshape smd dmd = Some code /\ Permutation R R' /\
    forall ps pd b, In b (bursts ps pd code []) <->
      exists ds, valid ds R' /\
        b = (ps + el * (so + dotS R' ds), pd + el * (do_ + dotT R' ds), bprod C * el).
  Proof.
    destruct gen_vals as [R' [HP Hc]]. rewrite Hc.
    pose proof (shape_prod rs rd Hrs Hrd Hetb Hsafe) as Hsp. rewrite <- Hshape in Hsp. fold R C in Hsp.
    destruct R' as [|th T]; cbn [map code_of_vals].
    - eexists. exists []. split; [reflexivity|]. split; [exact HP|]. intros ps pd b.
      apply Permutation_sym, Permutation_nil in HP. rewrite HP in Hsp. change (bprod []) with 1 in Hsp.
      cbn [bursts In]. unfold aeval. cbn [fst snd dot]. rewrite Hsp. split.
      + intros [<-|[]]. exists []. split; [constructor|]. cbn [dotS dotT].
        apply f_equal2; [apply f_equal2; ring|ring].
      + intros [ds [Hv ->]]. assert (Eds : ds = []) by (inversion Hv; reflexivity). rewrite Eds. left. cbn [dotS dotT].
        apply f_equal2; [apply f_equal2; ring|ring].
    - unfold hv at 1. destruct (block_size rs rd Hrs) as [ls [lb [El Eb]]]. rewrite El.
      eexists. exists (th :: T). split; [reflexivity|]. split; [exact HP|]. intros ps pd b.
      rewrite !map_map. unfold hv. cbn [fst snd]. fold C in Eb. rewrite Eb. apply bursts_nest2.
  Qed.

  Theorem copy_dynamic_general_sec : exists code, lower_dyn src dst el rshape smd dmd = Some code /\
    forall ps pd, inj_on rd (shape_of rs) -> disjoint_footprints rs rd el ps pd (shape_of rs) ->
    forall m idx k, In idx (row_major (shape_of rs)) -> 0 <= k < el ->
      run ps pd code m (pd + elem_addr rd el idx + k) = m (ps + elem_addr rs el idx + k).
  Proof.
    destruct gen_bursts as [code [R' [Hc [HP Hbs]]]]. exists code. split; [exact Hc|].
    intros ps pd Hinj Hdisj m idx k Hidx Hk. unfold run. rewrite exec_run_bursts.
    destruct (idx_digits rs rd Hrs Hrd Hetb idx Hidx) as [Hv [ES ET]].
    pose proof Hso as HsoR. pose proof Hdo as HdoR.
    assert (HPE : Permutation E (R' ++ C ++ U)).
    { apply Permutation_trans with (R ++ C ++ U); [apply (partition_perm rs rd Hrs Hetb)|].
      apply Permutation_app_tail. exact HP. }
    pose proof (abstract_copy_correct E R' C U el so do_ ps pd (bursts ps pd code [])
                  HPE (CC_chain rs rd Hrs) (UU_unit rs rd Hrs Hrd Hsafe) Hel
                  (abs_inj rs rd Hrs Hrd Hetb Hinj)
                  (abs_disj rs rd el so do_ Hrs Hrd Hetb HsoR HdoR ps pd Hdisj)
                  (Hbs ps pd) m (digits (tstrides rs) idx) k Hv Hk) as H.
    unfold SA, DA in H. fold E in ES, ET. rewrite ES, ET in H.
    rewrite (elem_addr_src rs el so HsoR), (elem_addr_dst rd el do_ HdoR). exact H.
  Qed.
End DynGen.

(* the block-agreement hypothesis excludes class F29 *)
Lemma lccb_static_steps a b : layout_ok a -> existsb step_dynamic (lccb a b 1) = false.
Proof.
  intros Hok. rewrite lccb_lccb_pos. destruct (lccb_pos_spec a b Hok) as [_ [_ Hall]].
  destruct (lccb_pos a b 1) as [|e r] eqn:Eb; [reflexivity|]. rewrite <- Eb in *.
  apply not_true_is_false. intros H. apply existsb_exists in H as [s [Hs Hd]].
  apply in_map_iff in Hs as [x [<- Hx]]. apply (proj1 (Forall_forall _ _) Hall) in Hx as [Hin _].
  destruct (proj1 (Forall_forall _ _) (entries_ok a Hok) x Hin) as [st [bd [E _]]].
  rewrite E in Hd. discriminate.
Qed.

Lemma dyn_in_block_off src dst rs rd : layout_ok rs -> lccb src dst 1 = lccb rs rd 1 -> dyn_in_block src dst = false.
Proof. intros Hok H. unfold dyn_in_block. rewrite H. apply lccb_static_steps, Hok. Qed.
