(* C01 — PullSetupOpsOutOfLoops preserves what every launch observes on programs in full-field form.

   In a full-field program every launch is immediately preceded by a setup of its accelerator that
   writes the accelerator's whole field set FF.  Hence the registers of an accelerator may differ
   ARBITRARILY between two runs at any other program point: the next launch only observes what its
   own setup writes.  The simulation relation [W a] therefore leaves the registers of the
   accelerator a whose setup is hoisted unconstrained, and launch events are compared on FF
   ([trace_FF], transitive, implied by trace_strong; it implies the property's trace_sim_b because
   the fields a run of a [within_block] program knows are in FF — [known_in_FF]). *)
From Snax Require Import Base.Prelude Model.AccIR Model.AccSem Model.AccInfer Model.AccDedup Model.AccWeave Model.AccRules
  Proofs.AccSemProofs Proofs.AccInferProofs Proofs.AccDedupProofs Proofs.AccRenameProofs Proofs.AccGhostProofs
  Proofs.AccRulesProofs.

Section Pull.
Variable FF : acc -> list field.

(* ---- events compared on the full field sets ------------------------------------------------------- *)
Definition ev_FF (e e' : event) : Prop :=
  match e, e' with
  | ELaunch a _ rg lv, ELaunch a' _ rg' lv' => a = a' /\ lv = lv' /\ (forall f, In f (FF a) -> rg f = rg' f)
  | EAwait a, EAwait a' => a = a'
  | ECall g n ar, ECall g' n' ar' => g = g' /\ n = n' /\ ar = ar'
  | EReset a, EReset a' => a = a'
  | _, _ => False
  end.
Definition trace_FF (l l' : list event) : Prop := Forall2 ev_FF l l'.

Lemma ev_FF_refl e : ev_FF e e.
Proof. destruct e; simpl; auto. Qed.

Lemma ev_FF_trans e1 e2 e3 : ev_FF e1 e2 -> ev_FF e2 e3 -> ev_FF e1 e3.
Proof.
  destruct e1, e2, e3; simpl; try tauto.
  - intros [-> [-> H1]] [-> [-> H2]]. repeat split. intros f Hf. rewrite (H1 f Hf). apply H2. exact Hf.
  - congruence.
  - intros [-> [-> ->]] [-> [-> ->]]. auto.
  - congruence.
Qed.

Lemma ev_strong_FF e e' : ev_strong e e' -> ev_FF e e'.
Proof.
  destruct e, e'; simpl; try tauto. intros [-> [-> H]]. repeat split. intros f _. apply H.
Qed.

Lemma trace_FF_refl l : trace_FF l l.
Proof. induction l; constructor; [apply ev_FF_refl|assumption]. Qed.

Lemma trace_FF_trans l1 : forall l2 l3, trace_FF l1 l2 -> trace_FF l2 l3 -> trace_FF l1 l3.
Proof.
  induction l1 as [|x l1 IH]; intros l2 l3 H1 H2; inversion H1; subst; inversion H2; subst; constructor.
  - eapply ev_FF_trans; eassumption.
  - eapply IH; eassumption.
Qed.

Lemma trace_strong_FF l : forall l', trace_strong l l' -> trace_FF l l'.
Proof. induction 1; constructor; [apply ev_strong_FF; assumption|assumption]. Qed.

Lemma trace_FF_rev l l' : trace_FF l l' -> trace_FF (rev l) (rev l').
Proof.
  induction 1 as [|x y l l' Hxy H IH]; simpl; [constructor|].
  apply Forall2_app; [exact IH|]. constructor; [exact Hxy|constructor].
Qed.

(* launch events whose known fields are within FF *)
Definition ev_kn (e : event) : Prop :=
  match e with ELaunch a kn _ _ => forall f, In f kn -> In f (FF a) | _ => True end.

Lemma ev_FF_sim e e' : ev_kn e -> ev_FF e e' -> ev_sim_b e e' = true.
Proof.
  destruct e, e'; simpl; try tauto.
  - intros Hk [-> [-> H]]. rewrite Nat.eqb_refl, (list_eqb_refl lv_eqb lv_eqb_refl). simpl.
    apply forallb_forall. intros f Hf. rewrite (H f (Hk f Hf)). apply Z.eqb_refl.
  - intros _ ->. apply Nat.eqb_refl.
  - intros _ [-> [-> ->]]. rewrite !Nat.eqb_refl, (list_eqb_refl Z.eqb Z.eqb_refl). reflexivity.
  - intros _ ->. apply Nat.eqb_refl.
Qed.

Lemma trace_FF_sim l : forall l', Forall ev_kn l -> trace_FF l l' -> trace_sim_b l l' = true.
Proof.
  unfold trace_sim_b. induction l as [|x l IH]; intros l' Hk H; inversion H; subst; simpl; [reflexivity|].
  inversion Hk; subst. rewrite (ev_FF_sim _ _ H3 H2). simpl. apply IH; assumption.
Qed.

(* ---- the fields a run knows are in FF ---------------------------------------------------------------- *)
Section Known.
Variable orc : oracle.

Definition Kinv (m : mstate) : Prop :=
  (forall a f, In f (known m a) -> In f (FF a)) /\ Forall ev_kn (tr m).

Lemma add_known_in fs : forall k f, In f (add_known fs k) -> In f fs \/ In f k.
Proof.
  induction fs as [|g fs IH]; intros k f H; [right; exact H|]. simpl in H. apply IH in H.
  destruct H as [H|H]; [left; right; exact H|].
  destruct (mem_nat g k); [right; exact H|]. destruct H as [->|H]; [left; left; reflexivity|right; exact H].
Qed.

Lemma Kinv_set m e : Kinv m -> Kinv (set_env m e).
Proof. intros H. exact H. Qed.

Lemma within_stmt_for iv lb ub sp its rs body ys :
  within_stmt FF (SFor iv lb ub sp its rs body ys) = within_block FF body.
Proof. reflexivity. Qed.
Lemma within_stmt_if c rs th thy el ely :
  within_stmt FF (SIf c rs th thy el ely) = within_block FF th && within_block FF el.
Proof. reflexivity. Qed.

Lemma Kinv_block : forall b, within_block FF b = true -> forall m, Kinv m -> Kinv (exec_block orc b m).
Proof.
  apply (block_ind2 (fun s => within_stmt FF s = true -> forall m, Kinv m -> Kinv (exec_stmt orc s m))
                    (fun b => within_block FF b = true -> forall m, Kinv m -> Kinv (exec_block orc b m))).
  - intros d e _ m H. exact H.
  - intros g ef pu ds ar _ m [H1 H2]. simpl. unfold exec_call. split; simpl.
    + destruct ef; [intros a f []|exact H1].
    + constructor; [exact Logic.I|exact H2].
  - intros a o i fs Hw m [H1 H2]. simpl in Hw. rewrite forallb_forall in Hw. simpl. unfold exec_setup. split; simpl; [|exact H2].
    intros b f Hin. unfold upd in Hin. destruct (Nat.eqb b a) eqn:E; [|exact (H1 b f Hin)].
    apply Nat.eqb_eq in E. subst b. apply add_known_in in Hin. destruct Hin as [Hin|Hin]; [|exact (H1 a f Hin)].
    apply mem_nat_In. exact (Hw f Hin).
  - intros a k st fs _ m [H1 H2]. simpl. unfold emit. split; simpl; [exact H1|]. constructor; [|exact H2].
    simpl. intros f Hf. exact (H1 a f Hf).
  - intros a k _ m [H1 H2]. simpl. unfold emit. split; simpl; [exact H1|constructor; [exact Logic.I|exact H2]].
  - intros a st _ m [H1 H2]. simpl. unfold emit. split; simpl; [exact H1|constructor; [exact Logic.I|exact H2]].
  - intros iv lb ub sp its rs body ys IH Hw m HK. rewrite within_stmt_for in Hw. rewrite exec_stmt_for. unfold exec_for.
    apply Kinv_set.
    apply (iter_n_inv (fun _ mk => Kinv mk)); [apply Kinv_set; exact HK|].
    intros k mk _ Hk. unfold for_step. apply Kinv_set. apply (IH Hw). apply Kinv_set. exact Hk.
  - intros c rs th thy el ely IHt IHe Hw m HK. rewrite within_stmt_if in Hw. apply andb_true_iff in Hw.
    rewrite exec_stmt_if. unfold exec_if. destruct (env m c =? 0); apply Kinv_set;
      [apply (IHe (proj2 Hw)); exact HK|apply (IHt (proj1 Hw)); exact HK].
  - intros _ m H. exact H.
  - intros s b Hs Hb Hw m HK. simpl in Hw. apply andb_true_iff in Hw. simpl. apply (Hb (proj2 Hw)). apply (Hs (proj1 Hw)). exact HK.
Qed.

Theorem known_in_FF p args : within_block FF (p_body p) = true -> Forall ev_kn (run orc p args).
Proof.
  intros Hw. unfold run, final_state.
  assert (HK : Kinv (exec_block orc (p_body p) (init_state orc p args))).
  { apply Kinv_block; [exact Hw|]. split; [intros a f []|constructor]. }
  apply Forall_rev. exact (proj2 HK).
Qed.
End Known.

(* ---- the simulation: registers of accelerator a unconstrained ---------------------------------------- *)
Section Sim.
Variable orc : oracle.
Variable a : acc.

Definition W (m m' : mstate) : Prop :=
  env m' = env m /\ ncalls m' = ncalls m /\ (forall b f, b <> a -> regs m' b f = regs m b f) /\
  trace_FF (tr m) (tr m').
Definition agreeF (m m' : mstate) : Prop := forall f, In f (FF a) -> regs m' a f = regs m a f.

Lemma W_env m m' : W m m' -> env m' = env m.
Proof. intros H; exact (proj1 H). Qed.
Lemma W_set m m' e : W m m' -> W (set_env m e) (set_env m' e).
Proof. intros [He [Hn [Hr Ht]]]. repeat split; simpl; assumption. Qed.

Lemma ffF_stmt_for prev iv lb ub sp its rs body ys :
  ffF_stmt FF prev (SFor iv lb ub sp its rs body ys) = ffF_block FF None body.
Proof. reflexivity. Qed.
Lemma ffF_stmt_if prev c rs th thy el ely :
  ffF_stmt FF prev (SIf c rs th thy el ely) = ffF_block FF None th && ffF_block FF None el.
Proof. reflexivity. Qed.

Definition Ps (s : stmt) : Prop := forall prev m m', ffF_stmt FF prev s = true -> W m m' ->
  (prevfull FF a prev = true -> agreeF m m') ->
  W (exec_stmt orc s m) (exec_stmt orc s m') /\
  (isfull FF a s = true -> agreeF (exec_stmt orc s m) (exec_stmt orc s m')).
Definition Pb (b : block) : Prop := forall prev m m', ffF_block FF prev b = true -> W m m' ->
  (prevfull FF a prev = true -> agreeF m m') -> W (exec_block orc b m) (exec_block orc b m').

Lemma last_binding_some f fs : In f (map fst fs) -> exists v, last_binding f fs = Some v.
Proof.
  induction fs as [|[g w] fs IH]; intros H; [destruct H|]. rewrite last_binding_cons.
  destruct (last_binding f fs) as [x|] eqn:E; [exists x; reflexivity|].
  simpl in H. destruct H as [->|H]; [rewrite Nat.eqb_refl; exists w; reflexivity|].
  destruct (IH H) as [v Hv]. discriminate.
Qed.

Lemma ff_sim_block : forall b, Pb b.
Proof.
  apply (block_ind2 Ps Pb).
  - intros d e prev m m' _ [He [Hn [Hr Ht]]] _. split; [|discriminate]. simpl. rewrite He. repeat split; simpl; assumption.
  - intros g ef pu ds ar prev m m' _ [He [Hn [Hr Ht]]] _. split; [|discriminate].
    simpl. unfold exec_call. rewrite He, Hn. repeat split; simpl.
    + intros b f Hb. destruct ef; [reflexivity|exact (Hr b f Hb)].
    + constructor; [simpl; auto|exact Ht].
  - intros a' o i fs prev m m' _ [He [Hn [Hr Ht]]] _. split.
    + simpl. unfold exec_setup. repeat split; simpl; try assumption.
      intros b f Hb. unfold upd. destruct (Nat.eqb b a') eqn:E; [|exact (Hr b f Hb)].
      apply Nat.eqb_eq in E. subst b. rewrite He. apply write_fields_ext. intros g. apply Hr. exact Hb.
    + intros Hfull. simpl in Hfull. apply andb_true_iff in Hfull. destruct Hfull as [Ea Hall].
      apply Nat.eqb_eq in Ea. subst a'. rewrite forallb_forall in Hall.
      intros f Hf. simpl. rewrite !upd_same. rewrite !write_fields_spec.
      destruct (last_binding_some f fs (proj1 (mem_nat_In _ _) (Hall f Hf))) as [v Hv]. rewrite Hv, He. reflexivity.
  - intros a' k st fs prev m m' Hff [He [Hn [Hr Ht]]] Hprev. split; [|discriminate].
    simpl in Hff. simpl. unfold emit. repeat split; simpl; try assumption. rewrite He. constructor; [|exact Ht].
    simpl. repeat split. intros f Hf.
    destruct (Nat.eq_dec a' a) as [->|Hne].
    + symmetry. exact (Hprev Hff f Hf).
    + symmetry. exact (Hr a' f Hne).
  - intros a' k prev m m' _ [He [Hn [Hr Ht]]] _. split; [|discriminate]. simpl. unfold emit. repeat split; simpl; try assumption.
    constructor; [apply ev_FF_refl|exact Ht].
  - intros a' st prev m m' _ [He [Hn [Hr Ht]]] _. split; [|discriminate]. simpl. unfold emit. repeat split; simpl; try assumption.
    constructor; [apply ev_FF_refl|exact Ht].
  - intros iv lb ub sp its rs body ys IH prev m m' Hff HW _. split; [|discriminate].
    rewrite ffF_stmt_for in Hff. rewrite !exec_stmt_for.
    apply (rel_for_sim W W_env W_set); [|exact HW]. intros k k' Hk. apply (IH None k k' Hff Hk). discriminate.
  - intros c rs th thy el ely IHt IHe prev m m' Hff HW _. split; [|discriminate].
    rewrite ffF_stmt_if in Hff. apply andb_true_iff in Hff. destruct Hff as [Hft Hfe]. rewrite !exec_stmt_if.
    apply (rel_if_sim W W_env W_set); [| |exact HW].
    + intros k k' Hk. apply (IHt None k k' Hft Hk). discriminate.
    + intros k k' Hk. apply (IHe None k k' Hfe Hk). discriminate.
  - intros prev m m' _ HW _. exact HW.
  - intros s b Hs Hb prev m m' Hff HW Hprev. simpl in Hff. apply andb_true_iff in Hff. destruct Hff as [Hf1 Hf2].
    destruct (Hs prev m m' Hf1 HW Hprev) as [HW1 Hfull]. simpl. apply (Hb (Some s) _ _ Hf2 HW1). exact Hfull.
Qed.

Lemma isfull_agree s m m' : isfull FF a s = true -> W m m' -> agreeF (exec_stmt orc s m) (exec_stmt orc s m').
Proof.
  destruct s as [| |a' o i fs| | | | |]; try discriminate. intros Hfull [He _].
  simpl in Hfull. apply andb_true_iff in Hfull. destruct Hfull as [Ea Hall].
  apply Nat.eqb_eq in Ea. subst a'. rewrite forallb_forall in Hall.
  intros f Hf. simpl. rewrite !upd_same. rewrite !write_fields_spec.
  destruct (last_binding_some f fs (proj1 (mem_nat_In _ _) (Hall f Hf))) as [v Hv]. rewrite Hv, He. reflexivity.
Qed.

Lemma ff_sim_stmt s : Ps s.
Proof.
  intros prev m m' Hff HW Hprev. split.
  - apply (ff_sim_block [s] prev m m'); [simpl; rewrite Hff; reflexivity|exact HW|exact Hprev].
  - intros Hfull. apply isfull_agree; assumption.
Qed.

(* ---- the rewrite, locally ------------------------------------------------------------------------------ *)
Variable G : list val.

Lemma exec_for_inits (eb : mstate -> mstate) iv lb ub sp its its' rs ys m :
  map it_arg its' = map it_arg its ->
  map (fun x => env m (it_init x)) its' = map (fun x => env m (it_init x)) its ->
  exec_for eb iv lb ub sp its' rs ys m = exec_for eb iv lb ub sp its rs ys m.
Proof. intros H1 H2. unfold exec_for. rewrite H1, H2. reflexivity. Qed.

Lemma W_after_setup fs m m' : W m m' -> W m (exec_setup a fs m').
Proof.
  intros [He [Hn [Hr Ht]]]. unfold exec_setup. repeat split; simpl; try assumption.
  intros b f Hb. rewrite upd_other by exact Hb. apply Hr. exact Hb.
Qed.

Lemma pull_g_here_sound n tg : forall b prev b',
  pull_g_here G a n tg b = Some b' -> ffF_block FF prev b = true -> gok_block G b = true ->
  forall m m', W m m' -> (prevfull FF a prev = true -> agreeF m m') -> Zi G m' ->
  W (exec_block orc b m) (exec_block orc b' m').
Proof.
  induction b as [|s b0 IH]; intros prev b' H Hff Hg m m' HW Hprev HZ'; [discriminate|].
  cbn [pull_g_here] in H. cbn [ffF_block] in Hff. apply andb_true_iff in Hff. destruct Hff as [Hf1 Hf2].
  cbn [gok_block] in Hg. apply andb_true_iff in Hg. destruct Hg as [Hg1 Hg2].
  destruct (pull_g_in_loop G a n tg s) as [ss|] eqn:Ep.
  - inversion H; subst b'. clear H.
    destruct s as [| | | | | |iv lb ub sp its rs body ys|]; try discriminate.
    unfold pull_g_in_loop in Ep.
    destruct (find_setup tg body) as [[[pre0 [[[a' o] i] fs0]] post0]|]; [|discriminate].
    destruct i as [barg|]; [|discriminate].
    destruct (init_of_arg barg its) as [init|]; [|discriminate].
    destruct (pull_fields (iv :: map it_arg its ++ block_defs body) (block_setups a' body)) as [|fv fsr] eqn:Efs; [discriminate|].
    destruct (Nat.eqb a' a && isg G init && isg G n) eqn:Eg; [|discriminate].
    inversion Ep; subst ss. clear Ep.
    apply andb_true_iff in Eg. destruct Eg as [Eg Hgn]. apply andb_true_iff in Eg. destruct Eg as [_ Hgi].
    cbn [app exec_block].
    change (exec_stmt orc (SSetup a n (Some init) (fv :: fsr)) m') with (exec_setup a (fv :: fsr) m').
    set (m1' := exec_setup a (fv :: fsr) m').
    assert (HW1 : W m m1') by (apply W_after_setup; exact HW).
    assert (HZ1 : Zi G m1') by exact HZ'.
    rewrite (exec_stmt_for orc iv lb ub sp _ rs body ys m1').
    rewrite exec_for_inits with (its := its).
    + rewrite <- exec_stmt_for.
      apply (ff_sim_block b0 (Some (SFor iv lb ub sp its rs body ys))); [exact Hf2| |discriminate].
      apply (ff_sim_stmt (SFor iv lb ub sp its rs body ys) None m m1'); [rewrite ffF_stmt_for in *; exact Hf1|exact HW1|discriminate].
    + rewrite map_map. reflexivity.
    + rewrite map_map. apply map_ext. intros it. cbn [it_init fst snd].
      apply (read_f init n m1'). unfold I. rewrite (HZ1 init Hgi), (HZ1 n Hgn). reflexivity.
  - destruct (pull_g_here G a n tg b0) as [b0'|] eqn:Eb; [|discriminate]. inversion H; subst b'. clear H.
    cbn [exec_block]. destruct (ff_sim_stmt s prev m m' Hf1 HW Hprev) as [HW1 Hfull].
    apply (IH (Some s) b0' eq_refl Hf2 Hg2 _ _ HW1 Hfull). apply Zi_stmt; assumption.
Qed.

(* ---- in context ------------------------------------------------------------------------------------------ *)
Variable f : block -> option block.
Hypothesis Hf : forall b prev b', f b = Some b' -> ffF_block FF prev b = true -> gok_block G b = true ->
  forall m m', W m m' -> (prevfull FF a prev = true -> agreeF m m') -> Zi G m' ->
  W (exec_block orc b m) (exec_block orc b' m').

Definition bsimW (b b' : block) : Prop :=
  forall m m', W m m' -> Zi G m -> Zi G m' -> W (exec_block orc b m) (exec_block orc b' m').

Lemma ctxW_for_sim (b b' : block) iv lb ub sp its rs ys m m' :
  gok_stmt G (SFor iv lb ub sp its rs b ys) = true -> gok_stmt G (SFor iv lb ub sp its rs b' ys) = true ->
  bsimW b b' -> W m m' -> Zi G m -> Zi G m' ->
  W (exec_for (exec_block orc b) iv lb ub sp its rs ys m) (exec_for (exec_block orc b') iv lb ub sp its rs ys m').
Proof.
  intros Hg Hg' Hb HR HZ HZ'. rewrite gok_stmt_for in Hg, Hg'.
  repeat (apply andb_true_iff in Hg; destruct Hg as [Hg ?]). apply Bool.negb_true_iff in Hg.
  repeat (apply andb_true_iff in Hg'; destruct Hg' as [Hg' ?]).
  destruct (Zi_for G (exec_block orc b) iv lb ub sp its rs ys m Hg H2 H1 H0
              (fun k Hk => Zi_block orc G b H k Hk) HZ) as [HZl _].
  destruct (Zi_for G (exec_block orc b') iv lb ub sp its rs ys m' Hg H2 H1 H0
              (fun k Hk => Zi_block orc G b' H3 k Hk) HZ') as [HZl' _].
  destruct HR as [He [Hr [Hn Ht]]]. unfold exec_for. rewrite He in HZl' |- *.
  set (l := env m lb) in *. set (s := env m sp) in *. set (n := trip_count l (env m ub) s).
  set (bargs := map it_arg its) in *.
  set (e0 := bind_list bargs (map (fun x => env m (it_init x)) its) (env m)) in *.
  assert (Hloop : forall k, W (iter_n k (for_step (exec_block orc b) iv bargs ys l s) (set_env m e0))
                              (iter_n k (for_step (exec_block orc b') iv bargs ys l s) (set_env m' e0))).
  { induction k as [|k IHk]; [repeat split; simpl; assumption|]. cbn [iter_n].
    pose proof (HZl k) as HZk. pose proof (HZl' k) as HZk'.
    set (mk := iter_n k (for_step (exec_block orc b) iv bargs ys l s) (set_env m e0)) in *.
    set (mk' := iter_n k (for_step (exec_block orc b') iv bargs ys l s) (set_env m' e0)) in *.
    unfold for_step. destruct IHk as [Hek [Hrk [Hnk Htk]]]. rewrite Hek.
    set (e1 := upd (env mk) iv (l + Z.of_nat k * s)).
    assert (HR1 : W (set_env mk e1) (set_env mk' e1)) by (repeat split; simpl; assumption).
    assert (HZ1 : Zi G (set_env mk e1)).
    { intros g Hg1. unfold e1. simpl. rewrite upd_other; [exact (HZk g Hg1)|]. intros ->. congruence. }
    assert (HZ1' : Zi G (set_env mk' e1)).
    { intros g Hg1. unfold e1. simpl. rewrite upd_other; [exact (HZk g Hg1)|]. intros ->. congruence. }
    destruct (Hb _ _ HR1 HZ1 HZ1') as [He2 [Hr2 [Hn2 Ht2]]]. rewrite He2. repeat split; simpl; assumption. }
  destruct (Hloop n) as [HeN [HrN [HnN HtN]]]. rewrite HeN. repeat split; simpl; assumption.
Qed.

Definition CsW (s : stmt) : Prop := forall prev s', ctx_stmt f s = Some s' -> ffF_stmt FF prev s = true ->
  gok_stmt G s = true -> gok_stmt G s' = true ->
  forall m m', W m m' -> Zi G m -> Zi G m' -> W (exec_stmt orc s m) (exec_stmt orc s' m').
Definition CbW (b : block) : Prop := forall prev b', ctx_children f b = Some b' -> ffF_block FF prev b = true ->
  gok_block G b = true -> gok_block G b' = true ->
  forall m m', W m m' -> (prevfull FF a prev = true -> agreeF m m') -> Zi G m -> Zi G m' ->
  W (exec_block orc b m) (exec_block orc b' m').

Lemma ctxW_block_of_children b : CbW b -> forall prev b', ctx_block f b = Some b' -> ffF_block FF prev b = true ->
  gok_block G b = true -> gok_block G b' = true ->
  forall m m', W m m' -> (prevfull FF a prev = true -> agreeF m m') -> Zi G m -> Zi G m' ->
  W (exec_block orc b m) (exec_block orc b' m').
Proof.
  intros HC prev b' H Hff Hg Hg' m m' HW Hp HZ HZ'. unfold ctx_block in H. destruct (f b) as [b1|] eqn:E.
  - inversion H; subst. exact (Hf b prev b' E Hff Hg m m' HW Hp HZ').
  - exact (HC prev b' H Hff Hg Hg' m m' HW Hp HZ HZ').
Qed.

Lemma ctx_stmt_notfull s s' : ctx_stmt f s = Some s' -> isfull FF a s = false.
Proof. destruct s; simpl; try discriminate; reflexivity. Qed.

Lemma ctxW_children_sound : forall b, CbW b.
Proof.
  apply (block_ind2 CsW CbW); try (intros; intros prev s' H; discriminate).
  - intros iv lb ub sp its rs body ys IH prev s' H Hff Hg Hg' m m' HW HZ HZ'.
    rewrite (ctx_stmt_for f) in H. destruct (ctx_block f body) as [body'|] eqn:E; [|discriminate].
    inversion H; subst s'. clear H. rewrite ffF_stmt_for in Hff. rewrite !exec_stmt_for.
    apply ctxW_for_sim; try assumption.
    rewrite gok_stmt_for in Hg, Hg'. apply andb_true_iff in Hg. apply andb_true_iff in Hg'.
    intros k k' Hk HZk HZk'.
    apply (ctxW_block_of_children body IH None body' E Hff (proj2 Hg) (proj2 Hg') k k' Hk); [discriminate|exact HZk|exact HZk'].
  - intros c rs th thy el ely IHt IHe prev s' H Hff Hg Hg' m m' HW HZ HZ'.
    rewrite (ctx_stmt_if f) in H. rewrite ffF_stmt_if in Hff. apply andb_true_iff in Hff. destruct Hff as [Hft Hfe].
    rewrite gok_stmt_if in Hg.
    apply andb_true_iff in Hg. destruct Hg as [Hg Hgel]. apply andb_true_iff in Hg. destruct Hg as [_ Hgth].
    destruct (ctx_block f th) as [th'|] eqn:Et.
    + inversion H; subst s'. clear H. rewrite gok_stmt_if in Hg'.
      apply andb_true_iff in Hg'. destruct Hg' as [Hg' _]. apply andb_true_iff in Hg'. destruct Hg' as [_ Hgth'].
      rewrite !exec_stmt_if. unfold exec_if. pose proof HW as [He _]. rewrite He.
      destruct (env m c =? 0).
      * assert (H2 : W (exec_block orc el m) (exec_block orc el m')) by (apply (ff_sim_block el None); [exact Hfe|exact HW|discriminate]).
        destruct H2 as [He2 [Hr2 [Hn2 Ht2]]]. rewrite He2. repeat split; simpl; assumption.
      * assert (H2 : W (exec_block orc th m) (exec_block orc th' m')).
        { apply (ctxW_block_of_children th IHt None th' Et Hft Hgth Hgth' m m' HW); [discriminate|exact HZ|exact HZ']. }
        destruct H2 as [He2 [Hr2 [Hn2 Ht2]]]. rewrite He2. repeat split; simpl; assumption.
    + destruct (ctx_block f el) as [el'|] eqn:Ee; [|discriminate]. inversion H; subst s'. clear H.
      rewrite gok_stmt_if in Hg'. apply andb_true_iff in Hg'. destruct Hg' as [_ Hgel'].
      rewrite !exec_stmt_if. unfold exec_if. pose proof HW as [He _]. rewrite He.
      destruct (env m c =? 0).
      * assert (H2 : W (exec_block orc el m) (exec_block orc el' m')).
        { apply (ctxW_block_of_children el IHe None el' Ee Hfe Hgel Hgel' m m' HW); [discriminate|exact HZ|exact HZ']. }
        destruct H2 as [He2 [Hr2 [Hn2 Ht2]]]. rewrite He2. repeat split; simpl; assumption.
      * assert (H2 : W (exec_block orc th m) (exec_block orc th m')) by (apply (ff_sim_block th None); [exact Hft|exact HW|discriminate]).
        destruct H2 as [He2 [Hr2 [Hn2 Ht2]]]. rewrite He2. repeat split; simpl; assumption.
  - intros s b Hs Hb prev b' H Hff Hg Hg' m m' HW Hp HZ HZ'. cbn [ctx_children] in H.
    cbn [ffF_block] in Hff. apply andb_true_iff in Hff. destruct Hff as [Hf1 Hf2].
    cbn [gok_block] in Hg. apply andb_true_iff in Hg. destruct Hg as [Hgs Hgb].
    destruct (ctx_stmt f s) as [s'|] eqn:Es.
    + inversion H; subst b'. clear H. cbn [gok_block] in Hg'. apply andb_true_iff in Hg'. destruct Hg' as [Hgs' _].
      cbn [exec_block]. apply (ff_sim_block b (Some s)); [exact Hf2| |].
      * exact (Hs prev s' Es Hf1 Hgs Hgs' m m' HW HZ HZ').
      * cbn [prevfull]. rewrite (ctx_stmt_notfull s s' Es). discriminate.
    + destruct (ctx_children f b) as [b''|] eqn:Eb; [|discriminate]. inversion H; subst b'. clear H.
      cbn [gok_block] in Hg'. apply andb_true_iff in Hg'. destruct Hg' as [_ Hgb'].
      cbn [exec_block]. destruct (ff_sim_stmt s prev m m' Hf1 HW Hp) as [HW1 Hfull].
      apply (Hb (Some s) b'' Eb Hf2 Hgb Hgb' _ _ HW1 Hfull); apply Zi_stmt; assumption.
Qed.
End Sim.
End Pull.

(* ---- the rule theorem ------------------------------------------------------------------------------------ *)
Theorem rule_pull_g_preserves FF G orc a fresh tg p p' args :
  rule_pull_g G a fresh tg p = Some p' -> pull_hyp FF G a fresh tg p = true ->
  trace_FF FF (run orc p args) (run orc p' args).
Proof.
  intros H Hh. unfold pull_hyp in Hh. rewrite H in Hh.
  apply andb_true_iff in Hh. destruct Hh as [Hh Hg']. apply andb_true_iff in Hh. destruct Hh as [Hff Hg].
  unfold rule_pull_g in H. destruct (hd_fresh fresh) as [n|]; [|discriminate].
  unfold ctx_prog in H. destruct (ctx_block (pull_g_here G a n tg) (p_body p)) as [b'|] eqn:E; [|discriminate].
  inversion H; subst p'. clear H.
  pose proof (Zi_init orc G p args Hg) as HZ. pose proof (Zi_init orc G _ args Hg') as HZ'.
  unfold gok_prog in Hg, Hg'. cbn [p_params p_body] in Hg'.
  apply andb_true_iff in Hg. apply andb_true_iff in Hg'.
  unfold run, final_state. apply trace_FF_rev.
  assert (HW : W FF a (exec_block orc (p_body p) (init_state orc p args))
                      (exec_block orc b' (init_state orc (mkProg (p_params p) b') args))).
  { apply (ctxW_block_of_children FF orc a G (pull_g_here G a n tg)
             (fun b prev b'' Hb Hffb Hgb m m' HWm Hp HZm => pull_g_here_sound FF orc a G n tg b prev b'' Hb Hffb Hgb m m' HWm Hp HZm)
             (p_body p) (ctxW_children_sound FF orc a G (pull_g_here G a n tg)
                (fun b prev b'' Hb Hffb Hgb m m' HWm Hp HZm => pull_g_here_sound FF orc a G n tg b prev b'' Hb Hffb Hgb m m' HWm Hp HZm) (p_body p))
             None b' E Hff (proj2 Hg) (proj2 Hg')).
    - repeat split; try reflexivity. apply trace_FF_refl.
    - discriminate.
    - exact HZ.
    - exact HZ'. }
  exact (proj2 (proj2 (proj2 HW))).
Qed.

(* what the property asks for *)
Theorem rule_pull_g_sim FF G orc a fresh tg p p' args :
  rule_pull_g G a fresh tg p = Some p' -> pull_hyp FF G a fresh tg p = true -> within_block FF (p_body p) = true ->
  trace_sim_b (run orc p args) (run orc p' args) = true.
Proof.
  intros H Hh Hw. apply (trace_FF_sim FF); [apply known_in_FF; exact Hw|].
  exact (rule_pull_g_preserves FF G orc a fresh tg p p' args H Hh).
Qed.

(* ---- all five rules: any finite sequence, in any order ------------------------------------------------ *)
Inductive step5 (FF : acc -> list field) : prog -> prog -> Prop :=
| S5_other p p' : step p p' -> step5 FF p p'
| S5_pull G a fresh tg p p' : rule_pull_g G a fresh tg p = Some p' -> pull_hyp FF G a fresh tg p = true -> step5 FF p p'.

Inductive steps5 (FF : acc -> list field) : prog -> prog -> Prop :=
| Steps5_nil p : steps5 FF p p
| Steps5_cons p q r : step5 FF p q -> steps5 FF q r -> steps5 FF p r.

Theorem steps5_preserve FF orc args p p' : steps5 FF p p' -> trace_FF FF (run orc p args) (run orc p' args).
Proof.
  induction 1 as [p|p q r Hs _ IH]; [apply trace_FF_refl|].
  eapply trace_FF_trans; [|exact IH]. destruct Hs as [p0 p1 Hs|G a fresh tg p0 p1 H Hh].
  - apply trace_strong_FF. exact (step_preserves orc args p0 p1 Hs).
  - exact (rule_pull_g_preserves FF G orc a fresh tg p0 p1 args H Hh).
Qed.

Theorem steps5_sim FF orc args p p' :
  steps5 FF p p' -> within_block FF (p_body p) = true -> trace_sim_b (run orc p args) (run orc p' args) = true.
Proof.
  intros H Hw. apply (trace_FF_sim FF); [apply known_in_FF; exact Hw|]. exact (steps5_preserve FF orc args p p' H).
Qed.

(* ---- with FF := the field sets of the program itself, the hypotheses are full_field_form p ----------- *)
Lemma In_insert_sorted x l y : In y (insert_sorted x l) <-> y = x \/ In y l.
Proof.
  induction l as [|z l IH]; simpl; [intuition (subst; auto)|].
  destruct (Nat.ltb x z); [simpl; intuition (subst; auto)|].
  destruct (Nat.eqb x z) eqn:E.
  - apply Nat.eqb_eq in E. subst z. simpl. intuition (subst; auto).
  - simpl. rewrite IH. intuition (subst; auto).
Qed.

Lemma In_sort_dedup l y : In y (sort_dedup l) <-> In y l.
Proof.
  unfold sort_dedup. induction l as [|x l IH]; simpl; [tauto|]. rewrite In_insert_sorted, IH. intuition (subst; auto).
Qed.

Lemma stmt_setups_for a iv lb ub sp its rs body ys :
  stmt_setups a (SFor iv lb ub sp its rs body ys) = block_setups a body.
Proof.
  cbn [stmt_setups]. unfold block_setups. induction body as [|x b IH]; [reflexivity|]. cbn [flat_map]. rewrite <- IH. reflexivity.
Qed.
Lemma stmt_setups_if a c rs th thy el ely :
  stmt_setups a (SIf c rs th thy el ely) = block_setups a th ++ block_setups a el.
Proof.
  cbn [stmt_setups]. unfold block_setups. f_equal.
Qed.

Lemma within_of_setups FF : forall b,
  (forall a fs f, In fs (block_setups a b) -> In f (map fst fs) -> In f (FF a)) -> within_block FF b = true.
Proof.
  apply (block_ind2 (fun s => (forall a fs f, In fs (stmt_setups a s) -> In f (map fst fs) -> In f (FF a)) -> within_stmt FF s = true)
                    (fun b => (forall a fs f, In fs (block_setups a b) -> In f (map fst fs) -> In f (FF a)) -> within_block FF b = true));
    try (intros; reflexivity).
  - intros a o i fs H. simpl. apply forallb_forall. intros f Hf. apply mem_nat_In.
    apply (H a fs f); [simpl; rewrite Nat.eqb_refl; left; reflexivity|exact Hf].
  - intros iv lb ub sp its rs body ys IH H. rewrite within_stmt_for. apply IH. intros a fs f Hin. apply H. rewrite stmt_setups_for. exact Hin.
  - intros c rs th thy el ely IHt IHe H. rewrite within_stmt_if. rewrite IHt, IHe; [reflexivity| |].
    + intros a fs f Hin. apply H. rewrite stmt_setups_if. apply in_app_iff. right. exact Hin.
    + intros a fs f Hin. apply H. rewrite stmt_setups_if. apply in_app_iff. left. exact Hin.
  - intros s b Hs Hb H. simpl. rewrite Hs, Hb; [reflexivity| |].
    + intros a fs f Hin. apply H. unfold block_setups. cbn [flat_map]. apply in_app_iff. right. exact Hin.
    + intros a fs f Hin. apply H. unfold block_setups. cbn [flat_map]. apply in_app_iff. left. exact Hin.
Qed.

Theorem within_FF_of p : within_block (FF_of p) (p_body p) = true.
Proof.
  apply within_of_setups. intros a fs f Hin Hf. unfold FF_of, prog_fields. apply In_sort_dedup.
  apply in_flat_map. exists fs. split; assumption.
Qed.

Lemma ff_block_is_ffF all : forall b prev, ff_block all prev b = ffF_block (fun a => prog_fields a all) prev b.
Proof.
  set (FF := fun a => prog_fields a all).
  assert (Hfor : forall prev body, (fix blk (prev : option stmt) (b : list stmt) {struct b} : bool :=
                     match b with [] => true | x :: b' => ff_stmt all prev x && blk (Some x) b' end) prev body
                   = ff_block all prev body).
  { intros prev body. revert prev. induction body as [|x b IH]; intros prev; [reflexivity|]. cbn [ff_block]. rewrite <- IH. reflexivity. }
  apply (block_ind2 (fun s => forall prev, ff_stmt all prev s = ffF_stmt FF prev s)
                    (fun b => forall prev, ff_block all prev b = ffF_block FF prev b));
    try (intros; reflexivity).
  - intros iv lb ub sp its rs body ys IH prev. rewrite ffF_stmt_for. cbn [ff_stmt]. rewrite Hfor. apply IH.
  - intros c rs th thy el ely IHt IHe prev. rewrite ffF_stmt_if. cbn [ff_stmt]. rewrite !Hfor. rewrite IHt, IHe. reflexivity.
  - intros s b Hs Hb prev. cbn [ff_block ffF_block]. rewrite Hs, Hb. reflexivity.
Qed.

(* pull_preserves, as stated in the first rounds: under full_field_form *)
Theorem pull_preserves G orc a fresh tg p p' args :
  full_field_form p = true -> rule_pull_g G a fresh tg p = Some p' ->
  gok_prog G p = true -> gok_prog G p' = true ->
  trace_sim_b (run orc p args) (run orc p' args) = true.
Proof.
  intros Hff H Hg Hg'. apply (rule_pull_g_sim (FF_of p) G orc a fresh tg p p' args H).
  - unfold pull_hyp. rewrite H. unfold full_field_form in Hff. rewrite ff_block_is_ffF in Hff.
    unfold FF_of. rewrite Hff, Hg, Hg'. reflexivity.
  - apply within_FF_of.
Qed.
