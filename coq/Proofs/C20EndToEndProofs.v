(* C20 — the statement of the property from kernel bodies to the merged PE. *)
From Snax Require Import Base.Prelude Model.C20Phs Proofs.C20PhsProofs Proofs.C20DecodeProofs
  Proofs.C20SearchProofs Proofs.C20AppendProofs Proofs.C20HistoryProofs Proofs.C20WfProofs
  Proofs.C20HistoryFullProofs Proofs.C20EncodeProofs Proofs.C20EncodeSemProofs.

Theorem bodies_history_correct opsem bs gs G :
  Forall2 (fun b g => encode b = Some g) bs gs ->
  (forall b, In b bs -> body_ok b = true) ->
  (forall g, In g gs -> pdata g = pdata G) ->
  merge_all gs = Some G ->
  forall b g, In (b, g) (combine bs gs) ->
    exists sw, decode G g = Some sw /\ true_switches G = Some (length sw) /\
      forall ins v, (bnargs b <= length ins)%nat -> eval_body opsem b ins = Some v ->
                    eval_pe opsem G sw (used_inputs b ins) = Some v.
Proof.
  intros HF Hb Hpd Hm b g Hin.
  assert (forall b' g', In (b', g') (combine bs gs) -> encode b' = Some g' /\ In b' bs /\ In g' gs) as Hc.
  { clear - HF. induction HF as [|b0 g0 bs gs H0 _ IH]; cbn [combine]; intros b' g' H; [contradiction|].
    destruct H as [E|H]; [inversion E; subst; repeat split; auto; left; reflexivity|].
    destruct (IH _ _ H) as (H1 & H2 & H3). repeat split; auto; right; assumption. }
  assert (forall g', In g' gs -> exists b', In (b', g') (combine bs gs)) as Hex.
  { clear - HF. induction HF as [|b0 g0 bs gs H0 _ IH]; cbn [combine]; intros g' H; [contradiction|].
    destruct H as [<-|H]; [exists b0; left; reflexivity|]. destruct (IH _ H) as [b' Hb']. exists b'. right. exact Hb'. }
  destruct (Hc b g Hin) as (Henc & Hbin & Hgin).
  destruct (history_correct opsem gs G Hm) with (g := g) as (sw & Hd & Ht & Hev); [|exact Hgin|].
  - intros g' Hg'. destruct (Hex g' Hg') as [b' Hb'g']. destruct (Hc _ _ Hb'g') as (He' & Hb' & _).
    destruct (encode_ok b' g' He') as (H1 & H2 & H3).
    split; [|split; [exact H3|apply Hpd; exact Hg']].
    unfold kernel_ok. rewrite H1, H2. reflexivity.
  - exists sw. split; [exact Hd|]. split; [exact Ht|].
    intros ins v Hlen Hv. apply (Hev (used_inputs b ins) v []).
    pose proof (Hb b Hbin) as Hok. apply (encode_sem opsem b g [] ins v Hok Henc Hlen Hv).
Qed.
