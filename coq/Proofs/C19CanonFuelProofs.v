(* C19 (a) — fuel monotonicity for the generated model of canonicalize_affine.py: once a run succeeds with
   some recursion budget, every larger budget gives the same result.  Hence results do not depend on the
   budget, and idempotence holds at the same budget.  (Termination itself is not proved, see Props/C19.v.) *)
From Snax Require Import Base.Prelude Model.PyLib Model.XdslAffine Proofs.XdslAffineProofs Gen.CanonAffine
  Proofs.C19CanonProofs.

Ltac cbn_both H :=
  cbn [e_kind e_lhs e_rhs e_value e_position is_ECst is_EBin is_EDim is_ESym akind_eqb is_some is_none] in H |- *.

(* one lock-step symbolic execution step on hypothesis H (old fuel) and the goal (new fuel):
   `call_tac E` turns an equation about a callee at the old fuel into a rewrite of the goal *)
Ltac mono_inner H call_tac :=
  match type of H with
  | context[match ?x with _ => _ end] =>
      lazymatch x with
      | context[match _ with _ => _ end] => fail
      | _ => idtac
      end;
      first
        [ is_var x; destruct x
        | match x with
          | ?f ?v => is_var v; first [unify f e_kind|unify f e_lhs|unify f e_rhs|unify f e_value|unify f e_position
                                      |unify f is_ECst|unify f is_EBin|unify f is_EDim|unify f is_ESym]; destruct v
          | akind_eqb ?v _ => is_var v; destruct v
          end
        | let E := fresh "E" in destruct x eqn:E; [call_tac E | try discriminate H; try call_tac E]
        | destruct x eqn:? ]
  end.

Ltac mono_step H call_tac :=
  repeat rewrite xadd_nonconst in * by reflexivity;
  cbn_both H;
  first [ discriminate H | exact H | solve [call_tac H; reflexivity] | mono_inner H call_tac ].

(* ---- get_dim ---- *)
Lemma get_dim_mono fuel : forall e r, get_dim fuel e = Some r -> get_dim (S fuel) e = Some r.
Proof.
  induction fuel as [|f IH]; intros e r H; [discriminate H|].
  remember (S f) as f1 eqn:Ef1. cbn [get_dim]. rewrite Ef1 in H. cbn [get_dim] in H.
  assert (IH' : forall e r, get_dim f e = Some r -> get_dim f1 e = Some r) by (subst f1; exact IH).
  clear IH Ef1.
  repeat mono_step H ltac:(fun E => first [apply IH' in E; rewrite E | idtac]).
Qed.

Lemma get_dim_mono_le f f' : (f <= f')%nat -> forall e r, get_dim f e = Some r -> get_dim f' e = Some r.
Proof. induction 1 as [|f' _ IH]; intros e r H; [exact H|]. apply get_dim_mono. apply IH. exact H. Qed.

(* ---- canonicalize_addition (passes its fuel to get_dim) ---- *)
Lemma canonicalize_addition_mono f f' e r :
  (forall e r, get_dim f e = Some r -> get_dim f' e = Some r) ->
  canonicalize_addition f e = Some r -> canonicalize_addition f' e = Some r.
Proof.
  intros Hd H. unfold canonicalize_addition in H |- *.
  repeat mono_step H ltac:(fun E => first [apply Hd in E; rewrite E | idtac]).
Qed.

(* ---- canonicalize_binary_op / canonicalize_expr ---- *)
Lemma canon_mono_both fuel :
  (forall e r, canonicalize_binary_op fuel e = Some r -> canonicalize_binary_op (S fuel) e = Some r) /\
  (forall e r, canonicalize_expr fuel e = Some r -> canonicalize_expr (S fuel) e = Some r).
Proof.
  induction fuel as [|f [IHb IHe]]; [split; intros e r H; discriminate H|].
  remember (S f) as f1 eqn:Ef1.
  assert (IHb' : forall e r, canonicalize_binary_op f e = Some r -> canonicalize_binary_op f1 e = Some r) by (subst f1; exact IHb).
  assert (IHe' : forall e r, canonicalize_expr f e = Some r -> canonicalize_expr f1 e = Some r) by (subst f1; exact IHe).
  assert (IHd : forall e r, get_dim f e = Some r -> get_dim f1 e = Some r) by (subst f1; apply get_dim_mono).
  split; intros e r H; rewrite Ef1 in H.
  - cbn [canonicalize_binary_op] in H |- *. clear IHb IHe Ef1.
    repeat mono_step H ltac:(fun E => first [apply IHe' in E; rewrite E
                                            | apply (canonicalize_addition_mono f f1 _ _ IHd) in E; rewrite E
                                            | idtac]).
  - cbn [canonicalize_expr] in H |- *. clear IHb IHe Ef1.
    repeat mono_step H ltac:(fun E => first [apply IHb' in E; rewrite E | apply IHe' in E; rewrite E | idtac]).
Qed.

Theorem canon_fuel_mono f f' : (f <= f')%nat ->
  forall e r, canonicalize_expr f e = Some r -> canonicalize_expr f' e = Some r.
Proof.
  induction 1 as [|f' _ IH]; intros e r H; [exact H|]. apply (proj2 (canon_mono_both f')). apply IH. exact H.
Qed.

(* the result does not depend on the recursion budget *)
Theorem canon_fuel_irrelevant f1 f2 e r1 r2 :
  canonicalize_expr f1 e = Some r1 -> canonicalize_expr f2 e = Some r2 -> r1 = r2.
Proof.
  intros H1 H2. apply (canon_fuel_mono f1 (Nat.max f1 f2)) in H1; [|lia].
  apply (canon_fuel_mono f2 (Nat.max f1 f2)) in H2; [|lia]. congruence.
Qed.

(* idempotence at the same budget *)
Theorem canon_idempotent_same_fuel fuel e r :
  canonicalize_expr fuel e = Some r -> canonicalize_expr fuel r = Some r.
Proof.
  intros H. destruct (canon_idempotent fuel e r H) as [f0 [Hle Hf0]]. exact (canon_fuel_mono f0 fuel Hle r r Hf0).
Qed.
