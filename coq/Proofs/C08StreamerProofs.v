(* C08 — proofs about Model/C08StreamerCfg.v (regular-system streamer fields vs values). *)
From Snax Require Import Base.Prelude Base.ListAux Model.C08StreamerCfg.

(* ---- option/list plumbing ---------------------------------------------------------------- *)
Lemma oapp_some {A} (a b : option (list A)) r :
  oapp a b = Some r -> exists x y, a = Some x /\ b = Some y /\ r = x ++ y.
Proof. destruct a, b; simpl; intros H; inversion H; eauto. Qed.

Lemma oiflat_cons {A B} (f : nat -> A -> option (list B)) k x l r :
  oiflat f k (x :: l) = Some r ->
  exists a b, f k x = Some a /\ oiflat f (S k) l = Some b /\ r = a ++ b.
Proof.
  simpl. destruct (f k x) as [a|]; [|discriminate]. destruct (oiflat f (S k) l) as [b|]; [|discriminate].
  intros H; inversion H; eauto.
Qed.

Lemma omap_cons {A B} (f : A -> option B) x l r :
  omap f (x :: l) = Some r -> exists a b, f x = Some a /\ omap f l = Some b /\ r = a :: b.
Proof.
  simpl. destruct (f x) as [a|]; [|discriminate]. destruct (omap f l) as [b|]; [|discriminate].
  intros H; inversion H; eauto.
Qed.

Lemma iflat_app {A B} (f : nat -> A -> list B) k l1 l2 :
  iflat f k (l1 ++ l2) = iflat f k l1 ++ iflat f (k + List.length l1) l2.
Proof.
  revert k; induction l1 as [|x xs IH]; intros k; simpl.
  - rewrite Nat.add_0_r. reflexivity.
  - rewrite IH, <- app_assoc. replace (S k + List.length xs)%nat with (k + S (List.length xs))%nat by lia. reflexivity.
Qed.

(* every element produced by the indexed loop satisfies Q, given that each body does *)
Lemma oiflat_Forall {A B} (Q : B -> Prop) (f : nat -> A -> option (list B)) :
  forall l k r,
  (forall i x a, (k <= i)%nat -> nth_error l (i - k) = Some x -> f i x = Some a -> Forall Q a) ->
  oiflat f k l = Some r -> Forall Q r.
Proof.
  induction l as [|x xs IH]; intros k r Hb H.
  - simpl in H. inversion H. constructor.
  - apply oiflat_cons in H as (a & b & Ha & Hb' & ->).
    apply Forall_app; split.
    + apply (Hb k x a); [lia| |exact Ha]. rewrite Nat.sub_diag. reflexivity.
    + apply (IH (S k) b); [|exact Hb'].
      intros i y c Hi Hn Hf. apply (Hb i y c); [lia| |exact Hf].
      replace (i - k)%nat with (S (i - S k)) by lia. exact Hn.
Qed.

Lemma iflat_Forall {A B} (Q : B -> Prop) (f : nat -> A -> list B) :
  forall l k,
  (forall i x, (k <= i)%nat -> nth_error l (i - k) = Some x -> Forall Q (f i x)) ->
  Forall Q (iflat f k l).
Proof.
  induction l as [|x xs IH]; intros k Hb; simpl; [constructor|].
  apply Forall_app; split.
  - apply Hb; [lia|]. rewrite Nat.sub_diag. reflexivity.
  - apply IH. intros i y Hi Hn. apply Hb; [lia|].
    replace (i - k)%nat with (S (i - S k)) by lia. exact Hn.
Qed.

(* tags of an indexed loop whose body emits exactly one value tagged T i *)
Lemma oiflat_single_tags {A V} (T : nat -> tag) (f : nat -> A -> option (list (tag * V))) :
  (forall i x a, f i x = Some a -> exists v, a = [(T i, v)]) ->
  forall l k r, oiflat f k l = Some r -> map fst r = map T (seq k (List.length l)).
Proof.
  intros Hf; induction l as [|x xs IH]; intros k r H.
  - simpl in H; inversion H; reflexivity.
  - apply oiflat_cons in H as (a & b & Ha & Hb & ->).
    destruct (Hf _ _ _ Ha) as [v ->]. simpl. f_equal. apply IH. exact Hb.
Qed.

Lemma omap_tags {V} (T : nat -> tag) (f : nat -> option (tag * V)) :
  (forall i a, f i = Some a -> fst a = T i) ->
  forall l r, omap f l = Some r -> map fst r = map T l.
Proof.
  intros Hf; induction l as [|x xs IH]; intros r H.
  - simpl in H; inversion H; reflexivity.
  - apply omap_cons in H as (a & b & Ha & Hb & ->). simpl. f_equal; [exact (Hf _ _ Ha)|exact (IH _ Hb)].
Qed.

(* tags of a whole-configuration loop follow from the per-streamer statement *)
Lemma oiflat_tags {A} (f : nat -> A -> option (list (tag * value))) (g : nat -> A -> list fname) :
  (forall i x a, f i x = Some a -> map fst a = map tag_of_name (g i x)) ->
  forall l k r, oiflat f k l = Some r -> map fst r = map tag_of_name (iflat g k l).
Proof.
  intros Hf; induction l as [|x xs IH]; intros k r H.
  - simpl in H; inversion H; reflexivity.
  - apply oiflat_cons in H as (a & b & Ha & Hb & ->). simpl.
    rewrite !map_app. f_equal; [exact (Hf _ _ _ Ha)|exact (IH _ _ Hb)].
Qed.

Lemma iflat_tags {A} (f : nat -> A -> list (tag * value)) (g : nat -> A -> list fname) :
  (forall i x, map fst (f i x) = map tag_of_name (g i x)) ->
  forall l k, map fst (iflat f k l) = map tag_of_name (iflat g k l).
Proof.
  intros Hf; induction l as [|x xs IH]; intros k; simpl; [reflexivity|].
  rewrite !map_app. f_equal; [apply Hf|apply IH].
Qed.

(* ---- one streamer: tags --------------------------------------------------------------------- *)
Lemma sstride_tags s st p r :
  sstride_vals s st p = Some r -> map fst r = map (TSStride s) (seq 0 (spatial_dim st)).
Proof.
  unfold sstride_vals. apply omap_tags. intros i a. destruct (nth_error (p_ss p) i); [|discriminate].
  intros H; inversion H; reflexivity.
Qed.

Lemma bound_tags s st p r :
  bound_vals s st p = Some r -> map fst r = map (TBound s) (seq 0 (temporal_dim st)).
Proof.
  unfold bound_vals. apply oiflat_single_tags. intros i f a.
  destruct (nth_error _ i); [|discriminate]. destruct (nth_error _ i); [|discriminate].
  intros H; inversion H; eauto.
Qed.

Lemma tstride_tags s st p r :
  tstride_vals s st p = Some r -> map fst r = map (TTStride s) (seq 0 (temporal_dim st)).
Proof.
  unfold tstride_vals. apply oiflat_single_tags. intros i f a.
  destruct (nth_error _ i); [|discriminate]. destruct (_ && _); [discriminate|].
  intros H; inversion H; eauto.
Qed.

Lemma vals_streamer_tags op s st r :
  vals_streamer op s st = Some r -> map fst r = map tag_of_name (fields_streamer s st).
Proof.
  unfold vals_streamer, fields_streamer.
  destruct (nth_error (s_zero op) s) as [z|]; [|discriminate].
  destruct (nth_error (s_pats op) s) as [p|]; [|discriminate].
  intros H.
  apply oapp_some in H as (x1 & y1 & H1 & H & ->). inversion H1; subst x1; clear H1.
  apply oapp_some in H as (x2 & y2 & H2 & H & ->).
  apply oapp_some in H as (x3 & y3 & H3 & H & ->).
  apply oapp_some in H as (x4 & y4 & H4 & H & ->). inversion H; subst y4; clear H.
  rewrite !map_app. rewrite (sstride_tags _ _ _ _ H2), (bound_tags _ _ _ _ H3), (tstride_tags _ _ _ _ H4).
  rewrite !map_map. cbn [map ptr_vals fst tag_of_name app].
  do 2 f_equal. repeat (f_equal; try reflexivity).
  - destruct (has is_remap st); reflexivity.
  - destruct (has is_chanmask st); reflexivity.
Qed.

Lemma vals_transpose_tags s st : map fst (vals_transpose s st) = map tag_of_name (fields_transpose s st).
Proof. unfold vals_transpose, fields_transpose. destruct (has is_transpose st); reflexivity. Qed.
Lemma vals_broadcast_tags op s st :
  map fst (vals_broadcast op s st) = map tag_of_name (fields_broadcast s st).
Proof. unfold vals_broadcast, fields_broadcast. destruct (has is_broadcast st); reflexivity. Qed.

Lemma named_small cfg : (List.length cfg <= 26)%nat -> named cfg = cfg.
Proof. intros H. unfold named. apply firstn_all2. exact H. Qed.

(* ---- THEOREM 1: same length, same order, same meaning ----------------------------------------- *)
Theorem fields_vals_aligned_regular :
  forall cfg op l, (List.length cfg <= 26)%nat -> setup_vals cfg op = Some l ->
  map fst l = map tag_of_name (setup_fields cfg).
Proof.
  intros cfg op l Hn H. unfold setup_vals in H. unfold setup_fields. rewrite (named_small _ Hn).
  apply oapp_some in H as (x & y & Hx & Hy & ->). inversion Hy; subst y; clear Hy.
  rewrite !map_app. f_equal; [|f_equal].
  - apply (oiflat_tags _ _ (vals_streamer_tags op) _ _ _ Hx).
  - apply iflat_tags. apply vals_transpose_tags.
  - apply iflat_tags. apply vals_broadcast_tags.
Qed.

Corollary fields_vals_same_length :
  forall cfg op l, (List.length cfg <= 26)%nat -> setup_vals cfg op = Some l ->
  List.length l = List.length (setup_fields cfg).
Proof.
  intros cfg op l Hn H. pose proof (fields_vals_aligned_regular _ _ _ Hn H) as E.
  apply (f_equal (@List.length _)) in E. rewrite !map_length in E. exact E.
Qed.

(* the zip over 26 letters really truncates: a 27-streamer configuration is misaligned *)
Definition one_dim_streamer := mkStreamer [FNormal] [8] [].
Definition cfg27 : config := repeat one_dim_streamer 27.
Definition op27 : sop := mkSop (repeat (mkPat [4] [8] [8]) 27) (repeat false 27).
Lemma more_than_26_streamers_refuted :
  exists l, setup_vals cfg27 op27 = Some l /\ List.length l <> List.length (setup_fields cfg27).
Proof. eexists; split; [vm_compute; reflexivity|vm_compute; discriminate]. Qed.

(* ---- THEOREM 2: every value is the one its tag specifies ------------------------------------- *)
Lemma nth_error_nth_eq {A} (l : list A) i x d : nth_error l i = Some x -> nth i l d = x.
Proof. apply nth_error_nth. Qed.

Lemma nth_error_pad {A} (l : list A) d n i x : nth_error (pad l d n) i = Some x -> x = nth i l d.
Proof.
  unfold pad. intros H. destruct (Nat.ltb_spec i (List.length l)) as [Hi|Hi].
  - rewrite nth_error_app1 in H by exact Hi. symmetry; apply nth_error_nth; exact H.
  - rewrite nth_error_app2 in H by exact Hi. rewrite nth_overflow by exact Hi.
    apply nth_error_In in H. apply repeat_spec in H. exact H.
Qed.

Definition meets (cfg : config) (op : sop) (tv : tag * value) : Prop :=
  spec_value cfg op (fst tv) = Some (snd tv).

Lemma omap_Forall {A B} (Q : B -> Prop) (f : A -> option B) :
  (forall x a, f x = Some a -> Q a) -> forall l r, omap f l = Some r -> Forall Q r.
Proof.
  intros Hf; induction l as [|x xs IH]; intros r H.
  - simpl in H; inversion H; constructor.
  - apply omap_cons in H as (a & b & Ha & Hb & ->). constructor; [exact (Hf _ _ Ha)|exact (IH _ Hb)].
Qed.

Lemma vals_streamer_meets cfg op s st r :
  nth_error cfg s = Some st -> vals_streamer op s st = Some r -> Forall (meets cfg op) r.
Proof.
  intros Hst. unfold vals_streamer.
  destruct (nth_error (s_zero op) s) as [z|] eqn:Hz; [|discriminate].
  destruct (nth_error (s_pats op) s) as [p|] eqn:Hp; [|discriminate].
  intros H.
  apply oapp_some in H as (x1 & y1 & H1 & H & ->). inversion H1; subst x1; clear H1.
  apply oapp_some in H as (x2 & y2 & H2 & H & ->).
  apply oapp_some in H as (x3 & y3 & H3 & H & ->).
  apply oapp_some in H as (x4 & y4 & H4 & H & ->). inversion H; subst y4; clear H.
  pose proof (nth_error_nth_eq _ _ _ false Hz) as Ez.
  pose proof (nth_error_nth_eq _ _ _ (mkPat [] [] []) Hp) as Ep.
  pose proof (nth_error_nth_eq _ _ _ (mkStreamer [] [] []) Hst) as Es.
  repeat (apply Forall_app; split).
  - unfold ptr_vals. repeat constructor; unfold meets; cbn [fst snd spec_value]; rewrite ?Ez; reflexivity.
  - unfold sstride_vals in H2. revert H2. apply omap_Forall. intros i a.
    destruct (nth_error (p_ss p) i) as [v|] eqn:Hv; [|discriminate]. intros E; inversion E; subst a.
    unfold meets; cbn [fst snd spec_value]. rewrite Ep. unfold nthZ. rewrite (nth_error_nth_eq _ _ _ 0 Hv). reflexivity.
  - unfold bound_vals in H3. revert H3. apply oiflat_Forall. intros i f a _ Hf.
    rewrite Nat.sub_0_r in Hf.
    destruct (nth_error (pad (p_ub p) 1 _) i) as [b|] eqn:Hb; [|discriminate].
    destruct (nth_error (pad (p_ts p) 0 _) i) as [t|] eqn:Ht; [|discriminate].
    intros E; inversion E; subst a. repeat constructor.
    unfold meets; cbn [fst snd spec_value]. rewrite Ep, Es. unfold flag_at, nthZ.
    rewrite (nth_error_nth_eq _ _ _ FNormal Hf), <- (nth_error_pad _ _ _ _ _ Hb), <- (nth_error_pad _ _ _ _ _ Ht).
    reflexivity.
  - unfold tstride_vals in H4. revert H4. apply oiflat_Forall. intros i f a _ Hf.
    destruct (nth_error (pad (p_ts p) 0 _) i) as [t|] eqn:Ht; [|discriminate].
    destruct (_ && _); [discriminate|]. intros E; inversion E; subst a. repeat constructor.
    unfold meets; cbn [fst snd spec_value]. rewrite Ep. unfold nthZ.
    rewrite <- (nth_error_pad _ _ _ _ _ Ht). reflexivity.
  - destruct (has is_remap st); cbn [when]; repeat constructor.
  - destruct (has is_chanmask st); cbn [when]; repeat constructor.
    unfold meets; cbn [fst snd spec_value]. rewrite Ez. reflexivity.
Qed.

Theorem vals_meet_spec_regular :
  forall cfg op l, setup_vals cfg op = Some l ->
  Forall (fun tv => spec_value cfg op (fst tv) = Some (snd tv)) l.
Proof.
  intros cfg op l H. unfold setup_vals in H.
  apply oapp_some in H as (x & y & Hx & Hy & ->). inversion Hy; subst y; clear Hy.
  repeat (apply Forall_app; split).
  - revert Hx. apply oiflat_Forall. intros i st a _ Hst. rewrite Nat.sub_0_r in Hst.
    apply vals_streamer_meets. exact Hst.
  - apply iflat_Forall. intros i st _ Hst. rewrite Nat.sub_0_r in Hst.
    unfold vals_transpose. destruct (has is_transpose st); cbn [when]; repeat constructor.
  - apply iflat_Forall. intros i st _ Hst. rewrite Nat.sub_0_r in Hst.
    unfold vals_broadcast. destruct (has is_broadcast st); cbn [when]; repeat constructor.
    unfold meets; cbn [fst snd spec_value].
    rewrite (nth_error_nth_eq _ _ _ (mkStreamer [] [] []) Hst). reflexivity.
Qed.

(* Combined: the value zipped with field f by SetupOp.iter_params is spec_value (tag_of_name f). *)
Theorem register_receives_its_meaning :
  forall cfg op l, (List.length cfg <= 26)%nat -> setup_vals cfg op = Some l ->
  map (fun v => Some v) (map snd l) = map (fun f => spec_value cfg op (tag_of_name f)) (setup_fields cfg).
Proof.
  intros cfg op l Hn H.
  pose proof (fields_vals_aligned_regular _ _ _ Hn H) as Ht.
  pose proof (vals_meet_spec_regular _ _ _ H) as Hs.
  rewrite <- (map_map tag_of_name (spec_value cfg op)), <- Ht. rewrite !map_map.
  apply map_ext_in. intros tv Hin. rewrite Forall_forall in Hs. symmetry. exact (Hs _ Hin).
Qed.

(* ---- THEOREM 3: the generator fails exactly outside op_okb ------------------------------------- *)
Lemma omap_defined {A B} (f : A -> option B) l :
  (exists r, omap f l = Some r) <-> forallb (fun x => match f x with Some _ => true | None => false end) l = true.
Proof.
  induction l as [|x xs IH]; simpl.
  - split; eauto.
  - destruct (f x) as [a|]; simpl.
    + rewrite <- IH. split; intros [r H].
      * destruct (omap f xs); [eauto|discriminate].
      * rewrite H. eauto.
    + split; [intros [r H]; discriminate|discriminate].
Qed.

Lemma oiflat_defined {A B} (f : nat -> A -> option (list B)) l : forall k,
  (exists r, oiflat f k l = Some r) <->
  iforallb (fun i x => match f i x with Some _ => true | None => false end) k l = true.
Proof.
  induction l as [|x xs IH]; intros k; simpl.
  - split; eauto.
  - destruct (f k x) as [a|]; simpl.
    + rewrite <- IH. split; intros [r H].
      * destruct (oiflat f (S k) xs); [eauto|discriminate].
      * rewrite H. eauto.
    + split; [intros [r H]; discriminate|discriminate].
Qed.

Lemma iforallb_ext {A} (f g : nat -> A -> bool) l : forall k,
  (forall i x, (k <= i)%nat -> nth_error l (i - k) = Some x -> f i x = g i x) ->
  iforallb f k l = iforallb g k l.
Proof.
  induction l as [|x xs IH]; intros k H; simpl; [reflexivity|].
  rewrite (H k x) by (try lia; rewrite Nat.sub_diag; reflexivity). f_equal.
  apply IH. intros i y Hi Hn. apply H; [lia|]. replace (i - k)%nat with (S (i - S k)) by lia. exact Hn.
Qed.

Lemma nth_error_Some_lt {A} (l : list A) i x : nth_error l i = Some x -> (i < List.length l)%nat.
Proof. intros H. apply nth_error_Some. congruence. Qed.

Lemma nth_error_pad_some {A} (l : list A) d n i : (i < n)%nat -> nth_error (pad l d n) i = Some (nth i l d).
Proof.
  intros Hi. unfold pad. destruct (Nat.ltb_spec i (List.length l)) as [H|H].
  - rewrite nth_error_app1 by exact H. apply nth_error_nth'; exact H.
  - rewrite nth_error_app2 by exact H. rewrite nth_overflow by exact H.
    assert (Hr : (i - List.length l < List.length (repeat d (n - List.length l)))%nat) by (rewrite repeat_length; lia).
    destruct (nth_error (repeat d (n - List.length l)) (i - List.length l)) as [y|] eqn:E.
    + apply nth_error_In, repeat_spec in E. subst; reflexivity.
    + apply nth_error_None in E. lia.
Qed.

Lemma sstride_defined s st p :
  (exists r, sstride_vals s st p = Some r) <-> (spatial_dim st <=? List.length (p_ss p))%nat = true.
Proof.
  unfold sstride_vals. rewrite omap_defined, forallb_forall. rewrite Nat.leb_le. split.
  - intros H. destruct (spatial_dim st) as [|n] eqn:E; [lia|].
    specialize (H n). rewrite in_seq in H. specialize (H ltac:(lia)).
    destruct (nth_error (p_ss p) n) eqn:E2; [|discriminate]. apply nth_error_Some_lt in E2. lia.
  - intros H i Hi. apply in_seq in Hi.
    destruct (nth_error (p_ss p) i) eqn:E2; [reflexivity|]. apply nth_error_None in E2. lia.
Qed.

Lemma bound_defined s st p : exists r, bound_vals s st p = Some r.
Proof.
  unfold bound_vals. apply oiflat_defined.
  erewrite iforallb_ext with (g := fun _ _ => true).
  - generalize 0%nat. induction (temporal_dims st); intros; simpl; auto.
  - intros i f _ Hf. rewrite Nat.sub_0_r in Hf. apply nth_error_Some_lt in Hf.
    rewrite !nth_error_pad_some by exact Hf. reflexivity.
Qed.

Lemma tstride_defined s st p :
  (exists r, tstride_vals s st p = Some r) <->
  iforallb (fun i f => negb (flag_eqb f FIrrelevant && negb (nthZ (p_ts p) i 0 =? 0))) 0 (temporal_dims st) = true.
Proof.
  unfold tstride_vals. rewrite oiflat_defined.
  erewrite iforallb_ext; [reflexivity|].
  intros i f _ Hf. rewrite Nat.sub_0_r in Hf. apply nth_error_Some_lt in Hf.
  rewrite nth_error_pad_some by exact Hf. unfold nthZ.
  destruct (flag_eqb f FIrrelevant && negb (nth i (p_ts p) 0 =? 0)); reflexivity.
Qed.

Lemma vals_streamer_defined op s st :
  (exists r, vals_streamer op s st = Some r) <->
  match nth_error (s_zero op) s, nth_error (s_pats op) s with
  | Some _, Some p => pat_okb st p = true | _, _ => False end.
Proof.
  unfold vals_streamer.
  destruct (nth_error (s_zero op) s) as [z|]; [|split; [intros [r H]; discriminate|tauto]].
  destruct (nth_error (s_pats op) s) as [p|]; [|split; [intros [r H]; discriminate|tauto]].
  unfold pat_okb. rewrite andb_true_iff, <- (sstride_defined s), <- (tstride_defined s).
  destruct (bound_defined s st p) as [rb Hb]. rewrite Hb.
  split.
  - intros [r H]. destruct (sstride_vals s st p); [|simpl in H; discriminate].
    destruct (tstride_vals s st p); [split; eauto|simpl in H; discriminate].
  - intros [[r1 H1] [r2 H2]]. rewrite H1, H2. simpl. eauto.
Qed.

Theorem setup_vals_defined_iff :
  forall cfg op, (exists l, setup_vals cfg op = Some l) <-> op_okb cfg op = true.
Proof.
  intros cfg op. unfold setup_vals, op_okb.
  assert (G : forall k, (exists r, oiflat (vals_streamer op) k cfg = Some r) <-> op_okb_from k cfg op = true).
  { induction cfg as [|st r IH]; intros k; simpl.
    - split; eauto.
    - pose proof (vals_streamer_defined op k st) as D.
      destruct (nth_error (s_zero op) k) as [z|]; [destruct (nth_error (s_pats op) k) as [p|]|].
      + rewrite andb_true_iff, <- IH, <- D. split.
        * intros [l H]. destruct (vals_streamer op k st); [|discriminate].
          destruct (oiflat (vals_streamer op) (S k) r); [eauto|discriminate].
        * intros [[a Ha] [b Hb]]. rewrite Ha, Hb. eauto.
      + split; [|discriminate]. intros [l H]. destruct (vals_streamer op k st); [|discriminate].
        exfalso. apply D. eauto.
      + split; [|discriminate]. intros [l H]. destruct (vals_streamer op k st); [|discriminate].
        exfalso. apply D. eauto. }
  rewrite <- G. split.
  - intros [l H]. destruct (oiflat (vals_streamer op) 0 cfg); [eauto|discriminate].
  - intros [r H]. rewrite H. simpl. eauto.
Qed.
