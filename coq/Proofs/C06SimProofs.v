(* C06 — simulation infrastructure on the shared semantics (Model/AccSem.v):
   [Rel F a0 fs0 m1 m2]: two machine states agree
     - on the environment outside the ids [F] (fresh ids of a rewrite and ghost state ids),
     - on every register except the fields [fs0] of accelerator [a0],
     - known fields of the first are known in the second, same call counter,
     - event by event: same skeleton and, at a launch, same registers on the fields the first run knows.
   [exec_rel]: every statement that reads no id of [F] at an integer position and (when fs0 <> [])
   contains no launch of [a0] preserves [Rel] — for all nesting, all trip counts. *)
From Snax Require Import Base.Prelude Model.AccIR Model.AccSem Model.C06Overlap Proofs.AccSemProofs.

Definition ev_rel (e1 e2 : event) : Prop :=
  match e1, e2 with
  | ELaunch a kn rg lv, ELaunch a' kn' rg' lv' =>
      a = a' /\ lv = lv' /\ (forall f, In f kn -> rg f = rg' f) /\ (forall f, In f kn -> In f kn')
  | EAwait a, EAwait a' => a = a'
  | ECall g n ar, ECall g' n' ar' => g = g' /\ n = n' /\ ar = ar'
  | EReset a, EReset a' => a = a'
  | _, _ => False
  end.

(* integer read positions of a statement avoid F; a binder may receive a value read at an id of F only
   if the binder itself is in F *)
Definition off (F : list val) (v : val) : Prop := ~ In v F.
Definition bind_ok (F : list val) (k src : val) : Prop := off F src \/ In k F.

Fixpoint reads_off (F : list val) (s : stmt) {struct s} : Prop :=
  let blk := fix blk (b : list stmt) : Prop :=
    match b with [] => True | x :: b' => reads_off F x /\ blk b' end in
  match s with
  | SPure _ e => Forall (off F) (pexp_vals e)
  | SCall _ _ _ _ ar => Forall (off F) ar
  | SSetup _ _ _ fs => Forall (off F) (map snd fs)
  | SLaunch _ _ _ fs => Forall (off F) (map snd fs)
  | SAwait _ _ => True
  | SReset _ _ => True
  | SFor iv lb ub sp iters rs body ys =>
      off F lb /\ off F ub /\ off F sp
      /\ Forall (fun it => bind_ok F (it_arg it) (it_init it)) iters
      /\ Forall (fun ky => bind_ok F (fst ky) (snd ky)) (combine (map it_arg iters) ys)
      /\ Forall (fun ka => bind_ok F (fst ka) (snd ka)) (combine rs (map it_arg iters))
      /\ blk body
  | SIf c rs th thy el ely =>
      off F c
      /\ Forall (fun ky => bind_ok F (fst ky) (snd ky)) (combine (map fst rs) thy)
      /\ Forall (fun ky => bind_ok F (fst ky) (snd ky)) (combine (map fst rs) ely)
      /\ blk th /\ blk el
  end.
Section BlockFns.
Variable F : list val.
Variable a : acc.
Fixpoint block_reads_off (b : block) : Prop :=
  match b with [] => True | x :: b' => reads_off F x /\ block_reads_off b' end.
Fixpoint block_launches (b : block) : bool :=
  match b with [] => false | x :: b' => stmt_launches a x || block_launches b' end.
End BlockFns.

Lemma stmt_launches_for a iv lb ub sp iters rs body ys :
  stmt_launches a (SFor iv lb ub sp iters rs body ys) = block_launches a body.
Proof. reflexivity. Qed.
Lemma stmt_launches_if a c rs th thy el ely :
  stmt_launches a (SIf c rs th thy el ely) = block_launches a th || block_launches a el.
Proof. reflexivity. Qed.

Section Rel.
Variable orc : oracle.
Variable F : list val.
Variable a0 : acc.
Variable fs0 : list field.

Definition regs_rel (r1 r2 : acc -> field -> Z) : Prop :=
  forall a f, ~ (a = a0 /\ In f fs0) -> r1 a f = r2 a f.

Definition Rel (m1 m2 : mstate) : Prop :=
  (forall v, off F v -> env m1 v = env m2 v)
  /\ regs_rel (regs m1) (regs m2)
  /\ (forall a f, In f (known m1 a) -> In f (known m2 a))
  /\ ncalls m1 = ncalls m2
  /\ Forall2 ev_rel (tr m1) (tr m2).

Definition launch_ok (s : stmt) : Prop := fs0 = [] \/ stmt_launches a0 s = false.
Definition block_launch_ok (b : block) : Prop := fs0 = [] \/ block_launches a0 b = false.

(* ---- environment lemmas -------------------------------------------------------------------------- *)
Definition eagree (e1 e2 : envT) : Prop := forall v, off F v -> e1 v = e2 v.

Lemma eagree_upd e1 e2 k x : eagree e1 e2 -> eagree (upd e1 k x) (upd e2 k x).
Proof. intros H v Hv. unfold upd. destruct (Nat.eqb v k); [reflexivity|apply H; exact Hv]. Qed.

Lemma eagree_map e1 e2 l : eagree e1 e2 -> Forall (off F) l -> map e1 l = map e2 l.
Proof.
  intros H Hl. induction Hl as [|x l Hx _ IH]; cbn [map]; [reflexivity|]. rewrite (H x Hx), IH. reflexivity.
Qed.

Lemma eval_pexp_agree e1 e2 p : eagree e1 e2 -> Forall (off F) (pexp_vals p) -> eval_pexp e1 p = eval_pexp e2 p.
Proof.
  intros H Hp. destruct p as [z|a|o a b|c a b|c a b]; cbn [pexp_vals eval_pexp] in *.
  - reflexivity.
  - inversion Hp; subst. apply H; assumption.
  - inversion Hp as [|? ? Ha Hr]; subst. inversion Hr; subst. rewrite (H a Ha), (H b); [reflexivity|assumption].
  - inversion Hp as [|? ? Ha Hr]; subst. inversion Hr; subst. rewrite (H a Ha), (H b); [reflexivity|assumption].
  - inversion Hp as [|? ? Hc Hr]; subst. inversion Hr as [|? ? Ha Hr2]; subst. inversion Hr2; subst.
    rewrite (H c Hc), (H a Ha), (H b); [reflexivity|assumption].
Qed.

Lemma call_results_agree pure n tag : forall dsts i argv e1 e2,
  eagree e1 e2 -> eagree (call_results orc pure n tag i dsts argv e1) (call_results orc pure n tag i dsts argv e2).
Proof.
  induction dsts as [|d ds IH]; intros i argv e1 e2 H; cbn [call_results]; [exact H|].
  apply IH. apply eagree_upd. exact H.
Qed.

(* binding a list of keys to values read from the two environments *)
Lemma bind_list_agree : forall ks srcs e1 e2 b1 b2,
  eagree e1 e2 -> eagree b1 b2 ->
  Forall (fun ks' => bind_ok F (fst ks') (snd ks')) (combine ks srcs) ->
  eagree (bind_list ks (map e1 srcs) b1) (bind_list ks (map e2 srcs) b2).
Proof.
  induction ks as [|k ks IH]; intros srcs e1 e2 b1 b2 He Hb Hok; cbn [bind_list]; [exact Hb|].
  destruct srcs as [|s srcs]; cbn [map bind_list]; [exact Hb|].
  cbn [combine] in Hok. inversion Hok as [|? ? Hk Hr]; subst. cbn [fst snd] in Hk.
  apply IH; [exact He| |exact Hr].
  intros v Hv. unfold upd. destruct (Nat.eqb v k) eqn:E.
  - apply Nat.eqb_eq in E. subst v. destruct Hk as [Hs|Hin]; [apply He; exact Hs|contradiction].
  - apply Hb. exact Hv.
Qed.

Lemma write_fields_agree e1 e2 fs : forall r1 r2 f,
  eagree e1 e2 -> Forall (off F) (map snd fs) ->
  (r1 f = r2 f \/ In f (map fst fs)) -> write_fields e1 fs r1 f = write_fields e2 fs r2 f.
Proof.
  induction fs as [|[g v] fs IH]; intros r1 r2 f He Hv Hr; cbn [write_fields map snd fst] in *.
  - destruct Hr as [Hr|[]]. exact Hr.
  - inversion Hv as [|? ? Hv1 Hv2]; subst. apply IH; [exact He|exact Hv2|].
    destruct (Nat.eqb f g) eqn:E.
    + left. unfold upd. rewrite E. apply He. exact Hv1.
    + destruct Hr as [Hr|[Hg|Hin]].
      * left. unfold upd. rewrite E. exact Hr.
      * subst g. rewrite Nat.eqb_refl in E. discriminate.
      * right. exact Hin.
Qed.

Lemma add_known_mono fs : forall k1 k2 f,
  (forall g, In g k1 -> In g k2) -> In f (add_known fs k1) -> In f (add_known fs k2).
Proof.
  induction fs as [|x fs IH]; intros k1 k2 f Hsub Hin; cbn [add_known] in *; [apply Hsub; exact Hin|].
  apply (IH (if mem_nat x k1 then k1 else x :: k1)); [|exact Hin].
  intros g Hg. destruct (mem_nat x k1) eqn:E1; destruct (mem_nat x k2) eqn:E2.
  - apply Hsub; exact Hg.
  - right. apply Hsub; exact Hg.
  - destruct Hg as [Hg|Hg]; [subst g; apply mem_nat_In; exact E2|apply Hsub; exact Hg].
  - destruct Hg as [Hg|Hg]; [left; exact Hg|right; apply Hsub; exact Hg].
Qed.

Lemma Rel_set_env m1 m2 e1 e2 : Rel m1 m2 -> eagree e1 e2 -> Rel (set_env m1 e1) (set_env m2 e2).
Proof. intros (He & Hr & Hk & Hn & Ht) H. unfold Rel, set_env. cbn. repeat split; assumption. Qed.

Lemma iter_Rel (f1 f2 : nat -> mstate -> mstate) :
  (forall k m1 m2, Rel m1 m2 -> Rel (f1 k m1) (f2 k m2)) ->
  forall n m1 m2, Rel m1 m2 -> Rel (iter_n n f1 m1) (iter_n n f2 m2).
Proof.
  intros Hs n. induction n as [|n IH]; intros m1 m2 HR; cbn [iter_n]; [exact HR|]. apply Hs. apply IH. exact HR.
Qed.

(* ---- the congruence ------------------------------------------------------------------------------------- *)
Definition stmt_cong (s : stmt) : Prop :=
  reads_off F s -> launch_ok s -> forall m1 m2, Rel m1 m2 -> Rel (exec_stmt orc s m1) (exec_stmt orc s m2).
Definition block_cong (b : block) : Prop :=
  block_reads_off F b -> block_launch_ok b -> forall m1 m2, Rel m1 m2 -> Rel (exec_block orc b m1) (exec_block orc b m2).

Lemma reads_off_for iv lb ub sp iters rs body ys :
  reads_off F (SFor iv lb ub sp iters rs body ys) =
  (off F lb /\ off F ub /\ off F sp
   /\ Forall (fun it => bind_ok F (it_arg it) (it_init it)) iters
   /\ Forall (fun ky => bind_ok F (fst ky) (snd ky)) (combine (map it_arg iters) ys)
   /\ Forall (fun ka => bind_ok F (fst ka) (snd ka)) (combine rs (map it_arg iters))
   /\ block_reads_off F body).
Proof. reflexivity. Qed.
Lemma reads_off_if c rs th thy el ely :
  reads_off F (SIf c rs th thy el ely) =
  (off F c
   /\ Forall (fun ky => bind_ok F (fst ky) (snd ky)) (combine (map fst rs) thy)
   /\ Forall (fun ky => bind_ok F (fst ky) (snd ky)) (combine (map fst rs) ely)
   /\ block_reads_off F th /\ block_reads_off F el).
Proof. reflexivity. Qed.

Lemma combine_map_l {A B C} (g : A -> B) (l : list A) (l' : list C) :
  combine (map g l) l' = map (fun p => (g (fst p), snd p)) (combine l l').
Proof. revert l'; induction l as [|x l IH]; intros [|y l']; cbn; [reflexivity|reflexivity|reflexivity|]. rewrite IH. reflexivity. Qed.

Lemma iters_bind_ok iters :
  Forall (fun it => bind_ok F (it_arg it) (it_init it)) iters ->
  Forall (fun ks' => bind_ok F (fst ks') (snd ks')) (combine (map it_arg iters) (map it_init iters)).
Proof.
  induction 1 as [|it iters H _ IH]; cbn [map combine]; constructor; [exact H|exact IH].
Qed.

Lemma exec_rel_stmt : forall s, stmt_cong s.
Proof.
  apply (stmt_ind2 stmt_cong block_cong); unfold stmt_cong, block_cong.
  - (* SPure *)
    intros d e Hro _ m1 m2 HR. cbn [exec_stmt]. cbn [reads_off] in Hro.
    pose proof HR as (He & _). rewrite (eval_pexp_agree _ _ _ He Hro).
    apply Rel_set_env; [exact HR|]. apply eagree_upd. exact He.
  - (* SCall *)
    intros g ef pu ds ar Hro _ m1 m2 (He & Hr & Hk & Hn & Ht). cbn [exec_stmt reads_off] in *.
    unfold exec_call, Rel. cbn [env regs known ncalls tr].
    rewrite (eagree_map _ _ _ He Hro), Hn. repeat split.
    + apply call_results_agree. exact He.
    + destruct ef; [intros a f _; reflexivity|exact Hr].
    + destruct ef; [intros a f []|exact Hk].
    + constructor; [cbn; repeat split|exact Ht].
  - (* SSetup *)
    intros a o i fs Hro _ m1 m2 (He & Hr & Hk & Hn & Ht). cbn [exec_stmt reads_off] in *.
    unfold exec_setup, Rel. cbn [env regs known ncalls tr]. repeat split; try assumption.
    + intros a' f Hne. unfold upd. destruct (Nat.eqb a' a) eqn:E; [|apply Hr; exact Hne].
      apply Nat.eqb_eq in E. subst a'. apply write_fields_agree; [exact He|exact Hro|]. left. apply Hr. exact Hne.
    + intros a' f. unfold upd. destruct (Nat.eqb a' a); [|apply Hk].
      apply add_known_mono. apply Hk.
  - (* SLaunch *)
    intros a k st fs Hro Hl m1 m2 (He & Hr & Hk & Hn & Ht). cbn [exec_stmt reads_off] in *.
    unfold emit, Rel. cbn [env regs known ncalls tr]. repeat split; try assumption.
    constructor; [|exact Ht]. cbn [ev_rel]. repeat split.
    + clear - He Hro. induction fs as [|[f v] fs IH]; cbn [map fst snd] in *; [reflexivity|].
      inversion Hro as [|? ? H1 H2]; subst. rewrite (He v H1), (IH H2). reflexivity.
    + intros f Hf. apply Hr. intros [Ha Hin]. destruct Hl as [Hl|Hl].
      * rewrite Hl in Hin. destruct Hin.
      * cbn [stmt_launches] in Hl. subst a. rewrite Nat.eqb_refl in Hl. discriminate.
    + apply Hk.
  - (* SAwait *)
    intros a k _ _ m1 m2 (He & Hr & Hk & Hn & Ht). cbn [exec_stmt]. unfold emit, Rel. cbn [env regs known ncalls tr].
    repeat split; try assumption. constructor; [reflexivity|exact Ht].
  - (* SReset *)
    intros a st _ _ m1 m2 (He & Hr & Hk & Hn & Ht). cbn [exec_stmt]. unfold emit, Rel. cbn [env regs known ncalls tr].
    repeat split; try assumption. constructor; [reflexivity|exact Ht].
  - (* SFor *)
    intros iv lb ub sp its rs body ys IHb Hro Hl m1 m2 HR.
    rewrite reads_off_for in Hro. destruct Hro as (Hlb & Hub & Hsp & Hits & Hys & Hrs & Hbody).
    assert (Hlb' : block_launch_ok body).
    { destruct Hl as [Hl|Hl]; [left; exact Hl|right]. rewrite stmt_launches_for in Hl. exact Hl. }
    specialize (IHb Hbody Hlb').
    rewrite !exec_stmt_for. unfold exec_for.
    pose proof HR as (He & _).
    rewrite (He lb Hlb), (He ub Hub), (He sp Hsp).
    set (bargs := map it_arg its).
    rewrite <- !(map_map it_init).
    assert (HR0 : Rel (set_env m1 (bind_list bargs (map (env m1) (map it_init its)) (env m1)))
                      (set_env m2 (bind_list bargs (map (env m2) (map it_init its)) (env m2)))).
    { apply Rel_set_env; [exact HR|]. apply bind_list_agree; [exact He|exact He|]. apply iters_bind_ok. exact Hits. }
    assert (Hstep : forall k m1' m2', Rel m1' m2' ->
      Rel (for_step (exec_block orc body) iv bargs ys (env m2 lb) (env m2 sp) k m1')
          (for_step (exec_block orc body) iv bargs ys (env m2 lb) (env m2 sp) k m2')).
    { intros k m1' m2' HR'. unfold for_step.
      assert (HR1 : Rel (set_env m1' (upd (env m1') iv (env m2 lb + Z.of_nat k * env m2 sp)))
                        (set_env m2' (upd (env m2') iv (env m2 lb + Z.of_nat k * env m2 sp)))).
      { apply Rel_set_env; [exact HR'|]. apply eagree_upd. exact (proj1 HR'). }
      pose proof (IHb _ _ HR1) as HR2. pose proof HR2 as (He2 & _).
      apply Rel_set_env; [exact HR2|]. apply bind_list_agree; [exact He2|exact He2|exact Hys]. }
    pose proof (iter_Rel _ _ Hstep (trip_count (env m2 lb) (env m2 ub) (env m2 sp)) _ _ HR0) as HRN.
    pose proof HRN as (HeN & _).
    apply Rel_set_env; [exact HRN|]. apply bind_list_agree; [exact HeN|exact HeN|exact Hrs].
  - (* SIf *)
    intros c rs th thy el ely IHt IHe Hro Hl m1 m2 HR.
    rewrite reads_off_if in Hro. destruct Hro as (Hc & Hty & Hey & Hth & Hel).
    assert (Hl1 : block_launch_ok th /\ block_launch_ok el).
    { destruct Hl as [Hl|Hl]; [split; left; exact Hl|].
      rewrite stmt_launches_if in Hl. apply orb_false_iff in Hl as [H1 H2]. split; right; assumption. }
    destruct Hl1 as [Hl1 Hl2].
    rewrite !exec_stmt_if. unfold exec_if. pose proof HR as (He & _). rewrite (He c Hc).
    destruct (env m2 c =? 0).
    + pose proof (IHe Hel Hl2 _ _ HR) as HR2. pose proof HR2 as (He2 & _).
      apply Rel_set_env; [exact HR2|]. apply bind_list_agree; [exact He2|exact He2|exact Hey].
    + pose proof (IHt Hth Hl1 _ _ HR) as HR2. pose proof HR2 as (He2 & _).
      apply Rel_set_env; [exact HR2|]. apply bind_list_agree; [exact He2|exact He2|exact Hty].
  - (* nil *) intros _ _ m1 m2 HR. exact HR.
  - (* cons *)
    intros s b IHs IHb Hro Hl m1 m2 HR. cbn [block_reads_off] in Hro. destruct Hro as [Hs Hb].
    assert (Hl' : launch_ok s /\ block_launch_ok b).
    { destruct Hl as [Hl|Hl]; [split; left; exact Hl|]. cbn [block_launches] in Hl.
      apply orb_false_iff in Hl as [H1 H2]. split; right; assumption. }
    destruct Hl' as [Hl1 Hl2]. cbn [exec_block]. apply (IHb Hb Hl2). apply (IHs Hs Hl1). exact HR.
Qed.

Lemma exec_rel_block : forall b, block_cong b.
Proof.
  induction b as [|s b IH]; unfold block_cong in *.
  - intros _ _ m1 m2 HR. exact HR.
  - intros Hro Hl m1 m2 HR. cbn [block_reads_off] in Hro. destruct Hro as [Hs Hb].
    assert (Hl' : launch_ok s /\ block_launch_ok b).
    { destruct Hl as [Hl|Hl]; [split; left; exact Hl|]. cbn [block_launches] in Hl.
      apply orb_false_iff in Hl as [H1 H2]. split; right; assumption. }
    destruct Hl' as [Hl1 Hl2]. cbn [exec_block]. apply (IH Hb Hl2). apply (exec_rel_stmt s Hs Hl1). exact HR.
Qed.
End Rel.
