(* C20 — proofs, part 7: convert_generic_body_to_phs (encode) on an SSA body yields a graph that satisfies the
   hypotheses of history_correct: concrete, unique ids (get_id), well-formed switches; plain if the body is. *)
From Snax Require Import Base.Prelude Base.ListAux Model.C20Phs Proofs.C20PhsProofs Proofs.C20DecodeProofs
  Proofs.C20SearchProofs Proofs.C20AppendProofs Proofs.C20HistoryProofs Proofs.C20WfProofs.

(* ---------------------------------------------------------------- get_id gives distinct ids *)
Lemma sig_eqb_refl s : sig_eqb s s = true.
Proof. apply sig_eqb_eq. reflexivity. Qed.

Lemma ids_from_length ops : forall seen, length (ids_from seen ops) = length ops.
Proof. induction ops as [|o r IH]; intros seen; cbn [ids_from length]; [reflexivity|]. rewrite IH. reflexivity. Qed.

Lemma ids_from_ge ops : forall seen id,
  In id (ids_from seen ops) -> (length (filter (sig_eqb (fst id)) seen) <= snd id)%nat.
Proof.
  induction ops as [|o r IH]; intros seen id Hin; cbn [ids_from] in Hin; [contradiction|].
  destruct Hin as [<-|Hin]; [cbn [fst snd]; lia|].
  specialize (IH _ _ Hin). rewrite filter_app, app_length in IH. lia.
Qed.

Lemma ids_from_nodup ops : forall seen, NoDup (ids_from seen ops).
Proof.
  induction ops as [|o r IH]; intros seen; cbn [ids_from]; constructor; [|apply IH].
  intros Hin. apply ids_from_ge in Hin. cbn [fst snd] in Hin.
  rewrite filter_app, app_length in Hin. cbn [filter] in Hin. rewrite sig_eqb_refl in Hin. cbn [length] in Hin. lia.
Qed.

Lemma NoDup_nodup_ids l : NoDup l -> nodup_ids l = true.
Proof.
  induction 1 as [|x r Hx _ IH]; cbn [nodup_ids]; [reflexivity|]. apply andb_true_iff. split; [|exact IH].
  apply negb_true_iff. destruct (existsb (ident_eqb x) r) eqn:E; [|reflexivity].
  apply existsb_exists in E as (y & Hy & Ey). apply ident_eqb_eq in Ey. subst. contradiction.
Qed.

(* ---------------------------------------------------------------- encode_nodes *)
Lemma skipn_nth {A} (l : list A) j x : nth_error l j = Some x -> skipn j l = x :: skipn (S j) l.
Proof.
  revert j. induction l as [|y r IH]; intros [|j] H; cbn [nth_error skipn] in *; try discriminate.
  - inversion H. reflexivity.
  - apply IH. exact H.
Qed.

Lemma conv_ksrc_leaf b ids s o : conv_ksrc b ids s = Some o -> src_is_leaf o = true.
Proof.
  destruct s as [i|j]; cbn [conv_ksrc].
  - destruct (i <? bnargs b)%nat; [|discriminate]. intros H; inversion H; reflexivity.
  - destruct (nth_error ids j); [|discriminate]. intros H; inversion H; reflexivity.
Qed.

Lemma map_opt_conv_leaves b ids l r : map_opt (conv_ksrc b ids) l = Some r -> forallb src_is_leaf r = true.
Proof.
  revert r. induction l as [|s l IH]; intros r H; cbn [map_opt] in H.
  - inversion H. reflexivity.
  - destruct (conv_ksrc b ids s) as [o|] eqn:Eo; [|discriminate].
    destruct (map_opt (conv_ksrc b ids) l) as [r'|] eqn:E; [|discriminate]. inversion H; subst.
    cbn [forallb]. rewrite (conv_ksrc_leaf _ _ _ _ Eo), (IH r' eq_refl). reflexivity.
Qed.

Lemma encode_nodes_spec b ids : forall ops j ns,
  encode_nodes b ids j ops = Some ns ->
  map nsw ns = seq j (length ops) /\
  map nid ns = firstn (length ops) (skipn j ids) /\
  forall n, In n ns -> (exists o, In o ops /\ nops n = [kkind o]) /\ forallb src_is_leaf (nargs n) = true.
Proof.
  induction ops as [|o r IH]; intros j ns H; cbn [encode_nodes] in H.
  - inversion H; subst. split; [reflexivity|split; [reflexivity|intros n []]].
  - destruct (nth_error ids j) as [id|] eqn:Eid; [|discriminate].
    destruct (map_opt (conv_ksrc b ids) (kargs o)) as [args|] eqn:Ea; [|discriminate].
    destruct (encode_nodes b ids (S j) r) as [ns'|] eqn:En; [|discriminate]. inversion H; subst. clear H.
    destruct (IH _ _ En) as (H1 & H2 & H3). cbn [map length seq firstn nsw nid]. split; [|split].
    + rewrite H1. reflexivity.
    + rewrite (skipn_nth _ _ _ Eid). cbn [firstn]. rewrite H2. reflexivity.
    + intros n Hin. destruct Hin as [<-|Hn].
      * split; [exists o; split; [left; reflexivity|reflexivity]|]. cbn [nargs]. eapply map_opt_conv_leaves; eauto.
      * destruct (H3 n Hn) as [(o' & Ho' & Hk) Hl]. split; [|exact Hl]. exists o'. split; [right; exact Ho'|exact Hk].
Qed.

Lemma cnt_seq n i : cnt (seq 0 n) i = one_below n i.
Proof.
  induction n as [|n IH]; [reflexivity|]. rewrite seq_S, cnt_app, IH. cbn [plus]. rewrite cnt_cons, cnt_nil.
  rewrite one_below_S. lia.
Qed.

Lemma leaves_no_mux l : forallb src_is_leaf l = true -> flat_map src_muxes l = [].
Proof.
  induction l as [|s l IH]; cbn [forallb flat_map]; intros H; [reflexivity|].
  apply andb_true_iff in H as [H1 H2]. rewrite (IH H2). destruct s; cbn [src_is_leaf] in H1; try discriminate; reflexivity.
Qed.

(* encode_ok: the graph of an SSA body satisfies every hypothesis history_correct puts on a kernel *)
Theorem encode_ok b g :
  encode b = Some g ->
  is_concrete g = true /\ nodup_ids (map nid (pnodes g)) = true /\ pe_wf g = true.
Proof.
  unfold encode. intros H.
  destruct (encode_nodes b (body_ids b) 0 (bops b)) as [ns|] eqn:En; [|discriminate].
  destruct (byield b) as [|y ys]; [discriminate|].
  destruct (conv_ksrc b (body_ids b) y) as [o|] eqn:Eo; [|discriminate]. inversion H; subst g. clear H.
  destruct (encode_nodes_spec _ _ _ _ _ En) as (H1 & H2 & H3).
  assert (map nid ns = body_ids b) as Hids.
  { rewrite H2. cbn [skipn]. unfold body_ids. rewrite <- (ids_from_length (bops b) []). apply firstn_all. }
  assert (NoDup (map nid ns)) as Hnd by (rewrite Hids; apply ids_from_nodup).
  assert (flat_map node_muxes ns = []) as Hnm.
  { clear - H3. induction ns as [|n r IH]; cbn [flat_map]; [reflexivity|].
    rewrite IH by (intros x Hx; apply H3; right; exact Hx). rewrite app_nil_r.
    unfold node_muxes. apply leaves_no_mux. apply H3. left. reflexivity. }
  pose proof (conv_ksrc_leaf _ _ _ _ Eo) as Hol.
  repeat split.
  - unfold is_concrete. cbn [pnodes pout forallb]. rewrite Hol. rewrite andb_true_r. apply forallb_forall.
    intros n Hn. destruct (H3 n Hn) as [(o' & _ & Hk) Hl]. rewrite Hk, Hl. reflexivity.
  - cbn [pnodes]. apply NoDup_nodup_ids. exact Hnd.
  - apply WF_pe_wf. constructor; cbn [pnodes pnsw pout].
    + intros n Hn. destruct (H3 n Hn) as [(o' & _ & Hk) _]. rewrite Hk. discriminate.
    + exact Hnd.
    + intros i. unfold users. cbn [pnodes pout flat_map]. rewrite Hnm, H1.
      destruct o; cbn [src_is_leaf] in Hol; try discriminate; cbn [src_muxes app]; rewrite cnt_seq, !cnt_nil; lia.
Qed.
