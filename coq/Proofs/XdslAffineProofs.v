(* Lemmas about the hand model of xDSL's AffineExpr smart constructors (Model/XdslAffine.v):
   every constructor preserves `eval`; shape of a sum of two non-constants; decidable equality. *)
From Snax Require Import Base.Prelude Model.XdslAffine.

Lemma akind_eqb_eq a b : akind_eqb a b = true <-> a = b.
Proof. destruct a, b; simpl; split; intros H; try reflexivity; try discriminate. Qed.

Lemma akind_eqb_refl a : akind_eqb a a = true.
Proof. destruct a; reflexivity. Qed.

Lemma aexpr_eqb_eq a : forall b, aexpr_eqb a b = true <-> a = b.
Proof.
  induction a as [p|p|v|k l IHl r IHr]; intros [q|q|u|k' l' r']; simpl; split; intros H;
    try discriminate; try (apply Z.eqb_eq in H; congruence); try (inversion H; subst; apply Z.eqb_refl).
  - apply andb_true_iff in H as [H H3]. apply andb_true_iff in H as [H1 H2].
    apply akind_eqb_eq in H1. apply IHl in H2. apply IHr in H3. congruence.
  - inversion H; subst. rewrite akind_eqb_refl. simpl.
    rewrite (proj2 (IHl l') eq_refl), (proj2 (IHr r') eq_refl). reflexivity.
Qed.

Lemma aexpr_eqb_refl a : aexpr_eqb a a = true.
Proof. apply aexpr_eqb_eq. reflexivity. Qed.

Section Eval.
  Variables dv sv : Z -> Z.
  Notation ev := (eval dv sv).

  Lemma addc_eval s : forall k, ev (addc s k) = ev s + k.
  Proof.
    induction s as [p|p|v|kd l IHl r IHr]; intros k; cbn [addc].
    - destruct (k =? 0) eqn:E; cbn [eval kind_eval]; lia.
    - destruct (k =? 0) eqn:E; cbn [eval kind_eval]; lia.
    - reflexivity.
    - destruct kd; try (destruct (k =? 0) eqn:E; cbn [eval kind_eval]; lia).
      destruct r as [p|p|v|kr rl rr]; try (destruct (k =? 0) eqn:E; cbn [eval kind_eval]; lia).
      destruct (k =? 0) eqn:E; [lia|]. rewrite IHl. cbn [eval kind_eval]. lia.
  Qed.

  Lemma xadd_eval a b : ev (xadd a b) = ev a + ev b.
  Proof.
    unfold xadd. destruct (is_ECst a) eqn:Ea.
    - destruct a; try discriminate. rewrite addc_eval. cbn [eval]. lia.
    - destruct b; try reflexivity. rewrite addc_eval. reflexivity.
  Qed.

  Lemma xadd_nonconst a b : is_ECst a = false -> is_ECst b = false -> xadd a b = EBin KAdd a b.
  Proof. intros Ha Hb. unfold xadd. rewrite Ha. destruct b; try reflexivity. discriminate. Qed.

  Lemma mulc_eval s : forall c, ev (mulc s c) = ev s * c.
  Proof.
    induction s as [p|p|v|kd l IHl r IHr]; intros c; cbn [mulc].
    - destruct (c =? 1) eqn:E; cbn [eval kind_eval]; lia.
    - destruct (c =? 1) eqn:E; cbn [eval kind_eval]; lia.
    - reflexivity.
    - destruct kd; try (destruct (c =? 1) eqn:E; cbn [eval kind_eval]; lia).
      + destruct (c =? 1) eqn:E; [lia|]. rewrite xadd_eval, IHl, IHr. cbn [eval kind_eval]. lia.
      + destruct r as [p|p|v|kr rl rr]; try (destruct (c =? 1) eqn:E; cbn [eval kind_eval]; lia).
        destruct (c =? 1) eqn:E; [lia|]. rewrite IHl. cbn [eval kind_eval]. lia.
  Qed.

  Lemma xmul_eval a b p : xmul a b = Some p -> ev p = ev a * ev b.
  Proof.
    unfold xmul. destruct (is_ECst a) eqn:Ea.
    - destruct a; try discriminate. intros H. injection H as <-. rewrite mulc_eval. cbn [eval]. lia.
    - destruct b; try discriminate. intros H. injection H as <-. rewrite mulc_eval. reflexivity.
  Qed.

  Lemma xneg_eval a : ev (xneg a) = - ev a.
  Proof. destruct a; cbn [xneg]; try rewrite mulc_eval; cbn [eval]; lia. Qed.

  Lemma xsub_eval a b : ev (xsub a b) = ev a - ev b.
  Proof. unfold xsub. rewrite xadd_eval, mulc_eval. lia. Qed.

  Lemma xdivlike_eval k a b p : xdivlike k a b = Some p -> ev p = kind_eval k (ev a) (ev b).
  Proof.
    unfold xdivlike. destruct a, b; try discriminate; intros H; try (injection H as <-; reflexivity).
    destruct (value0 =? 0); [discriminate|]. injection H as <-. reflexivity.
  Qed.
End Eval.
